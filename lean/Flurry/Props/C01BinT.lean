import Flurry.Proto.BinT
import Flurry.Lemmas.LinSearch
import Flurry.Lemmas.BinTLin
import Flurry.Gen.Atomics
/-! # C01 (tree-bin level): the ORIGINAL removal order of `Proto/BinT` (`stepOld`) is **not** linearizable — a machine-checked counterexample (finding F8)

The intended theorem

    theorem bint_linearizable_quiescent (hr : Reachable n s) (hq : quiescent s) (k : Nat) :
        Lin.Linearizable (callsOn s k) none (absOf s k)

is **false** for the original removal order `stepOld` / `ReachableOld` of `Proto/BinT` (faithful to the code before the repair of F8: `TreeBin::find` /
`TreeBin::remove_tree_node` in `src/node.rs` on this point). `cexSchedule` is a 41-step schedule of
three threads that ends in a quiescent state whose history on key `1` is

    ins 1        [ 1,  6] → none          (thread 0)
    get 1        [13, 30] → none          (thread 1, "R1")
    get 1        [31, 37] → some (10,100) (thread 2, "R2", invoked after R1 returned)
    rm  1        [25, 41] → some (10,100) (thread 0, "W2")

R1 answers "absent", so the removal has to be ordered before R1; R2 starts after R1 has returned and
answers "present", and there is no second insert: no legal order exists.

The window. A reader of a tree bin looks at `lock_state` for every list element and, if a writer
holds or waits for the tree lock, takes a *linear* step: compare the key of the element, load its
`next`. These are separate memory accesses (`rState`, then `rLin`), so the decision "linear" can be
**stale**:

1. R1 (`get 1`) stands on list element `1` and reads `lock_state` while W1 (an insert of key `2` that
   rebalances) holds the write lock: R1 decides to take a linear step (`rLin 1`) — and is preempted.
2. W1 finishes (`unlock_root`, mutex released). W2 (`rm 1`) takes the mutex, finds node `0` (key `1`)
   and **unlinks it from the list** (`node 1 .next := none`) — it has not yet called `lock_root`, so
   `lock_state = 0` and node `0` is still in the tree.
3. R1 resumes its linear step: key of element `1` is `0 ≠ 1`, `next = none`: R1 returns **absent**.
4. R2 (`get 1`) is invoked, sees `lock_state = 0`, takes the read lock, searches the *tree*, finds
   node `0`, and returns **present** (value `(10, 100)`).
5. W2 goes on: `lock_root`, tree removal, `unlock_root`, unlock, returns `some (10, 100)`.

Between the list unlink and `lock_root` of a removal the two views of the bin disagree (the list
misses the node, the tree has it); readers are meant to be on the tree side of this window (no
writer/waiter bit is set), but a reader whose "linear" decision dates from the *previous* writer is on
the list side. Everything is sequentially consistent; the anomaly needs R1 to be descheduled between
two adjacent loads for a whole writer hand-over, and W2 to be descheduled between its unlink and its
`lock_root` for a whole `get`.

`bint_not_linearizable` is proved by kernel evaluation (`decide`) of the schedule and of the
(sound and complete, `Lin.search_isSome_iff`) linearizability checker. -/
namespace Flurry.Proto.BinT
open Flurry.Lin

/-- run a schedule of `(thread, invocation, bal)` triples; `none` if some step is not enabled -/
def run (s : State) : List (Nat × Option (Nat × KOp) × Bool) → Option State
  | [] => some s
  | (t, inv, bal) :: rest =>
    match stepOld s t inv bal with
    | some s' => run s' rest
    | none => none

theorem run_reachable {n : Nat} : ∀ (sched : List (Nat × Option (Nat × KOp) × Bool)) {s s' : State},
    ReachableOld n s → run s sched = some s' → ReachableOld n s'
  | [], s, s', hr, h => by
    simp only [run, Option.some.injEq] at h
    exact h ▸ hr
  | (t, inv, bal) :: rest, s, s', hr, h => by
    simp only [run] at h
    cases hs : stepOld s t inv bal with
    | none => rw [hs] at h; cases h
    | some s1 =>
      rw [hs] at h
      exact run_reachable rest (ReachableOld.step t inv bal hr hs) h

/-- a step of thread `t` that is not an invocation (`bal = false`) -/
abbrev go (t : Nat) : Nat × Option (Nat × KOp) × Bool := (t, none, false)

/-- thread 0: the writers (set-up, W1, W2); thread 1: R1; thread 2: R2 -/
def cexSchedule : List (Nat × Option (Nat × KOp) × Bool) :=
  [ -- set-up: `ins 1` (node 0), `ins 0` (node 1): list `1 → 0`, both in the tree
    (0, some (1, .ins 10 100), false), go 0, go 0, go 0, go 0, go 0,
    (0, some (0, .ins 20 101), false), go 0, go 0, go 0, go 0, go 0,
    -- R1 = `get 1`: invoked, loads `first`: stands on element 1
    (1, some (1, .get), false), go 1,
    -- W1 = `ins 2` with rebalancing: mutex, find, prepend node 2, tree link, `lock_root` succeeds
    (0, some (2, .ins 30 102), false), go 0, go 0, go 0, (0, none, true), go 0,
    -- R1 reads `lock_state`: WRITER is set: decides on a linear step (`rLin 1`)
    go 1,
    -- W1: rebalance, `unlock_root`, unlock the mutex
    go 0, go 0, go 0,
    -- W2 = `rm 1`: invoked, mutex, find (node 0), unlink node 0 from the list (`node 1 .next := none`)
    (0, some (1, .rm), false), go 0, go 0, go 0,
    -- R1: the (stale) linear step on element 1: other key, `next = none`; returns "absent"
    go 1, go 1,
    -- R2 = `get 1`: invoked, `first`, `lock_state = 0`, CAS in as reader, tree search finds node 0,
    -- release, load the value: returns `some (10, 100)`
    (2, some (1, .get), false), go 2, go 2, go 2, go 2, go 2, go 2,
    -- W2: `lock_root`, tree removal, `unlock_root`, unlock the mutex: returns `some (10, 100)`
    go 0, go 0, go 0, go 0 ]

/-- the executable form of the counterexample: the schedule runs, ends quiescent, and the complete
search finds no linearization of the calls on key `1` -/
def cexCheck : Bool :=
  match run (init 3) cexSchedule with
  | some s => s.threads.all (fun l => l.pc == .idle) && (search (callsOn s 1) none (absOf s 1)).isNone
  | none => false

theorem cexCheck_true : cexCheck = true := by decide

/-- the history of key `1` at the end of the schedule -/
theorem cex_history : (run (init 3) cexSchedule).map (fun s => (callsOn s 1, absOf s 1)) =
    some ([ ⟨0, .ins 10 100, .none, 1, 6⟩, ⟨1, .get, .none, 13, 30⟩, ⟨2, .get, .some 10 100, 31, 37⟩,
            ⟨0, .rm, .some 10 100, 25, 41⟩ ], none) := by decide

/-- **Counterexample.** A reachable quiescent state of the tree-bin model whose history on key `1`
is not linearizable. -/
theorem bint_not_linearizable :
    ∃ s : State, ReachableOld 3 s ∧ quiescent s ∧ ¬ Lin.Linearizable (callsOn s 1) none (absOf s 1) := by
  have h := cexCheck_true
  unfold cexCheck at h
  cases hrun : run (init 3) cexSchedule with
  | none => rw [hrun] at h; cases h
  | some s =>
    rw [hrun] at h
    simp only [Bool.and_eq_true, List.all_eq_true, beq_iff_eq, Option.isNone_iff_eq_none] at h
    exact ⟨s, run_reachable cexSchedule ReachableOld.init hrun, h.1, search_eq_none_iff.1 h.2⟩

/-- the intended theorem `bint_linearizable_quiescent` is refuted -/
theorem not_bint_linearizable_quiescent :
    ¬ ∀ (n : Nat) (s : State), ReachableOld n s → quiescent s → ∀ k : Nat,
        Lin.Linearizable (callsOn s k) none (absOf s k) := by
  intro hall
  obtain ⟨s, hr, hq, hn⟩ := bint_not_linearizable
  exact hn (hall 3 s hr hq 1)

/-! # The repaired order: one tree bin is linearizable under every interleaving

`Reachable` is reachability under `step = stepG true`: a removal takes the tree's write lock
*before* it unlinks the node from the list (`wUnlinkLocked`). For every reachable state and every
key, the history of that key — the completed calls, plus the calls of writers that are past their
linearization point (`callsOnExt`) — is linearizable from "absent" to the **ghost** abstract state
`gAbs` (the node with that key that is both on the list and in the tree); `gAbs = absOf` whenever no
thread holds the write lock, in particular in quiescent states.

Linearization points: a value store (`insert` on a present key, `compute_if_present`) at `wVal`; an
insert of a new key at `wTreeLink` (the prepended node counts once it is in the tree: a list-walking
reader can only stand on it after that, because the lock bits are clear until then); a removal at
`wUnlinkLocked` (the list unlink under the write lock: no tree-mode reader exists, and list-walking
readers — also those whose "linear" decision is stale — see the list); writers that change nothing at
`wFind`; readers in hindsight (`Good`, `ValWit` in `Lemmas/BinTGhost.lean`). The structural
invariant is `Inv` (`Lemmas/BinTInv.lean`, `reachable_inv`). -/

theorem init_ginv (n k : Nat) : GInv k (init n) (fun _ => none) id := by
  have hthr : ∀ (t : Nat) (l : Local), (init n).threads[t]? = some l → l = {} := fun t l h => init_threads h
  have hnil : callsOnExt (init n) k = [] := by
    rw [List.eq_nil_iff_forall_not_mem]
    intro c hc
    rcases mem_callsOnExt.1 hc with hc | ⟨t, l, hl, he⟩
    · simp [init] at hc
    · rw [hthr t l hl] at he
      cases he
  refine ⟨rfl, ?_, ?_, ?_, ?_, ?_⟩
  · symm
    rw [gAbs_eq_none_iff]
    intro i hi
    simp [chain, init, chainFrom] at hi
  · intro c hc; rw [hnil] at hc; cases hc
  · intro τ h1 h2
    have : (init n).now = 0 := rfl
    omega
  · intro c hc; rw [hnil] at hc; cases hc
  · intro t l p hl hc
    rw [hthr t l hl] at hc
    cases hc

/-- the ghost invariant holds in every reachable state -/
theorem reachable_ginv {n : Nat} {s : State} (hr : Reachable n s) (k : Nat) :
    ∃ A pt, GInv k s A pt := by
  induction hr with
  | init => exact ⟨_, _, init_ginv n k⟩
  | @step s s' t inv bal hr hs ih =>
    obtain ⟨A, pt, g⟩ := ih
    cases hl : s.threads[t]? with
    | none => unfold step stepG at hs; rw [hl] at hs; cases hs
    | some l => exact ginv_step g (reachable_inv hr) hl (step_stepK hl hs)

/-- from the ghost invariant to linearizability (the trace lemma) -/
theorem GInv.linearizable {k : Nat} {s : State} {A : Nat → KSt} {pt : Nat → Nat}
    (g : GInv k s A pt) (I : Inv s) : Linearizable (callsOnExt s k) none (gAbs s k) := by
  have h := lin_of_trace (h := callsOnExt s k) A s.now (fun c => pt c.inv) ?_ ?_ ?_ ?_ ?_
  · rw [g.h0, g.hA] at h; exact h
  · intro c hc
    obtain ⟨h1, h2, -, -⟩ := g.calls c hc
    have := callsOnExt_resp_le I.thr hc
    exact ⟨h1, h2, by omega⟩
  · intro c hc hw; exact (g.calls c hc).2.2.2 hw
  · intro c hc hrd; exact (g.calls c hc).2.2.1 hrd
  · refine (callsOnExt_pairwise I.thr k).imp_of_mem ?_
    intro c d hc hd hne hwc hwd hpe
    exact hne (g.inj c hc d hd hwc hwd hpe)
  · intro τ h1 h2 hno
    apply Classical.byContradiction
    intro hne
    obtain ⟨c, hc, hw, hp⟩ := g.stab τ h1 h2 hne
    exact hno c hc hw hp

/-- the writer calls of the extended history -/
def writerCallsOn (s : State) (k : Nat) : History := (callsOnExt s k).filter (fun c => !isRead c.op)

theorem GInv.linearizable_writers {k : Nat} {s : State} {A : Nat → KSt} {pt : Nat → Nat}
    (g : GInv k s A pt) (I : Inv s) : Linearizable (writerCallsOn s k) none (gAbs s k) := by
  have hmem : ∀ c, c ∈ writerCallsOn s k ↔ c ∈ callsOnExt s k ∧ isRead c.op = false := by
    intro c; simp [writerCallsOn, List.mem_filter]
  have h := lin_of_trace (h := writerCallsOn s k) A s.now (fun c => pt c.inv) ?_ ?_ ?_ ?_ ?_
  · rw [g.h0, g.hA] at h; exact h
  · intro c hc
    have hc := ((hmem c).1 hc).1
    obtain ⟨h1, h2, -, -⟩ := g.calls c hc
    have := callsOnExt_resp_le I.thr hc
    exact ⟨h1, h2, by omega⟩
  · intro c hc hw; exact (g.calls c ((hmem c).1 hc).1).2.2.2 hw
  · intro c hc hrd; exact (g.calls c ((hmem c).1 hc).1).2.2.1 hrd
  · refine ((callsOnExt_pairwise I.thr k).filter _).imp_of_mem ?_
    intro c d hc hd hne hwc hwd hpe
    exact hne (g.inj c ((hmem c).1 hc).1 d ((hmem d).1 hd).1 hwc hwd hpe)
  · intro τ h1 h2 hno
    apply Classical.byContradiction
    intro hne
    obtain ⟨c, hc, hw, hp⟩ := g.stab τ h1 h2 hne
    exact hno c ((hmem c).2 ⟨hc, hw⟩) hw hp

/-- **Structural invariant** of the repaired tree-bin model (heap, threads and times, locks, and the
relation between list and tree): `Inv` holds in every reachable state. -/
theorem bint_inv {n : Nat} {s : State} (hr : Reachable n s) : Inv s := reachable_inv hr

/-- in a state in which no thread holds the tree's write lock the ghost state is the abstract state -/
theorem gAbs_eq_absOf_of_reachable {n : Nat} {s : State} (hr : Reachable n s) (hw : s.writer = false) (k : Nat) :
    gAbs s k = absOf s k :=
  (reachable_inv hr).gAbs_eq_absOf_of_no_writer hw k

theorem writer_false_of_quiescent {n : Nat} {s : State} (hr : Reachable n s) (hq : quiescent s) :
    s.writer = false := by
  have I := reachable_inv hr
  cases hw : s.writer with
  | false => rfl
  | true =>
    have hb : (s.writer || s.waiter) = true := by rw [hw]; rfl
    obtain ⟨h, l, hl, _, hpc⟩ := I.lock.bits_holder hb
    rw [hq l (List.mem_of_getElem? hl)] at hpc
    rcases hpc with h | h <;> cases h

/-- **writers-only linearizability** (ghost state; = `absOf` when `writer` is clear) -/
theorem bint_linearizable_writers {n : Nat} {s : State} (hr : Reachable n s) (k : Nat) :
    Lin.Linearizable (writerCallsOn s k) none (gAbs s k) := by
  obtain ⟨A, pt, g⟩ := reachable_ginv hr k
  exact g.linearizable_writers (reachable_inv hr)

/-- **C01, tree-bin level (repaired order).** Under every interleaving of any number of threads, the
per-key history of a tree bin (completed calls plus writers past their linearization point) is
linearizable and ends in the ghost abstract state. -/
theorem bint_linearizable {n : Nat} {s : State} (hr : Reachable n s) (k : Nat) :
    Lin.Linearizable (callsOnExt s k) none (gAbs s k) := by
  obtain ⟨A, pt, g⟩ := reachable_ginv hr k
  exact g.linearizable (reachable_inv hr)

/-- … and in the abstract state (tree membership) whenever no thread holds the tree's write lock -/
theorem bint_linearizable_unlocked {n : Nat} {s : State} (hr : Reachable n s) (hw : s.writer = false) (k : Nat) :
    Lin.Linearizable (callsOnExt s k) none (absOf s k) := by
  rw [← gAbs_eq_absOf_of_reachable hr hw k]
  exact bint_linearizable hr k

/-- **C01, tree-bin level, quiescent form.** -/
theorem bint_linearizable_quiescent {n : Nat} {s : State} (hr : Reachable n s) (hq : quiescent s) (k : Nat) :
    Lin.Linearizable (callsOn s k) none (absOf s k) := by
  have := bint_linearizable_unlocked hr (writer_false_of_quiescent hr hq) k
  rw [callsOnExt_quiescent hq] at this
  exact this

/-! ## the tie to the source: the order of the model's steps is the order of the code

`Proto/BinT.step` removes a node by `lock_root`, list unlink, tree removal, `unlock_root`, and
inserts a new key by list prepend, tree link, and only then (if it has to rebalance) `lock_root`.
These orders are regenerated from `src/node.rs` on every run (`Gen/Atomics.lean`: `lock_root` /
`unlock_root` and the runs of stores to list cells `first`/`next`/`prev` and to tree links
`left`/`right`/`root`/`parent`/`red`, in source order). With the original order of
`remove_tree_node` (`["store:list", "lock_root", "store:tree", "unlock_root"]`, finding F8) the first
theorem is false. -/
section Tie
open Flurry.Gen

theorem remove_locks_before_unlink :
    removeTreeNodeOrder = ["lock_root", "store:list", "store:tree", "unlock_root"] := by decide

/-- (the leading `store:tree`, `store:list` is the empty-bin case: `root` and `first` of a bin
that no reader can have reached through the tree yet). Since the repair of finding F9 the source
takes the write lock *before* the store to `first`; the model in this file still prepends and
links before it locks (linearizable for readers that follow the lock protocol, which is what the
theorems of this file are about). The model of the code as it is now — lock first, and readers
that walk the list without the lock (iterators) — is `Proto/BinU` (`Props/C01BinU.lean`). -/
theorem insert_locks_before_prepend :
    findOrPutTreeValOrder = ["store:tree", "store:list", "lock_root", "store:list", "store:tree", "unlock_root"] := by
  decide

end Tie

end Flurry.Proto.BinT
