import Flurry.Lemmas.Iter
/-! # C07 — iterators are weakly consistent, also across resizes

**Strength: full for frozen structures, partial for concurrent mutation.** `Seq/Iter.lean` is the
traverser (`NodeIter` with its `TableStack`, `push_state`, `recover_state`) over a chain of tables
in which any subset of bins has been forwarded, to any depth. Proved: it terminates and yields
exactly the entries a lookup would find, each once (`traverse_frozen`) — the situation of an
iterator running while one or several nested resizes are paused between bins. The model is
compared with the real iterator on dumped table chains. For iteration concurrent with inserts,
removals and tree conversions, weak consistency is judged on recorded histories of the real
code (`[iter]` oracle of the harness): a key present and untouched throughout is yielded exactly
once, and every yielded pair was in the map at some moment of the iteration. -/
namespace Flurry.C07
open Flurry.Seq.Iter

/-- the traverser terminates (within `fuelFor c` turns) and yields exactly `contents c` -/
theorem traverse_frozen (c : Chain) (h : ChainWF c) :
    traverse c (fuelFor c) (initSt c) = contents c := Flurry.Seq.Iter.traverse_frozen h

/-- … each entry once -/
theorem yields_each_once (c : Chain) (h : ChainWF c) (hn : (contents c).Nodup) :
    (traverse c (fuelFor c) (initSt c)).Nodup := traverse_nodup h hn

/-- more fuel changes nothing: the traversal has ended -/
theorem terminates (c : Chain) (h : ChainWF c) (k : Nat) :
    traverse c (fuelFor c + k) (initSt c) = traverse c (fuelFor c) (initSt c) := no_fuel_needed_more h k

/-- without forwarding the order is bin by bin (the iteration order of the sequential model) -/
theorem quiescent_order (t : FTable) (h : ∀ b ∈ t, b ≠ .moved) :
    traverse [t] (fuelFor [t]) (initSt [t]) = t.flatMap FBin.toList := traverse_single t h

end Flurry.C07
