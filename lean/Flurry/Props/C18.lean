import Flurry.Lemmas.SeqOps
/-! # C18 — panicking callbacks leave the map consistent

Callbacks are data in the model: `compute_if_present` carries the closure's behaviour `f key value
value_id : CbRes` (`keep`, `remove` or `panic`), `retain` the predicate's
(`Option Bool`, `none` = panic). The lemmas are in `Flurry/Lemmas/SeqOpsCip.lean`,
`SeqOpsRetain.lean`. -/
namespace Flurry.C18
open Flurry Flurry.Gen Flurry.Seq

/-- **a panicking `compute_if_present` changes nothing**: the state is *the same state* (a present
key means the table exists, so not even the lazy allocation happens) -/
theorem cip_panic_unchanged (m : Map) (hg : Good m) (k : Nat) (f : Nat → Nat → Nat → CbRes)
    (hp : (computeIfPresent k f m).2 = .panic) :
    (computeIfPresent k f m).1 = m ∧ absMap (computeIfPresent k f m).1 = absMap m ∧
    Good (computeIfPresent k f m).1 := by
  have h1 := cip_unchanged hg (Or.inl hp)
  obtain ⟨ki, v, vi, ha, -⟩ := (cip_panic_iff hg).1 hp
  have hne : m.table ≠ none := by
    intro hn
    simp [absMap, get_of_table_none hn] at ha
  have h2 : (computeIfPresent k f m).1 = m := by rw [h1, hg.initTable_eq hne]
  rw [h2]
  exact ⟨rfl, rfl, hg⟩

/-- when exactly the answer is `panic` -/
theorem cip_panics_iff (m : Map) (hg : Good m) (k : Nat) (f : Nat → Nat → Nat → CbRes) :
    (computeIfPresent k f m).2 = .panic ↔
      ∃ ki v vi, absMap m k = some (ki, v, vi) ∧ f k v vi = .panic :=
  cip_panic_iff hg

/-- **no write before the callback**: if the key is absent (the callback is not called) or the
callback panics on the value it is shown, the resulting state is exactly `initTable m` — the state
in which the callback was (or would have been) called; and that is `m` itself once the table
exists. So everything `compute_if_present` writes, it writes after the callback has returned. -/
theorem cip_no_write_before_callback (m : Map) (hg : Good m) (k : Nat) (f : Nat → Nat → Nat → CbRes)
    (h : absMap m k = none ∨ ∃ ki v vi, absMap m k = some (ki, v, vi) ∧ f k v vi = .panic) :
    (computeIfPresent k f m).1 = initTable m ∧ (m.table ≠ none → initTable m = m) ∧
    absMap (initTable m) = absMap m := by
  refine ⟨?_, hg.initTable_eq, (initTable_same m).absMap_eq⟩
  rcases h with h | h
  · exact cip_unchanged hg (Or.inr h)
  · exact cip_unchanged hg (Or.inl ((cip_panic_iff hg).2 h))

/-- **`retain` with a predicate that panics part-way**: if the predicate first panics at the entry
`nd` (it answers on all entries `l₁` iterated before), then `retain` answers `panic` and the state
is what processing exactly `l₁` gives: a `Good` state in which the entries of `l₁` that the
predicate rejected are gone and every other entry — in particular `nd` and everything after it —
is untouched; table, threshold and resize counter are untouched. -/
theorem retain_panic_prefix (m : Map) (hg : Good m) (force : Bool) (f : Nat → Nat → Nat → Option Bool)
    (l₁ l₂ : List Node) (nd : Node) (he : entries m = l₁ ++ nd :: l₂)
    (ht : ∀ x ∈ l₁, (f x.key x.val x.vi).isSome) (hp : f nd.key nd.val nd.vi = none) :
    retain force f m = ((retainGo force f l₁ m).1, .panic) ∧
    Good (retain force f m).1 ∧
    (∀ k, absMap (retain force f m).1 k =
      match absMap m k with
      | some (ki, v, vi) =>
        if (∃ x ∈ l₁, x.key = k) ∧ f k v vi = some false then none else some (ki, v, vi)
      | none => none) ∧
    tableLen (retain force f m).1 = tableLen m ∧ (retain force f m).1.resizes = m.resizes := by
  obtain ⟨hnd, hin⟩ := entries_snapshot hg
  have hnd1 : KeysNodup l₁ := by rw [he] at hnd; exact keysNodup_append_left hnd
  have hin1 : ∀ x ∈ l₁, get x.key m = some x := fun x hx => hin x (by rw [he]; simp [hx])
  have hs := retainGo_spec force f l₁ m hg hnd1 hin1 ht
  have hr : retain force f m = ((retainGo force f l₁ m).1, .panic) := by
    unfold retain; rw [he]; exact retainGo_panic_prefix force l₁ l₂ m ht hp
  rw [hr]
  exact ⟨rfl, hs.good, hs.absMap_apply hg (fun x hx => by rw [he]; simp [hx]), hs.tableLen_eq,
    hs.resizes_eq⟩

/-- the loop, structurally: processing `l₁ ++ l₂` is processing `l₁` and, unless the predicate
panicked, going on with `l₂` -/
theorem retain_loop_append (force : Bool) (f : Nat → Nat → Nat → Option Bool) (l₁ l₂ : List Node)
    (m : Map) :
    retainGo force f (l₁ ++ l₂) m =
      if (retainGo force f l₁ m).2 = .panic then retainGo force f l₁ m
      else retainGo force f l₂ (retainGo force f l₁ m).1 :=
  retainGo_append force f l₁ l₂ m

/-- **after a panic the map goes on working**: the state after *any* operation (in particular one
that answered `panic`) is `Good`, so every later operation sequence refines the reference map
started from that state's abstract map. -/
theorem after_panic_continues (m : Map) (hg : Good m) (op : Op) (_hp : (step m op).2 = .panic)
    (ops : List Op) (ht : ∀ o ∈ ops, o.total) :
    Good (step m op).1 ∧ Good (run (step m op).1 ops).1 ∧
    absMap (run (step m op).1 ops).1 = (Ref.run (absMap (step m op).1) ops).1 ∧
    ∀ (i : Nat) (o : Op), ops[i]? = some o → o.answered = true →
      (run (step m op).1 ops).2[i]? = (Ref.run (absMap (step m op).1) ops).2[i]? := by
  have hg' := step_good hg op
  obtain ⟨a, b, _, _, e⟩ := run_refines hg' ops ht
  exact ⟨hg', a, b, e⟩

/-- what the abstract map is after a panicking operation: unchanged for `compute_if_present` -/
theorem cip_panic_absMap (m : Map) (hg : Good m) (k : Nat) (f : Nat → Nat → Nat → CbRes)
    (hp : (step m (.cip k f)).2 = .panic) : absMap (step m (.cip k f)).1 = absMap m := by
  have : (computeIfPresent k f m).2 = .panic := by
    simp only [step] at hp
    cases h : (computeIfPresent k f m).2 <;> rw [h] at hp <;> first | rfl | cases hp
  exact (cip_panic_unchanged m hg k f this).2.1

/-! ## the hypotheses are satisfiable -/

example : Good ex2 := ex2_good
example : (computeIfPresent 1 (fun _ _ _ => .panic) ex2).2 = .panic := by decide
example : (computeIfPresent 1 (fun _ _ _ => .panic) ex2).1 = ex2 :=
  (cip_panic_unchanged ex2 ex2_good 1 _ (by decide)).1
/-- a predicate that drops key `1` and panics at key `2`: key `1` is gone, key `2` is still there -/
example : let r := retain false (fun k _ _ => if k = 1 then some false else none) ex2
    r.2 = .panic ∧ absMap r.1 1 = none ∧ absMap r.1 2 = some (8, 20, 200) := by decide

end Flurry.C18
