import Flurry.Lemmas.BinGNProgSolo
/-! # C12 for `Proto/BinGN`: reads never block and finish in a bounded number of their own steps — through ANY
number of resizes

> `get`, `get_key_value`, `contains_key`, iterators … never acquire a bin lock and never wait for a writer: a reader
> finishes in a bounded number of its own steps even while any other thread is suspended at an arbitrary point —
> including while holding a bin lock, while holding or waiting for a tree bin's write lock, in the middle of moving a
> bin (of any generation), or in the middle of a treeify.

Port of `Props/C12BinG.lean` to the small-step model `Proto/BinGN` (one bin lineage with list and tree bins through any
number of successive resizes, cells `(g, j)`), over **all** reachable states — any number of threads, steps,
interleavings and generations; the other threads are "suspended at an arbitrary point" because the theorems quantify
over every reachable state and then move only thread `t`:

1. `reader_step_enabled` — the step of a thread at a reader pc (list readers `lFirst`, `lNode` included) is enabled in
   every reachable state, for every value of the scheduler's arguments (`pick` included);
2. `reader_step_frame` — that step takes no lock and stores nothing: `Frame` (heap, ALL cells of ALL generations,
   table pointer, resize flag, `first` / mutex / `WRITER` / `WAITER` of every `TreeBin`, all other threads);
3. `reader_solo_terminates` — running alone (`runSolo`), the reader is `idle` again, with its call appended to `hist`,
   after at most `soloBound s = s.tabs.length + 4 * s.heap.length + 10` steps. In BinGN a reader may follow several
   forwarding markers (one per generation between the table pointer it loaded — possibly long ago — and the newest
   table): the measure of `rCell _ g` is `(s.tabs.length - g) + 4 * s.heap.length + 8`; a `moved` cell of
   generation `g` exists only if `g < s.tabs.length`, so every hop decreases it.

Proofs (scripted port of `Lemmas/BinGProg*.lean` into the namespace `Flurry.Proto.BinGNP`): `Lemmas/BinGNProgInv.lean`
(auxiliary invariant `BInv`), `Lemmas/BinGNProgEn.lean` (when is a step enabled), `Lemmas/BinGNProgRead.lean` (the
measure `mu`), `Lemmas/BinGNProgSolo.lean` (the induction). The theorems live in `Flurry.Proto.BinGNProg`. -/
namespace Flurry.Proto.BinGNProg
open Flurry.Lin
open Flurry.Proto.BinGNP

/-- **C12.1: a reader's step is never disabled.** In every reachable state of `Proto/BinGN`, for every thread at a
reader pc (`rTable, rCell, rNode, rFirst, rState, rLin, rCas, rTree, rRelease, rVal` and the list-only readers
`lFirst, lNode`) and every value of the scheduler's arguments, the step of that thread is enabled: no state of the
other threads — holding a node lock or a bin mutex, holding or waiting for the write lock (`WAITER` set), in the
middle of the transfer of any cell of any generation, mid-treeify — disables a reader. -/
theorem reader_step_enabled {n : Nat} {s : State} (hr : Reachable n s) {t : Nat} {l : Local}
    (hl : s.threads[t]? = some l) (hrd : readerPc l.pc = true) (inv : Option (Nat × KOp)) (lo : Bool)
    (mt : Option Nat) (rz sm sm2 : Bool) (pick : Nat) : (step s t inv lo mt rz sm sm2 pick).isSome = true := by
  obtain ⟨p, s', -, hs, -⟩ :=
    reader_step_aux (reachable_inv hr) (reachable_binv hr) hl hrd inv lo mt rz sm sm2 pick
  rw [hs]; rfl

/-- **C12.2: a reader takes no lock and stores nothing.** A step of a thread at a reader pc leaves the heap (hence
every lock word, value and `next`), the cells of all generations (`tabs`), the table pointer, the resize flag, the
`first` field, the mutex, the `WRITER` and the `WAITER` bit of every `TreeBin`, and all other threads as they are;
only the reader count of one `TreeBin`, the thread's own local state, the clock and `hist` may change (no
reachability assumption needed). -/
theorem reader_step_frame {s s' : State} {t : Nat} {l : Local} (hl : s.threads[t]? = some l)
    (hrd : readerPc l.pc = true) {inv : Option (Nat × KOp)} {lo : Bool} {mt : Option Nat} {rz sm sm2 : Bool}
    {pick : Nat} (hs : step s t inv lo mt rz sm sm2 pick = some s') : Frame t s s' :=
  reader_step_frame_aux hl hrd hs

/-- one step of a reader in full: enabled; the thread has returned (`idle`, one entry added to `hist`) or is at a
reader pc with a strictly smaller measure `mu` -/
theorem reader_step {n : Nat} {s : State} (hr : Reachable n s) {t : Nat} {l : Local}
    (hl : s.threads[t]? = some l) (hrd : readerPc l.pc = true) (inv : Option (Nat × KOp)) (lo : Bool)
    (mt : Option Nat) (rz sm sm2 : Bool) (pick : Nat) :
    ∃ p s', l.call = some p ∧ step s t inv lo mt rz sm sm2 pick = some s' ∧ Outcome s t p l.pc s' :=
  reader_step_aux (reachable_inv hr) (reachable_binv hr) hl hrd inv lo mt rz sm sm2 pick

/-- **C12.3: bounded own steps.** From every reachable state, a thread at a reader pc that runs alone — all other
threads suspended wherever they are: a writer holding the bin lock or waiting for it, a tree writer holding the mutex,
holding the write lock or parked with `WAITER` set, a resizing thread anywhere in the middle of moving any bin, a
treeify in progress — has returned (`idle`, its call appended to `hist`) after at most
`soloBound s = s.tabs.length + 4 * s.heap.length + 10` of its own steps (table pointer; at most one forwarding hop per
generation; `first`; then at most two steps per node of a chain whose length is bounded through `rank` by twice the
heap size, with at most one failed CAS on the lock word), all of them enabled, and has touched nothing but a reader
count (`Frame`). -/
theorem reader_solo_terminates {n : Nat} {s : State} (hr : Reachable n s) {t : Nat} {l : Local}
    (hl : s.threads[t]? = some l) (hrd : readerPc l.pc = true) (sm sm2 : Bool) :
    ∃ k, k ≤ soloBound s ∧ ∃ s' p res resp, l.call = some p ∧ runSolo t sm sm2 k s = some s' ∧
      Frame t s s' ∧ s'.threads[t]? = some { pc := .idle, call := none } ∧
      s'.hist = (p.key, { tid := t, op := p.op, res := res, inv := p.inv, resp := resp }) :: s.hist :=
  reader_solo_terminates_aux hr hl hrd sm sm2

/-- the bound is an explicit function of the number of generations and of the heap size -/
theorem soloBound_eq (s : State) : soloBound s = s.tabs.length + 4 * s.heap.length + 10 := rfl

/-- `runSolo` is `step` iterated on thread `t` alone (no new call, no treeify, no resize; `pick = 0`) -/
theorem runSolo_succ (t : Nat) (sm sm2 : Bool) (k : Nat) (s : State) :
    runSolo t sm sm2 (k + 1) s = (step s t none false none false sm sm2 0).bind (runSolo t sm sm2 k) := by
  simp only [runSolo]
  cases step s t none false none false sm sm2 0 <;> rfl

end Flurry.Proto.BinGNProg
