import Flurry.Lemmas.RBInsertHeight
import Flurry.Lemmas.RBDeleteSmall
/-! # C06 — crowded bins are balanced search trees

Property-level statements about the tree-bin model `Flurry/RB.lean` (a case-for-case rendition
of `TreeBin::new`, `find_or_put_tree_val`, `remove_tree_node`, `balance_insertion`,
`balance_deletion`, `find_tree_node` in `src/node.rs`; tied to the code by exact comparison of
dumped trees, colours included, after every operation of the correspondence runs).
The lemmas are in `Flurry/Lemmas/RB*.lean`; this file only states what C06 needs. -/
namespace Flurry.C06
open Flurry Flurry.RB

/-- distinct `(hash, key)` pairs: what holds for the nodes of one bin -/
def Distinct (ns : List Node) : Prop := ns.Pairwise (fun a b => ¬(a.hash = b.hash ∧ a.key = b.key))

/-- **treeification** (`TreeBin::new`): the tree built from a bin's node list is a red-black
search tree holding exactly those nodes. -/
theorem treeify_inv (ns : List Node) (hd : Distinct ns) :
    TreeInv (ofList ns) ∧ (toList (ofList ns)).Perm ns := ⟨ofList_inv ns hd, ofList_perm ns hd⟩

/-- **insertion** (`find_or_put_tree_val`, absent key): invariant kept, entry set grows by `e`. -/
theorem insert_preserves (t : T) (e : Node) (hi : TreeInv t)
    (h : ∀ x ∈ toList t, ¬(x.hash = e.hash ∧ x.key = e.key)) :
    TreeInv (putNew t e) ∧ (toList (putNew t e)).Perm (e :: toList t) :=
  ⟨putNew_inv t e hi h, insertNew_toList_perm t e h⟩

/-- **removal** (`remove_tree_node`, the restructuring path, taken exactly when the shape test
`tooSmall` fails): invariant kept, in-order sequence loses exactly that entry. -/
theorem remove_preserves {h k : Nat} {t : T} (hi : TreeInv t) (hs : tooSmall t = false)
    (he : ∃ e ∈ toList t, e.hash = h ∧ e.key = k) :
    TreeInv (removeNode h k t) ∧
      toList (removeNode h k t) = (toList t).filter (fun x => !(x.hash == h && x.key == k)) :=
  ⟨removeNode_inv hi hs he, removeNode_toList hi.1 he⟩

/-- the shape test only fires on small trees (≤ 10 nodes, the maximum is attained), and
restructuring only happens on trees of at least 4 nodes -/
theorem untreeify_sizes {t : T} (hi : TreeInv t) :
    (tooSmall t = true → size t ≤ 10) ∧ (tooSmall t = false → 4 ≤ size t) :=
  ⟨tooSmall_small hi, not_tooSmall_big⟩

/-- **value replacement** keeps shape, colours and order -/
theorem set_value_preserves (h k v vi : Nat) (t : T) (hi : TreeInv t) : TreeInv (setVal h k v vi t) :=
  setVal_inv h k v vi t hi

/-- **tree and list readers agree**: the ordered descent of `find_tree_node` (with its
only-child shortcut) finds an entry iff it is in the tree's entry list; with
`(toList t).Perm order` (part of the bin invariant) that is what the `next`-list scan finds. -/
theorem tree_find_iff_mem (h k : Nat) (t : T) (e : Node) (hi : TreeInv t) :
    find h k t = some e ↔ e ∈ toList t ∧ e.hash = h ∧ e.key = k := find_iff h k t e hi.1

theorem tree_find_none_iff (h k : Nat) (t : T) (hi : TreeInv t) :
    find h k t = none ↔ ∀ x ∈ toList t, ¬(x.hash = h ∧ x.key = k) := find_none_iff h k t hi.1

/-- **logarithmic lookups**: on a valid tree of `n` entries a lookup (present or absent key)
makes at most `2·height ≤ 4·log2(n+1)` key comparisons (`Eq` + `Ord` calls). -/
theorem lookup_cost (h k : Nat) (t : T) (hi : TreeInv t) :
    (findNode h k t 0).2 ≤ 4 * Nat.log2 (size t + 1) := findNode_cost_log h k t hi

theorem height_log (t : T) (hi : TreeInv t) : height t ≤ 2 * Nat.log2 (size t + 1) := height_bound t hi

/-- the executable validator run on every dumped tree is equivalent to the invariant -/
theorem validator_iff (t : T) : treeInvB t = true ↔ TreeInv t := treeInvB_iff t

/-- any sequence of insertions of distinct keys starting from a treeified bin keeps the invariant -/
theorem inserts_preserve (ns es : List Node) (hd : Distinct (ns ++ es)) :
    TreeInv (es.foldl putNew (ofList ns)) := by
  have hp : putNew = insertNew := by funext t e; rfl
  have : es.foldl putNew (ofList ns) = ofList (ns ++ es) := by
    simp [ofList, hp, List.foldl_append]
  rw [this]; exact ofList_inv _ hd

-- non-vacuity: ten colliding keys
example : TreeInv (ofList ((List.range 10).map fun i => ⟨7, i, i, 0, i⟩)) := by
  rw [← treeInvB_iff]; decide

end Flurry.C06
