import Flurry.Lemmas.BinXCLin
/-! # C01 / C03 / C04 (bin level): `clear` and retirement during a resize (the repaired code)

`Proto/BinXC.lean` = `Proto/BinX` plus `clear()` and the retirement of unlinked nodes. With the
repaired `clear` (it waits for the commit of the resize before it continues in the next table):

* `binxc_linearizable` / `binxc_linearizable_quiescent`: for every reachable state and every key, the
  history of that key — with every `clear` as a removal — is linearizable from "absent" to the key's
  current abstract state. A `clear` is linearized, per key, at the step at which it reads the key's
  cell as empty or stores "empty" into it.
* `retired_unreachable` (C03): a retired node is on no chain that an operation starting now can reach.

For the original `clear` both fail: `Lemmas/BinXCExamples.lean` (finding F7). -/
namespace Flurry.Proto.BinXC
open Flurry.Lin
open Flurry.Proto.BinX (Ghost)

theorem init_ginv (n k : Nat) : GInv k (init n) {} (fun _ => none) id := by
  have hnil : callsOnExt (init n) k = [] := by
    rw [List.eq_nil_iff_forall_not_mem]
    intro c hc
    rcases mem_callsOnExt.1 hc with ⟨ko, hc, -⟩ | ⟨t, l, hl, he⟩
    · simp [init] at hc
    · rw [init_thread hl] at he
      cases he
  refine ⟨rfl, ?_, ?_, ?_, ?_, ?_⟩
  · symm
    exact absOf_of_empty rfl
  · intro c hc; rw [hnil] at hc; cases hc
  · intro τ h1 h2
    have : (init n).now = 0 := rfl
    omega
  · intro c hc; rw [hnil] at hc; cases hc
  · intro t l p cur hl hc
    rw [init_thread hl] at hc
    cases hc

/-- the structural and the ghost invariant hold in every reachable state -/
theorem reachable_ginv {n : Nat} {s : State} (hr : Reachable n s) (k : Nat) :
    ∃ G A pt, Inv s G ∧ GInv k s G A pt := by
  induction hr with
  | init => exact ⟨_, _, _, init_inv n, init_ginv n k⟩
  | @step s s' t inv rz cl hr hs ih =>
    obtain ⟨G, A, pt, I, g⟩ := ih
    cases hl : s.threads[t]? with
    | none => unfold step stepG at hs; rw [hl] at hs; cases hs
    | some l => exact ginv_step g I hl (step_stepK hl hs)

/-- from the ghost invariant to linearizability (the trace lemma) -/
theorem GInv.linearizable {k : Nat} {s : State} {G : Ghost} {A : Nat → KSt} {pt : Nat → Nat}
    (g : GInv k s G A pt) (I : Inv s G) : Linearizable (callsOnExt s k) none (absOf s k) := by
  have h := lin_of_trace (h := callsOnExt s k) A s.now (fun c => pt c.inv) ?_ ?_ ?_ ?_ ?_
  · rw [g.h0, g.hA] at h; exact h
  · intro c hc
    obtain ⟨h1, h2, -, -⟩ := g.calls c hc
    have := callsOnExt_resp_le I.thr hc
    exact ⟨h1, h2, by omega⟩
  · intro c hc hw; exact (g.calls c hc).2.2.2 hw
  · intro c hc hrd; exact (g.calls c hc).2.2.1 hrd
  · refine (callsOnExt_pairwise I.thr k).imp_of_mem ?_
    intro c d hc hd hne hwc hwd hpe
    exact hne (g.inj c hc d hd hwc hwd hpe)
  · intro τ h1 h2 hno
    apply Classical.byContradiction
    intro hne
    obtain ⟨c, hc, hw, hp⟩ := g.stab τ h1 h2 hne
    exact hno c hc hw hp

/-- **C01 / C04, bin level, with `clear` and a concurrent resize.** The per-key history (completed
calls, completed `clear`s, plus the calls that have passed their linearization point for the key) is
linearizable and ends in the abstract content of the key. -/
theorem binxc_linearizable {n : Nat} {s : State} (hr : Reachable n s) (k : Nat) :
    Lin.Linearizable (callsOnExt s k) none (absOf s k) := by
  obtain ⟨G, A, pt, I, g⟩ := reachable_ginv hr k
  exact g.linearizable I

/-- **quiescent form** -/
theorem binxc_linearizable_quiescent {n : Nat} {s : State} (hr : Reachable n s) (hq : quiescent s) (k : Nat) :
    Lin.Linearizable (callsOn s k) none (absOf s k) := by
  have := binxc_linearizable hr k
  rw [callsOnExt_quiescent hq] at this
  exact this

/-- **C03, bin level**: nothing that has been retired — by a removing writer, by `clear`, or by the
transfer after the forwarding — can be reached by an operation that starts now -/
theorem retired_unreachable {n : Nat} {s : State} (hr : Reachable n s) : retiredUnreachable s := by
  obtain ⟨g, I⟩ := reachable_inv hr
  intro i hi hreach
  exact (I.ret.dead i hi).2 (reachableNow_live g.cr hreach)

/-- retired nodes are dead: on no chain at all (not even one that only a slow reader can still reach
from a live node), and stay so -/
theorem retired_dead {n : Nat} {s : State} (hr : Reachable n s) :
    ∀ i ∈ s.retired, i < s.heap.length ∧ i ∉ chainOfCell s s.cell0 ∧ i ∉ chainOfCell s s.lowCell ∧
      i ∉ chainOfCell s s.highCell := by
  obtain ⟨g, I⟩ := reachable_inv hr
  intro i hi
  obtain ⟨h1, h2⟩ := I.ret.dead i hi
  refine ⟨h1, ?_, ?_, ?_⟩
  · intro h; exact h2 (Or.inl (by rw [← chainH_mem] at h; exact h))
  · intro h; exact h2 (Or.inr (Or.inl (by rw [← chainH_mem] at h; exact h)))
  · intro h; exact h2 (Or.inr (Or.inr (Or.inl (by rw [← chainH_mem] at h; exact h))))

/-- **mutual exclusion**, with `clear` at `cStore` as a validated lock holder -/
theorem validated_mutex {n : Nat} {s : State} (hr : Reachable n s) {t t1 : Nat} {l l1 : Local}
    {id : BinX.CellId} {h h1 : Nat} (hl : s.threads[t]? = some l) (hl1 : s.threads[t1]? = some l1)
    (hv : vcell l = some (id, h)) (hv1 : vcell l1 = some (id, h1)) : t = t1 := by
  obtain ⟨g, I⟩ := reachable_inv hr
  exact I.mutex hl hl1 hv hv1

/-- with the wait for the commit a `clear` (like every other operation) works in the new table only
after the forwarding marker is visible -/
theorem new_table_after_moved {n : Nat} {s : State} (hr : Reachable n s) {t : Nat} {l : Local}
    (hl : s.threads[t]? = some l) (hT : ¬ isT l.pc) (htab : tabOf l.pc = some .new) : s.cell0 = .moved := by
  obtain ⟨g, I⟩ := reachable_inv hr
  exact post_cell0 I.heap (I.post_of_new hl hT htab)

end Flurry.Proto.BinXC
