import Flurry.Proto.BinU
import Flurry.Lemmas.LinSearch
import Flurry.Lemmas.BinULin
import Flurry.Gen.Atomics
/-! # C01 / C07 (tree-bin level, code as it is now): a tree bin with lock-protocol readers, **list
readers (iterators)** and writers is linearizable under every interleaving; the insertion order
before the repair of finding F9 is not

`Proto/BinU` is `Proto/BinT` with (i) the insertion of a new key performed under the tree's write
lock (`lock_root`, list prepend, tree link, rebalance, `unlock_root` — `find_or_put_tree_val` since
the repair of F9), and (ii) readers that walk the `next` list without ever looking at the lock
(`listOnly`): what `NodeIter`, `transfer` and `clear` do with a tree bin. A list reader invoked for
key `k` is the harness' pseudo-operation `iterator-yield k`: C07's "never yields a pair that was
not in the map at some moment between the iterator's creation and the yield" *and* C01's single
order for everything done to `k`.

## the refutation (finding F9)

With the original insertion order (`stepF8`: prepend, link, lock only to rebalance) a list reader
finds the new node as soon as it is prepended, while a lock-protocol reader that arrives next sees
a clear lock word, enters the tree and misses it — and the only insert is still in flight:

    ins 1   [ 1, 16] → none            (thread 0)
    get 1   [ 5,  8] → some (10,100)   (thread 1, list reader = iterator yield)
    get 1   [ 9, 14] → none            (thread 2, invoked after thread 1 returned)

No order of these three calls is a sequential execution. `binu_f8order_not_linearizable` is proved
by kernel evaluation of the schedule and of the complete checker `Lin.search`. -/
namespace Flurry.Proto.BinU
open Flurry.Lin

abbrev Sch := Nat × Option (Nat × KOp) × Bool × Bool

/-- run a schedule of `(thread, invocation, bal, listOnly)` under the ORIGINAL insertion order -/
def runF8 (s : State) : List Sch → Option State
  | [] => some s
  | (t, inv, bal, lo) :: rest =>
    match stepF8 s t inv bal lo with
    | some s' => runF8 s' rest
    | none => none

theorem runF8_reachable {n : Nat} : ∀ (sched : List Sch) {s s' : State},
    ReachableF8 n s → runF8 s sched = some s' → ReachableF8 n s'
  | [], s, s', hr, h => by
    simp only [runF8, Option.some.injEq] at h
    exact h ▸ hr
  | (t, inv, bal, lo) :: rest, s, s', hr, h => by
    simp only [runF8] at h
    cases hs : stepF8 s t inv bal lo with
    | none => rw [hs] at h; cases h
    | some s1 =>
      rw [hs] at h
      exact runF8_reachable rest (ReachableF8.step t inv bal lo hr hs) h

abbrev go (t : Nat) : Sch := (t, none, false, false)

def f9Schedule : List Sch :=
  [ -- thread 0: `ins 1`: mutex, find, prepend: node 0 is on the list, not yet in the tree
    (0, some (1, .ins 10 100), false, false), go 0, go 0, go 0,
    -- thread 1: a list reader (iterator) looks for key 1: `first`, node 0 matches, value: "present"
    (1, some (1, .get), false, true), go 1, go 1, go 1,
    -- thread 2: `get 1` by the lock protocol: `first`, lock word clear, CAS in, tree search misses,
    -- release: "absent"
    (2, some (1, .get), false, false), go 2, go 2, go 2, go 2, go 2,
    -- thread 0: tree link, unlock the mutex
    go 0, go 0 ]

def f9Check : Bool :=
  match runF8 (init 3) f9Schedule with
  | some s => s.threads.all (fun l => l.pc == .idle) && (search (callsOn s 1) none (absOf s 1)).isNone
  | none => false

theorem f9Check_true : f9Check = true := by decide

theorem f9_history : (runF8 (init 3) f9Schedule).map (fun s => (callsOn s 1, absOf s 1)) =
    some ([ ⟨1, .get, .some 10 100, 5, 8⟩, ⟨2, .get, .none, 9, 14⟩, ⟨0, .ins 10 100, .none, 1, 16⟩ ],
          some (10, 100)) := by decide

/-- **Counterexample (F9).** With the insertion order before the repair, a reachable quiescent
state whose history on key `1` — an insert, an iterator's read, a `get` — is not linearizable. -/
theorem binu_f8order_not_linearizable :
    ∃ s : State, ReachableF8 3 s ∧ quiescent s ∧ ¬ Lin.Linearizable (callsOn s 1) none (absOf s 1) := by
  have h := f9Check_true
  unfold f9Check at h
  cases hrun : runF8 (init 3) f9Schedule with
  | none => rw [hrun] at h; cases h
  | some s =>
    rw [hrun] at h
    simp only [Bool.and_eq_true, List.all_eq_true, beq_iff_eq, Option.isNone_iff_eq_none] at h
    exact ⟨s, runF8_reachable f9Schedule ReachableF8.init hrun, h.1, search_eq_none_iff.1 h.2⟩

/-! ## the repaired order -/

/-- **Structural invariant** (`Lemmas/BinUInv.lean`): holds in every reachable state. Among its
clauses: whenever nobody holds the write lock, the tree holds exactly the nodes of the list. -/
theorem binu_inv {n : Nat} {s : State} (hr : Reachable n s) : Inv s := reachable_inv hr

/-- the list is the truth, and the tree agrees with it whenever the write lock is free (C06: "the
bin's tree and its traversal list always hold exactly the same entries") -/
theorem tree_eq_list_unlocked {n : Nat} {s : State} (hr : Reachable n s) (hw : s.writer = false) (k : Nat) :
    absTree s k = absOf s k := absTree_eq_absOf_of_reachable hr hw k

/-- **C01 + C07, tree-bin level.** Under every interleaving of any number of threads, the per-key
history of a tree bin — lock-protocol reads, list reads (iterator yields) and writes; the completed
calls plus the writers past their linearization point — is linearizable and ends in the abstract
state (list membership). -/
theorem binu_linearizable {n : Nat} {s : State} (hr : Reachable n s) (k : Nat) :
    Lin.Linearizable (callsOnExt s k) none (absOf s k) := binu_linearizable_ext hr k

/-- quiescent form -/
theorem binu_linearizable_quiescent {n : Nat} {s : State} (hr : Reachable n s) (hq : quiescent s) (k : Nat) :
    Lin.Linearizable (callsOn s k) none (absOf s k) ∧ absTree s k = absOf s k :=
  binu_linearizable_quiescent_aux hr hq k

/-! ## the tie to the source

The order of the model's writer steps is the order of the stores in `src/node.rs`, regenerated on
every run (`Gen/Atomics.lean`): both `remove_tree_node` and `find_or_put_tree_val` take the write
lock before their first store to a list cell of a bin readers can be in (the leading
`store:tree`, `store:list` of the insertion is the empty-bin case: `root` and `first` of a bin no
reader can have entered through the tree). With the order before F9
(`["store:tree", "store:list", "store:list", "store:tree", "lock_root", "store:tree", "unlock_root"]`)
the second theorem is false. -/
section Tie
open Flurry.Gen

theorem remove_locks_before_unlink :
    removeTreeNodeOrder = ["lock_root", "store:list", "store:tree", "unlock_root"] := by decide

theorem insert_locks_before_prepend :
    findOrPutTreeValOrder = ["store:tree", "store:list", "lock_root", "store:list", "store:tree", "unlock_root"] := by
  decide

end Tie

end Flurry.Proto.BinU
