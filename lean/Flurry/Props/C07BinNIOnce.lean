import Flurry.Lemmas.BinNIFrames
/-! # C07 (bin level, CONCURRENT): untouched keys and completed iterations

For a COMPLETED iteration `(t, τ0, τ1) ∈ s.ends` of `Proto/BinNI` (thread, creation time, end time; the
traverser running while writers and any number of resizes proceed), in every reachable state, for any number
of threads and every interleaving. "During the whole iteration" = in every state `s₁` of the run (a reachable
prefix, `Steps s₁ s`) whose clock lies in `[τ0, τ1]`.

* `iter_untouched_yielded`: a key that maps to `v` during the whole iteration is yielded by it (at least
  once), and every yield of that key by this iteration carries `v`;
* `iter_untouched_absent_not_yielded`: a key that is absent during the whole iteration is not yielded by it;
* `iter_yields_before_end`: the yields of a completed iteration all happened between its creation and its end;
* `iter_frames_disjoint`: the pending cells of a live iterator have pairwise disjoint key classes (at most
  one pending cell covers a key; a popped cell is never pushed again).
NOT proved: "exactly once" — that an untouched key is not yielded TWICE (`iter_no_duplicates_of_untouched`);
validated by execution only (`check2` of `Lemmas/BinNIExamples.lean`). What is missing is the dual of the
covering argument ("once the node of `k` has been passed, the rest of the walk never meets key `k`"), which
needs, per transition of `Proto/BinN`, that the node of an unchanged key is not unlinked from its live chain
— a fact that `HeapStep` / `AbsEff` do not expose.

How: the remaining work of a live iterator *covers* every untouched key until it has been yielded
(`Lemmas/BinNICover.lean`): a pending cell whose class contains the key (a forwarded cell hands the key to
exactly one of its two children; a cell that is not forwarded is the live cell of the key), or the pointer
is justified as a lock-free reader of that key would be (`BinN.Good` with a history that is never "absent",
carried over every transition by `MemStep.carries`) — such a walk cannot end without meeting the key. -/
namespace Flurry.Proto.BinNI
open Flurry.Lin

/-- **C07, present and untouched ⇒ yielded, with its value.** -/
theorem iter_untouched_yielded {nt : Nat} {s : State} (hr : Reachable nt s) {t τ0 τ1 k : Nat} {v : Nat × Nat}
    (he : (t, τ0, τ1) ∈ s.ends)
    (hun : ∀ s₁, Reachable nt s₁ → Steps s₁ s → τ0 ≤ s₁.n.now → s₁.n.now ≤ τ1 → absOf s₁ k = some v) :
    (∃ y ∈ s.yields, y.tid = t ∧ y.t0 = τ0 ∧ y.key = k ∧ y.val = v) ∧
    ∀ y ∈ s.yields, y.tid = t → y.t0 = τ0 → y.key = k → y.val = v :=
  ⟨untouched_yielded hr he hun, yield_of_untouched_val hr he hun⟩

/-- **C07, absent throughout ⇒ not yielded.** -/
theorem iter_untouched_absent_not_yielded {nt : Nat} {s : State} (hr : Reachable nt s) {t τ0 τ1 k : Nat}
    (he : (t, τ0, τ1) ∈ s.ends)
    (habs : ∀ s₁, Reachable nt s₁ → Steps s₁ s → τ0 ≤ s₁.n.now → s₁.n.now ≤ τ1 → absOf s₁ k = none) :
    ∀ y ∈ s.yields, y.tid = t → y.t0 = τ0 → y.key ≠ k := absent_not_yielded hr he habs

/-- the yields of a completed iteration lie between its creation and its end -/
theorem iter_yields_before_end {nt : Nat} {s : State} (hr : Reachable nt s) {t τ0 τ1 : Nat}
    (he : (t, τ0, τ1) ∈ s.ends) : τ0 ≤ τ1 ∧ ∀ y ∈ s.yields, y.tid = t → y.t0 = τ0 → y.time ≤ τ1 :=
  ⟨((reachable_time hr).et _ he).1, fun y hy h1 h2 => (reachable_time hr).ye _ he y hy h1 h2⟩

/-- the pending cells of a live iterator have pairwise disjoint key classes `{k | k % 2^g = j}` -/
theorem iter_frames_disjoint {nt : Nat} {s : State} (hr : Reachable nt s) {t : Nat} {it : Iter}
    (hi : s.its[t]? = some (some it)) :
    it.todo.Pairwise fun a b => ∀ k, ¬ (k % 2 ^ a.1 = a.2 ∧ k % 2 ^ b.1 = b.2) :=
  reachable_frames_disjoint hr t it hi

end Flurry.Proto.BinNI
