import Flurry.Lemmas.SeqOps
/-! # C02 — sequential operations refine a reference map

`Flurry.Seq.step` is the sequential model of the public operations of `src/map.rs`
(`Flurry/Seq/Model.lean`, tied to the code by differential testing); `Ref.step` is the reference
map `key ↦ (stored key instance, value, value id)`. `absMap m` is the abstraction of a model state.
`Good m` is the invariant: `WF m` (well formed at quiescence, see C05) and `InitOk m`
(`size_ctl` is `0` or a requested power-of-two capacity while the table does not exist).

The lemmas are in `Flurry/Lemmas/SeqOps*.lean`; this file only states what C02 needs. -/
namespace Flurry.C02
open Flurry Flurry.Gen Flurry.Seq

/-- **one operation**: from a `Good` state every operation (with a predicate that does not
panic) leads to a `Good` state, changes the abstract map exactly as the reference map does, and
gives the reference's answer. -/
theorem step_refines (m : Map) (hg : Good m) (op : Op) (ht : op.total) :
    Good (step m op).1 ∧ absMap (step m op).1 = (Ref.step (absMap m) op).1 ∧
    (op.answered = true → (step m op).2 = (Ref.step (absMap m) op).2) :=
  step_refines_lemma hg op ht

/-- the two operations the reference does not answer by itself: `len` is the number of keys
present in the abstract map (no key counted twice), `is_empty` says whether that is `0` -/
theorem len_spec (m : Map) (hg : Good m) :
    ∃ keys : List Nat, keys.Nodup ∧ (∀ k, k ∈ keys ↔ (absMap m k).isSome = true) ∧
      step m .len = (m, .nat keys.length) ∧ step m .isEmpty = (m, .bool (keys.length == 0)) := by
  refine ⟨(entries m).map (·.key), entries_keys_nodup_of_good hg,
    fun k => (absMap_isSome_iff hg k).symm, ?_, ?_⟩
  · rw [step_len, len_eq_keys_length hg]
  · rw [step_isEmpty, len_eq_keys_length hg]

/-- **operation sequences**: for *every* hash function, every requested capacity and every list
of operations, running the operations on `with_capacity(c)` gives a `Good` state whose abstract
map is the one the reference map reaches from the empty map, and the same answers (position by
position, for the operations the reference answers). -/
theorem seq_refines (hash : Nat → Nat) (c : Nat) (ops : List Op) (ht : ∀ op ∈ ops, op.total) :
    let r := run (withCapacity hash c) ops
    let s := Ref.run Ref.empty ops
    Good r.1 ∧ absMap r.1 = s.1 ∧ r.2.length = ops.length ∧ s.2.length = ops.length ∧
    ∀ (i : Nat) (op : Op), ops[i]? = some op → op.answered = true → r.2[i]? = s.2[i]? := by
  have := run_refines (good_withCapacity hash c) ops ht
  rw [absMap_withCapacity] at this
  exact this

/-- the same from any `Good` state -/
theorem seq_refines_from (m : Map) (hg : Good m) (ops : List Op) (ht : ∀ op ∈ ops, op.total) :
    Good (run m ops).1 ∧ absMap (run m ops).1 = (Ref.run (absMap m) ops).1 ∧
    ∀ (i : Nat) (op : Op), ops[i]? = some op → op.answered = true →
      (run m ops).2[i]? = (Ref.run (absMap m) ops).2[i]? := by
  obtain ⟨a, b, _, _, e⟩ := run_refines hg ops ht
  exact ⟨a, b, e⟩

/-- **the first key instance is kept**: `insert(k', v)` with `k' == k` for a present key `k`
replaces the value but keeps the key object stored first. -/
theorem first_key_kept (m : Map) (hg : Good m) (k ki ki' v vi v0 vi0 : Nat)
    (hpre : absMap m k = some (ki, v0, vi0)) :
    absMap (step m (.ins k ki' v vi)).1 k = some (ki, v, vi) := by
  show absMap (put k ki' v vi false m).1 k = _
  rw [put_absMap k ki' v vi false hg]
  simp [Ref.insert, hpre]

/-- `try_insert` of a present key changes nothing and reports the current value -/
theorem try_insert_present (m : Map) (hg : Good m) (k ki ki' v vi v0 vi0 : Nat)
    (hpre : absMap m k = some (ki, v0, vi0)) :
    absMap (step m (.tryIns k ki' v vi)).1 = absMap m ∧
    (step m (.tryIns k ki' v vi)).2 = .exists_ v0 vi0 := by
  obtain ⟨_, h2, h3⟩ := step_tryIns k ki' v vi hg
  rw [h2, h3]
  simp [Ref.step, hpre]

/-! ## the hypotheses are satisfiable: identity hash, `with_capacity(4)`, two inserts -/

example : Good ex2 ∧ ex2 = (run (withCapacity (fun k => k) 4) [.ins 1 7 10 100, .ins 2 8 20 200]).1 :=
  ⟨ex2_good, by rw [withCapacity_id_4]; rfl⟩
example : absMap ex2 1 = some (7, 10, 100) ∧ absMap ex2 3 = none ∧ len ex2 = 2 := by decide
example : absMap (step ex2 (.ins 1 9 11 101)).1 1 = some (7, 11, 101) :=
  first_key_kept ex2 ex2_good 1 7 9 11 101 10 100 (by decide)
example : (run ex0 [.ins 1 7 10 100, .tryIns 1 8 20 200, .rm 1, .get 1]).2 =
    [.none, .exists_ 10 100, .some 10 100, .none] := by decide

end Flurry.C02
