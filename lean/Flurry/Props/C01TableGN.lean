import Flurry.Proto.TableGN
import Flurry.Props.C01BinGNLin
import Flurry.Props.C01TableN
import Flurry.Props.C01Local
import Flurry.Lemmas.TableGN
import Flurry.Lemmas.TableGNExamples
/-! # C01 (table level, list AND tree bins, across ANY NUMBER of resizes): ONE sequential order of ALL calls on ALL keys

`Proto/TableGN`: a whole table with list and tree bins through any number of resizes. `m` lineages, each a
`Proto/BinGN` lineage — bin `i` of the initial table and everything it is split into: at generation `g` the cells
`(g, j)`, `j < 2^g`, which are the bins `i + m * j` of the table of length `m * 2^g`; per cell empty / list bin /
tree bin / forwarding marker; lock-free readers, lock-protocol readers of tree bins, list readers / iterators,
locked list writers with the re-check, lock-free CAS into an empty cell, tree writers with the bin mutex + write
lock + WAITER, treeify, untreeify, the transfer of an empty, a list and a tree bin (the `TreeBin` object re-used
when one side is empty), forwarding markers followed generation after generation. Key `k` lives in lineage `k % m`
under the local name `k / m` (the hash is the key), i.e. in bin `k % m + m * ((k / m) % 2^g)` of generation `g`,
which is `k % (m * 2^g)` (`TableN.bin_index_eq_mod`; for `m = 2^a`: `k % 2^(a+g)`, `TableN.bin_index_eq` — pure
arithmetic, re-used from `Props/C01TableN.lean`). `TableGN.step` translates the key of a call AND the key of a
treeify into their local names, the map history records the ORIGINAL key. Any number of threads, a thread inside at
most one lineage at a time (so a thread resizes the lineages one at a time; different lineages may be resized by
different threads), one clock shared by all lineages. The table pointer / generation counter is modelled per
lineage, which over-approximates the single pointer of the code (lineages may be at different generations in the
model — `tableGN_lineages_at_different_generations` —, never in the code; the allocations and the commits of all
lineages may happen consecutively when the real allocation and the real `table := next` happen; see the header of
`Proto/TableGN.lean`). The history of the table is the history of the *map* (`LinMap.MHistory`): the calls on all
keys of all lineages, with comparable times.

How the lineage-level theorem lifts: the clock of a lineage in which nothing happens advances by a `tick`, and a
tick is *itself* a transition of `Proto/BinGN` — the step of a thread that is idle in that lineage and starts nothing
(`tableGN_tick_is_lineage_step`); `TableGN.step` lets a thread act in a lineage only while it is idle in all others.
So every lineage of a reachable table is literally `BinGN.Reachable` (`tableGN_lineage_reachable`) and
`binGN_linearizable_quiescent`, `generations_do_not_overlap`, `old_generations_forwarded`, `transfer_abs_invariant`,
`quiescent_tree_eq_list`, … apply to it as they stand. The key translation `q ↦ i + m * q` is injective on a lineage
and separates the lineages (`tableGN_key_translation`), so the projection of the map history on key `k` IS the
history of local key `k / m` in lineage `k % m` (`tableGN_proj_eq`); locality (`C01.locality`) does the rest.
Proofs: `Lemmas/TableGN.lean`, `Lemmas/TableGNExamples.lean`. -/
namespace Flurry.Proto.TableGN
open Flurry.Lin Flurry.LinMap
open Flurry.Proto.TableN (lineageOf localKey globalKey)

/-- the table keeps its number of lineages -/
theorem bins_length {m n : Nat} {S : State} (hr : Reachable m n S) : S.bins.length = m :=
  (reachable_tblInv hr).len

/-! ## where a key lives (the arithmetic is `TableN`'s: `TableN.bin_index_eq`, `TableN.bin_index_eq_mod`) -/

/-- **the key translation**: lineage `i < m` and local name `q` stand for the key `i + m * q` and for no other;
conversely every key `k` is `globalKey m (k % m) (k / m)` -/
theorem tableGN_key_translation {m i : Nat} (hi : i < m) (q k : Nat) :
    (globalKey m i q = k ↔ i = lineageOf m k ∧ q = localKey m k) ∧
    globalKey m (lineageOf m k) (localKey m k) = k :=
  TableN.tableN_key_translation hi q k

/-- the bin of key `k` in the table of generation `g` — cell `(k / m) % 2^g` of lineage `k % m`, where
`Proto/BinGN` puts local key `k / m` — is bin `k % (m * 2^g)` of the table of length `m * 2^g`; for `m = 2^a` it is
`k % 2^(a+g)`, the index the code computes -/
theorem tableGN_bin_index (m g k : Nat) :
    lineageOf m k + m * (localKey m k % 2 ^ g) = k % (m * 2 ^ g) ∧
    ∀ a, m = 2 ^ a → k % m + m * ((k / m) % 2 ^ g) = k % 2 ^ (a + g) :=
  ⟨TableN.bin_index_eq_mod m g k, fun _ hm => TableN.bin_index_eq hm g k⟩

/-- at the resize of generation `g` key `k` stays in its bin (low) or moves up by the old length `m * 2^g` (high),
according to the split bit of `Proto/BinGN` taken at its local name -/
theorem tableGN_bin_index_split (m g k : Nat) :
    TableN.binIndex m (g + 1) k =
      TableN.binIndex m g k + (if BinGN.bitAt g (localKey m k) then m * 2 ^ g else 0) :=
  TableN.bin_index_split m g k

/-! ## the lineages -/

/-- a tick (the clock of a lineage advances while a thread acts elsewhere) is a transition of the lineage: the step
of a thread that is idle there and starts nothing (no call, no treeify, no resize) -/
theorem tableGN_tick_is_lineage_step {b : BinGN.State} {t : Nat} (h : idleIn b t = true) :
    BinGN.step b t none false none false false false 0 = some (tick b) := tick_is_step h

/-- every lineage of a reachable table is a reachable `Proto/BinGN` lineage: all lineage-level theorems
(`binGN_linearizable`, `binGN_inv`, `transfer_abs_invariant`, `follow_markers_until_live`, `tree_bin_rwlock`, …)
hold for it -/
theorem tableGN_lineage_reachable {m n : Nat} {S : State} (hr : Reachable m n S) {i : Nat} {b : BinGN.State}
    (hb : S.bins[i]? = some b) : BinGN.Reachable n b := (reachable_tblInv hr).reach i b hb

/-- the structural invariant of `Proto/BinGN` (`binGN_inv`) holds in every lineage -/
theorem tableGN_lineage_inv {m n : Nat} {S : State} (hr : Reachable m n S) {i : Nat} {b : BinGN.State}
    (hb : S.bins[i]? = some b) : Flurry.Proto.BinGNP.Inv b := BinGN.binGN_inv (tableGN_lineage_reachable hr hb)

/-- a call is started in the lineage of its key, under its local name: what `step` hands to `BinGN.step` -/
theorem tableGN_call_in_own_lineage {S S' : State} {i t k : Nat} {op : KOp} {lo : Bool} {mt : Option Nat}
    {rz sm sm2 : Bool} {pick : Nat} (hs : step S i t (some (k, op)) lo mt rz sm sm2 pick = some S') :
    lineageOf S.bins.length k = i ∧ ∃ b b', S.bins[i]? = some b ∧
      BinGN.step b t (some (localKey S.bins.length k, op)) lo (localMt S.bins.length mt) rz sm sm2 pick = some b' ∧
      S'.bins[i]? = some b' :=
  step_call hs

/-- **the treeify key is translated like the invocation key**: a treeify of "the bin of key `k`" is started in
lineage `k % m`, for the bin of the local key `k / m` -/
theorem tableGN_treeify_in_own_lineage {S S' : State} {i t k : Nat} {inv : Option (Nat × KOp)} {lo : Bool}
    {rz sm sm2 : Bool} {pick : Nat} (hs : step S i t inv lo (some k) rz sm sm2 pick = some S') :
    lineageOf S.bins.length k = i ∧ ∃ b b', S.bins[i]? = some b ∧
      BinGN.step b t (TableN.localInv S.bins.length inv) lo (some (localKey S.bins.length k)) rz sm sm2 pick
        = some b' ∧ S'.bins[i]? = some b' :=
  step_treeify hs

/-- every call of the map history on key `k` is recorded in lineage `k % m`, under the local name `k / m` -/
theorem tableGN_key_in_own_lineage {m n : Nat} {S : State} (hr : Reachable m n S) {c : MCall} (hc : c ∈ mhist S) :
    ∃ b, S.bins[lineageOf m c.key]? = some b ∧ (localKey m c.key, c.call) ∈ b.hist :=
  mhist_own_lineage (reachable_tblInv hr) hc

/-- … and every call recorded in lineage `i` under the local name `q` is in the map history under the key
`i + m * q` — a key of lineage `i` whose local name is `q` -/
theorem tableGN_lineage_call_in_history {m n : Nat} {S : State} (hr : Reachable m n S) {i : Nat} {b : BinGN.State}
    {q : Nat} {c : Call} (hb : S.bins[i]? = some b) (h : (q, c) ∈ b.hist) :
    (⟨globalKey m i q, c⟩ : MCall) ∈ mhist S ∧ lineageOf m (globalKey m i q) = i ∧ localKey m (globalKey m i q) = q :=
  mem_mhist_of_hist (reachable_tblInv hr) hb h

/-- calls on a key of another lineage never appear in a lineage's part of the history -/
theorem tableGN_other_lineage_silent {m i : Nat} (hi : i < m) (b : BinGN.State) {k : Nat} (hk : i ≠ lineageOf m k) :
    proj (binCalls m i b) k = [] := proj_binCalls_other hi b hk

/-- a thread is active in at most one lineage: of two different lineages it is idle in one -/
theorem tableGN_one_lineage_per_thread {m n : Nat} {S : State} (hr : Reachable m n S) {t i j : Nat}
    {bi bj : BinGN.State} {li lj : BinGN.Local} (hne : i ≠ j) (hi : S.bins[i]? = some bi) (hj : S.bins[j]? = some bj)
    (hli : bi.threads[t]? = some li) (hlj : bj.threads[t]? = some lj) : li.pc = .idle ∨ lj.pc = .idle :=
  reachable_oneBin hr t i j bi bj li lj hne hi hj hli hlj

/-- the resizing thread of a lineage is inside it from the allocation of the next generation to the commit: while
it is anywhere between `xNext` and `xCommit` there, it is idle in every other lineage -/
theorem tableGN_resizer_inside_one_lineage {m n : Nat} {S : State} (hr : Reachable m n S) {t i j : Nat}
    {bi bj : BinGN.State} {li lj : BinGN.Local} (hne : i ≠ j) (hi : S.bins[i]? = some bi) (hj : S.bins[j]? = some bj)
    (hli : bi.threads[t]? = some li) (hlj : bj.threads[t]? = some lj) (hT : Flurry.Proto.BinGNP.xPc li.pc = true) :
    lj.pc = .idle :=
  busy_idle_elsewhere (reachable_oneBin hr) hne hi hj hli hlj (by intro h; rw [h] at hT; cases hT)

/-- **generations do not overlap, lineage by lineage**: the tables of a lineage are its generations `0 … cur`, plus
generation `cur + 1` exactly while its resize runs; generation `g` has `2^g` cells (the table of length `m * 2^g`
has `2^g` bins of each lineage); at most one thread is resizing the lineage, and only while `resizing` is set -/
theorem tableGN_generations_do_not_overlap {m n : Nat} {S : State} (hr : Reachable m n S) {i : Nat} {b : BinGN.State}
    (hb : S.bins[i]? = some b) :
    b.tabs.length = b.cur + 1 + (if b.resizing then 1 else 0) ∧
    (∀ g row, b.tabs[g]? = some row → row.length = 2 ^ g) ∧
    (∀ (t t' : Nat) (l l' : BinGN.Local), b.threads[t]? = some l → b.threads[t']? = some l' →
      (BinGN.desc b.cur l).isX = true → (BinGN.desc b.cur l').isX = true → t = t') ∧
    (∀ (t : Nat) (l : BinGN.Local), b.threads[t]? = some l → (BinGN.desc b.cur l).isX = true → b.resizing = true) :=
  BinGN.generations_do_not_overlap (tableGN_lineage_reachable hr hb)

/-- **old generations are forwarded, lineage by lineage**: every cell of a generation older than the lineage's `cur`
is `moved`, for ever -/
theorem tableGN_old_generations_forwarded {m n : Nat} {S : State} (hr : Reachable m n S) {i : Nat} {b : BinGN.State}
    (hb : S.bins[i]? = some b) {g j : Nat} (hg : g < b.cur) (hj : j < 2 ^ g) : BinGN.cellAt b g j = .moved :=
  BinGN.old_generations_forwarded (tableGN_lineage_reachable hr hb) hg hj

/-- no cell of the generation a lineage is filling is forwarded; a forwarding marker in its generation `cur` exists
only while its resize runs -/
theorem tableGN_next_generation_not_forwarded {m n : Nat} {S : State} (hr : Reachable m n S) {i : Nat}
    {b : BinGN.State} (hb : S.bins[i]? = some b) :
    (∀ j, BinGN.cellAt b (b.cur + 1) j ≠ .moved) ∧ (∀ j, BinGN.cellAt b b.cur j = .moved → b.resizing = true) :=
  BinGN.next_generation_not_forwarded (tableGN_lineage_reachable hr hb)

/-- **no step of a resize of any lineage changes the abstract state of any key of that lineage** (list bins and
tree bins: the split, the stores of the low child, of the high child and of the marker, the commit, …) -/
theorem tableGN_transfer_abs_invariant {m n : Nat} {S : State} (hr : Reachable m n S) {i : Nat} {b b' : BinGN.State}
    (hb : S.bins[i]? = some b) {t : Nat} {l : BinGN.Local} {inv : Option (Nat × KOp)} {lo : Bool} {mt : Option Nat}
    {rz sm sm2 : Bool} {pick : Nat} (hl : b.threads[t]? = some l)
    (hpc : Flurry.Proto.BinGNP.xPc l.pc = true ∨ (l.pc = .idle ∧ rz = true ∧ b.resizing = false))
    (hs : BinGN.step b t inv lo mt rz sm sm2 pick = some b') (q : Nat) : BinGN.absOf b' q = BinGN.absOf b q :=
  BinGN.transfer_abs_invariant (tableGN_lineage_reachable hr hb) hl hpc hs q

/-- … hence **no step of a resize of any lineage changes the abstract MAP**: a transition of the table taken by a
resizing thread (or the start of a resize) leaves the abstract state of every key of the table as it was -/
theorem tableGN_transfer_absMap_invariant {m n : Nat} {S S' : State} (hr : Reachable m n S) {i t : Nat}
    {inv : Option (Nat × KOp)} {lo : Bool} {mt : Option Nat} {rz sm sm2 : Bool} {pick : Nat}
    {b : BinGN.State} {l : BinGN.Local} (hb : S.bins[i]? = some b) (hl : b.threads[t]? = some l)
    (hpc : Flurry.Proto.BinGNP.xPc l.pc = true ∨ (l.pc = .idle ∧ rz = true ∧ b.resizing = false))
    (hs : step S i t inv lo mt rz sm sm2 pick = some S') : absMap S' = absMap S := by
  obtain ⟨b0, b', hb0, -, -, -, hb', rfl⟩ := step_eq_some hs
  rw [hb] at hb0
  cases hb0
  funext k
  have hlen : ((S.bins.map tick).set i b').length = S.bins.length := by rw [List.length_set, List.length_map]
  show BinGN.absOf (((S.bins.map tick).set i b').getD (lineageOf ((S.bins.map tick).set i b').length k)
      (BinGN.init 0)) (localKey ((S.bins.map tick).set i b').length k) =
    BinGN.absOf (S.bins.getD (lineageOf S.bins.length k) (BinGN.init 0)) (localKey S.bins.length k)
  rw [hlen]
  generalize lineageOf S.bins.length k = j
  generalize localKey S.bins.length k = q
  rw [List.getD_eq_getElem?_getD, List.getD_eq_getElem?_getD]
  by_cases hj : j = i
  · subst hj
    have hi : j < (S.bins.map tick).length := by
      rw [List.length_map]; exact (List.getElem?_eq_some_iff.1 hb).1
    rw [List.getElem?_set_self hi, hb]
    exact BinGN.transfer_abs_invariant (tableGN_lineage_reachable hr hb) hl hpc hb' q
  · rw [List.getElem?_set_ne (fun e => hj e.symm), List.getElem?_map]
    cases S.bins[j]? with
    | none => rfl
    | some c =>
      show BinGN.absOf (tick c) q = BinGN.absOf c q
      exact BinGN.absOf_congr (s := c) (s' := tick c) rfl rfl
        (BinGN.liveCell_congr (s := c) (s' := tick c) rfl rfl q)

/-- **C06 at quiescence, lineage by lineage**: in a quiescent table a `TreeBin` that is in a cell (of any
generation of any lineage) is unlocked (mutex and write lock free) and its tree holds exactly the nodes of its list -/
theorem tableGN_quiescent_tree_eq_list {m n : Nat} {S : State} (hr : Reachable m n S) (hq : quiescent S) {i : Nat}
    {b : BinGN.State} (hb : S.bins[i]? = some b) {g j tb : Nat} (hc : BinGN.cellAt b g j = .tree tb) :
    (Flurry.Proto.BinK.binAt b.tbins tb).mutex = none ∧ (Flurry.Proto.BinK.binAt b.tbins tb).writer = false ∧
    ∀ x, x < b.heap.length → ((Flurry.Proto.BinK.nodeAt b.heap x).owner = some tb ∧
      (Flurry.Proto.BinK.nodeAt b.heap x).inTree = true ↔ x ∈ BinGN.chainOfBin b tb) :=
  BinGN.quiescent_tree_eq_list (tableGN_lineage_reachable hr hb) (hq b (List.mem_of_getElem? hb)) hc

/-- at quiescence no resize of any lineage is half done and nothing is left locked (`BinGN.quiescent_shape`) -/
theorem tableGN_quiescent_shape {m n : Nat} {S : State} (hr : Reachable m n S) (hq : quiescent S) {i : Nat}
    {b : BinGN.State} (hb : S.bins[i]? = some b) :
    b.resizing = false ∧ b.tabs.length = b.cur + 1 ∧ (∀ j, BinGN.cellAt b b.cur j ≠ .moved) ∧
    (∀ k, BinGN.liveCell b k = BinGN.cellOf b b.cur k) ∧ (∀ h, BinGN.lockAt b.heap h = none) ∧
    (∀ tb, BinGN.mutexAt b.tbins tb = none) :=
  BinGN.quiescent_shape (tableGN_lineage_reachable hr hb) (hq b (List.mem_of_getElem? hb))

/-! ## the history of the map -/

/-- no call responds before it is invoked (one clock for all lineages) -/
theorem tableGN_inv_le_resp {m n : Nat} {S : State} (hr : Reachable m n S) :
    ∀ c ∈ mhist S, c.call.inv ≤ c.call.resp := mhist_wf hr

/-- the projection of the map history on key `k` is — as a list — the history of the local key `k / m` in lineage
`k % m` -/
theorem tableGN_proj_eq {m n : Nat} (hm : 0 < m) {S : State} (hr : Reachable m n S) {k : Nat} {b : BinGN.State}
    (hb : S.bins[lineageOf m k]? = some b) : proj (mhist S) k = BinGN.callsOn b (localKey m k) :=
  proj_mhist hm (reachable_tblInv hr) hb

/-- per key, in every reachable state (completed calls plus writers past their linearization point) -/
theorem tableGN_key_linearizable_ext {m n : Nat} {S : State} (hr : Reachable m n S) {k : Nat} {b : BinGN.State}
    (hb : S.bins[lineageOf m k]? = some b) :
    Lin.Linearizable (Flurry.Proto.BinGNP.callsOnExt b (localKey m k)) none (BinGN.absOf b (localKey m k)) :=
  BinGN.binGN_linearizable (tableGN_lineage_reachable hr hb) (localKey m k)

/-- per key, at quiescence -/
theorem tableGN_key_linearizable {m n : Nat} (hm : 0 < m) {S : State} (hr : Reachable m n S) (hq : quiescent S)
    (k : Nat) : Lin.Linearizable (proj (mhist S) k) none (absMap S k) :=
  tableGN_key_linearizable_aux hm hr hq k

/-- **C01 for a whole table with list and tree bins through any number of resizes: ONE sequential order of ALL
calls on ALL keys** respects real time and replays through the sequential specification of a map, from the empty
map to the abstract map of the table — list bins, tree bins, treeify / untreeify conversions, transfers of empty,
list and tree bins, any number of threads, every interleaving. -/
theorem tableGN_map_linearizable {m n : Nat} (hm : 0 < m) {S : State} (hr : Reachable m n S) (hq : quiescent S) :
    LinMap.MapLinearizable (mhist S) (fun _ => none) (absMap S) :=
  tableGN_map_linearizable_aux hm hr hq

/-! ## non-vacuity (`Lemmas/TableGNExamples.lean`) -/

/-- two lineages, two threads, 91 transitions. Before: `ins 0`, `ins 2`, `ins 4` (lineage 0) overlap `ins 1`
(lineage 1); thread 0 treeifies the bin of key 4 (lineage 0, local key 2): cell `(0,0)` of lineage 0 is `TreeBin` 0.
Lineage 0 is resized by thread 0 (0 → 1), a TREE-bin transfer (low side a fresh `TreeBin` 1, high side a plain list),
with thread 1's `get 2` (36–53) holding the read lock of the old `TreeBin` across the split and the three stores, and
thread 1's `ins 6` (54–66) invoked after the marker is stored, following it into the unpublished generation 1 and
completing after the commit. After: `get 4` (through `TreeBin` 1), `rm 1`, `get 6`, `has 3`. The state is reachable
and quiescent, lineage 0 is at generation 1 (generation 0 forwarded), lineage 1 at generation 0, the history has the
ten calls under their original keys, and it is map-linearizable -/
example : ∃ S : State, Reachable 2 2 S ∧ quiescent S ∧
    mhist S = [ ⟨0, ⟨0, .ins 10 100, .none, 1, 5⟩⟩, ⟨2, ⟨0, .ins 20 200, .none, 9, 17⟩⟩,
                ⟨4, ⟨0, .ins 40 400, .none, 18, 27⟩⟩, ⟨2, ⟨1, .get, .some 20 200, 36, 53⟩⟩,
                ⟨6, ⟨1, .ins 60 600, .none, 54, 66⟩⟩, ⟨4, ⟨0, .get, .some 40 400, 67, 76⟩⟩,
                ⟨6, ⟨1, .get, .some 60 600, 84, 89⟩⟩,
                ⟨1, ⟨1, .ins 11 101, .none, 2, 8⟩⟩, ⟨1, ⟨1, .rm, .some 11 101, 68, 83⟩⟩,
                ⟨3, ⟨0, .has, .bool false, 85, 91⟩⟩ ] ∧
    (List.range 8).map (absMap S) =
      [some (10, 100), none, some (20, 200), none, some (40, 400), none, some (60, 600), none] ∧
    S.bins.map (fun b => (b.tabs, b.cur, b.resizing, b.now)) =
      [([[.moved], [.tree 1, .list 8]], 1, false, 91), ([[.empty]], 0, false, 91)] ∧
    LinMap.MapLinearizable (mhist S) (fun _ => none) (absMap S) := by
  obtain ⟨S, hr, hq, hh, ha, hs⟩ := example_state
  exact ⟨S, hr, hq, hh, ha, hs, tableGN_map_linearizable (by decide) hr hq⟩

/-- in the model the lineages may be at different generations (never in the code, see `Proto/TableGN.lean`): a
reachable quiescent table whose lineage 0 is at generation 1 and whose lineage 1 is at generation 0 -/
theorem tableGN_lineages_at_different_generations :
    ∃ S : State, Reachable 2 2 S ∧ quiescent S ∧ S.bins.map (·.cur) = [1, 0] := example_generations

/-- after the treeify of "the bin of key 4" (clock 35) the bin of lineage 0 is a tree bin -/
example : exTreeified = true := example_treeified

/-- during the transfer of the tree bin (clock 50): fresh `TreeBin` (low), plain list (high) and the forwarding
marker are stored, `cur` still is generation 0, the resizing thread holds the mutex of the old `TreeBin`, the reader
sits inside its tree -/
example : exDuring = true := example_during

/-- a writer invoked during the resize walks a list of the unpublished generation 1 (clock 59) -/
example : exStraddle = true := example_straddle

/-- the model refuses a call on a key of another lineage (key 1 is in lineage 1, key 2 in lineage 0), a treeify for
the bin of a key of another lineage (key 1 in lineage 0, key 4 in lineage 1; key 4 in lineage 0 is accepted), and a
thread that is busy in another lineage — with a call (whether it wants to start another call there or just to take a
step), with a treeify, or in the middle of a resize; another thread may resize another lineage meanwhile -/
example : (step (init 2 2) 0 0 (some (1, .ins 1 1)) false none false false false 0).isNone = true ∧
    (step (init 2 2) 1 0 (some (2, .ins 1 1)) false none false false false 0).isNone = true ∧
    (step (init 2 2) 0 0 none false (some 1) false false false 0).isNone = true ∧
    (step (init 2 2) 1 0 none false (some 4) false false false 0).isNone = true ∧
    (step (init 2 2) 0 0 none false (some 4) false false false 0).isSome = true ∧
    (run (init 2 2) (call 0 0 2 (.ins 1 1) ++ call 1 0 1 .get)).isNone = true ∧
    (run (init 2 2) (call 0 0 2 (.ins 1 1) ++ go 1 0 1)).isNone = true ∧
    (run (init 2 2) (treeify 0 0 4 ++ treeify 1 0 1)).isNone = true ∧
    (run (init 2 2) (resize 0 0 ++ go 0 0 1 ++ resize 1 0)).isNone = true ∧
    (run (init 2 2) (resize 0 0 ++ go 0 0 1 ++ resize 1 1 ++ go 1 1 1 ++ go 0 0 1)).isSome = true :=
  example_refused

end Flurry.Proto.TableGN
