import Flurry.Lemmas.BinNHEff
import Flurry.Lemmas.BinNHExamples
/-! # C01 / C08 / C10 (bin level): a COOPERATIVE resize — `Proto/BinN` with helper threads

`Proto/BinNH.lean`: the shared memory, the readers and the writers are literally those of `Proto/BinN`;
any number of threads may be resizing threads of the current generation at the same time, on different or
on the same cells; a resizing thread may be suspended anywhere (e.g. between "store high" and "store marker",
holding the bin lock), may leave between cells, and any of them may commit once every cell is forwarded
(this over-approximates the last-one-out rule, see the header of the model).

**Proved here (the generation level, for every reachable state / every transition, any number of threads):**
`generations_do_not_overlap`, `old_generations_forwarded`, `commit_only_when_all_forwarded`,
`cell_migrated_at_most_once` (who forwards a cell, markers are stable, validated transfer locks are
exclusive, the second helper finds the marker at its re-check), `stale_helper_is_harmless`,
`rw_generation_invariant` (`Proto/BinN`'s whole `GenInv` — `follow_markers_until_live`, … — for the readers
and writers in the presence of helpers), `alloc_commit_abs_invariant`.

**Linearizability** (`binNH_linearizable_quiescent`) and the full `transfer_abs_invariant` (incl. the split and the
three stores) are proved in `Props/C01BinNHLin.lean` (heap invariant with one mid-transfer cell per helper,
`Lemmas/BinNHM*.lean`, `Lemmas/BinNHFull*.lean`); validation by execution: `Lemmas/BinNHExamples.lean`. -/
namespace Flurry.Proto.BinNH
open Flurry.Lin
open Flurry.Proto.BinX (NodeS Cell Pending cellOfHead)
open Flurry.Proto.BinN (cellAt cellOf lockAt GenInv putCell setNode)

/-- the invariant of the helper model holds in every reachable state -/
theorem reachable_invariant {n : Nat} {s : State} (hr : Reachable n s) : Inv s := reachable_inv hr

/-- `Proto/BinN`'s generation invariant holds for the shared memory, the readers and the writers — with any
number of helpers around (so all its consequences carry over: `BinN.GenInv.live_of_gen`, `liveCell_eq`, …) -/
theorem rw_generation_invariant {n : Nat} {s : State} (hr : Reachable n s) : GenInv s.n := (reachable_inv hr).gen

/-- **generations do not overlap**: the tables are the generations `0 … cur`, plus generation `cur + 1` exactly
while a resize runs; generation `g` has `2^g` cells; every resizing thread works for a generation `≤ cur`, for
`cur` only while `resizing` is set; and a resizing thread that is INSIDE a cell's transfer (from its successful
re-check to the store of the marker) works for generation `cur`, `resizing` is set, and its cell still holds the
head it locked — in particular it is not forwarded, so nobody can commit -/
theorem generations_do_not_overlap {n : Nat} {s : State} (hr : Reachable n s) :
    s.n.tabs.length = s.n.cur + 1 + (if s.n.resizing then 1 else 0) ∧
    (∀ g row, s.n.tabs[g]? = some row → row.length = 2 ^ g) ∧
    (∀ (t : Nat) (hp : Helper), s.hs[t]? = some (some hp) → hp.g ≤ s.n.cur ∧ (hp.g = s.n.cur → s.n.resizing = true)) ∧
    (∀ (t : Nat) (hp : Helper) (j h : Nat), s.hs[t]? = some (some hp) → hvalid hp.pc = some (j, h) →
      hp.g = s.n.cur ∧ s.n.resizing = true ∧ cellAt s.n s.n.cur j = .node h ∧ lockAt s.n.heap h = some t) := by
  have I := reachable_inv hr
  refine ⟨I.gen.len, I.gen.rows, fun t hp hh => ⟨(I.hok t hp hh).gle, (I.hok t hp hh).res⟩, ?_⟩
  intro t hp j h hh hv
  have H := I.hok t hp hh
  obtain ⟨e, R⟩ := H.valid_cur I.gen hv
  exact ⟨e, R, by rw [← e]; exact H.valid j h hv, (H.held h (hvalid_holds hv).1).2⟩

/-- **old generations are forwarded**: every cell of a generation older than `cur` is `moved`, for ever -/
theorem old_generations_forwarded {n : Nat} {s : State} (hr : Reachable n s) {g j : Nat} (hg : g < s.n.cur)
    (hj : j < 2 ^ g) : cellAt s.n g j = .moved :=
  (reachable_inv hr).gen.old g j hg hj

/-- what every transition does to a cell: nothing, or it stays un-forwarded, or it is forwarded by the acting
thread, which is a resizing thread of that generation at its CAS of an empty cell or at its marker store -/
theorem cells_step {n : Nat} {s s' : State} (hr : Reachable n s) {t : Nat} {inv : Option (Nat × KOp)} {rz leave : Bool}
    {pick : Nat} (hs : step s t inv rz leave pick = some s') (g j : Nat) :
    cellAt s'.n g j = cellAt s.n g j ∨ (cellAt s'.n g j ≠ .moved ∧ cellAt s.n g j ≠ .moved) ∨
    ∃ hp, s.hs[t]? = some (some hp) ∧ hp.g = g ∧
      ((hp.pc = .casMoved j ∧ cellAt s.n g j = .empty) ∨ ∃ h, hp.pc = .storeMoved j h) := by
  have I := reachable_inv hr
  have put : ∀ (g0 j0 : Nat) (c : Cell), cellAt (putCell (tickN s.n) g0 j0 c) g j = cellAt s.n g j ∨
      (g = g0 ∧ j = j0 ∧ cellAt (putCell (tickN s.n) g0 j0 c) g j = c) := by
    intro g0 j0 c
    by_cases e : g = g0 ∧ j = j0
    · obtain ⟨rfl, rfl⟩ := e
      rcases BinN.cellT_put_self s.n.tabs g j c with e1 | e1
      · exact Or.inr ⟨rfl, rfl, e1⟩
      · exact Or.inl e1
    · exact Or.inl (BinN.cellT_put_ne _ _ e)
  rcases step_cases I hs with ⟨-, E⟩ | ⟨-, -, e⟩ | ⟨hp, hh, E⟩
  · rcases E.cells g j with e | ⟨e1, e2 | ⟨h, e2, -⟩⟩
    · exact Or.inl e
    · exact Or.inr (Or.inl ⟨e1, by rw [e2]; simp⟩)
    · exact Or.inr (Or.inl ⟨e1, by rw [e2]; simp⟩)
  · left; rw [e]; exact BinN.cellT_alloc _ _ _ _
  · have H := I.hok t hp hh
    obtain ⟨g1, pc⟩ := hp
    generalize s'.n = n' at E ⊢
    cases E with
    | tick => exact Or.inl rfl
    | lock j1 h e => exact Or.inl rfl
    | unlock h e => exact Or.inl rfl
    | build j1 h e => exact Or.inl rfl
    | commit e1 e2 e3 => exact Or.inl rfl
    | cas j1 e hc =>
      rcases put g1 j1 .moved with e1 | ⟨rfl, rfl, -⟩
      · exact Or.inl e1
      · exact Or.inr (Or.inr ⟨_, hh, rfl, Or.inl ⟨e, hc⟩⟩)
    | marker j1 h e =>
      rcases put g1 j1 .moved with e1 | ⟨rfl, rfl, -⟩
      · exact Or.inl e1
      · exact Or.inr (Or.inr ⟨_, hh, rfl, Or.inr ⟨h, e⟩⟩)
    | low j1 h lo hg e =>
      subst e
      have e0 : g1 = s.n.cur := (H.valid_cur I.gen (j := j1) (h := h) rfl).1
      clear H
      rcases put (g1 + 1) j1 (cellOfHead lo) with e1 | ⟨rfl, rfl, e1⟩
      · exact Or.inl e1
      · refine Or.inr (Or.inl ⟨by rw [e1]; exact BinX.cellOfHead_ne_moved lo, ?_⟩)
        rw [e0]; exact I.gen.nextOK _
    | high j1 h hg e =>
      subst e
      have e0 : g1 = s.n.cur := (H.valid_cur I.gen (j := j1) (h := h) rfl).1
      clear H
      rcases put (g1 + 1) (j1 + 2 ^ g1) (cellOfHead hg) with e1 | ⟨rfl, rfl, e1⟩
      · exact Or.inl e1
      · refine Or.inr (Or.inl ⟨by rw [e1]; exact BinX.cellOfHead_ne_moved hg, ?_⟩)
        rw [e0]; exact I.gen.nextOK _

/-- **a cell is migrated at most once.**
(1) a forwarding marker is stable: once `moved`, always `moved` — so a cell is forwarded by at most one transition
of any run; (2) the transition that forwards cell `(g, j)` is a resizing thread's of generation `g = cur`, while
`resizing`, either by its CAS of the EMPTY cell or by its marker store while it holds the mutex of the head `h` the
cell still shows (its validated lock); (3) validated transfer locks are exclusive: two resizing threads inside the
transfer of the same cell are the same thread — the second helper blocks on the bin lock; (4) and when it gets the
lock it finds the marker at its re-check: its next transition unlocks and reloads the cell. -/
theorem cell_migrated_at_most_once {n : Nat} {s : State} (hr : Reachable n s) :
    (∀ {s' t inv rz leave pick} (_ : step s t inv rz leave pick = some s') (g j : Nat),
      cellAt s.n g j = .moved → cellAt s'.n g j = .moved) ∧
    (∀ {s' t inv rz leave pick} (_ : step s t inv rz leave pick = some s') (g j : Nat),
      cellAt s.n g j ≠ .moved → cellAt s'.n g j = .moved →
      ∃ hp, s.hs[t]? = some (some hp) ∧ hp.g = g ∧ g = s.n.cur ∧ s.n.resizing = true ∧ j < 2 ^ g ∧
        ((hp.pc = .casMoved j ∧ cellAt s.n g j = .empty) ∨
         ∃ h, hp.pc = .storeMoved j h ∧ cellAt s.n g j = .node h ∧ lockAt s.n.heap h = some t)) ∧
    (∀ (t t1 : Nat) (hp hp1 : Helper) (j h h1 : Nat), s.hs[t]? = some (some hp) → s.hs[t1]? = some (some hp1) → hp.g = hp1.g →
      hvalid hp.pc = some (j, h) → hvalid hp1.pc = some (j, h1) → t = t1) ∧
    (∀ {s' : State} {t : Nat} {hp : Helper} {j h : Nat} {inv rz leave pick}, s.hs[t]? = some (some hp) → hp.pc = .check j h →
      cellAt s.n hp.g j = .moved → step s t inv rz leave pick = some s' →
      s'.hs[t]? = some (some ⟨hp.g, .cell j⟩) ∧ lockAt s'.n.heap h = none ∧ s'.n.tabs = s.n.tabs) := by
  have I := reachable_inv hr
  refine ⟨?_, ?_, ?_, ?_⟩
  · intro s' t inv rz leave pick hs g j hm
    rcases cells_step hr hs g j with e | ⟨-, e⟩ | ⟨hp, hh, hg, ⟨-, e⟩ | ⟨h, e⟩⟩
    · rw [e]; exact hm
    · exact absurd hm e
    · rw [hm] at e; cases e
    · have := (I.hok t hp hh).valid j h (by rw [e]; rfl)
      rw [hg, hm] at this; cases this
  · intro s' t inv rz leave pick hs g j hnm hm
    rcases cells_step hr hs g j with e | ⟨e, -⟩ | ⟨hp, hh, hg, hc⟩
    · rw [e] at hm; exact absurd hm hnm
    · exact absurd hm e
    · have H := I.hok t hp hh
      subst hg
      rcases hc with ⟨e, hc⟩ | ⟨h, e⟩
      · have hj : j < 2 ^ hp.g := H.idx j (by rw [e]; rfl)
        have hcur : hp.g = s.n.cur := by
          have : ¬ hp.g < s.n.cur := fun hlt => hnm (I.gen.old hp.g j hlt hj)
          have := H.gle; omega
        exact ⟨hp, hh, rfl, hcur, H.res hcur, hj, Or.inl ⟨e, hc⟩⟩
      · have hv : hvalid hp.pc = some (j, h) := by rw [e]; rfl
        obtain ⟨hcur, R⟩ := H.valid_cur I.gen hv
        exact ⟨hp, hh, rfl, hcur, R, H.idx j (hvalid_holds hv).2,
          Or.inr ⟨h, e, H.valid j h hv, (H.held h (hvalid_holds hv).1).2⟩⟩
  · intro t t1 hp hp1 j h h1 hh hh1 hg hv hv1
    have H := I.hok t hp hh
    have H1 := I.hok t1 hp1 hh1
    have c := H.valid j h hv
    have c1 := H1.valid j h1 hv1
    rw [← hg, c] at c1
    cases c1
    have a := (H.held h (hvalid_holds hv).1).2
    have b := (H1.held h (hvalid_holds hv1).1).2
    rw [a] at b
    exact Option.some.inj b
  · intro s' t hp j h inv rz leave pick hh hpc hm hs
    have H := I.hok t hp hh
    have hlen : h < s.n.heap.length := (H.held h (by rw [hpc]; rfl)).1
    have ht : t < s.hs.length := (List.getElem?_eq_some_iff.1 hh).1
    obtain ⟨g, pc⟩ := hp
    simp only at hpc hm
    subst hpc
    unfold step stepG at hs
    cases hl : s.n.threads[t]? with
    | none =>
      have := I.len
      have : t < s.n.threads.length := by omega
      rw [List.getElem?_eq_none_iff] at hl; omega
    | some l =>
      rw [hl, hh] at hs
      have hm' : cellAt (tickN s.n) g j = .moved := hm
      simp only [helperStep, Bool.not_true, Bool.false_or, hm'] at hs
      have : (Cell.moved == Cell.node h) = false := rfl
      simp only [this] at hs
      cases hs
      refine ⟨?_, ?_, rfl⟩
      · show (s.hs.set t _)[t]? = _
        rw [List.getElem?_set_self ht]
      · show lockAt (s.n.heap.modify h _) h = none
        exact BinN.lockAt_modify_self none hlen

/-- **commit only when all forwarded**: a transition that changes `cur` increments it, is the `commit` step of a
resizing thread of generation `cur` while `resizing`, every cell of generation `cur` is forwarded, and no resizing
thread is inside a cell's transfer; and a resizing thread of generation `cur` that has reached `commit` sees every
cell forwarded -/
theorem commit_only_when_all_forwarded {n : Nat} {s : State} (hr : Reachable n s) :
    (∀ {s' t inv rz leave pick}, step s t inv rz leave pick = some s' → s'.n.cur ≠ s.n.cur →
      s'.n.cur = s.n.cur + 1 ∧ s.n.resizing = true ∧ s.hs[t]? = some (some ⟨s.n.cur, .commit⟩) ∧
      (∀ j, j < 2 ^ s.n.cur → cellAt s.n s.n.cur j = .moved) ∧
      (∀ (t1 : Nat) (hp : Helper), s.hs[t1]? = some (some hp) → hvalid hp.pc = none)) ∧
    (∀ (t : Nat) (hp : Helper), s.hs[t]? = some (some hp) → hp.pc = .commit → hp.g = s.n.cur →
      ∀ j, j < 2 ^ s.n.cur → cellAt s.n s.n.cur j = .moved) := by
  have I := reachable_inv hr
  refine ⟨?_, fun t hp hh hc hg => (I.hok t hp hh).commit hc hg⟩
  intro s' t inv rz leave pick hs hne
  rcases step_cases I hs with ⟨-, E⟩ | ⟨-, -, e⟩ | ⟨hp, hh, E⟩
  · exact absurd E.cur hne
  · rw [e] at hne; exact absurd rfl hne
  · have H := I.hok t hp hh
    obtain ⟨g, pc⟩ := hp
    generalize s'.n = n' at E hne ⊢
    cases E with
    | commit e1 e2 e3 =>
      simp only at e1 e2
      subst e1 e2
      have hall := H.commit rfl rfl
      refine ⟨rfl, e3, hh, hall, ?_⟩
      intro t1 hp1 hh1
      cases hv : hvalid hp1.pc with
      | none => rfl
      | some jh =>
        obtain ⟨j, h⟩ := jh
        have H1 := I.hok t1 hp1 hh1
        obtain ⟨e, -⟩ := H1.valid_cur I.gen hv
        have c := H1.valid j h hv
        rw [e, hall j (by rw [← e]; exact H1.idx j (hvalid_holds hv).2)] at c
        cases c
    | tick => exact absurd rfl hne
    | lock j1 h e => exact absurd rfl hne
    | unlock h e => exact absurd rfl hne
    | build j1 h e => exact absurd rfl hne
    | cas j1 e hc => exact absurd rfl hne
    | marker j1 h e => exact absurd rfl hne
    | low j1 h lo hg e => exact absurd rfl hne
    | high j1 h hg e => exact absurd rfl hne

/-- **a stale helper is harmless**: a resizing thread of a generation `g < cur` (the resize it joined has
committed; possibly the next one is already running) changes no cell, neither `cur` nor `resizing`, no history and no
node — except for the lock word of the dead head it once loaded, which it locks and (after the failed re-check)
unlocks; the abstract state of every key is unchanged. It never reaches the split or a store. -/
theorem stale_helper_is_harmless {n : Nat} {s s' : State} (hr : Reachable n s) {t : Nat} {hp : Helper}
    {inv : Option (Nat × KOp)} {rz leave : Bool} {pick : Nat} (hh : s.hs[t]? = some (some hp)) (hg : hp.g < s.n.cur)
    (hs : step s t inv rz leave pick = some s') :
    s'.n.tabs = s.n.tabs ∧ s'.n.cur = s.n.cur ∧ s'.n.resizing = s.n.resizing ∧ s'.n.hist = s.n.hist ∧
    s'.n.threads = s.n.threads ∧ hvalid hp.pc = none ∧
    (s'.n.heap = s.n.heap ∨ ∃ h x, s'.n.heap = s.n.heap.modify h (fun m => { m with lock := x })) ∧
    ∀ k, absOf s' k = absOf s k := by
  have I := reachable_inv hr
  have H := I.hok t hp hh
  have hnv : hvalid hp.pc = none := by
    cases hv : hvalid hp.pc with
    | none => rfl
    | some jh =>
      obtain ⟨e, -⟩ := H.valid_cur I.gen (j := jh.1) (h := jh.2) hv
      omega
  have htick : ∀ k, BinN.absOf (tickN s.n) k = BinN.absOf s.n k := fun k =>
    BinN.absOf_congr (s := s.n) (s' := tickN s.n) rfl (BinN.liveCell_congr (s := s.n) (s' := tickN s.n) rfl rfl k)
  rcases step_cases I hs with ⟨e, -⟩ | ⟨e, -⟩ | ⟨hp', hh', E⟩
  · rw [hh] at e; cases e
  · rw [hh] at e; cases e
  · rw [hh] at hh'
    cases hh'
    obtain ⟨g, pc⟩ := hp
    simp only at hg hnv
    unfold absOf
    generalize s'.n = n' at E ⊢
    cases E with
    | tick => exact ⟨rfl, rfl, rfl, rfl, rfl, hnv, Or.inl rfl, htick⟩
    | lock j1 h e => exact ⟨rfl, rfl, rfl, rfl, rfl, hnv, Or.inr ⟨h, _, rfl⟩, fun k => absOf_lockmod s.n h _ k⟩
    | unlock h e => exact ⟨rfl, rfl, rfl, rfl, rfl, hnv, Or.inr ⟨h, _, rfl⟩, fun k => absOf_lockmod s.n h _ k⟩
    | build j1 h e => subst e; cases hnv
    | marker j1 h e => subst e; cases hnv
    | low j1 h lo hg e => subst e; cases hnv
    | high j1 h hg e => subst e; cases hnv
    | commit e1 e2 e3 => have e2 : g = s.n.cur := e2; omega
    | cas j1 e hc =>
      have hj : j1 < 2 ^ g := H.idx j1 (by rw [e]; rfl)
      have := I.gen.old g j1 hg hj
      rw [hc] at this; cases this

/-- the generation-level part of `transfer_abs_invariant`: starting a resize (allocating generation `cur + 1`),
joining, leaving, every load / lock / unlock / re-check of a resizing thread, and the commit change the abstract
state of no key. (The split and the three stores need the heap invariant: validated by execution only.) -/
theorem alloc_commit_abs_invariant {n : Nat} {s s' : State} (hr : Reachable n s) {t : Nat}
    {inv : Option (Nat × KOp)} {rz leave : Bool} {pick : Nat} (hs : step s t inv rz leave pick = some s')
    (hT : (s.hs[t]? = some none ∧ s'.n = allocN s.n) ∨ s'.n = commitN s.n ∨ s'.n = tickN s.n ∨
      ∃ h x, s'.n = setNode (tickN s.n) h (fun m => { m with lock := x })) (k : Nat) : absOf s' k = absOf s k := by
  have I := reachable_inv hr
  have I' := reachable_inv (Reachable.step t inv rz leave pick hr hs)
  rcases hT with ⟨-, e⟩ | e | e | ⟨h, x, e⟩
  · show BinN.absOf s'.n k = _
    exact BinN.alloc_abs I.gen I'.gen (by rw [e]; rfl) (by rw [e]; rfl) (by rw [e]; rfl) k
  · obtain ⟨-, -, hh, hall, -⟩ := (commit_only_when_all_forwarded hr).1 hs (by rw [e]; show s.n.cur + 1 ≠ s.n.cur; omega)
    show BinN.absOf s'.n k = _
    exact BinN.commit_abs I.gen I'.gen (by rw [e]; rfl) (by rw [e]; rfl) (by rw [e]; rfl) hall k
  · show BinN.absOf s'.n k = _
    rw [e]
    exact BinN.absOf_congr (s := s.n) (s' := tickN s.n) rfl (BinN.liveCell_congr (s := s.n) (s' := tickN s.n) rfl rfl k)
  · show BinN.absOf s'.n k = _
    rw [e]; exact absOf_lockmod s.n h x k

/-! ## validation by execution (see `Lemmas/BinNHExamples.lean`) -/

/-- two helpers on different cells and on the same cell, one suspended between "store high" and "store marker"
while the other goes on; the late helper's commit fails: reachable, and all histories linearizable (complete
decision procedure, kernel-checked) -/
theorem two_helpers_run :
    ∃ s, Reachable 4 s ∧ quiescent s ∧ s.n.cur = 2 ∧ ∀ k < 4, Lin.Linearizable (callsOn s k) none (absOf s k) := by
  obtain ⟨s, -, h⟩ := two_helpers_linearizable
  exact ⟨s, h⟩

/-- a helper that resumes after the commit of its generation and after the NEXT resize has started -/
theorem stale_helper_run :
    ∃ s, Reachable 4 s ∧ quiescent s ∧ s.n.cur = 2 ∧ ∀ k < 4, Lin.Linearizable (callsOn s k) none (absOf s k) := by
  obtain ⟨s, -, h⟩ := stale_helper_linearizable
  exact ⟨s, h⟩

/-- the helper's re-check is load-bearing: the model without the re-checks is not linearizable -/
theorem noCheck_refuted :
    ¬ ∀ (n : Nat) (s : State), ReachableNoCheck n s → quiescent s → ∀ k,
      Lin.Linearizable (callsOn s k) none (absOf s k) := noCheck_refutes

end Flurry.Proto.BinNH
