import Flurry.SigDefs
import Flurry.Gen.Atomics
import Flurry.Lemmas.RwLock
/-! # C12 — reads never block and never take locks

Two parts.

* **Table theorem** over `Flurry.Gen.atomicSites` / `callEdges` (regenerated from /repo/src on
  every run): no function reachable from a read entry point (`get`, `get_key_value`,
  `contains_key`, `contains`, iteration, `len`, `is_empty`, equality) contains a `lock()`, `park`,
  `yield_now`, `spin_loop` or `sleep` site. Calls are resolved by method name, which
  over-approximates reachability.
* **Protocol theorem** (`Proto/RwLock`): a reader's steps are always enabled, whatever the writer
  is doing — suspended while holding the write lock, while waiting, or in between — and a reader
  that takes the fast path never meets a restructuring writer (`mutual_exclusion`), while one that
  sees `WRITER`/`WAITER` walks the `next` list.

* **Bin theorems** (`Props/C12Bins.lean`, models `Proto/BinT` and `Proto/BinX`): in every reachable
  state a reader's step is enabled, it changes no lock, no node and no other thread, and a reader
  run alone finishes within `2·|heap| + 5` (tree bin) / `|heap| + 4` (list bin under resize) of
  its own steps.

**Partial:** that every read finishes within a *bounded* number of its own steps from any
reachable state of the *whole map* (iteration, `len`, forwarding chains across several nested
resizes, many bins) is checked on the implementation: the harness suspends writers at every
yield point and runs each read alone (`harness solo`). -/
namespace Flurry.C12
open Flurry.Sig Flurry.Gen

def blocking (k : String) : Bool := k == "lock" || k == "park" || k == "yield" || k == "spin" || k == "sleep"

set_option maxRecDepth 20000 in
/-- `readRoots` / `readClosure` are emitted by the translator (read entry points by name and the
functions reachable from them); they are a *certificate* that is re-checked here: -/
theorem roots_in_closure : readRoots.all readClosure.contains = true := by decide +kernel

set_option maxRecDepth 20000 in
/-- the root ids are the ids of the named entry points -/
theorem roots_named : readRoots.map (fun i => crateFns.getD i "") = readRootNames := by decide +kernel

set_option maxRecDepth 20000 in
/-- the closure is closed under the call relation -/
theorem reach_closed :
    callEdges.all (fun e => !readClosure.contains e.1 || readClosure.contains e.2) = true := by decide +kernel

set_option maxRecDepth 20000 in
/-- **no read path contains a blocking site**: no function reachable from a read entry point
contains a `lock()`, `park`, `yield_now`, `spin_loop` or `sleep` -/
theorem reader_lock_free :
    atomicSites.all (fun s => !(readClosure.contains s.fnId && blocking s.kind)) = true := by decide +kernel

set_option maxRecDepth 20000 in
/-- the statement is not vacuous: the entry points the property names are roots, the tree search
is reachable, and writers do contain blocking sites -/
theorem roots_present :
    ["HashMap::get", "HashMap::get_key_value", "HashMap::contains_key", "HashMap::len", "HashMap::guarded_eq",
     "NodeIter::next", "HashSet::contains"].all readRootNames.contains = true ∧
    (atomicSites.any fun s => readClosure.contains s.fnId && s.fn == "TreeBin::find") = true ∧
    (atomicSites.any fun s => blocking s.kind) = true := by decide +kernel

open Flurry.Proto.RwLock in
/-- a reader is never disabled, in any reachable state of the tree-bin lock protocol -/
theorem reader_never_blocked (s : State) (i : Nat) (more : Bool) (hi : i < s.readers.length) :
    (stepReader s i more).isSome = true := reader_always_enabled s i more hi

open Flurry.Proto.RwLock in
/-- a reader searching the tree never overlaps a writer that restructures it -/
theorem tree_readers_exclude_writer {n : Nat} {s : State} (h : Reachable n s)
    (hw : s.wpc = .hold ∨ s.wpc = .swapOut) : numHolding s.readers = 0 := mutual_exclusion h hw

end Flurry.C12
