import Flurry.SigDefs
import Flurry.Gen.Atomics
import Flurry.Lemmas.RwLock
import Flurry.Gen.Arith
/-! # C12 — reads never block and never take locks

Two parts.

* **Table theorem** over `Flurry.Gen.atomicSites` / `callEdges` (regenerated from /repo/src on
  every run): no function reachable from a read entry point (`get`, `get_key_value`,
  `contains_key`, `contains`, iteration, `len`, `is_empty`, equality) contains a `lock()`, `park`,
  `yield_now`, `spin_loop` or `sleep` site. Calls are resolved by method name, which
  over-approximates reachability.
* **Protocol theorem** (`Proto/RwLock`): a reader's steps are always enabled, whatever the writer
  is doing — suspended while holding the write lock, while waiting, or in between — and a reader
  that takes the fast path never meets a restructuring writer (`mutual_exclusion`), while one that
  sees `WRITER`/`WAITER` walks the `next` list.

* **Bin theorems** (`Props/C12Bins.lean`, models `Proto/BinT` and `Proto/BinX`): in every reachable
  state a reader's step is enabled, it changes no lock, no node and no other thread, and a reader
  run alone finishes within `2·|heap| + 5` (tree bin) / `|heap| + 4` (list bin under resize) of
  its own steps.

**Partial:** that every read finishes within a *bounded* number of its own steps from any
reachable state of the *whole map* (iteration, `len`, forwarding chains across several nested
resizes, many bins) is checked on the implementation: the harness suspends writers at every
yield point and runs each read alone (`harness solo`). -/
namespace Flurry.C12
open Flurry.Sig Flurry.Gen

def blocking (k : String) : Bool := k == "lock" || k == "park" || k == "yield" || k == "spin" || k == "sleep"

set_option maxRecDepth 20000 in
/-- `readRoots` / `readClosure` are emitted by the translator (read entry points by name and the
functions reachable from them); they are a *certificate* that is re-checked here: -/
theorem roots_in_closure : readRoots.all readClosure.contains = true := by decide +kernel

set_option maxRecDepth 20000 in
/-- the root ids are the ids of the named entry points -/
theorem roots_named : readRoots.map (fun i => crateFns.getD i "") = readRootNames := by decide +kernel

set_option maxRecDepth 20000 in
/-- the closure is closed under the call relation -/
theorem reach_closed :
    callEdges.all (fun e => !readClosure.contains e.1 || readClosure.contains e.2) = true := by decide +kernel

set_option maxRecDepth 20000 in
/-- **no read path contains a blocking site**: no function reachable from a read entry point
contains a `lock()`, `park`, `yield_now`, `spin_loop` or `sleep` -/
theorem reader_lock_free :
    atomicSites.all (fun s => !(readClosure.contains s.fnId && blocking s.kind)) = true := by decide +kernel

set_option maxRecDepth 20000 in
/-- the statement is not vacuous: the entry points the property names are roots, the tree search
is reachable, and writers do contain blocking sites -/
theorem roots_present :
    ["HashMap::get", "HashMap::get_key_value", "HashMap::contains_key", "HashMap::len", "HashMap::guarded_eq",
     "NodeIter::next", "HashSet::contains"].all readRootNames.contains = true ∧
    (atomicSites.any fun s => readClosure.contains s.fnId && s.fn == "TreeBin::find") = true ∧
    (atomicSites.any fun s => blocking s.kind) = true := by decide +kernel

open Flurry.Proto.RwLock in
/-- a reader is never disabled, in any reachable state of the tree-bin lock protocol -/
theorem reader_never_blocked (s : State) (i : Nat) (more : Bool) (hi : i < s.readers.length) :
    (stepReader s i more).isSome = true := reader_always_enabled s i more hi

open Flurry.Proto.RwLock in
/-- a reader searching the tree never overlaps a writer that restructures it -/
theorem tree_readers_exclude_writer {n : Nat} {s : State} (h : Reachable n s)
    (hw : s.wpc = .hold ∨ s.wpc = .swapOut) : numHolding s.readers = 0 := mutual_exclusion h hw

/-! ## the tie of the reader's loop to the source (`TreeBin::find`)

The translator regenerates, from the loop over list elements in `TreeBin::find`, the condition
under which the reader takes one *linear* step (`findLinearCond`) and what — besides the
`compare_exchange` itself — guards the attempt to take the read lock (`findCasGuard`; `true` when
the `else if` is the bare CAS). -/
section FindLoop
open Flurry.Gen.BV

/-- **the reader never idles**: in every iteration, whatever the lock word holds, it either takes a
linear step or attempts the CAS. (A lock word for which neither applies would make the reader
re-read the word until another thread changes it: it would *wait* — seeded change
`C12-find-waiter-spin`.) -/
theorem find_loop_never_idles (s : BitVec 64) : (findLinearCond s || findCasGuard s) = true := by
  simp [findCasGuard]

/-- the linear step is taken exactly when the `WRITER` bit (bit 0) or the `WAITER` bit (bit 1) is set -/
theorem find_linear_iff_bits (s : BitVec 64) : findLinearCond s = (s.getLsbD 0 || s.getLsbD 1) := by
  unfold findLinearCond Flurry.Gen.BV.WAITER Flurry.Gen.BV.WRITER
  have h : (2#64 ||| 1#64) = 3#64 := by decide
  rw [h]
  have h2 : (s &&& 3#64).toNat = s.toNat % 4 := by
    rw [BitVec.toNat_and]
    exact Nat.and_two_pow_sub_one_eq_mod s.toNat 2
  have h0 : s.getLsbD 0 = decide (s.toNat % 2 = 1) := by
    simp [BitVec.getLsbD, Nat.testBit]; rfl
  have h1 : s.getLsbD 1 = decide (s.toNat / 2 % 2 = 1) := by
    simp [BitVec.getLsbD, Nat.testBit, Nat.shiftRight_eq_div_pow]; rfl
  rw [h0, h1]
  by_cases hz : (s &&& 3#64) = 0#64
  · have : (s &&& 3#64).toNat = 0 := by rw [hz]; rfl
    rw [h2] at this
    have e : ((s &&& 3#64) != 0#64) = false := by simp [hz]
    rw [e]; symm; simp; omega
  · have : (s &&& 3#64).toNat ≠ 0 := by
      intro h; apply hz; apply BitVec.eq_of_toNat_eq; simpa using h
    rw [h2] at this
    have e : ((s &&& 3#64) != 0#64) = true := by simp [hz]
    rw [e]; symm; simp; omega

open Flurry.Proto.RwLock in
/-- the decision of the lock model's reader (`Proto/RwLock.stepReader`, pc `decide st`, and the
`rState` step of `Proto/BinT` / `Proto/BinU`) is the decision of the source, for every lock word -/
theorem model_decision_is_source_decision (st : Nat) (h : st < 2 ^ 64) :
    (hasBit (st : Int) Flurry.Gen.WAITER || hasBit (st : Int) Flurry.Gen.WRITER) = findLinearCond (BitVec.ofNat 64 st) := by
  rw [find_linear_iff_bits]
  have h0 : (BitVec.ofNat 64 st).getLsbD 0 = decide (st % 2 = 1) := by
    simp [BitVec.getLsbD, Nat.testBit, Nat.mod_eq_of_lt h]; rfl
  have h1 : (BitVec.ofNat 64 st).getLsbD 1 = decide (st / 2 % 2 = 1) := by
    simp [BitVec.getLsbD, Nat.testBit, Nat.shiftRight_eq_div_pow, Nat.mod_eq_of_lt h]; rfl
  rw [h0, h1]
  unfold hasBit Flurry.Gen.WAITER Flurry.Gen.WRITER
  by_cases a : st % 2 = 1 <;> by_cases b : st / 2 % 2 = 1 <;> simp [a, b] <;> omega

end FindLoop

/-! ## `TreeBin::find`: the tree is searched only under the read lock

`Proto/BinU` / `BinK` / `BinT`: a lock-protocol reader takes the read lock (`rCas`), searches the
tree (`rTree`), releases (`rRelease`); a writer restructures the tree only while no reader holds the
read lock. The search starts at `root`, which rotations and removals of the root node change — so the
load of `root` belongs inside the read lock like every other tree link. Regenerated from the source:
the accesses of `TreeBin::find` to the bin's words and the call of the tree search, in source order. -/
section FindOrder
open Flurry.Gen

def idxOf (x : String) (l : List String) : Nat := l.findIdx (· == x)

/-- every load of `root` and every call of the tree search stands after the reader CAS and before
the release of the read lock (the `fetch_add(-READER)`), and both of those are there -/
def treeSearchedUnderReadLock (o : List String) : Bool :=
  let cas := idxOf "cas:lock_state" o
  let rel := idxOf "rmw:lock_state" o
  cas < o.length && rel < o.length && cas < rel &&
  (List.range o.length).all fun i =>
    let x := o.getD i ""
    if x == "load:root" || x == "call:find_tree_node" || x == "load:left" || x == "load:right" || x == "load:parent"
    then cas < i && i < rel else true

theorem find_searches_tree_under_read_lock : treeSearchedUnderReadLock treeBinFindOrder = true := by decide

/-- the reader never writes a list cell or a tree link: its only accesses are loads, the tree search,
and the CAS / fetch-add on the lock word -/
theorem find_writes_nothing_but_the_lock_word :
    treeBinFindOrder.all (fun x => ["load:first", "load:lock_state", "load:next", "load:root", "load:waiter", "load:left",
      "load:right", "load:parent", "call:find_tree_node", "cas:lock_state", "rmw:lock_state"].contains x) = true := by
  decide

-- non-vacuity: the search and the root load are in the table; a root loaded before the CAS is rejected
example : treeBinFindOrder.contains "load:root" = true ∧ treeBinFindOrder.contains "call:find_tree_node" = true := by decide
example : treeSearchedUnderReadLock ["load:root", "load:first", "load:lock_state", "load:next", "cas:lock_state",
    "call:find_tree_node", "rmw:lock_state", "load:waiter"] = false := by decide
end FindOrder

end Flurry.C12
