import Flurry.Lemmas.BinNIUnique
import Flurry.Props.C07BinNIOnce
/-! # C07 (bin level, CONCURRENT): an untouched key is yielded EXACTLY once

For a COMPLETED iteration `(t, τ0, τ1) ∈ s.ends` of `Proto/BinNI` (the traverser running while writers and
any number of resizes proceed), in every reachable state, any number of threads, every interleaving; "during
the whole iteration" = in every state `s₁` of the run (`Reachable`, `Steps s₁ s`) with clock in `[τ0, τ1]`.

* `iter_untouched_yielded_at_most_once` (= `iter_no_duplicates_of_untouched`): a key that maps to `v` during
  the whole iteration is yielded at most once by it;
* `iter_untouched_yielded_once`: … exactly once, and that yield carries `v` (with `iter_untouched_yielded` of
  `Props/C07BinNIOnce.lean`).

How (`Lemmas/BinNIReach.lean`, `BinNIDelta.lean`, `BinNIUnique.lean`): for an untouched key `k`, at most one
node with key `k` is reachable from the iterator's pointer through `next`; none if a pending cell covers `k`;
none, and no pending cell covers `k`, once `k` has been yielded. Other threads only make the reachable
`k`-nodes fewer: every transition of `Proto/BinN` that leaves `absOf k = some v` is a `Delta k` on the nodes
(`stepK_delta`) — old nodes keep their keys; a `next` is only written by a list writer: an unlink skips one
node, an append links a FRESH last node whose key is not `k` (an insert that appends `k` found `k` absent:
its result contradicts the sequential specification on `some v`); the transfer never writes the `next` of an
old node, it only allocates copies. The list of a cell that is not forwarded has distinct keys of that cell's
class; pending cells have pairwise disjoint classes and a popped cell is never pushed again; `next` pointers
have no cycles (`Reach.ord_lt`), so after the node of `k` no node of `k` follows. -/
namespace Flurry.Proto.BinNI
open Flurry.Lin

/-- **C07, no duplicates of an untouched key**: at most one yield of the iteration has key `k` -/
theorem iter_untouched_yielded_at_most_once {nt : Nat} {s : State} (hr : Reachable nt s) {t τ0 τ1 k : Nat}
    {v : Nat × Nat} (he : (t, τ0, τ1) ∈ s.ends)
    (hun : ∀ s₁, Reachable nt s₁ → Steps s₁ s → τ0 ≤ s₁.n.now → s₁.n.now ≤ τ1 → absOf s₁ k = some v) :
    (s.yields.filter fun y => decide (y.tid = t ∧ y.t0 = τ0 ∧ y.key = k)).length ≤ 1 :=
  untouched_at_most_once hr he hun

/-- the same under the name of the property list -/
theorem iter_no_duplicates_of_untouched {nt : Nat} {s : State} (hr : Reachable nt s) {t τ0 τ1 k : Nat}
    {v : Nat × Nat} (he : (t, τ0, τ1) ∈ s.ends)
    (hun : ∀ s₁, Reachable nt s₁ → Steps s₁ s → τ0 ≤ s₁.n.now → s₁.n.now ≤ τ1 → absOf s₁ k = some v) :
    (s.yields.filter fun y => decide (y.tid = t ∧ y.t0 = τ0 ∧ y.key = k)).length ≤ 1 :=
  untouched_at_most_once hr he hun

/-- **C07, present and untouched ⇒ yielded exactly once, with its value**: the yields of the iteration with key
`k` are exactly one record, and it carries `v` — whatever writers (on other keys, or overwriting nothing of
`k`) and however many resizes ran during the iteration -/
theorem iter_untouched_yielded_once {nt : Nat} {s : State} (hr : Reachable nt s) {t τ0 τ1 k : Nat}
    {v : Nat × Nat} (he : (t, τ0, τ1) ∈ s.ends)
    (hun : ∀ s₁, Reachable nt s₁ → Steps s₁ s → τ0 ≤ s₁.n.now → s₁.n.now ≤ τ1 → absOf s₁ k = some v) :
    ∃ y, (s.yields.filter fun y => decide (y.tid = t ∧ y.t0 = τ0 ∧ y.key = k)) = [y] ∧ y.val = v := by
  have h1 := untouched_at_most_once hr he hun
  obtain ⟨y, hy, a, b, c, d⟩ := untouched_yielded hr he hun
  have hmem : y ∈ s.yields.filter fun y => decide (y.tid = t ∧ y.t0 = τ0 ∧ y.key = k) :=
    List.mem_filter.2 ⟨hy, by simpa using ⟨a, b, c⟩⟩
  have hlen : (s.yields.filter fun y => decide (y.tid = t ∧ y.t0 = τ0 ∧ y.key = k)).length = 1 := by
    have := List.length_pos_of_mem hmem
    unfold Ycnt at h1
    omega
  obtain ⟨y', hy'⟩ := List.length_eq_one_iff.1 hlen
  rw [hy'] at hmem
  have : y = y' := by simpa using hmem
  exact ⟨y', hy', by rw [← this]; exact d⟩

end Flurry.Proto.BinNI
