import Flurry.Lemmas.BinNRMain
/-! # C03 / C04 on the concrete heap: `Proto/BinNR` = `Proto/BinN` (list-bin lineage through any number of
resizes) + reclamation (retire lists, guards, `free`)

For every reachable state of `Proto/BinNR` (any number of threads, every interleaving, any number of resizes,
`retire` at any time between the unlink store and the response, `free` as early as the guards allow):

* `unlink_before_retire` / `retire_only_unreachable`: the nodes a step hands to `retire` (the node a remover
  unlinked; the copied prefix of a transferred list) were made unreachable by that very step, and a node that
  is not `live` is in no chain of any cell and no node of a chain points to it — in every later state;
* `holders_are_awaited`: a thread that holds a retired node in its program counter is in its `waitFor`;
* `no_touch_after_free`: no step reads or writes through a freed node (C03);
* `free_only_when_unheld`, `freed_was_retired`, `obligations_unlinked` (C04, the part proved). -/
namespace Flurry.Props.C03BinNR
open Flurry.Lin
open Flurry.Proto.BinX (nodeAt)
open Flurry.Proto.BinN (Local Inv StepK)
open Flurry.Proto.BinNR

/-- the shared memory, the readers and the writers of a `BinNR` run are literally a `BinN` run: all theorems
about `BinN.Reachable` states (linearizability, `chains_wellformed`, …) apply to `s.n` -/
theorem projects_to_BinN {nt : Nat} {s : State} (hr : Reachable nt s) : Flurry.Proto.BinN.Reachable nt s.n :=
  reachable_n hr

/-- **unlink before retire** (step level): whatever a `BinN` step of thread `t` hands to `retire` was in the chain
of a cell before the step and is in no chain of any cell after it; and `t` is under a guard -/
theorem unlink_before_retire {nt : Nat} {s : State} (hr : Reachable nt s) {t : Nat} {inv : Option (Nat × KOp)}
    {rz : Bool} {pick : Nat} {n' : Flurry.Proto.BinN.State}
    (hs : Flurry.Proto.BinN.step s.n t inv rz pick = some n') :
    ∀ i ∈ retiredBy false s.n t, reach s.n i = true ∧ reach n' i = false ∧ guarded s.n t = true := by
  obtain ⟨G, R⟩ := reachable_rinv hr
  intro i hi
  cases hl : s.n.threads[t]? with
  | none => unfold retiredBy at hi; rw [hl] at hi; cases hi
  | some l =>
    obtain ⟨h0, h1, h2⟩ := retiredBy_dead R.inv hl (Flurry.Proto.BinN.step_stepK hl hs) i hi
    refine ⟨(reach_iff _ _).2 h0, ?_, h2⟩
    cases hr' : reach n' i with
    | false => rfl
    | true => exact absurd ((reach_iff _ _).1 hr') h1

/-- **a node that is not `live` (retired or freed) is unreachable**: it is in no chain of any cell, and no node
that is in a chain points to it. As this holds in every reachable state, it stays unreachable for ever. -/
theorem retire_only_unreachable {nt : Nat} {s : State} (hr : Reachable nt s) {i : Nat} (hl : s.life i ≠ .live) :
    reach s.n i = false ∧ ∀ j, reach s.n j = true → (nodeAt s.n.heap j).next ≠ some i := by
  obtain ⟨G, R⟩ := reachable_rinv hr
  have hd : ¬ Live0 s.n i := by
    intro h0
    cases hu : s.unl i with
    | none => exact hl (R.j4n i hu)
    | some u => exact (R.j1 i u hu).1 h0.live
  refine ⟨?_, ?_⟩
  · cases hr' : reach s.n i with
    | false => rfl
    | true => exact absurd ((reach_iff _ _).1 hr') hd
  · intro j hj hn
    exact hd (((reach_iff _ _).1 hj).succ R.inv.heap hn)

/-- **every holder of a retired node is awaited**: if thread `t` has node `i` in its program counter and `i` has
been retired, then `t` is in `i`'s `waitFor` — `t` has been under its current guard since before the retirement -/
theorem holders_are_awaited {nt : Nat} {s : State} (hr : Reachable nt s) {t i : Nat} {l : Local} {w : List Nat}
    (hl : s.n.threads[t]? = some l) (hi : i ∈ holds l.pc) (hw : s.life i = .retired w) : t ∈ w := by
  obtain ⟨G, R⟩ := reachable_rinv hr
  obtain ⟨u, hu, hsub⟩ := R.j4r i w hw
  rcases R.j2 t l i hl hi with h0 | ⟨u', hu', ht⟩
  · exact absurd h0.live (R.j1 i u hu).1
  · rw [hu] at hu'; cases hu'; exact hsub ht

/-- nobody holds a freed node -/
theorem holders_not_freed {nt : Nat} {s : State} (hr : Reachable nt s) {t i : Nat} {l : Local}
    (hl : s.n.threads[t]? = some l) (hi : i ∈ holds l.pc) : s.life i ≠ .freed := by
  obtain ⟨G, R⟩ := reachable_rinv hr
  intro hf
  have hu := R.j4f i hf
  rcases R.j2 t l i hl hi with h0 | ⟨u', hu', ht⟩
  · exact absurd h0.live (R.j1 i [] hu).1
  · rw [hu] at hu'; cases hu'; cases ht

/-- **C03: no step ever touches a freed node** — whatever thread `t` reads or writes through in its next step
(`next` / `key` / `val` / lock word of a node; the split: every node of the old list) has not been freed -/
theorem no_touch_after_free {nt : Nat} {s : State} (hr : Reachable nt s) {t i : Nat} (hi : i ∈ touches s.n t) :
    s.life i ≠ .freed := by
  obtain ⟨G, R⟩ := reachable_rinv hr
  rcases touches_sub R.inv hi with ⟨l, hl, hh⟩ | h0
  · exact holders_not_freed hr hl hh
  · intro hf
    exact absurd h0.live (R.j1 i [] (R.j4f i hf)).1

/-- a retired node that a step touches awaits the toucher: the node a reader returns its value from is not freed
while the reader's guard lasts (values are inline in the nodes of `Proto/BinN`) -/
theorem touched_retired_awaits {nt : Nat} {s : State} (hr : Reachable nt s) {t i : Nat} {w : List Nat}
    (hi : i ∈ touches s.n t) (hw : s.life i = .retired w) : t ∈ w := by
  obtain ⟨G, R⟩ := reachable_rinv hr
  rcases touches_sub R.inv hi with ⟨l, hl, hh⟩ | h0
  · exact holders_are_awaited hr hl hh hw
  · obtain ⟨u, hu, -⟩ := R.j4r i w hw
    exact absurd h0.live (R.j1 i u hu).1

/-- **C04 (safety half): `free` happens only when nobody can still observe the node** — it was retired, every
thread awaited has left its guard (`waitFor = []`, the guard of the transition), and no thread holds it -/
theorem free_only_when_unheld {nt : Nat} {s s' : State} (hr : Reachable nt s) {t' i : Nat}
    (hs : step s t' (.free i) = some s') :
    s.life i = .retired [] ∧ s'.life i = .freed ∧ reach s.n i = false ∧
    ∀ (t : Nat) (l : Local), s.n.threads[t]? = some l → i ∉ holds l.pc := by
  have hlife : s.life i = .retired [] ∧ s'.life i = .freed := by
    unfold step stepG at hs
    simp only at hs
    split at hs
    · rename_i hc
      cases hs
      exact ⟨hc, by simp⟩
    · cases hs
  refine ⟨hlife.1, hlife.2, (retire_only_unreachable hr (by rw [hlife.1]; simp)).1, ?_⟩
  intro t l hl hh
  cases holders_are_awaited hr hl hh hlife.1

/-- a freed node was unlinked, and every thread that was under a guard when it was unlinked has left that guard -/
theorem freed_was_retired {nt : Nat} {s : State} (hr : Reachable nt s) {i : Nat} (hf : s.life i = .freed) :
    s.unl i = some [] ∧ reach s.n i = false := by
  obtain ⟨G, R⟩ := reachable_rinv hr
  exact ⟨R.j4f i hf, (retire_only_unreachable hr (by rw [hf]; simp)).1⟩

/-- only `retire` steps and responses retire, only from the retire obligations of a thread under a guard, and
every obligation is an unlinked node -/
theorem obligations_unlinked {nt : Nat} {s : State} (hr : Reachable nt s) {t i : Nat} (hi : i ∈ s.pend t) :
    reach s.n i = false ∧ guarded s.n t = true := by
  obtain ⟨G, R⟩ := reachable_rinv hr
  obtain ⟨h1, h2⟩ := R.j7 t i hi
  refine ⟨?_, h2⟩
  cases hu : s.unl i with
  | none => rw [hu] at h1; cases h1
  | some u =>
    cases hr' : reach s.n i with
    | false => rfl
    | true => exact absurd ((reach_iff _ _).1 hr').live (R.j1 i u hu).1

end Flurry.Props.C03BinNR

#print axioms Flurry.Props.C03BinNR.unlink_before_retire
#print axioms Flurry.Props.C03BinNR.retire_only_unreachable
#print axioms Flurry.Props.C03BinNR.holders_are_awaited
#print axioms Flurry.Props.C03BinNR.no_touch_after_free
#print axioms Flurry.Props.C03BinNR.touched_retired_awaits
#print axioms Flurry.Props.C03BinNR.free_only_when_unheld
#print axioms Flurry.Props.C03BinNR.freed_was_retired
#print axioms Flurry.Props.C03BinNR.obligations_unlinked
#print axioms Flurry.Props.C03BinNR.projects_to_BinN
