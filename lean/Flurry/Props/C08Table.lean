import Flurry.Lemmas.LinCounter
import Flurry.Props.C08
import Flurry.Props.C01BinG
import Flurry.Lemmas.BinGExamples
import Flurry.Props.C01TableK
import Flurry.Props.C01TableG
/-! # C08 on the concurrent models, from the EMPTY map: concurrent increments of one counter are
never lost

`C08.counter_no_lost_update` is about a history that starts with the key present. The concurrent
models start empty, so the counter is created by one `insert` of the history itself. The general
statement (`Lin.counter_from_insert`, `Lemmas/LinCounter.lean`) is about an ARBITRARY linearizable
history from the absent key: if it consists of exactly one `ins v vi` and otherwise only
`compute_if_present(|x| x + 1)` calls that all reported a value (they found the key), the key ends with
payload `v +` the number of increments, whatever the interleaving was — none is lost, none is applied
twice. Composed with the linearizability theorems of the models (every interleaving of any number of
threads; `Proto/BinG`: one bin lineage through list<->tree conversions and a resize; `Proto/TableK`: a
whole table of fixed length; `Proto/TableG`: a whole table that is resized once) this is a statement
about the final abstract content of the live structure at quiescence. -/
namespace Flurry.C08
open Flurry.Lin

/-- **no lost update, from the empty map** (any linearizable per-key history) -/
theorem counter_from_insert {h : History} {fin : KSt} {v vi : Nat}
    (hl : Linearizable h none fin)
    (hshape : ∃ i, i < h.length ∧ (h[i]?.map (·.op)) = some (.ins v vi) ∧
      ∀ j, j < h.length → j ≠ i → ∃ c nvi, h[j]? = some c ∧ c.op = .cipInc nvi ∧ c.res ≠ .none) :
    ∃ vi', fin = some (v + (h.length - 1), vi') := Lin.counter_from_insert hl hshape

/-- nothing assumed about results: the payload is `v +` the number of increments linearized after the
insert (at most all of them) -/
theorem increments_counted {h : History} {fin : KSt} {v vi : Nat}
    (hl : Linearizable h none fin)
    (hshape : ∃ i, i < h.length ∧ (h[i]?.map (·.op)) = some (.ins v vi) ∧
      ∀ j, j < h.length → j ≠ i → ∃ c nvi, h[j]? = some c ∧ c.op = .cipInc nvi) :
    ∃ m vi', m ≤ h.length - 1 ∧ fin = some (v + m, vi') := Lin.increments_counted hl hshape

/-- one bin lineage (list<->tree conversions and a resize), every interleaving: at quiescence, if the
calls on key `k` were one `insert(k, v)` and otherwise increments that found the key, the live
structure holds `v +` the number of increments for `k` -/
theorem binG_counter_no_lost_update {n : Nat} {s : Proto.BinG.State}
    (hr : Proto.BinG.Reachable n s) (hq : Proto.BinG.quiescent s) (k : Nat) {v vi : Nat}
    (hshape : CounterShape (Proto.BinG.callsOn s k) v vi) :
    ∃ vi', Proto.BinG.absOf s k = some (v + ((Proto.BinG.callsOn s k).length - 1), vi') :=
  Lin.counter_from_insert (Proto.BinG.binG_linearizable_quiescent hr hq k) hshape

/-- a whole table of fixed length -/
theorem tableK_counter_no_lost_update {m n : Nat} (hm : 0 < m) {S : Proto.TableK.State}
    (hr : Proto.TableK.Reachable m n S) (hq : Proto.TableK.quiescent S) (k : Nat) {v vi : Nat}
    (hshape : CounterShape (LinMap.proj (Proto.TableK.mhist S) k) v vi) :
    ∃ vi', Proto.TableK.absMap S k =
      some (v + ((LinMap.proj (Proto.TableK.mhist S) k).length - 1), vi') :=
  Lin.counter_from_insert (Proto.TableK.tableK_key_linearizable hm hr hq k) hshape

/-- a whole table that is resized once (the increments may run before, during and after the transfer of
the counter's bin, on the old and on the new table) -/
theorem tableG_counter_no_lost_update {m n : Nat} (hm : 0 < m) {S : Proto.TableG.State}
    (hr : Proto.TableG.Reachable m n S) (hq : Proto.TableG.quiescent S) (k : Nat) {v vi : Nat}
    (hshape : CounterShape (LinMap.proj (Proto.TableG.mhist S) k) v vi) :
    ∃ vi', Proto.TableG.absMap S k =
      some (v + ((LinMap.proj (Proto.TableG.mhist S) k).length - 1), vi') :=
  Lin.counter_from_insert (Proto.TableG.tableG_key_linearizable hm hr hq k) hshape

/-! ## not vacuous -/

/-- one `insert(k, 10)` and three overlapping increments, all of which found the key -/
def exCounter : History :=
  [ ⟨0, .ins 10 1, .none, 0, 2⟩, ⟨1, .cipInc 2, .some 12 2, 1, 6⟩, ⟨2, .cipInc 3, .some 11 3, 1, 5⟩,
    ⟨3, .cipInc 4, .some 13 4, 3, 7⟩ ]

example : Linearizable exCounter none (some (13, 4)) := by decide
example : validate exCounter [0, 2, 1, 3] none (some (13, 4)) = true := by decide

/-- the shape hypothesis holds for it (insert at index 0) -/
theorem exCounter_shape : CounterShape exCounter 10 1 :=
  counterShape_of_check (i := 0) (by decide)

/-- the conclusion on the example: payload `10 + 3` -/
example : ∃ vi', (some (13, 4) : KSt) = some (10 + (exCounter.length - 1), vi') :=
  Lin.counter_from_insert (by decide : Linearizable exCounter none (some (13, 4))) exCounter_shape

/-- … and no other final payload is possible for this history -/
example : ¬ Linearizable exCounter none (some (12, 2)) := by decide
/-- a lost update (two increments reporting the same new value) is not linearizable -/
example : ¬ Linearizable
    [ ⟨0, .ins 10 1, .none, 0, 2⟩, ⟨1, .cipInc 2, .some 11 2, 1, 6⟩, ⟨2, .cipInc 3, .some 11 3, 1, 5⟩ ]
    none (some (11, 3)) := by decide
/-- an increment linearized before the insert found nothing: it is not counted (`increments_counted`),
and it is excluded by the result hypothesis of `counter_from_insert` -/
example : Linearizable
    [ ⟨0, .ins 10 1, .none, 0, 2⟩, ⟨1, .cipInc 2, .none, 1, 6⟩, ⟨2, .cipInc 3, .some 11 3, 1, 5⟩ ]
    none (some (11, 3)) := by decide

/-! ## not vacuous on the model: an executed run of `Proto/BinG` -/

/-- four threads on key 0: thread 0 inserts 10; threads 1, 2, 3 each call
`compute_if_present(0, |x| x + 1)` — thread 1 is invoked while the insert is in flight, the three
increments overlap each other (locks contended), thread 0 starts the resize while they run and transfers
the bin after them -/
def schedCounter : Proto.BinG.Sched :=
  [ {t := 0, inv := some (0, .ins 10 1)}, {t := 1, inv := some (0, .cipInc 2)}, {t := 0}, {t := 0}, {t := 0},
    {t := 2, inv := some (0, .cipInc 3)}, {t := 1}, {t := 1}, {t := 0, rz := true},
    {t := 3, inv := some (0, .cipInc 4)} ] ++
  [0, 1, 2, 3, 1, 2, 3, 1, 1, 1, 2, 2, 2, 2, 2, 3, 3, 3, 3, 3, 0, 0, 0, 0, 0, 0, 0, 0].map (fun t => {t := t})

/-- what the run recorded for key 0, and where it ended (in the new table, payload 13) -/
theorem schedCounter_run :
    (Proto.BinG.run Proto.BinG.step (Proto.BinG.init 4) schedCounter).map
      (fun s => (Proto.BinG.quiescentB s, s.cur, Proto.BinG.callsOn s 0, Proto.BinG.absOf s 0)) =
    some (true, .new,
      [ ⟨0, .ins 10 1, .none, 1, 5⟩, ⟨1, .cipInc 2, .some 11 2, 2, 20⟩, ⟨2, .cipInc 3, .some 12 3, 6, 25⟩,
        ⟨3, .cipInc 4, .some 13 4, 10, 30⟩ ], some (13, 4)) := by decide

/-- the hypotheses of `binG_counter_no_lost_update` are satisfiable by a reachable quiescent state with
three overlapping increments, and the conclusion is `10 + 3` -/
theorem binG_counter_instance : ∃ s, Proto.BinG.Reachable 4 s ∧ Proto.BinG.quiescent s ∧
    CounterShape (Proto.BinG.callsOn s 0) 10 1 ∧ (Proto.BinG.callsOn s 0).length = 4 ∧
    Proto.BinG.absOf s 0 = some (13, 4) := by
  have h := schedCounter_run
  cases hr : Proto.BinG.run Proto.BinG.step (Proto.BinG.init 4) schedCounter with
  | none => rw [hr] at h; cases h
  | some s =>
    rw [hr] at h
    simp only [Option.map_some, Option.some.injEq, Prod.mk.injEq] at h
    obtain ⟨hq, _, hc, ha⟩ := h
    refine ⟨s, Proto.BinG.run_reachable _ .init hr, (Proto.BinG.quiescentB_iff s).1 hq, ?_, ?_, ha⟩
    · rw [hc]; exact counterShape_of_check (i := 0) (by decide)
    · rw [hc]; rfl

end Flurry.C08
