import Flurry.Lemmas.BinGProgStuck
import Flurry.Lemmas.BinGProgSoloW
import Flurry.Lemmas.BinGExamples
/-! # C11 for `Proto/BinG`: no reachable state of a bin lineage is a deadlock

> A thread holds at most one bin lock at a time (plus, nested inside one `TreeBin`, mutex → write
> lock); the resizing thread holds one lock; readers hold only a read count and never wait. Hence a
> thread that waits for a lock waits for a holder that can itself move.

Proved for the small-step model `Proto/BinG` (list-bin writers locking the head node, tree-bin writers
with bin mutex + read-write lock + `WAITER`/park, treeify, the resizing thread moving a list bin or a
tree bin, lock-free and lock-protocol readers) over **all** reachable states:

* `step_disabled_only_by_lock` — the step of a thread that is not `idle` is enabled unless the thread is
  at one of the six waiting pcs and what it waits for is taken (`Blocked`): `stepG` never returns `none`
  for any other reason in a reachable state;
* `holder_exists` — a taken node lock / bin mutex has a holder: a thread of the state at a pc that holds
  it; `reader_exists` — a positive reader count has a reader;
* `blocked_waits_for_enabled` — from any thread that is not `idle`, the wait-for relation (`wLock`,
  `kLock`, `xLock` → holder of the node lock; `tMutex`, `yMutex` → holder of the mutex; parked `lrLoop`
  → a reader inside the bin) leads in at most two hops to a thread whose step is enabled;
* `binG_never_stuck` — in every reachable state that is not quiescent some thread that is NOT idle has
  an enabled step;
* `writer_solo_progress` / `thread_solo_progress` — lock-freedom-style progress modulo locks: a thread
  that is not `idle` (a writer of either bin form, the treeify thread, the resizing thread; for
  `thread_solo_progress` also a reader) and runs alone is `idle` again — or stands at a waiting pc
  whose lock is held by *another* thread — after at most `2 * heap.length + 17` (`4 * heap.length + 17`)
  of its own steps. So the only way a thread fails to finish is waiting for another thread's lock, and
  by `blocked_waits_for_enabled` somebody on that wait-for chain can move.

In the model a writer parked at `lrLoop` (`WAITER` set, readers remaining) is *disabled* (it does not
spin), so `binG_never_stuck` really says that somebody else can move.

Proofs: `Lemmas/BinGProgInv.lean`, `Lemmas/BinGProgEn.lean`, `Lemmas/BinGProgStuck.lean`; for the solo runs
`Lemmas/BinGProgAll.lean` (the measure `wmu`), `Lemmas/BinGProgStepW.lean`, `Lemmas/BinGProgSoloW.lean`. -/
namespace Flurry.Proto.BinG
open Flurry.Lin
open Flurry.Proto.BinK (nodeAt binAt)

/-- **the only reason for a disabled step is a taken lock.** In every reachable state, for every thread
that is not `idle` and every value of the scheduler's arguments: the step is enabled, or the thread is
at `wLock h` / `kLock h` / `xLock h` and the lock word of node `h` is taken, or at `tMutex b` /
`yMutex b` and the mutex of `TreeBin` `b` is taken, or parked at `lrLoop b` with `WAITER` set while the
write lock is held or readers remain (`Blocked`). -/
theorem step_disabled_only_by_lock {n : Nat} {s : State} (hr : Reachable n s) {t : Nat} {l : Local}
    (hl : s.threads[t]? = some l) (hne : l.pc ≠ .idle) (inv : Option (Nat × KOp)) (lo : Bool)
    (mt : Option Nat) (rz sm sm2 : Bool) :
    (step s t inv lo mt rz sm sm2).isSome = true ∨ Blocked s l.pc :=
  step_enabled_or_blocked (reachable_inv hr) (reachable_binv hr) hl hne inv lo mt rz sm sm2

/-- **a taken lock has a holder.** In every reachable state: if the lock word of node `h` is `some x`,
thread `x` exists and is at a pc that holds that lock (`holdsLock`: `wCheck … wUnlock`, `kCheck …
kUnlock`, `xCheck`, `xBuild`, `xStoreLow … xUnlock (inl h)`); if the mutex of `TreeBin` `b` is `some x`,
thread `x` exists and is at a pc that holds that mutex (`holdsMutex`: `tCheck … tUnlockM`, `yCheck`,
`yBuild`, `xStoreLow … xUnlock (inr b)`). -/
theorem holder_exists {n : Nat} {s : State} (hr : Reachable n s) :
    (∀ h x, (nodeAt s.heap h).lock = some x → ∃ l, s.threads[x]? = some l ∧ holdsLock l.pc = some h) ∧
    (∀ b x, (binAt s.tbins b).mutex = some x → ∃ l, s.threads[x]? = some l ∧ holdsMutex l.pc = some b) :=
  ⟨fun _ _ hx => lock_holder_exists (reachable_inv hr) hx, fun _ _ hx => mutex_holder_exists (reachable_inv hr) hx⟩

/-- holders do not wait: the holder of a node lock is never at a waiting pc; the holder of a mutex is
at a waiting pc only when it is at `lrLoop` of that very `TreeBin` (the nesting mutex → write lock) -/
theorem holders_do_not_wait {pc : Pc} :
    (∀ h, holdsLock pc = some h → pc ≠ .idle ∧ waitPc pc = false) ∧
    (∀ b, holdsMutex pc = some b → pc ≠ .idle ∧ (waitPc pc = false ∨ ∃ tab k res, pc = .lrLoop tab b k res)) :=
  ⟨fun _ h => holdsLock_not_wait h, fun _ h => holdsMutex_not_wait h⟩

/-- **a parked writer waits for a reader that can move.** In every reachable state, a thread blocked at
`lrLoop b` holds the mutex of `b` and not the write lock, so `readers ≠ 0`, so some thread is at
`rTree b` / `rRelease b _` — and its step is enabled for every value of the scheduler's arguments. -/
theorem parked_writer_waits_for_reader {n : Nat} {s : State} (hr : Reachable n s) {t : Nat} {l : Local}
    (hl : s.threads[t]? = some l) {tab : Tab} {b : Nat} {k : After} {res : KRes}
    (hpc : l.pc = .lrLoop tab b k res) (hbl : Blocked s l.pc) :
    ∃ (t' : Nat) (l' : Local), s.threads[t']? = some l' ∧ holdsRead l'.pc = some b ∧ Enabled s t' :=
  parked_waits_for_reader (reachable_inv hr) (reachable_binv hr) hl hpc hbl

/-- **a blocked thread waits for ANOTHER thread**: in every reachable state, a thread that is `Blocked`
waits for a thread different from itself that is not `idle` and holds a node lock, a bin mutex or a
read lock -/
theorem blocked_waits_for_other {n : Nat} {s : State} (hr : Reachable n s) {t : Nat} {l : Local}
    (hl : s.threads[t]? = some l) (hbl : Blocked s l.pc) :
    ∃ (t' : Nat) (l' : Local), t' ≠ t ∧ s.threads[t']? = some l' ∧ l'.pc ≠ .idle ∧
      ((∃ h, holdsLock l'.pc = some h) ∨ (∃ b, holdsMutex l'.pc = some b) ∨ (∃ b, holdsRead l'.pc = some b)) :=
  blocked_on_other (reachable_inv hr) (reachable_binv hr) hl hbl

/-- **the wait-for relation is well-founded of depth ≤ 2**: from any thread that is not `idle` one
reaches — in zero hops (its own step is enabled), one hop (the holder of the lock it waits for) or two
hops (waiter → mutex holder parked at `lrLoop` → reader) — a thread that is not `idle` and whose step
is enabled for every value of the scheduler's arguments -/
theorem blocked_waits_for_enabled {n : Nat} {s : State} (hr : Reachable n s) {t : Nat} {l : Local}
    (hl : s.threads[t]? = some l) (hne : l.pc ≠ .idle) :
    ∃ (t' : Nat) (l' : Local), s.threads[t']? = some l' ∧ l'.pc ≠ .idle ∧ Enabled s t' :=
  waits_for_enabled (reachable_inv hr) (reachable_binv hr) hl hne

/-- **C11: no deadlock**, strong form: in every reachable state that is not quiescent some thread that
is not `idle` has a step that is enabled whatever the scheduler's arguments are -/
theorem binG_never_stuck_all {n : Nat} {s : State} (hr : Reachable n s) (hq : ¬ quiescent s) :
    ∃ (t : Nat) (l : Local), s.threads[t]? = some l ∧ l.pc ≠ .idle ∧ Enabled s t :=
  binG_never_stuck_aux (reachable_inv hr) (reachable_binv hr) hq

/-- **C11: no deadlock.** In every reachable state that is not quiescent, some thread that is NOT idle
has an enabled step. -/
theorem binG_never_stuck {n : Nat} {s : State} (hr : Reachable n s) (hq : ¬ quiescent s) :
    ∃ (t : Nat) (l : Local), s.threads[t]? = some l ∧ l.pc ≠ .idle ∧
      ∃ (inv : Option (Nat × KOp)) (lo : Bool) (mt : Option Nat) (rz sm sm2 : Bool) (s' : State),
        step s t inv lo mt rz sm sm2 = some s' := by
  obtain ⟨t, l, hl, hne, he⟩ := binG_never_stuck_all hr hq
  obtain ⟨s', hs⟩ := Option.isSome_iff_exists.1 (he none false none false false false)
  exact ⟨t, l, hl, hne, none, false, none, false, false, false, s', hs⟩

/-! ## non-vacuity: a wait-for chain of length two -/

/-- thread 0: `ins 0`, `ins 2`; thread 1 treeifies (`TreeBin` 0 over nodes 2, 3); thread 2: `get 0` —
takes the read lock and is suspended at `rTree`; thread 0: `rm 2` — mutex, find, `lock_root` fails, sets
`WAITER` and is **parked** at `lrLoop`; thread 1: `ins 4` — **blocked at `tMutex`** behind the parked
writer; thread 3 is idle. -/
def waitSched : Sched :=
  setupLow ++ call 2 0 .get ++ rep 2 5 ++ call 0 2 .rm ++ rep 0 7 ++ call 1 4 (.ins 7 7) ++ rep 1 2

def waitState : Option State := run step (init 4) waitSched

theorem waitState_spec : ∃ s, waitState = some s ∧ Reachable 4 s ∧ ¬ quiescent s ∧
    s.threads = [ { pc := .lrLoop .old 0 (.remove 3) (.some 6 101), call := some ⟨2, .rm, 28⟩ },
                  { pc := .tMutex .old 0, call := some ⟨4, .ins 7 7, 36⟩ },
                  { pc := .rTree 0, call := some ⟨0, .get, 22⟩ },
                  { pc := .idle, call := none } ] ∧
    s.tbins = [{ first := some 2, mutex := some 0, writer := false, waiter := true, readers := 1 }] := by
  have h : (waitState.map fun s => (s.threads, s.tbins)) =
      some ([ { pc := .lrLoop .old 0 (.remove 3) (.some 6 101), call := some ⟨2, .rm, 28⟩ },
              { pc := .tMutex .old 0, call := some ⟨4, .ins 7 7, 36⟩ },
              { pc := .rTree 0, call := some ⟨0, .get, 22⟩ },
              { pc := .idle, call := none } ],
            [{ first := some 2, mutex := some 0, writer := false, waiter := true, readers := 1 }]) := by decide
  cases hs : waitState with
  | none => rw [hs] at h; cases h
  | some s =>
    rw [hs] at h
    simp only [Option.map_some, Option.some.injEq, Prod.mk.injEq] at h
    obtain ⟨h1, h2⟩ := h
    refine ⟨s, rfl, run_reachable waitSched Reachable.init hs, ?_, h1, h2⟩
    intro hq
    have := hq _ (List.mem_iff_getElem?.2 ⟨2, by rw [h1]; rfl⟩)
    cases this

/-- of the three threads that are not idle, only the reader (thread 2) can move: the witness of
`binG_never_stuck` in this state is the reader, two hops from the queued writer -/
example : (waitState.map fun s => (List.range 4).map fun t =>
      ((s.threads.getD t {}).pc != .idle, (act step s { t := t }).isSome)) =
    some [(true, false), (true, false), (true, true), (false, true)] := by decide

/-- when the reader has left (three steps: tree search, release, value load), the parked writer can move again -/
example : ((run step (init 4) (waitSched ++ rep 2 3)).map fun s => (List.range 4).map fun t =>
      ((s.threads.getD t {}).pc != .idle, (act step s { t := t }).isSome)) =
    some [(true, true), (true, false), (false, true), (false, true)] := by decide

/-- the general theorem instantiated at `waitState`: its witness is thread 2 -/
example : ∃ s, waitState = some s ∧ ∃ (t : Nat) (l : Local), s.threads[t]? = some l ∧ l.pc ≠ .idle ∧ Enabled s t ∧ t = 2 := by
  obtain ⟨s, hs, hr, hq, hthr, htb⟩ := waitState_spec
  obtain ⟨t, l, hl, hne, he⟩ := binG_never_stuck_all hr hq
  refine ⟨s, hs, t, l, hl, hne, he, ?_⟩
  have hdis : ∀ t', t' = 0 ∨ t' = 1 → (step s t' none false none false false false).isSome = false := by
    have h : (waitState.map fun s => ((act step s { t := 0 }).isSome, (act step s { t := 1 }).isSome)) =
        some (false, false) := by decide
    rw [hs] at h
    simp only [Option.map_some, Option.some.injEq, Prod.mk.injEq] at h
    rintro t' (rfl | rfl)
    · exact h.1
    · exact h.2
  rw [hthr] at hl
  match t, hl with
  | 0, _ => have := he none false none false false false; rw [hdis 0 (Or.inl rfl)] at this; cases this
  | 1, _ => have := he none false none false false false; rw [hdis 1 (Or.inr rfl)] at this; cases this
  | 2, _ => rfl
  | 3, hl => simp at hl; subst hl; exact absurd rfl hne
  | t + 4, hl => simp at hl

/-! ## progress modulo locks -/

/-- one step of a thread that is not `idle` and not `Blocked`: it is enabled, and it brings the thread
back to `idle` (a call returns: one entry added to `hist`) or to a pc with a strictly smaller measure
`wmu` — in every reachable state, for every value of the scheduler's arguments -/
theorem unblocked_step_progress {n : Nat} {s : State} (hr : Reachable n s) {t : Nat} {l : Local}
    (hl : s.threads[t]? = some l) (hne : l.pc ≠ .idle) (hnb : ¬ Blocked s l.pc)
    (inv : Option (Nat × KOp)) (lo : Bool) (mt : Option Nat) (rz sm sm2 : Bool) :
    ∃ s', step s t inv lo mt rz sm sm2 = some s' ∧ Progress s t l s' :=
  thread_step (reachable_inv hr) (reachable_binv hr) hl hne hnb inv lo mt rz sm sm2

/-- **progress modulo locks (writers, treeify, resize).** From every reachable state, a thread that is
not `idle` and not a reader — a list-bin or tree-bin writer anywhere in its protocol, also with a stale
view of its cell (it then fails its re-check once, unlocks and starts over), the treeify thread, the
resizing thread — that runs alone (`runSolo`, every other thread suspended wherever it is) ends, after
at most `soloBoundW s = 2 * s.heap.length + 17` of its own steps, all of them enabled, in `SoloEnd`:
it is `idle` again (a thread with a call has returned: its call is appended to `hist`), or it stands,
with the same call and `hist` untouched, at a waiting pc (`wLock`, `kLock`, `xLock`, `tMutex`, `yMutex`,
parked `lrLoop`) and what it waits for is taken (`Blocked`) — by another thread, which can itself move
or waits for a thread that can (`blocked_waits_for_enabled`). -/
theorem writer_solo_progress {n : Nat} {s : State} (hr : Reachable n s) {t : Nat} {l : Local}
    (hl : s.threads[t]? = some l) (hne : l.pc ≠ .idle) (hnr : readerPc l.pc = false) (sm sm2 : Bool) :
    ∃ k, k ≤ soloBoundW s ∧ ∃ s', runSolo t sm sm2 k s = some s' ∧ Reachable n s' ∧ SoloEnd s t l s' :=
  writer_solo_progress_aux hr hl hne hnr sm sm2

/-- the same for every thread that is not `idle` (readers included; they never end `Blocked`), with the
bound `soloBoundAll s = 4 * s.heap.length + 17` -/
theorem thread_solo_progress {n : Nat} {s : State} (hr : Reachable n s) {t : Nat} {l : Local}
    (hl : s.threads[t]? = some l) (hne : l.pc ≠ .idle) (sm sm2 : Bool) :
    ∃ k, k ≤ soloBoundAll s ∧ ∃ s', runSolo t sm sm2 k s = some s' ∧ Reachable n s' ∧ SoloEnd s t l s' :=
  thread_solo_progress_aux hr hl hne sm sm2

/-- the bounds are explicit functions of the heap size -/
theorem soloBoundW_eq (s : State) : soloBoundW s = 2 * s.heap.length + 17 := rfl
theorem soloBoundAll_eq (s : State) : soloBoundAll s = 4 * s.heap.length + 17 := rfl

/-- a writer whose lock is free is not `Blocked`: hence (`unblocked_step_progress`) it moves -/
theorem not_blocked_of_lock_free {s : State} :
    (∀ tab h, (nodeAt s.heap h).lock = none → ¬ Blocked s (.wLock tab h)) ∧
    (∀ tab b, (binAt s.tbins b).mutex = none → ¬ Blocked s (.tMutex tab b)) ∧
    (∀ tab b k res, (binAt s.tbins b).writer = false → (binAt s.tbins b).readers = 0 →
      ¬ Blocked s (.lrLoop tab b k res)) := by
  refine ⟨?_, ?_, ?_⟩
  · intro tab h hfree hb
    have : (nodeAt s.heap h).lock.isSome = true := hb
    rw [hfree] at this; cases this
  · intro tab b hfree hb
    have : (binAt s.tbins b).mutex.isSome = true := hb
    rw [hfree] at this; cases this
  · intro tab b k res hw hrd hb
    rcases hb.2 with h | h
    · rw [hw] at h; cases h
    · exact h hrd

/-! ## non-vacuity: solo runs of writers -/

/-- in `waitState` the parked writer (thread 0) running alone is `Blocked` at once (0 steps) … -/
example : (waitState.map fun s => (act step s { t := 0 }).isSome) = some false := by decide

/-- … and once the reader has left, the same writer running alone takes the write lock, unlinks the
node, restructures, unlocks and returns `rm 2 = some (6, 101)` after 5 of its own steps -/
example : ((run step (init 4) (waitSched ++ rep 2 3)).bind fun s => (runSolo 0 false false 5 s).map fun s' =>
      (decide (5 ≤ soloBoundW s), s'.threads[0]?, s'.hist.head?)) =
    some (true, some { pc := .idle, call := none },
      some (2, { tid := 0, op := .rm, res := .some 6 101, inv := 28, resp := 46 })) := by decide

/-- **a writer with a stale view**: `schedReuseA ++ rep 3 6` (`Lemmas/BinGExamples.lean`) — thread 2
(`ins 2`) loaded the old cell (`tree 0`) and was suspended at `tMutex .old 0`; meanwhile the bin was
transferred (the old `TreeBin` re-used in the new low cell, `cell0 = moved`, `cur = new`). Running
alone it takes the mutex, **fails its re-check once**, unlocks, follows the marker into the new table,
takes the mutex again, passes the re-check and returns — 10 of its own steps, within `soloBoundW = 25` -/
example : ((run step (init 4) (schedReuseA ++ rep 3 6)).map fun s =>
      (s.threads[2]?, s.cell0, s.lowCell, s.cur, soloBoundW s)) =
    some (some { pc := .tMutex .old 0, call := some ⟨2, .ins 7 102, 22⟩ }, .moved, .tree 0, .new, 25) := by decide

example : ((run step (init 4) (schedReuseA ++ rep 3 6)).bind fun s => (runSolo 2 false false 10 s).map fun s' =>
      (s'.threads[2]?, s'.hist.head?)) =
    some (some { pc := .idle, call := none },
      some (2, { tid := 2, op := .ins 7 102, res := .some 6 101, inv := 22, resp := 44 })) := by decide

/-- … its second step is the failed re-check (`tUnlockM … retry = true`) -/
example : ((run step (init 4) (schedReuseA ++ rep 3 6)).bind fun s => (runSolo 2 false false 2 s).map fun s' =>
      s'.threads[2]?.map (·.pc)) = some (some (.tUnlockM .old 0 .none true)) := by decide

/-- the general theorem instantiated at `waitState`: the queued writer (thread 1, at `tMutex`) running
alone ends `Blocked` (it cannot return: its call is still pending and the mutex is held by thread 0) -/
example : ∃ s, waitState = some s ∧ ∃ k, k ≤ soloBoundW s ∧ ∃ s', runSolo 1 false false k s = some s' ∧
    SoloEnd s 1 { pc := .tMutex .old 0, call := some ⟨4, .ins 7 7, 36⟩ } s' := by
  obtain ⟨s, hs, hr, _, hthr, _⟩ := waitState_spec
  have hl : s.threads[1]? = some { pc := .tMutex .old 0, call := some ⟨4, .ins 7 7, 36⟩ } := by rw [hthr]; rfl
  obtain ⟨k, hk, s', hrun, _, he⟩ := writer_solo_progress hr hl (by intro e; cases e) rfl false false
  exact ⟨s, hs, k, hk, s', hrun, he⟩

end Flurry.Proto.BinG
