import Flurry.Proto.TableK
import Flurry.Props.C01BinK
import Flurry.Props.C01Local
import Flurry.Lemmas.TableK
import Flurry.Lemmas.TableKExamples
/-! # C01 (table level, fixed length): ONE sequential order of ALL calls on ALL keys

`Proto/TableK`: `m` bins, each a `Proto/BinK` bin (empty / list / tree with both conversions,
lock-free readers, iterators, locked writers), key `k` in bin `k % m`, any number of threads, a
thread inside at most one bin at a time, one clock shared by all bins. The history of the table is
the history of the *map* (`LinMap.MHistory`): the calls on all keys of all bins, with comparable
times.

How the bin-level theorem lifts: the clock of a bin in which nothing happens advances by a `tick`,
and a tick is *itself* a transition of `Proto/BinK` — the step of a thread that is idle in that bin
and starts nothing (`tableK_tick_is_bin_step`); `TableK.step` lets a thread act in a bin only while
it is idle in all others. So every bin of a reachable table is literally `BinK.Reachable`
(`tableK_bin_reachable`) and `binK_linearizable_quiescent` applies to it as it stands. Keys stay in
their own bin (`tableK_key_in_own_bin`), so the projection of the map history on key `k` IS the
per-key history of bin `k % m` (`tableK_proj_eq`); locality (`C01.locality`) does the rest.
Proofs: `Lemmas/TableK.lean`, `Lemmas/TableKExamples.lean`. -/
namespace Flurry.Proto.TableK
open Flurry.Lin Flurry.LinMap

/-- the table keeps its length -/
theorem bins_length {m n : Nat} {S : State} (hr : Reachable m n S) : S.bins.length = m :=
  (reachable_tblInv hr).len

/-- a tick (the clock of a bin advances while a thread acts elsewhere) is a transition of the bin:
the step of a thread that is idle there and starts nothing -/
theorem tableK_tick_is_bin_step {b : BinK.State} {t : Nat} (h : idleIn b t = true) :
    BinK.step b t none false false false = some (tick b) := tick_is_step h

/-- every bin of a reachable table is a reachable `Proto/BinK` bin: all bin-level theorems
(`binK_inv`, `binK_linearizable`, `quiescent_tree_eq_list`, `conversion_abs_invariant`, …) hold for it -/
theorem tableK_bin_reachable {m n : Nat} {S : State} (hr : Reachable m n S) {i : Nat} {b : BinK.State}
    (hb : S.bins[i]? = some b) : BinK.Reachable n b := (reachable_tblInv hr).reach i b hb

/-- every call recorded in bin `i` is on a key of bin `i` -/
theorem tableK_key_in_own_bin {m n : Nat} {S : State} (hr : Reachable m n S) {i : Nat} {b : BinK.State}
    (hb : S.bins[i]? = some b) {k : Nat} {c : Call} (hc : (k, c) ∈ b.hist) : k % m = i :=
  ((reachable_tblInv hr).keys i b hb).hist (k, c) hc

/-- … and so is every call in flight in bin `i` -/
theorem tableK_pending_in_own_bin {m n : Nat} {S : State} (hr : Reachable m n S) {i : Nat} {b : BinK.State}
    (hb : S.bins[i]? = some b) {t : Nat} {l : BinK.Local} {p : BinK.Pending}
    (hl : b.threads[t]? = some l) (hp : l.call = some p) : p.key % m = i :=
  ((reachable_tblInv hr).keys i b hb).pend t l p hl hp

/-- calls on a key of another bin never appear in a bin's history -/
theorem tableK_other_bin_silent {m n : Nat} {S : State} (hr : Reachable m n S) {i : Nat} {b : BinK.State}
    (hb : S.bins[i]? = some b) {k : Nat} (hk : k % m ≠ i) : BinK.callsOn b k = [] :=
  callsOn_other_bin (reachable_tblInv hr) hb hk

/-- a thread is active in at most one bin: of two different bins it is idle in one -/
theorem tableK_one_bin_per_thread {m n : Nat} {S : State} (hr : Reachable m n S) {t i j : Nat}
    {bi bj : BinK.State} {li lj : BinK.Local} (hne : i ≠ j) (hi : S.bins[i]? = some bi) (hj : S.bins[j]? = some bj)
    (hli : bi.threads[t]? = some li) (hlj : bj.threads[t]? = some lj) : li.pc = .idle ∨ lj.pc = .idle :=
  reachable_oneBin hr t i j bi bj li lj hne hi hj hli hlj

/-- no call responds before it is invoked (one clock for all bins) -/
theorem tableK_inv_le_resp {m n : Nat} {S : State} (hr : Reachable m n S) :
    ∀ c ∈ mhist S, c.call.inv ≤ c.call.resp := mhist_wf hr

/-- the projection of the map history on key `k` is — as a list — the per-key history of bin `k % m` -/
theorem tableK_proj_eq {m n : Nat} {S : State} (hr : Reachable m n S) {k : Nat} {b : BinK.State}
    (hb : S.bins[k % m]? = some b) : proj (mhist S) k = BinK.callsOn b k :=
  proj_mhist (reachable_tblInv hr) hb

/-- per key, in every reachable state (completed calls plus writers past their linearization point) -/
theorem tableK_key_linearizable_ext {m n : Nat} {S : State} (hr : Reachable m n S) {k : Nat} {b : BinK.State}
    (hb : S.bins[k % m]? = some b) : Lin.Linearizable (BinK.callsOnExt b k) none (BinK.absOf b k) :=
  BinK.binK_linearizable (tableK_bin_reachable hr hb) k

/-- per key, at quiescence -/
theorem tableK_key_linearizable {m n : Nat} (hm : 0 < m) {S : State} (hr : Reachable m n S) (hq : quiescent S)
    (k : Nat) : Lin.Linearizable (proj (mhist S) k) none (absMap S k) :=
  tableK_key_linearizable_aux hm hr hq k

/-- **C01 for a whole table of fixed length: ONE sequential order of ALL calls on ALL keys** respects
real time and replays through the sequential specification of a map, from the empty map to the
abstract map of the table. -/
theorem tableK_map_linearizable {m n : Nat} (hm : 0 < m) {S : State} (hr : Reachable m n S) (hq : quiescent S) :
    LinMap.MapLinearizable (mhist S) (fun _ => none) (absMap S) :=
  tableK_map_linearizable_aux hm hr hq

/-- non-vacuity: two bins, two threads; `ins 1` (bin 1) overlaps `ins 2` (bin 0), then `get 2`
(bin 0) overlaps `rm 1` (bin 1); the state is reachable and quiescent, both bins have a history -/
example : ∃ S : State, Reachable 2 2 S ∧ quiescent S ∧
    mhist S = [ ⟨2, ⟨1, .ins 20 200, .none, 2, 5⟩⟩, ⟨2, ⟨0, .get, .some 20 200, 7, 13⟩⟩,
                ⟨1, ⟨0, .ins 10 100, .none, 1, 6⟩⟩, ⟨1, ⟨1, .rm, .some 10 100, 8, 16⟩⟩ ] ∧
    absMap S 1 = none ∧ absMap S 2 = some (20, 200) ∧
    S.bins.map (fun b => b.hist.map (·.1)) = [[2, 2], [1, 1]] ∧
    LinMap.MapLinearizable (mhist S) (fun _ => none) (absMap S) := by
  obtain ⟨S, hr, hq, hh, h1, h2, hb⟩ := example_state
  exact ⟨S, hr, hq, hh, h1, h2, hb, tableK_map_linearizable (by decide) hr hq⟩

/-- the model refuses a call on a key of another bin, and a thread that is busy in another bin -/
example : (step (init 2 2) 0 0 (some (1, .ins 1 1)) false false false).isNone = true ∧
    (run (init 2 2) [call 0 0 2 (.ins 1 1), call 1 0 1 .get]).isNone = true := example_refused

end Flurry.Proto.TableK
