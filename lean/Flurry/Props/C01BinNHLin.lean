import Flurry.Lemmas.BinNHFullReach
import Flurry.Props.C01BinNH
/-! # C01 / C08 / C10 (bin level): linearizability of the COOPERATIVE resize (`Proto/BinNH`)

`Proto/BinNH.lean`: `Proto/BinN` (a list-bin lineage through any number of successive resizes) with HELPERS —
any number of threads are resizing threads of the current generation at the same time, on different cells or on
the same cell, each may be suspended anywhere (e.g. between "store high" and "store marker", holding the bin
lock), may leave, and any of them may commit once all cells are forwarded; a helper that is stale by a generation
resumes harmlessly.

**Main theorem.** For every reachable state and every key, the history of that key — the completed calls, plus
the calls of writers that have done their store and only have to unlock — is linearizable from "absent" to the
key's current abstract state (`binNH_linearizable`; quiescent form `binNH_linearizable_quiescent`), under every
interleaving of any number of threads, any number of successive resizes, and any number of helpers per resize.
**No step of a resizing thread and no start of a resize changes the abstract state of any key**
(`transfer_abs_invariant`: the loads, the CAS of an empty cell, lock / re-check / unlock, the split, the stores of
the low list, of the high list and of the forwarding marker, the commit, joining, leaving, the allocation).

**How.** `Lemmas/BinNHM*.lean` is `Proto/BinN`'s heap invariant and hindsight layer (`HInv`, `Good`, the surgeries
on the chains, the effect of every step of a transfer) with the ghost "cell in mid-transfer" generalised from ONE
cell (`mid : Option (j, lo, hg)`, one fresh range) to ONE PER HELPER (`mid : j ↦ (lo, hg, fr)`): every effect lemma
of a transfer step frames the splits of the other helpers (their cells are different cells with disjoint chains:
validated bin locks are exclusive); the readers and writers are `Proto/BinN`'s, literally (`BinNHM.ginv_step` is
`Proto/BinN`'s case analysis). `Lemmas/BinNHFull*.lean` links the helpers' program counters to the ghost (`Full`)
and does the induction (`reachable_full`). -/
namespace Flurry.Proto.BinNH
open Flurry.Lin

/-- the calls on `k` that have taken effect: the completed ones and those of the writers that have stored -/
def callsOnExt (s : State) (k : Nat) : History := BinN.callsOnExt s.n k

/-- the complete invariant (generation level, heap with one mid-transfer cell per helper, threads, walks, the link
between the helpers and the ghost) and the ghost invariant of key `k` hold in every reachable state -/
theorem reachable_full_invariant {n : Nat} {s : State} (hr : Reachable n s) (k : Nat) :
    ∃ G A pt, Full s G ∧ BinNHM.GInv k s.n G A pt := reachable_full hr k

/-- **C01 / C10, bin level, cooperative resize.** Under every interleaving of any number of threads, any number
of successive resizes and any number of helpers, the per-key history (completed calls plus stored-but-not-yet-unlocked
writers) is linearizable and ends in the abstract content of the key. -/
theorem binNH_linearizable {n : Nat} {s : State} (hr : Reachable n s) (k : Nat) :
    Lin.Linearizable (callsOnExt s k) none (absOf s k) := by
  obtain ⟨G, A, pt, F, g⟩ := reachable_full hr k
  exact g.core.linearizable F.inv.thr

/-- **C01 / C10, bin level, cooperative resize, quiescent form.** -/
theorem binNH_linearizable_quiescent {n : Nat} {s : State} (hr : Reachable n s) (hq : quiescent s) (k : Nat) :
    Lin.Linearizable (callsOn s k) none (absOf s k) := by
  have := binNH_linearizable hr k
  unfold callsOnExt at this
  rw [BinN.callsOnExt_quiescent hq.1] at this
  exact this

/-- **the transfers have no abstract effect — with helpers**: no step of a resizing thread (of whatever generation,
whatever the other helpers are doing): the loads, the CAS of an empty cell to `moved`, lock / re-check / unlock, the
split (`build`), the store of the low list, of the high list, of the forwarding marker (where the live chain of
every key of the cell switches from the old list to a new one), leaving, the commit — and no step by which an idle
thread becomes a resizing thread (joining; starting a resize = allocating the next generation) changes the abstract
state of any key -/
theorem transfer_abs_invariant {n : Nat} {s s' : State} (hr : Reachable n s) {t : Nat}
    {inv : Option (Nat × KOp)} {rz leave : Bool} {pick : Nat} (hs : step s t inv rz leave pick = some s')
    (hT : (∃ hp, s.hs[t]? = some (some hp)) ∨ (s.hs[t]? = some none ∧ s'.hs[t]? ≠ some none)) (k : Nat) :
    absOf s' k = absOf s k := by
  obtain ⟨G, A, pt, F, g⟩ := reachable_full hr 0
  exact (full_step F g hs).2 hT k

/-- the chains of a reachable state: every cell (of every generation) is the head of a chain that is strictly
increasing in `ord` (hence acyclic and duplicate-free), with pairwise distinct keys that all belong to the cell —
also while any number of helpers are in the middle of their transfers -/
theorem chains_wellformed {n : Nat} {s : State} (hr : Reachable n s) :
    ∃ cr : BinN.CR, BinN.NextOK cr s.n.heap ∧ ∀ id : BinN.CellId,
      BinX.IsChain s.n.heap (BinX.cellHead (BinN.getCell s.n id)) (BinN.chId s.n id) ∧ (BinN.chId s.n id).Nodup ∧
      (BinN.chId s.n id).Pairwise (fun x y => BinN.ord cr x < BinN.ord cr y) ∧
      BinX.KeysDistinct s.n.heap (BinN.chId s.n id) ∧
      ∀ i ∈ BinN.chId s.n id, (BinX.nodeAt s.n.heap i).key % 2 ^ id.1 = id.2 := by
  obtain ⟨G, A, pt, F, g⟩ := reachable_full hr 0
  have H := F.inv.heap
  exact ⟨G.cr, H.nextOK, fun id => ⟨H.isChain id, H.chain_nodup id, (H.isChain id).sortedN H.nextOK, H.keys id, H.side id⟩⟩

/-- one split per helper: every recorded split belongs to a helper of generation `cur` between its `build` and its
marker store, which holds the validated bin lock of the cell; the cells of the next generation are empty unless their
parent is forwarded or being split -/
theorem one_split_per_helper {n : Nat} {s : State} (hr : Reachable n s) :
    ∃ G : BinNHM.Ghost,
      (∀ j, BinNHM.IsMid G j → ∃ (t : Nat) (hp : Helper) (h : Nat), s.hs[t]? = some (some hp) ∧ isMidH hp.pc j ∧
        hvalid hp.pc = some (j, h) ∧ hp.g = s.n.cur ∧ BinN.cellAt s.n s.n.cur j = .node h ∧
        BinN.lockAt s.n.heap h = some t) ∧
      (∀ j', BinN.cellAt s.n s.n.cur (j' % 2 ^ s.n.cur) ≠ .moved → ¬ BinNHM.IsMid G (j' % 2 ^ s.n.cur) →
        BinN.cellAt s.n (s.n.cur + 1) j' = .empty) := by
  obtain ⟨G, A, pt, F, g⟩ := reachable_full hr 0
  exact ⟨G, fun j hm => F.mid_lock hm, F.inv.heap.nextEmpty⟩

end Flurry.Proto.BinNH
