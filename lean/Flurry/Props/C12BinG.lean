import Flurry.Lemmas.BinGProgSolo
import Flurry.Lemmas.BinGExamples
/-! # C12 for `Proto/BinG`: reads never block and finish in a bounded number of their own steps

> `get`, `get_key_value`, `contains_key`, iterators … never acquire a bin lock and never wait for a
> writer: a reader finishes in a bounded number of its own steps even while any other thread is
> suspended at an arbitrary point — including while holding a bin lock, while holding or waiting for a
> tree bin's write lock, in the middle of moving a bin, or in the middle of a treeify.

Proved for the small-step model `Proto/BinG` (one bin lineage through list ⇄ tree conversions and one
resize; lock-free readers of list bins, lock-protocol readers and list-only readers (iterators) of
`TreeBin`s), over **all** reachable states — any number of threads, any number of steps, any
interleaving; the other threads are "suspended at an arbitrary point" simply because the theorems
quantify over every reachable state and then move only thread `t`:

1. `reader_step_enabled` — the step of a thread at a reader pc is enabled in every reachable state, for
   every value of the scheduler's arguments;
2. `reader_step_frame` — that step takes no lock and stores nothing: `Frame`;
3. `reader_solo_terminates` — running alone (`runSolo`), the reader is `idle` again, with its call
   appended to `hist`, after at most `soloBound s = 4 * s.heap.length + 10` steps;
4. non-vacuity examples evaluated by the kernel (`decide`).

Proofs: `Lemmas/BinGProgInv.lean` (auxiliary invariant `BInv`), `Lemmas/BinGProgEn.lean` (when is a step
enabled), `Lemmas/BinGProgRead.lean` (the measure `mu`), `Lemmas/BinGProgSolo.lean` (the induction). -/
namespace Flurry.Proto.BinG
open Flurry.Lin

/-- **C12.1: a reader's step is never disabled.** In every reachable state, for every thread at a
reader pc (`rTable, rCell, rNode, rFirst, rState, rLin, rCas, rTree, rRelease, rVal` and the list-only
readers `lFirst, lNode`) and every value of the scheduler's arguments, the step of that thread is
enabled: no state of the other threads — holding a node lock or a bin mutex, holding or waiting for
the write lock (`WAITER` set), mid-transfer, mid-treeify — disables a reader. -/
theorem reader_step_enabled {n : Nat} {s : State} (hr : Reachable n s) {t : Nat} {l : Local}
    (hl : s.threads[t]? = some l) (hrd : readerPc l.pc = true) (inv : Option (Nat × KOp)) (lo : Bool)
    (mt : Option Nat) (rz sm sm2 : Bool) : (step s t inv lo mt rz sm sm2).isSome = true := by
  obtain ⟨p, s', -, hs, -⟩ := reader_step_aux (reachable_inv hr) (reachable_binv hr) hl hrd inv lo mt rz sm sm2
  rw [hs]; rfl

/-- **C12.2: a reader takes no lock and stores nothing.** A step of a thread at a reader pc leaves the
heap (hence every lock word, value and `next`), the three cells, the table pointer, the `first` field,
the mutex, the `WRITER` and the `WAITER` bit of every `TreeBin`, and all other threads as they are; only
the reader count of one `TreeBin`, the thread's own local state, the clock and `hist` may change (no
reachability assumption needed). -/
theorem reader_step_frame {s s' : State} {t : Nat} {l : Local} (hl : s.threads[t]? = some l)
    (hrd : readerPc l.pc = true) {inv : Option (Nat × KOp)} {lo : Bool} {mt : Option Nat} {rz sm sm2 : Bool}
    (hs : step s t inv lo mt rz sm sm2 = some s') : Frame t s s' := reader_step_frame_aux hl hrd hs

/-- one step of a reader in full: enabled; the thread has returned (`idle`, one entry added to `hist`)
or is at a reader pc with a strictly smaller measure `mu` -/
theorem reader_step {n : Nat} {s : State} (hr : Reachable n s) {t : Nat} {l : Local}
    (hl : s.threads[t]? = some l) (hrd : readerPc l.pc = true) (inv : Option (Nat × KOp)) (lo : Bool)
    (mt : Option Nat) (rz sm sm2 : Bool) :
    ∃ p s', l.call = some p ∧ step s t inv lo mt rz sm sm2 = some s' ∧ Outcome s t p l.pc s' :=
  reader_step_aux (reachable_inv hr) (reachable_binv hr) hl hrd inv lo mt rz sm sm2

/-- **C12.3: bounded own steps.** From every reachable state, a thread at a reader pc that runs alone
— all other threads suspended wherever they are: a writer holding the bin lock or waiting for it, a
tree writer holding the mutex, holding the write lock or parked with `WAITER` set, the resizing thread
anywhere in the middle of moving the bin, a treeify in progress — has returned (`idle`, its call
appended to `hist`) after at most `soloBound s = 4 * s.heap.length + 10` of its own steps (table
pointer, old cell, one forwarding hop, new cell, `first`, then at most two steps per node of a chain
whose length is bounded through `rank` by twice the heap size, with at most one failed CAS on the lock
word: running alone the word no longer changes, so the CAS cannot fail twice), all of them enabled,
and has touched nothing but a reader count (`Frame`). -/
theorem reader_solo_terminates {n : Nat} {s : State} (hr : Reachable n s) {t : Nat} {l : Local}
    (hl : s.threads[t]? = some l) (hrd : readerPc l.pc = true) (sm sm2 : Bool) :
    ∃ k, k ≤ soloBound s ∧ ∃ s' p res resp, l.call = some p ∧ runSolo t sm sm2 k s = some s' ∧
      Frame t s s' ∧ s'.threads[t]? = some { pc := .idle, call := none } ∧
      s'.hist = (p.key, { tid := t, op := p.op, res := res, inv := p.inv, resp := resp }) :: s.hist :=
  reader_solo_terminates_aux hr hl hrd sm sm2

/-- the bound is an explicit function of the heap size -/
theorem soloBound_eq (s : State) : soloBound s = 4 * s.heap.length + 10 := rfl

/-! ## non-vacuity: the resizing thread suspended in the middle of moving a list bin, holding its lock -/

/-- thread 0 fills the bin (`ins 1`, `ins 2`, `ins 3`: list `0 → 1 → 2`); thread 1 starts the resize,
locks the head and validates; thread 3 (`rm 1`) gets as far as `wLock`: it **waits for the bin lock**;
thread 1 goes on — splits the list (copies of nodes 0 and 1 are nodes 3 and 4), stores the low list —
and is suspended at `xStoreHigh`, between `xStoreLow` and `xStoreMoved`: **mid-transfer, holding the
bin lock**; thread 2 invokes `get 3`. -/
def midSched : Sched :=
  call 0 1 (.ins 10 100) ++ rep 0 3 ++ call 0 2 (.ins 20 101) ++ rep 0 8 ++ call 0 3 (.ins 30 102) ++ rep 0 9 ++
  [{ t := 1, rz := true }] ++ rep 1 2 ++ call 3 1 .rm ++ rep 3 2 ++ rep 1 3 ++ call 2 3 .get

def midState : Option State := run step (init 4) midSched

/-- two more steps of the transfer: the high list and the forwarding marker are stored, the lock is
not yet released (`xUnlock`) -/
def fwdState : Option State := run step (init 4) (midSched ++ rep 1 2)

/-- the premises of the theorems are satisfiable by a state with a transfer in progress -/
theorem midState_spec : ∃ s, midState = some s ∧ Reachable 4 s ∧
    s.threads[1]? = some { pc := .xStoreHigh (.inl 0) (.list 3), call := none } ∧
    s.threads[3]? = some { pc := .wLock .old 0, call := some ⟨1, .rm, 27⟩ } ∧
    s.threads[2]? = some { pc := .rTable false, call := some ⟨3, .get, 33⟩ } ∧
    (s.heap[0]?).map (·.lock) = some (some 1) ∧ s.cell0 = .list 0 ∧ s.lowCell = .list 4 ∧ s.highCell = .empty := by
  have h : (midState.map fun s => (s.threads, (s.heap[0]?).map (·.lock), s.cell0, s.lowCell, s.highCell)) =
      some ([ { pc := .idle, call := none }, { pc := .xStoreHigh (.inl 0) (.list 3), call := none },
              { pc := .rTable false, call := some ⟨3, .get, 33⟩ },
              { pc := .wLock .old 0, call := some ⟨1, .rm, 27⟩ } ],
            some (some 1), .list 0, .list 4, .empty) := by decide
  cases hs : midState with
  | none => rw [hs] at h; cases h
  | some s =>
    rw [hs] at h
    simp only [Option.map_some, Option.some.injEq, Prod.mk.injEq] at h
    obtain ⟨h1, h2, h3, h4, h5⟩ := h
    refine ⟨s, rfl, run_reachable midSched Reachable.init hs, ?_, ?_, ?_, ?_, h3, h4, h5⟩
    · rw [h1]; rfl
    · rw [h1]; rfl
    · rw [h1]; rfl
    · rw [h2]

/-- in that state the *writer* `rm 1` is blocked (it waits for the bin lock) … -/
example : (midState.map fun s => (act step s { t := 3 }).isSome) = some false := by decide

/-- … but the reader, running alone, walks the old list `0 → 1 → 2` and answers `some (30, 102)` in 5
steps (table pointer, old cell, three nodes) — within `soloBound = 30` -/
example : (midState.bind fun s => (runSolo 2 false false 5 s).map fun s' =>
      (decide (5 ≤ soloBound s), s'.threads[2]?, s'.hist.head?)) =
    some (true, some { pc := .idle, call := none },
      some (3, { tid := 2, op := .get, res := .some 30 102, inv := 33, resp := 38 })) := by decide

/-- … while the transfer still holds the lock, where it was suspended -/
example : (midState.bind fun s => (runSolo 2 false false 5 s).map fun s' =>
      ((s'.heap[0]?).map (·.lock), s'.cell0, s'.threads[1]?)) =
    some (some (some 1), .list 0, some { pc := .xStoreHigh (.inl 0) (.list 3), call := none }) := by decide

/-- with the forwarding marker stored and the lock still held (`xUnlock`), the reader follows the
marker into the new table: table pointer (still `old`), old cell (`moved`), new high cell, nodes 3
(the copy of key 1) and 2: 5 steps again -/
example : (fwdState.map fun s => (s.cell0, s.threads[1]?, (s.heap[0]?).map (·.lock))) =
    some (.moved, some { pc := .xUnlock (.inl 0), call := none }, some (some 1)) := by decide

example : (fwdState.bind fun s => (runSolo 2 false false 5 s).map fun s' =>
      (decide (5 ≤ soloBound s), s'.threads[2]?, s'.hist.head?)) =
    some (true, some { pc := .idle, call := none },
      some (3, { tid := 2, op := .get, res := .some 30 102, inv := 33, resp := 40 })) := by decide

/-- the general theorem instantiated at `midState` -/
example : ∃ s, midState = some s ∧ ∃ k, k ≤ soloBound s ∧
    ∃ (s' : State) (p : Pending) (res : KRes) (resp : Nat), runSolo 2 false false k s = some s' ∧
    s'.threads[2]? = some { pc := .idle, call := none } ∧
    s'.threads[1]? = some { pc := .xStoreHigh (.inl 0) (.list 3), call := none } ∧
    s'.hist = (p.key, { tid := 2, op := p.op, res := res, inv := p.inv, resp := resp }) :: s.hist := by
  obtain ⟨s, hs, hr, h1, _, h2, _⟩ := midState_spec
  obtain ⟨k, hk, s', p, res, resp, _, hrun, hf, hidle, hh⟩ := reader_solo_terminates hr h2 rfl false false
  exact ⟨s, hs, k, hk, s', p, res, resp, hrun, hidle, (hf.others 1 (by decide)).trans h1, hh⟩

/-! ## non-vacuity: a tree writer parked with `WAITER` set, behind a reader that holds the read lock -/

/-- thread 0: `ins 0`, `ins 2`; thread 1 treeifies (`TreeBin` 0 over nodes 2, 3); thread 2: `get 0` —
takes the read lock and is suspended at `rTree`; thread 0: `rm 2` — mutex, find, `lock_root` fails, sets
`WAITER` and is **parked** at `lrLoop` (its step is not enabled while the reader remains); thread 1:
`ins 4` — **blocked at `tMutex`** behind the parked writer; thread 3 invokes `get 2`. -/
def parkSched : Sched :=
  setupLow ++ call 2 0 .get ++ rep 2 5 ++ call 0 2 .rm ++ rep 0 7 ++ call 1 4 (.ins 7 7) ++ rep 1 2 ++ call 3 2 .get

def parkState : Option State := run step (init 4) parkSched

theorem parkState_spec : ∃ s, parkState = some s ∧ Reachable 4 s ∧
    s.threads[0]? = some { pc := .lrLoop .old 0 (.remove 3) (.some 6 101), call := some ⟨2, .rm, 28⟩ } ∧
    s.threads[1]? = some { pc := .tMutex .old 0, call := some ⟨4, .ins 7 7, 36⟩ } ∧
    s.threads[2]? = some { pc := .rTree 0, call := some ⟨0, .get, 22⟩ } ∧
    s.threads[3]? = some { pc := .rTable false, call := some ⟨2, .get, 39⟩ } ∧
    s.tbins = [{ first := some 2, mutex := some 0, writer := false, waiter := true, readers := 1 }] := by
  have h : (parkState.map fun s => (s.threads, s.tbins)) =
      some ([ { pc := .lrLoop .old 0 (.remove 3) (.some 6 101), call := some ⟨2, .rm, 28⟩ },
              { pc := .tMutex .old 0, call := some ⟨4, .ins 7 7, 36⟩ },
              { pc := .rTree 0, call := some ⟨0, .get, 22⟩ },
              { pc := .rTable false, call := some ⟨2, .get, 39⟩ } ],
            [{ first := some 2, mutex := some 0, writer := false, waiter := true, readers := 1 }]) := by decide
  cases hs : parkState with
  | none => rw [hs] at h; cases h
  | some s =>
    rw [hs] at h
    simp only [Option.map_some, Option.some.injEq, Prod.mk.injEq] at h
    obtain ⟨h1, h2⟩ := h
    refine ⟨s, rfl, run_reachable parkSched Reachable.init hs, ?_, ?_, ?_, ?_, h2⟩ <;> rw [h1] <;> rfl

/-- the parked writer and the writer queued on the mutex cannot move … -/
example : (parkState.map fun s => ((act step s { t := 0 }).isSome, (act step s { t := 1 }).isSome)) =
    some (false, false) := by decide

/-- … the other reader can, and returns after 8 of its own steps (table pointer, cell, `first`; it
sees `WAITER` and walks the list: two nodes, two steps each; the value load) — within `soloBound = 26` -/
example : (parkState.bind fun s => (runSolo 3 false false 8 s).map fun s' =>
      (decide (8 ≤ soloBound s), s'.threads[3]?, s'.hist.head?)) =
    some (true, some { pc := .idle, call := none },
      some (2, { tid := 3, op := .get, res := .some 6 101, inv := 39, resp := 47 })) := by decide

/-- … while the lock word of the `TreeBin` is as it was: mutex held by the parked writer, `WAITER`
set, one reader inside -/
example : (parkState.bind fun s => (runSolo 3 false false 8 s).map fun s' => s'.tbins) =
    some [{ first := some 2, mutex := some 0, writer := false, waiter := true, readers := 1 }] := by decide

/-- the general theorem instantiated at `parkState` -/
example : ∃ s, parkState = some s ∧ ∃ k, k ≤ soloBound s ∧
    ∃ (s' : State) (p : Pending) (res : KRes) (resp : Nat), runSolo 3 false false k s = some s' ∧
    s'.threads[3]? = some { pc := .idle, call := none } ∧
    s'.threads[0]? = some { pc := .lrLoop .old 0 (.remove 3) (.some 6 101), call := some ⟨2, .rm, 28⟩ } ∧
    s'.hist = (p.key, { tid := 3, op := p.op, res := res, inv := p.inv, resp := resp }) :: s.hist := by
  obtain ⟨s, hs, hr, h0, _, _, h3, _⟩ := parkState_spec
  obtain ⟨k, hk, s', p, res, resp, _, hrun, hf, hidle, hh⟩ := reader_solo_terminates hr h3 rfl false false
  exact ⟨s, hs, k, hk, s', p, res, resp, hrun, hidle, (hf.others 0 (by decide)).trans h0, hh⟩

end Flurry.Proto.BinG
