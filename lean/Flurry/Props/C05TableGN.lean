import Flurry.Proto.TableGN
import Flurry.Props.C01TableGN
import Flurry.Props.C05BinGN
import Flurry.Lemmas.TableGNL
import Flurry.Lemmas.TableGNLExamples
/-! # C05 (table level, concurrent model, list AND tree bins, ANY NUMBER of resizes): at quiescence iteration over the
table = lookup, nothing half-done is left behind

> Whenever no operation is in flight, iteration yields exactly the keys for which lookup succeeds —
> each exactly once and with the value lookup returns. Every entry then resides where a lookup for its
> hash searches, no key occurs twice, no forwarding marker or half-finished resize is left behind, and
> no lock is left held.

`Proto/TableGN`: `m` lineages (`Proto/BinGN`: list bins, tree bins, any number of resizes), key `k` of the table in
lineage `k % m` (`lineageOf m k`) under the local name `k / m` (`localKey m k`), one clock, any number of threads.
`quiescent S`: every thread is idle in every lineage. Inside lineage `i` the nodes hold LOCAL keys `q`; the key of
the table such a node stands for is `globalKey m i q = i + m * q`.

* `entries S`: the entries of all lineages, lineage by lineage (`BinGNQ.entries`: the lists of the live cells of the
  lineage — at quiescence the cells `(cur, 0) … (cur, 2^cur − 1)`), each re-keyed to the key of the table
  (`rekey m i (q, v) = (i + m * q, v)`) — what an iterator over the whole table that starts now and runs alone yields;
* `absMap S k`: what a lookup of `k` finds (the abstract state of `k / m` in lineage `k % m`); by
  `tableGN_map_linearizable` it is the map the ONE sequential order of all completed calls leads to.

Lineage-local facts lift through `tableGN_lineage_reachable`. What is global — no key twice ACROSS lineages, an entry
is in the lineage of its key — is the arithmetic of the key translation: `i + m * q` determines `i < m` and `q`
(`TableN.tableN_key_translation`); no "keys stay in their lineage" invariant is needed (unlike `Props/C05TableG.lean`,
where the lineages store the keys of the table). Hence the list facts hold in every reachable state
(`tableGN_reachable_iter_agrees`); quiescence is what makes the abstract map the outcome of the linearization of the
completed calls, and what leaves nothing locked or half-resized. The bin: an entry with key `k` sits in lineage
`k % m`, cell `(cur, (k / m) % 2^cur)`, which is bin `k % (m * 2^cur)` of the table of length `m * 2^cur`
(`TableN.bin_index_eq_mod`). Proofs: `Lemmas/TableGNL.lean`. -/
namespace Flurry.Proto.TableGNL
open Flurry.Lin Flurry.LinMap Flurry.Proto.TableGN
open Flurry.Proto.TableN (lineageOf localKey globalKey)
open Flurry.Proto.BinK (nodeAt binAt)

/-- every lineage of a reachable quiescent table is a reachable quiescent `Proto/BinGN` lineage: all of
`Props/C05BinGN.lean` applies to it -/
theorem tableGN_lineage_quiescent {m n : Nat} {S : State} (hr : Reachable m n S) (hq : quiescent S)
    {b : BinGN.State} (hb : b ∈ S.bins) : BinGN.Reachable n b ∧ BinGN.quiescent b := lineage_quiescent hr hq hb

/-- `entries S`, spelled out: the concatenation over the lineages `i = 0 … m − 1` of the lineage's entries
(`BinGNQ.entries`), the local key `q` of an entry replaced by the key `i + m * q` of the table -/
theorem tableGN_entries_eq {m n : Nat} {S : State} (hr : Reachable m n S) :
    entries S = (List.range m).flatMap fun i =>
      (BinGNQ.entries (S.bins.getD i (BinGN.init 0))).map fun e => (globalKey m i e.1, e.2) := by
  unfold entries lineageEntries
  rw [bins_length hr]
  rfl

/-- … as a membership: `(k, v)` is yielded iff some lineage `i` yields `(q, v)` with `k = i + m * q` -/
theorem tableGN_mem_entries {m n : Nat} {S : State} (hr : Reachable m n S) {k : Nat} {v : Nat × Nat} :
    (k, v) ∈ entries S ↔ ∃ (i : Nat) (b : BinGN.State) (q : Nat), S.bins[i]? = some b ∧
      (q, v) ∈ BinGNQ.entries b ∧ k = globalKey m i q := by
  rw [mem_entries, bins_length hr]

/-- **iteration over the whole table yields exactly the keys for which lookup succeeds, with the value lookup
returns** -/
theorem tableGN_quiescent_iter_agrees {m n : Nat} {S : State} (hr : Reachable m n S) (_hq : quiescent S)
    (hm : 0 < m) : ∀ k v, (k, v) ∈ entries S ↔ absMap S k = some v := mem_entries_iff_absMap hr hm

/-- **no key occurs twice**, across ALL lineages and all their cells: within a lineage the local keys are distinct
(`BinGN.quiescent_keys_distinct`) and `q ↦ i + m * q` is injective; the keys of different lineages differ modulo `m` -/
theorem tableGN_quiescent_keys_distinct {m n : Nat} {S : State} (hr : Reachable m n S) (_hq : quiescent S) :
    ((entries S).map (·.1)).Nodup := entries_keys_nodup hr

/-- no entry is yielded twice -/
theorem tableGN_quiescent_entries_nodup {m n : Nat} {S : State} (hr : Reachable m n S) (_hq : quiescent S) :
    (entries S).Nodup := entries_nodup hr

/-- **each exactly once — the count**: the keys yielded are the keys of the abstract map, without repetition; any
duplicate-free enumeration of the keys of the abstract map is a permutation of the keys yielded, and the number of
entries is the number of keys of the map -/
theorem tableGN_quiescent_len {m n : Nat} {S : State} (hr : Reachable m n S) (_hq : quiescent S) (hm : 0 < m) :
    ((entries S).map (·.1)).Nodup ∧ (∀ k, k ∈ (entries S).map (·.1) ↔ absMap S k ≠ none) ∧
    ∀ ks : List Nat, ks.Nodup → (∀ k, k ∈ ks ↔ absMap S k ≠ none) →
      ks.Perm ((entries S).map (·.1)) ∧ ks.length = (entries S).length :=
  ⟨entries_keys_nodup hr, mem_keys_iff_absMap hr hm, fun _ hnd hks => entries_count hr hm hnd hks⟩

/-- iteration yields the map that the one sequential order of all completed calls on all keys leads to -/
theorem tableGN_quiescent_iter_is_linearized_map {m n : Nat} {S : State} (hr : Reachable m n S) (hq : quiescent S)
    (hm : 0 < m) :
    LinMap.MapLinearizable (mhist S) (fun _ => none) (absMap S) ∧ ∀ k v, (k, v) ∈ entries S ↔ absMap S k = some v :=
  ⟨tableGN_map_linearizable hm hr hq, mem_entries_iff_absMap hr hm⟩

/-- **no forwarding marker or half-finished resize is left behind**: at quiescence, in every lineage, no resize is
running, exactly the generations `0 … cur` exist (generation `g` with `2^g` cells), every older generation is entirely
forwarded, generation `cur` holds no forwarding marker, every lookup ends in generation `cur`, and the live cells are
exactly the cells `(cur, 0) … (cur, 2^cur − 1)`. (Different lineages may be at different generations: the table
pointer is modelled per lineage, see `Proto/TableGN.lean`.) -/
theorem tableGN_quiescent_no_half_resize {m n : Nat} {S : State} (hr : Reachable m n S) (hq : quiescent S) :
    ∀ b ∈ S.bins, b.resizing = false ∧ b.tabs.length = b.cur + 1 ∧
      (∀ g row, b.tabs[g]? = some row → row.length = 2 ^ g) ∧
      (∀ g j, g < b.cur → j < 2 ^ g → BinGN.cellAt b g j = .moved) ∧
      (∀ j, BinGN.cellAt b b.cur j ≠ .moved) ∧
      (∀ k, BinGN.liveCell b k = BinGN.cellOf b b.cur k) ∧
      BinGNQ.liveCells b = (List.range (2 ^ b.cur)).map (fun j => BinGN.cellAt b b.cur j) :=
  fun _ hb => BinGN.quiescent_no_half_resize (lineage_quiescent hr hq hb).1 (lineage_quiescent hr hq hb).2

/-- **no lock is left held**, in any lineage: every lock word of every node is free, every mutex is free, no `TreeBin`
has a reader inside, every `TreeBin` in a cell (of any generation) has its write lock and waiter bit clear -/
theorem tableGN_quiescent_unlocked {m n : Nat} {S : State} (hr : Reachable m n S) (hq : quiescent S) :
    ∀ b ∈ S.bins, (∀ j, (nodeAt b.heap j).lock = none) ∧ (∀ x, (binAt b.tbins x).mutex = none) ∧
      (∀ x, x < b.tbins.length → (binAt b.tbins x).readers = 0) ∧
      ∀ g j x, BinGN.cellAt b g j = .tree x → (binAt b.tbins x).writer = false ∧ (binAt b.tbins x).waiter = false :=
  fun _ hb => BinGN.quiescent_unlocked (lineage_quiescent hr hq hb).1 (lineage_quiescent hr hq hb).2

/-- for every `TreeBin` in a live cell of any lineage the tree set is the list set -/
theorem tableGN_quiescent_tree_eq_list {m n : Nat} {S : State} (hr : Reachable m n S) (hq : quiescent S)
    {b : BinGN.State} (hb : b ∈ S.bins) {x : Nat} (hc : Flurry.Proto.BinG.Cell.tree x ∈ BinGNQ.liveCells b) :
    (binAt b.tbins x).mutex = none ∧ (binAt b.tbins x).writer = false ∧
    ∀ i, i < b.heap.length → ((nodeAt b.heap i).owner = some x ∧ (nodeAt b.heap i).inTree = true ↔
      i ∈ BinGN.chainOfBin b x) :=
  BinGN.quiescent_live_tree_eq_list (lineage_quiescent hr hq hb).1 (lineage_quiescent hr hq hb).2 hc

/-- **every entry resides where a lookup for its key searches**: an entry with key `k` is in lineage `k % m`, under
the local name `k / m`, on the list of cell `(cur, (k / m) % 2^cur)` of that lineage — the cell in which a lookup of
`k` ends — and that cell is bin `k % (m * 2^cur)` of the table of length `m * 2^cur`
(`k % m + m * ((k / m) % 2^cur) = k % (m * 2^cur)`) -/
theorem tableGN_quiescent_entry_in_own_bin {m n : Nat} {S : State} (hr : Reachable m n S) (hq : quiescent S)
    (hm : 0 < m) {k : Nat} {v : Nat × Nat} (he : (k, v) ∈ entries S) :
    ∃ b, S.bins[lineageOf m k]? = some b ∧ (localKey m k, v) ∈ BinGNQ.entries b ∧
      (localKey m k, v) ∈ BinGNQ.entriesOfCell b (BinGN.cellAt b b.cur (localKey m k % 2 ^ b.cur)) ∧
      BinGN.liveCell b (localKey m k) = BinGN.cellAt b b.cur (localKey m k % 2 ^ b.cur) ∧
      lineageOf m k + m * (localKey m k % 2 ^ b.cur) = k % (m * 2 ^ b.cur) := by
  obtain ⟨b, hb, hent, hcell⟩ := entry_lineage hr hm he
  have hrb := (reachable_tblInv hr).reach _ b hb
  have hqb : BinGN.quiescent b := hq b (List.mem_of_getElem? hb)
  have hlive := (BinGN.quiescent_no_half_resize hrb hqb).2.2.2.2.2.1 (localKey m k)
  refine ⟨b, hb, hent, ?_, hlive, TableN.bin_index_eq_mod m b.cur k⟩
  rw [hlive] at hcell
  exact hcell

/-- conversely, cell by cell: an entry found on the list of cell `(cur, j)` of lineage `i` — local key `q`, key
`i + m * q` of the table — has `q % 2^cur = j`, i.e. its key selects bin `i + m * j` of the table of length
`m * 2^cur`: `(i + m * q) % (m * 2^cur) = i + m * j` -/
theorem tableGN_quiescent_cell_keys {m n : Nat} {S : State} (hr : Reachable m n S) (hq : quiescent S)
    {i : Nat} {b : BinGN.State} (hb : S.bins[i]? = some b) {j q : Nat} {v : Nat × Nat}
    (he : (q, v) ∈ BinGNQ.entriesOfCell b (BinGN.cellAt b b.cur j)) :
    q % 2 ^ b.cur = j ∧ lineageOf m (globalKey m i q) = i ∧ localKey m (globalKey m i q) = q ∧
      globalKey m i q % (m * 2 ^ b.cur) = i + m * j := by
  have I := reachable_tblInv hr
  have hrb := I.reach i b hb
  have hqb : BinGN.quiescent b := hq b (List.mem_of_getElem? hb)
  have hi : i < m := I.len ▸ (List.getElem?_eq_some_iff.1 hb).1
  have hj := (BinGN.quiescent_entry_in_own_cell hrb hqb (k := q) (v := v)).1 j he
  have h1 := TableN.lineageOf_globalKey hi q
  have h2 := TableN.localKey_globalKey hi q
  refine ⟨hj, h1, h2, ?_⟩
  have := TableN.bin_index_eq_mod m b.cur (globalKey m i q)
  rw [h1, h2, hj] at this
  exact this.symm

/-! ## the same without quiescence -/

/-- in every reachable state — also while resizes are running in some lineages and calls are in flight — the entries on
the live lists of the whole table are exactly the abstract map, no key twice across all lineages, and every entry is
in the lineage of its key, on the list of the cell a lookup of the key ends in -/
theorem tableGN_reachable_iter_agrees {m n : Nat} {S : State} (hr : Reachable m n S) (hm : 0 < m) :
    ((entries S).map (·.1)).Nodup ∧ (∀ k v, (k, v) ∈ entries S ↔ absMap S k = some v) ∧
    ∀ k v, (k, v) ∈ entries S → ∃ b, S.bins[lineageOf m k]? = some b ∧ (localKey m k, v) ∈ BinGNQ.entries b ∧
      (localKey m k, v) ∈ BinGNQ.entriesOfCell b (BinGN.liveCell b (localKey m k)) :=
  ⟨entries_keys_nodup hr, mem_entries_iff_absMap hr hm, fun _ _ he => entry_lineage hr hm he⟩

/-! ## non-vacuity (`Lemmas/TableGNLExamples.lean`, kernel-checked by `decide`) -/

/-- the end of the run of `Lemmas/TableGNExamples.lean` (two lineages, two threads; lineage 0 resized once with a tree
bin transferred, lineage 1 still at generation 0): reachable, quiescent, the iterator yields the keys 0, 4 (lineage 0,
cell `(1, 0)`, a `TreeBin`: local keys 0, 2) and 2, 6 (lineage 0, cell `(1, 1)`, a list: local keys 1, 3), nothing in
lineage 1 — exactly the abstract map on the keys `0 … 7` —, and, as the theorems say, iteration = lookup for EVERY key,
no key twice, no resize left half-done -/
example : ∃ S : State, Reachable 2 2 S ∧ quiescent S ∧
    entries S = [(0, (10, 100)), (4, (40, 400)), (2, (20, 200)), (6, (60, 600))] ∧
    S.bins.map BinGNQ.liveCells = [[.tree 1, .list 8], [.empty]] ∧
    (List.range 8).map (absMap S) =
      [some (10, 100), none, some (20, 200), none, some (40, 400), none, some (60, 600), none] ∧
    (∀ k v, (k, v) ∈ entries S ↔ absMap S k = some v) ∧ ((entries S).map (·.1)).Nodup ∧
    (∀ b ∈ S.bins, b.resizing = false) := by
  obtain ⟨S, hr, hq, he, hl, ha⟩ := example_end
  exact ⟨S, hr, hq, he, hl, ha, tableGN_quiescent_iter_agrees hr hq (by decide), tableGN_quiescent_keys_distinct hr hq,
    fun b hb => (tableGN_quiescent_no_half_resize hr hq b hb).1⟩

/-- a NON-quiescent state, the middle of that run: thread 0 is in the middle of the transfer of the tree bin of lineage
0 (the two new bins are stored, the old cell is forwarded, it still holds the old mutex), thread 1 reads inside the old
`TreeBin`; the entries on the live lists — lineage 0: the two cells of generation 1; lineage 1: key 1 — are the
abstract map (`tableGN_reachable_iter_agrees`) -/
example : ∃ S : State, Reachable 2 2 S ∧ pcs S = [[.xUnlock (.inr 0), .rTree 0], [.idle, .idle]] ∧
    entries S = [(0, (10, 100)), (4, (40, 400)), (2, (20, 200)), (1, (11, 101))] ∧
    (∀ k v, (k, v) ∈ entries S ↔ absMap S k = some v) := by
  obtain ⟨S, -, hr, hp, he, -, -⟩ := example_busy
  exact ⟨S, hr, hp, he, (tableGN_reachable_iter_agrees hr (by decide)).2.1⟩

end Flurry.Proto.TableGNL
