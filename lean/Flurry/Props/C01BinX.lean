import Flurry.Lemmas.BinXLin
/-! # C01 / C08 / C10 (bin level): a list bin stays linearizable while its table is resized

`Proto/BinX.lean` models one list bin of a one-bin table that is resized to a two-bin table while any
number of threads perform `get`, `contains_key`, `insert`, `try_insert`, `remove`,
`compute_if_present` (one shared-memory access per transition): readers and writers follow the
forwarding marker, the transferring thread locks the head, re-checks, splits the list under the lock
(re-using the last run, copying the nodes before it), stores the two new lists, THEN the forwarding
marker, unlocks and finally publishes the new table.

For every reachable state and every key, the history of that key — the completed calls, plus the calls
of writers that have done their store and only have to unlock — is linearizable from "absent" to the
key's current abstract state (`binx_linearizable`; quiescent form `binx_linearizable_quiescent`).

Linearization points: lock-holding writers at their single store, the lock-free insert at its
successful CAS, operations that see an empty cell at that load, readers *in hindsight*
(`Good`, `Good.step`, and — across the forwarding — `Good.moved` in `Lemmas/BinXGhost.lean`).
The transfer has no abstract effect (`transfer_abs_invariant`). -/
namespace Flurry.Proto.BinX
open Flurry.Lin

theorem init_ginv (n k : Nat) : GInv k (init n) {} (fun _ => none) id := by
  have hnil : callsOnExt (init n) k = [] := by
    rw [List.eq_nil_iff_forall_not_mem]
    intro c hc
    rcases mem_callsOnExt.1 hc with hc | ⟨t, l, hl, he⟩
    · simp [init] at hc
    · rw [init_thread hl] at he
      cases he
  refine ⟨rfl, ?_, ?_, ?_, ?_, ?_⟩
  · symm
    exact absOf_of_empty rfl
  · intro c hc; rw [hnil] at hc; cases hc
  · intro τ h1 h2
    have : (init n).now = 0 := rfl
    omega
  · intro c hc; rw [hnil] at hc; cases hc
  · intro t l p cur hl hc
    rw [init_thread hl] at hc
    cases hc

/-- the structural and the ghost invariant hold in every reachable state -/
theorem reachable_ginv {n : Nat} {s : State} (hr : Reachable n s) (k : Nat) :
    ∃ G A pt, Inv s G ∧ GInv k s G A pt := by
  induction hr with
  | init => exact ⟨_, _, _, init_inv n, init_ginv n k⟩
  | @step s s' t inv rz hr hs ih =>
    obtain ⟨G, A, pt, I, g⟩ := ih
    cases hl : s.threads[t]? with
    | none => unfold step stepG at hs; rw [hl] at hs; cases hs
    | some l => exact ginv_step g I hl (step_stepK hl hs)

/-- from the ghost invariant to linearizability (the trace lemma) -/
theorem GInv.linearizable {k : Nat} {s : State} {G : Ghost} {A : Nat → KSt} {pt : Nat → Nat}
    (g : GInv k s G A pt) (I : Inv s G) : Linearizable (callsOnExt s k) none (absOf s k) := by
  have h := lin_of_trace (h := callsOnExt s k) A s.now (fun c => pt c.inv) ?_ ?_ ?_ ?_ ?_
  · rw [g.h0, g.hA] at h; exact h
  · intro c hc
    obtain ⟨h1, h2, -, -⟩ := g.calls c hc
    have := callsOnExt_resp_le I.thr hc
    exact ⟨h1, h2, by omega⟩
  · intro c hc hw; exact (g.calls c hc).2.2.2 hw
  · intro c hc hrd; exact (g.calls c hc).2.2.1 hrd
  · refine (callsOnExt_pairwise I.thr k).imp_of_mem ?_
    intro c d hc hd hne hwc hwd hpe
    exact hne (g.inj c hc d hd hwc hwd hpe)
  · intro τ h1 h2 hno
    apply Classical.byContradiction
    intro hne
    obtain ⟨c, hc, hw, hp⟩ := g.stab τ h1 h2 hne
    exact hno c hc hw hp

/-- the writer calls of the extended history -/
def writerCallsOn (s : State) (k : Nat) : History := (callsOnExt s k).filter (fun c => !isRead c.op)

theorem GInv.linearizable_writers {k : Nat} {s : State} {G : Ghost} {A : Nat → KSt} {pt : Nat → Nat}
    (g : GInv k s G A pt) (I : Inv s G) : Linearizable (writerCallsOn s k) none (absOf s k) := by
  have hmem : ∀ c, c ∈ writerCallsOn s k ↔ c ∈ callsOnExt s k ∧ isRead c.op = false := by
    intro c; simp [writerCallsOn, List.mem_filter]
  have h := lin_of_trace (h := writerCallsOn s k) A s.now (fun c => pt c.inv) ?_ ?_ ?_ ?_ ?_
  · rw [g.h0, g.hA] at h; exact h
  · intro c hc
    have hc := ((hmem c).1 hc).1
    obtain ⟨h1, h2, -, -⟩ := g.calls c hc
    have := callsOnExt_resp_le I.thr hc
    exact ⟨h1, h2, by omega⟩
  · intro c hc hw; exact (g.calls c ((hmem c).1 hc).1).2.2.2 hw
  · intro c hc hrd; exact (g.calls c ((hmem c).1 hc).1).2.2.1 hrd
  · refine ((callsOnExt_pairwise I.thr k).filter _).imp_of_mem ?_
    intro c d hc hd hne hwc hwd hpe
    exact hne (g.inj c ((hmem c).1 hc).1 d ((hmem d).1 hd).1 hwc hwd hpe)
  · intro τ h1 h2 hno
    apply Classical.byContradiction
    intro hne
    obtain ⟨c, hc, hw, hp⟩ := g.stab τ h1 h2 hne
    exact hno c ((hmem c).2 ⟨hc, hw⟩) hw hp

/-- **writers-only linearizability**: the sub-history of the writer calls on `k` is linearizable from
"absent" to the current abstract state (linearization points = the store / CAS / empty-cell steps);
in particular no step of the transfer changes the abstract state of any key. -/
theorem binx_linearizable_writers {n : Nat} {s : State} (hr : Reachable n s) (k : Nat) :
    Lin.Linearizable (writerCallsOn s k) none (absOf s k) := by
  obtain ⟨G, A, pt, I, g⟩ := reachable_ginv hr k
  exact g.linearizable_writers I

/-- **C01 / C10, bin level, with a concurrent resize.** Under every interleaving of any number of
threads and one transfer, the per-key history of the bin (completed calls plus
stored-but-not-yet-unlocked writers) is linearizable and ends in the abstract content of the key. -/
theorem binx_linearizable {n : Nat} {s : State} (hr : Reachable n s) (k : Nat) :
    Lin.Linearizable (callsOnExt s k) none (absOf s k) := by
  obtain ⟨G, A, pt, I, g⟩ := reachable_ginv hr k
  exact g.linearizable I

/-- **C01 / C10, bin level, quiescent form.** -/
theorem binx_linearizable_quiescent {n : Nat} {s : State} (hr : Reachable n s) (hq : quiescent s) (k : Nat) :
    Lin.Linearizable (callsOn s k) none (absOf s k) := by
  have := binx_linearizable hr k
  rw [callsOnExt_quiescent hq] at this
  exact this

/-! ## structural facts about reachable states -/

/-- **mutual exclusion**: at most one thread holds a validated lock on a cell (a writer between its
re-check and its store, the transferring thread from `tBuild` to the store of the forwarding marker) -/
theorem validated_mutex {n : Nat} {s : State} (hr : Reachable n s) {t t1 : Nat} {l l1 : Local} {id : CellId}
    {h h1 : Nat} (hl : s.threads[t]? = some l) (hl1 : s.threads[t1]? = some l1)
    (hv : vcell l = some (id, h)) (hv1 : vcell l1 = some (id, h1)) : t = t1 := by
  obtain ⟨g, I⟩ := reachable_inv hr
  exact I.mutex hl hl1 hv hv1

/-- a validated lock holder still sees its node as the head of its cell, and holds its mutex -/
theorem validated_head {n : Nat} {s : State} (hr : Reachable n s) {t : Nat} {l : Local} {id : CellId} {h : Nat}
    (hl : s.threads[t]? = some l) (hv : vcell l = some (id, h)) :
    getCell s id = .node h ∧ h < s.heap.length ∧ (nodeAt s.heap h).lock = some t := by
  obtain ⟨g, I⟩ := reachable_inv hr
  obtain ⟨h1, h2⟩ := I.lock.validated t l id h hl hv
  exact ⟨h1, I.lock.lockHeld t l h hl h2⟩

/-- **exactly one resize**: facts about the resizing thread, the forwarding marker and the new cells -/
theorem resize_facts {n : Nat} {s : State} (hr : Reachable n s) :
    -- at most one thread transfers, and only after the resize has been started
    (∀ (t t' : Nat) (l l' : Local), s.threads[t]? = some l → s.threads[t']? = some l' → isT l.pc → isT l'.pc → t = t') ∧
    (∀ (t : Nat) (l : Local), s.threads[t]? = some l → isT l.pc → s.resizing = true) ∧
    -- the new table is published only after the forwarding
    (s.cur = .new → s.cell0 = .moved) ∧
    -- once the marker is visible the transferring thread is past `tStoreMoved`
    (s.cell0 = .moved → ∀ (t : Nat) (l : Local), s.threads[t]? = some l → isT l.pc →
      (∃ h, l.pc = .tUnlock h) ∨ l.pc = .tCommit) ∧
    -- ... and before that nobody works in the new table
    (∀ (t : Nat) (l : Local), s.threads[t]? = some l → ¬ isT l.pc → tabOf l.pc = some .new → s.cell0 = .moved) ∧
    -- the new cells are empty until the transferring thread has stored them
    (s.cell0 ≠ .moved → s.lowCell ≠ .empty → ∃ (t : Nat) (l : Local), s.threads[t]? = some l ∧
      ((∃ h hg, l.pc = .tStoreHigh h hg) ∨ ∃ h, l.pc = .tStoreMoved h)) ∧
    (s.cell0 ≠ .moved → s.highCell ≠ .empty → ∃ (t : Nat) (l : Local), s.threads[t]? = some l ∧
      ∃ h, l.pc = .tStoreMoved h) := by
  obtain ⟨g, I⟩ := reachable_inv hr
  have H := I.heap
  refine ⟨I.ph.uniqT, I.ph.resz, fun h => H.post (H.curNew h), ?_, ?_, ?_, ?_⟩
  · intro hm t l hl hT
    have hp := H.post_of_moved hm
    have hph := I.ph.pcPh t l hl
    obtain ⟨pc, call⟩ := l
    cases pc <;> first | exact False.elim hT | exact Or.inl ⟨_, rfl⟩ | exact Or.inr rfl | skip
    all_goals first
      | (have h1 : g.ph = .pre := hph; rw [hp] at h1; cases h1)
      | (have h1 := hph.1; rw [hp] at h1; cases h1)
      | (obtain ⟨lo, h1, -⟩ := hph; rw [hp] at h1; cases h1)
      | (obtain ⟨lo, hg, h1, -⟩ := hph; rw [hp] at h1; cases h1)
  · intro t l hl hT htab
    exact H.post (I.post_of_new hl hT htab)
  · intro hnm hne
    cases hp : g.ph with
    | pre => exact absurd (H.pre hp).2.2.1 hne
    | post => exact absurd (H.post hp) hnm
    | mid lo hg =>
      obtain ⟨t, l, hl, hm⟩ := I.ph.midHas lo hg hp
      have hph := I.ph.pcPh t l hl
      refine ⟨t, l, hl, ?_⟩
      obtain ⟨pc, call⟩ := l
      cases pc <;> first | exact False.elim hm | skip
      · exact absurd hph.2.1 hne
      · exact Or.inl ⟨_, _, rfl⟩
      · exact Or.inr ⟨_, rfl⟩
  · intro hnm hne
    cases hp : g.ph with
    | pre => exact absurd (H.pre hp).2.2.2 hne
    | post => exact absurd (H.post hp) hnm
    | mid lo hg =>
      obtain ⟨t, l, hl, hm⟩ := I.ph.midHas lo hg hp
      have hph := I.ph.pcPh t l hl
      refine ⟨t, l, hl, ?_⟩
      obtain ⟨pc, call⟩ := l
      cases pc <;> first | exact False.elim hm | skip
      · exact absurd hph.2.2 hne
      · obtain ⟨lo', -, -, h3⟩ := hph
        exact absurd h3 hne
      · exact ⟨_, rfl⟩

/-- the chains of a reachable state: every cell is the head of an `ord`-increasing (hence acyclic and
duplicate-free) chain with pairwise distinct keys, all on the right side of the split -/
theorem chains_wellformed {n : Nat} {s : State} (hr : Reachable n s) :
    ∃ cr : CR, NextOK cr s.heap ∧ ∀ id : CellId,
      IsChain s.heap (cellHead (getCell s id)) (chId s id) ∧ (chId s id).Nodup ∧
      (chId s id).Pairwise (fun x y => ord cr x < ord cr y) ∧
      KeysDistinct s.heap (chId s id) ∧ ∀ i ∈ chId s id, keyOn id (nodeAt s.heap i).key := by
  obtain ⟨g, I⟩ := reachable_inv hr
  exact ⟨g.cr, I.heap.nextOK, fun id => ⟨I.heap.isChain id, I.heap.chain_nodup id,
    (I.heap.isChain id).sorted I.heap.nextOK, I.heap.keysId id, I.heap.sideId id⟩⟩

/-- **the transfer has no abstract effect**: no step of the resizing thread changes the abstract state
of any key — in particular not the store of the forwarding marker, where the live chain of every key
switches from the old list to its new list -/
theorem transfer_abs_invariant {n : Nat} {s s' : State} (hr : Reachable n s) {t : Nat} {l : Local}
    {inv : Option (Nat × KOp)} {rz : Bool} (hl : s.threads[t]? = some l) (hT : isT l.pc)
    (hs : step s t inv rz = some s') (k : Nat) : absOf s' k = absOf s k := by
  obtain ⟨g, I⟩ := reachable_inv hr
  have H := I.heap
  have hstep := step_stepK hl hs
  have hph := I.ph.pcPh t l hl
  cases hstep with
  | idle hpc => rw [hpc] at hT; exact False.elim hT
  | invoke k' op hpc => rw [hpc] at hT; exact False.elim hT
  | resize hpc _ => rw [hpc] at hT; exact False.elim hT
  | move p pc' hp hm => exact absurd hT hm.isOp.2.2.1
  | tmove pc' hp hm => exact absOf_congr rfl rfl rfl rfl rfl k
  | lockMove p h x pc' hp hm =>
    obtain ⟨pc, call⟩ := l
    cases hm <;> exact False.elim hT
  | tlockMove h x pc' hp hm =>
    exact (lock_effect (s' := setT (setNode (tick s) h (fun m => { m with lock := x })) t { l with pc := pc' })
      H rfl rfl rfl rfl rfl).2.2.2.1 k
  | fin p res hp hf =>
    obtain ⟨pc, call⟩ := l
    cases hf <;> exact False.elim hT
  | cas p tab v vi hp hpc hc hop => rw [hpc] at hT; exact False.elim hT
  | store p tab h pred hit hnext hp hpc => rw [hpc] at hT; exact False.elim hT
  | unlockFin p tab h res hp hpc => rw [hpc] at hT; exact False.elim hT
  | casMoved hp hpc hc =>
    rw [hpc] at hph
    exact (casMoved_effect (s' := { (setT (tick s) t { l with pc := .tCommit }) with cell0 := .moved })
      H hph hc rfl rfl rfl rfl rfl).2.2 k
  | build h hp hpc =>
    rw [hpc] at hph
    have hv : vcell l = some (.c0, h) := by
      obtain ⟨pc, call⟩ := l
      simp only at hpc; subst hpc; rfl
    obtain ⟨hc, -⟩ := I.lock.validated t l _ h hl hv
    exact (build_effect (s' := setT { tick s with heap := (splitBin s.heap (chainFrom s.heap s.heap.length (some h))).1 } t
      { l with pc := .tStoreLow h (splitBin s.heap (chainFrom s.heap s.heap.length (some h))).2.1 (splitBin s.heap (chainFrom s.heap s.heap.length (some h))).2.2 })
      H hph hc rfl rfl rfl rfl rfl).2.2.1 k
  | storeLow h lo hg hp hpc =>
    rw [hpc] at hph
    exact (storeNew_effect (s' := { (setT (tick s) t { l with pc := .tStoreHigh h hg }) with lowCell := cellOfHead lo })
      H hph.1 rfl rfl (Or.inr ⟨hph.2.1, rfl⟩) (Or.inl rfl) rfl).2.2 k
  | storeHigh h hg hp hpc =>
    rw [hpc] at hph
    obtain ⟨lo, h1, h2, h3⟩ := hph
    exact (storeNew_effect (s' := { (setT (tick s) t { l with pc := .tStoreMoved h }) with highCell := cellOfHead hg })
      H h1 rfl rfl (Or.inl rfl) (Or.inr ⟨h3, rfl⟩) rfl).2.2 k
  | storeMoved h hp hpc =>
    rw [hpc] at hph
    obtain ⟨lo, hg, h1, h2, h3⟩ := hph
    exact (moved_effect (s' := { (setT (tick s) t { l with pc := .tUnlock h }) with cell0 := .moved })
      H h1 h2 h3 rfl rfl rfl rfl rfl).2 k
  | commit hp hpc =>
    rw [hpc] at hph
    exact (commit_effect (s' := { (setT (tick s) t { l with pc := .idle }) with cur := .new })
      H hph rfl rfl rfl rfl).2.2 k

end Flurry.Proto.BinX
