import Flurry.Lemmas.BinNATransfer
import Flurry.Lemmas.BinNAWF
import Flurry.Lemmas.BinNALock
/-! # C01 / C08 / C10 (generation structure): linearizability across ANY NUMBER of successive resizes

`Proto/BinNA.lean` models a table that is resized again and again (generations `0, 1, 2, …`,
generation `g` has `2^g` cells) while any number of threads perform `get`, `contains_key`, `insert`,
`try_insert`, `remove`, `compute_if_present`. One transition = one shared-memory access. Bins are
ATOMIC copy-on-write lists (a reader gets the whole bin with ONE load of the cell, a writer replaces it
with ONE store under the cell's lock), so the in-bin pointer walking that `Proto/BinX` / `Proto/BinG`
cover for one resize is not interleaved here; what is new is the generation structure: a slow thread may
hold a pointer to a table that is several generations old, every cell of which is a forwarding marker
for ever, and follows marker after marker until it reaches a live cell.

For every reachable state and every key, the history of that key — the completed calls, plus the calls
of writers that have done their store and only have to unlock — is linearizable from "absent" to the
key's current abstract content (`binNA_linearizable`; quiescent form `binNA_linearizable_quiescent`).

Linearization points (no hindsight needed in this model): readers at the load that returns a cell that
is not a marker; writers that see an empty cell and have nothing to insert at that load; the lock-free
insert at its successful CAS; lock-holding writers at their one store. No step of a resize has an
abstract effect (`transfer_abs_invariant`). -/
namespace Flurry.Proto.BinNA
open Flurry.Lin

theorem init_ginv (n k : Nat) : GInv k (init n) (fun _ => none) id := by
  have hnil : callsOnExt (init n) k = [] := by
    rw [List.eq_nil_iff_forall_not_mem]
    intro c hc
    rcases mem_callsOnExt.1 hc with hc | ⟨t, l, hl, he⟩
    · simp [init] at hc
    · rw [init_thread hl] at he
      cases he
  refine ⟨rfl, ?_, ?_, ?_, ?_⟩
  · show none = absOf (init n) k
    have hix : ix 0 k = 0 := Nat.mod_one k
    have hc : getCell (init n) 0 (ix 0 k) = .empty := by rw [hix]; rfl
    have := (inv_init n).absOf_of_fwd (g := 0) (k := k) (fwd_cur (init n) _) (by rw [hc]; simp)
    rw [this, hc]; rfl
  · intro c hc; rw [hnil] at hc; cases hc
  · intro τ h1 h2
    have : (init n).now = 0 := rfl
    omega
  · intro c hc; rw [hnil] at hc; cases hc

/-- the structural and the ghost invariant hold in every reachable state -/
theorem reachable_ginv {n : Nat} {s : State} (hr : Reachable n s) (k : Nat) :
    Inv s ∧ ∃ A pt, GInv k s A pt := by
  induction hr with
  | init => exact ⟨inv_init n, _, _, init_ginv n k⟩
  | @step s s' t inv rz pick hr hs ih =>
    obtain ⟨I, A, pt, g⟩ := ih
    cases hl : s.threads[t]? with
    | none => unfold step stepG at hs; rw [hl] at hs; cases hs
    | some l => exact ⟨stepK_inv I hl (step_stepK hl hs), ginv_step g I hl (step_stepK hl hs)⟩

/-- from the ghost invariant to linearizability (the trace lemma) -/
theorem GInv.linearizable {k : Nat} {s : State} {A : Nat → KSt} {pt : Nat → Nat}
    (g : GInv k s A pt) (T : TInv s) : Linearizable (callsOnExt s k) none (absOf s k) := by
  have h := lin_of_trace (h := callsOnExt s k) A s.now (fun c => pt c.inv) ?_ ?_ ?_ ?_ ?_
  · rw [g.h0, g.hA] at h; exact h
  · intro c hc
    obtain ⟨h1, h2, -, -⟩ := g.calls c hc
    have := callsOnExt_resp_le T hc
    exact ⟨h1, h2, by omega⟩
  · intro c hc hw; exact (g.calls c hc).2.2.2 hw
  · intro c hc hrd; exact (g.calls c hc).2.2.1 hrd
  · refine (callsOnExt_pairwise T k).imp_of_mem ?_
    intro c d hc hd hne hwc hwd hpe
    exact hne (g.inj c hc d hd hwc hwd hpe)
  · intro τ h1 h2 hno
    apply Classical.byContradiction
    intro hne
    obtain ⟨c, hc, hw, hp⟩ := g.stab τ h1 h2 hne
    exact hno c hc hw hp

/-- **C01 / C08 / C10 across any number of resizes.** Under every interleaving of any number of
threads and any number of successive resizes, the per-key history (completed calls plus
stored-but-not-yet-unlocked writers) is linearizable and ends in what a lookup of the key started now
would find (`absOf`: start at the table pointer, follow the forwarding markers). -/
theorem binNA_linearizable {n : Nat} {s : State} (hr : Reachable n s) (k : Nat) :
    Lin.Linearizable (callsOnExt s k) none (absOf s k) := by
  obtain ⟨I, A, pt, g⟩ := reachable_ginv hr k
  exact g.linearizable I.thr

/-- **quiescent form**: when no thread is inside a call or a resize, the completed calls on every key
are linearizable and end in the key's abstract content. -/
theorem binNA_linearizable_quiescent {n : Nat} {s : State} (hr : Reachable n s) (hq : quiescent s) (k : Nat) :
    Lin.Linearizable (callsOn s k) none (absOf s k) := by
  have := binNA_linearizable hr k
  rw [callsOnExt_quiescent hq] at this
  exact this

/-! ## the generation structure -/

/-- **generations do not overlap**: at most one generation is being filled and it is `cur + 1`: the
allocated generations are `0 … cur` or `0 … cur + 1`, the latter exactly while a resize is in progress;
generation `g` has `2^g` cells (and as many mutexes); at most one thread is resizing, and only while
`resizing` is set. -/
theorem generations_do_not_overlap {n : Nat} {s : State} (hr : Reachable n s) :
    s.tabs.length ≤ s.cur + 2 ∧ s.cur + 1 ≤ s.tabs.length ∧
    (s.tabs.length = s.cur + 2 ↔ s.resizing = true) ∧
    s.locks.length = s.tabs.length ∧
    (∀ g, g < s.tabs.length → (s.tabs.getD g []).length = 2 ^ g ∧ (s.locks.getD g []).length = 2 ^ g) ∧
    (∀ (t t' : Nat) (l l' : Local), s.threads[t]? = some l → s.threads[t']? = some l' → isT l.pc → isT l'.pc →
      t = t') ∧
    (∀ (t : Nat) (l : Local), s.threads[t]? = some l → isT l.pc → s.resizing = true) := by
  have I := reachable_inv hr
  have hlen := I.shape.len
  refine ⟨?_, I.len_ge, ?_, I.shape.llen, fun g hg => ⟨I.shape.row g hg, I.shape.lrow g hg⟩, I.uniqT, ?_⟩
  · split at hlen <;> omega
  · cases hr : s.resizing with
    | true => rw [hr] at hlen; simp at hlen; simp [hlen]
    | false => rw [hr] at hlen; simp at hlen; simp [hlen]
  · intro t l hl hT
    have h := I.pc t l hl
    cases hp : l.pc <;> rw [hp] at hT h <;> first | exact False.elim hT | exact h | exact h.1

/-- **old generations are forwarded for ever**: every cell of a generation below the table pointer
is a forwarding marker; no cell of a generation above it (the one being filled) is a marker; and the
cells of the current generation are forwarded only while a resize is in progress. -/
theorem old_generations_forwarded {n : Nat} {s : State} (hr : Reachable n s) :
    (∀ g j, g < s.cur → j < 2 ^ g → getCell s g j = .moved) ∧
    (∀ g j, s.cur < g → getCell s g j ≠ .moved) ∧
    (s.resizing = false → ∀ j, getCell s s.cur j ≠ .moved) := by
  have I := reachable_inv hr
  exact ⟨I.old, I.newer, I.noRz⟩

/-- the generation a program counter works in -/
def genOf : Pc → Option Nat
  | .rCell g | .wCell g | .wCas g | .wLock g | .wCheck g | .wStore g | .wUnlock g _ _ => some g
  | _ => none

/-- **follow markers until a live cell**: a thread that works in generation `g` (it got there from the
table pointer it loaded, marker after marker) has `g ≤ cur + 1`; and if the cell of its key in
generation `g` is not a marker, it IS the cell a lookup started now would end in — so what the thread
reads there is the abstract content of its key. -/
theorem follow_markers_live_cell {n : Nat} {s : State} (hr : Reachable n s) {t g : Nat} {l : Local} {p : Pending}
    (hl : s.threads[t]? = some l) (hp : l.call = some p) (hg : genOf l.pc = some g) :
    g ≤ s.cur + 1 ∧
    (getCell s g (ix g p.key) ≠ .moved →
      liveFrom s s.tabs.length s.cur p.key = getCell s g (ix g p.key) ∧
      absOf s p.key = cellAbs p.key (getCell s g (ix g p.key))) := by
  have I := reachable_inv hr
  have h := I.pc t l hl
  rw [keyOf_some hp] at h
  have hf : Fwd s g (ix g p.key) := by
    cases hpc : l.pc <;> rw [hpc] at hg h <;> simp only [genOf, Option.some.injEq, reduceCtorEq] at hg <;>
      subst hg <;> first | exact h | exact h.1
  refine ⟨hf.1, fun hnm => ⟨?_, I.absOf_of_fwd hf hnm⟩⟩
  rw [I.liveFrom_eq, I.live_of_fwd hf hnm]

/-- **a resize has no abstract effect**: no step of a thread that is not executing a call — the
resizing thread (allocation of the next generation, CAS `empty → moved`, locking, the stores of the low
and the high child, the store of the marker, unlocking, `cur := cur + 1`) or an idle thread — changes
the abstract content of any key. -/
theorem transfer_abs_invariant {n : Nat} {s s' : State} (hr : Reachable n s) {t : Nat} {l : Local}
    {inv : Option (Nat × KOp)} {rz : Bool} {pick : Nat} (hl : s.threads[t]? = some l)
    (hT : isT l.pc ∨ (l.pc = .idle ∧ rz = true))
    (hs : step s t inv rz pick = some s') (k : Nat) : absOf s' k = absOf s k := by
  have I := reachable_inv hr
  refine stepK_abs_nocall I hl ?_ (step_stepK hl hs) k
  have hc := I.thr.callOK t l hl
  cases hcall : l.call with
  | none => rfl
  | some p =>
    rw [hcall] at hc
    have hop : isOp l.pc := hc.2 rfl
    rcases hT with hT | ⟨hT, _⟩
    · cases hpc : l.pc <;> rw [hpc] at hT hop <;> first | exact False.elim hT | exact False.elim hop
    · rw [hT] at hop; exact False.elim hop

/-- **mutual exclusion under a validated lock**: two threads that hold a validated lock on the same
cell (a writer between its successful re-check and its store, the resizing thread between its
successful re-check and the store of the marker) are the same thread. -/
theorem validated_mutex {n : Nat} {s : State} (hr : Reachable n s) {t t1 : Nat} {l l1 : Local} {c : Nat × Nat}
    (hl : s.threads[t]? = some l) (hl1 : s.threads[t1]? = some l1)
    (hv : vcell s l = some c) (hv1 : vcell s l1 = some c) : t = t1 := by
  have I := reachable_inv hr
  obtain ⟨g, j⟩ := c
  have h1 := (vcell_spec hv (I.pc t l hl)).1
  have h2 := (vcell_spec hv1 (I.pc t1 l1 hl1)).1
  rw [h1] at h2
  exact Option.some.inj h2

/-- under a validated lock the cell is a list (it has not been forwarded and cannot be until the lock
is released), its mutex is held by the thread, and for a writer it is the LIVE cell of its key: its
content is the abstract content of the key. -/
theorem validated_live {n : Nat} {s : State} (hr : Reachable n s) {t g j : Nat} {l : Local}
    (hl : s.threads[t]? = some l) (hv : vcell s l = some (g, j)) :
    getLock s g j = some t ∧ isList (getCell s g j) = true ∧
    (∀ p, l.call = some p → j = ix g p.key ∧ absOf s p.key = cellAbs p.key (getCell s g j)) := by
  have I := reachable_inv hr
  obtain ⟨h1, h2, h3⟩ := vcell_spec hv (I.pc t l hl)
  refine ⟨h1, h2, ?_⟩
  intro p hp
  have hj : j = ix g p.key := by
    obtain ⟨pc, call⟩ := l
    simp only at hp; subst hp
    cases pc <;> simp only [vcell, Option.some.injEq, Prod.mk.injEq, reduceCtorEq] at hv
    case wStore g0 => obtain ⟨rfl, rfl⟩ := hv; rfl
    all_goals
      have := (I.thr.callOK t _ hl).2 rfl
      exact False.elim this
  subst hj
  exact ⟨rfl, I.absOf_of_fwd h3 (isList_ne_moved h2)⟩

/-- **lock words**: the mutex of cell `(g, j)` is held by thread `t` exactly when `t` is in a critical
section on that cell (a writer from its lock acquisition to its unlock, the resizing thread from its
lock acquisition to its unlock) — no lock word is ever left behind, in particular none in a table of an
old generation. -/
theorem lock_iff_critical_section {n : Nat} {s : State} (hr : Reachable n s) (g j t : Nat) :
    getLock s g j = some t ↔ ∃ l, s.threads[t]? = some l ∧ HoldsAt s l g j := by
  have I := reachable_inv hr
  constructor
  · exact reachable_linv hr g j t
  · rintro ⟨l, hl, hh⟩
    have h := I.pc t l hl
    rcases hh.of_pc with ⟨g', p, hp, hpc, rfl, rfl⟩ | ⟨j', hpc, rfl, rfl⟩
    · rw [keyOf_some hp] at h
      rcases hpc with hpc | hpc | ⟨r, b, hpc⟩ <;> rw [hpc] at h
      · exact h.2
      · exact h.2.1
      · exact h.2
    · rcases hpc with hpc | ⟨lo, hi, hpc⟩ | ⟨hi, hpc⟩ | hpc | hpc <;> rw [hpc] at h
      · exact h.2.2
      · exact h.2.2.1
      · exact h.2.2.1
      · exact h.2.2.1
      · exact h.2.2

/-- **bins are well-formed**: the content of every list cell `(g, j)` is non-empty, its keys are
pairwise distinct and all of them belong to cell `j` of generation `g` (so a split sends every entry to
the right child). -/
theorem content_wellformed {n : Nat} {s : State} (hr : Reachable n s) {g j : Nat} {xs : List Entry}
    (h : getCell s g j = .list xs) :
    xs ≠ [] ∧ (xs.map (·.1)).Nodup ∧ ∀ e ∈ xs, e.1 % 2 ^ g = j := by
  have := reachable_wf hr g j
  rw [h] at this
  exact this

end Flurry.Proto.BinNA
