import Flurry.Lemmas.TableGNL
import Flurry.Lemmas.TableGNLExamples
import Flurry.Props.C11BinGN
import Flurry.Props.C01TableGN
/-! # C11 for `Proto/TableGN`: no reachable state of the whole table is a deadlock — list and tree bins, ANY number
of resizes

> A thread holds at most one bin lock at a time; … a thread that waits for a lock waits for a holder that can itself
> move.

`Proto/TableGN`: `m` lineages of `Proto/BinGN` on one clock; one transition of the table is one `BinGN.step` of one
thread in one lineage (the keys it names translated to their local names), every other lineage ticks; a thread can act
in lineage `i` only while it is `idle` in every other lineage.

* `tableGN_active_idle_elsewhere` — a thread that is not `idle` in lineage `i` of a reachable table is `idle` in every
  other lineage (`tableGN_one_lineage_per_thread` + all lineages have the same number of threads);
* `tableGN_step_is_lineage_step` — hence `TableGN.step` lets it take, in lineage `i`, exactly the steps `BinGN.step`
  lets it take there (the `inLineage` conditions concern invocations and treeify keys only);
* `tableGN_never_stuck_all` / `tableGN_never_stuck` — a table that is not quiescent has a lineage that is not
  quiescent; the witness of `binGN_never_stuck_all` there — a thread that is NOT idle and whose lineage step is enabled
  whatever the scheduler's arguments are — is idle in all other lineages, so its table step is enabled whatever the
  scheduler's arguments are (`TEnabled`).

Proofs: `Lemmas/TableGNL.lean` over `Props/C11BinGN.lean`. -/
namespace Flurry.Proto.TableGNL
open Flurry.Lin Flurry.LinMap Flurry.Proto.TableGN
open Flurry.Proto.TableN (lineageOf localKey globalKey inLineage localInv)

/-- **a thread is inside at most one lineage**: a thread that is not `idle` in lineage `i` of a reachable table — it
has a call in flight there, treeifies a bin of it, or resizes it — is `idle` in every other lineage -/
theorem tableGN_active_idle_elsewhere {m n : Nat} {S : State} (hr : Reachable m n S) {i t : Nat} {b : BinGN.State}
    {l : BinGN.Local} (hb : S.bins[i]? = some b) (hl : b.threads[t]? = some l) (hne : l.pc ≠ .idle)
    {j : Nat} {bj : BinGN.State} (hji : j ≠ i) (hj : S.bins[j]? = some bj) : idleIn bj t = true :=
  idleElse_of_active hr hb hl hne j bj hji hj

/-- **the table does not get in the way**: an enabled lineage step of a thread that is not `idle` in lineage `i` — with
any scheduler arguments; the keys they name (an invoked key, a treeify key: ignored by a thread that is not `idle`)
must be keys of lineage `i` and are handed to the lineage under their local names — is an enabled table step; lineage
`i` makes that step, every other lineage ticks -/
theorem tableGN_step_is_lineage_step {m n : Nat} {S : State} (hr : Reachable m n S) {i t : Nat} {b b' : BinGN.State}
    {l : BinGN.Local} (hb : S.bins[i]? = some b) (hl : b.threads[t]? = some l) (hne : l.pc ≠ .idle)
    {inv : Option (Nat × KOp)} {lo : Bool} {mt : Option Nat} {rz sm sm2 : Bool} {pick : Nat}
    (h1 : inLineage S.bins.length i (inv.map (·.1)) = true) (h2 : inLineage S.bins.length i mt = true)
    (hs : BinGN.step b t (localInv S.bins.length inv) lo (localMt S.bins.length mt) rz sm sm2 pick = some b') :
    step S i t inv lo mt rz sm sm2 pick = some { bins := (S.bins.map tick).set i b' } :=
  step_lift hb (idleElse_of_active hr hb hl hne) h1 h2 hs

/-- `TEnabled` spelled out: the table step of thread `t` in lineage `i` is enabled for every value of the scheduler's
arguments whose keys (if any) are keys of lineage `i` -/
theorem tenabled_iff (S : State) (i t : Nat) : TEnabled S i t ↔
    ∀ (inv : Option (Nat × KOp)) (lo : Bool) (mt : Option Nat) (rz sm sm2 : Bool) (pick : Nat),
      inLineage S.bins.length i (inv.map (·.1)) = true → inLineage S.bins.length i mt = true →
      (step S i t inv lo mt rz sm sm2 pick).isSome = true := Iff.rfl

/-- in particular, with no key named (`inv = none`, `maint = none`), for all `lo rz sm sm2 pick` -/
theorem TEnabled.quiet {S : State} {i t : Nat} (h : TEnabled S i t) (lo rz sm sm2 : Bool) (pick : Nat) :
    (step S i t none lo none rz sm sm2 pick).isSome = true := h none lo none rz sm sm2 pick rfl rfl

/-- an enabled lineage thread that is not `idle` is an enabled table thread -/
theorem tableGN_enabled_lifts {m n : Nat} {S : State} (hr : Reachable m n S) {i t : Nat} {b : BinGN.State}
    {l : BinGN.Local} (hb : S.bins[i]? = some b) (hl : b.threads[t]? = some l) (hne : l.pc ≠ .idle)
    (he : BinGNP.Enabled b t) : TEnabled S i t := tenabled_of_enabled hr hb hl hne he

/-- **C11 for the table, strong form**: in every reachable table state that is not quiescent, some thread that is not
`idle` in some lineage `i` — and therefore `idle` in every other lineage — has a table step in lineage `i` that is
enabled whatever the scheduler's arguments are (the keys they name, if any, being keys of lineage `i`) -/
theorem tableGN_never_stuck_all {m n : Nat} {S : State} (hr : Reachable m n S) (hq : ¬ quiescent S) :
    ∃ (i : Nat) (b : BinGN.State) (t : Nat) (l : BinGN.Local), S.bins[i]? = some b ∧ b.threads[t]? = some l ∧
      l.pc ≠ .idle ∧ (∀ (j : Nat) (bj : BinGN.State), j ≠ i → S.bins[j]? = some bj → idleIn bj t = true) ∧
      TEnabled S i t := by
  obtain ⟨i, b, t, l, hb, hl, hne, hidle, _, he⟩ := never_stuck_aux hr hq
  exact ⟨i, b, t, l, hb, hl, hne, hidle, he⟩

/-- **C11 for the table: no deadlock.** In every reachable table state that is not quiescent, some thread that is NOT
idle in some lineage has an enabled table step there. -/
theorem tableGN_never_stuck {m n : Nat} {S : State} (hr : Reachable m n S) (hq : ¬ quiescent S) :
    ∃ (i : Nat) (b : BinGN.State) (t : Nat) (l : BinGN.Local), S.bins[i]? = some b ∧ b.threads[t]? = some l ∧
      l.pc ≠ .idle ∧ ∃ S', step S i t none false none false false false 0 = some S' ∧ Reachable m n S' := by
  obtain ⟨i, b, t, l, hb, hl, hne, _, _, he⟩ := never_stuck_aux hr hq
  obtain ⟨S', hs⟩ := Option.isSome_iff_exists.1 (he.quiet false false false false 0)
  exact ⟨i, b, t, l, hb, hl, hne, S', hs, .step i t none false none false false false 0 hr hs⟩

/-- a quiescent table is exactly a table in which no thread is inside a lineage -/
theorem tableGN_quiescent_iff (S : State) :
    quiescent S ↔ ∀ (i : Nat) (b : BinGN.State) (t : Nat) (l : BinGN.Local), S.bins[i]? = some b →
      b.threads[t]? = some l → l.pc = .idle := by
  constructor
  · intro hq i b t l hb hl
    exact hq b (List.mem_of_getElem? hb) l (List.mem_of_getElem? hl)
  · intro h b hb l hl
    obtain ⟨i, hi⟩ := List.mem_iff_getElem?.1 hb
    obtain ⟨t, ht⟩ := List.mem_iff_getElem?.1 hl
    exact h i b t l hi ht

/-! ## non-vacuity (`Lemmas/TableGNLExamples.lean`) -/

/-- `busyState` (thread 0 in the middle of the transfer of the tree bin of lineage 0, holding the mutex of the old
`TreeBin`; thread 1 a reader inside it) is reachable and not quiescent: some thread that is not idle has an enabled
table step -/
example : ∃ S : State, busyState = some S ∧ Reachable 2 2 S ∧ ¬ quiescent S ∧
    ∃ (i : Nat) (b : BinGN.State) (t : Nat) (l : BinGN.Local), S.bins[i]? = some b ∧ b.threads[t]? = some l ∧
      l.pc ≠ .idle ∧ TEnabled S i t := by
  obtain ⟨S, hs, hr, hp, -, -, hb⟩ := example_busy
  have hnq : ¬ quiescent S := by
    intro hq
    cases h0 : S.bins[0]? with
    | none => rw [h0] at hb; cases hb
    | some b =>
      rw [h0] at hb
      simp only [Option.map_some, Option.some.injEq, Prod.mk.injEq] at hb
      have := (tableGN_quiescent_iff S).1 hq 0 b 1 _ h0 hb.1
      cases this
  obtain ⟨i, b, t, l, h1, h2, h3, -, h4⟩ := tableGN_never_stuck_all hr hnq
  exact ⟨S, hs, hr, hnq, i, b, t, l, h1, h2, h3, h4⟩

end Flurry.Proto.TableGNL
