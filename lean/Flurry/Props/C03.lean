import Flurry.Lemmas.Reclaim
/-! # C03 — references handed out under a guard never dangle; freed memory is never touched

**Strength: full for the reclamation discipline (`Proto/Reclaim`), partial for its embedding.**
`Proto/Reclaim` is the ownership protocol flurry follows on top of seize: a pointer is picked up
only from a *linked* object and only under a guard, is given up when the guard is released or
refreshed, an object is unlinked before it is retired, and the collector frees it only when every
guard that was active at its retirement has been released. Proved for every number of threads and
every event sequence allowed by the protocol: no pointer a thread holds refers to freed memory.
With `Guard::unprotected()` (retire = free) the same sequence touches freed memory: finding F1.

That the implementation's events *are* sequences of this protocol is checked on recorded event
streams of the real code (`harness/src/life.rs`): every hook address against the quarantine
allocator's free log ([uaf]), frees against the guards active at retirement ([early-free]),
retirement against a reachability snapshot ([retire-reachable]), double frees. -/
namespace Flurry.C03
open Flurry.Proto.Reclaim

/-- **a reference obtained under a guard stays valid until that guard is released**: in every
protected run (objects are published by guarded threads), no pointer held by any thread refers
to a freed object -/
theorem held_references_valid {n : Nat} {es : List Ev} {s : State}
    (h : run (init n) es = some s) (hp : Protected es) (hg : publishGuarded (init n) es = true) :
    ∀ (t : Nat) (th : Thread) (o : Nat), s.threads[t]? = some th → o ∈ th.holds → s.objs[o]? ≠ some .freed :=
  held_pointers_valid_of_publishGuarded h hp hg

/-- **freed memory is never touched** -/
theorem no_touch_after_free {n : Nat} {es : List Ev} {s : State}
    (h : run (init n) es = some s) (hp : Protected es) (hg : publishGuarded (init n) es = true) :
    s.badTouches = 0 := no_touch_after_free_of_publishGuarded h hp hg

/-- the collector cannot free an object somebody still holds -/
theorem free_waits_for_holders {n : Nat} {es : List Ev} {s : State}
    (h : run (init n) es = some s) (hp : Protected es) (hg : publishGuarded (init n) es = true)
    {t : Nat} {th : Thread} {o : Nat} (ht : s.threads[t]? = some th) (hm : o ∈ th.holds) :
    step s (.free o) = none := free_refused_while_held h hp hg ht hm

/-- unlink first, retire afterwards; and nobody can pick the pointer up after the unlink -/
theorem retire_only_after_unlink {s s' : State} {t o : Nat} (h : step s (.retire t o) = some s') :
    s.objs[o]? = some .unlinked ∧ guardedB s t = true := retire_after_unlink h

theorem unlinked_not_acquirable {s s1 s' : State} {es : List Ev} {t0 o : Nat}
    (h0 : step s (.unlink t0 o) = some s1) (h : run s1 es = some s') (t : Nat) :
    step s' (.acquire t o) = none := no_acquire_after_unlink_event h0 h t

/-- **finding F1 as a theorem about the protocol**: one thread that acquires a node, unlinks it,
retires it through an unprotected guard and then touches it (what `FromIterator` did through
`transfer`: the head node was retired and afterwards the mutex inside it was released) touches
freed memory. -/
theorem unprotected_guard_is_unsafe :
    (run (init 1) f1Trace).map (·.badTouches) = some 1 ∧ ¬ Protected f1Trace :=
  ⟨unprotected_unsafe.1, unprotected_unsafe.2.2⟩

/-- the guard hypothesis on publication is needed -/
theorem publication_needs_guard : ∃ es s, run (init 2) es = some s ∧ Protected es ∧ s.badTouches = 1 :=
  no_touch_after_free_needs_guard

end Flurry.C03
