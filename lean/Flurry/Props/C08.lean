import Flurry.Lemmas.Lin
/-! # C08 — compute_if_present is an atomic read-modify-write

**Strength: partial.** `compute_if_present` is one operation of the per-key specification
(`Lin.specStep … (.cipInc _)` / `.cipRm`): it reads the current value and replaces exactly it in
one step. Proved: in every linearizable history increments are never lost, and the value a
`cipInc` call reports determines the value it saw. That every execution of the implementation is
linearizable (with the closure called at most once, on the value then current) is checked on
recorded histories of the real code by the complete decision procedure of C01 plus the
closure-call counters of the harness; the protocol that makes it so (function invoked while
holding the lock of the validated head) is not yet proved on a small-step model. -/
namespace Flurry.C08
open Flurry.Lin

/-- **no lost update**: if `k` concurrent `compute_if_present(|v| v + 1)` calls on one key form a
linearizable history starting from payload `v`, the key ends with payload `v + k`. -/
theorem counter_no_lost_update {h : History} {v vi : Nat} {fin : KSt}
    (hl : Linearizable h (some (v, vi)) fin) (hall : ∀ c ∈ h, ∃ n, c.op = .cipInc n) :
    ∃ vi', fin = some (v + h.length, vi') := spec_cipInc_counts hl hall

/-- the function is not applied when the key is absent -/
theorem absent_not_applied (n : Nat) : specStep none (.cipInc n) = (none, .none) := rfl

/-- what a call returns is the successor of exactly the value that was current, and that value
is what it replaces -/
theorem replaces_what_it_read (v vi n : Nat) :
    specStep (some (v, vi)) (.cipInc n) = (some (v + 1, n), .some (v + 1) n) := rfl

theorem removal_is_atomic (st : KSt) : (specStep st .cipRm).1 = none := by
  cases st <;> rfl

/-- two increments that both report the same new value cannot both have happened -/
example : ¬ Linearizable [⟨0, .cipInc 7, .some 6 7, 0, 3⟩, ⟨1, .cipInc 8, .some 6 8, 1, 2⟩] (some (5, 1)) (some (6, 8)) := by decide
example : Linearizable [⟨0, .cipInc 7, .some 6 7, 0, 3⟩, ⟨1, .cipInc 8, .some 7 8, 1, 2⟩] (some (5, 1)) (some (7, 8)) := by decide

end Flurry.C08
