import Flurry.Lemmas.BinGNDrainRun
import Flurry.Lemmas.BinGNDrainBound
import Flurry.Lemmas.BinGNProgExamples
/-! # C11 for `Proto/BinGN`, termination: every operation — and a resize in flight — terminates under ANY schedule
once no new work is started (port and extension of `Props/C11BinGDrain.lean`)

> Once no new call, treeify or RESIZE is started, every run of the threads in flight is finite — whatever the
> scheduler does, fair or not — and ends with every call answered and the running resize committed.

**Quiet step** (`QStep`): `inv = none`, `mt = none`, `rz = false`, any `lo sm sm2`, by a thread that is not `idle`,
with ONE explicit scheduler restriction on `pick`: when the stepping thread is the resizing thread at `xNext` and some
cell of generation `cur` is not yet forwarded, the cell it is handed, `pick % 2 ^ cur`, is one that is not yet
forwarded. (The model's `xNext` accepts ANY cell and `xCell j` on a forwarded cell goes back to `xNext` without
progress, so an adversarial `pick` could loop `xNext → xCell j → xNext` for ever: without this restriction the
theorem is false. `qstep_of_not_quiescent` shows that the restriction never disables a thread: such a cell exists
whenever `allMoved = false`.) No generation is allocated during a quiet run: the allocation happens in the `idle → xNext`
step of `stepG` (`rz = true`), which a quiet step excludes (`quiet_step_keeps_tables`).

The measure `gmu s = W s * DA s + PS s` of `Lemmas/BinGNDrainDefs.lean` extends BinG's:
* readers, writers and treeify threads in generation `g`: `tabs.length - g` forwarding hops still possible
  (`pmV`: `rCell _ g ↦ 4L + 8 + (T - g)`, `fresh T L g = 2L + 12 + (T - g)`, `kCell g _ ↦ 6 + (T - g)`; a forwarding
  marker is only found in an allocated generation: `lt_tabs_of_moved`);
* the resizing thread: with `U` = the number of cells of generation `cur` not yet forwarded (`Uv`, read from the
  `View`), `DA` counts `4 * U + 1` disturbing steps at `xNext` (per cell: allocation, two child stores, the marker;
  `+ 1`: the commit) and the position inside the current transfer; `growV` counts one allocation per such cell (so
  `N s = (heap.length + 1) * 4 ^ G s` still bounds the heap of every later state); `pmV` bounds its calm steps up to
  the next disturbing one, accounting for a stale view (failed re-check, failed CAS);
* the steps of the other threads neither forward a cell of generation `cur` nor overwrite a marker
  (`stepN_frame_nx`, from the lock invariants `LInv.vL`, `LInv.vT`), so they do not increase `U`. -/
namespace Flurry.Proto.BinGNP
open Flurry.Lin

/-- the drain measure of `Proto/BinGN` (`Lemmas/BinGNDrainDefs.lean`) -/
abbrev gmuN (s : State) : Nat := gmu s

/-- **C11.1 (BinGN): the global measure strictly decreases.** In every reachable state — a resize may be in flight,
threads may be stale by any number of generations — every enabled quiet step of a thread that is not `idle` strictly
decreases `gmu`. -/
theorem quiet_step_decreases {n : Nat} {s s' : State} (hr : Reachable n s) (h : QStep s s') : gmuN s' < gmuN s :=
  h.gmu_lt hr

/-- the same for any enabled step of a thread that is not `idle` (the scheduler's `inv`, `mt`, `rz` are ignored by
such a thread), under the restriction on `pick` -/
theorem nonidle_step_decreases {n : Nat} {s s' : State} (hr : Reachable n s) {t : Nat} {l : Local}
    (hl : s.threads[t]? = some l) (hne : l.pc ≠ .idle) {inv : Option (Nat × KOp)} {lo : Bool} {mt : Option Nat}
    {rz sm sm2 : Bool} {pick : Nat} (hs : step s t inv lo mt rz sm sm2 pick = some s')
    (hpk : l.pc = .xNext → allMoved s s.cur = false → cellAt s (s.cur, pick % 2 ^ s.cur) ≠ .moved) :
    gmu s' < gmu s :=
  step_gmu_lt hr hl hne hs hpk

/-- `gmuN` is bounded by `drainBound`, an explicit function of the heap length `n`, the number of threads `T`, the number
of generations `g = tabs.length` and `c = 2 ^ cur` (the cells a resize in flight may still have to transfer): with
`P = 4 * ((n + 1) * 4 ^ (T * (c + 1))) + 20 + g`: `(T * P + 1) * (T * (4 * c + 5)) + T * P` -/
theorem gmuN_le_bound {n : Nat} {s : State} (hr : Reachable n s) : gmuN s ≤ drainBound s := gmu_le_drainBound hr

/-- a quiet step allocates no generation -/
theorem quiet_step_keeps_tables {s s' : State} (h : QStep s s') : s'.tabs.length = s.tabs.length := by
  obtain ⟨t, l, lo, sm, sm2, pick, hl, hne, _, hs⟩ := h
  exact stepN_tabs_length (step_stepN hl hs) hne

/-- **C11.2 (BinGN): quiet runs are bounded**: `k` quiet steps from a reachable `s` have `k + gmu s' ≤ gmu s`. -/
theorem quiet_run_bounded {n : Nat} {s s' : State} {k : Nat} (hr : Reachable n s) (h : QRun s k s') :
    k + gmuN s' ≤ gmuN s := qrun_bounded hr h

/-- a quiet run that has not reached a quiescent state can be extended by a legal quiet step (`binGN_never_stuck`;
the `pick` restriction never disables the resizing thread) -/
theorem quiet_run_extends {n : Nat} {s s' : State} {k : Nat} (hr : Reachable n s) (h : QRun s k s')
    (hq : ¬ quiescent s') : ∃ s'', QRun s (k + 1) s'' := by
  obtain ⟨s'', h''⟩ := qstep_of_not_quiescent (h.reachable hr) hq
  exact ⟨s'', h.snoc h''⟩

/-- **C11.3 (BinGN): every maximal quiet run drains the lineage.** From every reachable state, ANY sequence of quiet
steps of threads that are not `idle` that cannot be extended ends in a QUIESCENT state — every call answered, every
treeify done, the running resize committed — after at most `gmuN s ≤ drainBound s` steps. No fairness assumption. -/
theorem binGN_drains {n : Nat} {s s' : State} {k : Nat} (hr : Reachable n s) (h : QRun s k s')
    (hmax : ∀ s'', ¬ QStep s' s'') : quiescent s' ∧ k ≤ gmuN s ∧ k ≤ drainBound s := by
  have h1 : k + gmuN s' ≤ gmuN s := qrun_bounded hr h
  have h2 : gmuN s ≤ drainBound s := gmu_le_drainBound hr
  exact ⟨qrun_maximal_quiescent hr h hmax, by omega, by omega⟩

/-- a quiescent state is where quiet runs stop: maximal ⇔ quiescent -/
theorem quiescent_iff_maximal {n : Nat} {s : State} (hr : Reachable n s) :
    quiescent s ↔ ∀ s', ¬ QStep s s' :=
  ⟨fun hq _ => no_qstep_of_quiescent hq, fun h => qrun_maximal_quiescent hr (.nil s) h⟩

/-- from every reachable state some quiet run reaches a quiescent state, within `gmu s` steps -/
theorem binGN_drain_exists {n : Nat} {s : State} (hr : Reachable n s) :
    ∃ k s', QRun s k s' ∧ quiescent s' ∧ k ≤ gmuN s := by
  obtain ⟨k, s', h, hq⟩ := drain_exists (gmu s) hr (Nat.le_refl _)
  have : k + gmuN s' ≤ gmuN s := qrun_bounded hr h
  exact ⟨k, s', h, hq, by omega⟩

/-- there is no infinite execution in which no new call / treeify / resize is started and only threads that are not
`idle` take (legal) steps -/
theorem no_infinite_quiet_run {n : Nat} {s : State} (hr : Reachable n s) (f : Nat → State) (h0 : f 0 = s) :
    ¬ ∀ i, QStep (f i) (f (i + 1)) := fun h => no_infinite_qrun hr f h0 h

/-- a resize in flight is committed by the end of any maximal quiet run -/
theorem resize_finishes {n : Nat} {s s' : State} {k : Nat} (hr : Reachable n s) (h : QRun s k s')
    (hmax : ∀ s'', ¬ QStep s' s'') : ∀ (t : Nat) (l : Local), s'.threads[t]? = some l → xPc l.pc = false := by
  intro t l hl
  have := qrun_maximal_quiescent hr h hmax l (List.mem_iff_getElem?.2 ⟨t, hl⟩)
  rw [this]; rfl

/-- **C11.4 (BinGN): every call returns.** For a thread `t` with the call `p` in flight in a reachable state `s`: at the
end of any maximal quiet run from `s` the call has been answered. -/
theorem every_call_returns {n : Nat} {s s' : State} {k : Nat} (hr : Reachable n s) (h : QRun s k s')
    (hmax : ∀ s'', ¬ QStep s' s'') {t : Nat} {l : Local} {p : Pending} (hl : s.threads[t]? = some l)
    (hp : l.call = some p) : Answered s' t p := by
  have hq := qrun_maximal_quiescent hr h hmax
  rcases qrun_call_returns hr h hl hp with ⟨l1, hl1, hp1⟩ | ha
  · exfalso
    have hidle : l1.pc = .idle := hq l1 (List.mem_iff_getElem?.2 ⟨t, hl1⟩)
    have := ((reachable_inv (h.reachable hr)).thr.callOK t l1 hl1).2 (by rw [hidle]; rfl)
    rw [hp1] at this
    cases this
  · exact ha

end Flurry.Proto.BinGNP

/-! ## non-vacuity: a stale reader, a queued writer and the SECOND resize suspended mid-transfer, drained -/
namespace Flurry.Proto.BinGNProg
open Flurry.Lin
open Flurry.Proto.BinGN
open Flurry.Proto.BinGNP

/-- run the quiet steps of the listed `(thread, pick)` pairs (`lo = sm = sm2 = false`); `none` if a listed thread is
`idle`, its step is not enabled, or the `pick` restriction of `QStep` is violated -/
def runQuiet : State → List (Nat × Nat) → Option State
  | s, [] => some s
  | s, (t, pick) :: rest =>
    match s.threads[t]? with
    | none => none
    | some l =>
      if l.pc = .idle then none
      else if l.pc = .xNext ∧ allMoved s s.cur = false ∧ cellAt s (s.cur, pick % 2 ^ s.cur) = .moved then none
      else
        match stepQuiet s t false false false pick with
        | none => none
        | some s' => runQuiet s' rest

theorem runQuiet_qrun : ∀ (sc : List (Nat × Nat)) {s s' : State}, runQuiet s sc = some s' → QRun s sc.length s'
  | [], s, s', h => by
    simp only [runQuiet, Option.some.injEq] at h
    subst h
    exact .nil s
  | (t, pick) :: rest, s, s', h => by
    unfold runQuiet at h
    cases hl : s.threads[t]? with
    | none => rw [hl] at h; cases h
    | some l =>
      rw [hl] at h
      dsimp only at h
      by_cases hid : l.pc = .idle
      · rw [if_pos hid] at h; cases h
      · rw [if_neg hid] at h
        by_cases hpk : l.pc = .xNext ∧ allMoved s s.cur = false ∧ cellAt s (s.cur, pick % 2 ^ s.cur) = .moved
        · rw [if_pos hpk] at h; cases h
        · rw [if_neg hpk] at h
          cases hs : stepQuiet s t false false false pick with
          | none => rw [hs] at h; cases h
          | some s1 =>
            rw [hs] at h
            exact .cons ⟨t, l, false, false, false, pick, hl, hid, fun h1 h2 h3 => hpk ⟨h1, h2, h3⟩, hs⟩
              (runQuiet_qrun rest h)

/-- from `midState` (`Lemmas/BinGNProgExamples.lean`: the reader `get(4)` stale by a generation at `rCell false 0`; the
writer `remove(0)` blocked at `tMutex 1 0`; the resizing thread of the SECOND resize suspended at `xStoreMoved`,
holding the mutex): the reader follows the first marker (1 step); the resizer forwards `(1,0)` and releases the mutex
(2); the writer takes the mutex, **fails its re-check**, unlocks and reloads its cell (4); the resizer is handed the
remaining cell `(1,1)` (`pick = 1`), forwards it by CAS, finds every cell forwarded and **commits the resize** (5); the
reader follows two more markers into generation 2 and answers (8); the writer follows the marker, locks the same
`TreeBin` again in generation 2 and removes (9): 29 quiet steps -/
def drainSchedN : List (Nat × Nat) :=
  [(1, 0)] ++ List.replicate 2 (3, 1) ++ List.replicate 4 (2, 0) ++ List.replicate 5 (3, 1) ++
  List.replicate 8 (1, 0) ++ List.replicate 9 (2, 0)

set_option maxRecDepth 65536 in
/-- the run drains the lineage: quiescent, the resize committed (`cur = 2`), both calls answered; its length 29 is
within `gmu = 18193 ≤ drainBound = 71135400768` -/
theorem mid_drained : (midState.bind fun s => (runQuiet s drainSchedN).map fun s' =>
      (quiescentB s', drainSchedN.length, gmu s, gmu s', s'.cur, s'.resizing)) =
    some (true, 29, 18193, 0, 2, false) := by decide

set_option maxRecDepth 65536 in
example : midState.map drainBound = some 71135400768 := by decide

set_option maxRecDepth 65536 in
example : (midState.bind fun s => (runQuiet s drainSchedN).map fun s' =>
      (s'.hist.take 2).map fun x => (x.1, x.2.tid, x.2.res)) =
    some [(0, 2, .some 5 100), (4, 1, .some 6 101)] := by decide

set_option maxRecDepth 65536 in
/-- `gmu` along the first steps of that run: strictly decreasing (the resize commits in step 12) -/
example : ((List.range 12).map fun k => midState.bind fun s => (runQuiet s (drainSchedN.take k)).map gmu) =
    [some 18193, some 18192, some 16997, some 16996, some 16995, some 16994, some 16993, some 16992, some 16989, some 16981,
      some 3460, some 3448] := by decide

/-- the general theorems instantiated at `midState` -/
theorem mid_drains : ∃ s s', midState = some s ∧ Reachable 4 s ∧ s.resizing = true ∧ QRun s 29 s' ∧ quiescent s' ∧
    29 ≤ gmu s ∧ (∀ s'', ¬ QStep s' s'') := by
  have h : (midState.bind fun s => (runQuiet s drainSchedN).map fun s' => quiescentB s') = some true := by
    have := congrArg (Option.map fun x => x.1) mid_drained
    simpa [Option.map_bind, Function.comp_def] using this
  obtain ⟨s, hs, hr, _, _, _, _, _, hz⟩ := midState_spec
  rw [hs] at h
  simp only [Option.bind_some] at h
  cases hs' : runQuiet s drainSchedN with
  | none => rw [hs'] at h; cases h
  | some s' =>
    rw [hs'] at h
    simp only [Option.map_some, Option.some.injEq] at h
    have hrun : QRun s 29 s' := runQuiet_qrun drainSchedN hs'
    have hq : quiescent s' := (quiescentB_iff s').1 h
    have hb : 29 + gmu s' ≤ gmu s := quiet_run_bounded hr hrun
    exact ⟨s, s', hs, hr, hz, hrun, hq, by omega, fun _ => no_qstep_of_quiescent hq⟩

end Flurry.Proto.BinGNProg

