import Flurry.Lemmas.TableGND
/-! # C11 for `Proto/TableGN`, termination: the whole table — list and tree bins, any number of resizes — drains
under ANY schedule (port of the drain part of `Props/C11TableG.lean`)

> Once no new call, treeify or resize is started, every run of the threads in flight — in all lineages together, fair
> or not — is finite and ends with every call answered and every running resize committed.

`Proto/TableGN`: `m` lineages of `Proto/BinGN` on one clock. The per-lineage drain theorem
(`Props/C11BinGNDrain.lean`) is lifted to the table, over **all** reachable table states and **all** schedules.

**Quiet table step** (`TQStep`): a table step with `inv = none`, `mt = none`, `rz = false`, any `lo sm sm2`, of a thread
that is not `idle` in the lineage it steps in, with the scheduler restriction on `pick` of `BinGNP.QStep`: when the
stepping thread is the resizing thread of that lineage at `xNext` and some cell of generation `cur` of that lineage is
not yet forwarded, the cell it is handed, `pick % 2 ^ cur`, is one that is not yet forwarded (without it the theorem is
false, see `Props/C11BinGNDrain.lean`; `tableGN_quiet_run_extends` shows the restriction never disables a thread).

`Gmu S = Σ_i gmu (bins[i])`; `gmu_tick`: `gmu` does not read the clock. Proofs: `Lemmas/TableGND.lean`. -/
namespace Flurry.Proto.TableGND
open Flurry.Lin Flurry.LinMap Flurry.Proto.TableGN Flurry.Proto.TableGNL
open Flurry.Proto.TableN (globalKey)

/-- **the lineage measure does not read the clock**: a tick leaves `gmu` unchanged -/
theorem gmu_tick (b : BinGN.State) : BinGNP.gmu (tick b) = BinGNP.gmu b := rfl

/-- a quiet table step is a quiet step (`BinGNP.QStep`) of one lineage and a tick of every other one -/
theorem tableGN_quiet_step_effect {S S' : State} (h : TQStep S S') :
    ∃ (i : Nat) (b b' : BinGN.State), S.bins[i]? = some b ∧ BinGNP.QStep b b' ∧
      S' = { bins := (S.bins.map tick).set i b' } := h.effect

/-- conversely, a quiet step of a lineage of a reachable table is a quiet step of the table -/
theorem tableGN_quiet_step_of_lineage {m n : Nat} {S : State} (hr : Reachable m n S) {i : Nat} {b b' : BinGN.State}
    (hb : S.bins[i]? = some b) (hq : BinGNP.QStep b b') : TQStep S { bins := (S.bins.map tick).set i b' } :=
  tqstep_of_qstep hr hb hq

/-- **C11.1 for the table: the global measure strictly decreases.** In every reachable table state — resizes may be in
flight in any lineages, threads may be stale by any number of generations — every enabled quiet table step strictly
decreases `Gmu = Σ_i gmu (bins[i])`. -/
theorem tableGN_quiet_step_decreases {m n : Nat} {S S' : State} (hr : Reachable m n S) (h : TQStep S S') :
    Gmu S' < Gmu S := h.gmu_lt hr

/-- `Gmu` is bounded by `DrainBound`, the sum of the lineages' explicit bounds `BinGNP.drainBound` -/
theorem tableGN_Gmu_le_bound {m n : Nat} {S : State} (hr : Reachable m n S) : Gmu S ≤ DrainBound S :=
  Gmu_le_DrainBound hr

/-- **C11.2 for the table: quiet runs are bounded.** `k` quiet table steps from a reachable table `S` have
`k + Gmu S' ≤ Gmu S`; in particular `k ≤ Gmu S ≤ DrainBound S`. -/
theorem tableGN_quiet_run_bounded {m n : Nat} {S S' : State} {k : Nat} (hr : Reachable m n S) (h : TQRun S k S') :
    k + Gmu S' ≤ Gmu S ∧ k ≤ DrainBound S := by
  have h1 := tqrun_bounded hr h
  have h2 := Gmu_le_DrainBound hr
  exact ⟨h1, by omega⟩

/-- a quiet run that has not reached a quiescent table can be extended by a legal quiet step
(`BinGNP.qstep_of_not_quiescent` lifted: the `pick` restriction never disables the resizing thread) -/
theorem tableGN_quiet_run_extends {m n : Nat} {S S' : State} {k : Nat} (hr : Reachable m n S) (h : TQRun S k S')
    (hq : ¬ quiescent S') : ∃ S'', TQRun S (k + 1) S'' := by
  obtain ⟨S'', h''⟩ := tqstep_of_not_quiescent (h.reachable hr) hq
  exact ⟨S'', h.snoc h''⟩

/-- **C11.3 for the table: every maximal quiet run drains the table.** From every reachable table, ANY sequence of quiet
table steps that cannot be extended ends in a QUIESCENT table — every thread `idle` in every lineage: all calls answered,
all treeifies done, all running resizes committed — after at most `Gmu S ≤ DrainBound S` steps. No fairness assumption. -/
theorem tableGN_drains {m n : Nat} {S S' : State} {k : Nat} (hr : Reachable m n S) (h : TQRun S k S')
    (hmax : ∀ S'', ¬ TQStep S' S'') : quiescent S' ∧ k ≤ Gmu S ∧ k ≤ DrainBound S := by
  have h1 := tqrun_bounded hr h
  have h2 := Gmu_le_DrainBound hr
  exact ⟨tqrun_maximal_quiescent hr h hmax, by omega, by omega⟩

/-- a quiescent table is where quiet runs stop: maximal ⇔ quiescent -/
theorem tableGN_quiescent_iff_maximal {m n : Nat} {S : State} (hr : Reachable m n S) :
    quiescent S ↔ ∀ S', ¬ TQStep S S' :=
  ⟨fun hq _ => no_tqstep_of_quiescent hq, fun h => tqrun_maximal_quiescent hr (.nil S) h⟩

/-- from every reachable table some quiet run reaches a quiescent table, within `Gmu S` steps -/
theorem tableGN_drain_exists {m n : Nat} {S : State} (hr : Reachable m n S) :
    ∃ k S', TQRun S k S' ∧ quiescent S' ∧ k ≤ Gmu S := by
  obtain ⟨k, S', h, hq⟩ := tdrain_exists (Gmu S) hr (Nat.le_refl _)
  have := tqrun_bounded hr h
  exact ⟨k, S', h, hq, by omega⟩

/-- there is no infinite execution of the table in which no new call / treeify / resize is started and only threads that
are not `idle` (where they step) take (legal) steps -/
theorem tableGN_no_infinite_quiet_run {m n : Nat} {S : State} (hr : Reachable m n S) (f : Nat → State)
    (h0 : f 0 = S) : ¬ ∀ i, TQStep (f i) (f (i + 1)) := fun h => no_infinite_tqrun hr f h0 h

/-- **C11.4 for the table: every call returns.** For a thread `t` with the call `p` (on local key `p.key`, i.e. key
`globalKey m j p.key = j + m * p.key` of the table) in flight in lineage `j` of a reachable table `S`: at the end of any
maximal quiet run from `S` the call has been answered — the history of the MAP has an entry with the thread, key of the
table, operation and invocation time of `p`. -/
theorem tableGN_every_call_returns {m n : Nat} {S S' : State} {k : Nat} (hr : Reachable m n S) (h : TQRun S k S')
    (hmax : ∀ S'', ¬ TQStep S' S'') {j t : Nat} {bj : BinGN.State} {l : BinGN.Local} {p : BinGN.Pending}
    (hj : S.bins[j]? = some bj) (hl : bj.threads[t]? = some l) (hp : l.call = some p) :
    ∃ res resp, (⟨globalKey m j p.key, { tid := t, op := p.op, res := res, inv := p.inv, resp := resp }⟩ : MCall) ∈
      mhist S' := by
  have hq := tqrun_maximal_quiescent hr h hmax
  obtain ⟨bj', hj', hpa⟩ := tqrun_pendOrAns hr h hj (Or.inl ⟨l, hl, hp⟩)
  have I' := reachable_tblInv (h.reachable hr)
  have hrb := I'.reach j bj' hj'
  have := answered_mhist hj' (answered_of_quiescent hrb (hq bj' (List.mem_of_getElem? hj')) hpa)
  rw [I'.len] at this
  exact this

end Flurry.Proto.TableGND
