import Flurry.Proto.TableG
import Flurry.Props.C01BinG
import Flurry.Props.C01Local
import Flurry.Lemmas.TableG
import Flurry.Lemmas.TableGExamples
/-! # C01 (table level, across a resize): ONE sequential order of ALL calls on ALL keys

`Proto/TableG`: a whole table that is resized once. `m` lineages, each a `Proto/BinG` lineage — the
cell `i` of the old table, the cells `i` and `i + m` of the next table; every cell empty / a list bin /
a tree bin with both conversions, lock-free readers, iterators, locked writers; `transfer` of the old
cell whatever it holds, the forwarding marker, the commit of the table pointer. Key `k` lives in
lineage `(k / 2) % m` (`lineageOf`; the hash is the key, bit 0 decides low / high at the resize —
`BinG.hiBit` — and the bits above it select the bin). Any number of threads, a thread inside at most
one lineage at a time (so a thread transfers the lineages one at a time; different lineages may be
transferred by different threads), one clock shared by all lineages. The table pointer is modelled per
lineage, which over-approximates the single pointer of the code (the `xCommit`s of all lineages may
happen consecutively when the real `table := next` happens; see the header of `Proto/TableG.lean`).
The history of the table is the history of the *map* (`LinMap.MHistory`): the calls on all keys of all
lineages, with comparable times.

How the lineage-level theorem lifts: the clock of a lineage in which nothing happens advances by a
`tick`, and a tick is *itself* a transition of `Proto/BinG` — the step of a thread that is idle in that
lineage and starts nothing (`tableG_tick_is_lineage_step`); `TableG.step` lets a thread act in a
lineage only while it is idle in all others. So every lineage of a reachable table is literally
`BinG.Reachable` (`tableG_lineage_reachable`) and `binG_linearizable_quiescent` applies to it as it
stands. Keys stay in their own lineage (`tableG_key_in_own_lineage`), so the projection of the map
history on key `k` IS the per-key history of lineage `lineageOf m k` (`tableG_proj_eq`); locality
(`C01.locality`) does the rest. Proofs: `Lemmas/TableG.lean`, `Lemmas/TableGExamples.lean`. -/
namespace Flurry.Proto.TableG
open Flurry.Lin Flurry.LinMap

/-- the table keeps its number of lineages -/
theorem bins_length {m n : Nat} {S : State} (hr : Reachable m n S) : S.bins.length = m :=
  (reachable_tblInv hr).len

/-- the lineage of a key agrees with the split bit of `Proto/BinG`: bit 0 of the key is `BinG.hiBit`
(low / high cell of the lineage), the bits above it select the lineage — key `k` is in cell
`lineageOf m k` of the old table and in cell `lineageOf m k + (if hiBit k then m else 0)` of the next
one, which is `(k / 2) % m + m * (k % 2)` -/
theorem lineage_and_side (m k : Nat) :
    lineageOf m k = (k / 2) % m ∧ BinG.hiBit k = (k % 2 == 1) ∧
    lineageOf m k + (if BinG.hiBit k then m else 0) = (k / 2) % m + m * (k % 2) :=
  lineage_and_side_aux m k

/-- a tick (the clock of a lineage advances while a thread acts elsewhere) is a transition of the
lineage: the step of a thread that is idle there and starts nothing (no call, no treeify, no resize) -/
theorem tableG_tick_is_lineage_step {b : BinG.State} {t : Nat} (h : idleIn b t = true) :
    BinG.step b t none false none false false false = some (tick b) := tick_is_step h

/-- every lineage of a reachable table is a reachable `Proto/BinG` lineage: all lineage-level theorems
(`binG_inv`, `binG_linearizable`, `transfer_abs_invariant`, `quiescent_tree_eq_list`, …) hold for it -/
theorem tableG_lineage_reachable {m n : Nat} {S : State} (hr : Reachable m n S) {i : Nat} {b : BinG.State}
    (hb : S.bins[i]? = some b) : BinG.Reachable n b := (reachable_tblInv hr).reach i b hb

/-- every call recorded in lineage `i` is on a key of lineage `i` -/
theorem tableG_key_in_own_lineage {m n : Nat} {S : State} (hr : Reachable m n S) {i : Nat} {b : BinG.State}
    (hb : S.bins[i]? = some b) {k : Nat} {c : Call} (hc : (k, c) ∈ b.hist) : lineageOf m k = i :=
  ((reachable_tblInv hr).keys i b hb).hist (k, c) hc

/-- … and so is every call in flight in lineage `i` -/
theorem tableG_pending_in_own_lineage {m n : Nat} {S : State} (hr : Reachable m n S) {i : Nat} {b : BinG.State}
    (hb : S.bins[i]? = some b) {t : Nat} {l : BinG.Local} {p : BinG.Pending}
    (hl : b.threads[t]? = some l) (hp : l.call = some p) : lineageOf m p.key = i :=
  ((reachable_tblInv hr).keys i b hb).pend t l p hl hp

/-- calls on a key of another lineage never appear in a lineage's history -/
theorem tableG_other_lineage_silent {m n : Nat} {S : State} (hr : Reachable m n S) {i : Nat} {b : BinG.State}
    (hb : S.bins[i]? = some b) {k : Nat} (hk : lineageOf m k ≠ i) : BinG.callsOn b k = [] :=
  callsOn_other_bin (reachable_tblInv hr) hb hk

/-- a thread is active in at most one lineage: of two different lineages it is idle in one (in
particular a thread is in the middle of the transfer of at most one lineage) -/
theorem tableG_one_lineage_per_thread {m n : Nat} {S : State} (hr : Reachable m n S) {t i j : Nat}
    {bi bj : BinG.State} {li lj : BinG.Local} (hne : i ≠ j) (hi : S.bins[i]? = some bi) (hj : S.bins[j]? = some bj)
    (hli : bi.threads[t]? = some li) (hlj : bj.threads[t]? = some lj) : li.pc = .idle ∨ lj.pc = .idle :=
  reachable_oneBin hr t i j bi bj li lj hne hi hj hli hlj

/-- no call responds before it is invoked (one clock for all lineages) -/
theorem tableG_inv_le_resp {m n : Nat} {S : State} (hr : Reachable m n S) :
    ∀ c ∈ mhist S, c.call.inv ≤ c.call.resp := mhist_wf hr

/-- the projection of the map history on key `k` is — as a list — the per-key history of lineage
`lineageOf m k` -/
theorem tableG_proj_eq {m n : Nat} {S : State} (hr : Reachable m n S) {k : Nat} {b : BinG.State}
    (hb : S.bins[lineageOf m k]? = some b) : proj (mhist S) k = BinG.callsOn b k :=
  proj_mhist (reachable_tblInv hr) hb

/-- per key, in every reachable state (completed calls plus writers past their linearization point) -/
theorem tableG_key_linearizable_ext {m n : Nat} {S : State} (hr : Reachable m n S) {k : Nat} {b : BinG.State}
    (hb : S.bins[lineageOf m k]? = some b) : Lin.Linearizable (BinG.callsOnExt b k) none (BinG.absOf b k) :=
  BinG.binG_linearizable (tableG_lineage_reachable hr hb) k

/-- per key, at quiescence -/
theorem tableG_key_linearizable {m n : Nat} (hm : 0 < m) {S : State} (hr : Reachable m n S) (hq : quiescent S)
    (k : Nat) : Lin.Linearizable (proj (mhist S) k) none (absMap S k) :=
  tableG_key_linearizable_aux hm hr hq k

/-- **C01 for a whole table across its resize: ONE sequential order of ALL calls on ALL keys** respects
real time and replays through the sequential specification of a map, from the empty map to the
abstract map of the table. -/
theorem tableG_map_linearizable {m n : Nat} (hm : 0 < m) {S : State} (hr : Reachable m n S) (hq : quiescent S) :
    LinMap.MapLinearizable (mhist S) (fun _ => none) (absMap S) :=
  tableG_map_linearizable_aux hm hr hq

/-- non-vacuity (`Lemmas/TableGExamples.lean`): two lineages, two threads, 100 transitions. Before the
resize: `ins 1`, `ins 0` (lineage 0) overlap `ins 2`, `ins 3` (lineage 1, then treeified). Lineage 0 is
transferred by thread 0 (list split) with thread 1's `get 0` (38–49) walking the old list across the
three stores and the commit;
then, with lineage 0 committed and lineage 1 not yet forwarded, thread 0's `ins 3` (50–59) completes in
the old table of lineage 1 while thread 1 starts its transfer (tree-bin split into two fresh
`TreeBin`s). After the resize: `get 1`, `rm 2`, `ins 5`, `get 3`. The state is reachable and quiescent,
BOTH lineages are forwarded (`cell0 = moved`) and committed (`cur = new`), the history has keys of both
lineages and both `hiBit` values, and it is map-linearizable -/
example : ∃ S : State, Reachable 2 2 S ∧ quiescent S ∧
    mhist S = [ ⟨1, ⟨0, .ins 10 100, .none, 1, 5⟩⟩, ⟨0, ⟨0, .ins 30 300, .none, 9, 26⟩⟩,
                ⟨0, ⟨1, .get, .some 30 300, 38, 49⟩⟩, ⟨1, ⟨0, .get, .some 10 100, 68, 72⟩⟩,
                ⟨5, ⟨1, .ins 50 500, .none, 83, 92⟩⟩,
                ⟨2, ⟨1, .ins 20 200, .none, 2, 8⟩⟩, ⟨3, ⟨1, .ins 40 400, .none, 10, 18⟩⟩,
                ⟨3, ⟨0, .ins 41 401, .some 40 400, 50, 59⟩⟩, ⟨2, ⟨1, .rm, .some 20 200, 69, 82⟩⟩,
                ⟨3, ⟨0, .get, .some 41 401, 84, 100⟩⟩ ] ∧
    (List.range 6).map (absMap S) = [some (30, 300), some (10, 100), none, some (41, 401), none, some (50, 500)] ∧
    S.bins.map (fun b => (b.cell0, b.lowCell, b.highCell, b.cur, b.resizing, b.now)) =
      [(.moved, .list 1, .list 2, .new, true, 100), (.moved, .tree 1, .tree 2, .new, true, 100)] ∧
    LinMap.MapLinearizable (mhist S) (fun _ => none) (absMap S) := by
  obtain ⟨S, hr, hq, hh, ha, hs⟩ := example_state
  exact ⟨S, hr, hq, hh, ha, hs, tableG_map_linearizable (by decide) hr hq⟩

/-- during the transfer of lineage 0 (clock 45): low cell, high cell and the forwarding marker are
stored, `cur` is still the old table, the reader stands on node 0 of the old list -/
example : exDuring = true := example_during

/-- in the middle of that run (clock 50): lineage 0 is forwarded and committed, lineage 1 is untouched
(its old cell holds the `TreeBin`, its table pointer is the old one) and thread 0 has been invoked there -/
example : exBetween = true := example_between

/-- the model refuses a call on a key of another lineage (key 2 is in lineage 1, key 1 in lineage 0),
a treeify named by a key of another lineage, and a thread that is busy in another lineage — with a
call, or in the middle of a transfer; another thread may transfer another lineage meanwhile -/
example : (step (init 2 2) 0 0 (some (2, .ins 1 1)) false none false false false).isNone = true ∧
    (step (init 2 2) 1 0 (some (1, .ins 1 1)) false none false false false).isNone = true ∧
    (step (init 2 2) 0 0 none false (some 3) false false false).isNone = true ∧
    (run (init 2 2) (call 0 0 1 (.ins 1 1) ++ call 1 0 2 .get)).isNone = true ∧
    (run (init 2 2) (resize 0 0 ++ go 0 0 1 ++ resize 1 0)).isNone = true ∧
    (run (init 2 2) (resize 0 0 ++ go 0 0 1 ++ resize 1 1 ++ go 1 1 1 ++ go 0 0 1)).isSome = true :=
  example_refused

end Flurry.Proto.TableG
