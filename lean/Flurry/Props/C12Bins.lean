import Flurry.Lemmas.C12BinTRun
import Flurry.Lemmas.C12BinXRun
/-! # C12 at the bin level: reads never block and finish in a bounded number of their own steps

> `get`, `get_key_value`, `contains_key` … never acquire a bin lock and never wait for a writer: a
> reader finishes in a bounded number of its own steps even while any other thread is suspended at an
> arbitrary point — including while holding a bin lock, while holding or waiting for a tree bin's
> write lock, or in the middle of moving a bin.

Proved here for the two small-step bin models, over **all** reachable states (any number of threads,
any number of steps, any interleaving — the other threads are "suspended at an arbitrary point" simply
because the theorems quantify over every reachable state and then move only thread `t`):

* `Proto/BinT` (a tree bin: list + tree + read/write lock word + bin mutex), this namespace;
* `Proto/BinX` (a list bin under resize: old cell / forwarding marker / new cells), below.

For each model:
1. `reader_step_enabled` — the step of a thread at a reader pc is enabled in every reachable state, for
   every value of the scheduler's arguments (no state of the other threads — holding the mutex, holding
   the write lock, parked with `WAITER` set, mid-transfer — disables it);
2. `reader_step_frame` — that step takes no lock: it leaves the mutex / the lock bits / the heap (hence
   every node's lock word) / the cells and all other threads untouched;
3. `reader_solo_terminates` — running alone (`runSolo`), the reader is `idle` again, with its call
   appended to `hist`, after at most `soloBound s` steps, an explicit function of the heap size only;
4. non-vacuity examples: a concrete reachable state with a writer suspended while holding the write
   lock (BinT) / mid-transfer holding the bin lock (BinX), and the suspended-writer run of the reader
   evaluated by `decide`. -/
namespace Flurry.Proto.BinT
open Flurry.Lin

/-- thread `t` runs alone for `k` steps; `none` if one of these steps is not enabled -/
def runSolo (t : Nat) (bal : Bool) : Nat → State → Option State
  | 0, s => some s
  | k + 1, s =>
    match step s t none bal with
    | some s' => runSolo t bal k s'
    | none => none

/-- what a reader's steps leave alone: the heap, `first`, the bin mutex, the `WRITER` and `WAITER`
bits, and every other thread (only `readers`, its own local state, the clock and `hist` change) -/
structure Frame (t : Nat) (s s' : State) : Prop where
  heap : s'.heap = s.heap
  first : s'.first = s.first
  mutex : s'.mutex = s.mutex
  writer : s'.writer = s.writer
  waiter : s'.waiter = s.waiter
  others : ∀ t', t' ≠ t → s'.threads[t']? = s.threads[t']?

theorem Frame.refl (t : Nat) (s : State) : Frame t s s := ⟨rfl, rfl, rfl, rfl, rfl, fun _ _ => rfl⟩

theorem Frame.trans {t : Nat} {s1 s2 s3 : State} (a : Frame t s1 s2) (b : Frame t s2 s3) : Frame t s1 s3 :=
  ⟨b.heap.trans a.heap, b.first.trans a.first, b.mutex.trans a.mutex, b.writer.trans a.writer,
    b.waiter.trans a.waiter, fun t' h => (b.others t' h).trans (a.others t' h)⟩

/-- **C12.1, tree bin: a reader's step is never disabled.** In every reachable state, for every
thread at a reader pc (`rFirst, rState, rLin, rCas, rTree, rRelease, rVal`) and both values of `bal`
(and any `inv`), the step of that thread is enabled. -/
theorem reader_step_enabled {n : Nat} {s : State} (hr : Reachable n s) {t : Nat} {l : Local}
    (hl : s.threads[t]? = some l) (hrd : readerPc l.pc = true) (inv : Option (Nat × KOp)) (bal : Bool) :
    (step s t inv bal).isSome = true := by
  obtain ⟨p, s', -, hs, -⟩ := reader_step hr hl hrd inv bal
  rw [hs]; rfl

/-- **C12.2, tree bin: a reader takes no lock.** A step of a thread at a reader pc leaves the mutex,
the `WRITER`/`WAITER` bits, the heap, `first` and all other threads as they are (no reachability
assumption needed). -/
theorem reader_step_frame {s s' : State} {t : Nat} {l : Local} (hl : s.threads[t]? = some l)
    (hrd : readerPc l.pc = true) {inv : Option (Nat × KOp)} {bal : Bool} (hs : step s t inv bal = some s') :
    Frame t s s' := by
  have hoth : ∀ (ths : List Local) (l' : Local) (t' : Nat), t' ≠ t → (ths.set t l')[t']? = ths[t']? :=
    fun ths l' t' h => get_set_ne h
  have hk := step_stepK hl hs
  cases hk with
  | idle hpc => rw [hpc] at hrd; cases hrd
  | invoke k op hpc => rw [hpc] at hrd; cases hrd
  | move p pc' m w a r hp hm =>
    have h3 : m = s.mutex ∧ w = s.writer ∧ a = s.waiter := by
      generalize l.pc = pc at hm hrd
      cases hm <;> first | exact ⟨rfl, rfl, rfl⟩ | cases hrd
    obtain ⟨rfl, rfl, rfl⟩ := h3
    exact ⟨rfl, rfl, rfl, rfl, rfl, fun t' h => hoth _ _ t' h⟩
  | fin p res m r hp hf =>
    have h1 : m = s.mutex := by
      generalize l.pc = pc at hf hrd
      cases hf <;> first | rfl | cases hrd
    subst h1
    exact ⟨rfl, rfl, rfl, rfl, rfl, fun t' h => hoth _ _ t' h⟩
  | val p i v res hp hpc => rw [hpc] at hrd; cases hrd
  | prepend p v vi hp hpc hop => rw [hpc] at hrd; cases hrd
  | treeLink p x bal hp hpc => rw [hpc] at hrd; cases hrd
  | unlink p i res hp hpc => rw [hpc] at hrd; cases hrd
  | untree p i res hp hpc => rw [hpc] at hrd; cases hrd
  | dead p i res s' hp hpc => rw [hpc] at hrd; cases hrd

/-- the induction behind `reader_solo_terminates`: `mu` bounds the number of solo steps -/
theorem solo_aux {n : Nat} {t : Nat} (bal : Bool) : ∀ (m : Nat) {s : State} {l : Local} {p : Pending},
    Reachable n s → s.threads[t]? = some l → readerPc l.pc = true → l.call = some p → mu s l.pc ≤ m →
    ∃ k, k ≤ m ∧ ∃ s' res resp, runSolo t bal k s = some s' ∧ Reachable n s' ∧ Frame t s s' ∧
      s'.threads[t]? = some { pc := .idle, call := none } ∧
      s'.hist = (p.key, { tid := t, op := p.op, res := res, inv := p.inv, resp := resp }) :: s.hist
  | 0, s, l, p, _, _, hrd, _, hm => by
    have := mu_pos (s := s) hrd
    omega
  | m + 1, s, l, p, hr, hl, hrd, hp, hm => by
    obtain ⟨p', s1, hp', hs, ho⟩ := reader_step hr hl hrd none bal
    rw [hp] at hp'
    cases hp'
    have hr1 : Reachable n s1 := Reachable.step t none bal hr hs
    have hf1 : Frame t s s1 := reader_step_frame hl hrd hs
    rcases ho with ⟨hidle, res, hh⟩ | ⟨pc', hl1, hrd1, hh1, hmu⟩
    · refine ⟨1, by omega, s1, res, _, ?_, hr1, hf1, hidle, hh⟩
      simp only [runSolo, hs]
    · obtain ⟨k, hk, s', res, resp, hrun, hr', hf', hidle, hh⟩ :=
        solo_aux bal m (p := p) hr1 hl1 hrd1 rfl (by show mu s1 pc' ≤ m; omega)
      refine ⟨k + 1, by omega, s', res, resp, ?_, hr', hf1.trans hf', hidle, ?_⟩
      · simp only [runSolo, hs]; exact hrun
      · rw [hh, hh1]

/-- **C12.3, tree bin: bounded own steps.** From every reachable state, a thread at a reader pc that
runs alone — all other threads suspended wherever they are: holding the bin mutex, holding the write
lock, parked with `WAITER` set — has returned (`idle`, its call appended to `hist`) after at most
`soloBound s = 2 * s.heap.length + 5` of its own steps, all of them enabled, and has touched neither
the mutex nor the `WRITER`/`WAITER` bits nor the heap nor any other thread. -/
theorem reader_solo_terminates {n : Nat} {s : State} (hr : Reachable n s) {t : Nat} {l : Local}
    (hl : s.threads[t]? = some l) (hrd : readerPc l.pc = true) (bal : Bool) :
    ∃ k, k ≤ soloBound s ∧ ∃ s' p res resp, l.call = some p ∧ runSolo t bal k s = some s' ∧
      Frame t s s' ∧ s'.threads[t]? = some { pc := .idle, call := none } ∧
      s'.hist = (p.key, { tid := t, op := p.op, res := res, inv := p.inv, resp := resp }) :: s.hist := by
  obtain ⟨p, _, hp, _, _⟩ := reader_step hr hl hrd none bal
  obtain ⟨k, hk, s', res, resp, hrun, _, hf, hidle, hh⟩ :=
    solo_aux (n := n) bal (soloBound s) hr hl hrd hp (mu_le_soloBound ((reachable_rinv hr).bound t l hl))
  exact ⟨k, hk, s', p, res, resp, hp, hrun, hf, hidle, hh⟩

/-- the `bal` argument is irrelevant for a reader -/
theorem reader_step_bal {s : State} {t : Nat} {l : Local} (hl : s.threads[t]? = some l)
    (hrd : readerPc l.pc = true) (inv : Option (Nat × KOp)) (b b' : Bool) : step s t inv b = step s t inv b' := by
  unfold step stepG
  rw [hl]
  obtain ⟨pc, call⟩ := l
  cases call <;> cases pc <;> first | rfl | (rename_i c; cases c <;> rfl) | cases hrd

/-! ## non-vacuity: a writer suspended while holding the write lock -/

/-- run a schedule of `(thread, invocation, bal)` triples; `none` if some step is not enabled -/
def runSched (s : State) : List (Nat × Option (Nat × KOp) × Bool) → Option State
  | [] => some s
  | (t, inv, bal) :: rest =>
    match step s t inv bal with
    | some s' => runSched s' rest
    | none => none

theorem runSched_reachable {n : Nat} : ∀ (sched : List (Nat × Option (Nat × KOp) × Bool)) {s s' : State},
    Reachable n s → runSched s sched = some s' → Reachable n s'
  | [], s, s', hr, h => by
    simp only [runSched, Option.some.injEq] at h
    exact h ▸ hr
  | (t, inv, bal) :: rest, s, s', hr, h => by
    simp only [runSched] at h
    cases hs : step s t inv bal with
    | none => rw [hs] at h; cases h
    | some s1 =>
      rw [hs] at h
      exact runSched_reachable rest (Reachable.step t inv bal hr hs) h

/-- thread 0: `ins 1` that has to rebalance — mutex, find, prepend node 0, tree link, `lock_root`
succeeds: suspended at `wRestructure` **holding the write lock and the mutex**; thread 2: `rm 1` —
suspended at `wMutex`, **waiting for the bin lock**; thread 1: `get 1` — loads `first`, stands on
node 0 at `rState`. -/
def lockedSchedule : List (Nat × Option (Nat × KOp) × Bool) :=
  [ (0, some (1, .ins 10 100), false), (0, none, false), (0, none, false), (0, none, false),
    (0, none, true), (0, none, false),
    (2, some (1, .rm), false),
    (1, some (1, .get), false), (1, none, false) ]

/-- the state after `lockedSchedule` (an `Option`; `lockedState_spec` shows it is `some`) -/
def lockedState : Option State := runSched (init 3) lockedSchedule

/-- the premises of the theorems are satisfiable by a state with a writer inside the write lock -/
theorem lockedState_spec : ∃ s, lockedState = some s ∧ Reachable 3 s ∧
    s.threads[0]? = some { pc := .wRestructure none .none, call := some ⟨1, .ins 10 100, 1⟩ } ∧
    s.threads[2]? = some { pc := .wMutex, call := some ⟨1, .rm, 7⟩ } ∧
    s.threads[1]? = some { pc := .rState (some 0), call := some ⟨1, .get, 8⟩ } ∧
    s.writer = true ∧ s.mutex = some 0 := by
  have h : (lockedState.map fun s => (s.threads, s.writer, s.mutex)) =
      some ([ { pc := .wRestructure none .none, call := some ⟨1, .ins 10 100, 1⟩ },
              { pc := .rState (some 0), call := some ⟨1, .get, 8⟩ },
              { pc := .wMutex, call := some ⟨1, .rm, 7⟩ } ], true, some 0) := by decide
  cases hs : lockedState with
  | none => rw [hs] at h; cases h
  | some s =>
    rw [hs] at h
    simp only [Option.map_some, Option.some.injEq, Prod.mk.injEq] at h
    obtain ⟨h1, h2, h3⟩ := h
    refine ⟨s, rfl, runSched_reachable lockedSchedule Reachable.init hs, ?_, ?_, ?_, h2, h3⟩ <;> rw [h1] <;> rfl

/-- … and the reader, running alone against the suspended writer, answers `some (10, 100)` in 3 steps
(`rState` sees `WRITER`; one linear step finds the key; the value load) — within `soloBound = 7` -/
example : (lockedState.bind fun s => (runSolo 1 false 3 s).map fun s' =>
      (decide (3 ≤ soloBound s), s'.threads[1]?, s'.hist.head?)) =
    some (true, some { pc := .idle, call := none },
      some (1, { tid := 1, op := .get, res := .some 10 100, inv := 8, resp := 12 })) := by decide

/-- … while the writer still holds the write lock and the mutex, where it was suspended -/
example : (lockedState.bind fun s => (runSolo 1 false 3 s).map fun s' =>
      (s'.writer, s'.mutex, s'.threads[0]?)) =
    some (true, some 0,
      some { pc := .wRestructure none .none, call := some ⟨1, .ins 10 100, 1⟩ }) := by decide

/-- the general theorem instantiated at this state -/
example : ∃ s, lockedState = some s ∧ ∃ k, k ≤ soloBound s ∧ ∃ (s' : State) (p : Pending) (res : KRes) (resp : Nat), runSolo 1 false k s = some s' ∧
    s'.threads[1]? = some { pc := .idle, call := none } ∧ s'.writer = true ∧ s'.mutex = some 0 ∧
    s'.hist = (p.key, { tid := 1, op := p.op, res := res, inv := p.inv, resp := resp }) :: s.hist := by
  obtain ⟨s, hs, hr, _, _, h1, hw, hm⟩ := lockedState_spec
  obtain ⟨k, hk, s', p, res, resp, _, hrun, hf, hidle, hh⟩ := reader_solo_terminates hr h1 rfl false
  exact ⟨s, hs, k, hk, s', p, res, resp, hrun, hidle, hf.writer.trans hw, hf.mutex.trans hm, hh⟩

/-! ## non-vacuity: a writer parked with `WAITER` set, behind a reader that holds the read lock -/

/-- thread 0: `ins 1`, complete; thread 1: `get 1` — takes the read lock and is suspended at `rTree`;
thread 2: `rm 1` — mutex, find, `lock_root` fails, sets `WAITER` and is **parked** at `lrLoop` (its step
is not enabled while the reader remains); thread 3: `get 1` — stands on node 0 at `rState`. -/
def parkedSchedule : List (Nat × Option (Nat × KOp) × Bool) :=
  [ (0, some (1, .ins 10 100), false), (0, none, false), (0, none, false), (0, none, false),
    (0, none, false), (0, none, false),
    (1, some (1, .get), false), (1, none, false), (1, none, false), (1, none, false),
    (2, some (1, .rm), false), (2, none, false), (2, none, false), (2, none, false), (2, none, false),
    (3, some (1, .get), false), (3, none, false) ]

def parkedState : Option State := runSched (init 4) parkedSchedule

example : (parkedState.map fun s => (s.threads, s.waiter, s.readers)) =
    some ([ { pc := .idle, call := none }, { pc := .rTree, call := some ⟨1, .get, 7⟩ },
            { pc := .lrLoop (some 0) (.some 10 100), call := some ⟨1, .rm, 11⟩ },
            { pc := .rState (some 0), call := some ⟨1, .get, 16⟩ } ], true, 1) := by decide

/-- the parked *writer* cannot move … -/
example : (parkedState.map fun s => (step s 2 none false).isSome) = some false := by decide

/-- … the reader can, and returns after 3 of its own steps (it sees `WAITER` and walks the list) -/
example : (parkedState.bind fun s => (runSolo 3 false 3 s).map fun s' =>
      (decide (3 ≤ soloBound s), s'.threads[3]?, s'.hist.head?)) =
    some (true, some { pc := .idle, call := none },
      some (1, { tid := 3, op := .get, res := .some 10 100, inv := 16, resp := 20 })) := by decide

end Flurry.Proto.BinT

/-! # The list bin under resize (`Proto/BinX`) -/
namespace Flurry.Proto.BinX
open Flurry.Lin

/-- thread `t` runs alone for `k` steps; `none` if one of these steps is not enabled -/
def runSolo (t : Nat) (rz : Bool) : Nat → State → Option State
  | 0, s => some s
  | k + 1, s =>
    match step s t none rz with
    | some s' => runSolo t rz k s'
    | none => none

/-- what a reader's steps leave alone: the heap (so every node's lock word, value and `next`), the
three bin cells, the table pointer, the resize flag, and every other thread (only its own local
state, the clock and `hist` change) -/
structure Frame (t : Nat) (s s' : State) : Prop where
  heap : s'.heap = s.heap
  cell0 : s'.cell0 = s.cell0
  lowCell : s'.lowCell = s.lowCell
  highCell : s'.highCell = s.highCell
  cur : s'.cur = s.cur
  resizing : s'.resizing = s.resizing
  others : ∀ t', t' ≠ t → s'.threads[t']? = s.threads[t']?

theorem Frame.refl (t : Nat) (s : State) : Frame t s s := ⟨rfl, rfl, rfl, rfl, rfl, rfl, fun _ _ => rfl⟩

theorem Frame.trans {t : Nat} {s1 s2 s3 : State} (a : Frame t s1 s2) (b : Frame t s2 s3) : Frame t s1 s3 :=
  ⟨b.heap.trans a.heap, b.cell0.trans a.cell0, b.lowCell.trans a.lowCell, b.highCell.trans a.highCell,
    b.cur.trans a.cur, b.resizing.trans a.resizing, fun t' h => (b.others t' h).trans (a.others t' h)⟩

/-- **C12.1, list bin under resize: a reader's step is never disabled.** In every reachable state,
for every thread at a reader pc (`rTable`, `rCell tab` — including the hop through the forwarding
marker into the new table —, `rNode cur`) and both values of `resize` (and any `inv`), the step of
that thread is enabled. -/
theorem reader_step_enabled {n : Nat} {s : State} (hr : Reachable n s) {t : Nat} {l : Local}
    (hl : s.threads[t]? = some l) (hrd : readerPc l.pc = true) (inv : Option (Nat × KOp)) (resize : Bool) :
    (step s t inv resize).isSome = true := by
  obtain ⟨p, s', -, hs, -⟩ := reader_step hr hl hrd inv resize
  rw [hs]; rfl

/-- **C12.2, list bin under resize: a reader takes no lock and stores nothing.** A step of a thread at
a reader pc leaves the heap (hence all lock words), the cells, the table pointer and all other threads
as they are (no reachability assumption needed). -/
theorem reader_step_frame {s s' : State} {t : Nat} {l : Local} (hl : s.threads[t]? = some l)
    (hrd : readerPc l.pc = true) {inv : Option (Nat × KOp)} {resize : Bool}
    (hs : step s t inv resize = some s') : Frame t s s' := by
  have hoth : ∀ (ths : List Local) (l' : Local) (t' : Nat), t' ≠ t → (ths.set t l')[t']? = ths[t']? :=
    fun ths l' t' h => get_set_ne h
  have hk := step_stepK hl hs
  cases hk with
  | idle hpc => rw [hpc] at hrd; cases hrd
  | invoke k op hpc => rw [hpc] at hrd; cases hrd
  | resize hpc hr => rw [hpc] at hrd; cases hrd
  | move p pc' hp hm => exact ⟨rfl, rfl, rfl, rfl, rfl, rfl, fun t' h => hoth _ _ t' h⟩
  | tmove pc' hp hm => exact ⟨rfl, rfl, rfl, rfl, rfl, rfl, fun t' h => hoth _ _ t' h⟩
  | lockMove p h x pc' hp hm =>
    exfalso
    generalize l.pc = pc0 at hm hrd
    cases hm <;> cases hrd
  | tlockMove h x pc' hp hm =>
    exfalso
    generalize l.pc = pc0 at hm hrd
    cases hm <;> cases hrd
  | fin p res hp hf => exact ⟨rfl, rfl, rfl, rfl, rfl, rfl, fun t' h => hoth _ _ t' h⟩
  | cas p tab v vi hp hpc hc hop => rw [hpc] at hrd; cases hrd
  | store p tab h pred hit hnext hp hpc => rw [hpc] at hrd; cases hrd
  | unlockFin p tab h res hp hpc => rw [hpc] at hrd; cases hrd
  | casMoved hp hpc hc0 => rw [hpc] at hrd; cases hrd
  | build h hp hpc => rw [hpc] at hrd; cases hrd
  | storeLow h lo hg hp hpc => rw [hpc] at hrd; cases hrd
  | storeHigh h hg hp hpc => rw [hpc] at hrd; cases hrd
  | storeMoved h hp hpc => rw [hpc] at hrd; cases hrd
  | commit hp hpc => rw [hpc] at hrd; cases hrd

/-- the induction behind `reader_solo_terminates`: `mu` bounds the number of solo steps -/
theorem solo_aux {n : Nat} {t : Nat} (rz : Bool) : ∀ (m : Nat) {s : State} {l : Local} {p : Pending},
    Reachable n s → s.threads[t]? = some l → readerPc l.pc = true → l.call = some p → mu s l.pc ≤ m →
    ∃ k, k ≤ m ∧ ∃ s' res resp, runSolo t rz k s = some s' ∧ Reachable n s' ∧ Frame t s s' ∧
      s'.threads[t]? = some { pc := .idle, call := none } ∧
      s'.hist = (p.key, { tid := t, op := p.op, res := res, inv := p.inv, resp := resp }) :: s.hist
  | 0, s, l, p, _, _, hrd, _, hm => by
    have := mu_pos (s := s) hrd
    omega
  | m + 1, s, l, p, hr, hl, hrd, hp, hm => by
    obtain ⟨p', s1, hp', hs, ho⟩ := reader_step hr hl hrd none rz
    rw [hp] at hp'
    cases hp'
    have hr1 : Reachable n s1 := Reachable.step t none rz hr hs
    have hf1 : Frame t s s1 := reader_step_frame hl hrd hs
    rcases ho with ⟨hidle, res, hh⟩ | ⟨pc', hl1, hrd1, hh1, hmu⟩
    · refine ⟨1, by omega, s1, res, _, ?_, hr1, hf1, hidle, hh⟩
      simp only [runSolo, hs]
    · obtain ⟨k, hk, s', res, resp, hrun, hr', hf', hidle, hh⟩ :=
        solo_aux rz m (p := p) hr1 hl1 hrd1 rfl (by show mu s1 pc' ≤ m; omega)
      refine ⟨k + 1, by omega, s', res, resp, ?_, hr', hf1.trans hf', hidle, ?_⟩
      · simp only [runSolo, hs]; exact hrun
      · rw [hh, hh1]

/-- **C12.3, list bin under resize: bounded own steps.** From every reachable state, a thread at a
reader pc that runs alone — all other threads suspended wherever they are: a writer holding the bin
lock, a writer waiting for it, the resizing thread anywhere in the middle of moving the bin — has
returned (`idle`, its call appended to `hist`) after at most `soloBound s = s.heap.length + 4` of its
own steps (table pointer, old cell, one forwarding hop, new cell, then the chain, which is no longer
than the heap), all of them enabled, and has stored nothing. -/
theorem reader_solo_terminates {n : Nat} {s : State} (hr : Reachable n s) {t : Nat} {l : Local}
    (hl : s.threads[t]? = some l) (hrd : readerPc l.pc = true) (resize : Bool) :
    ∃ k, k ≤ soloBound s ∧ ∃ s' p res resp, l.call = some p ∧ runSolo t resize k s = some s' ∧
      Frame t s s' ∧ s'.threads[t]? = some { pc := .idle, call := none } ∧
      s'.hist = (p.key, { tid := t, op := p.op, res := res, inv := p.inv, resp := resp }) :: s.hist := by
  obtain ⟨p, _, hp, _, _⟩ := reader_step hr hl hrd none resize
  obtain ⟨k, hk, s', res, resp, hrun, _, hf, hidle, hh⟩ :=
    solo_aux (n := n) resize (soloBound s) hr hl hrd hp (mu_le_soloBound hr hl)
  exact ⟨k, hk, s', p, res, resp, hp, hrun, hf, hidle, hh⟩

/-- the `resize` argument is irrelevant for a reader -/
theorem reader_step_resize {s : State} {t : Nat} {l : Local} (hl : s.threads[t]? = some l)
    (hrd : readerPc l.pc = true) (inv : Option (Nat × KOp)) (b b' : Bool) : step s t inv b = step s t inv b' := by
  unfold step stepG
  rw [hl]
  obtain ⟨pc, call⟩ := l
  cases call <;> cases pc <;> first | rfl | (rename_i c; cases c <;> rfl) | cases hrd

/-! ## non-vacuity: the resizing thread suspended in the middle of moving the bin, holding its lock -/

/-- run a schedule of `(thread, invocation, resize)` triples; `none` if some step is not enabled -/
def runSched (s : State) : List (Nat × Option (Nat × KOp) × Bool) → Option State
  | [] => some s
  | (t, inv, rz) :: rest =>
    match step s t inv rz with
    | some s' => runSched s' rest
    | none => none

theorem runSched_reachable {n : Nat} : ∀ (sched : List (Nat × Option (Nat × KOp) × Bool)) {s s' : State},
    Reachable n s → runSched s sched = some s' → Reachable n s'
  | [], s, s', hr, h => by
    simp only [runSched, Option.some.injEq] at h
    exact h ▸ hr
  | (t, inv, rz) :: rest, s, s', hr, h => by
    simp only [runSched] at h
    cases hs : step s t inv rz with
    | none => rw [hs] at h; cases h
    | some s1 =>
      rw [hs] at h
      exact runSched_reachable rest (Reachable.step t inv rz hr hs) h

/-- `n` steps of thread `t` -/
def stepsOf (t n : Nat) : List (Nat × Option (Nat × KOp) × Bool) := List.replicate n (t, none, false)

/-- thread 0 fills the bin (`ins 1`, `ins 2`, `ins 3`: list `0 → 1 → 2`); thread 1 starts the resize,
locks the head, and is suspended; thread 3 (`rm 1`) gets as far as `wLock`: it **waits for the bin
lock**; thread 1 goes on — validates, splits the list (copies of nodes 0 and 1 are nodes 3 and 4),
stores the low and the high list — and is suspended at `tStoreMoved`: **mid-transfer, holding the bin
lock**; thread 2 invokes `get 3`. -/
def midSchedule : List (Nat × Option (Nat × KOp) × Bool) :=
  [(0, some (1, .ins 10 100), false)] ++ stepsOf 0 3 ++ [(0, some (2, .ins 20 101), false)] ++ stepsOf 0 8 ++
  [(0, some (3, .ins 30 102), false)] ++ stepsOf 0 9 ++
  [(1, none, true)] ++ stepsOf 1 2 ++ [(3, some (1, .rm), false)] ++ stepsOf 3 2 ++ stepsOf 1 4 ++
  [(2, some (3, .get), false)]

def midState : Option State := runSched (init 4) midSchedule

/-- one more step of the transfer: the forwarding marker is stored, the lock not yet released -/
def fwdState : Option State := runSched (init 4) (midSchedule ++ stepsOf 1 1)

/-- the premises of the theorems are satisfiable by a state with a transfer in progress -/
theorem midState_spec : ∃ s, midState = some s ∧ Reachable 4 s ∧
    s.threads[1]? = some { pc := .tStoreMoved 0, call := none } ∧
    s.threads[3]? = some { pc := .wLock .old 0, call := some ⟨1, .rm, 27⟩ } ∧
    s.threads[2]? = some { pc := .rTable, call := some ⟨3, .get, 34⟩ } ∧
    (s.heap[0]?).map (·.lock) = some (some 1) ∧ s.cell0 = .node 0 ∧ s.lowCell = .node 4 ∧ s.highCell = .node 3 := by
  have h : (midState.map fun s => (s.threads, (s.heap[0]?).map (·.lock), s.cell0, s.lowCell, s.highCell)) =
      some ([ { pc := .idle, call := none }, { pc := .tStoreMoved 0, call := none },
              { pc := .rTable, call := some ⟨3, .get, 34⟩ },
              { pc := .wLock .old 0, call := some ⟨1, .rm, 27⟩ } ],
            some (some 1), .node 0, .node 4, .node 3) := by decide
  cases hs : midState with
  | none => rw [hs] at h; cases h
  | some s =>
    rw [hs] at h
    simp only [Option.map_some, Option.some.injEq, Prod.mk.injEq] at h
    obtain ⟨h1, h2, h3, h4, h5⟩ := h
    refine ⟨s, rfl, runSched_reachable midSchedule Reachable.init hs, ?_, ?_, ?_, ?_, h3, h4, h5⟩
    · rw [h1]; rfl
    · rw [h1]; rfl
    · rw [h1]; rfl
    · rw [h2]

/-- in that state the *writer* `rm 1` is blocked (it waits for the bin lock) … -/
example : (midState.map fun s => (step s 3 none false).isSome) = some false := by decide

/-- … but the reader, running alone, walks the old list `0 → 1 → 2` and answers `some (30, 102)` in 5
steps (table pointer, old cell, three nodes) — within `soloBound = 9` -/
example : (midState.bind fun s => (runSolo 2 false 5 s).map fun s' =>
      (decide (5 ≤ soloBound s), s'.threads[2]?, s'.hist.head?)) =
    some (true, some { pc := .idle, call := none },
      some (3, { tid := 2, op := .get, res := .some 30 102, inv := 34, resp := 39 })) := by decide

/-- … while the transfer still holds the lock, where it was suspended -/
example : (midState.bind fun s => (runSolo 2 false 5 s).map fun s' =>
      ((s'.heap[0]?).map (·.lock), s'.cell0, s'.threads[1]?)) =
    some (some (some 1), .node 0, some { pc := .tStoreMoved 0, call := none }) := by decide

/-- with the forwarding marker stored and the lock still held (`tUnlock`), the reader follows the
marker into the new table: table pointer (still `old`), old cell (`moved`), new high cell, nodes 3
(the copy of key 1) and 2: 5 steps again -/
example : (fwdState.map fun s => (s.cell0, s.threads[1]?, (s.heap[0]?).map (·.lock))) =
    some (.moved, some { pc := .tUnlock 0, call := none }, some (some 1)) := by decide

example : (fwdState.bind fun s => (runSolo 2 false 5 s).map fun s' =>
      (decide (5 ≤ soloBound s), s'.threads[2]?, s'.hist.head?)) =
    some (true, some { pc := .idle, call := none },
      some (3, { tid := 2, op := .get, res := .some 30 102, inv := 34, resp := 40 })) := by decide

/-- the general theorem instantiated at `midState` -/
example : ∃ s, midState = some s ∧ ∃ k, k ≤ soloBound s ∧
    ∃ (s' : State) (p : Pending) (res : KRes) (resp : Nat), runSolo 2 false k s = some s' ∧
    s'.threads[2]? = some { pc := .idle, call := none } ∧
    s'.threads[1]? = some { pc := .tStoreMoved 0, call := none } ∧
    s'.hist = (p.key, { tid := 2, op := p.op, res := res, inv := p.inv, resp := resp }) :: s.hist := by
  obtain ⟨s, hs, hr, h1, _, h2, _⟩ := midState_spec
  obtain ⟨k, hk, s', p, res, resp, _, hrun, hf, hidle, hh⟩ := reader_solo_terminates hr h2 rfl false
  exact ⟨s, hs, k, hk, s', p, res, resp, hrun, hidle, (hf.others 1 (by decide)).trans h1, hh⟩

end Flurry.Proto.BinX
