import Flurry.Lemmas.RwLock
import Flurry.Proto.RwLockMonitor
/-! # C11 — every operation terminates under any fair schedule

**Strength: partial.** Proved, for any number of readers and every interleaving of the tree-bin
lock protocol (`Proto/RwLock`): no lost wakeup (whenever the writer is about to park without a
token, some reader is still going to produce one), the writer is never blocked when no reader is
active, readers are never blocked, no reachable state is stuck, and from every reachable state the
readers alone can drain and leave the writer enabled. The waits-for structure of the whole map
(a thread holds at most one bin mutex; `transfer` writes new bins without locking them; init
losers wait for the winner) and termination of the retry loops are judged on the implementation:
the scheduler reports a deadlock when no unfinished thread is enabled and a livelock when a run
does not finish under a fair policy within its step budget. -/
namespace Flurry.C11
open Flurry.Proto.RwLock

/-- **no lost wakeup** -/
theorem no_lost_wakeup {n : Nat} {s : State} (h : Reachable n s) (hp : s.wpc = .park) (ht : s.token = false) :
    (1 ≤ numHolding s.readers ∧ s.waiterSet = true) ∨ (∃ i : Nat, s.readers[i]? = some RPc.unpark) ∨
    (∃ i : Nat, s.readers[i]? = some RPc.loadWaiter ∧ s.waiterSet = true) :=
  Flurry.Proto.RwLock.no_lost_wakeup h hp ht

/-- the writer can always move when no reader is active -/
theorem writer_not_blocked_without_readers {n : Nat} {s : State} (h : Reachable n s)
    (hidle : ∀ (i : Nat) (pc : RPc), s.readers[i]? = some pc → pc = RPc.idle) : stepWriter s ≠ none := deadlock_free h hidle

/-- no reachable state is stuck -/
theorem never_stuck {n : Nat} {s : State} (h : Reachable n s) : ∃ a more s', step s a more = some s' :=
  not_stuck h

/-- from every reachable state the readers can finish on their own, after which the writer is enabled -/
theorem writer_eventually_enabled {n : Nat} {s : State} (h : Reachable n s) :
    ∃ s', ReaderRun s s' ∧ Reachable n s' ∧ stepWriter s' ≠ none :=
  Flurry.Proto.RwLock.writer_eventually_enabled h

/-- a parked writer has its token once the readers are done -/
theorem parked_writer_woken {n : Nat} {s s' : State} (h : Reachable n s) (hp : s.wpc = .park)
    (r : ReaderRun s s') (hidle : ∀ (i : Nat) (pc : RPc), s'.readers[i]? = some pc → pc = RPc.idle) : s'.token = true :=
  park_token_when_readers_done h hp r hidle

/-- the lock is a lock: no reader searches the tree while the writer restructures it -/
theorem writer_excludes_tree_readers {n : Nat} {s : State} (h : Reachable n s)
    (hw : s.wpc = .hold ∨ s.wpc = .swapOut) : numHolding s.readers = 0 := mutual_exclusion h hw

/-- **The tie to the code.** The harness replays, for every tree bin of every scheduled run, the
bin's `lock_state` / `waiter` / park / unpark accesses through `Proto/RwLockMonitor`. Whatever
stream the monitor accepted (without a spurious wake-up), the state it ends in is a reachable
state of the model, so the theorems above hold of it: in particular the run's abstract lock
state is not stuck, a writer about to park there has its wake-up on the way, and no reader
searches the tree while the writer restructures it. -/
theorem accepted_stream_theorems {n : Nat} (evs : List Flurry.Proto.RwLockMonitor.Ev)
    (m : Flurry.Proto.RwLockMonitor.M n)
    (hrun : Flurry.Proto.RwLockMonitor.run (Flurry.Proto.RwLockMonitor.start n) evs 0 = .ok m)
    (hs : m.spurious = 0) :
    Reachable n m.s.1 ∧ (∃ a more s', step m.s.1 a more = some s') ∧
    ((m.s.1.wpc = .hold ∨ m.s.1.wpc = .swapOut) → numHolding m.s.1.readers = 0) ∧
    (m.s.1.wpc = .park → m.s.1.token = false →
      (1 ≤ numHolding m.s.1.readers ∧ m.s.1.waiterSet = true) ∨ (∃ i : Nat, m.s.1.readers[i]? = some RPc.unpark) ∨
      (∃ i : Nat, m.s.1.readers[i]? = some RPc.loadWaiter ∧ m.s.1.waiterSet = true)) := by
  have h := Flurry.Proto.RwLockMonitor.accepted_is_reachable evs m hrun hs
  exact ⟨h, not_stuck h, mutual_exclusion h, Flurry.Proto.RwLock.no_lost_wakeup h⟩

/-- a real stream (recorded from `harness conc --mode tree`: a writer that has to wait for a
reader and is woken by it) is accepted -/
example : Flurry.Proto.RwLockMonitor.accept 3 true
    [⟨1, .ld, 0, 0, 0⟩, ⟨1, .y, 0, 4, 0⟩, ⟨0, .cas, 0, 1, 4⟩, ⟨0, .ld, 0, 0, 4⟩, ⟨0, .cas, 4, 6, 4⟩,
     ⟨0, .wsw, 1, 0, 0⟩, ⟨0, .ld, 0, 0, 6⟩, ⟨1, .fa, -4, 0, 6⟩, ⟨1, .wld, 0, 0, 1⟩, ⟨1, .unpark, 0, 0, 0⟩,
     ⟨0, .park, 0, 0, 0⟩, ⟨0, .ld, 0, 0, 2⟩, ⟨0, .cas, 2, 1, 2⟩, ⟨0, .wsw, 0, 0, 1⟩, ⟨0, .st, 0, 0, 1⟩]
    = "ok wlocks=1 waits=1 rlocks=1 slow=0 wakes=1 spurious=0" := by decide

end Flurry.C11
