import Flurry.SigDefs
import Flurry.Gen.Api
/-! # C17 — definitions (classification of the signature table); theorems in `Props/C17.lean`

Kept apart from the theorems so that the check can still evaluate the classification (to generate
the rustc programs that look for a failing input) when a table theorem no longer holds.

# C17 — only thread-safe keys and values can enter a map (compile time)

Over the regenerated signature table `Flurry.Gen.apiFns`. "Inserting entry point" is computed
from the signature, not listed: a method that takes a key/value/element *by value*
(`K`, `V`, `T` as a parameter type), or a closure producing a value, or one of the bulk traits
(`Extend`, `FromIterator`, `Clone`, `Deserialize`, `FromParallelIterator`, `ParallelExtend`) on an
owning collection type. -/
namespace Flurry.C17
open Flurry.Sig Flurry.Gen

def ownsData (f : ApiFn) : Bool := f.ty == "HashMap" || f.ty == "HashSet" || f.ty == "HashMapRef" || f.ty == "HashSetRef"

def byValueParam (f : ApiFn) : Bool := f.params.any fun p => f.elems.contains p.2

def producesValue (f : ApiFn) : Bool := f.makesValue

def bulkTrait (f : ApiFn) : Bool :=
  (f.traitHead == "Extend" || f.traitHead == "FromIterator" || f.traitHead == "Clone" ||
   f.traitHead == "Deserialize" || f.traitHead == "FromParallelIterator" ||
   f.traitHead == "ParallelExtend") &&
  -- `Clone` of a reference wrapper copies no keys or values
  !(f.traitHead == "Clone" && (f.ty == "HashMapRef" || f.ty == "HashSetRef"))

def inserting (f : ApiFn) : Bool :=
  ownsData f && f.selfKind != "assoc" && (byValueParam f || producesValue f || bulkTrait f)

def hasBound (f : ApiFn) (ty bound : String) : Bool := f.bounds.any fun b => b.1 == ty && b.2 == bound

/-- `Send + Sync` on every element type parameter of the row's collection (`K`,`V` for maps, the
element type for sets, under whatever name the impl block gives them) -/
def sendSync (f : ApiFn) : Bool :=
  !f.elems.isEmpty && f.elems.all fun p => hasBound f p "Send" && hasBound f p "Sync"

/-- lookups, iteration and size queries carry no thread-safety bound -/
def lookupLike (f : ApiFn) : Bool :=
  ownsData f && (f.fn == "get" || f.fn == "get_key_value" || f.fn == "contains_key" || f.fn == "contains" ||
    f.fn == "iter" || f.fn == "keys" || f.fn == "values" || f.fn == "len" || f.fn == "is_empty")

end Flurry.C17
