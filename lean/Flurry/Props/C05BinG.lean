import Flurry.Proto.BinG
import Flurry.Props.C01BinG
import Flurry.Lemmas.BinGQuiescent
import Flurry.Lemmas.BinGCommit
import Flurry.Lemmas.BinGQuiescentExamples
/-! # C05 (bin level, concurrent model): at quiescence iteration = lookup, nothing half-done is left behind

> Whenever no operation is in flight, iteration yields exactly the keys for which lookup succeeds —
> each exactly once and with the value lookup returns. Every entry then resides where a lookup for its
> hash searches, no key occurs twice, no forwarding marker or half-finished resize is left behind, and
> no lock is left held.

For `Proto/BinG` (one bin lineage: the old cell, the two cells of the next table, list bins and tree
bins with both conversions, lock-free readers, locked writers, one resize; one shared-memory access
per transition, any number of threads, every interleaving). `quiescent s`: every thread is idle — no
call, no treeify, no transfer in flight.

* `liveCells s`: the cells a lookup that starts now can end in — `[cell0]` until the forwarding marker
  is stored, `[lowCell, highCell]` afterwards (`liveCell s k ∈ liveCells s`);
* `entries s`: the (key, value) pairs of the nodes on the lists of the live cells, in list order — what
  an iterator that starts now and runs alone yields (for a tree bin the iterator walks the `first` /
  `next` list, `chainOfBin`);
* `absOf s k`: what a lookup of `k` finds; by `binG_linearizable_quiescent` it is the state the
  completed calls on `k` linearize to.

The list facts (`keys_distinct`, `iter_agrees`, `entry_in_own_cell`) hold in every reachable state
(`reachable_iter_agrees` …): they are consequences of the structural invariant `binG_inv`. What
quiescence adds: nothing is locked, the resize is all-or-nothing, the tree of every `TreeBin` in a cell
holds exactly the nodes of its list, and `absOf` is the linearized outcome of the history.
Proofs: `Lemmas/BinGQuiescent.lean`, `Lemmas/BinGCommit.lean`. -/
namespace Flurry.Proto.BinG
open Flurry.Lin
open Flurry.Proto.BinK (nodeAt binAt)

/-! ## 1. no half-finished resize -/

/-- in every reachable state: a resize that has been started is committed (the next table is
published) or a thread is still performing it -/
theorem resize_committed_or_at_work {n : Nat} {s : State} (hr : Reachable n s) (h : s.resizing = true) :
    s.cur = .new ∨ ∃ (t : Nat) (l : Local), s.threads[t]? = some l ∧ xPc l.pc = true :=
  reachable_committed hr h

/-- **no forwarding marker or half-finished resize is left behind**: at quiescence the lineage is
entirely before its resize or entirely after it. "The resize has been started", "the old cell holds
the forwarding marker" and "the next table is published" are equivalent (so `resizing ∧ quiescent`
implies committed: no marker without the published next table, no published next table without the
marker). Before the resize both cells of the next table are still empty; after it neither of them
holds a marker. -/
theorem quiescent_no_half_resize {n : Nat} {s : State} (hr : Reachable n s) (hq : quiescent s) :
    (s.resizing = true ↔ s.cur = .new) ∧ (s.cell0 = .moved ↔ s.cur = .new) ∧
    (s.cur = .old → s.resizing = false ∧ s.cell0 ≠ .moved ∧ s.lowCell = .empty ∧ s.highCell = .empty) ∧
    (s.cur = .new → s.resizing = true ∧ s.cell0 = .moved ∧ s.lowCell ≠ .moved ∧ s.highCell ≠ .moved) :=
  quiescent_resize_all_or_nothing hr hq

/-- no live cell holds the forwarding marker -/
theorem quiescent_live_not_moved {n : Nat} {s : State} (hr : Reachable n s) : ∀ c ∈ liveCells s, c ≠ .moved :=
  fun _ hc => liveCells_not_moved (binG_inv hr).heap hc

/-! ## 2. no lock is left held -/

/-- **nothing is locked at quiescence**: the lock word of every node is free, the mutex of every
`TreeBin` is free, no `TreeBin` has a reader inside, and every `TreeBin` that is in one of the three
cells has its write lock and its waiter bit clear -/
theorem quiescent_unlocked {n : Nat} {s : State} (hr : Reachable n s) (hq : quiescent s) :
    (∀ j, (nodeAt s.heap j).lock = none) ∧ (∀ b, (binAt s.tbins b).mutex = none) ∧
    (∀ b, b < s.tbins.length → (binAt s.tbins b).readers = 0) ∧
    ∀ id b, cellAt s id = .tree b → (binAt s.tbins b).writer = false ∧ (binAt s.tbins b).waiter = false :=
  ⟨quiescent_node_unlocked (binG_inv hr) hq, quiescent_mutex_free (binG_inv hr) hq,
    fun _ hb => quiescent_no_readers (binG_inv hr) hq hb,
    fun _ _ hc => ⟨(quiescent_bin_unlocked (binG_inv hr) hq hc).2.1, (quiescent_bin_unlocked (binG_inv hr) hq hc).2.2.1⟩⟩

/-- the same, for what a lookup or an iterator can reach: no node on the list of a live cell has its lock
word taken; a `TreeBin` in a live cell has `mutex = none`, `writer = false`, `waiter = false`,
`readers = 0` -/
theorem quiescent_live_cells_unlocked {n : Nat} {s : State} (hr : Reachable n s) (hq : quiescent s)
    {c : Cell} (hc : c ∈ liveCells s) :
    (∀ j ∈ chainOfCell s c, (nodeAt s.heap j).lock = none) ∧
    ∀ b, c = .tree b → (binAt s.tbins b).mutex = none ∧ (binAt s.tbins b).writer = false ∧
      (binAt s.tbins b).waiter = false ∧ (binAt s.tbins b).readers = 0 :=
  quiescent_live_unlocked (binG_inv hr) hq hc

/-! ## 3. iteration = lookup -/

/-- the cell a lookup of `k` ends in is one of the live cells -/
theorem liveCell_is_live {n : Nat} {s : State} (hr : Reachable n s) (k : Nat) : liveCell s k ∈ liveCells s :=
  liveCell_mem_liveCells (binG_inv hr).heap k

/-- **no key occurs twice**, across both live cells -/
theorem quiescent_keys_distinct {n : Nat} {s : State} (hr : Reachable n s) (_hq : quiescent s) :
    ((entries s).map (·.1)).Nodup := entries_keys_nodup (binG_inv hr).heap

/-- no entry is yielded twice -/
theorem quiescent_entries_nodup {n : Nat} {s : State} (hr : Reachable n s) (_hq : quiescent s) :
    (entries s).Nodup := entries_nodup (binG_inv hr).heap

/-- **every entry resides where a lookup for its key searches**: an entry found in the low cell of the
next table has split bit 0, one found in the high cell has split bit 1, and every entry is on the list
of the cell a lookup of its key ends in -/
theorem quiescent_entry_in_own_cell {n : Nat} {s : State} (hr : Reachable n s) (_hq : quiescent s)
    {k : Nat} {v : Nat × Nat} :
    ((k, v) ∈ entriesOfCell s s.lowCell → hiBit k = false) ∧
    ((k, v) ∈ entriesOfCell s s.highCell → hiBit k = true) ∧
    ((k, v) ∈ entries s → (k, v) ∈ entriesOfCell s (liveCell s k)) :=
  ⟨(entries_own_cell (binG_inv hr).heap).1, (entries_own_cell (binG_inv hr).heap).2,
    (entries_in_liveCell (binG_inv hr).heap).1⟩

/-- **iteration yields exactly the keys for which lookup succeeds, with the value lookup returns** -/
theorem quiescent_iter_agrees {n : Nat} {s : State} (hr : Reachable n s) (_hq : quiescent s) (k : Nat) (v : Nat × Nat) :
    (k, v) ∈ entries s ↔ absOf s k = some v := mem_entries_iff_absOf (binG_inv hr).heap k v

/-- … and what lookup returns is what the completed calls on the key linearize to: the history of a
yielded key linearizes to "present with the yielded value", that of any other key to "absent" -/
theorem quiescent_iter_linearized {n : Nat} {s : State} (hr : Reachable n s) (hq : quiescent s) (k : Nat) :
    (∀ v, (k, v) ∈ entries s → Lin.Linearizable (callsOn s k) none (some v)) ∧
    (k ∉ (entries s).map (·.1) → Lin.Linearizable (callsOn s k) none none) :=
  entries_linearized hr hq k

/-- **each exactly once — the count**: the keys yielded are the keys a lookup finds (`absOf s k ≠ none`),
without repetition; hence any duplicate-free enumeration `ks` of those keys is a permutation of the
keys yielded, and the number of entries is the number of such keys -/
theorem quiescent_len {n : Nat} {s : State} (hr : Reachable n s) (_hq : quiescent s) :
    ((entries s).map (·.1)).Nodup ∧ (∀ k, k ∈ (entries s).map (·.1) ↔ absOf s k ≠ none) ∧
    ∀ ks : List Nat, ks.Nodup → (∀ k, k ∈ ks ↔ absOf s k ≠ none) →
      ks.Perm ((entries s).map (·.1)) ∧ ks.length = (entries s).length :=
  ⟨entries_keys_nodup (binG_inv hr).heap, mem_keys_iff_absOf (binG_inv hr).heap,
    fun _ hnd hks => entries_count (binG_inv hr).heap hnd hks⟩

/-- for a `TreeBin` in a live cell the tree set is the list set: it is unlocked and its tree holds
exactly the nodes of its list (`quiescent_tree_eq_list` of `Props/C01BinG.lean`), so lookups through
the tree and the iterator over the list see the same nodes -/
theorem quiescent_live_tree_eq_list {n : Nat} {s : State} (hr : Reachable n s) (hq : quiescent s) {b : Nat}
    (hc : Cell.tree b ∈ liveCells s) :
    (binAt s.tbins b).mutex = none ∧ (binAt s.tbins b).writer = false ∧
    ∀ i, i < s.heap.length → ((nodeAt s.heap i).owner = some b ∧ (nodeAt s.heap i).inTree = true ↔
      i ∈ chainOfBin s b) :=
  (liveCells_sub hc).elim fun _ hid => quiescent_tree_eq_list hr hq hid.symm

/-! the list facts do not need quiescence -/

/-- in every reachable state the entries on the live lists are exactly the abstract content, no key
twice, every entry in the cell of its key -/
theorem reachable_iter_agrees {n : Nat} {s : State} (hr : Reachable n s) :
    ((entries s).map (·.1)).Nodup ∧ (∀ k v, (k, v) ∈ entries s ↔ absOf s k = some v) ∧
    ∀ k v, (k, v) ∈ entries s → (k, v) ∈ entriesOfCell s (liveCell s k) :=
  ⟨entries_keys_nodup (binG_inv hr).heap, mem_entries_iff_absOf (binG_inv hr).heap,
    fun _ _ => (entries_in_liveCell (binG_inv hr).heap).1⟩

/-! ## 5. non-vacuity: kernel-checked reachable quiescent states (`Lemmas/BinGQuiescentExamples.lean`) -/

/-- **after a tree-bin transfer** (`schedStale`: `TreeBin` 0 over the keys 1 and 0 is split into two fresh
`TreeBin`s, with a lock-protocol reader inside the old bin all along, then an update and a lookup in the
new table): the state is reachable and quiescent, forwarded and committed, the live cells are the two
cells of the next table, the iterator yields key 0 (low) and key 1 (high, with the updated value),
which is the abstract state of the keys 0, 1, 2; every lock word and every `TreeBin` is unlocked — all
computed by `decide` — and, as the theorems say, iteration = lookup for EVERY key -/
example : ∃ s, Reachable 4 s ∧ quiescent s ∧
    qview s = ⟨true, (.moved, .tree 1, .tree 2), .new, true, [.tree 1, .tree 2], [(0, (6, 101)), (1, (7, 102))],
      [some (6, 101), some (7, 102), none], true,
      [(none, false, false, 0), (none, false, false, 0), (none, false, false, 0)]⟩ ∧
    (∀ k v, (k, v) ∈ entries s ↔ absOf s k = some v) ∧ (s.cell0 = .moved ↔ s.cur = .new) := by
  obtain ⟨s, hr, hq, hv⟩ := of_qview qview_stale rfl
  exact ⟨s, hr, hq, hv, quiescent_iter_agrees hr hq, (quiescent_no_half_resize hr hq).2.1⟩

/-- after a tree-bin transfer that re-uses the OLD `TreeBin` object in the low cell (`schedReuse`, with a
writer queued on its mutex across the transfer): the live cells are `tree 0` and the empty high cell -/
example : ∃ s, Reachable 4 s ∧ quiescent s ∧
    qview s = ⟨true, (.moved, .tree 0, .empty), .new, true, [.tree 0, .empty], [(0, (5, 100)), (2, (7, 102))],
      [some (5, 100), none, some (7, 102)], true, [(none, false, false, 0)]⟩ ∧
    (∀ k v, (k, v) ∈ entries s ↔ absOf s k = some v) := by
  obtain ⟨s, hr, hq, hv⟩ := of_qview qview_reuse rfl
  exact ⟨s, hr, hq, hv, quiescent_iter_agrees hr hq⟩

/-- after a tree-bin transfer into two plain lists (`schedLostLong`) -/
example : ∃ s, Reachable 4 s ∧ quiescent s ∧
    qview s = ⟨true, (.moved, .list 4, .list 5), .new, true, [.list 4, .list 5], [(0, (6, 101)), (1, (7, 102))],
      [some (6, 101), some (7, 102), none], true, [(none, false, false, 0)]⟩ := of_qview qview_lists rfl

/-- before the resize (`setupBoth`): one live cell, the old one, holding `TreeBin` 0 over both keys; the
cells of the next table are empty, nothing has been started -/
example : ∃ s, Reachable 4 s ∧ quiescent s ∧
    qview s = ⟨true, (.tree 0, .empty, .empty), .old, false, [.tree 0], [(1, (5, 100)), (0, (6, 101))],
      [some (6, 101), some (5, 100), none], true, [(none, false, false, 0)]⟩ := of_qview qview_before rfl

end Flurry.Proto.BinG
