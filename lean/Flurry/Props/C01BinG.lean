import Flurry.Proto.BinG
import Flurry.Lemmas.BinGLin
import Flurry.Lemmas.BinGExamples
/-! # C01 / C05 / C07 / C08 / C10 (bin level): one bin lineage through kind changes AND a resize is
linearizable under every interleaving

`Proto/BinG`: the union of `Proto/BinK` (a cell that is empty / a list bin / a tree bin, with treeify
and untreeify) and `Proto/BinX` (the smallest table that can grow: an old table with one cell, a next
table with two cells, the forwarding marker): lock-free readers, iterators and locked writers of both
bin forms in the cell of their key in the table they loaded; treeify / untreeify in any cell, before or
after the resize; `transfer` of the old cell whatever it holds — empty (CAS of the marker), a list bin
(split with the last run re-used), a tree bin (per side: nothing, a plain list of fresh nodes, the OLD
`TreeBin` object re-used when the other side is empty, or a fresh `TreeBin`) — then store low, store
high, store the marker, unlock, publish `cur := new`. Threads that loaded the old cell before it was
forwarded (or a structure before it was replaced) go on with what they loaded: readers finish there,
writers notice at their re-check and start over. One transition = one shared-memory access; any
number of threads; every interleaving. -/
namespace Flurry.Proto.BinG
open Flurry.Lin

/-- **Structural invariant** (`Lemmas/BinGInv.lean`: well-formed chains in all three cells, distinct
keys, sides of the new cells, lock words / mutexes / read-write lock bits match the program counters,
validated holders see their structure in their cell, tree = list for every `TreeBin` in a cell whose
write lock is free, the planned / stored new cells of a transfer hold exactly the two sides of the old
cell, …) in every reachable state. -/
theorem binG_inv {n : Nat} {s : State} (hr : Reachable n s) : Inv s := reachable_inv hr

/-- a transfer does not change what the bin contains: the three stores (low cell, high cell,
forwarding marker), the CAS of the marker into an empty old cell and the commit `cur := new` leave
the abstract state of every key as it was -/
theorem transfer_abs_invariant {n : Nat} {s s' : State} (hr : Reachable n s) {t : Nat}
    {inv : Option (Nat × KOp)} {lo : Bool} {mt : Option Nat} {rz sm sm2 : Bool} {l : Local}
    (hl : s.threads[t]? = some l)
    (hpc : (∃ unl lo hi, l.pc = .xStoreLow unl lo hi) ∨ (∃ unl hi, l.pc = .xStoreHigh unl hi) ∨
      (∃ unl, l.pc = .xStoreMoved unl) ∨ l.pc = .xCasMoved ∨ l.pc = .xCommit)
    (hs : step s t inv lo mt rz sm sm2 = some s') (k : Nat) : absOf s' k = absOf s k :=
  transfer_abs_invariant_aux hr hl hpc hs k

/-- **C01, bin level, across kind changes and the resize.** The per-key history (completed calls
plus writers past their linearization point) is linearizable and ends in the abstract state of the
live structure of the key. -/
theorem binG_linearizable {n : Nat} {s : State} (hr : Reachable n s) (k : Nat) :
    Lin.Linearizable (callsOnExt s k) none (absOf s k) := binG_linearizable_ext hr k

/-- quiescent form -/
theorem binG_linearizable_quiescent {n : Nat} {s : State} (hr : Reachable n s) (hq : quiescent s) (k : Nat) :
    Lin.Linearizable (callsOn s k) none (absOf s k) := binG_linearizable_quiescent_aux hr hq k

/-- C06 at quiescence: a `TreeBin` that is in a cell is unlocked (mutex and write lock free) and its
tree holds exactly the nodes of its list -/
theorem quiescent_tree_eq_list {n : Nat} {s : State} (hr : Reachable n s) (hq : quiescent s) {id : Cid} {b : Nat}
    (hc : cellAt s id = .tree b) :
    (Flurry.Proto.BinK.binAt s.tbins b).mutex = none ∧ (Flurry.Proto.BinK.binAt s.tbins b).writer = false ∧
    ∀ i, i < s.heap.length → ((Flurry.Proto.BinK.nodeAt s.heap i).owner = some b ∧
      (Flurry.Proto.BinK.nodeAt s.heap i).inTree = true ↔ i ∈ chainOfBin s b) :=
  quiescent_tree_eq_list_aux hr hq hc

/-- the three kernel-checked runs of `Lemmas/BinGExamples.lean` (the re-used `TreeBin` with a writer
queued on its mutex across the transfer; the lock-protocol reader inside the old `TreeBin` across a
transfer that splits it; the slow insert that starts over after the transfer) are reachable quiescent
states, and — as `binG_linearizable_quiescent` says they must be — linearizable for EVERY key -/
theorem example_runs_linearizable :
    ∀ sc ∈ [schedReuse, schedStale, schedLostLong], ∃ s, run step (init 4) sc = some s ∧ Reachable 4 s ∧
      quiescent s ∧ ∀ k, Lin.Linearizable (callsOn s k) none (absOf s k) := by
  intro sc hsc
  obtain ⟨s, hrun, hreach, hq, -⟩ := runs_linearizable sc hsc
  exact ⟨s, hrun, hreach, hq, fun k => binG_linearizable_quiescent hreach hq k⟩

/-- **the re-checks of the cell are load-bearing across a tree-bin transfer**: if writers, treeify and
transfer trust the lock they took (`stepNoCheck`), some reachable quiescent state has a history that is
not linearizable (`Lemmas/BinGExamples.lean`: a completed insert is lost) -/
theorem noCheck_refutes :
    ∃ (n : Nat) (s : State) (k : Nat), ReachableNoCheck n s ∧ quiescent s ∧
      ¬ Lin.Linearizable (callsOn s k) none (absOf s k) :=
  noCheck_refutes_aux

end Flurry.Proto.BinG
