import Flurry.SigDefs
import Flurry.Gen.Serde
import Flurry.Spec.Bulk
/-! # C19 — optional bulk paths (serde, rayon), at the level of the abstract map

`mapDupPolicy` / `setDupPolicy` are regenerated from `src/serde_impls.rs` on every run (what
`visit_map` / `visit_seq` do when `insert` reports that the key was already present).
The abstract map is an association list with `lookup`/`insert` (replace or append); that the real
map behaves like it sequentially is C02, that parallel inserts are equivalent to *some* sequential
order of the same inserts is C01. -/
namespace Flurry.C19
open Flurry.Sig Flurry.Gen

theorem lookup_insert_same (m : AMap) (k v : Nat) : lookup k (insert m k v) = some v := by
  induction m with
  | nil => simp [insert, lookup]
  | cons p rest ih =>
    obtain ⟨k', v'⟩ := p
    by_cases h : k' = k <;> simp [insert, lookup, h, ih]

theorem lookup_insert_other (m : AMap) (k v k2 : Nat) (h : k2 ≠ k) :
    lookup k2 (insert m k v) = lookup k2 m := by
  induction m with
  | nil => simp [insert, lookup, Ne.symm h]
  | cons p rest ih =>
    obtain ⟨k', v'⟩ := p
    by_cases h1 : k' = k
    · subst h1; simp [insert, lookup, Ne.symm h]
    · by_cases h2 : k' = k2
      · subst h2; simp [insert, lookup, h1]
      · simp [insert, lookup, h1, h2, ih]

/-- **never panics**: with the extracted policy, deserialising *any* entry list — repeated keys
included — yields a value or an error. -/
theorem deserialize_total (doc : List (Nat × Nat)) : deserialize mapDupPolicy doc ≠ .panic := by
  have hp : mapDupPolicy ≠ .panic := by decide
  unfold deserialize
  generalize ([] : AMap) = acc
  induction doc generalizing acc with
  | nil => simp [deserializeFrom]
  | cons p rest ih =>
    obtain ⟨k, v⟩ := p
    simp only [deserializeFrom]
    split
    · cases hpol : mapDupPolicy with
      | lastWins => simpa [hpol] using ih _
      | error => simp
      | panic => exact absurd hpol hp
    · exact ih _

theorem set_policy_no_failure : setDupPolicy = .lastWins := by decide

/-- deserialising yields, for every key, the *last* value the document gives it
(policy `lastWins`), on top of what the accumulator already holds -/
theorem deserializeFrom_lastWins (doc : List (Nat × Nat)) (acc : AMap) :
    ∃ m, deserializeFrom .lastWins doc acc = .ok m ∧
      ∀ k, lookup k m = (match lookup k doc.reverse with | some v => some v | none => lookup k acc) := by
  induction doc generalizing acc with
  | nil => exact ⟨acc, rfl, fun k => by simp [lookup]⟩
  | cons p rest ih =>
    obtain ⟨k0, v0⟩ := p
    obtain ⟨m, hm, hl⟩ := ih (insert acc k0 v0)
    refine ⟨m, ?_, ?_⟩
    · simp only [deserializeFrom]; split <;> exact hm
    · intro k
      rw [hl k]
      have hrev : ∀ (l : AMap) (k1 v1 : Nat),
          lookup k (l ++ [(k1, v1)]) = (match lookup k l with | some v => some v | none => if k1 = k then some v1 else none) := by
        intro l k1 v1
        induction l with
        | nil => simp [lookup]
        | cons q l ihl =>
          obtain ⟨a, b⟩ := q
          by_cases hab : a = k <;> simp [lookup, hab, ihl]
      rw [List.reverse_cons, hrev]
      cases hr : lookup k rest.reverse with
      | some v => simp
      | none =>
        by_cases hk : k0 = k
        · subst hk; simp [lookup_insert_same]
        · simp [hk, lookup_insert_other _ _ _ _ (Ne.symm hk)]

theorem lookup_reverse_nodup (m : AMap) (h : (m.map Prod.fst).Nodup) (k : Nat) :
    lookup k m.reverse = lookup k m := by
  induction m with
  | nil => rfl
  | cons p rest ih =>
    obtain ⟨a, b⟩ := p
    simp only [List.map_cons, List.nodup_cons] at h
    have hrev : ∀ (l : AMap) (k1 v1 : Nat),
        lookup k (l ++ [(k1, v1)]) = (match lookup k l with | some v => some v | none => if k1 = k then some v1 else none) := by
      intro l k1 v1
      induction l with
      | nil => simp [lookup]
      | cons q l ihl =>
        obtain ⟨c, d⟩ := q
        by_cases hcd : c = k <;> simp [lookup, hcd, ihl]
    rw [List.reverse_cons, hrev, ih h.2]
    by_cases hak : a = k
    · subst hak
      have : lookup a rest = none := by
        have hn := h.1
        clear ih hrev h
        induction rest with
        | nil => rfl
        | cons q l ihl =>
          obtain ⟨c, d⟩ := q
          simp only [List.map_cons, List.mem_cons, not_or] at hn
          simp [lookup, Ne.symm hn.1, ihl hn.2]
      simp [this, lookup]
    · cases hl : lookup k rest <;> simp [lookup, hak, hl]

/-- **round trip**: serialising a map (each key once) and deserialising the result yields a map
with the same lookups. -/
theorem roundtrip (m : AMap) (h : (m.map Prod.fst).Nodup) (hpol : mapDupPolicy = .lastWins) :
    ∃ m', deserialize mapDupPolicy (serialize m) = .ok m' ∧ ∀ k, lookup k m' = lookup k m := by
  obtain ⟨m', hm, hl⟩ := deserializeFrom_lastWins m []
  refine ⟨m', by rw [hpol]; exact hm, ?_⟩
  intro k
  rw [hl k, lookup_reverse_nodup m h k]
  cases lookup k m <;> simp [lookup]

theorem roundtrip_current (m : AMap) (h : (m.map Prod.fst).Nodup) :
    ∃ m', deserialize mapDupPolicy (serialize m) = .ok m' ∧ ∀ k, lookup k m' = lookup k m :=
  roundtrip m h (by decide)

/-! ## rayon: any order of the same inserts -/

def insertAll (m : AMap) (items : List (Nat × Nat)) : AMap :=
  items.foldl (fun a p => insert a p.1 p.2) m

theorem lookup_insertAll (items : List (Nat × Nat)) (m : AMap) (k : Nat) :
    lookup k (insertAll m items) =
      (match lookup k items.reverse with | some v => some v | none => lookup k m) := by
  have := deserializeFrom_lastWins items m
  obtain ⟨m', hm, hl⟩ := this
  have heq : ∀ (its : List (Nat × Nat)) (acc : AMap),
      deserializeFrom .lastWins its acc = .ok (insertAll acc its) := by
    intro its
    induction its with
    | nil => intro acc; rfl
    | cons p rest ih =>
      intro acc
      obtain ⟨a, b⟩ := p
      simp only [deserializeFrom, insertAll, List.foldl_cons]
      split <;> exact ih _
  rw [heq] at hm
  injection hm with hm
  rw [hm]; exact hl k

theorem lookup_some_mem (k v : Nat) (l : AMap) (h : lookup k l = some v) : (k, v) ∈ l := by
  induction l with
  | nil => simp [lookup] at h
  | cons p rest ih =>
    obtain ⟨a, b⟩ := p
    by_cases hak : a = k
    · subst hak; simp [lookup] at h; subst h; simp
    · simp [lookup, hak] at h; exact List.mem_cons_of_mem _ (ih h)

theorem lookup_none_iff (k : Nat) (l : AMap) : lookup k l = none ↔ k ∉ l.map Prod.fst := by
  induction l with
  | nil => simp [lookup]
  | cons p rest ih =>
    obtain ⟨a, b⟩ := p
    by_cases hak : a = k
    · subst hak; simp [lookup]
    · simp [lookup, hak, ih]; omega

/-- **parallel extend / collect**: whatever order `π` the workers' inserts take effect in, the
resulting key set is `keys m ∪ keys items`, every key of `items` is mapped to one of the values
supplied for it, and every other key keeps its value. -/
theorem par_extend_any_order (m : AMap) (items π : List (Nat × Nat)) (hπ : π.Perm items) (k : Nat) :
    ((lookup k (insertAll m π)).isSome ↔ ((lookup k m).isSome ∨ k ∈ items.map Prod.fst)) ∧
    (k ∈ items.map Prod.fst → ∃ v, lookup k (insertAll m π) = some v ∧ (k, v) ∈ items) ∧
    (k ∉ items.map Prod.fst → lookup k (insertAll m π) = lookup k m) := by
  rw [lookup_insertAll]
  have hmem : ∀ x, x ∈ π.reverse ↔ x ∈ items := fun x => by
    rw [List.mem_reverse]; exact hπ.mem_iff
  have hkeys : k ∈ (π.reverse).map Prod.fst ↔ k ∈ items.map Prod.fst := by
    simp only [List.mem_map]
    constructor <;> (rintro ⟨x, hx, rfl⟩; exact ⟨x, (by first | exact (hmem x).1 hx | exact (hmem x).2 hx), rfl⟩)
  cases hl : lookup k π.reverse with
  | some v =>
    have hin := (hmem _).1 (lookup_some_mem k v _ hl)
    have hk : k ∈ items.map Prod.fst := List.mem_map.2 ⟨(k, v), hin, rfl⟩
    refine ⟨by simp [hk], fun _ => ⟨v, rfl, hin⟩, fun hn => absurd hk hn⟩
  | none =>
    have hk : k ∉ items.map Prod.fst := by
      rw [← hkeys]; exact (lookup_none_iff k _).1 hl
    refine ⟨by simp [hk], fun h => absurd h hk, fun _ => rfl⟩

-- non-vacuity: a document that repeats a key
example : deserialize mapDupPolicy [(1, 1), (1, 2)] = .ok [(1, 2)] := by decide
example : deserialize .panic [(1, 1), (1, 2)] = .panic := by decide

end Flurry.C19
