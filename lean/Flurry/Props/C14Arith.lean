import Flurry.Gen.Arith
import Flurry.Lemmas.Arith
/-! # C14 (arithmetic half): capacity rounding and thresholds

Statements about the definitions generated from `presize`, `try_presize`, `init_table`,
`add_count` and `load_factor!` in `/repo/src/map.rs`. -/
namespace Flurry.C14
open Flurry.Gen

/-- table lengths chosen by `with_capacity` / `reserve` are powers of two `≤ 2^30` -/
theorem table_size_pow2 (c : Nat) : ∃ k, presizeCap c = 2 ^ k ∧ k ≤ 30 := presizeCap_pow2 c

theorem table_size_le_max (c : Nat) : presizeCap c ≤ MAXIMUM_CAPACITY := by
  obtain ⟨k, hk, hle⟩ := presizeCap_pow2 c
  rw [hk, max_cap_eq]; exact Nat.pow_le_pow_right (by decide) hle

/-- `with_capacity(c)` and `reserve` use the same rounding -/
theorem same_rounding (c : Nat) : tryPresizeCap c = Int.ofNat (presizeCap c) := rfl

/-- **room as requested**: after `with_capacity(c)` (`0 < c < 2^29`) the growth threshold is
strictly above `c`, so the `c`-th insert (which makes the count `c`) does not reach it. -/
theorem with_capacity_room (c : Nat) (h : c < MAXIMUM_CAPACITY / 2) :
    (c : Int) < presizeThreshold (presizeCap c) := by
  rw [presizeCap_small c h]
  have := le_npow2 (c + c / 2 + 1)
  simp only [presizeThreshold, loadFactor, Int.ofNat_eq_natCast]
  omega

/-- the first table made by `reserve`/`try_presize` on an empty map has the same room -/
theorem reserve_room_uninit (c : Nat) (h : c < MAXIMUM_CAPACITY / 2) (sc : Int) (hsc : 0 ≤ sc) :
    (c : Int) < tryPresizeThreshold (tryPresizeInitCap (tryPresizeCap c) sc) := by
  rw [tryPresizeCap_eq, presizeCap_small c h]
  have := le_npow2 (c + c / 2 + 1)
  simp only [tryPresizeThreshold, tryPresizeInitCap, loadFactor, Int.ofNat_eq_natCast]
  omega

/-- `try_presize` stops only when the rounded request is within the threshold (or the table is
at the maximum): so on return, without a race, `requested ≤ size_ctl`. -/
theorem reserve_done_iff (req sc : Int) (cap : Nat) :
    tryPresizeDone req sc cap = true ↔ (req ≤ sc ∨ cap ≥ MAXIMUM_CAPACITY) := by
  simp [tryPresizeDone]

/-- … and a rounded request within the threshold leaves room for the requested entries -/
theorem reserve_room (c : Nat) (h : c < MAXIMUM_CAPACITY / 2) (sc : Int)
    (hdone : tryPresizeCap c ≤ sc) : (c : Int) < sc := by
  rw [tryPresizeCap_eq, presizeCap_small c h] at hdone
  have := le_npow2 (c + c / 2 + 1)
  simp only [Int.ofNat_eq_natCast] at hdone
  omega

/-- lazily created tables: 16 bins by default, threshold 12 -/
theorem init_default : initCapacity 0 = 16 ∧ initThreshold 16 = 12 := by decide

theorem add_count_stored (old n : Int) : addCountStored old n = old + n := by
  simp only [addCountStored, Int.ofNat_eq_natCast]
  split
  · omega
  · split
    · have : (n.natAbs : Int) = -n := by omega
      omega
    · omega

theorem add_count_local (old n : Int) : addCountLocal old n = old + n := by
  simp only [addCountLocal]
  by_cases h1 : n > 0 <;> by_cases h2 : n < 0 <;> simp [h1, h2] <;> omega

/-- The count that `add_count` compares with the threshold is the count it stored. This is the
statement whose failure was finding F3 (`fetch_sub(|n|) - n`). -/
theorem add_count_local_eq_stored (old n : Int) : addCountLocal old n = addCountStored old n := by
  rw [add_count_local, add_count_stored]

/-- removing never makes the compared count reach a threshold it was below -/
theorem removal_count_decreases (old n sc : Int) (hn : n < 0) (hb : addCountBelow old sc = true) :
    addCountBelow (addCountLocal old n) sc = true := by
  rw [add_count_local_eq_stored, add_count_stored]
  simp only [addCountBelow, decide_eq_true_eq] at *
  omega

/-- growth is checked with `≥ threshold` -/
theorem grow_test (count sc : Int) : addCountBelow count sc = true ↔ count < sc := by
  simp [addCountBelow]

/-- treeify / presize thresholds mesh as documented -/
theorem thresholds :
    (∀ b, treeifyCond b = true ↔ 8 ≤ b) ∧ (∀ n, treeifyTooSmall n = true ↔ n < 64) ∧
    (∀ c, untreeifyLow c = true ↔ c ≤ 6) ∧ (∀ c, untreeifyHigh c = true ↔ c ≤ 6) ∧
    (∀ n, treeifyPresizeArg n = 2 * n) := by
  refine ⟨?_, ?_, ?_, ?_, ?_⟩
  · intro x; simp [treeifyCond, TREEIFY_THRESHOLD]
  · intro x; simp only [treeifyTooSmall, MIN_TREEIFY_CAPACITY]; exact decide_eq_true_iff
  · intro x; simp only [untreeifyLow, UNTREEIFY_THRESHOLD]; exact decide_eq_true_iff
  · intro x; simp only [untreeifyHigh, UNTREEIFY_THRESHOLD]; exact decide_eq_true_iff
  · intro x; simp [treeifyPresizeArg]; omega

-- non-vacuity
example : presizeCap 10 = 16 ∧ presizeThreshold 16 = 12 := by
  constructor
  · simp [presizeCap, npow2, npow2Go, MAXIMUM_CAPACITY]
  · decide
example : addCountBelow 10 12 = true := by decide

end Flurry.C14
