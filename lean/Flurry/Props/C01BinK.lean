import Flurry.Proto.BinK
import Flurry.Lemmas.LinSearch
import Flurry.Lemmas.BinKLin
/-! # C01 / C05 / C06 / C07 (bin level): a bin that is converted between a list and a tree under
concurrency is linearizable under every interleaving

`Proto/BinK`: one bin cell — empty, list bin, tree bin — with the lock-free readers, iterators and
locked writers of both forms (`Proto/BinW`, `Proto/BinU`) and the two conversions (`treeify_bin`;
the untreeify path of `replace_node` / `compute_if_present`), each of which replaces the structure
in the cell by a copy while holding the lock of the old one. Threads that loaded the cell before a
conversion go on with the old structure: readers finish on it, writers notice at their re-check of
the cell and start over. The theorems below hold for every number of threads, every interleaving,
every number of conversions in either direction, with treeify allowed on any list bin at any time
and untreeify allowed after any removal (both over-approximate the real thresholds). -/
namespace Flurry.Proto.BinK
open Flurry.Lin

/-- **Structural invariant** (`Lemmas/BinKInv.lean`) in every reachable state. -/
theorem binK_inv {n : Nat} {s : State} (hr : Reachable n s) : Inv s := reachable_inv hr

/-- a conversion does not change what the bin contains: the step that stores the new `TreeBin`
into the cell (treeify) and the step that stores the list copy (untreeify) leave the abstract
state of every key as it was -/
theorem conversion_abs_invariant {n : Nat} {s s' : State} (hr : Reachable n s) {t : Nat}
    {inv : Option (Nat × KOp)} {lo mt sm : Bool} {l : Local}
    (hl : s.threads[t]? = some l)
    (hpc : (∃ h b, l.pc = .kStore h b) ∨ (∃ b res, l.pc = .tUntreeify b res))
    (hs : step s t inv lo mt sm = some s') (k : Nat) : absOf s' k = absOf s k :=
  conversion_abs_invariant_aux hr hl hpc hs k

/-- **C01, bin level, across kind changes.** The per-key history (completed calls plus writers
past their linearization point) is linearizable and ends in the abstract state of the live
structure. -/
theorem binK_linearizable {n : Nat} {s : State} (hr : Reachable n s) (k : Nat) :
    Lin.Linearizable (callsOnExt s k) none (absOf s k) := binK_linearizable_ext hr k

/-- quiescent form -/
theorem binK_linearizable_quiescent {n : Nat} {s : State} (hr : Reachable n s) (hq : quiescent s) (k : Nat) :
    Lin.Linearizable (callsOn s k) none (absOf s k) := binK_linearizable_quiescent_aux hr hq k

/-- C06 at quiescence: if the cell holds a tree bin, nobody holds its write lock and its tree
holds exactly the nodes of its list -/
theorem quiescent_tree_eq_list {n : Nat} {s : State} (hr : Reachable n s) (hq : quiescent s) {b : Nat}
    (hc : s.cell = .tree b) :
    (s.tbins.getD b dfltB).writer = false ∧
    ∀ i, i < s.heap.length → ((s.heap.getD i dflt).owner = some b ∧ (s.heap.getD i dflt).inTree = true ↔ i ∈ chainOfBin s b) :=
  quiescent_tree_eq_list_aux hr hq hc

/-- **the re-check of the cell is load-bearing**: if writers and treeify trust the lock they took
(`stepNoCheck`), some reachable quiescent state has a history that is not linearizable -/
theorem noCheck_refutes :
    ∃ (n : Nat) (s : State) (k : Nat), ReachableNoCheck n s ∧ quiescent s ∧ ¬ Lin.Linearizable (callsOn s k) none (absOf s k) :=
  noCheck_refutes_aux

end Flurry.Proto.BinK
