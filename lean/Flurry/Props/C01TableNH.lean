import Flurry.Proto.TableNH
import Flurry.Lemmas.TableNH
import Flurry.Props.C01BinNH
import Flurry.Props.C01BinNHLin
/-! # C01 / C08 / C10 (table level, any number of COOPERATIVE resizes): ONE sequential order of ALL calls on ALL keys

`Proto/TableNH`: a whole table through any number of resizes, every resize of a lineage done by any number
of resizing threads (initiator and helpers). `m` lineages, each a `Proto/BinNH` lineage — bin `i` of the
initial table and everything it is split into: at generation `g` the cells `(g, j)`, `j < 2^g`, which are
the bins `i + m * j` of the table of length `m * 2^g`. Key `k` lives in lineage `k % m` under the local name
`k / m` (the hash is the key), i.e. in bin `k % (m * 2^g)` of generation `g` (`TableN.binIndex_eq_mod`,
`TableN.bin_index_eq`). `TableNH.step` translates the key of a call into its local name, the map history
records the ORIGINAL key. Any number of threads, a thread inside at most one lineage at a time (idle =
neither in a call nor a resizing thread there), one clock shared by all lineages. The table pointer is
modelled per lineage, which over-approximates the single pointer of the code (header of `Proto/TableN.lean`).

How the lineage-level theorems lift: a `tick` is *itself* a transition of `Proto/BinNH` — the step of a
thread that is idle in that lineage, not a resizing thread there, and starts nothing
(`tableNH_tick_is_lineage_step`). So every lineage of a reachable table is literally `BinNH.Reachable`
(`tableNH_lineage_reachable`) and `binNH_linearizable_quiescent`, `cell_migrated_at_most_once`,
`commit_only_when_all_forwarded`, `stale_helper_is_harmless`, `generations_do_not_overlap`,
`transfer_abs_invariant` apply to it as they stand; the key translation is `Lemmas/TableN.lean`'s; locality
(`C01.locality`) does the rest. -/
namespace Flurry.Proto.TableNH
open Flurry.Lin Flurry.LinMap
open Flurry.Proto.TableN (lineageOf localKey globalKey)
open Flurry.Proto.BinN (cellAt lockAt)

/-- the table keeps its number of lineages -/
theorem bins_length {m n : Nat} {S : State} (hr : Reachable m n S) : S.bins.length = m :=
  (reachable_tblInv hr).len

/-- a tick is a transition of the lineage: the step of a thread that is idle there (no call, not a
resizing thread) and starts nothing -/
theorem tableNH_tick_is_lineage_step {b : BinNH.State} {t : Nat} (h : idleIn b t = true) :
    BinNH.step b t none false false 0 = some (tick b) := tick_is_step h

/-- every lineage of a reachable table is a reachable `Proto/BinNH` lineage -/
theorem tableNH_lineage_reachable {m n : Nat} {S : State} (hr : Reachable m n S) {i : Nat} {b : BinNH.State}
    (hb : S.bins[i]? = some b) : BinNH.Reachable n b := (reachable_tblInv hr).reach i b hb

/-- a call is started in the lineage of its key, under its local name -/
theorem tableNH_call_in_own_lineage {S S' : State} {i t k : Nat} {op : KOp} {rz leave : Bool} {pick : Nat}
    (hs : step S i t (some (k, op)) rz leave pick = some S') :
    lineageOf S.bins.length k = i ∧ ∃ b b', S.bins[i]? = some b ∧
      BinNH.step b t (some (localKey S.bins.length k, op)) rz leave pick = some b' ∧ S'.bins[i]? = some b' :=
  step_call hs

/-- every call of the map history on key `k` is recorded in lineage `k % m`, under the local name `k / m` -/
theorem tableNH_key_in_own_lineage {m n : Nat} {S : State} (hr : Reachable m n S) {c : MCall} (hc : c ∈ mhist S) :
    ∃ b, S.bins[lineageOf m c.key]? = some b ∧ (localKey m c.key, c.call) ∈ b.n.hist :=
  mhist_own_lineage (reachable_tblInv hr) hc

/-! ## the cooperative resize, lineage by lineage -/

/-- **generations do not overlap, lineage by lineage** (`BinNH.generations_do_not_overlap`) -/
theorem tableNH_generations_do_not_overlap {m n : Nat} {S : State} (hr : Reachable m n S) {i : Nat}
    {b : BinNH.State} (hb : S.bins[i]? = some b) :
    b.n.tabs.length = b.n.cur + 1 + (if b.n.resizing then 1 else 0) ∧
    (∀ g row, b.n.tabs[g]? = some row → row.length = 2 ^ g) ∧
    (∀ (t : Nat) (hp : BinNH.Helper), b.hs[t]? = some (some hp) →
      hp.g ≤ b.n.cur ∧ (hp.g = b.n.cur → b.n.resizing = true)) ∧
    (∀ (t : Nat) (hp : BinNH.Helper) (j h : Nat), b.hs[t]? = some (some hp) → BinNH.hvalid hp.pc = some (j, h) →
      hp.g = b.n.cur ∧ b.n.resizing = true ∧ cellAt b.n b.n.cur j = .node h ∧ lockAt b.n.heap h = some t) :=
  BinNH.generations_do_not_overlap (tableNH_lineage_reachable hr hb)

/-- **old generations are forwarded, lineage by lineage** -/
theorem tableNH_old_generations_forwarded {m n : Nat} {S : State} (hr : Reachable m n S) {i : Nat}
    {b : BinNH.State} (hb : S.bins[i]? = some b) {g j : Nat} (hg : g < b.n.cur) (hj : j < 2 ^ g) :
    cellAt b.n g j = .moved :=
  BinNH.old_generations_forwarded (tableNH_lineage_reachable hr hb) hg hj

/-- **a cell (= a bin `i + m * j` of the table of generation `g`) is migrated at most once**, whichever and
however many helpers work on lineage `i` (`BinNH.cell_migrated_at_most_once`, for every transition `b → b'`
of the lineage — in particular the one a table transition makes in it) -/
theorem tableNH_cell_migrated_at_most_once {m n : Nat} {S : State} (hr : Reachable m n S) {i : Nat}
    {b : BinNH.State} (hb : S.bins[i]? = some b) :
    (∀ {b' t inv rz leave pick} (_ : BinNH.step b t inv rz leave pick = some b') (g j : Nat),
      cellAt b.n g j = .moved → cellAt b'.n g j = .moved) ∧
    (∀ {b' t inv rz leave pick} (_ : BinNH.step b t inv rz leave pick = some b') (g j : Nat),
      cellAt b.n g j ≠ .moved → cellAt b'.n g j = .moved →
      ∃ hp, b.hs[t]? = some (some hp) ∧ hp.g = g ∧ g = b.n.cur ∧ b.n.resizing = true ∧ j < 2 ^ g ∧
        ((hp.pc = .casMoved j ∧ cellAt b.n g j = .empty) ∨
         ∃ h, hp.pc = .storeMoved j h ∧ cellAt b.n g j = .node h ∧ lockAt b.n.heap h = some t)) ∧
    (∀ (t t1 : Nat) (hp hp1 : BinNH.Helper) (j h h1 : Nat), b.hs[t]? = some (some hp) →
      b.hs[t1]? = some (some hp1) → hp.g = hp1.g →
      BinNH.hvalid hp.pc = some (j, h) → BinNH.hvalid hp1.pc = some (j, h1) → t = t1) ∧
    (∀ {b' : BinNH.State} {t : Nat} {hp : BinNH.Helper} {j h : Nat} {inv rz leave pick},
      b.hs[t]? = some (some hp) → hp.pc = .check j h →
      cellAt b.n hp.g j = .moved → BinNH.step b t inv rz leave pick = some b' →
      b'.hs[t]? = some (some ⟨hp.g, .cell j⟩) ∧ lockAt b'.n.heap h = none ∧ b'.n.tabs = b.n.tabs) :=
  BinNH.cell_migrated_at_most_once (tableNH_lineage_reachable hr hb)

/-- the same for the transition a TABLE transition makes in the acting lineage: a forwarding marker of any
lineage is stable under every transition of the table -/
theorem tableNH_markers_stable {m n : Nat} {S S' : State} (hr : Reachable m n S) {i t : Nat}
    {inv : Option (Nat × KOp)} {rz leave : Bool} {pick : Nat} (hs : step S i t inv rz leave pick = some S')
    {j : Nat} {c c' : BinNH.State} (hc : S.bins[j]? = some c) (hc' : S'.bins[j]? = some c') (g x : Nat)
    (hm : cellAt c.n g x = .moved) : cellAt c'.n g x = .moved := by
  obtain ⟨b, b', hb, hidle, _, hb', rfl⟩ := step_eq_some hs
  rcases step_bins hb hidle (b' := b') j c' hc' with ⟨rfl, rfl⟩ | ⟨_, b0, hj, rfl, hid⟩
  · rw [hb] at hc; cases hc
    exact (BinNH.cell_migrated_at_most_once (tableNH_lineage_reachable hr hb)).1 hb' g x hm
  · rw [hj] at hc; cases hc
    exact hm

/-- **commit only when all forwarded, lineage by lineage** (`BinNH.commit_only_when_all_forwarded`) -/
theorem tableNH_commit_only_when_all_forwarded {m n : Nat} {S : State} (hr : Reachable m n S) {i : Nat}
    {b : BinNH.State} (hb : S.bins[i]? = some b) :
    (∀ {b' t inv rz leave pick}, BinNH.step b t inv rz leave pick = some b' → b'.n.cur ≠ b.n.cur →
      b'.n.cur = b.n.cur + 1 ∧ b.n.resizing = true ∧ b.hs[t]? = some (some ⟨b.n.cur, .commit⟩) ∧
      (∀ j, j < 2 ^ b.n.cur → cellAt b.n b.n.cur j = .moved) ∧
      (∀ (t1 : Nat) (hp : BinNH.Helper), b.hs[t1]? = some (some hp) → BinNH.hvalid hp.pc = none)) ∧
    (∀ (t : Nat) (hp : BinNH.Helper), b.hs[t]? = some (some hp) → hp.pc = .commit → hp.g = b.n.cur →
      ∀ j, j < 2 ^ b.n.cur → cellAt b.n b.n.cur j = .moved) :=
  BinNH.commit_only_when_all_forwarded (tableNH_lineage_reachable hr hb)

/-- **a stale helper is harmless, in every lineage** (`BinNH.stale_helper_is_harmless`) -/
theorem tableNH_stale_helper_is_harmless {m n : Nat} {S : State} (hr : Reachable m n S) {i : Nat}
    {b b' : BinNH.State} (hb : S.bins[i]? = some b) {t : Nat} {hp : BinNH.Helper}
    {inv : Option (Nat × KOp)} {rz leave : Bool} {pick : Nat} (hh : b.hs[t]? = some (some hp))
    (hg : hp.g < b.n.cur) (hs : BinNH.step b t inv rz leave pick = some b') :
    b'.n.tabs = b.n.tabs ∧ b'.n.cur = b.n.cur ∧ b'.n.resizing = b.n.resizing ∧ b'.n.hist = b.n.hist ∧
    b'.n.threads = b.n.threads ∧ BinNH.hvalid hp.pc = none ∧
    (b'.n.heap = b.n.heap ∨ ∃ h x, b'.n.heap = b.n.heap.modify h (fun m => { m with lock := x })) ∧
    ∀ k, BinNH.absOf b' k = BinNH.absOf b k :=
  BinNH.stale_helper_is_harmless (tableNH_lineage_reachable hr hb) hh hg hs

/-- no step of a resizing thread of any lineage, and no start / joining of a resize, changes the abstract
state of any key -/
theorem tableNH_transfer_abs_invariant {m n : Nat} {S : State} (hr : Reachable m n S) {i : Nat}
    {b b' : BinNH.State} (hb : S.bins[i]? = some b) {t : Nat} {inv : Option (Nat × KOp)} {rz leave : Bool}
    {pick : Nat} (hs : BinNH.step b t inv rz leave pick = some b')
    (hT : (∃ hp, b.hs[t]? = some (some hp)) ∨ (b.hs[t]? = some none ∧ b'.hs[t]? ≠ some none)) (q : Nat) :
    BinNH.absOf b' q = BinNH.absOf b q :=
  BinNH.transfer_abs_invariant (tableNH_lineage_reachable hr hb) hs hT q

/-! ## the history of the map -/

/-- no call responds before it is invoked (one clock for all lineages) -/
theorem tableNH_inv_le_resp {m n : Nat} {S : State} (hr : Reachable m n S) :
    ∀ c ∈ mhist S, c.call.inv ≤ c.call.resp := mhist_wf hr

/-- the projection of the map history on key `k` is — as a list — the history of the local key `k / m` in
lineage `k % m` -/
theorem tableNH_proj_eq {m n : Nat} (hm : 0 < m) {S : State} (hr : Reachable m n S) {k : Nat} {b : BinNH.State}
    (hb : S.bins[lineageOf m k]? = some b) : proj (mhist S) k = BinNH.callsOn b (localKey m k) :=
  proj_mhist hm (reachable_tblInv hr) hb

/-- per key, in every reachable state (completed calls plus writers past their linearization point) -/
theorem tableNH_key_linearizable_ext {m n : Nat} {S : State} (hr : Reachable m n S) {k : Nat} {b : BinNH.State}
    (hb : S.bins[lineageOf m k]? = some b) :
    Lin.Linearizable (BinNH.callsOnExt b (localKey m k)) none (BinNH.absOf b (localKey m k)) :=
  BinNH.binNH_linearizable (tableNH_lineage_reachable hr hb) (localKey m k)

/-- per key, at quiescence -/
theorem tableNH_key_linearizable {m n : Nat} (hm : 0 < m) {S : State} (hr : Reachable m n S) (hq : quiescent S)
    (k : Nat) : Lin.Linearizable (proj (mhist S) k) none (absMap S k) :=
  tableNH_key_linearizable_aux hm hr hq k

/-- **C01 for a whole table through any number of COOPERATIVE resizes: ONE sequential order of ALL calls on
ALL keys** respects real time and replays through the sequential specification of a map, from the empty map
to the abstract map of the table — helpers inside every lineage, different lineages transferred by
different threads. -/
theorem tableNH_map_linearizable {m n : Nat} (hm : 0 < m) {S : State} (hr : Reachable m n S) (hq : quiescent S) :
    LinMap.MapLinearizable (mhist S) (fun _ => none) (absMap S) :=
  tableNH_map_linearizable_aux hm hr hq

/-! ## non-vacuity -/

/-- the model refuses a call on a key of another lineage, and a thread that is a resizing thread (helper) of
another lineage; two threads may help the same lineage while a third resizes another one -/
example : (step (init 2 3) 0 0 (some (1, .ins 1 1)) false false 0).isNone = true ∧
    ((step (init 2 3) 0 0 none true false 0).bind fun S => step S 1 0 none true false 0).isNone = true ∧
    ((step (init 2 3) 0 0 none true false 0).bind fun S => (step S 0 1 none true false 0).bind fun S =>
      (step S 1 2 none true false 0).bind fun S => step S 0 1 none false false 0).isSome = true := by
  decide

end Flurry.Proto.TableNH
