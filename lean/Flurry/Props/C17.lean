import Flurry.Props.C17Defs
/-! # C17 — only thread-safe keys and values can enter a map (compile time): table theorems

Definitions (`inserting`, `sendSync`, `lookupLike`) are in `Props/C17Defs.lean`. -/
namespace Flurry.C17
open Flurry.Sig Flurry.Gen

/-- **table theorem**: every inserting entry point requires `Send + Sync` of keys and values -/
theorem inserting_needs_send_sync : (apiFns.filter inserting).all sendSync = true := by decide

theorem lookup_unbounded :
    (apiFns.filter lookupLike).all
      (fun f => f.bounds.all fun b => b.2 != "Send" && b.2 != "Sync") = true := by decide

/-- the `unsafe impl Send/Sync for BinEntry` are conditional on the key and value types -/
theorem binentry_conditional :
    unsafeImpls.all (fun u =>
      u.bounds.any (fun b => b.1 == "K" && b.2 == u.trait_) &&
      u.bounds.any (fun b => b.1 == "V" && b.2 == u.trait_)) = true ∧
    2 ≤ unsafeImpls.length := by decide

-- non-vacuity: the entry points the property names are classified as inserting
example : (apiFns.filter inserting).length ≥ 20 := by decide
example : ["insert", "try_insert", "compute_if_present", "extend", "from_iter", "clone", "deserialize",
    "from_par_iter", "par_extend"].all (fun n => (apiFns.filter inserting).any (·.fn == n)) = true := by decide

end Flurry.C17
