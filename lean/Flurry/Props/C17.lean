import Flurry.SigDefs
import Flurry.Gen.Api
/-! # C17 — only thread-safe keys and values can enter a map (compile time)

Over the regenerated signature table `Flurry.Gen.apiFns`. "Inserting entry point" is computed
from the signature, not listed: a method that takes a key/value/element *by value*
(`K`, `V`, `T` as a parameter type), or a closure producing a value, or one of the bulk traits
(`Extend`, `FromIterator`, `Clone`, `Deserialize`, `FromParallelIterator`, `ParallelExtend`) on an
owning collection type. -/
namespace Flurry.C17
open Flurry.Sig Flurry.Gen

def ownsData (f : ApiFn) : Bool := f.ty == "HashMap" || f.ty == "HashSet" || f.ty == "HashMapRef" || f.ty == "HashSetRef"

def byValueParam (f : ApiFn) : Bool := f.params.any fun p => f.elems.contains p.2

def producesValue (f : ApiFn) : Bool := f.makesValue

def bulkTrait (f : ApiFn) : Bool :=
  (f.traitHead == "Extend" || f.traitHead == "FromIterator" || f.traitHead == "Clone" ||
   f.traitHead == "Deserialize" || f.traitHead == "FromParallelIterator" ||
   f.traitHead == "ParallelExtend") &&
  -- `Clone` of a reference wrapper copies no keys or values
  !(f.traitHead == "Clone" && (f.ty == "HashMapRef" || f.ty == "HashSetRef"))

def inserting (f : ApiFn) : Bool :=
  ownsData f && f.selfKind != "assoc" && (byValueParam f || producesValue f || bulkTrait f)

def hasBound (f : ApiFn) (ty bound : String) : Bool := f.bounds.any fun b => b.1 == ty && b.2 == bound

/-- `Send + Sync` on every element type parameter of the row's collection (`K`,`V` for maps, the
element type for sets, under whatever name the impl block gives them) -/
def sendSync (f : ApiFn) : Bool :=
  !f.elems.isEmpty && f.elems.all fun p => hasBound f p "Send" && hasBound f p "Sync"

/-- **table theorem**: every inserting entry point requires `Send + Sync` of keys and values -/
theorem inserting_needs_send_sync : (apiFns.filter inserting).all sendSync = true := by decide

/-- lookups, iteration and size queries carry no thread-safety bound -/
def lookupLike (f : ApiFn) : Bool :=
  ownsData f && (f.fn == "get" || f.fn == "get_key_value" || f.fn == "contains_key" || f.fn == "contains" ||
    f.fn == "iter" || f.fn == "keys" || f.fn == "values" || f.fn == "len" || f.fn == "is_empty")

theorem lookup_unbounded :
    (apiFns.filter lookupLike).all
      (fun f => f.bounds.all fun b => b.2 != "Send" && b.2 != "Sync") = true := by decide

/-- the `unsafe impl Send/Sync for BinEntry` are conditional on the key and value types -/
theorem binentry_conditional :
    unsafeImpls.all (fun u =>
      u.bounds.any (fun b => b.1 == "K" && b.2 == u.trait_) &&
      u.bounds.any (fun b => b.1 == "V" && b.2 == u.trait_)) = true ∧
    2 ≤ unsafeImpls.length := by decide

-- non-vacuity: the entry points the property names are classified as inserting
example : (apiFns.filter inserting).length ≥ 20 := by decide
example : ["insert", "try_insert", "compute_if_present", "extend", "from_iter", "clone", "deserialize",
    "from_par_iter", "par_extend"].all (fun n => (apiFns.filter inserting).any (·.fn == n)) = true := by decide

end Flurry.C17
