import Flurry.Proto.BinGN
import Flurry.Props.C01BinGN
import Flurry.Props.C01BinGNLin
import Flurry.Lemmas.BinGNQuiescent
import Flurry.Lemmas.BinGNQuiescentExamples
/-! # C05 (bin level, concurrent model, ANY NUMBER of resizes): at quiescence iteration = lookup, nothing half-done
is left behind

> Whenever no operation is in flight, iteration yields exactly the keys for which lookup succeeds —
> each exactly once and with the value lookup returns. Every entry then resides where a lookup for its
> hash searches, no key occurs twice, no forwarding marker or half-finished resize is left behind, and
> no lock is left held.

For `Proto/BinGN` (one bin lineage through any number of successive resizes: the cells `(g, j)`, `j < 2^g`, of the
generations `g = 0, 1, 2, …`; list bins and tree bins with both conversions, lock-free readers, locked writers, the
transfer of empty / list / tree bins including the re-used `TreeBin`; one shared-memory access per transition, any
number of threads, every interleaving). `quiescent s`: every thread is idle — no call, no treeify, no resize in
flight. This is `Props/C05BinG.lean` (one resize, three cells) for the `2^cur` cells of generation `cur`.

* `liveIds s` / `liveCells s` (`Lemmas/BinGNQuiescent.lean`): the cells a lookup that starts now can end in — below
  `(cur, j)`: the cell itself until its forwarding marker is stored, its two children `(cur+1, j)`,
  `(cur+1, j + 2^cur)` afterwards (`liveCell s k ∈ liveCells s`). **At quiescence these are exactly the cells
  `(cur, 0) … (cur, 2^cur − 1)`** (`quiescent_no_half_resize`, `quiescent_entries_eq`);
* `entries s`: the (key, value) pairs of the nodes on the lists of the live cells, in cell order and list order — what
  an iterator that starts now and runs alone yields (for a tree bin the iterator walks the `first` / `next` list);
* `absOf s k`: what a lookup of `k` finds; by `binGN_linearizable_quiescent` it is the state the completed calls on
  `k` linearize to.

The list facts (`keys_distinct`, `iter_agrees`, `entry_in_own_cell`) hold in every reachable state
(`reachable_iter_agrees`): they are consequences of the structural invariant `binGN_inv` (within a cell: distinct
keys, `CInv.distinct`; across cells: `HInv.side`, every key of cell `(g, j)` has `key % 2^g = j`). What quiescence
adds: nothing is locked, the resize is all-or-nothing, the tree of every `TreeBin` in a cell holds exactly the nodes
of its list, and `absOf` is the linearized outcome of the history. Proofs: `Lemmas/BinGNQuiescent.lean`. -/
namespace Flurry.Proto.BinGN
open Flurry.Lin
open Flurry.Proto.BinK (nodeAt binAt)
open Flurry.Proto.BinGNQ (liveIds liveCells entriesOfCell entries QView qview)

/-! ## 1. no half-finished resize -/

/-- in every reachable state: while `resizing` is set some thread is performing the resize -/
theorem resize_at_work {n : Nat} {s : State} (hr : Reachable n s) (h : s.resizing = true) :
    ∃ (t : Nat) (l : Local), s.threads[t]? = some l ∧ (desc s.cur l).isX = true :=
  (lock_words_have_owners hr).2.2 h

/-- **no forwarding marker or half-finished resize is left behind**: at quiescence no resize is running, exactly the
generations `0 … cur` exist (generation `g` with `2^g` cells), every older generation is entirely forwarded, generation
`cur` holds no forwarding marker, every lookup ends in generation `cur`, and the live cells are exactly the cells
`(cur, 0) … (cur, 2^cur − 1)` -/
theorem quiescent_no_half_resize {n : Nat} {s : State} (hr : Reachable n s) (hq : quiescent s) :
    s.resizing = false ∧ s.tabs.length = s.cur + 1 ∧
    (∀ g row, s.tabs[g]? = some row → row.length = 2 ^ g) ∧
    (∀ g j, g < s.cur → j < 2 ^ g → cellAt s g j = .moved) ∧
    (∀ j, cellAt s s.cur j ≠ .moved) ∧
    (∀ k, liveCell s k = cellOf s s.cur k) ∧
    liveCells s = (List.range (2 ^ s.cur)).map (fun j => cellAt s s.cur j) := by
  obtain ⟨h1, h2, h3, h4, -, -⟩ := quiescent_shape hr hq
  exact ⟨h1, h2, (generations_do_not_overlap hr).2.1, fun g j hg hj => old_generations_forwarded hr hg hj, h3, h4,
    BinGNQ.liveCells_of_not_moved (fun j => h3 j)⟩

/-- no live cell holds the forwarding marker (in every reachable state) -/
theorem quiescent_live_not_moved {n : Nat} {s : State} (hr : Reachable n s) : ∀ c ∈ liveCells s, c ≠ .moved :=
  fun _ hc => BinGNQ.liveCells_not_moved (binGN_inv hr).rsz hc

/-! ## 2. no lock is left held -/

/-- **nothing is locked at quiescence**: the lock word of every node is free, the mutex of every `TreeBin` is free,
no `TreeBin` has a reader inside, and every `TreeBin` that is in a cell (of any generation) has its write lock and
its waiter bit clear -/
theorem quiescent_unlocked {n : Nat} {s : State} (hr : Reachable n s) (hq : quiescent s) :
    (∀ j, (nodeAt s.heap j).lock = none) ∧ (∀ b, (binAt s.tbins b).mutex = none) ∧
    (∀ b, b < s.tbins.length → (binAt s.tbins b).readers = 0) ∧
    ∀ g j b, cellAt s g j = .tree b → (binAt s.tbins b).writer = false ∧ (binAt s.tbins b).waiter = false :=
  ⟨BinGNQ.quiescent_node_unlocked (binGN_inv hr) hq, BinGNQ.quiescent_mutex_free (binGN_inv hr) hq,
    fun _ hb => BinGNQ.quiescent_no_readers (binGN_inv hr) hq hb,
    fun g j _ hc => ⟨(BinGNQ.quiescent_bin_unlocked (binGN_inv hr) hq (id := (g, j)) hc).2.1,
      (BinGNQ.quiescent_bin_unlocked (binGN_inv hr) hq (id := (g, j)) hc).2.2.1⟩⟩

/-- the same, for what a lookup or an iterator can reach: no node on the list of a live cell has its lock word
taken; a `TreeBin` in a live cell has `mutex = none`, `writer = false`, `waiter = false`, `readers = 0` -/
theorem quiescent_live_cells_unlocked {n : Nat} {s : State} (hr : Reachable n s) (hq : quiescent s)
    {c : Cell} (hc : c ∈ liveCells s) :
    (∀ j ∈ chainOfCell s c, (nodeAt s.heap j).lock = none) ∧
    ∀ b, c = .tree b → (binAt s.tbins b).mutex = none ∧ (binAt s.tbins b).writer = false ∧
      (binAt s.tbins b).waiter = false ∧ (binAt s.tbins b).readers = 0 :=
  BinGNQ.quiescent_live_unlocked (binGN_inv hr) hq hc

/-- … stated for the cells of generation `cur`: a `TreeBin` in cell `(cur, j)` exists and is completely unlocked -/
theorem quiescent_cur_bins_unlocked {n : Nat} {s : State} (hr : Reachable n s) (hq : quiescent s) {j b : Nat}
    (hc : cellAt s s.cur j = .tree b) :
    b < s.tbins.length ∧ (binAt s.tbins b).mutex = none ∧ (binAt s.tbins b).writer = false ∧
      (binAt s.tbins b).waiter = false ∧ (binAt s.tbins b).readers = 0 :=
  ⟨(binGN_inv hr).heap.cellOK (s.cur, j) b hc, BinGNQ.quiescent_bin_unlocked (binGN_inv hr) hq (id := (s.cur, j)) hc⟩

/-! ## 3. iteration = lookup -/

/-- the cell a lookup of `k` ends in is one of the live cells -/
theorem liveCell_is_live {n : Nat} {s : State} (hr : Reachable n s) (k : Nat) : liveCell s k ∈ liveCells s :=
  BinGNQ.liveCell_mem_liveCells (binGN_inv hr).rsz k

/-- at quiescence the iterator yields the entries of the cells `(cur, 0) … (cur, 2^cur − 1)`, in this order -/
theorem quiescent_entries_eq {n : Nat} {s : State} (hr : Reachable n s) (hq : quiescent s) :
    entries s = (List.range (2 ^ s.cur)).flatMap fun j => entriesOfCell s (cellAt s s.cur j) :=
  BinGNQ.entries_of_not_moved (fun j => (quiescent_shape hr hq).2.2.1 j)

/-- **no key occurs twice**, across ALL live cells -/
theorem quiescent_keys_distinct {n : Nat} {s : State} (hr : Reachable n s) (_hq : quiescent s) :
    ((entries s).map (·.1)).Nodup := BinGNQ.entries_keys_nodup (binGN_inv hr).heap

/-- no entry is yielded twice -/
theorem quiescent_entries_nodup {n : Nat} {s : State} (hr : Reachable n s) (_hq : quiescent s) :
    (entries s).Nodup := BinGNQ.entries_nodup (binGN_inv hr).heap

/-- **every entry resides where a lookup for its key searches**: an entry found in cell `(cur, j)` has
`key % 2^cur = j`, and every entry is on the list of the cell a lookup of its key ends in — at quiescence the cell
`(cur, key % 2^cur)` -/
theorem quiescent_entry_in_own_cell {n : Nat} {s : State} (hr : Reachable n s) (hq : quiescent s)
    {k : Nat} {v : Nat × Nat} :
    (∀ j, (k, v) ∈ entriesOfCell s (cellAt s s.cur j) → k % 2 ^ s.cur = j) ∧
    ((k, v) ∈ entries s → (k, v) ∈ entriesOfCell s (liveCell s k)) ∧
    ((k, v) ∈ entries s → (k, v) ∈ entriesOfCell s (cellOf s s.cur k)) := by
  have I := binGN_inv hr
  refine ⟨fun j h => BinGNQ.cell_side I.heap (id := (s.cur, j)) h, (BinGNQ.entries_in_liveCell I.heap I.rsz).1, ?_⟩
  intro h
  rw [← (quiescent_shape hr hq).2.2.2.1 k]
  exact (BinGNQ.entries_in_liveCell I.heap I.rsz).1 h

/-- **iteration yields exactly the keys for which lookup succeeds, with the value lookup returns** -/
theorem quiescent_iter_agrees {n : Nat} {s : State} (hr : Reachable n s) (_hq : quiescent s) (k : Nat) (v : Nat × Nat) :
    (k, v) ∈ entries s ↔ absOf s k = some v :=
  BinGNQ.mem_entries_iff_absOf (binGN_inv hr).heap (binGN_inv hr).rsz k v

/-- … and what lookup returns is what the completed calls on the key linearize to: the history of a
yielded key linearizes to "present with the yielded value", that of any other key to "absent" -/
theorem quiescent_iter_linearized {n : Nat} {s : State} (hr : Reachable n s) (hq : quiescent s) (k : Nat) :
    (∀ v, (k, v) ∈ entries s → Lin.Linearizable (callsOn s k) none (some v)) ∧
    (k ∉ (entries s).map (·.1) → Lin.Linearizable (callsOn s k) none none) :=
  BinGNQ.entries_linearized hr hq k

/-- **each exactly once — the count**: the keys yielded are the keys a lookup finds (`absOf s k ≠ none`),
without repetition; hence any duplicate-free enumeration `ks` of those keys is a permutation of the
keys yielded, and the number of entries is the number of such keys -/
theorem quiescent_len {n : Nat} {s : State} (hr : Reachable n s) (_hq : quiescent s) :
    ((entries s).map (·.1)).Nodup ∧ (∀ k, k ∈ (entries s).map (·.1) ↔ absOf s k ≠ none) ∧
    ∀ ks : List Nat, ks.Nodup → (∀ k, k ∈ ks ↔ absOf s k ≠ none) →
      ks.Perm ((entries s).map (·.1)) ∧ ks.length = (entries s).length :=
  ⟨BinGNQ.entries_keys_nodup (binGN_inv hr).heap, BinGNQ.mem_keys_iff_absOf (binGN_inv hr).heap (binGN_inv hr).rsz,
    fun _ hnd hks => BinGNQ.entries_count (binGN_inv hr).heap (binGN_inv hr).rsz hnd hks⟩

/-- for a `TreeBin` in a live cell the tree set is the list set: it is unlocked and its tree holds
exactly the nodes of its list (`quiescent_tree_eq_list` of `Props/C01BinGNLin.lean`), so lookups through
the tree and the iterator over the list see the same nodes -/
theorem quiescent_live_tree_eq_list {n : Nat} {s : State} (hr : Reachable n s) (hq : quiescent s) {b : Nat}
    (hc : Flurry.Proto.BinG.Cell.tree b ∈ liveCells s) :
    (binAt s.tbins b).mutex = none ∧ (binAt s.tbins b).writer = false ∧
    ∀ i, i < s.heap.length → ((nodeAt s.heap i).owner = some b ∧ (nodeAt s.heap i).inTree = true ↔
      i ∈ chainOfBin s b) :=
  (BinGNQ.liveCells_sub hc).elim fun id hid => quiescent_tree_eq_list hr hq (g := id.1) (j := id.2) hid.2.symm

/-! the list facts do not need quiescence -/

/-- in every reachable state — also while a resize is running, where the live cells are the cells of generation `cur`
that are not yet forwarded and the children of those that are — the entries on the live lists are exactly the
abstract content, no key twice, every entry in the cell of its key -/
theorem reachable_iter_agrees {n : Nat} {s : State} (hr : Reachable n s) :
    ((entries s).map (·.1)).Nodup ∧ (∀ k v, (k, v) ∈ entries s ↔ absOf s k = some v) ∧
    (∀ k v, (k, v) ∈ entries s → (k, v) ∈ entriesOfCell s (liveCell s k)) ∧
    ∀ g j k v, (k, v) ∈ entriesOfCell s (cellAt s g j) → k % 2 ^ g = j :=
  ⟨BinGNQ.entries_keys_nodup (binGN_inv hr).heap, BinGNQ.mem_entries_iff_absOf (binGN_inv hr).heap (binGN_inv hr).rsz,
    fun _ _ => (BinGNQ.entries_in_liveCell (binGN_inv hr).heap (binGN_inv hr).rsz).1,
    fun g j _ _ h => BinGNQ.cell_side (binGN_inv hr).heap (id := (g, j)) h⟩

/-! ## 4. non-vacuity: kernel-checked reachable quiescent states (`Lemmas/BinGNQuiescentExamples.lean`) -/

/-- **after two resizes, with tree bins** (`schedStale2`: `TreeBin` 0 over the keys 1, 3, 5, 0 is split into two fresh
`TreeBin`s by resize `0 → 1`; resize `1 → 2` re-uses bin 1 in `(2,0)` and splits bin 2 into the fresh `TreeBin` 3 in
`(2,1)` and a plain list in `(2,3)`; a reader and a writer sleep inside the dead bin 0 through both resizes, then an
update and lookups in generation 2): the state is reachable and quiescent, generations 0 and 1 are forwarded, the live
cells are the four cells of generation 2, the iterator yields the keys 0 | 1, 5 | – | 3 with the updated values,
which is the abstract state of the keys `0 … 5`; every lock word and every `TreeBin` is unlocked — all computed by
`decide` — and, as the theorems say, iteration = lookup for EVERY key, no key twice -/
example : ∃ s, Reachable 4 s ∧ quiescent s ∧
    qview s = ⟨true, 2, false, [[.moved], [.moved, .moved], [.tree 1, .tree 3, .empty, .list 14]],
      [.tree 1, .tree 3, .empty, .list 14], [(0, (3, 103)), (1, (9, 105)), (5, (4, 102)), (3, (8, 104))],
      [some (3, 103), some (9, 105), none, some (8, 104), none, some (4, 102)], true,
      [(none, false, false, 0), (none, false, false, 0), (none, false, false, 0), (none, false, false, 0)]⟩ ∧
    (∀ k v, (k, v) ∈ entries s ↔ absOf s k = some v) ∧ ((entries s).map (·.1)).Nodup ∧
    liveCells s = (List.range (2 ^ s.cur)).map (fun j => cellAt s s.cur j) := by
  obtain ⟨s, hr, hq, hv⟩ := BinGNQ.of_qview BinGNQ.qview_stale2
  exact ⟨s, hr, hq rfl, hv, quiescent_iter_agrees hr (hq rfl), quiescent_keys_distinct hr (hq rfl),
    (quiescent_no_half_resize hr (hq rfl)).2.2.2.2.2.2⟩

/-- after two resizes that both re-use the one `TreeBin` (`schedReuse2`, with a writer queued on its mutex and a
reader holding its read lock across both): the live cells are `tree 0` and three empty cells -/
example : ∃ s, Reachable 4 s ∧ quiescent s ∧
    qview s = ⟨true, 2, false, [[.moved], [.moved, .moved], [.tree 0, .empty, .empty, .empty]],
      [.tree 0, .empty, .empty, .empty], [(0, (5, 100)), (4, (7, 102))],
      [some (5, 100), none, none, none, some (7, 102), none], true, [(none, false, false, 0)]⟩ ∧
    (∀ k v, (k, v) ∈ entries s ↔ absOf s k = some v) := by
  obtain ⟨s, hr, hq, hv⟩ := BinGNQ.of_qview BinGNQ.qview_reuse2
  exact ⟨s, hr, hq rfl, hv, quiescent_iter_agrees hr (hq rfl)⟩

/-- a NON-quiescent state, a resize in progress (`schedMid`: cell `(0,0)` is forwarded, the table pointer still refers
to generation 0): the live cells are the two children `(1,0)`, `(1,1)`, and the entries on their lists are the
abstract state (`reachable_iter_agrees`) -/
example : ∃ s, Reachable 4 s ∧
    qview s = ⟨false, 0, true, [[.moved], [.tree 1, .tree 2]], [.tree 1, .tree 2],
      [(0, (3, 103)), (1, (5, 100)), (3, (6, 101)), (5, (4, 102))],
      [some (3, 103), some (5, 100), none, some (6, 101), none, some (4, 102)], true,
      [(none, false, false, 0), (none, false, false, 0), (none, false, false, 0)]⟩ ∧
    (∀ k v, (k, v) ∈ entries s ↔ absOf s k = some v) := by
  obtain ⟨s, hr, -, hv⟩ := BinGNQ.of_qview BinGNQ.qview_mid
  exact ⟨s, hr, hv, (reachable_iter_agrees hr).2.1⟩

end Flurry.Proto.BinGN
