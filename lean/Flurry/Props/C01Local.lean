import Flurry.Lemmas.LinLocal
/-! # C01 — locality: deciding every key's history decides the map's history

The checks decide, per key, whether the recorded history of the real map is linearizable
(`C01.decision_correct`); the bin-level theorems (`bin_linearizable`, `bint_linearizable_quiescent`,
`binx_linearizable_quiescent`, …) are per key too. C01 itself speaks about *one* sequential order
of *all* calls on the map. These two theorems close that gap (Herlihy & Wing's locality, proved
here for the map object rather than cited): a map history is linearizable — one total order of
all calls, real-time order respected, every call returning what a sequential map returns — iff
its projection on every key is.

The only hypothesis is that no call responds before it is invoked (the harness' call-boundary
clock guarantees `inv < resp`). -/
namespace Flurry.C01
open Flurry.Lin Flurry.LinMap

/-- per-key linearizable ⇒ map linearizable -/
theorem locality {h : MHistory} {init fin : MSt}
    (hwf : ∀ c ∈ h, c.call.inv ≤ c.call.resp)
    (hk : ∀ k, Linearizable (proj h k) (init k) (fin k)) : MapLinearizable h init fin :=
  map_linearizable_of_proj hwf hk

/-- map linearizable ⇒ per-key linearizable (so nothing is lost by deciding key by key) -/
theorem locality_converse {h : MHistory} {init fin : MSt}
    (hm : MapLinearizable h init fin) (k : Nat) : Linearizable (proj h k) (init k) (fin k) :=
  proj_linearizable_of_map hm k

theorem locality_iff {h : MHistory} {init fin : MSt} (hwf : ∀ c ∈ h, c.call.inv ≤ c.call.resp) :
    MapLinearizable h init fin ↔ ∀ k, Linearizable (proj h k) (init k) (fin k) :=
  ⟨fun hm k => locality_converse hm k, locality hwf⟩

/-- a key nobody called keeps its state -/
theorem untouched_key_unchanged {h : MHistory} {init fin : MSt} (hm : MapLinearizable h init fin)
    (k : Nat) (hk : ∀ c ∈ h, c.key ≠ k) : fin k = init k :=
  untouched_of_map hm k hk

-- non-vacuity: two keys, overlapping calls; the per-key orders are [ins; get] for key 1 and
-- [ins; rm] for key 2, and a single order of all four calls exists
example : MapLinearizable
    [⟨1, ⟨0, .ins 5 50, .none, 0, 6⟩⟩, ⟨2, ⟨1, .ins 7 70, .none, 1, 2⟩⟩,
     ⟨1, ⟨2, .get, .some 5 50, 3, 4⟩⟩, ⟨2, ⟨1, .rm, .some 7 70, 5, 7⟩⟩]
    (fun _ => none) (fun k => if k = 1 then some (5, 50) else none) := by
  apply locality
  · decide
  · intro k
    by_cases h1 : k = 1
    · subst h1; decide
    · by_cases h2 : k = 2
      · subst h2; decide
      · have : proj [⟨1, ⟨0, .ins 5 50, .none, 0, 6⟩⟩, ⟨2, ⟨1, .ins 7 70, .none, 1, 2⟩⟩,
            ⟨1, ⟨2, .get, .some 5 50, 3, 4⟩⟩, ⟨2, ⟨1, .rm, .some 7 70, 5, 7⟩⟩] k = [] := by
          have e1 : ((1 : Nat) == k) = false := by simpa using Ne.symm h1
          have e2 : ((2 : Nat) == k) = false := by simpa using Ne.symm h2
          simp [proj, List.filter, e1, e2]
        rw [this]; simp only [h1, if_false]
        exact ⟨[], by simp, by simp, by simp [replay]⟩

end Flurry.C01
