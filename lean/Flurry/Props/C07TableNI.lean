import Flurry.Proto.TableNI
import Flurry.Lemmas.TableNI
import Flurry.Lemmas.TableNIExamples
import Flurry.Props.C07BinNI
import Flurry.Props.C07BinNIOnce2
/-! # C07 / C01 (table level, CONCURRENT): table iterations running while the table is written and resized

`Proto/TableNI`: `m` `Proto/BinNI` lineages (key `k` in lineage `k % m` under the local name `k / m`; one
clock; ticks are the no-op steps of a dedicated clock thread, so every lineage is literally
`BinNI.Reachable (n + 1)`), a TABLE ITERATION of thread `t` = one `BinNI` iterator per lineage, the `m`
per-lineage walks interleaved arbitrarily (an over-approximation of the real bin order, see the header of
the model). Yields are re-keyed to the keys of the table (`tyields`).

"A past state" (`Before n S₁ S`) is the lineage-wise form of the prefix states of `Props/C07BinNI*.lean`:
every lineage of `S₁` is a reachable `BinNI` state from which the lineage of `S` is reached. Every state of
the run of the table leading to `S` is one (`tableNI_run_states_are_past_states`), but — exactly as in the
lineage-level theorems, whose hypotheses range over all `s₁` with `Reachable nt s₁ ∧ Steps s₁ s` — the
hypotheses "during the whole iteration" range over ALL past states in this sense, not only over those of
one particular run. The time of a past state, for key `k`, is the clock of lineage `k % m` (`clockAt`; in a
state of the run all clocks agree: `clocks_agree`).

* `tableNI_yield_was_present`, `tableNI_untouched_yielded_once`, `tableNI_untouched_absent_not_yielded`,
  `tableNI_map_linearizable`, `tableNI_iter_step_enabled`, `clocks_agree`, `tableNI_lineage_reachable`. -/
namespace Flurry.Proto.TableNI
open Flurry.Lin Flurry.LinMap
open Flurry.Proto.TableN (lineageOf localKey globalKey)

theorem bins_length {m n : Nat} {S : State} (hr : Reachable m n S) : S.bins.length = m :=
  (reachable_tblInv hr).len

/-- every lineage of a reachable table is a reachable `Proto/BinNI` lineage (with the clock thread) -/
theorem tableNI_lineage_reachable {m n : Nat} {S : State} (hr : Reachable m n S) {i : Nat} {b : BinNI.State}
    (hb : S.bins[i]? = some b) : BinNI.Reachable (n + 1) b := (reachable_tblInv hr).reach i b hb

/-- **one clock**: all lineages of a reachable table show the same time -/
theorem clocks_agree {m n : Nat} {S : State} (hr : Reachable m n S) {i j : Nat} {bi bj : BinNI.State}
    (hi : S.bins[i]? = some bi) (hj : S.bins[j]? = some bj) : bi.n.now = bj.n.now := by
  obtain ⟨τ, h⟩ := (reachable_tblInv hr).now
  rw [h i bi hi, h j bj hj]

/-- a tick is the no-op step of the clock thread, which is idle and not iterating in every lineage for ever -/
theorem tableNI_tick_is_lineage_step {m n : Nat} {S : State} (hr : Reachable m n S) {i : Nat} {b : BinNI.State}
    (hb : S.bins[i]? = some b) : BinNI.step b n false none false 0 = some (tick b) :=
  tick_is_step ((reachable_tblInv hr).clock i b hb)

/-- every state of the run of the table is a past state, lineage by lineage -/
theorem tableNI_run_states_are_past_states {m n : Nat} {S₁ S : State} (hr : Reachable m n S₁) (h : Steps S₁ S) :
    Before n S₁ S := before_of_steps hr h

/-- other lineages yield only keys of their own class: a yield of the table with key `k` comes from lineage
`k % m`, where it is a yield of local key `k / m` -/
theorem tableNI_yield_own_lineage {m n : Nat} {S : State} (hr : Reachable m n S) {y : BinNI.Yield}
    (hy : y ∈ tyields S) :
    ∃ b y0, S.bins[lineageOf m y.key]? = some b ∧ y0 ∈ b.yields ∧ y0.key = localKey m y.key ∧
      y = rekey m (lineageOf m y.key) y0 := by
  have I := reachable_tblInv hr
  obtain ⟨i, b, y0, hb, hy0, rfl⟩ := mem_tyields hy
  have hi : i < m := I.len ▸ (List.getElem?_eq_some_iff.1 hb).1
  rw [I.len]
  have e1 : lineageOf m (rekey m i y0).key = i := TableN.lineageOf_globalKey hi y0.key
  have e2 : localKey m (rekey m i y0).key = y0.key := TableN.localKey_globalKey hi y0.key
  rw [e1, e2]
  exact ⟨b, y0, hb, hy0, rfl, rfl⟩

/-- **C07, table level: never a pair that was not in the map.** Every yield `(k, v)` (key of the table) at
time `y.time` of a per-lineage iteration created at `y.t0`: in some past state of the table, at a time in
`[y.t0, y.time]`, the map had `k ↦ v` — whatever writers and however many resizes of whichever lineages ran
in between. For a table iteration created at `τ0` (`τ0 ≤` the creation time of each of its per-lineage
iterations, in particular `τ0 ≤ y.t0`) that moment lies between the table iteration's creation and the yield. -/
theorem tableNI_yield_was_present {m n : Nat} {S : State} (hr : Reachable m n S) {y : BinNI.Yield}
    (hy : y ∈ tyields S) {τ0 : Nat} (h0 : τ0 ≤ y.t0) :
    ∃ S₁, Before n S₁ S ∧ τ0 ≤ clockAt S₁ (lineageOf m y.key) ∧ clockAt S₁ (lineageOf m y.key) ≤ y.time ∧
      absMap S₁ y.key = some y.val := by
  have I := reachable_tblInv hr
  obtain ⟨i, b, y0, hb, hy0, rfl⟩ := mem_tyields hy
  have hil : i < S.bins.length := (List.getElem?_eq_some_iff.1 hb).1
  have hi : i < m := I.len ▸ hil
  rw [I.len]
  have e1 : lineageOf m (rekey m i y0).key = i := TableN.lineageOf_globalKey hi y0.key
  have e2 : localKey m (rekey m i y0).key = y0.key := TableN.localKey_globalKey hi y0.key
  obtain ⟨s₁, r1, st1, t1, t2, ha⟩ := BinNI.iter_yield_was_present (I.reach i b hb) hy0
  have hget : (S.bins.set i s₁)[i]? = some s₁ := List.getElem?_set_self hil
  refine ⟨{ S with bins := S.bins.set i s₁ }, before_set I hb r1 st1, ?_, ?_, ?_⟩
  · rw [e1]; unfold clockAt; rw [getD_of_get hget]; exact Nat.le_trans h0 t1
  · rw [e1]; unfold clockAt; rw [getD_of_get hget]; exact t2
  · have hlen : ({ S with bins := S.bins.set i s₁ } : State).bins.length = m := by
      show (S.bins.set i s₁).length = m
      rw [List.length_set]; exact I.len
    rw [absMap_eq hlen (k := (rekey m i y0).key) (b := s₁) (by rw [e1]; exact hget), e2]
    exact ha

/-- the hypothesis "during the whole table iteration", brought down to the lineage of the key -/
theorem during_lineage {m n : Nat} {S : State} (I : TblInv m n S) {k : Nat} {b : BinNI.State}
    (hb : S.bins[lineageOf m k]? = some b) {τ0 τ1 c e : Nat} (hc : τ0 ≤ c) (he : e ≤ τ1) {r : KSt}
    (hun : ∀ S₁, Before n S₁ S → τ0 ≤ clockAt S₁ (lineageOf m k) → clockAt S₁ (lineageOf m k) ≤ τ1 →
      absMap S₁ k = r) :
    ∀ s₁, BinNI.Reachable (n + 1) s₁ → BinNI.Steps s₁ b → c ≤ s₁.n.now → s₁.n.now ≤ e →
      BinNI.absOf s₁ (localKey m k) = r := by
  intro s₁ r1 st1 t1 t2
  have hil : lineageOf m k < S.bins.length := (List.getElem?_eq_some_iff.1 hb).1
  have hget : (S.bins.set (lineageOf m k) s₁)[lineageOf m k]? = some s₁ := List.getElem?_set_self hil
  have hlen : ({ S with bins := S.bins.set (lineageOf m k) s₁ } : State).bins.length = m := by
    show (S.bins.set (lineageOf m k) s₁).length = m
    rw [List.length_set]; exact I.len
  have hclk : clockAt { S with bins := S.bins.set (lineageOf m k) s₁ } (lineageOf m k) = s₁.n.now := by
    unfold clockAt; rw [getD_of_get hget]
  have := hun _ (before_set I hb r1 st1) (by rw [hclk]; omega) (by rw [hclk]; omega)
  rw [absMap_eq hlen hget] at this
  exact this

/-- **C07, table level: present and untouched ⇒ yielded EXACTLY once, with its value.** For a completed
table iteration of thread `t` (per-lineage creation times `c`, end times `e`, all within `[τ0, τ1]`): a key
`k` of the table that maps to `v` in every past state between `τ0` and `τ1` is yielded exactly once overall
by this table iteration — the yields of the table with thread `t`, creation time `c (key % m)` and key `k`
are exactly one record (it comes from the iterator of lineage `k % m`; the other lineages yield keys of
their own class only: `tableNI_yield_own_lineage`), and it carries `v` — whatever writers (on other keys)
and however many resizes of whichever lineages ran during the iteration. -/
theorem tableNI_untouched_yielded_once {m n : Nat} (hm : 0 < m) {S : State} (hr : Reachable m n S)
    {t τ0 τ1 : Nat} {c e : Nat → Nat} (hC : Completed S t c e τ0 τ1) {k : Nat} {v : Nat × Nat}
    (hun : ∀ S₁, Before n S₁ S → τ0 ≤ clockAt S₁ (lineageOf m k) → clockAt S₁ (lineageOf m k) ≤ τ1 →
      absMap S₁ k = some v) :
    ∃ y, yieldsOf S t c k = [y] ∧ y.val = v ∧ y.key = k := by
  have I := reachable_tblInv hr
  obtain ⟨b, hb⟩ := bin_of_key hm I k
  have hil : lineageOf m k < S.bins.length := (List.getElem?_eq_some_iff.1 hb).1
  have hlin := during_lineage I hb (hC.lo _ hil) (hC.hi _ hil) hun
  obtain ⟨y0, hy0, hv⟩ := BinNI.iter_untouched_yielded_once (I.reach _ b hb) (hC.ends _ b hb) hlin
  refine ⟨rekey m (lineageOf m k) y0, ?_, hv, ?_⟩
  · unfold yieldsOf
    rw [I.len]
    have := filter_tyields hm I k (fun y => decide (y.tid = t ∧ y.t0 = c (lineageOf m y.key))) hb
    have e1 : ((tyields S).filter fun y => decide (y.tid = t ∧ y.t0 = c (lineageOf m y.key) ∧ y.key = k)) =
        (tyields S).filter (fun y => decide (y.tid = t ∧ y.t0 = c (lineageOf m y.key)) && decide (y.key = k)) := by
      apply List.filter_congr
      intro y _
      rw [Bool.eq_iff_iff]
      simp only [Bool.and_eq_true, decide_eq_true_eq]
      exact ⟨fun h => ⟨⟨h.1, h.2.1⟩, h.2.2⟩, fun h => ⟨h.1.1, h.1.2, h.2⟩⟩
    rw [e1, this]
    have e2 : (b.yields.filter fun y0 => decide ((rekey m (lineageOf m k) y0).tid = t ∧
          (rekey m (lineageOf m k) y0).t0 = c (lineageOf m (rekey m (lineageOf m k) y0).key)) &&
          decide (y0.key = localKey m k)) =
        b.yields.filter fun y => decide (y.tid = t ∧ y.t0 = c (lineageOf m k) ∧ y.key = localKey m k) := by
      apply List.filter_congr
      intro y _
      have hl : lineageOf m (rekey m (lineageOf m k) y).key = lineageOf m k :=
        TableN.lineageOf_globalKey (Nat.mod_lt _ hm) y.key
      rw [hl, Bool.eq_iff_iff]
      simp only [Bool.and_eq_true, decide_eq_true_eq]
      exact ⟨fun h => ⟨h.1.1, h.1.2, h.2⟩, fun h => ⟨⟨h.1, h.2.1⟩, h.2.2⟩⟩
    rw [e2, hy0]
    rfl
  · have hmem : y0 ∈ b.yields.filter fun y => decide (y.tid = t ∧ y.t0 = c (lineageOf m k) ∧ y.key = localKey m k) := by
      rw [hy0]; exact List.mem_singleton.2 rfl
    have := (List.mem_filter.1 hmem).2
    simp only [decide_eq_true_eq] at this
    show globalKey m (lineageOf m k) y0.key = k
    rw [this.2.2]
    exact TableN.globalKey_lineage_local m k

/-- **C07, table level: absent throughout ⇒ not yielded.** -/
theorem tableNI_untouched_absent_not_yielded {m n : Nat} (hm : 0 < m) {S : State} (hr : Reachable m n S)
    {t τ0 τ1 : Nat} {c e : Nat → Nat} (hC : Completed S t c e τ0 τ1) {k : Nat}
    (habs : ∀ S₁, Before n S₁ S → τ0 ≤ clockAt S₁ (lineageOf m k) → clockAt S₁ (lineageOf m k) ≤ τ1 →
      absMap S₁ k = none) :
    yieldsOf S t c k = [] := by
  have I := reachable_tblInv hr
  obtain ⟨b, hb⟩ := bin_of_key hm I k
  have hil : lineageOf m k < S.bins.length := (List.getElem?_eq_some_iff.1 hb).1
  have hlin := during_lineage I hb (hC.lo _ hil) (hC.hi _ hil) habs
  have hno := BinNI.iter_untouched_absent_not_yielded (I.reach _ b hb) (hC.ends _ b hb) hlin
  unfold yieldsOf
  rw [List.filter_eq_nil_iff]
  intro y hy hp
  simp only [decide_eq_true_eq] at hp
  obtain ⟨b', y0, hb', hy0, hk0, e0⟩ := tableNI_yield_own_lineage hr hy
  rw [I.len] at hp
  obtain ⟨h1, h2, h3⟩ := hp
  rw [h3] at hb' hk0 h2
  rw [hb] at hb'; cases hb'
  have a1 : y.tid = y0.tid := by rw [e0]; rfl
  have a2 : y.t0 = y0.t0 := by rw [e0]; rfl
  exact hno y0 hy0 (by rw [← a1]; exact h1) (by rw [← a2]; exact h2) hk0

/-- the yields of a completed table iteration lie between its creation and its end -/
theorem tableNI_yields_within {m n : Nat} {S : State} (hr : Reachable m n S)
    {t τ0 τ1 : Nat} {c e : Nat → Nat} (hC : Completed S t c e τ0 τ1) {y : BinNI.Yield} (hy : y ∈ tyields S)
    (ht : y.tid = t) (h0 : y.t0 = c (lineageOf m y.key)) : τ0 ≤ y.t0 ∧ y.time ≤ τ1 := by
  have I := reachable_tblInv hr
  obtain ⟨b, y0, hb, hy0, hk0, e0⟩ := tableNI_yield_own_lineage hr hy
  have hil : lineageOf m y.key < S.bins.length := (List.getElem?_eq_some_iff.1 hb).1
  have h1 : y.tid = y0.tid := by rw [e0]; rfl
  have h2 : y.t0 = y0.t0 := by rw [e0]; rfl
  have h3 : y.time = y0.time := by rw [e0]; rfl
  have := (BinNI.iter_yields_before_end (I.reach _ b hb) (hC.ends _ b hb)).2 y0 hy0 (by rw [← h1]; exact ht)
    (by rw [← h2]; exact h0)
  exact ⟨by rw [h0]; exact hC.lo _ hil, by rw [h3]; exact Nat.le_trans this (hC.hi _ hil)⟩

/-- **C01 with iterators present**: at a moment without calls and resizes in progress (iterators may be
alive), ONE sequential order of ALL calls on ALL keys respects real time and replays through the sequential
specification of a map, from the empty map to the abstract map of the table -/
theorem tableNI_map_linearizable {m n : Nat} (hm : 0 < m) {S : State} (hr : Reachable m n S) (hq : quiescent S) :
    LinMap.MapLinearizable (mhist S) (fun _ => none) (absMap S) :=
  map_linearizable_aux hm hr hq

/-- **a table iteration never blocks**: in every reachable state, a thread `t` (not the clock thread) that
has an iterator in lineage `i` and is not itself in the middle of a call or a resize in another lineage can
take the next step of that iterator — whatever locks the other threads hold, whatever resizes are running;
the step leaves the shared memory of every lineage as it is (all clocks tick) -/
theorem tableNI_iter_step_enabled {m n : Nat} {S : State} (hr : Reachable m n S) {i t : Nat} {b : BinNI.State}
    {it : BinNI.Iter} (hb : S.bins[i]? = some b) (hi : b.its[t]? = some (some it))
    (hidle : ∀ j c, j ≠ i → S.bins[j]? = some c → idleIn c t = true)
    (mk : Bool) (rz : Bool) (pick : Nat) :
    ∃ S', step S i t mk none rz pick = some S' ∧
      ∀ (j : Nat) (c c' : BinNI.State), S.bins[j]? = some c → S'.bins[j]? = some c' →
        c'.n = { c.n with now := c.n.now + 1 } := by
  have I := reachable_tblInv hr
  obtain ⟨b', hs, hn⟩ := BinNI.iter_step_enabled (I.reach i b hb) hi mk none rz pick
  have htc : t ≠ S.clk := by
    intro e
    have := (I.clock i b hb).1
    rw [← I.clk, ← e, hi] at this
    cases this
  have hall : ((List.range S.bins.length).all fun j => j == i || idleIn (S.bins.getD j (BinNI.init 0)) t) = true := by
    rw [List.all_eq_true]
    intro j hj
    have hjl : j < S.bins.length := List.mem_range.1 hj
    by_cases hji : j = i
    · simp [hji]
    · have hg : S.bins[j]? = some S.bins[j] := List.getElem?_eq_getElem hjl
      rw [getD_of_get hg, hidle j _ hji hg]
      simp
  refine ⟨{ S with bins := (S.bins.map tick).set i b' }, ?_, ?_⟩
  · unfold step
    simp only [hb]
    rw [if_neg (by simpa using htc), hall]
    simp only [Bool.not_true, Bool.false_eq_true, if_false]
    have : TableN.localInv S.bins.length (none : Option (Nat × KOp)) = none := rfl
    rw [show TableN.inLineage S.bins.length i ((none : Option (Nat × KOp)).map (·.1)) = true from rfl]
    simp only [Bool.not_true, Bool.false_eq_true, if_false]
    rw [this, hs]
  · intro j c c' hc hc'
    rcases step_bins j c' hc' with ⟨rfl, rfl⟩ | ⟨_, b0, hj, rfl⟩
    · rw [hb] at hc; cases hc; exact hn
    · rw [hj] at hc; cases hc; rfl

/-! ## non-vacuity (`Lemmas/TableNIExamples.lean`, kernel-checked run) -/

/-- `m = 2`, two threads, 72 transitions: thread 1's table iteration is created (clock 27, 28) before thread 0
resizes lineage 0 and then lineage 1 and overwrites key 2, and finishes after (clock 68, 72), descending through
the forwarding markers of both lineages. The state is reachable, the table iteration is completed within
`[27, 72]`, and it yields every key exactly once: the untouched keys 0, 1, 3 with their values, key 2 with the
value written during the iteration; the history of the map is linearizable -/
example : ∃ S : State, Reachable 2 2 S ∧ Completed S 1 exC exE 27 72 ∧
    tyields S = [⟨1, 27, 2, (21, 201), 67⟩, ⟨1, 27, 0, (10, 100), 65⟩, ⟨1, 28, 3, (30, 300), 71⟩, ⟨1, 28, 1, (11, 101), 69⟩] ∧
    (List.range 6).map (absMap S) = [some (10, 100), some (11, 101), some (21, 201), some (30, 300), none, none] ∧
    shape S = [(1, false, 72, [none, none, none]), (1, false, 72, [none, none, none])] ∧
    (List.range 4).map (fun k => (yieldsOf S 1 exC k).length) = [1, 1, 1, 1] ∧
    LinMap.MapLinearizable (mhist S) (fun _ => none) (absMap S) := by
  obtain ⟨S, hr, hq, hC, hy, ha, hs, h1⟩ := example_state
  exact ⟨S, hr, hC, hy, ha, hs, h1, tableNI_map_linearizable (by decide) hr hq⟩

/-- at clock 40 of that run lineage 0 has been resized, lineage 1 not yet, and both iterators of thread 1 —
created before — still are at their first cell -/
example : exDuring = true := exDuring_true

end Flurry.Proto.TableNI
