import Flurry.Lemmas.TableGNL
import Flurry.Props.C12BinGN
import Flurry.Props.C11TableGN
/-! # C12 for `Proto/TableGN`: reads never block and finish in a bounded number of their own steps — in the whole
table, list and tree bins, ANY number of resizes

> `get`, `contains_key`, iterators … never acquire a bin lock and never wait for a writer — whatever the other threads
> are doing in the same bin or in any other bin of the table.

`Proto/TableGN`: `m` lineages of `Proto/BinGN` on one clock. A thread at a reader pc in lineage `i` of a reachable
table is `idle` in every other lineage (`tableGN_active_idle_elsewhere`), so:

1. `tableGN_reader_step_enabled` — its table step in lineage `i` is enabled in every reachable table state, for every
   value of the scheduler's arguments (the keys they name, if any, being keys of lineage `i`; a reader ignores them);
2. `tableGN_reader_step_frame` — that step changes nothing in any lineage except: the clock of every lineage advances
   by one (`tick`), and in lineage `i` the reader's own local state, the reader count of one `TreeBin` and `hist`
   (`BinGNP.Frame`: heap, ALL cells of ALL generations, table pointer, resize flag, `first` / mutex / `WRITER` /
   `WAITER` of every `TreeBin`, all other threads are as before);
3. `tableGN_reader_solo_terminates` — running alone (`runSolo`: all other threads, in all lineages, suspended wherever
   they are) the reader has returned after at most `BinGNP.soloBound` of its lineage
   (`tabs.length + 4 * heap.length + 10`) steps, all enabled; its answer is in the history of the map under the key of
   the table (`globalKey m i p.key`); every other lineage has only ticked.

Proofs: `Lemmas/TableGNL.lean` over `Props/C12BinGN.lean`. -/
namespace Flurry.Proto.TableGNL
open Flurry.Lin Flurry.LinMap Flurry.Proto.TableGN
open Flurry.Proto.TableN (lineageOf localKey globalKey inLineage localInv)

theorem readerPc_ne_idle {pc : BinGN.Pc} (h : BinGNP.readerPc pc = true) : pc ≠ .idle := by
  intro e
  rw [e] at h
  cases h

/-- **C12.1 for the table: a reader's step is never disabled.** In every reachable table state, for every thread at a
reader pc in lineage `i` and every value of the scheduler's arguments (an invoked key / treeify key, which the reader
ignores, must pass the `inLineage` test of `TableGN.step`; with `inv = none`, `maint = none` both hypotheses are `rfl`),
the table step of that thread in lineage `i` is enabled: no state of the other threads in ANY lineage — holding locks,
mid-transfer of any generation, parked, mid-treeify — disables it. -/
theorem tableGN_reader_step_enabled {m n : Nat} {S : State} (hr : Reachable m n S) {i t : Nat} {b : BinGN.State}
    {l : BinGN.Local} (hb : S.bins[i]? = some b) (hl : b.threads[t]? = some l) (hrd : BinGNP.readerPc l.pc = true)
    (inv : Option (Nat × KOp)) (lo : Bool) (mt : Option Nat) (rz sm sm2 : Bool) (pick : Nat)
    (h1 : inLineage S.bins.length i (inv.map (·.1)) = true) (h2 : inLineage S.bins.length i mt = true) :
    (step S i t inv lo mt rz sm sm2 pick).isSome = true := by
  have hrb := tableGN_lineage_reachable hr hb
  obtain ⟨b', hs⟩ := Option.isSome_iff_exists.1
    (BinGNProg.reader_step_enabled hrb hl hrd (localInv S.bins.length inv) lo (localMt S.bins.length mt) rz sm sm2 pick)
  rw [step_lift hb (idleElse_of_active hr hb hl (readerPc_ne_idle hrd)) h1 h2 hs]
  rfl

/-- … in the vocabulary of `Props/C11TableGN.lean` -/
theorem tableGN_reader_enabled {m n : Nat} {S : State} (hr : Reachable m n S) {i t : Nat} {b : BinGN.State}
    {l : BinGN.Local} (hb : S.bins[i]? = some b) (hl : b.threads[t]? = some l) (hrd : BinGNP.readerPc l.pc = true) :
    TEnabled S i t :=
  fun inv lo mt rz sm sm2 pick h1 h2 => tableGN_reader_step_enabled hr hb hl hrd inv lo mt rz sm sm2 pick h1 h2

/-- the quiet form: nothing is started -/
theorem tableGN_reader_quiet_step_enabled {m n : Nat} {S : State} (hr : Reachable m n S) {i t : Nat}
    {b : BinGN.State} {l : BinGN.Local} (hb : S.bins[i]? = some b) (hl : b.threads[t]? = some l)
    (hrd : BinGNP.readerPc l.pc = true) (lo rz sm sm2 : Bool) (pick : Nat) :
    (step S i t none lo none rz sm sm2 pick).isSome = true :=
  tableGN_reader_step_enabled hr hb hl hrd none lo none rz sm sm2 pick rfl rfl

/-- **C12.2 for the table: a reader takes no lock and stores nothing, anywhere.** A table step of a thread at a reader
pc in lineage `i`: the table keeps its lineages; every lineage other than `i` only ticks (its clock advances, nothing
else changes); lineage `i` changes within `BinGNP.Frame` — heap, the cells of all generations, the table pointer, the
resize flag, `first` / mutex / `WRITER` / `WAITER` of every `TreeBin` and all other threads are as before; only the
reader's local state, one reader count, the clock and `hist` change. No reachability assumption. -/
theorem tableGN_reader_step_frame {S S' : State} {i t : Nat} {b : BinGN.State} {l : BinGN.Local}
    (hb : S.bins[i]? = some b) (hl : b.threads[t]? = some l) (hrd : BinGNP.readerPc l.pc = true)
    {inv : Option (Nat × KOp)} {lo : Bool} {mt : Option Nat} {rz sm sm2 : Bool} {pick : Nat}
    (hs : step S i t inv lo mt rz sm sm2 pick = some S') :
    S'.bins.length = S.bins.length ∧ (∃ b', S'.bins[i]? = some b' ∧ BinGNP.Frame t b b') ∧
    ∀ (j : Nat) (bj : BinGN.State), j ≠ i → S.bins[j]? = some bj → S'.bins[j]? = some (tick bj) := by
  obtain ⟨b0, b', hb0, _, _, _, hs', rfl⟩ := step_eq_some hs
  rw [hb] at hb0
  cases hb0
  obtain ⟨h1, h2⟩ := bins_after b' hb
  refine ⟨?_, ⟨b', h1, BinGNProg.reader_step_frame hl hrd hs'⟩, h2⟩
  show ((S.bins.map tick).set i b').length = _
  rw [List.length_set, List.length_map]

/-- **C12.3 for the table: bounded own steps.** From every reachable table state, a thread at a reader pc in lineage
`i` that runs alone — every other thread suspended wherever it is, in whatever lineage — has returned after at most
`BinGNP.soloBound b = b.tabs.length + 4 * b.heap.length + 10` of its own steps (`b`: its lineage), all of them enabled
table steps: it is `idle` in lineage `i`, its call is appended to the lineage's `hist` (under the local key) and is an
entry of the history of the map (under the key of the table, `i + m * p.key`); lineage `i` changed within
`BinGNP.Frame`; every other lineage has only ticked `k` times; the table reached is reachable. -/
theorem tableGN_reader_solo_terminates {m n : Nat} {S : State} (hr : Reachable m n S) {i t : Nat} {b : BinGN.State}
    {l : BinGN.Local} (hb : S.bins[i]? = some b) (hl : b.threads[t]? = some l) (hrd : BinGNP.readerPc l.pc = true)
    (sm sm2 : Bool) :
    ∃ k, k ≤ BinGNP.soloBound b ∧ ∃ (S' : State) (b' : BinGN.State) (p : BinGN.Pending) (res : KRes) (resp : Nat),
      l.call = some p ∧ runSolo i t sm sm2 k S = some S' ∧ Reachable m n S' ∧
      S'.bins.length = S.bins.length ∧ S'.bins[i]? = some b' ∧ BinGNP.Frame t b b' ∧
      b'.threads[t]? = some { pc := .idle, call := none } ∧
      b'.hist = (p.key, { tid := t, op := p.op, res := res, inv := p.inv, resp := resp }) :: b.hist ∧
      (⟨globalKey m i p.key, { tid := t, op := p.op, res := res, inv := p.inv, resp := resp }⟩ : MCall) ∈ mhist S' ∧
      ∀ (j : Nat) (bj : BinGN.State), j ≠ i → S.bins[j]? = some bj → S'.bins[j]? = some (tickN k bj) := by
  have hrb := tableGN_lineage_reachable hr hb
  obtain ⟨k, hk, b', p, res, resp, hp, hrun, hfr, hidle, hhist⟩ :=
    BinGNProg.reader_solo_terminates hrb hl hrd sm sm2
  obtain ⟨S', hrun', hlen, hi', hoth⟩ :=
    solo_lift k hb (idleElse_of_active hr hb hl (readerPc_ne_idle hrd)) hrun
  have hr' := runSolo_reachable k hr hrun'
  refine ⟨k, hk, S', b', p, res, resp, hp, hrun', hr', hlen, hi', hfr, hidle, hhist, ?_, hoth⟩
  have : (p.key, ({ tid := t, op := p.op, res := res, inv := p.inv, resp := resp } : Call)) ∈ b'.hist := by
    rw [hhist]; exact List.mem_cons_self
  exact (mem_mhist_of_hist (reachable_tblInv hr') hi' this).1

/-- `tickN k` changes the clock only -/
theorem tickN_eq (k : Nat) (b : BinGN.State) : tickN k b = { b with now := b.now + k } := rfl

/-- the bound is an explicit function of the number of generations and of the heap size of the reader's lineage -/
theorem soloBound_eq (b : BinGN.State) : BinGNP.soloBound b = b.tabs.length + 4 * b.heap.length + 10 := rfl

/-- `runSolo` is `step` iterated on thread `t` alone in lineage `i` (no new call, no treeify, no resize; `pick = 0`) -/
theorem runSolo_succ (i t : Nat) (sm sm2 : Bool) (k : Nat) (S : State) :
    runSolo i t sm sm2 (k + 1) S = (step S i t none false none false sm sm2 0).bind (runSolo i t sm sm2 k) := by
  simp only [runSolo]
  cases step S i t none false none false sm sm2 0 <;> rfl

/-! ## non-vacuity: the reader of `busyState` (`Lemmas/TableGNLExamples.lean`) -/

/-- in `busyState` thread 1 is at `rTree 0` in lineage 0 — inside the OLD `TreeBin`, whose cell is already forwarded —
while thread 0 is in the middle of the transfer (`xUnlock`, holding the old mutex): running alone, the reader returns
`get 2 = some (20, 200)` in 3 table steps (within `soloBound = 48`), lineage 1 has only ticked (clock 50 → 53) -/
example : exSoloCheck = true := example_busy_solo

/-- the general theorem instantiated at `busyState` -/
example : ∃ S, busyState = some S ∧ ∃ k, k ≤ 48 ∧ ∃ S', runSolo 0 1 false false k S = some S' ∧ Reachable 2 2 S' := by
  obtain ⟨S, hs, hr, -, -, -, h⟩ := example_busy
  cases hb : S.bins[0]? with
  | none => rw [hb] at h; cases h
  | some b =>
    rw [hb] at h
    simp only [Option.map_some, Option.some.injEq, Prod.mk.injEq] at h
    obtain ⟨k, hk, S', _, _, _, _, _, hrun, hr', _⟩ := tableGN_reader_solo_terminates hr hb h.1 rfl false false
    exact ⟨S, hs, k, by rw [h.2] at hk; exact hk, S', hrun, hr'⟩

end Flurry.Proto.TableGNL
