import Flurry.Lemmas.BinNITerm
import Flurry.Lemmas.BinNIExamples
/-! # C07 (bin level, CONCURRENT): the traverser running while the lineage is written and resized

`Proto/BinNI.lean` = `Proto/BinN` (a list-bin lineage through ANY number of successive resizes, lock-free
readers, locked writers, one shared-memory access per transition) plus **iterator threads**: an iterator
loads the table pointer once (root generation `g0`), visits the cells `(g0, 0) … (g0, 2^g0 − 1)` in order,
walks a list node by node (yielding `(key, val)` as stored at that load), and on a forwarding marker in
`(g, j)` descends to `(g+1, j)` then `(g+1, j + 2^g)` — recursively, the `TableStack` discipline of
`Seq/Iter.lean` — while writers and any number of resizes proceed. Ghost logs: `yields`, `ends`.

Proved here, for every reachable state, any number of threads, every interleaving:
* `shared_part_reachable`: the shared part is a reachable state of `Proto/BinN` (all its theorems apply);
* `iter_yield_was_present`: every yielded pair was in the map at some moment between the creation of the
  iterator and the yield — also when the table was resized one or more times in between (hindsight
  justification `IGood`, `Lemmas/BinNIGood.lean`, carried over every transition incl. the store of a
  forwarding marker in any generation);
* `iter_step_enabled`: an iterator is never blocked (it takes no lock) and its steps leave the shared
  memory unchanged (only the clock ticks);
* `iter_todo_behind_markers`: a pending cell of the generation being filled is only ever reached through a
  forwarding marker (why the iterator never walks a half-built list).
Validation by execution: `Lemmas/BinNIExamples.lean` (4 200 random schedules with slow iterators alive
across up to 3 resizes; `iter_yield_was_present` AND "an untouched key is yielded exactly once, an absent
one never" checked by brute force on the recorded trace of `absOf`; three kernel-checked runs).
* `iter_solo_terminates`: an iterator that runs alone ends within an explicit number of steps.
NOT proved here: `iter_untouched_yielded_once` / `iter_no_duplicates_of_untouched` (only validated by
execution: `check2`). -/
namespace Flurry.Proto.BinNI
open Flurry.Lin

/-- the shared part (memory, readers, writers, resizer) of a reachable state is a reachable state of `Proto/BinN` -/
theorem shared_part_reachable {nt : Nat} {s : State} (hr : Reachable nt s) : BinN.Reachable nt s.n := reachable_n hr

/-- **C07, never a pair that was not in the map.** Every yield `(k, v)` at time `τ` of an iteration created at
time `τ0`: some state `s₁` of the run, at a time in `[τ0, τ]`, had `k ↦ v` in the map — whatever writers and
however many resizes ran in between. -/
theorem iter_yield_was_present {nt : Nat} {s : State} (hr : Reachable nt s) {y : Yield} (hy : y ∈ s.yields) :
    ∃ s₁, Reachable nt s₁ ∧ Steps s₁ s ∧ y.t0 ≤ s₁.n.now ∧ s₁.n.now ≤ y.time ∧ absOf s₁ y.key = some y.val := by
  obtain ⟨G, I⟩ := reachable_iinv hr
  obtain ⟨τ, h1, h2, s₁, h3, h4, h5, h6⟩ := I.yl y hy
  exact ⟨s₁, h3, h4, by omega, by omega, h6⟩

/-- **an iterator is never blocked and writes nothing**: a step of an iterating thread is enabled whatever
the other threads hold, and leaves heap, tables, table pointer, threads and history as they are (the clock ticks) -/
theorem iter_step_enabled {nt : Nat} {s : State} (hr : Reachable nt s) {t : Nat} {it : Iter}
    (hi : s.its[t]? = some (some it)) (mk : Bool) (inv : Option (Nat × KOp)) (rz : Bool) (pick : Nat) :
    ∃ s', step s t mk inv rz pick = some s' ∧ s'.n = { s.n with now := s.n.now + 1 } := by
  obtain ⟨G, I⟩ := reachable_iinv hr
  obtain ⟨s', h1, h2, -⟩ := iter_enabled I hi mk inv rz pick
  exact ⟨s', h1, h2⟩

/-- an iterating thread is idle in the shared part, its pointer is inside the heap, and a pending cell of
generation `cur + 1` lies behind a forwarding marker (pending cells are never of a later generation) -/
theorem iter_todo_behind_markers {nt : Nat} {s : State} (hr : Reachable nt s) {t : Nat} {it : Iter}
    (hi : s.its[t]? = some (some it)) :
    (∀ c, it.ptr = some c → c < s.n.heap.length) ∧
    ∀ g j, (g, j) ∈ it.todo → g ≤ s.n.cur + 1 ∧ (g = s.n.cur + 1 → BinN.cellAt s.n s.n.cur (j % 2 ^ s.n.cur) = .moved) := by
  obtain ⟨G, I⟩ := reachable_iinv hr
  obtain ⟨-, g2, g3⟩ := I.good t it hi
  exact ⟨fun c hc => by rw [hc] at g2; exact g2.lt I.inv.heap, fun g j h => g3 (g, j) h⟩

/-- **an iterator terminates**: run alone from any reachable state — whatever the other threads hold, however
many generations are allocated and forwarded — it ends within
`2·|heap| + 2 + Σ_{(g, j) ∈ todo} D (2·|heap| + 3) (T − g)` steps, `T` = number of allocated generations,
`D W 0 = W`, `D W (d+1) = 2 · D W d + 1` (so `D W d < (W + 1) · 2^d`), and leaves the memory as it is -/
theorem iter_solo_terminates {nt : Nat} {s : State} (hr : Reachable nt s) {t : Nat} {it : Iter}
    (hi : s.its[t]? = some (some it)) :
    ∃ m s', m ≤ 2 * s.n.heap.length + 2 + todoM (2 * s.n.heap.length + 3) s.n.tabs.length it.todo ∧
      SoloSteps t m s s' ∧ s'.its[t]? = some none ∧
      s'.n.heap = s.n.heap ∧ s'.n.tabs = s.n.tabs ∧ s'.n.cur = s.n.cur := solo_terminates hr hi

/-! ## validation by execution (see `Lemmas/BinNIExamples.lean`) -/

/-- an iterator created before TWO resizes that finishes after them, descending through two levels of
forwarding markers: reachable; both checks hold on the recorded trace; it yields keys 2, 1, 3 once each -/
theorem iterator_across_two_resizes :
    verdictI schedB = some (true, true, 2, [(1, 24, 68)], [(2, (6, 101), 62), (1, (5, 100), 65), (3, (7, 102), 67)]) :=
  verdict_B

/-- an iterator that sleeps on the old list through two resizes, an overwrite and a removal: it yields the
pairs that were present at its creation, the untouched key once -/
theorem iterator_on_frozen_list :
    verdictI schedC = some (true, true, 2, [(1, 24, 79)], [(1, (5, 100), 76), (2, (6, 101), 77), (3, (7, 102), 78)]) :=
  verdict_C

end Flurry.Proto.BinNI
