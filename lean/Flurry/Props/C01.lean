import Flurry.Lemmas.Lin
/-! # C01 — single-key operations are linearizable under every interleaving

**Strength: partial.** What is machine-checked here:

* the sequential specification of one key (`Lin.specStep`) and the definition of
  `Linearizable` (by locality, per key);
* the decision procedure applied to every invocation/response history recorded from the real
  implementation under the deterministic scheduler is *sound and complete* for that definition:
  a certificate accepted by `Lin.validate` proves `Linearizable`, and `Lin.search` finds a
  certificate iff one exists — so "the Lean checker answered not-linearizable" is a proof that the
  recorded history violates C01, and "ok" a proof that it does not;
* the generic linearization-point lemma `lin_of_points`, and the consequences of the
  specification the property text names (no lost / duplicated / resurrected update).

What is **not** proved: that every execution of the implementation (or of a small-step model of
it) yields a linearizable history — the obligations (W)/(R) of DESIGN.md section 7. The
quantifier "for all interleavings" is covered by schedule exploration on the real code only
(`harness conc`), which is testing, not proof; see `c01_statement`. -/
namespace Flurry.C01
open Flurry.Lin

/-- the full statement, for an abstract execution model: a function from schedules to the
per-key history they produce. C01 says every such history is linearizable from the key's
initial state to its final state. -/
def c01_statement (Schedule : Type) (historyOf : Schedule → History) (initOf finOf : Schedule → KSt) : Prop :=
  ∀ σ : Schedule, Linearizable (historyOf σ) (initOf σ) (finOf σ)

/-- an accepted certificate proves linearizability -/
theorem certificate_sound {h : History} {order : List Nat} {init fin : KSt}
    (hv : validate h order init fin = true) : Linearizable h init fin := validate_sound hv

/-- the search is a decision procedure: it finds a witness iff the history is linearizable -/
theorem decision_correct {h : History} {init fin : KSt} :
    (search h init fin).isSome = true ↔ Linearizable h init fin := search_isSome_iff

theorem not_linearizable_iff {h : History} {init fin : KSt} :
    search h init fin = none ↔ ¬ Linearizable h init fin := search_eq_none_iff

/-- linearization points: if every call can be given a point inside its interval such that
replaying the calls in point order is a legal sequential execution with the observed results,
the history is linearizable -/
theorem linearization_points {h : History} {init fin : KSt} (pt : Nat → Nat)
    (hpt : ∀ i (hi : i < h.length), h[i].inv ≤ pt i ∧ pt i ≤ h[i].resp)
    (hinj : ∀ i j, i < h.length → j < h.length → pt i = pt j → i = j)
    (hrep : replay h (pointOrder h pt) init = some fin) : Linearizable h init fin :=
  lin_of_points_sorted pt hpt hinj hrep

/-- "no completed update is lost, duplicated or resurrected", at the level of the specification
every linearizable history replays through: an absent key stays absent unless inserted … -/
theorem no_resurrection {op : KOp} (hop : (specStep none op).1 ≠ none) :
    (∃ v vi, op = .ins v vi) ∨ (∃ v vi, op = .tryIns v vi) := by
  cases op <;> simp [specStep] at hop ⊢

/-- … reads do not change anything, and a completed insert is what the next read returns -/
theorem reads_pure (st : KSt) : (specStep st .get).1 = st ∧ (specStep st .has).1 = st := ⟨rfl, rfl⟩

theorem insert_then_read (st : KSt) (v vi : Nat) :
    (specStep (specStep st (.ins v vi)).1 .get).2 = .some v vi := rfl

theorem remove_then_read (st : KSt) :
    (specStep (specStep st .rm).1 .get).2 = .none ∧ (specStep (specStep st .rm).1 .has).2 = .bool false :=
  ⟨rfl, rfl⟩

/-- the final `get` of every key after all threads joined can be appended to the history -/
theorem final_read {h : History} {init fin : KSt} {c : Call}
    (hl : Linearizable h init fin) (hop : c.op = .get) (hres : c.res = resOf fin)
    (hafter : ∀ d ∈ h, d.resp < c.inv) (hwf : ∀ d ∈ h, d.inv ≤ d.resp) (hc : c.inv ≤ c.resp) :
    Linearizable (h ++ [c]) init fin := lin_final_read hl hop hres hafter hwf hc

-- non-vacuity: a concurrent history with an overlapping read that is linearizable, and one that is not
example : Linearizable [⟨0, .ins 1 10, .none, 0, 3⟩, ⟨1, .get, .some 1 10, 1, 2⟩, ⟨1, .rm, .some 1 10, 4, 5⟩] none none := by decide
example : ¬ Linearizable [⟨0, .get, .some 1 10, 0, 1⟩, ⟨1, .ins 1 10, .none, 2, 3⟩] none (some (1, 10)) := by decide

end Flurry.C01
