import Flurry.Lemmas.TableGP
import Flurry.Lemmas.TableGExamples
import Flurry.Props.C01TableG
import Flurry.Props.C11BinG
import Flurry.Props.C11BinGDrain
/-! # C11 for `Proto/TableG`: the whole table is never stuck, and it drains under ANY schedule

> A thread holds at most one bin lock at a time; the resizing thread holds one lock; readers never wait.
> Hence no reachable state of the table is a deadlock, and once no new call, treeify or transfer is
> started every run of the threads in flight — in all bins together, fair or not — is finite and ends
> with every call answered.

`Proto/TableG`: `m` lineages of `Proto/BinG` on one clock, any number of threads, a thread inside at most
one lineage at a time. The lineage-level theorems (`Props/C11BinG.lean`, `Props/C11BinGDrain.lean`) are
lifted to the table, over **all** reachable table states and **all** schedules:

1. `tableG_active_idle_elsewhere`, `tableG_step_is_lineage_step`: a thread that is not `idle` in lineage
   `i` is `idle` in every other lineage, so the table lets it take in lineage `i` exactly the steps the
   lineage lets it take (as long as it starts nothing: the `inLineage` side conditions of `TableG.step`
   concern invocations and treeify keys only);
2. `tableG_never_stuck_all` / `tableG_never_stuck`: a table that is not quiescent has a thread that is not
   `idle` in some lineage and whose table step there is enabled;
3. `TQStep` (a table step with `inv = none`, `maint = none`, `resize = false` of a thread that is not
   `idle` in the lineage it steps in), `Gmu S = Σ_i gmu (bins[i])`; `gmu_tick`: `gmu` does not read the
   clock; `tableG_quiet_step_decreases`: EVERY quiet table step strictly decreases `Gmu`;
4. `tableG_quiet_run_bounded`, `tableG_drains`: every maximal quiet run from a reachable table ends, after
   at most `Gmu S ≤ DrainBound S` steps, in a quiescent table. No fairness assumption.
   `tableG_drain_exists`, `tableG_no_infinite_quiet_run`, `tableG_quiescent_iff_maximal`;
5. `tableG_every_call_returns`: every call in flight anywhere in the table has been answered at the end
   of a maximal quiet run: the map history has its entry (same thread, key, operation, invocation time);
6. a kernel-checked example with two lineages.

Proofs: `Lemmas/TableGP.lean`. -/
namespace Flurry.Proto.TableGP
open Flurry.Lin Flurry.LinMap Flurry.Proto.TableG

/-- **a thread that is not `idle` in lineage `i` is `idle` in every other lineage** of a reachable
table (`tableG_one_lineage_per_thread`, and all lineages have the same threads) -/
theorem tableG_active_idle_elsewhere {m n : Nat} {S : State} (hr : Reachable m n S) {i t : Nat} {b : BinG.State}
    {l : BinG.Local} (hb : S.bins[i]? = some b) (hl : b.threads[t]? = some l) (hne : l.pc ≠ .idle)
    {j : Nat} {bj : BinG.State} (hji : j ≠ i) (hj : S.bins[j]? = some bj) : idleIn bj t = true :=
  idleElse_of_active hr hb hl hne j bj hji hj

/-- **the table does not get in the way**: an enabled lineage step of a thread that is not `idle` in
lineage `i` and starts no call and no treeify (any `lo rz sm sm2`; `rz` is ignored by such a thread) is
an enabled table step; lineage `i` makes that step, every other lineage ticks -/
theorem tableG_step_is_lineage_step {m n : Nat} {S : State} (hr : Reachable m n S) {i t : Nat} {b b' : BinG.State}
    {l : BinG.Local} (hb : S.bins[i]? = some b) (hl : b.threads[t]? = some l) (hne : l.pc ≠ .idle)
    {lo rz sm sm2 : Bool} (hs : BinG.step b t none lo none rz sm sm2 = some b') :
    step S i t none lo none rz sm sm2 = some { bins := (S.bins.map tick).set i b' } :=
  active_step_lift hr hb hl hne hs

/-- **C11 for the table, strong form**: in every reachable table state that is not quiescent, some
thread that is not `idle` in some lineage `i` has a table step in lineage `i` that is enabled whatever
`lo rz sm sm2` are (it starts nothing: `inv = none`, `maint = none`) -/
theorem tableG_never_stuck_all {m n : Nat} {S : State} (hr : Reachable m n S) (hq : ¬ quiescent S) :
    ∃ (i : Nat) (b : BinG.State) (t : Nat) (l : BinG.Local), S.bins[i]? = some b ∧ b.threads[t]? = some l ∧
      l.pc ≠ .idle ∧ ∀ (lo rz sm sm2 : Bool), (step S i t none lo none rz sm sm2).isSome = true :=
  never_stuck_aux hr hq

/-- **C11 for the table: no deadlock.** In every reachable table state that is not quiescent, some
thread that is NOT idle in some lineage has an enabled table step there. -/
theorem tableG_never_stuck {m n : Nat} {S : State} (hr : Reachable m n S) (hq : ¬ quiescent S) :
    ∃ (i : Nat) (b : BinG.State) (t : Nat) (l : BinG.Local), S.bins[i]? = some b ∧ b.threads[t]? = some l ∧
      l.pc ≠ .idle ∧ ∃ S', step S i t none false none false false false = some S' := by
  obtain ⟨i, b, t, l, hb, hl, hne, he⟩ := never_stuck_aux hr hq
  exact ⟨i, b, t, l, hb, hl, hne, Option.isSome_iff_exists.1 (he false false false false)⟩

/-- **the lineage measure does not read the clock**: a tick leaves `gmu` unchanged -/
theorem gmu_tick (b : BinG.State) : BinG.gmu (tick b) = BinG.gmu b := rfl

/-- a quiet table step is a quiet step (`BinG.QStep`) of one lineage and a tick of every other one -/
theorem tableG_quiet_step_effect {S S' : State} (h : TQStep S S') :
    ∃ (i : Nat) (b b' : BinG.State), S.bins[i]? = some b ∧ BinG.QStep b b' ∧
      S' = { bins := (S.bins.map tick).set i b' } := h.effect

/-- **C11.1 for the table: the global measure strictly decreases.** In every reachable table state,
every enabled quiet table step — any lineage, any thread that is not `idle` there, any `lo sm sm2` —
strictly decreases `Gmu = Σ_i gmu (bins[i])`. -/
theorem tableG_quiet_step_decreases {m n : Nat} {S S' : State} (hr : Reachable m n S) (h : TQStep S S') :
    Gmu S' < Gmu S := h.gmu_lt hr

/-- `Gmu` is bounded by `DrainBound`, the sum of the lineages' explicit bounds `BinG.drainBound` -/
theorem tableG_Gmu_le_bound {m n : Nat} {S : State} (hr : Reachable m n S) : Gmu S ≤ DrainBound S :=
  Gmu_le_DrainBound hr

/-- **C11.2 for the table: quiet runs are bounded.** `k` quiet table steps from a reachable table `S`
have `k + Gmu S' ≤ Gmu S`; in particular `k ≤ Gmu S ≤ DrainBound S`. -/
theorem tableG_quiet_run_bounded {m n : Nat} {S S' : State} {k : Nat} (hr : Reachable m n S) (h : TQRun S k S') :
    k + Gmu S' ≤ Gmu S ∧ k ≤ DrainBound S := by
  have h1 := tqrun_bounded hr h
  have h2 := Gmu_le_DrainBound hr
  exact ⟨h1, by omega⟩

/-- a quiet run that has not reached a quiescent table can be extended (`tableG_never_stuck`) -/
theorem tableG_quiet_run_extends {m n : Nat} {S S' : State} {k : Nat} (hr : Reachable m n S) (h : TQRun S k S')
    (hq : ¬ quiescent S') : ∃ S'', TQRun S (k + 1) S'' := by
  obtain ⟨S'', h''⟩ := tqstep_of_not_quiescent (h.reachable hr) hq
  exact ⟨S'', h.snoc h''⟩

/-- **C11.3 for the table: every maximal quiet run drains the table.** From every reachable table, ANY
sequence of quiet table steps that cannot be extended ends in a QUIESCENT table — every thread `idle`
in every lineage: all calls, treeifies and transfers done — after at most `Gmu S ≤ DrainBound S` steps.
No fairness assumption. -/
theorem tableG_drains {m n : Nat} {S S' : State} {k : Nat} (hr : Reachable m n S) (h : TQRun S k S')
    (hmax : ∀ S'', ¬ TQStep S' S'') : quiescent S' ∧ k ≤ Gmu S ∧ k ≤ DrainBound S := by
  have h1 := tqrun_bounded hr h
  have h2 := Gmu_le_DrainBound hr
  exact ⟨tqrun_maximal_quiescent hr h hmax, by omega, by omega⟩

/-- a quiescent table is where quiet runs stop: maximal ⇔ quiescent -/
theorem tableG_quiescent_iff_maximal {m n : Nat} {S : State} (hr : Reachable m n S) :
    quiescent S ↔ ∀ S', ¬ TQStep S S' :=
  ⟨fun hq _ => no_tqstep_of_quiescent hq, fun h => tqrun_maximal_quiescent hr (.nil S) h⟩

/-- from every reachable table some quiet run reaches a quiescent table, within `Gmu S` steps -/
theorem tableG_drain_exists {m n : Nat} {S : State} (hr : Reachable m n S) :
    ∃ k S', TQRun S k S' ∧ quiescent S' ∧ k ≤ Gmu S := by
  obtain ⟨k, S', h, hq⟩ := tdrain_exists (Gmu S) hr (Nat.le_refl _)
  have := tqrun_bounded hr h
  exact ⟨k, S', h, hq, by omega⟩

/-- there is no infinite execution of the table in which no new call / treeify / transfer is started
and only threads that are not `idle` (where they step) take steps -/
theorem tableG_no_infinite_quiet_run {m n : Nat} {S : State} (hr : Reachable m n S) (f : Nat → State)
    (h0 : f 0 = S) : ¬ ∀ i, TQStep (f i) (f (i + 1)) := fun h => no_infinite_tqrun hr f h0 h

/-- **C11.4 for the table: every call returns.** For a thread `t` with the call `p` in flight in
lineage `j` of a reachable table `S`: at the end of any maximal quiet run from `S` the call has been
answered — the history of the MAP has an entry with the thread, key, operation and invocation time of
`p` (and the table is quiescent). -/
theorem tableG_every_call_returns {m n : Nat} {S S' : State} {k : Nat} (hr : Reachable m n S) (h : TQRun S k S')
    (hmax : ∀ S'', ¬ TQStep S' S'') {j t : Nat} {bj : BinG.State} {l : BinG.Local} {p : BinG.Pending}
    (hj : S.bins[j]? = some bj) (hl : bj.threads[t]? = some l) (hp : l.call = some p) :
    ∃ res resp, (⟨p.key, { tid := t, op := p.op, res := res, inv := p.inv, resp := resp }⟩ : MCall) ∈ mhist S' := by
  have hq := tqrun_maximal_quiescent hr h hmax
  obtain ⟨bj', hj', hpa⟩ := tqrun_pendOrAns hr h hj (Or.inl ⟨l, hl, hp⟩)
  have hrb := (reachable_tblInv (h.reachable hr)).reach j bj' hj'
  exact answered_mhist hj' (answered_of_quiescent hrb (hq bj' (List.mem_of_getElem? hj')) hpa)

/-! ## non-vacuity: two lineages, five threads' worth of work in flight, drained by a concrete quiet run -/

/-- run quiet table steps `(lineage, thread)` (`lo = sm = sm2 = false`); `none` if the thread is `idle`
in that lineage or its step is not enabled -/
def runQuiet : State → List (Nat × Nat) → Option State
  | S, [] => some S
  | S, (i, t) :: rest =>
    match S.bins[i]? with
    | none => none
    | some b =>
      match b.threads[t]? with
      | none => none
      | some l =>
        if l.pc = .idle then none
        else
          match step S i t none false none false false false with
          | none => none
          | some S' => runQuiet S' rest

theorem runQuiet_tqrun : ∀ (sc : List (Nat × Nat)) {S S' : State}, runQuiet S sc = some S' → TQRun S sc.length S'
  | [], S, S', h => by
    simp only [runQuiet, Option.some.injEq] at h
    subst h
    exact .nil S
  | (i, t) :: rest, S, S', h => by
    unfold runQuiet at h
    cases hb : S.bins[i]? with
    | none => rw [hb] at h; cases h
    | some b =>
      rw [hb] at h
      dsimp only at h
      cases hl : b.threads[t]? with
      | none => rw [hl] at h; cases h
      | some l =>
        rw [hl] at h
        dsimp only at h
        by_cases hid : l.pc = .idle
        · rw [if_pos hid] at h; cases h
        · rw [if_neg hid] at h
          cases hs : step S i t none false none false false false with
          | none => rw [hs] at h; cases h
          | some S1 =>
            rw [hs] at h
            exact .cons ⟨i, t, b, l, false, false, false, hb, hl, hid, hs⟩ (runQuiet_tqrun rest h)

def quiescentB (S : State) : Bool := S.bins.all BinG.quiescentB

theorem quiescentB_iff (S : State) : quiescentB S = true ↔ quiescent S := by
  unfold quiescentB quiescent
  rw [List.all_eq_true]
  exact ⟨fun h b hb => (BinG.quiescentB_iff b).1 (h b hb), fun h b hb => (BinG.quiescentB_iff b).2 (h b hb)⟩

/-- `m = 2` lineages (keys 0, 4 in lineage 0; keys 2, 3 in lineage 1), four threads, one clock.
**Lineage 0**: thread 0 inserts keys 0 and 4, thread 1 treeifies the bin (`TreeBin` 0); thread 2 calls
`get 0`, takes the read lock and is suspended at `rTree`; thread 0 calls `rm 4` and is **parked at
`lrLoop` behind the reader** (`WAITER` set). **Lineage 1**: thread 3 inserts keys 2 and 3 (a list bin,
one key per side), starts the transfer of the lineage, locks the head, splits and is suspended at
`xStoreHigh` — **mid-transfer, holding the bin lock**; thread 1 calls `rm 2` and **waits for that lock**
at `wLock`. Of the four threads only the reader (in lineage 0) and the transferring thread (in
lineage 1) can move. -/
def busySched : List Sch :=
  call 0 0 0 (.ins 5 100) ++ go 0 0 3 ++ call 0 0 4 (.ins 6 101) ++ go 0 0 8 ++ treeify 0 1 0 ++ go 0 1 7 ++
  call 1 3 2 (.ins 20 200) ++ go 1 3 3 ++ call 1 3 3 (.ins 30 300) ++ go 1 3 8 ++
  call 0 2 0 .get ++ go 0 2 5 ++ call 0 0 4 .rm ++ go 0 0 7 ++
  resize 1 3 ++ go 1 3 2 ++ call 1 1 2 .rm ++ go 1 1 2 ++ go 1 3 3

def busyState : Option State := run (init 2 4) busySched

/-- the two lineages interleaved: the transfer of lineage 1 finishes (4 steps of thread 3), the reader
leaves lineage 0 (3 steps of thread 2), the parked writer takes the write lock and finishes `rm 4`
(5 steps of thread 0), the queued writer takes the lock of the old head, **fails its re-check**,
follows the forwarding marker and removes key 2 in the new table (10 steps of thread 1): 22 quiet steps -/
def drainSched : List (Nat × Nat) :=
  [(1, 3), (0, 2), (1, 3), (0, 2), (0, 0), (1, 3), (0, 2), (1, 1), (0, 0), (1, 3), (0, 0), (1, 1), (0, 0), (0, 0)] ++
    List.replicate 8 (1, 1)

/-- the program counters of the four threads in the two lineages, and which `(lineage, thread)` pairs
have an enabled table step: only the reader in lineage 0 and the transferring thread in lineage 1 -/
theorem busy_shape : (busyState.map fun S => (S.bins.map fun b => b.threads.map (·.pc),
      (List.range 2).map fun i => (List.range 4).map fun t => (step S i t none false none false false false).isSome)) =
    some ([[.lrLoop .old 0 (.remove 3) (.some 6 101), .idle, .rTree 0, .idle],
           [.idle, .wLock .old 0, .idle, .xStoreHigh (.inl 0) (.list 1)]],
          [[false, false, true, false], [false, false, false, true]]) := by decide

/-- the run drains the table: quiescent, `Gmu` from 4751 (= 2013 + 2738) to 0; its length 22 is within
`Gmu`; both lineages' clocks show the same time -/
theorem busy_drained : (busyState.bind fun S => (runQuiet S drainSched).map fun S' =>
      (quiescentB S', drainSched.length, S.bins.map BinG.gmu, Gmu S, Gmu S', S'.bins.map (·.now))) =
    some (true, 22, [2013, 2738], 4751, 0, [79, 79]) := by decide

/-- the three calls in flight have been answered in the history of the map, and lineage 1 is transferred -/
example : (busyState.bind fun S => (runQuiet S drainSched).map fun S' =>
      ((mhist S').filter (fun c => decide (57 ≤ c.call.resp)) |>.map fun c => (c.key, c.call.tid, c.call.res),
        S'.bins.map fun b => (b.cell0, b.cur))) =
    some ([(0, 2, .some 5 100), (4, 0, .some 6 101), (2, 1, .some 20 200)],
      [(.tree 0, .old), (.moved, .new)]) := by decide

/-- `Gmu` along the first steps of that run: strictly decreasing -/
example : ((List.range 6).map fun k => busyState.bind fun S => (runQuiet S (drainSched.take k)).map Gmu) =
    [some 4751, some 4413, some 4412, some 4084, some 3682, some 3280] := by decide

/-- the general theorems instantiated at `busyState` -/
theorem busy_example : ∃ S S', busyState = some S ∧ Reachable 2 4 S ∧ ¬ quiescent S ∧ TQRun S 22 S' ∧
    quiescent S' ∧ 22 ≤ Gmu S ∧ (∀ S'', ¬ TQStep S' S'') := by
  have h : (busyState.bind fun S => (runQuiet S drainSched).map fun S' => (quiescentB S, quiescentB S')) =
      some (false, true) := by decide
  cases hs : busyState with
  | none => rw [hs] at h; cases h
  | some S =>
    rw [hs] at h
    simp only [Option.bind_some] at h
    cases hs' : runQuiet S drainSched with
    | none => rw [hs'] at h; cases h
    | some S' =>
      rw [hs'] at h
      simp only [Option.map_some, Option.some.injEq, Prod.mk.injEq] at h
      have hr : Reachable 2 4 S := run_reachable busySched Reachable.init hs
      have hrun : TQRun S 22 S' := runQuiet_tqrun drainSched hs'
      have hq : quiescent S' := (quiescentB_iff S').1 h.2
      have hnq : ¬ quiescent S := fun hq0 => by
        have := (quiescentB_iff S).2 hq0
        rw [h.1] at this
        cases this
      have hb := (tableG_quiet_run_bounded hr hrun).1
      exact ⟨S, S', rfl, hr, hnq, hrun, hq, by omega, fun _ => no_tqstep_of_quiescent hq⟩

end Flurry.Proto.TableGP
