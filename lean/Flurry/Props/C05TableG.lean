import Flurry.Proto.TableG
import Flurry.Props.C01TableG
import Flurry.Props.C05BinG
import Flurry.Lemmas.TableGQuiescent
import Flurry.Lemmas.TableGHeapKeys
import Flurry.Lemmas.TableGQuiescentExamples
/-! # C05 (table level, concurrent model, across a resize): at quiescence iteration over the table = lookup

`Proto/TableG`: `m` lineages (`Proto/BinG`), key `k` in lineage `lineageOf m k = (k / 2) % m`, one
clock, any number of threads, each lineage transferred once (by whichever thread). `quiescent S`:
every thread is idle in every lineage. `entries S`: the entries of all lineages, lineage by lineage
(`BinG.entries`: the lists of the live cells of the lineage — the old cell until it is forwarded, the
two cells of the next table afterwards) — what an iterator over the whole table that starts now and
runs alone yields. `absMap S k`: what a lookup of `k` finds (the abstract state of `k` in its lineage);
by `tableG_map_linearizable` it is the map the ONE sequential order of all completed calls leads to.

Lineage-local facts lift through `tableG_lineage_reachable`. The one global fact, "every key stored in
lineage `i` is a key of lineage `i`" (`tableG_stored_key_in_own_lineage`), is derived at quiescence from
linearizability: a stored key is present, so the history of its lineage holds a call on it, and calls
stay in their lineage (`tableG_key_in_own_lineage`). Proofs: `Lemmas/TableGQuiescent.lean`.

It also holds in EVERY reachable state, for every heap node (`tableG_node_key_in_own_lineage`), by
induction over the transitions: nodes are created only with the key of the call that inserts them or as
copies (treeify, untreeify, transfer) of nodes of the lineage (`Lemmas/BinGHeapKeys.lean`,
`Lemmas/TableGHeapKeys.lean`). Hence the list facts — iteration = abstract map, no key twice — need no
quiescence either (`tableG_reachable_iter_agrees`); quiescence is what makes the abstract map the
outcome of the linearization of the completed calls, and what leaves nothing locked or half-resized. -/
namespace Flurry.Proto.TableG
open Flurry.Lin Flurry.LinMap

/-- every lineage of a reachable quiescent table is a reachable quiescent `Proto/BinG` lineage: all of
`Props/C05BinG.lean` applies to it -/
theorem tableG_lineage_quiescent {m n : Nat} {S : State} (hr : Reachable m n S) (hq : quiescent S)
    {b : BinG.State} (hb : b ∈ S.bins) : BinG.Reachable n b ∧ BinG.quiescent b := lineage_quiescent hr hq hb

/-- **every entry resides in the lineage its key selects**: at quiescence a key stored in (a live cell
of) lineage `i` is a key of lineage `i` -/
theorem tableG_stored_key_in_own_lineage {m n : Nat} {S : State} (hr : Reachable m n S) (hq : quiescent S)
    {i : Nat} {b : BinG.State} (hb : S.bins[i]? = some b) {k : Nat} {v : Nat × Nat}
    (he : (k, v) ∈ BinG.entries b) : lineageOf m k = i := stored_key_in_own_lineage hr hq hb he

/-- … and, inside that lineage, on the list of the cell a lookup of its key ends in; in the next table
that is the low cell (index `i`) for split bit 0 and the high cell (index `i + m`) for split bit 1 -/
theorem tableG_quiescent_entry_in_own_cell {m n : Nat} {S : State} (hr : Reachable m n S) (hq : quiescent S)
    {i : Nat} {b : BinG.State} (hb : S.bins[i]? = some b) {k : Nat} {v : Nat × Nat}
    (he : (k, v) ∈ BinG.entries b) :
    lineageOf m k = i ∧ (k, v) ∈ BinG.entriesOfCell b (BinG.liveCell b k) ∧
      ((k, v) ∈ BinG.entriesOfCell b b.lowCell → BinG.hiBit k = false) ∧
      ((k, v) ∈ BinG.entriesOfCell b b.highCell → BinG.hiBit k = true) := entry_position hr hq hb he

/-- **iteration over the whole table yields exactly the keys for which lookup succeeds, with the value
lookup returns** -/
theorem tableG_quiescent_iter_agrees {m n : Nat} {S : State} (hr : Reachable m n S) (hq : quiescent S)
    (hm : 0 < m) : ∀ k v, (k, v) ∈ entries S ↔ absMap S k = some v := mem_entries_iff_absMap hr hq hm

/-- **no key occurs twice**, across ALL lineages and both tables -/
theorem tableG_quiescent_keys_distinct {m n : Nat} {S : State} (hr : Reachable m n S) (hq : quiescent S) :
    ((entries S).map (·.1)).Nodup := entries_keys_nodup hr hq

/-- no entry is yielded twice -/
theorem tableG_quiescent_entries_nodup {m n : Nat} {S : State} (hr : Reachable m n S) (hq : quiescent S) :
    (entries S).Nodup := entries_nodup hr hq

/-- **each exactly once — the count**: the keys yielded are the keys of the abstract map, without
repetition; any duplicate-free enumeration of the keys of the abstract map is a permutation of the keys
yielded, and the number of entries is the number of keys of the map -/
theorem tableG_quiescent_len {m n : Nat} {S : State} (hr : Reachable m n S) (hq : quiescent S) (hm : 0 < m) :
    ((entries S).map (·.1)).Nodup ∧ (∀ k, k ∈ (entries S).map (·.1) ↔ absMap S k ≠ none) ∧
    ∀ ks : List Nat, ks.Nodup → (∀ k, k ∈ ks ↔ absMap S k ≠ none) →
      ks.Perm ((entries S).map (·.1)) ∧ ks.length = (entries S).length :=
  ⟨entries_keys_nodup hr hq, mem_keys_iff_absMap hr hq hm, fun _ hnd hks => entries_count hr hq hm hnd hks⟩

/-- iteration yields the map that the one sequential order of all completed calls on all keys leads to -/
theorem tableG_quiescent_iter_is_linearized_map {m n : Nat} {S : State} (hr : Reachable m n S) (hq : quiescent S)
    (hm : 0 < m) :
    LinMap.MapLinearizable (mhist S) (fun _ => none) (absMap S) ∧ ∀ k v, (k, v) ∈ entries S ↔ absMap S k = some v :=
  ⟨tableG_map_linearizable hm hr hq, mem_entries_iff_absMap hr hq hm⟩

/-- **no forwarding marker or half-finished resize is left behind**: at quiescence every lineage is
entirely before its transfer or entirely after it — started, forwarded and committed are equivalent;
before, both its cells of the next table are empty; after, neither holds a marker. (Different lineages
may be on different sides: the table pointer is modelled per lineage, see `Proto/TableG.lean`.) -/
theorem tableG_quiescent_no_half_resize {m n : Nat} {S : State} (hr : Reachable m n S) (hq : quiescent S) :
    ∀ b ∈ S.bins, (b.resizing = true ↔ b.cur = .new) ∧ (b.cell0 = .moved ↔ b.cur = .new) ∧
      (b.cur = .old → b.resizing = false ∧ b.cell0 ≠ .moved ∧ b.lowCell = .empty ∧ b.highCell = .empty) ∧
      (b.cur = .new → b.resizing = true ∧ b.cell0 = .moved ∧ b.lowCell ≠ .moved ∧ b.highCell ≠ .moved) :=
  fun _ hb => BinG.quiescent_no_half_resize (lineage_quiescent hr hq hb).1 (lineage_quiescent hr hq hb).2

/-- **no lock is left held**, in any lineage: every lock word of every node is free, every mutex is free,
no `TreeBin` has a reader inside, every `TreeBin` in a cell has its write lock and waiter bit clear -/
theorem tableG_quiescent_unlocked {m n : Nat} {S : State} (hr : Reachable m n S) (hq : quiescent S) :
    ∀ b ∈ S.bins, (∀ j, (BinK.nodeAt b.heap j).lock = none) ∧ (∀ x, (BinK.binAt b.tbins x).mutex = none) ∧
      (∀ x, x < b.tbins.length → (BinK.binAt b.tbins x).readers = 0) ∧
      ∀ id x, BinG.cellAt b id = .tree x → (BinK.binAt b.tbins x).writer = false ∧ (BinK.binAt b.tbins x).waiter = false :=
  fun _ hb => BinG.quiescent_unlocked (lineage_quiescent hr hq hb).1 (lineage_quiescent hr hq hb).2

/-- for every `TreeBin` in a live cell of any lineage the tree set is the list set -/
theorem tableG_quiescent_tree_eq_list {m n : Nat} {S : State} (hr : Reachable m n S) (hq : quiescent S)
    {b : BinG.State} (hb : b ∈ S.bins) {x : Nat} (hc : BinG.Cell.tree x ∈ BinG.liveCells b) :
    (BinK.binAt b.tbins x).mutex = none ∧ (BinK.binAt b.tbins x).writer = false ∧
    ∀ i, i < b.heap.length → ((BinK.nodeAt b.heap i).owner = some x ∧ (BinK.nodeAt b.heap i).inTree = true ↔
      i ∈ BinG.chainOfBin b x) :=
  BinG.quiescent_live_tree_eq_list (lineage_quiescent hr hq hb).1 (lineage_quiescent hr hq hb).2 hc

/-! ## the same without quiescence (`Lemmas/TableGHeapKeys.lean`) -/

/-- **every node of lineage `i` holds a key of lineage `i`**, in every reachable state, whether or not
the node is (still / already) on a list: the extension of `tableG_key_in_own_lineage` from calls to nodes -/
theorem tableG_node_key_in_own_lineage {m n : Nat} {S : State} (hr : Reachable m n S) {i : Nat} {b : BinG.State}
    (hb : S.bins[i]? = some b) {j : Nat} (hj : j < b.heap.length) :
    lineageOf m (BinK.nodeAt b.heap j).key = i := node_key_in_own_lineage hr hb hj

/-- in every reachable state the entries on the live lists of the whole table are exactly the abstract
map, no key twice across all lineages, every entry in the lineage of its key -/
theorem tableG_reachable_iter_agrees {m n : Nat} {S : State} (hr : Reachable m n S) (hm : 0 < m) :
    ((entries S).map (·.1)).Nodup ∧ (∀ k v, (k, v) ∈ entries S ↔ absMap S k = some v) ∧
    ∀ i b k v, S.bins[i]? = some b → (k, v) ∈ BinG.entries b → lineageOf m k = i :=
  ⟨entries_keys_nodup_always hr, mem_entries_iff_absMap_always hr hm,
    fun _ _ _ _ hb he => stored_key_in_own_lineage_always hr hb he⟩

/-! ## non-vacuity (`Lemmas/TableGQuiescentExamples.lean`, kernel-checked by `decide`) -/

/-- the end of the run of `Props/C01TableG.lean` (two lineages, two threads, 100 transitions; lineage 0
transferred by a list split, lineage 1 by a tree-bin split into two fresh `TreeBin`s): reachable,
quiescent, the iterator yields the keys 0, 1, 5 (lineage 0) and 3 (lineage 1) — exactly the abstract map
on the keys `0 … 5` —, and, as the theorems say, iteration = lookup for EVERY key, no key twice -/
example : ∃ S : State, Reachable 2 2 S ∧ quiescent S ∧
    entries S = [(0, (30, 300)), (1, (10, 100)), (5, (50, 500)), (3, (41, 401))] ∧
    S.bins.map BinG.liveCells = [[.list 1, .list 2], [.tree 1, .tree 2]] ∧
    (List.range 6).map (absMap S) = [some (30, 300), some (10, 100), none, some (41, 401), none, some (50, 500)] ∧
    (∀ k v, (k, v) ∈ entries S ↔ absMap S k = some v) ∧ ((entries S).map (·.1)).Nodup := by
  obtain ⟨S, hr, hq, he, hl, ha⟩ := example_end
  exact ⟨S, hr, hq, he, hl, ha, tableG_quiescent_iter_agrees hr hq (by decide), tableG_quiescent_keys_distinct hr hq⟩

/-- the middle of that run (clock 49, quiescent too): lineage 0 is forwarded and committed, lineage 1 has
not been touched — the iterator walks the two cells of the next table in lineage 0 and the old cell (a
`TreeBin`) in lineage 1 -/
example : ∃ S : State, Reachable 2 2 S ∧ quiescent S ∧
    entries S = [(0, (30, 300)), (1, (10, 100)), (2, (20, 200)), (3, (40, 400))] ∧
    S.bins.map BinG.liveCells = [[.list 1, .list 2], [.tree 0]] ∧
    shape S = [(.moved, .list 1, .list 2, .new, true, 49), (.tree 0, .empty, .empty, .old, false, 49)] :=
  example_mid

end Flurry.Proto.TableG
