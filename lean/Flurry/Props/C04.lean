import Flurry.Lemmas.Reclaim
import Flurry.Lemmas.SeqOps
/-! # C04 — every key and value is destroyed exactly once

**Strength: full for the reclamation protocol, partial for its embedding.** In `Proto/Reclaim`
(objects = nodes, bins, tables, values): no object is freed twice, a freed object was retired, an
object is freed only after every guard active at its retirement has been released ("after — never
before"), and every retired object becomes freeable once those guards are gone. The instance
accounting on the real code (every key/value instance ever created, including the clones the map
makes, is dropped exactly once after the map and its collector are gone; a refused value is handed
back) is the drop ledger of the harness (`[drop]`, `[double-free]`), run on sequential and
scheduled executions. -/
namespace Flurry.C04
open Flurry.Proto.Reclaim

/-- nothing is freed twice — in any run, protected or not -/
theorem freed_at_most_once {n : Nat} {es : List Ev} {s : State} (h : run (init n) es = some s) :
    ∀ o, s.frees.getD o 0 ≤ 1 := free_at_most_once h

/-- "never before": the collector frees an object only when nobody it had to wait for is left -/
theorem freed_only_after_guards {s s' : State} {o : Nat} (h : step s (.free o) = some s') :
    s.objs[o]? = some (.retired []) := free_enabled_only_if h

/-- a freed object went through `retire` (protected runs) -/
theorem freed_was_retired {n : Nat} {es : List Ev} {s : State}
    (h : run (init n) es = some s) (hp : Protected es) {o : Nat} (ho : s.objs[o]? = some .freed) :
    (.free o ∈ es) ∧ ∃ t, .retire t o ∈ es := Flurry.Proto.Reclaim.freed_was_retired h hp ho

/-- "after": once the guards that were active at its retirement are released, a retired object
can be (and is, by the collector) freed — nothing retired is leaked for ever -/
theorem retired_is_eventually_freed {n : Nat} {es : List Ev} {s : State} (h : run (init n) es = some s)
    {o : Nat} {w : List Nat} (ho : s.objs[o]? = some (.retired w)) :
    ∃ s' s'', run s (w.map .exit) = some s' ∧ step s' (.free o) = some s'' ∧ s''.objs[o]? = some .freed :=
  retired_eventually_freed h ho

/-- sequential accounting on the model: a refused `try_insert` leaves the map unchanged and
reports the value that stays (the refused one is handed back by the caller-visible error) -/
theorem refused_insert_changes_nothing (m : Flurry.Seq.Map) (hg : Flurry.Seq.Good m) (k ki v vi : Nat)
    (hp : (Flurry.Seq.absMap m k).isSome = true) :
    Flurry.Seq.absMap (Flurry.Seq.put k ki v vi true m).1 = Flurry.Seq.absMap m := by
  rw [Flurry.Seq.put_absMap k ki v vi true hg]; simp [hp]

end Flurry.C04
