import Flurry.Lemmas.BinGDrainRun
import Flurry.Lemmas.BinGExamples
/-! # C11 for `Proto/BinG`, termination: every operation terminates under ANY schedule once no new work is started

> Once no new call, treeify or resize is started, every run of the threads in flight is finite — whatever
> the scheduler does, fair or not — and ends with every call answered.

Proved for the small-step model `Proto/BinG` over **all** reachable states and **all** schedules:

1. `gmu : State → Nat` (`Lemmas/BinGDrainDefs.lean`), `gmu s = W s * DA s + PS s`:
   * `DA`: the number of *disturbing* steps (stores into nodes / cells / the table pointer, allocations,
     changes of the read-write lock word of a `TreeBin`) the threads in flight still have ahead: at most
     5 per call / treeify / transfer, and a retry loop (failed re-check → unlock → reload; failed reader
     CAS → reload of the lock word) contains none;
   * `PS`: per thread, the number of *calm* steps (loads, lock / unlock of a node or of a bin mutex,
     local moves) until its next disturbing step / return / block, accounting for a possibly stale view
     with a pending retry; it reads the shared state only through the cells, the `next` pointers and the
     read-write lock words (`View`), which calm steps leave alone;
   * `W > threads.length * PM ≥ PS`: one disturbing step of `A` may make the view of EVERY other thread
     stale; it pays for all their retries out of `DA`;
   * walks are bounded through `rankL` relative to `N s = (heap.length + 1) * 4 ^ G s`, a bound on the
     heap length of every later state (`G`: the threads that may still allocate; an allocation at most
     quadruples `heap.length + 1`: a copied chain is no longer than the heap).
   `quiet_step_decreases`: EVERY enabled quiet step of a thread that is not `idle` strictly decreases
   `gmu`. **No counterexample exists: the strict-decrease claim holds for every transition** — unbounded
   re-tries without new work are impossible, because every failed re-check / failed CAS is caused by a
   disturbing step of another thread, and those are bounded.
2. `quiet_run_bounded`: a run of `k` quiet steps of non-idle threads from a reachable state has
   `k ≤ gmu s ≤ drainBound s`, an explicit function of the heap length and the number of threads.
3. `binG_drains`: any maximal such run ends, after at most `gmu s` steps, in a QUIESCENT state; no
   fairness assumption is needed. `binG_drain_exists`, `no_infinite_quiet_run`.
4. `every_call_returns`: along any maximal quiet run the call of every thread is answered.
5. a kernel-checked example. -/
namespace Flurry.Proto.BinG
open Flurry.Lin

/-- **C11.1: the global measure strictly decreases.** In every reachable state, every enabled quiet
step (`stepQuiet`: no call, treeify or resize is started) of a thread that is not `idle` strictly
decreases `gmu` — for every thread, every program counter, every value of `lo sm sm2`. -/
theorem quiet_step_decreases {n : Nat} {s s' : State} (hr : Reachable n s) (h : QStep s s') : gmu s' < gmu s :=
  h.gmu_lt hr

/-- the same for any enabled step of a thread that is not `idle` (the scheduler's arguments `inv`, `mt`,
`rz` are ignored by such a thread) -/
theorem nonidle_step_decreases {n : Nat} {s s' : State} (hr : Reachable n s) {t : Nat} {l : Local}
    (hl : s.threads[t]? = some l) (hne : l.pc ≠ .idle) {inv : Option (Nat × KOp)} {lo : Bool} {mt : Option Nat}
    {rz sm sm2 : Bool} (hs : step s t inv lo mt rz sm sm2 = some s') : gmu s' < gmu s :=
  step_gmu_lt hr hl hne hs

/-- `gmu` is bounded by `drainBound`, an explicit function of the heap length `n` and the number of
threads `T`: `(T * (4 * ((n + 1) * 4 ^ T) + 20) + 1) * (5 * T) + T * (4 * ((n + 1) * 4 ^ T) + 20)` -/
theorem gmu_le_bound {n : Nat} {s : State} (hr : Reachable n s) : gmu s ≤ drainBound s := gmu_le_drainBound hr

/-- **C11.2: quiet runs are bounded.** Any sequence of `k` enabled quiet steps of threads that are not
`idle`, from a reachable state `s`, has `k + gmu s' ≤ gmu s`; in particular `k ≤ gmu s ≤ drainBound s`. -/
theorem quiet_run_bounded {n : Nat} {s s' : State} {k : Nat} (hr : Reachable n s) (h : QRun s k s') :
    k + gmu s' ≤ gmu s ∧ k ≤ drainBound s := by
  have h1 := qrun_bounded hr h
  have h2 := gmu_le_drainBound hr
  exact ⟨h1, by omega⟩

/-- a quiet run that has not reached a quiescent state can be extended (`binG_never_stuck`) -/
theorem quiet_run_extends {n : Nat} {s s' : State} {k : Nat} (hr : Reachable n s) (h : QRun s k s')
    (hq : ¬ quiescent s') : ∃ s'', QRun s (k + 1) s'' := by
  obtain ⟨s'', h''⟩ := qstep_of_not_quiescent (h.reachable hr) hq
  exact ⟨s'', h.snoc h''⟩

/-- **C11.3: every maximal quiet run drains the lineage.** From every reachable state, ANY sequence of
quiet steps of threads that are not `idle` that cannot be extended ends in a QUIESCENT state, after at
most `gmu s ≤ drainBound s` steps. No fairness assumption: every schedule that keeps running enabled
non-idle threads terminates all calls, treeifies and the transfer. -/
theorem binG_drains {n : Nat} {s s' : State} {k : Nat} (hr : Reachable n s) (h : QRun s k s')
    (hmax : ∀ s'', ¬ QStep s' s'') : quiescent s' ∧ k ≤ gmu s ∧ k ≤ drainBound s := by
  have h1 := qrun_bounded hr h
  have h2 := gmu_le_drainBound hr
  exact ⟨qrun_maximal_quiescent hr h hmax, by omega, by omega⟩

/-- a quiescent state is where quiet runs stop: maximal ⇔ quiescent -/
theorem quiescent_iff_maximal {n : Nat} {s : State} (hr : Reachable n s) :
    quiescent s ↔ ∀ s', ¬ QStep s s' :=
  ⟨fun hq _ => no_qstep_of_quiescent hq, fun h => qrun_maximal_quiescent hr (.nil s) h⟩

/-- from every reachable state some quiet run reaches a quiescent state, within `gmu s` steps -/
theorem binG_drain_exists {n : Nat} {s : State} (hr : Reachable n s) :
    ∃ k s', QRun s k s' ∧ quiescent s' ∧ k ≤ gmu s := by
  obtain ⟨k, s', h, hq⟩ := drain_exists (gmu s) hr (Nat.le_refl _)
  have := qrun_bounded hr h
  exact ⟨k, s', h, hq, by omega⟩

/-- there is no infinite execution in which no new call / treeify / resize is started and only
threads that are not `idle` take steps -/
theorem no_infinite_quiet_run {n : Nat} {s : State} (hr : Reachable n s) (f : Nat → State) (h0 : f 0 = s) :
    ¬ ∀ i, QStep (f i) (f (i + 1)) := fun h => no_infinite_qrun hr f h0 h

/-- **C11.4: every call returns.** For a thread `t` with the call `p` in flight in a reachable state
`s`: at the end of any maximal quiet run from `s` the call has been answered — `hist` has an entry with
the thread, key, operation and invocation time of `p`. (Along the run the call stays pending until it
is answered: `qrun_call_returns`.) -/
theorem every_call_returns {n : Nat} {s s' : State} {k : Nat} (hr : Reachable n s) (h : QRun s k s')
    (hmax : ∀ s'', ¬ QStep s' s'') {t : Nat} {l : Local} {p : Pending} (hl : s.threads[t]? = some l)
    (hp : l.call = some p) : Answered s' t p := by
  have hq := qrun_maximal_quiescent hr h hmax
  rcases qrun_call_returns hr h hl hp with ⟨l1, hl1, hp1⟩ | ha
  · exfalso
    have hidle : l1.pc = .idle := hq l1 (List.mem_iff_getElem?.2 ⟨t, hl1⟩)
    have := ((reachable_inv (h.reachable hr)).thr.callOK t l1 hl1).2 (by rw [hidle]; rfl)
    rw [hp1] at this
    cases this
  · exact ha

/-! ## non-vacuity: four threads in flight, drained by a concrete quiet run -/

/-- run the quiet steps of the listed threads (`lo = sm = sm2 = false`); `none` if a listed thread is
`idle` or its step is not enabled -/
def runQuiet : State → List Nat → Option State
  | s, [] => some s
  | s, t :: rest =>
    match s.threads[t]? with
    | none => none
    | some l =>
      if l.pc = .idle then none
      else
        match stepQuiet s t false false false with
        | none => none
        | some s' => runQuiet s' rest

theorem runQuiet_qrun : ∀ (sc : List Nat) {s s' : State}, runQuiet s sc = some s' → QRun s sc.length s'
  | [], s, s', h => by
    simp only [runQuiet, Option.some.injEq] at h
    subst h
    exact .nil s
  | t :: rest, s, s', h => by
    unfold runQuiet at h
    cases hl : s.threads[t]? with
    | none => rw [hl] at h; cases h
    | some l =>
      rw [hl] at h
      dsimp only at h
      by_cases hid : l.pc = .idle
      · rw [if_pos hid] at h; cases h
      · rw [if_neg hid] at h
        cases hs : stepQuiet s t false false false with
        | none => rw [hs] at h; cases h
        | some s1 =>
          rw [hs] at h
          exact .cons ⟨t, l, false, false, false, hl, hid, hs⟩ (runQuiet_qrun rest h)

/-- thread 0: `ins 0`, `ins 2`; thread 1 treeifies (`TreeBin` 0); thread 2: `get 0` — holds the read
lock, suspended at `rTree`; thread 0: `rm 2` — **parked at `lrLoop`** (`WAITER` set); thread 1: `ins 4` —
**blocked at `tMutex`**; thread 3 has started the resize, loaded the old cell (`tree 0`) and is
**blocked at `yMutex`**, about to transfer the bin: four threads in flight, three of them waiting. -/
def busySched : Sched :=
  setupLow ++ call 2 0 .get ++ rep 2 5 ++ call 0 2 .rm ++ rep 0 7 ++ call 1 4 (.ins 7 7) ++ rep 1 2 ++
  [{ t := 3, rz := true }] ++ rep 3 1

def busyState : Option State := run step (init 4) busySched

/-- the reader leaves (3 steps); the parked writer takes the write lock and finishes `rm 2` (5 steps);
the resizer takes the mutex and transfers the bin (the old `TreeBin` is re-used in the low cell), 8 steps;
the queued writer takes the mutex, **fails its re-check**, unlocks, follows the marker, locks the same
`TreeBin` again in the new table and inserts (13 steps): 29 quiet steps of non-idle threads -/
def drainSched : List Nat :=
  List.replicate 3 2 ++ List.replicate 5 0 ++ List.replicate 8 3 ++ List.replicate 13 1

example : (busyState.map fun s => (s.threads.map (·.pc), (List.range 4).map fun t => (act step s { t := t }).isSome)) =
    some ([.lrLoop .old 0 (.remove 3) (.some 6 101), .tMutex .old 0, .rTree 0, .yMutex 0],
      [false, false, true, false]) := by decide

/-- the run drains the lineage: quiescent, all three calls answered, the bin transferred; its length
29 is within `gmu = 78041 ≤ drainBound = 431780` -/
theorem busy_drained : (busyState.bind fun s => (runQuiet s drainSched).map fun s' =>
      (quiescentB s', drainSched.length, gmu s, drainBound s, gmu s')) =
    some (true, 29, 78041, 431780, 0) := by decide

example : (busyState.bind fun s => (runQuiet s drainSched).map fun s' => (s'.cell0, s'.lowCell, s'.cur)) =
    some (.moved, .tree 0, .new) := by decide

example : (busyState.bind fun s => (runQuiet s drainSched).map fun s' =>
      (s'.hist.take 3).map fun x => (x.1, x.2.tid, x.2.res)) =
    some [(4, 1, .none), (2, 0, .some 6 101), (0, 2, .some 5 100)] := by decide

/-- `gmu` along the first steps of that run: strictly decreasing -/
example : ((List.range 6).map fun k => busyState.bind fun s => (runQuiet s (drainSched.take k)).map gmu) =
    [some 78041, some 78040, some 72838, some 72837, some 67635, some 16353] := by decide

/-- the general theorems instantiated at `busyState` -/
example : ∃ s s', busyState = some s ∧ Reachable 4 s ∧ QRun s 29 s' ∧ quiescent s' ∧ 29 ≤ gmu s ∧
    (∀ s'', ¬ QStep s' s'') := by
  have h : (busyState.bind fun s => (runQuiet s drainSched).map fun s' => quiescentB s') = some true := by decide
  cases hs : busyState with
  | none => rw [hs] at h; cases h
  | some s =>
    rw [hs] at h
    simp only [Option.bind_some] at h
    cases hs' : runQuiet s drainSched with
    | none => rw [hs'] at h; cases h
    | some s' =>
      rw [hs'] at h
      simp only [Option.map_some, Option.some.injEq] at h
      have hr : Reachable 4 s := run_reachable busySched Reachable.init hs
      have hrun : QRun s 29 s' := runQuiet_qrun drainSched hs'
      have hq : quiescent s' := (quiescentB_iff s').1 h
      have hb := (quiet_run_bounded hr hrun).1
      exact ⟨s, s', rfl, hr, hrun, hq, by omega, fun _ => no_qstep_of_quiescent hq⟩

end Flurry.Proto.BinG
