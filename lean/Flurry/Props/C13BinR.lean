import Flurry.Lemmas.BinRExamples
import Flurry.Lemmas.Lin2CondRm
/-! # C13 (bin level): `retain` removes an entry only if the predicate rejected exactly the value
that is still associated with the key at the moment of removal

> retain(f) removes an entry only if f returned false for exactly the value that is still associated
> with the key at the moment of removal: an entry whose value was replaced after f inspected it, or
> for which f returned true, is never removed by that call.

**Specification** (`Flurry/Lin2.lean`): the per-key operations of `Flurry/Lin.lean` plus
`condRm vi` — "remove the key iff its current value has id `vi`", result `.none`. A value is
`(payload, id)`; every `ins` / `tryIns` / `cipInc` brings a fresh id, so the id plays the role of
the pointer identity that `replace_node(k, None, Some(v))` compares under the bin lock.

**Model** (`Flurry/Proto/BinR.lean`): `Proto/BinW` (the list bin with the writer's walk spelled out:
load the bin cell, lock the head node, re-check the cell, walk `wFind` one `next` load at a time, one
store `wStore` through the remembered positions, unlock) with
* the extra writer operation `condRm vi`: same walk; at `wStore` with hit node `i` it unlinks `i`
  iff `heap[i].val.2 = vi`, else stores nothing; result `.none`;
* the first half of a `retain` visit as its own steps: a thread asked to visit key `k` walks to the
  node like a reader (`vHead`, `vNode`), loads the id of the node's value (`vLoaded k vi`), and the
  scheduler plays the predicate: "keep" ends the visit without any call, "drop" turns the thread
  into a writer executing `condRm vi` (invoked at that moment). `condRm vi` can also be invoked
  directly with an arbitrary `vi`, so the theorems do not depend on where the id came from;
* the refuted variant `stepNoCompare`, whose `condRm` unlinks without comparing the id (what a
  `retain` that forgets the observed value — or `retain_force` used in its place — would do).

**Proof**: simulation into `Proto/BinR.Base` (= `Proto/Bin` over the extended operations: a writer
stores in one atomic transition under the lock), whose ghost invariant gives linearization points;
the visit steps are invisible on the projection (no call is in flight) and "drop" is an invocation.
All of it is `Lemmas/BinRB*.lean` (Base), `Lemmas/BinR*.lean`, `Lemmas/Lin2*.lean`. -/
namespace Flurry.C13R
open Flurry.Lin2 Flurry.Proto.BinR

/-- **Linearizability with conditional removals mixed in.** Under every interleaving of any number
of threads doing `ins` / `tryIns` / `rm` / `cipInc` / `cipRm` / `get` / `has`, direct `condRm` calls
and `retain` visits, in every reachable state in which no call is in flight, the history of each key
is linearizable with respect to the specification with `condRm`, from "absent" to the content the
bin has for that key. -/
theorem binR_linearizable_quiescent {n : Nat} {s : State} (hr : Reachable n s) (hq : quiescent s) (k : Nat) :
    Lin2.Linearizable2 (callsOn s k) none (absOf s k) :=
  Flurry.Proto.BinR.binR_linearizable_quiescent hr hq k

/-- the same in every reachable state, counting writers that have stored and only have to unlock as
responding now -/
theorem binR_linearizable {n : Nat} {s : State} (hr : Reachable n s) (k : Nat) :
    Lin2.Linearizable2 (callsOnExt s k) none (absOf s k) :=
  Flurry.Proto.BinR.binR_linearizable hr k

/-- one step of the specification: `condRm vi` reports nothing; it leaves the state as it is unless
the state is `some (v, vi)` — the observed value itself — and then the key becomes absent -/
theorem spec_condRm (st : KSt) (vi : Nat) :
    (specStep2 st (.condRm vi)).2 = .none ∧
    ((specStep2 st (.condRm vi)).1 = st ∨
      ∃ v, st = some (v, vi) ∧ (specStep2 st (.condRm vi)).1 = none) :=
  Flurry.Lin2.spec_condRm st vi

/-- **A conditional removal removes only the observed value** (any linearizable history). In the
witness order, cut at any `condRm vi` call `c`: the calls before it lead from `init` to a state
`st`; `c` reports `.none`; either `c` leaves `st` unchanged, or `st = some (v, vi)` — the value with
exactly the observed id, not one that replaced it (`ins` / `cipInc` create fresh ids) — and `c`
makes the key absent; the calls after it lead on to `fin`. -/
theorem condRm_removes_only_observed {h : History2} {init fin : KSt} (hl : Linearizable2 h init fin) :
    ∃ order : List Nat, order.Perm (List.range h.length) ∧
      (∀ (p q : Nat) (a b : Call2), p < q → order[p]? >>= (h[·]?) = some a →
        order[q]? >>= (h[·]?) = some b → ¬ (b.resp < a.inv)) ∧
      replay2 h order init = some fin ∧
      ∀ (pre post : List Nat) (i : Nat) (c : Call2) (vi : Nat),
        order = pre ++ i :: post → h[i]? = some c → c.op = .condRm vi →
        ∃ st, replay2 h pre init = some st ∧ c.res = .none ∧
          replay2 h post (specStep2 st (.condRm vi)).1 = some fin ∧
          ((specStep2 st (.condRm vi)).1 = st ∨
            ∃ v, st = some (v, vi) ∧ (specStep2 st (.condRm vi)).1 = none) :=
  Flurry.Lin2.condRm_removes_only_observed hl

/-- **The store of a conditional removal** (model level, any reachable state). When a writer
executing `condRm vi` is about to store (`wStore h pred hit hnext`): the bin cell still holds `h` and
the writer holds the lock in node `h` (the validated bin lock); the node it remembered, `hit`, is the
node of its key on the live chain; it reports `.none`; and the store unlinks that node — the key goes
from that node's value to absent — if and only if the node's current value id is `vi`: with another
id, or without a node, the state is left exactly as it is. No other key is affected. -/
theorem condRm_store_spec {n : Nat} {s : State} (hr : Reachable n s) {t : Nat} {l : Local} {p : Pending}
    {h : Nat} {pred hit hnext : Option Nat} {vi : Nat}
    (hl : s.threads[t]? = some l) (hpc : l.pc = .wStore h pred hit hnext) (hc : l.call = some p)
    (hop : p.op = .condRm vi) :
    (s.head = some h ∧ (s.heap.getD h ⟨0, (0, 0), none, none⟩).lock = some t) ∧
    (chain s).find? (fun i => (s.heap.getD i ⟨0, (0, 0), none, none⟩).key == p.key) = hit ∧
    (storeAt s p pred hit hnext).2 = .none ∧
    (match hit with
      | some i =>
        if (s.heap.getD i ⟨0, (0, 0), none, none⟩).val.2 = vi then
          absOf s p.key = some (s.heap.getD i ⟨0, (0, 0), none, none⟩).val ∧
          absOf (storeAt s p pred hit hnext).1 p.key = none
        else (storeAt s p pred hit hnext).1 = s
      | none => (storeAt s p pred hit hnext).1 = s) ∧
    ∀ k, k ≠ p.key → absOf (storeAt s p pred hit hnext).1 k = absOf s k :=
  condRm_store hr hl hpc hc hop

/-- **A value that replaced the observed one survives.** `ins (v, a)` completes; then a `retain`
whose predicate saw the value with id `a` removes conditionally (`condRm a`) while a concurrent
`ins (w, b)` with a fresh id `b ≠ a` replaces the value. In every linearizable outcome the key ends
up holding `(w, b)` — never absent with the insert's effect lost — in one of two ways: the insert
came first (it reports the old value `(v, a)`, and the conditional removal finds another id and does
nothing), or the removal came first (it removed `(v, a)`; the insert reports `none` and inserts). -/
theorem replaced_value_survives {v w a b : Nat} {c0 c1 c2 : Call2} {init fin : KSt} (hab : a ≠ b)
    (h0 : c0.op = .ins v a) (h1 : c1.op = .condRm a) (h2 : c2.op = .ins w b)
    (hb1 : c0.resp < c1.inv) (hb2 : c0.resp < c2.inv)
    (hl : Linearizable2 [c0, c1, c2] init fin) :
    fin = some (w, b) ∧ c0.res = resOf init ∧ c1.res = .none ∧
      (c2.res = .some v a ∨ c2.res = .none) :=
  Flurry.Lin2.replaced_value_survives hab h0 h1 h2 hb1 hb2 hl

/-- the load of a `retain` visit: from `vNode k (some c)` the thread reads node `c`; if its key is
`k` the visit goes to `vLoaded k vi` with `vi` the id of the value node `c` holds right now,
otherwise it moves on to the next node -/
theorem visit_load {s s' : State} {t : Nat} {l : Local} {inv : Option Inv} {k c : Nat}
    (hl : s.threads[t]? = some l) (hpc : l.pc = .vNode k (some c)) (hs : step s t inv = some s') :
    ∃ nd, s.heap[c]? = some nd ∧
      s' = setT (tick s) t { l with pc := if nd.key = k then .vLoaded k nd.val.2 else .vNode k nd.next } :=
  Flurry.Proto.BinR.visit_load hl hpc hs

/-- the predicate returned false: the visit turns into the call `condRm vi` for the id it loaded -/
theorem visit_drop {s : State} {t : Nat} {l : Local} {k vi : Nat}
    (hl : s.threads[t]? = some l) (hpc : l.pc = .vLoaded k vi) :
    step s t (some .drop) =
      some (setT (tick s) t { pc := .wHead, call := some ⟨k, .condRm vi, s.now + 1⟩ }) :=
  Flurry.Proto.BinR.visit_drop hl hpc

/-- the predicate returned true: the visit ends, no call is made, heap, bin cell and history stay as
they are (only the clock and this thread's program counter change) -/
theorem visit_keep {s : State} {t : Nat} {l : Local} {k vi : Nat} {inv : Option Inv}
    (hl : s.threads[t]? = some l) (hpc : l.pc = .vLoaded k vi) (hinv : inv ≠ some .drop) :
    step s t inv = some (setT (tick s) t { l with pc := .idle }) :=
  Flurry.Proto.BinR.visit_keep hl hpc hinv

/-- **The comparison is load-bearing.** In the variant whose `condRm` unlinks without comparing the
value id there is a reachable state with no call in flight whose history of key 0 is not
linearizable: `insert (5, id 1)`; a `retain` visit loads id 1; `insert (7, id 2)` replaces the value
and returns; the visit's removal then deletes `(7, 2)`, which its predicate never saw. -/
theorem noCompare_not_linearizable :
    ∃ s, ReachableNoCompare 2 s ∧ quiescent s ∧ ¬ Lin2.Linearizable2 (callsOn s 0) none (absOf s 0) :=
  noCompare_not_linearizable_replaced

/-- hence the linearizability theorem is false for the variant without the comparison -/
theorem noCompare_refutes :
    ¬ ∀ (n : Nat) (s : State), ReachableNoCompare n s → quiescent s → ∀ k,
      Lin2.Linearizable2 (callsOn s k) none (absOf s k) :=
  Flurry.Proto.BinR.noCompare_refutes

/-! ## non-vacuity (kernel evaluation) -/

/-- the run of `noCompare_not_linearizable` in the real model: all steps are enabled, the final
state is reachable and quiescent, the replaced value `(7, 2)` is still there and the search finds a
linearization -/
theorem replaced_run :
    (run step (init 2) schedReplaced).map (fun s => (callsOn s 0, absOf s 0)) =
      some ([⟨0, .ins 5 1, .none, 1, 3⟩, ⟨0, .ins 7 2, .some 5 1, 7, 13⟩, ⟨1, .condRm 1, .none, 14, 20⟩],
        some (7, 2)) ∧
    ∃ s, run step (init 2) schedReplaced = some s ∧ Reachable 2 s ∧ quiescent s ∧
      (search (callsOn s 0) none (absOf s 0)).isSome = true :=
  ⟨replaced_history, compare_replaced⟩

/-- the same run without the comparison: the key is gone -/
theorem replaced_run_noCompare :
    (run stepNoCompare (init 2) schedReplaced).map (fun s => (callsOn s 0, absOf s 0)) =
      some ([⟨0, .ins 5 1, .none, 1, 3⟩, ⟨0, .ins 7 2, .some 5 1, 7, 13⟩, ⟨1, .condRm 1, .none, 14, 20⟩],
        none) :=
  replaced_noCompare_history

/-- the conditional removal is not a no-op: when nothing replaced the observed value, the visit's
`condRm 1` removes the key (bin empty afterwards, a later `get` sees nothing) -/
theorem removes_run :
    (run step (init 2) schedRemoves).map (fun s => (callsOn s 0, absOf s 0, s.head)) =
      some ([⟨0, .ins 5 1, .none, 1, 3⟩, ⟨1, .condRm 1, .none, 7, 13⟩, ⟨0, .get, .none, 14, 16⟩],
        none, none) :=
  removes_history

/-- a visit whose predicate says "keep" leaves no trace -/
theorem keep_run :
    (run step (init 2) schedKeep).map (fun s => (callsOn s 0, absOf s 0)) =
      some ([⟨0, .ins 5 1, .none, 1, 3⟩, ⟨0, .get, .some 5 1, 8, 10⟩], some (5, 1)) :=
  keep_history

/-- an instance of `replaced_value_survives`'s hypotheses that is linearizable both ways -/
example : Linearizable2 [⟨0, .ins 5 1, .none, 0, 1⟩, ⟨1, .condRm 1, .none, 2, 5⟩, ⟨0, .ins 7 2, .some 5 1, 3, 4⟩]
    none (some (7, 2)) := by decide
example : Linearizable2 [⟨0, .ins 5 1, .none, 0, 1⟩, ⟨1, .condRm 1, .none, 2, 5⟩, ⟨0, .ins 7 2, .none, 3, 4⟩]
    none (some (7, 2)) := by decide
/-- and the outcome it excludes is indeed not linearizable -/
example : ¬ Linearizable2 [⟨0, .ins 5 1, .none, 0, 1⟩, ⟨1, .condRm 1, .none, 2, 5⟩, ⟨0, .ins 7 2, .some 5 1, 3, 4⟩]
    none none := by decide

end Flurry.C13R
