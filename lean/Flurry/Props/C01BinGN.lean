import Flurry.Lemmas.BinGNLive
import Flurry.Lemmas.BinGNRw
import Flurry.Lemmas.BinGNTime
import Flurry.Lemmas.BinGNQuiet
import Flurry.Lemmas.BinGNInvDefs
import Flurry.Lemmas.BinGNExamples
/-! # C01 / C05 / C07 / C08 / C10 (bin level): one bin lineage with list AND tree bins through ANY NUMBER of
successive resizes — the model, its validation by execution, and the generation / lock invariant

`Proto/BinGN.lean` is the union of `Proto/BinG` (per cell: empty / list bin / tree bin / forwarding marker;
treeify, untreeify, tree writers with the bin mutex + write lock + WAITER / park, lock-protocol readers, list
readers and iterators; the transfer of an empty cell (CAS of the marker), of a list bin (split with the re-used
last run) and of a tree bin (per side: nothing / a plain list of fresh nodes / the OLD `TreeBin` object re-used
when the other side is empty / a fresh `TreeBin`)) and of `Proto/BinN` (generations `0, 1, 2, …`; the cells of
generation `g` are `(g, j)`, `j < 2^g`; one resizing thread per generation, the cells in any order, commit when
all are forwarded; a thread may hold a pointer to a table that is arbitrarily many generations old and follows
marker after marker). One transition = one shared-memory access; any number of threads; every interleaving.

**What is proved here** (for every reachable state, any number of threads, any number of resizes):
* the *generation structure* (`GenInv`, `Lemmas/BinGNGen*.lean`): generations do not overlap, old generations
  are forwarded for ever, cells of the generation being filled are never forwarded, a lookup follows at most one
  marker from `cur`, *a thread that follows the markers and finds a cell that is not forwarded has reached the
  live cell of its key, whatever the age of its table pointer*; the resizing thread commits only when every
  cell is forwarded; every `TreeBin` a cell refers to exists;
* the *bin locks of both kinds*: the node lock of a list bin and the mutex of a `TreeBin` match the program
  counters; a thread past its re-check (list writer, tree writer, treeify, the transfer of a list bin, the
  transfer of a tree bin — also of a `TreeBin` that earlier transfers re-used) still sees its structure in its
  cell; at most one thread is validated on a cell, in every generation (`validated_mutex`);
* *ownership* (`OwnInv`, `Lemmas/BinGNOwn.lean`): a node lock / `TreeBin` mutex that is taken is taken by a thread
  whose program counter holds it; while `resizing` is set there is a resizing thread. Hence in a *quiescent*
  state no resize is half done (the tables are exactly the generations `0 … cur`, no forwarding marker in
  generation `cur`, every lookup ends there) and nothing is left locked (`quiescent_shape`);
* the *read-write lock of a `TreeBin`* (`RwInv`, `Lemmas/BinGNRw.lean`): the reader count of every `TreeBin` is
  the number of threads between `rCas` and `rRelease` on it, it is zero while the write bit is set, and a tree
  writer in its locked section has the write bit of its bin set — so it excludes every lock-protocol reader
  from the tree of its bin, in every generation, also for a re-used `TreeBin` (`writer_excludes_tree_readers`);
* *threads, calls and times* (`TInv`, `Lemmas/BinGNTime.lean`): a thread has a call in flight iff its program
  counter is a reader's or a writer's, read operations go with reader program counters, the history is
  well-timed and all invocation stamps are pairwise distinct (`threads_and_times`);
* the cells of the generation being filled are `empty` until the transfer of their parent stores them
  (`next_generation_empty_until_transferred`);
* **the part of `transfer_abs_invariant` that does not need the heap**: starting a resize, choosing and loading a
  cell, the CAS of the forwarding marker into an EMPTY cell, locking / re-checking / unlocking a list bin or a
  tree bin, and the commit change the abstract state of no key (`transfer_quiet_steps_abs_invariant`,
  `alloc_commit_abs_invariant`); NOT covered: the split (`xBuild`, `yBuild`) and the stores of the low cell,
  the high cell and the marker of a non-empty bin;
* the re-checks are load-bearing across any number of forwardings, also inside tree bins (`noCheck_refutes`);
* kernel-checked runs: a `TreeBin` re-used by the first resize and re-used AGAIN by the second, with a writer
  queued on its mutex and a reader holding its read lock across both; a reader and a writer inside a `TreeBin`
  that is two generations old (`example_runs_linearizable`).

**What is NOT proved** (open; nothing below depends on it): the linearizability theorem
`binGN_linearizable_quiescent : Reachable n s → quiescent s → Linearizable (callsOn s k) none (absOf s k)` (and
`binGN_linearizable`, the split and store steps of `transfer_abs_invariant`, `quiescent_tree_eq_list`). It needs
(1) the rest of the structural invariant — `HInv`, `PlanInv`, `BitsInv`, `DInv` of `Lemmas/BinGNInvDefs.lean`: the
invariant of `Lemmas/BinGInv.lean` re-stated for the cells `(g, j)` (chains, `side` = `key % 2^g = j`, `CopyOK` of
the planned children, synchronisation words, walks, tree = list); DEFINED there and validated by execution
(`Lemmas/BinGNInvCheck.lean`: a Boolean mirror of every clause evaluated after every step of 6 400 random
schedules, 10^6 states, never violated; violated within 100 runs by `stepNoCheck`), NOT proved; and (2) the ghost
linearization of `Lemmas/BinGGhostL.lean` / `BinNGhostMoved.lean` (`Good.foreign` for any cell id, `TreeOK`).

**Validation by execution** (`Lemmas/BinGNExamples.lean`; 22 000 schedules before any proof, 40 000 more
afterwards): 62 000 random schedules of `step` (2, 3 and 4 threads, 250–450 random steps + drain, up to 14 calls
on 6 keys, up to 5 treeify starts, up to 3 resizes, sleepers woken in generation 2 / 3), every run drained to
quiescence, every per-key history (up to 9 calls) decided linearizable by the complete procedure `Lin.search`;
all 63 program-counter tags reached; 118 000 tree-bin transfers, all nine combinations of per-side outcomes
(empty / small list / re-used `TreeBin` / fresh `TreeBin`) reached in generations 0, 1 AND 2 (the rarest 248
times); a `TreeBin` re-used by two successive transfers 7 700 times; readers inside a `TreeBin` while the table
pointer is two generations ahead 750 times (68 of them inside a bin that is still live because it was re-used),
stale tree writers (`tMutex` / `tCheck` two generations behind) 560 times, 123 000 failed re-checks. With
`stepNoCheck` a non-linearizable run is found within 300 runs. -/
namespace Flurry.Proto.BinGN
open Flurry.Lin

/-- the generation / lock invariant holds in every reachable state -/
theorem reachable_gen_inv {n : Nat} {s : State} (hr : Reachable n s) : GenInv s := reachable_geninv hr

/-- **generations do not overlap**: the tables are the generations `0 … cur`, plus generation `cur + 1`
exactly while a resize runs; generation `g` has `2^g` cells; at most one thread is resizing, and only while
`resizing` is set -/
theorem generations_do_not_overlap {n : Nat} {s : State} (hr : Reachable n s) :
    s.tabs.length = s.cur + 1 + (if s.resizing then 1 else 0) ∧
    (∀ g row, s.tabs[g]? = some row → row.length = 2 ^ g) ∧
    (∀ (t t' : Nat) (l l' : Local), s.threads[t]? = some l → s.threads[t']? = some l' →
      (desc s.cur l).isX = true → (desc s.cur l').isX = true → t = t') ∧
    (∀ (t : Nat) (l : Local), s.threads[t]? = some l → (desc s.cur l).isX = true → s.resizing = true) :=
  let I := reachable_geninv hr
  ⟨I.len, I.rows, I.uniqX, fun t l hl => (I.thr t l hl).tres⟩

/-- **old generations are forwarded**: every cell of a generation older than `cur` is `moved`, for ever -/
theorem old_generations_forwarded {n : Nat} {s : State} (hr : Reachable n s) {g j : Nat} (hg : g < s.cur)
    (hj : j < 2 ^ g) : cellAt s g j = .moved :=
  (reachable_geninv hr).old g j hg hj

/-- no cell of the generation that is being filled is forwarded; a forwarding marker in generation `cur`
exists only while a resize runs -/
theorem next_generation_not_forwarded {n : Nat} {s : State} (hr : Reachable n s) :
    (∀ j, cellAt s (s.cur + 1) j ≠ .moved) ∧ (∀ j, cellAt s s.cur j = .moved → s.resizing = true) :=
  ⟨(reachable_geninv hr).nextOK, (reachable_geninv hr).curMoved⟩

/-- a lookup that starts now follows at most one forwarding marker -/
theorem liveCell_one_hop {n : Nat} {s : State} (hr : Reachable n s) (k : Nat) :
    liveCell s k = if cellOf s s.cur k = .moved then cellOf s (s.cur + 1) k else cellOf s s.cur k :=
  (reachable_geninv hr).liveCell_eq k

/-- the generation a reader, writer or treeify works in (for key `k`) is at most `cur + 1`, and it is
`cur + 1` only behind a forwarding marker of `k` in generation `cur` that is still there -/
theorem thread_generation {n : Nat} {s : State} (hr : Reachable n s) {t : Nat} {l : Local} {g k : Nat}
    (hl : s.threads[t]? = some l) (hg : (desc s.cur l).gen = some (g, k)) :
    g ≤ s.cur + 1 ∧ (g = s.cur + 1 → cellOf s s.cur k = .moved) :=
  ((reachable_geninv hr).thr t l hl).gen g k hg

/-- **follow the markers until a live cell**: a reader, writer or treeify that works in generation `g` —
however old the table pointer it once loaded — and sees a cell of its key that is not forwarded has reached
the cell in which a lookup started now would end; in an older generation it can only see `moved` -/
theorem follow_markers_until_live {n : Nat} {s : State} (hr : Reachable n s) {t : Nat} {l : Local} {g k : Nat}
    (hl : s.threads[t]? = some l) (hg : (desc s.cur l).gen = some (g, k)) :
    (cellOf s g k ≠ .moved → liveCell s k = cellOf s g k) ∧ (g < s.cur → cellOf s g k = .moved) :=
  ⟨(reachable_geninv hr).live_of_gen hl hg, fun h => (reachable_geninv hr).stale_sees_moved h _⟩

/-- **node locks match program counters**: a thread whose program counter says it holds the lock of node `h`
(a list writer, treeify, the transfer of a list bin) is the owner recorded in the node -/
theorem node_lock_owner {n : Nat} {s : State} (hr : Reachable n s) {t : Nat} {l : Local} {h : Nat}
    (hl : s.threads[t]? = some l) (hh : (desc s.cur l).holdN = some h) :
    h < s.heap.length ∧ lockAt s.heap h = some t :=
  ((reachable_geninv hr).thr t l hl).heldN h hh

/-- **`TreeBin` mutexes match program counters**: a thread whose program counter says it holds the mutex of
bin `b` (a tree writer, the transfer of a tree bin — from `yCheck` until after the forwarding marker is stored,
also when `b` itself goes to the new table) is the owner recorded in the bin -/
theorem bin_mutex_owner {n : Nat} {s : State} (hr : Reachable n s) {t : Nat} {l : Local} {b : Nat}
    (hl : s.threads[t]? = some l) (hh : (desc s.cur l).holdM = some b) :
    b < s.tbins.length ∧ mutexAt s.tbins b = some t :=
  ((reachable_geninv hr).thr t l hl).heldM b hh

/-- a validated lock holder (a writer between its re-check and its store, treeify from `kBuild` to `kStore`,
the resizing thread from `xBuild` / `yBuild` to the store of the forwarding marker) still sees its structure
in its cell, and holds the lock that goes with it -/
theorem validated_structure {n : Nat} {s : State} (hr : Reachable n s) {t : Nat} {l : Local} {g j : Nat} {c : Cell}
    (hl : s.threads[t]? = some l) (hv : (desc s.cur l).valid = some (g, j, c)) :
    cellAt s g j = c ∧ ((∃ h, c = .list h ∧ (desc s.cur l).holdN = some h) ∨
      (∃ b, c = .tree b ∧ (desc s.cur l).holdM = some b)) :=
  ((reachable_geninv hr).thr t l hl).valid g j c hv

/-- **mutual exclusion**: at most one thread holds a validated lock on a cell — in particular a writer (list
or tree form), a treeify and the transfer of the same cell exclude each other, in every generation -/
theorem validated_mutex {n : Nat} {s : State} (hr : Reachable n s) {t t1 : Nat} {l l1 : Local} {g j : Nat}
    {c c1 : Cell} (hl : s.threads[t]? = some l) (hl1 : s.threads[t1]? = some l1)
    (hv : (desc s.cur l).valid = some (g, j, c)) (hv1 : (desc s.cur l1).valid = some (g, j, c1)) : t = t1 :=
  (reachable_geninv hr).mutex hl hl1 hv hv1

/-- **a validated writer works in the live cell of its key**: a list writer, tree writer or treeify past its
re-check (in whatever generation it is, from however old a table pointer it started) sees, in its cell, exactly
the structure in which a lookup of its key started now would end — stale threads can never write -/
theorem validated_writer_in_live_cell {n : Nat} {s : State} (hr : Reachable n s) {t : Nat} {l : Local} {g j : Nat}
    {c : Cell} (hl : s.threads[t]? = some l) (hv : (desc s.cur l).valid = some (g, j, c))
    (hX : (desc s.cur l).isX = false) :
    ∃ k, (desc s.cur l).gen = some (g, k) ∧ j = k % 2 ^ g ∧ liveCell s k = c ∧ c ≠ .moved := by
  have I := reachable_geninv hr
  obtain ⟨k, hg, hj⟩ := valid_writer hv hX
  obtain ⟨hc, hh⟩ := (I.thr t l hl).valid g j c hv
  have hnm : c ≠ .moved := by
    rcases hh with ⟨h, rfl, -⟩ | ⟨b, rfl, -⟩ <;> simp
  have hc' : cellOf s g k = c := by rw [← hc, hj]; rfl
  exact ⟨k, hg, hj, by rw [I.live_of_gen hl hg (by rw [hc']; exact hnm), hc'], hnm⟩

/-- the resizing thread commits only when every cell of generation `cur` is forwarded -/
theorem commit_only_when_all_forwarded {n : Nat} {s : State} (hr : Reachable n s) {t : Nat} {c : Option Pending}
    (hl : s.threads[t]? = some { pc := .xCommit, call := c }) : ∀ j, j < 2 ^ s.cur → cellAt s s.cur j = .moved :=
  ((reachable_geninv hr).thr t _ hl).commit rfl

/-- every `TreeBin` a cell (of any generation) refers to exists; the cells a transfer has planned are not
forwarding markers and refer to existing `TreeBin`s -/
theorem tree_bins_exist {n : Nat} {s : State} (hr : Reachable n s) :
    (∀ g j b, cellAt s g j = .tree b → b < s.tbins.length) ∧
    ∀ (t : Nat) (l : Local), s.threads[t]? = some l → ∀ c ∈ (desc s.cur l).plan,
      c ≠ .moved ∧ ∀ b, c = .tree b → b < s.tbins.length :=
  ⟨(reachable_geninv hr).bins, fun t l hl => ((reachable_geninv hr).thr t l hl).plan⟩

/-- **allocation and publication of a generation have no abstract effect** (the part of
`transfer_abs_invariant` that concerns the generation structure): starting a resize (allocating generation
`cur + 1`) and committing (`cur := cur + 1`) change the abstract state of no key -/
theorem alloc_commit_abs_invariant {n : Nat} {s s' : State} (hr : Reachable n s) {t : Nat} {l : Local}
    {inv : Option (Nat × KOp)} {lo : Bool} {mt : Option Nat} {rz sm sm2 : Bool} {pick : Nat}
    (hl : s.threads[t]? = some l) (hpc : (l.pc = .idle ∧ rz = true) ∨ l.pc = .xCommit)
    (hs : step s t inv lo mt rz sm sm2 pick = some s') (k : Nat) : absOf s' k = absOf s k :=
  alloc_commit_abs (reachable_geninv hr) hl hpc hs k

/-- **cells of the generation being filled are empty until the transfer of their parent stores them**: a cell
`(cur + 1, j')` that is not `empty` has a forwarded parent `(cur, j' % 2^cur)`, or is a child that the resizing
thread has just stored (it is at `xStoreHigh j'` / `xStoreMoved j'`, or at `xStoreMoved j` with `j' = j + 2^cur`) -/
theorem next_generation_empty_until_transferred {n : Nat} {s : State} (hr : Reachable n s) : NextEmpty s :=
  (reachable_nextEmpty hr).2

/-- **the steps of a transfer that have no abstract effect, as far as the generation structure decides it**:
starting a resize (allocation of generation `cur + 1`), `xNext`, loading a cell, the CAS `empty → moved` (the live
cell of every key of the cell switches to an — empty — child), taking / re-checking / releasing the lock of a list
bin or the mutex of a tree bin, and the commit `cur := cur + 1` leave the abstract state of every key as it was.
(The split and the three stores of a non-empty bin are NOT covered: see the file header.) -/
theorem transfer_quiet_steps_abs_invariant {n : Nat} {s s' : State} (hr : Reachable n s) {t : Nat} {l : Local}
    {inv : Option (Nat × KOp)} {lo : Bool} {mt : Option Nat} {rz sm sm2 : Bool} {pick : Nat}
    (hl : s.threads[t]? = some l) (hpc : quietX l.pc = true ∨ (l.pc = .idle ∧ rz = true))
    (hs : step s t inv lo mt rz sm sm2 pick = some s') (k : Nat) : absOf s' k = absOf s k :=
  transfer_quiet_abs (reachable_nextEmpty hr).1 (reachable_nextEmpty hr).2 hl hpc hs k

/-- **C05 at quiescence (shape and locks)**: in a reachable quiescent state no resize is half done — `resizing` is
clear, the tables are exactly the generations `0 … cur`, generation `cur` holds no forwarding marker and every
lookup ends there (all-or-nothing resize) — and nothing is left locked: no node lock and no `TreeBin` mutex is
taken -/
theorem quiescent_shape {n : Nat} {s : State} (hr : Reachable n s) (hq : quiescent s) :
    s.resizing = false ∧ s.tabs.length = s.cur + 1 ∧ (∀ j, cellAt s s.cur j ≠ .moved) ∧
    (∀ k, liveCell s k = cellOf s s.cur k) ∧ (∀ h, lockAt s.heap h = none) ∧ (∀ b, mutexAt s.tbins b = none) :=
  quiescent_shape_aux hr hq

/-- every lock word has an owner whose program counter says so (the converse of `node_lock_owner` /
`bin_mutex_owner`), and while `resizing` is set some thread is resizing -/
theorem lock_words_have_owners {n : Nat} {s : State} (hr : Reachable n s) :
    (∀ h x, lockAt s.heap h = some x → ∃ l : Local, s.threads[x]? = some l ∧ (desc s.cur l).holdN = some h) ∧
    (∀ b x, mutexAt s.tbins b = some x → ∃ l : Local, s.threads[x]? = some l ∧ (desc s.cur l).holdM = some b) ∧
    (s.resizing = true → ∃ (t : Nat) (l : Local), s.threads[t]? = some l ∧ (desc s.cur l).isX = true) := by
  have O := reachable_owninv hr
  refine ⟨fun h x hx => ?_, fun b x hx => ?_, fun hres => ?_⟩
  · obtain ⟨l, a, c⟩ := O.ownN h x hx; exact ⟨l, a, by rw [holdN_indep]; exact c⟩
  · obtain ⟨l, a, c⟩ := O.ownM b x hx; exact ⟨l, a, by rw [holdM_indep]; exact c⟩
  · obtain ⟨t, l, a, c⟩ := O.resX hres; exact ⟨t, l, a, by rw [isX_indep]; exact c⟩

/-- **the read-write lock of a `TreeBin`**: every `TreeBin` a reader refers to exists; its reader count is the
number of threads that hold a read lock on it; while its write bit is set the reader count is zero; a tree
writer in its locked section has the write bit of its bin set -/
theorem tree_bin_rwlock {n : Nat} {s : State} (hr : Reachable n s) : RwInv s := (reachable_rwinv hr).2

/-- **C06 / C07, any number of resizes: a tree writer in its locked section (`tPrependLocked` … `tUntreeify` on
bin `b`) excludes every lock-protocol reader from the tree of `b`** (no thread is at `rTree b` / `rRelease b`) —
whatever the generations the two threads started in, also when `b` has been re-used by transfers -/
theorem writer_excludes_tree_readers {n : Nat} {s : State} (hr : Reachable n s) {t t1 : Nat} {l l1 : Local}
    {b : Nat} (hl : s.threads[t]? = some l) (hw : wrSec l.pc = some b) (hl1 : s.threads[t1]? = some l1) :
    holdsRead l1.pc ≠ some b :=
  writer_excludes_readers_aux hr hl hw hl1

/-- **threads, calls and times**: a thread has a call in flight iff its program counter is a reader's or a
writer's (idle, treeify and resizing threads have none); read operations go with reader program counters; every
completed call has `inv ≤ resp ≤ now`, every pending call was invoked in the past, and all invocation stamps —
completed and pending — are pairwise distinct (so the per-key histories `callsOn s k` are well-formed) -/
theorem threads_and_times {n : Nat} {s : State} (hr : Reachable n s) : TInv s := reachable_tinv hr

/-- the structural invariant `Inv` of `Lemmas/BinGNInvDefs.lean` (= `BinG.Inv` for the cells `(g, j)`): the part
that is proved. The other part (`HInv`, `PlanInv`, `BitsInv`, `DInv`) is defined and validated by execution only. -/
theorem structural_invariant_proved_part {n : Nat} {s : State} (hr : Reachable n s) :
    GenInv s ∧ OwnInv s ∧ RwInv s ∧ TInv s ∧ NextEmpty s := reachable_inv_proved_part hr

/-! ## validation by execution (see `Lemmas/BinGNExamples.lean`) -/

/-- the two kernel-checked runs of the checked model (the `TreeBin` that is re-used twice; the reader and the
writer inside a `TreeBin` that is two generations old) are reachable quiescent states in generation 2 whose
histories are linearizable for the keys `0 … 5` (complete decision procedure, kernel-checked) -/
theorem example_runs_linearizable :
    ∀ sc ∈ [schedReuse2, schedStale2], ∃ s, run step (init 4) sc = some s ∧ Reachable 4 s ∧
      quiescent s ∧ s.cur = 2 ∧ ∀ k, k < 6 → Linearizable (callsOn s k) none (absOf s k) :=
  runs_linearizable

/-- **the re-checks of the cell are load-bearing across any number of forwardings, also inside tree bins**: if
writers, treeify and transfer trust the lock they took (`stepNoCheck`), some reachable quiescent state (after two
complete resizes) has a history that is not linearizable (a completed insert is lost in a `TreeBin` that died
two generations ago) -/
theorem noCheck_refutes :
    ∃ (n : Nat) (s : State) (k : Nat), ReachableNoCheck n s ∧ quiescent s ∧
      ¬ Lin.Linearizable (callsOn s k) none (absOf s k) :=
  noCheck_refutes_aux

end Flurry.Proto.BinGN
