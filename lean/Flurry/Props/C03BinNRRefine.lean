import Flurry.Lemmas.BinNRRefineProofMain
import Flurry.Props.C03Reclaim2
/-! # The concrete algorithm follows the abstract ownership discipline (C03, C04)

`ReachableTr nt evs s`: `s` is reached by a run of `Proto/BinNR` (list-bin lineage through any number of resizes, with
retire lists, guards and `free`), and `evs` is the concatenation of `project` over its steps — the run seen as
`enter / exit / alloc / publish / acquire / touch / unlink / retire / free` events on node indices, i.e. what the
event-stream ledger of the harness checks on real runs.

* `refines_abstract_discipline`: for EVERY run, the projected event list is accepted by `Proto/Reclaim2.run`, and the
  abstract state reached describes the concrete one (`Sim`: same objects, same life-cycle state with the same
  unlink-time and `waitFor` sets, same guards, the abstract `holds` contain the program counters' node indices);
* hence the theorems of `Props/C03Reclaim2.lean` hold of the abstract image of every `BinNR` execution. -/
namespace Flurry.Props.C03BinNRRefine
open Flurry.Proto.BinNR
open Flurry.Proto.Reclaim2 (Ev)

/-- every reachable state is reached by a run with a projected event list -/
theorem every_run_has_a_projection {nt : Nat} {s : State} (h : Reachable nt s) : ∃ evs, ReachableTr nt evs s :=
  h.traced

/-- **the concrete algorithm follows the abstract discipline** -/
theorem refines_abstract_discipline {nt : Nat} {evs : List Ev} {s : State} (h : ReachableTr nt evs s) :
    ∃ a, Flurry.Proto.Reclaim2.run (Flurry.Proto.Reclaim2.init nt) evs = some a ∧ Sim a s := refines h

theorem refines_abstract_discipline' {nt : Nat} {s : State} (h : Reachable nt s) :
    ∃ evs a, ReachableTr nt evs s ∧ Flurry.Proto.Reclaim2.run (Flurry.Proto.Reclaim2.init nt) evs = some a ∧ Sim a s := by
  obtain ⟨evs, htr⟩ := h.traced
  obtain ⟨a, h1, h2⟩ := refines htr
  exact ⟨evs, a, htr, h1, h2⟩

/-- **corollary**: in the abstract image of every `BinNR` execution no freed object is ever touched, no held reference
dangles, nothing is freed twice, and the collector cannot free what somebody holds -/
theorem abstract_image_safe {nt : Nat} {evs : List Ev} {s : State} (h : ReachableTr nt evs s) :
    ∃ a, Flurry.Proto.Reclaim2.run (Flurry.Proto.Reclaim2.init nt) evs = some a ∧ Sim a s ∧
      a.badTouches = 0 ∧
      (∀ t o, o ∈ a.holds t → a.objs o ≠ .freed ∧ a.guarded t = true) ∧
      (∀ o, a.frees o ≤ 1) ∧
      (∀ t o, o ∈ a.holds t → Flurry.Proto.Reclaim2.step a (.free o) = none) := by
  obtain ⟨a, h1, h2⟩ := refines h
  exact ⟨a, h1, h2, Flurry.C03Reclaim2.no_touch_after_free h1, Flurry.C03Reclaim2.held_references_valid h1,
    Flurry.C03Reclaim2.freed_at_most_once h1, fun t o ho => Flurry.C03Reclaim2.free_waits_for_holders h1 ho⟩

/-- and, read back through `Sim`: every node index in a concrete program counter is held abstractly, hence not freed -/
theorem pc_nodes_held_abstractly {nt : Nat} {evs : List Ev} {s : State} (h : ReachableTr nt evs s) :
    ∃ a, Flurry.Proto.Reclaim2.run (Flurry.Proto.Reclaim2.init nt) evs = some a ∧
      ∀ t, ∀ i ∈ holdsOf s.n t, i ∈ a.holds t ∧ a.objs i ≠ .freed := by
  obtain ⟨a, h1, h2⟩ := refines h
  exact ⟨a, h1, fun t i hi => ⟨h2.hld t i hi, (Flurry.C03Reclaim2.held_references_valid h1 t i (h2.hld t i hi)).1⟩⟩

end Flurry.Props.C03BinNRRefine

#print axioms Flurry.Props.C03BinNRRefine.refines_abstract_discipline
#print axioms Flurry.Props.C03BinNRRefine.refines_abstract_discipline'
#print axioms Flurry.Props.C03BinNRRefine.abstract_image_safe
#print axioms Flurry.Props.C03BinNRRefine.pc_nodes_held_abstractly
