import Flurry.Lemmas.SeqOps
import Flurry.Gen.Guards
import Flurry.Gen.Atomics
/-! # C13 — `retain` / `retain_force` are the filter

The predicate gets `(key, value payload, value id)` and answers `some true` (keep), `some false`
(drop) or `none` (it panics). The lemmas are in `Flurry/Lemmas/SeqOpsRetain.lean`. -/
namespace Flurry.C13
open Flurry Flurry.Gen Flurry.Seq

/-- **`retain` = filter** (a predicate that does not panic): the abstract map afterwards is the
old one restricted to the entries the predicate accepts; the state is `Good`; the answer is `ok`. -/
theorem retain_eq_filter (m : Map) (hg : Good m) (f : Nat → Nat → Nat → Option Bool)
    (ht : ∀ k v vi, (f k v vi).isSome) :
    Good (retain false f m).1 ∧
    absMap (retain false f m).1 = (absMap m).filter (fun k v vi => (f k v vi).getD true) ∧
    (retain false f m).2 = .ok :=
  ⟨retain_good false hg ht, retain_absMap false hg ht,
    (retain_spec false hg (fun nd _ => ht nd.key nd.val nd.vi)).2⟩

/-- **`retain_force` = filter**: sequentially it coincides with `retain` -/
theorem retain_force_eq_filter (m : Map) (hg : Good m) (f : Nat → Nat → Nat → Option Bool)
    (ht : ∀ k v vi, (f k v vi).isSome) :
    Good (retain true f m).1 ∧
    absMap (retain true f m).1 = (absMap m).filter (fun k v vi => (f k v vi).getD true) ∧
    (retain true f m).2 = .ok ∧
    absMap (retain true f m).1 = absMap (retain false f m).1 :=
  ⟨retain_good true hg ht, retain_absMap true hg ht,
    (retain_spec true hg (fun nd _ => ht nd.key nd.val nd.vi)).2, retain_force_eq hg ht⟩

/-- **only rejected entries are removed** (any predicate, also one that panics part-way, either
variant): every entry either survives untouched or is gone, and it is gone only if the predicate
was shown exactly that entry and answered "drop". -/
theorem retain_removes_only_rejected (m : Map) (hg : Good m) (force : Bool)
    (f : Nat → Nat → Nat → Option Bool) (k : Nat) :
    absMap (retain force f m).1 k = absMap m k ∨
    (absMap (retain force f m).1 k = none ∧
      ∃ ki v vi, absMap m k = some (ki, v, vi) ∧ f k v vi = some false) :=
  Seq.retain_removes_only_rejected force f hg k

/-- `retain` never resizes: table, threshold and resize counter are untouched -/
theorem retain_capacity (m : Map) (hg : Good m) (force : Bool) (f : Nat → Nat → Nat → Option Bool) :
    tableLen (retain force f m).1 = tableLen m ∧ (retain force f m).1.resizes = m.resizes := by
  obtain ⟨_, _, _, _, hp, _⟩ := retain_any force f hg
  exact ⟨hp.tableLen_eq, hp.resizes_eq⟩

/-! ## the hypotheses are satisfiable -/

example : Good ex2 := ex2_good
/-- keep the values `> 10`: key `1 ↦ 10` goes, key `2 ↦ 20` stays -/
example : absMap (retain false (fun _ v _ => some (decide (v > 10))) ex2).1 1 = none ∧
    absMap (retain false (fun _ v _ => some (decide (v > 10))) ex2).1 2 = some (8, 20, 200) := by
  decide

/-! ## the reference wrappers are the same operations

`HashMapRef` / `HashSetRef` (what `pin()` and `with_guard()` return) carry their own guard and are
what most callers use. The statements above are about `HashMap::retain` / `retain_force` (and the
model's operations in general); they transfer to the wrapper API because every wrapper method whose
name also exists on the wrapped collection hands its guard to exactly that method and to nothing
else — on the guard-flow table regenerated from the source. (A wrapper `retain_force` that calls
`retain` is invisible to every sequential test: the two differ only under a concurrent
replacement.) Trait methods (`eq`, …) are excluded: they delegate to differently named helpers. -/
section Wrappers
open Flurry.Sig Flurry.Gen

def innerOf (ty : String) : String :=
  if ty == "HashMapRef" then "HashMap" else if ty == "HashSetRef" then "HashSet" else ""

/-- the callee names (`Type::fn`) a row hands its guard to -/
def callees (r : GFn) : List String :=
  r.uses.filterMap fun u => match u with | .call _ n => some n | _ => none

def traitMethod (f : String) : Bool := f == "eq" || f == "clone" || f == "fmt" || f == "index" || f == "into_iter"

/-- a wrapper method whose name also exists on the wrapped collection delegates to exactly that method -/
def delegatesByName (r : GFn) : Bool :=
  let inner := innerOf r.ty
  if inner == "" || !r.pub || r.param != "self.guard" || traitMethod r.fn then true
  else if guardFns.any (fun q => q.ty == inner && q.fn == r.fn) then callees r == [inner ++ "::" ++ r.fn]
  else true

theorem wrappers_delegate_by_name : guardFns.all delegatesByName = true := by decide

-- non-vacuity: the table contains the wrapper rows the statement is about
example : (guardFns.filter fun r => innerOf r.ty != "" && r.pub && r.param == "self.guard" && !traitMethod r.fn &&
    guardFns.any (fun q => q.ty == innerOf r.ty && q.fn == r.fn)).length ≥ 25 := by decide
example : guardFns.any (fun r => r.ty == "HashMapRef" && r.fn == "retain_force" &&
    callees r == ["HashMap::retain_force"]) = true := by decide
end Wrappers

/-! ## `replace_node` keeps the condition it was called with

`retain` hands the value its predicate rejected to `replace_node` as `observed_value`; the removal
is conditional on the entry still holding exactly that value. The sequential model
(`Seq.replaceNode`) and the conditional removal of the per-key specification keep the condition
fixed for the whole call, whatever detours the loop takes (forwarded bins, retries after a failed
re-check). Regenerated from the source: no parameter of `replace_node` is declared `mut`, assigned
to, or shadowed in its body. -/
section Condition
open Flurry.Gen

theorem replace_node_keeps_its_condition : replaceNodeFound = true ∧ replaceNodeParamWrites = [] := by decide

end Condition

end Flurry.C13
