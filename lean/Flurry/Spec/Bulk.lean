import Flurry.SigDefs
/-! # Abstract model of the bulk paths (serde visitor loop), shared by `Props/C19.lean` and the driver -/
namespace Flurry.C19
open Flurry.Sig

abbrev AMap := List (Nat × Nat)

def lookup (k : Nat) : AMap → Option Nat
  | [] => none
  | (k', v) :: rest => if k' = k then some v else lookup k rest

def insert (m : AMap) (k v : Nat) : AMap :=
  match m with
  | [] => [(k, v)]
  | (k', v') :: rest => if k' = k then (k, v) :: rest else (k', v') :: insert rest k v

inductive Res where
  | ok (m : AMap)
  | err
  | panic
deriving Repr, DecidableEq

/-- the visitor loop: insert entry by entry; a repeated key is handled per the extracted policy -/
def deserializeFrom (pol : DupPolicy) : List (Nat × Nat) → AMap → Res
  | [], acc => .ok acc
  | (k, v) :: rest, acc =>
    if (lookup k acc).isSome then
      match pol with
      | .lastWins => deserializeFrom pol rest (insert acc k v)
      | .error => .err
      | .panic => .panic
    else deserializeFrom pol rest (insert acc k v)

def deserialize (pol : DupPolicy) (doc : List (Nat × Nat)) : Res := deserializeFrom pol doc []

/-- serialisation writes the entries the iterator yields: each key once (C05) -/
def serialize (m : AMap) : List (Nat × Nat) := m

end Flurry.C19
