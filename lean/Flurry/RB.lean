/-! # Red-black tree bins: a zipper rendition of `src/node.rs`

The Rust code works bottom-up with parent pointers (CLR style, like the JDK). Here the same
algorithms run on an immutable tree with an explicit path to the focused node (`Ctx`), case for
case: `balIns` = `TreeNode::balance_insertion`, `rotate_left/right` are inlined where the Rust
code calls them, `insert` = the descent of `TreeBin::new` / `find_or_put_tree_val`,
`findNode` = `TreeNode::find_tree_node` (with its "only child" shortcut and with a count of the
`Eq`/`Ord` calls it makes on keys), `remove` = `TreeBin::remove_tree_node` +
`TreeNode::balance_deletion`.

No Mathlib. -/
namespace Flurry

/-- what a bin node carries: hash, key, the key instance that is stored, value payload, value id -/
structure Node where
  hash : Nat
  key : Nat
  ki : Nat
  val : Nat
  vi : Nat
deriving Repr, DecidableEq, Inhabited

namespace RB

inductive T where
  | nil
  | node (red : Bool) (l : T) (e : Node) (r : T)
deriving Repr, DecidableEq, Inhabited

/-- path from a focused subtree up to the root -/
inductive Ctx where
  | top
  /-- the focus is the *left* child of a node with colour `red`, entry `e`, right subtree `r` -/
  | left (red : Bool) (e : Node) (r : T) (up : Ctx)
  /-- the focus is the *right* child of a node with colour `red`, left subtree `l`, entry `e` -/
  | right (red : Bool) (l : T) (e : Node) (up : Ctx)
deriving Repr, Inhabited

open T Ctx

def zip : T → Ctx → T
  | t, top => t
  | t, left c e r up => zip (node c t e r) up
  | t, right c l e up => zip (node c l e t) up

def isRed : T → Bool
  | node true _ _ _ => true
  | _ => false

def blacken : T → T
  | node _ l e r => node false l e r
  | nil => nil

def redden : T → T
  | node _ l e r => node true l e r
  | nil => nil

def size : T → Nat
  | nil => 0
  | node _ l _ r => size l + 1 + size r

def toList : T → List Node
  | nil => []
  | node _ l e r => toList l ++ e :: toList r

def height : T → Nat
  | nil => 0
  | node _ l _ r => max (height l) (height r) + 1

/-- `(hash, key)` lexicographic order: what `TreeBin::new` / `find_or_put_tree_val` descend by -/
def lt (a b : Node) : Prop := a.hash < b.hash ∨ (a.hash = b.hash ∧ a.key < b.key)
instance : DecidableRel lt := fun a b => by unfold lt; exact inferInstance

def ltHK (h k : Nat) (b : Node) : Bool := h < b.hash || (h == b.hash && k < b.key)
def gtHK (h k : Nat) (b : Node) : Bool := b.hash < h || (h == b.hash && b.key < k)

/-! ## balance_insertion -/

/-- `balance_insertion(root, x)`: `x` is the focused subtree (its root is the node `x`), `c` the
path above it. `x` has already been coloured red by the caller (`x.red = true` is the first
store of the Rust function; done in `insertAt`). Returns the whole new tree. -/
def balIns : T → Ctx → T
  -- x is the root: colour it black
  | x, top => blacken x
  -- x is a left child of xp
  | x, left pr pe prr up =>
    if !pr then zip x (left pr pe prr up)          -- parent black: done
    else match up with
      | top => zip x (left pr pe prr top)           -- `x_parent_parent.is_null()`: return root
      | left _gr ge uncle up2 =>                    -- xp is the left child of xpp
        if isRed uncle then
          -- uncle red: recolour and continue from xpp
          balIns (node true (node false x pe prr) ge (blacken uncle)) up2
        else
          -- x == xp.left: no inner rotation. xp black, xpp red, rotate_right(xpp)
          zip (node false x pe (node true prr ge uncle)) up2
      | right _gr uncle ge up2 =>                   -- xp is the right child of xpp
        if isRed uncle then
          balIns (node true (blacken uncle) ge (node false x pe prr)) up2
        else
          -- x == xp.left: x = xp; rotate_right(x); then xp(black) xpp(red) rotate_left(xpp)
          match x with
          | node _ xl xe xr =>
            zip (node false (node true uncle ge xl) xe (node pr xr pe prr)) up2
          | nil => zip x (left pr pe prr (right _gr uncle ge up2))
  -- x is a right child of xp
  | x, right pr prl pe up =>
    if !pr then zip x (right pr prl pe up)
    else match up with
      | top => zip x (right pr prl pe top)
      | left _gr ge uncle up2 =>                    -- xp is the left child of xpp
        if isRed uncle then
          balIns (node true (node false prl pe x) ge (blacken uncle)) up2
        else
          -- x == xp.right: x = xp; rotate_left(x); then xp(black) xpp(red) rotate_right(xpp)
          match x with
          | node _ xl xe xr =>
            zip (node false (node pr prl pe xl) xe (node true xr ge uncle)) up2
          | nil => zip x (right pr prl pe (left _gr ge uncle up2))
      | right _gr uncle ge up2 =>                   -- xp is the right child of xpp
        if isRed uncle then
          balIns (node true (blacken uncle) ge (node false prl pe x)) up2
        else
          -- x == xp.right: xp black, xpp red, rotate_left(xpp)
          zip (node false (node true uncle ge prl) pe x) up2

/-- descend from the root by `(hash, key)` to the empty position for `e`; `none` if an entry with
the same hash and key exists -/
def descend (e : Node) : T → Ctx → Option Ctx
  | nil, c => some c
  | node red l x r, c =>
    if ltHK e.hash e.key x then descend e l (left red x r c)
    else if gtHK e.hash e.key x then descend e r (right red l x c)
    else none

/-- `TreeBin::new`'s inner loop for one node: attach as a red leaf and `balance_insertion` -/
def insertNew (t : T) (e : Node) : T :=
  match t with
  | nil => node false nil e nil        -- first node: black root
  | _ =>
    match descend e t top with
    | some c => balIns (node true nil e nil) c
    | none => t                         -- unreachable!("one key references two nodes")

/-- `TreeBin::new(bin)`: insert the nodes in list order -/
def ofList (ns : List Node) : T := ns.foldl insertNew nil

/-- `find_or_put_tree_val` for an absent key: attach as a leaf; if the parent is black only the
colour of the new node is set (no restructuring, no write lock), else `balance_insertion`.
Both are what `balIns` does, so this equals `insertNew`; kept separate to mirror the code. -/
def putNew (t : T) (e : Node) : T := insertNew t e

/-! ## find_tree_node -/

/-- `TreeNode::find_tree_node(root, hash, key)`; returns the entry found and the number of key
comparisons (`Eq` and `Ord` calls on keys; hash comparisons are integer comparisons). -/
def findNode (h k : Nat) : T → Nat → Option Node × Nat
  | nil, c => (none, c)
  | node _ l x r, c =>
    if x.hash > h then findNode h k l c
    else if x.hash < h then findNode h k r c
    else if x.key == k then (some x, c + 1)          -- one Eq call
    else match l, r with
      | nil, _ => findNode h k r (c + 1)
      | _, nil => findNode h k l (c + 1)
      | _, _ => if x.key > k then findNode h k l (c + 2) else findNode h k r (c + 2)  -- Eq + Ord

def find (h k : Nat) (t : T) : Option Node := (findNode h k t 0).1

/-- replace the value of the entry with this hash and key (`value.swap` / `value.store`) -/
def setVal (h k v vi : Nat) : T → T
  | nil => nil
  | node c l x r =>
    if x.hash > h then node c (setVal h k v vi l) x r
    else if x.hash < h then node c l x (setVal h k v vi r)
    else if x.key == k then node c l { x with val := v, vi := vi } r
    else match l, r with
      | nil, _ => node c l x (setVal h k v vi r)
      | _, nil => node c (setVal h k v vi l) x r
      | _, _ => if x.key > k then node c (setVal h k v vi l) x r else node c l x (setVal h k v vi r)

/-! ## balance_deletion / remove_tree_node -/

/-- glue an inner path (relative to some subtree) onto the path of that subtree -/
def Ctx.append : Ctx → Ctx → Ctx
  | top, o => o
  | left c e r up, o => left c e r (up.append o)
  | right c l e up, o => right c l e (up.append o)

/-- `balance_deletion(root, x)`. `x` is the focused subtree, `c` the path above it. When the
removed node is a leaf the Rust code leaves it in place as a black sentinel while rebalancing and
detaches it afterwards; here the focus is then simply `nil` (the code never looks below `x`).
Each iteration either stops or moves the focus one level up; `fuel` bounds the iterations. -/
def balDel : Nat → T → Ctx → T
  | 0, x, c => zip x c
  | fuel + 1, x, c =>
    match c with
    | top => x                                            -- `x == root`: return root
    | left pr pe s up =>                                  -- x is the left child of xp
      if isRed x then zip (blacken x) c
      else
        -- red sibling: sibling black, xp red, rotate_left(xp); the new sibling is its left child
        let (pr, s, up) :=
          match s with
          | node true sl se sr => (true, sl, left false se sr up)
          | _ => (pr, s, up)
        match s with
        | nil => balDel fuel (node pr x pe nil) up          -- no sibling: x = xp
        | node _ sl se sr =>
          if !isRed sr && !isRed sl then
            balDel fuel (node pr x pe (node true sl se sr)) up   -- sibling red, x = xp
          else
            -- far nephew not red: near nephew black, sibling red, rotate_right(sibling)
            let (sl2, se2, sr2) :=
              if !isRed sr then
                match sl with
                | node _ sll sle slr => (sll, sle, node true slr se sr)
                | nil => (sl, se, sr)
              else (sl, se, sr)
            -- sibling takes xp's colour, far nephew black, xp black, rotate_left(xp); x = root
            zip (node pr (node false x pe sl2) se2 (blacken sr2)) up
    | right pr s pe up =>                                 -- x is the right child of xp
      if isRed x then zip (blacken x) c
      else
        let (pr, s, up) :=
          match s with
          | node true sl se sr => (true, sr, right false sl se up)
          | _ => (pr, s, up)
        match s with
        | nil => balDel fuel (node pr nil pe x) up
        | node _ sl se sr =>
          if !isRed sl && !isRed sr then
            balDel fuel (node pr (node true sl se sr) pe x) up
          else
            let (sl2, se2, sr2) :=
              if !isRed sl then
                match sr with
                | node _ srl sre srr => (node true sl se srl, sre, srr)
                | nil => (sl, se, sr)
              else (sl, se, sr)
            zip (node pr (blacken sl2) se2 (node false sr2 pe x)) up

/-- find the subtree whose root has this hash and key, by `(hash, key)` order, with its path -/
def locate (h k : Nat) : T → Ctx → Option (T × Ctx)
  | nil, _ => none
  | node red l x r, c =>
    if ltHK h k x then locate h k l (left red x r c)
    else if gtHK h k x then locate h k r (right red l x c)
    else some (node red l x r, c)

/-- leftmost node of a non-empty subtree: its colour, entry, right child and relative path -/
def leftmost : T → Ctx → Option (Bool × Node × T × Ctx)
  | nil, _ => none
  | node red nil e r, c => some (red, e, r, c)
  | node red l e r, c => leftmost l (left red e r c)

/-- The restructuring half of `remove_tree_node` (after the `first` list has been unlinked and
the "too small" tests have failed): successor swap with colour exchange, choice of the
replacement, splice, and `balance_deletion` iff the node that leaves the tree is black. -/
def removeNode (h k : Nat) (t : T) : T :=
  match locate h k t top with
  | none => t
  | some (node pc pl _pe pr, c) =>
    let fuel := 2 * height t + 4
    match pl, pr with
    | node .., node .. =>
      -- two children: the successor's entry moves to p's position with p's colour; p moves to
      -- the successor's position with the successor's colour and right child
      match leftmost pr top with
      | some (sc, se, sr, cs) =>
        let hole := cs.append (right pc pl se c)
        if sc then zip sr hole else balDel fuel sr hole
      | none => t
    | node .., nil => if pc then zip pl c else balDel fuel pl c
    | nil, node .. => if pc then zip pr c else balDel fuel pr c
    | nil, nil => if pc then zip nil c else balDel fuel nil c
  | some (nil, _) => t

/-- the shape test of `remove_tree_node`: `true` = "too small, untreeify" -/
def tooSmall : T → Bool
  | nil => true
  | node _ _ _ nil => true
  | node _ nil _ _ => true
  | node _ (node _ nil _ _) _ _ => true
  | _ => false

end RB
end Flurry
