import Flurry.Lemmas.TableGN
/-! # Proto/TableGN: non-vacuity — a concrete reachable quiescent table, a TREE bin of one lineage transferred

Two lineages (`m = 2`: key `k` in lineage `k % 2` under the local name `k / 2`, so keys 0, 2, 4, 6 are the local
keys 0, 1, 2, 3 of lineage 0 and keys 1, 3, 5, 7 those of lineage 1), two threads, 91 transitions on one clock.

* **before**: thread 0 inserts keys 0, 2 and 4 (lineage 0: CAS into the empty cell, then two appends under the
  head lock) while thread 1 inserts key 1 (lineage 1); then thread 0 **treeifies the bin of key 4** — the treeify
  key is a key of the TABLE: `step` checks `4 % 2 = 0` and hands the local name `4 / 2 = 2` to lineage 0, whose cell
  `(0, 0)` becomes `TreeBin` 0 holding the local keys 0, 1, 2 (`example_treeified`);
* **lineage 0 is resized by thread 0** (generation 0 → 1) — the transfer of a TREE bin: thread 1's `get(2)` is invoked
  first, takes the read lock of `TreeBin` 0 and sits inside its tree (`rTree 0`); thread 0 allocates generation 1,
  takes the mutex of `TreeBin` 0, re-checks, splits (low side: local keys 0, 2 → a FRESH `TreeBin` 1; high side:
  local key 1 → a plain list of one fresh node), stores the low cell, the high cell and the forwarding marker —
  all while the reader still holds its read lock in the old `TreeBin` (`example_during`); the reader finishes
  (`some (20, 200)`); thread 1's `insert(6)` (local key 3) is invoked DURING the resize (marker stored, not yet
  committed), loads generation 0, finds the marker, goes on to generation 1, locks the head of the list in cell
  `(1, 1)`, and is in its walk when thread 0 unlocks the mutex and commits (`example_straddle`); it appends after
  the commit;
* **after**: `get(4)` (lineage 0, generation 1, through the read lock of the fresh `TreeBin` 1), `remove(1)`
  (lineage 1, still generation 0), `get(6)` (lineage 0, the list bin `(1, 1)`), `has(3)` (lineage 1, absent).

The final state is reachable and quiescent; lineage 0 is at generation 1 (generation 0 forwarded; cell `(1, 0)` a
tree bin, cell `(1, 1)` a list bin), lineage 1 at generation 0 — the lineages ARE at different generations, which
the model allows and the code does not (header of `Proto/TableGN.lean`); the map history holds the ten calls
under their ORIGINAL keys with times on ONE clock (calls of different lineages overlap), and the abstract map is
`{0 ↦ (10,100), 2 ↦ (20,200), 4 ↦ (40,400), 6 ↦ (60,600)}`. `step` refuses a call on a key of another lineage, a
treeify for the bin of a key of another lineage, and a thread that is busy in another lineage — with a call, a
treeify, or in the middle of a resize. -/
namespace Flurry.Proto.TableGN
open Flurry.Lin Flurry.LinMap
open Flurry.Proto.BinG (Cell)

/-- `(lineage, thread, invocation (key of the table), listOnly, treeify (key of the table), resize, small, small2, pick)` -/
abbrev Sch := Nat × Nat × Option (Nat × KOp) × Bool × Option Nat × Bool × Bool × Bool × Nat

def run (S : State) : List Sch → Option State
  | [] => some S
  | (i, t, inv, lo, mt, rz, sm, sm2, pick) :: rest =>
    match step S i t inv lo mt rz sm sm2 pick with
    | some S' => run S' rest
    | none => none

theorem run_reachable {m n : Nat} : ∀ (sched : List Sch) {S S' : State},
    Reachable m n S → run S sched = some S' → Reachable m n S'
  | [], S, S', hr, h => by
    simp only [run, Option.some.injEq] at h
    exact h ▸ hr
  | (i, t, inv, lo, mt, rz, sm, sm2, pick) :: rest, S, S', hr, h => by
    simp only [run] at h
    cases hs : step S i t inv lo mt rz sm sm2 pick with
    | none => rw [hs] at h; cases h
    | some S1 =>
      rw [hs] at h
      exact run_reachable rest (Reachable.step i t inv lo mt rz sm sm2 pick hr hs) h

/-- thread `t` starts a call on key `k` (of the table) in lineage `i` -/
abbrev call (i t k : Nat) (op : KOp) : List Sch := [(i, t, some (k, op), false, none, false, false, false, 0)]
/-- `n` further steps of thread `t` in lineage `i` -/
abbrev go (i t n : Nat) : List Sch := List.replicate n (i, t, none, false, none, false, false, false, 0)
/-- `n` further steps of thread `t` in lineage `i` with the size decisions `sm` (low side) and `sm2` (high side) -/
abbrev goS (i t n : Nat) (sm sm2 : Bool) : List Sch := List.replicate n (i, t, none, false, none, false, sm, sm2, 0)
/-- thread `t` starts the treeify of the bin of key `k` (of the table) in lineage `i` -/
abbrev treeify (i t k : Nat) : List Sch := [(i, t, none, false, some k, false, false, false, 0)]
/-- thread `t` starts a resize of lineage `i` (allocates its next generation) -/
abbrev resize (i t : Nat) : List Sch := [(i, t, none, false, none, true, false, false, 0)]

/-- inserts in both lineages; then thread 0 treeifies the bin of key 4 (lineage 0, local key 2) -/
def exInserts : List Sch :=
  call 0 0 0 (.ins 10 100) ++ call 1 1 1 (.ins 11 101) ++ go 0 0 3 ++ go 1 1 3 ++
  call 0 0 2 (.ins 20 200) ++ go 0 0 8 ++ call 0 0 4 (.ins 40 400) ++ go 0 0 9

def exBefore : List Sch := exInserts ++ treeify 0 0 4 ++ go 0 0 7

/-- thread 1 calls `get(2)` and takes the read lock of `TreeBin` 0; thread 0 starts the resize of lineage 0, takes
the mutex, re-checks, splits (low: fresh `TreeBin`, high: plain list), stores low, high and the marker -/
def exResizeA : List Sch := call 0 1 2 .get ++ go 0 1 5 ++ resize 0 0 ++ goS 0 0 8 false true

/-- … thread 1 finishes its read and calls `insert(6)`: generation 0, marker, generation 1, lock, re-check -/
def exResizeB : List Sch := exResizeA ++ go 0 1 3 ++ call 0 1 6 (.ins 60 600) ++ go 0 1 5

/-- … thread 0 unlocks the mutex and commits; thread 1 appends and unlocks -/
def exResize : List Sch := exResizeB ++ go 0 0 3 ++ go 0 1 4

def exAfter : List Sch :=
  call 0 0 4 .get ++ call 1 1 1 .rm ++ go 0 0 8 ++ go 1 1 7 ++
  call 0 1 6 .get ++ call 1 0 3 .has ++ go 0 1 4 ++ go 1 0 2

def exSchedule : List Sch := exBefore ++ exResize ++ exAfter

def exHist : MHistory :=
  [ ⟨0, ⟨0, .ins 10 100, .none, 1, 5⟩⟩, ⟨2, ⟨0, .ins 20 200, .none, 9, 17⟩⟩,
    ⟨4, ⟨0, .ins 40 400, .none, 18, 27⟩⟩, ⟨2, ⟨1, .get, .some 20 200, 36, 53⟩⟩,
    ⟨6, ⟨1, .ins 60 600, .none, 54, 66⟩⟩, ⟨4, ⟨0, .get, .some 40 400, 67, 76⟩⟩,
    ⟨6, ⟨1, .get, .some 60 600, 84, 89⟩⟩,
    ⟨1, ⟨1, .ins 11 101, .none, 2, 8⟩⟩, ⟨1, ⟨1, .rm, .some 11 101, 68, 83⟩⟩,
    ⟨3, ⟨0, .has, .bool false, 85, 91⟩⟩ ]

/-- the abstract map on the keys `0 … 7` -/
def exAbs : List KSt :=
  [some (10, 100), none, some (20, 200), none, some (40, 400), none, some (60, 600), none]

/-- per lineage: the cells of all generations, the generation of the table pointer, a resize is running, clock -/
def shape (S : State) : List (List (List Cell) × Nat × Bool × Nat) :=
  S.bins.map fun b => (b.tabs, b.cur, b.resizing, b.now)

/-- per lineage, per thread: the program counter -/
def pcs (S : State) : List (List BinGN.Pc) := S.bins.map fun b => b.threads.map (·.pc)

/-- lineage 0: generation 0 forwarded, generation 1 current with a tree bin and a list bin; lineage 1: generation 0 -/
def exShape : List (List (List Cell) × Nat × Bool × Nat) :=
  [([[.moved], [.tree 1, .list 8]], 1, false, 91), ([[.empty]], 0, false, 91)]

def exCheck : Bool :=
  match run (init 2 2) exSchedule with
  | some S =>
    S.bins.all (fun b => b.threads.all (fun l => l.pc == .idle)) && mhist S == exHist &&
      (List.range 8).map (absMap S) == exAbs && shape S == exShape
  | none => false

set_option maxRecDepth 8192 in
theorem exCheck_true : exCheck = true := by decide

/-- a reachable quiescent table with two lineages, a tree bin of lineage 0 transferred, whose history holds calls
on keys of both lineages before, during and after the resize -/
theorem example_state :
    ∃ S : State, Reachable 2 2 S ∧ quiescent S ∧ mhist S = exHist ∧ (List.range 8).map (absMap S) = exAbs ∧
      shape S = exShape := by
  have h := exCheck_true
  unfold exCheck at h
  cases hrun : run (init 2 2) exSchedule with
  | none => rw [hrun] at h; cases h
  | some S =>
    rw [hrun] at h
    simp only [Bool.and_eq_true, List.all_eq_true, beq_iff_eq] at h
    obtain ⟨⟨⟨hq, hh⟩, ha⟩, hs⟩ := h
    exact ⟨S, run_reachable exSchedule Reachable.init hrun, fun b hb l hl => hq b hb l hl, hh, ha, hs⟩

/-- the lineages of that state are at different generations: lineage 0 at generation 1, lineage 1 at generation 0 -/
theorem example_generations : ∃ S : State, Reachable 2 2 S ∧ quiescent S ∧ S.bins.map (·.cur) = [1, 0] := by
  obtain ⟨S, hr, hq, -, -, hs⟩ := example_state
  refine ⟨S, hr, hq, ?_⟩
  have h2 : (shape S).map (·.2.1) = S.bins.map (·.cur) := by
    unfold shape
    rw [List.map_map]
    rfl
  rw [← h2, hs]
  rfl

/-- after the treeify of "the bin of key 4" (clock 35): cell `(0, 0)` of lineage 0 — the bin of local key `4 / 2 = 2`
— is a tree bin; lineage 1 is untouched (its cell still is the list bin of key 1) -/
def exTreeified : Bool :=
  match run (init 2 2) exBefore with
  | some S =>
    shape S == [([[.tree 0]], 0, false, 35), ([[.list 0]], 0, false, 35)] &&
      pcs S == [[.idle, .idle], [.idle, .idle]]
  | none => false

set_option maxRecDepth 8192 in
theorem example_treeified : exTreeified = true := by decide

/-- during the transfer of the tree bin (clock 50): the fresh `TreeBin` 1 (low), the plain list (high) and the
forwarding marker are stored, `cur` still is generation 0, the resizing thread still holds the mutex of the old
`TreeBin` 0 (`xUnlock (inr 0)`), and the reader sits inside the tree of the old `TreeBin` 0 with its read lock -/
def exDuring : Bool :=
  match run (init 2 2) (exBefore ++ exResizeA) with
  | some S =>
    shape S == [([[.moved], [.tree 1, .list 8]], 0, true, 50), ([[.list 0]], 0, false, 50)] &&
      pcs S == [[.xUnlock (.inr 0), .rTree 0], [.idle, .idle]]
  | none => false

set_option maxRecDepth 8192 in
theorem example_during : exDuring = true := by decide

/-- a writer invoked during the resize (clock 59): it has followed the marker into generation 1 — not yet
published — and walks the list of cell `(1, 1)` under its head lock; the resizing thread is about to unlock and
commit -/
def exStraddle : Bool :=
  match run (init 2 2) (exBefore ++ exResizeB) with
  | some S =>
    shape S == [([[.moved], [.tree 1, .list 8]], 0, true, 59), ([[.list 0]], 0, false, 59)] &&
      pcs S == [[.xUnlock (.inr 0), .wFind 1 8 none (some 8)], [.idle, .idle]]
  | none => false

set_option maxRecDepth 8192 in
theorem example_straddle : exStraddle = true := by decide

/-- refused: a call on a key of another lineage (key 1 belongs to lineage 1, key 2 to lineage 0); a treeify for the
bin of a key of another lineage (the treeify key is translated like the invocation key); a thread that is busy in
another lineage — with a call, with a treeify, or in the middle of a resize (so a thread resizes the lineages one
at a time; another thread may resize another lineage meanwhile) -/
theorem example_refused :
    (step (init 2 2) 0 0 (some (1, .ins 1 1)) false none false false false 0).isNone = true ∧
    (step (init 2 2) 1 0 (some (2, .ins 1 1)) false none false false false 0).isNone = true ∧
    (step (init 2 2) 0 0 none false (some 1) false false false 0).isNone = true ∧
    (step (init 2 2) 1 0 none false (some 4) false false false 0).isNone = true ∧
    (step (init 2 2) 0 0 none false (some 4) false false false 0).isSome = true ∧
    (run (init 2 2) (call 0 0 2 (.ins 1 1) ++ call 1 0 1 .get)).isNone = true ∧
    (run (init 2 2) (call 0 0 2 (.ins 1 1) ++ go 1 0 1)).isNone = true ∧
    (run (init 2 2) (treeify 0 0 4 ++ treeify 1 0 1)).isNone = true ∧
    (run (init 2 2) (resize 0 0 ++ go 0 0 1 ++ resize 1 0)).isNone = true ∧
    (run (init 2 2) (resize 0 0 ++ go 0 0 1 ++ resize 1 1 ++ go 1 1 1 ++ go 0 0 1)).isSome = true := by decide

end Flurry.Proto.TableGN
