import Flurry.Lemmas.BinGNPInvW
import Flurry.Lemmas.BinGNPPlan
/-! # Proto/BinGN (port of `Lemmas/BinGFactsK.lean`): the conversions `untreeify`, `kbuild`, `kstore`

Each transition is first treated for an abstract successor state `s'` described by its fields
(`*_core`), then the description is checked for the successor state of the `StepN` constructor
(`*_facts`). All three change no abstract state: `Eff s s' ∧ ∀ k, absOf s' k = absOf s k`.

What differs from BinG:
* every `*_core` / `*_facts` takes `XS' : XShape s'` (the `*_facts` as `let s' := …; XShape s' → …`), passed to
  `inv_store` / `inv_grow`; the hypothesis `hres` of the `*_core` lemmas is gone (it only served `XInv s'`);
* a transfer of ANOTHER cell may have pending structures while the cell `id` is written: `Writable.pend_back` and
  `privBin_back` use `Writable.pend_frame` (the cell under transfer and its children are not `id`);
  `Writable.priv_not_cell` is gone (not needed);
* the generation `tab` of the acting thread exists (`gen_of_tabOf`), so that the store goes through
  `XInv.cellAt_setCell`. -/
namespace Flurry.Proto.BinGNP
open Flurry.Lin
open Flurry.Proto.BinK (nodeAt binAt NextOK IsChain IsSeg chainOf CInv absL HeapStep getElem?_nodeAt nodeAt_of_some
  chainOf_eq chainOf_isChain get_set get_set_self get_set_ne copiesOf copiesOf_length copiesOf_get copiesOf_isChain
  nextOK_copies copyChain_eq nodeAt_append_left nodeAt_ge binAt_ge binAt_append_left binAt_append_new)
open Store

/-! ## helpers -/

private theorem cellAt_setT (s : State) (t : Nat) (l : Local) (id : Cid) : cellAt (setT s t l) id = cellAt s id := rfl

/-- the generation a thread works in exists -/
private theorem gen_of_tabOf {s : State} (X : XInv s) {t : Nat} {l : Local} {g : Nat} (hl : s.threads[t]? = some l)
    (hg : tabOf l.pc = some g) : g < s.tabs.length := by
  obtain ⟨hle, hnew⟩ := X.tabNew t l g hl hg
  by_cases h : g = s.cur + 1
  · cases hr : s.resizing with
    | false => exact absurd (hnew h) (X.noResz hr _)
    | true => exact X.gen_lt_resz hr hle
  · exact X.gen_lt (by omega)

/-- the pending structures of a thread other than the resizing thread do not depend on the state -/
private theorem pend_indep {s s' : State} {pc : Pc} (h : xPc pc = false) : pend s' pc = pend s pc := by
  cases pc <;> simp [xPc] at h <;> rfl

/-- while the cell `id` is writable, the pending structures of the other threads do not depend on the state -/
private theorem Writable.pend_eq {s s' : State} {id : Cid} (W : Writable s id) (H : HInv s) (X : XInv s)
    (hcur : s'.cur = s.cur) (hoth : ∀ id', id' ≠ id → cellAt s' id' = cellAt s id') {t1 : Nat} {l1 : Local}
    (h1 : s.threads[t1]? = some l1) : pend s' l1.pc = pend s l1.pc := by
  cases hx : xPc l1.pc with
  | false => exact pend_indep hx
  | true =>
    cases hp : pend s l1.pc with
    | nil => exact pend_nil_indep hp
    | cons C rest =>
      obtain ⟨j0, hj0, _, hlo, hhi, _⟩ := W.pend_frame H X h1 hx (C := C) (by rw [hp]; simp)
      rw [← hp]
      refine pend_congr hcur ?_
      intro j hj
      rw [hj0] at hj; cases hj
      exact ⟨hoth _ hlo, hoth _ hhi⟩

private theorem Writable.pend_back {s s' : State} {id : Cid} (W : Writable s id) (H : HInv s) (X : XInv s)
    (hcur : s'.cur = s.cur) (hoth : ∀ id', id' ≠ id → cellAt s' id' = cellAt s id') {t1 : Nat} {l1 : Local}
    (h1 : s.threads[t1]? = some l1) {C : Cell} (h : C ∈ pend s' l1.pc) : C ∈ pend s l1.pc := by
  rw [W.pend_eq H X hcur hoth h1] at h; exact h

/-- a `TreeBin` that is private after the step was private before -/
private theorem privBin_back0 {s s' : State} {t : Nat} {l' : Local} {b : Nat}
    (hthr : s'.threads = s.threads.set t l') (hcur : s'.cur = s.cur)
    (hpend : ∀ (t1 : Nat) (l1 : Local), t1 ≠ t → s.threads[t1]? = some l1 → (.tree b : Cell) ∈ pend s' l1.pc →
      (.tree b : Cell) ∈ pend s l1.pc)
    (hself : (.tree b : Cell) ∉ pend s' l'.pc)
    (hc0 : ∀ (t1 : Nat) (l1 : Local) (j : Nat), s.threads[t1]? = some l1 → (.tree b : Cell) ∈ pend s l1.pc →
      xIdx l1.pc = some j → cellAt s (s.cur, j) = .tree b → cellAt s' (s.cur, j) = .tree b)
    (h : PrivBin s' b) : PrivBin s b := by
  obtain ⟨t1, l1, h1, hp, hc⟩ := h
  rw [hthr] at h1
  rcases get_set h1 with ⟨rfl, rfl⟩ | ⟨hne, h1⟩
  · exact absurd hp hself
  · have hp0 := hpend t1 l1 hne h1 hp
    refine ⟨t1, l1, h1, hp0, ?_⟩
    intro j hj e
    have := hc j hj
    rw [hcur] at this
    exact this (hc0 t1 l1 j h1 hp0 hj e)

/-- `privBin_back` for a store into the writable cell `id` -/
private theorem Writable.privBin_back {s s' : State} {id : Cid} (W : Writable s id) (H : HInv s) (X : XInv s)
    {t : Nat} {l' : Local} {b : Nat} (hthr : s'.threads = s.threads.set t l') (hcur : s'.cur = s.cur)
    (hoth : ∀ id', id' ≠ id → cellAt s' id' = cellAt s id') (hself : (.tree b : Cell) ∉ pend s' l'.pc)
    (h : PrivBin s' b) : PrivBin s b := by
  refine privBin_back0 hthr hcur (fun t1 l1 _ h1 hm => W.pend_back H X hcur hoth h1 hm) hself ?_ h
  intro t1 l1 j h1 hm hj e
  obtain ⟨j0, hj0, hne, _⟩ := W.pend_frame H X h1 (xPc_of_xIdx hj) hm
  rw [hj] at hj0; cases hj0
  rw [hoth _ hne]; exact e

private theorem getD_range'_g (a n j : Nat) (hj : j < n) : (List.range' a n).getD j 0 = a + j := by
  rw [List.getD_eq_getElem?_getD, List.getElem?_range' hj]; simp

private theorem mem_range'_g {a n j : Nat} (hj : j ∈ List.range' a n) : ∃ k, k < n ∧ j = a + k := by
  rw [List.mem_range'_1] at hj
  exact ⟨j - a, by omega, by omega⟩

/-! ## `kstore`: the private `TreeBin` of a treeify is stored into the cell -/

theorem kstore_core {s s' : State} {t : Nat} {l : Local} {tab : Nat} {k0 h b : Nat} {id : Cid}
    (I : Inv s) (hl : s.threads[t]? = some l) (hc : l.call = none) (hpc : l.pc = .kStore tab k0 h b)
    (hcid : cidOf s l = id)
    (hheap : s'.heap = s.heap) (htb : s'.tbins = s.tbins)
    (hthr : s'.threads = s.threads.set t { l with pc := .kUnlock h })
    (hcells : ∀ id', cellAt s' id' = if id' = id then .tree b else cellAt s id')
    (hcur : s'.cur = s.cur) (hnow : s'.now = s.now + 1)
    (hhist : s'.hist = s.hist) (XS' : XShape s') : Eff s s' ∧ ∀ k, absOf s' k = absOf s k := by
  have H := I.heap
  have X := I.rsz
  have L := I.lock
  have hvL : validL l.pc = some h := by rw [hpc]; rfl
  have hvv := validated_of_validL hvL
  have hx : xPc l.pc = false := by rw [hpc]; rfl
  have hcell : cellAt s id = .list h := hcid ▸ L.vL t l h hl hvL
  have W : Writable s id := hcid ▸ I.writable_valid hl hvv hx
  have hB := I.data.kInv t l hl
  rw [hpc] at hB
  simp only [KInv] at hB
  obtain ⟨hcp, hnc⟩ := hB
  have hfr := hcp.fresh b rfl (by simp)
  have hold : ∀ j, j < s.heap.length → nodeAt s'.heap j = nodeAt s.heap j := fun j _ => by rw [hheap]
  have hcid' : cellAt s' id = .tree b := by rw [hcells, if_pos rfl]
  have hoth : ∀ id', id' ≠ id → cellAt s' id' = cellAt s id' := fun id' hne => by rw [hcells, if_neg hne]
  have hchb : chainC s' (.tree b) = chainC s (.tree b) := by unfold chainC; rw [hheap, htb]
  have hre : ∀ b j0, Reusing s b j0 → Reusing s' b j0 :=
    reusing_of_set_pc hthr hl (by rw [hpc]; exact ⟨fun _ _ _ e => (by cases e), fun _ _ e => (by cases e)⟩)
  have hjn : ∀ j ∈ chainC s (.tree b), j ∉ chainC s (cellAt s id) := by
    intro j hj hc'
    have h1 := H.chainOwner id j hc'
    rw [hcell] at h1
    have h2 := hcp.chainOwner j hj
    rw [h2] at h1; cases h1
  obtain ⟨H', T, hs, hlc, habs⟩ := sconvert_store_cover (s' := s') (id := id) (L' := chainC s (.tree b)) H X W
    (by rw [hheap]; exact H.nextOK) (by rw [hheap]; exact Nat.le_refl _) hold htb hoth hcur hre
    (by rw [hcid', hheap, htb]; exact hcp.cinv.isChain)
    (by rw [hheap]; exact hcp.cinv.distinct)
    (by
      intro j hj
      rw [hheap, hcell]
      obtain ⟨i, hi, h1, h2, -⟩ := hcp.src j hj (by rw [← hcell]; exact hjn j hj)
      exact ⟨i, hi, h1, h2⟩)
    (by
      intro i hi
      rw [hcell] at hi
      rw [hheap]
      obtain ⟨j, hj, h1, h2, -⟩ := hcp.cover i hi rfl
      exact ⟨j, hj, h1, h2⟩)
    (by
      intro j hj
      exact ⟨hjn j hj, Or.inr ⟨t, l, tab, k0, h, b, hl, hpc, hcp.chainOwner j hj⟩⟩)
    (by
      intro j hj
      rw [hcid'] at hj
      obtain ⟨h1, h2, b', hb', h3⟩ := hj
      cases hb'
      rw [hheap] at h1 h3
      exact (hfr.2.1 j h1).1 h3)
    (by
      intro j hj b' hb'
      rw [hheap] at hb'
      exact absurd hb' (owner_ge hj b'))
    (by
      intro b' hb'
      rw [hcid'] at hb'; cases hb'
      rw [htb]; exact hcp.cellOK b rfl)
    (by
      intro j hj
      rw [hheap, hcid']; exact hcp.chainOwner j hj)
    (by rw [hcid']; simp)
    (by
      intro b' hb' id' _
      rw [hcid'] at hb'; cases hb'
      exact hnc id')
  have hnm : cellAt s' id ≠ .moved := by rw [hcid']; simp
  have hTinv : TInv s' := by
    refine tinv_keep (l' := { l with pc := .kUnlock h }) I.thr hl hthr hnow hhist rfl ⟨fun _ => rfl, fun _ => hc⟩ ?_
    intro p hp
    rw [hc] at hp; cases hp
  have hvo : ∀ id', cellAt s' id' = cellAt s id' ∨ (validated l.pc = true ∧ cidOf s l = id') ∨ cellAt s id' = .empty := by
    intro id'
    by_cases he : id' = id
    · subst he; exact Or.inr (Or.inl ⟨hvv, hcid⟩)
    · exact Or.inl (hoth id' he)
  have hpriv : ∀ b', b' < s.tbins.length → PrivBin s' b' → PrivBin s b' := by
    intro b' _ hp
    exact W.privBin_back H X hthr hcur hoth (by simp [pend]) hp
  have hL' : LInv s' := by
    refine LInv.of_parts
      (lk_step (l' := { l with pc := .kUnlock h }) L hl hthr hcur
        (lockfun_same L hl (by rw [hpc]; rfl) (fun x => by rw [hheap]))
        (fun h' hh => by rw [hpc]; exact Or.inl hh) (fun h' hh => by simp [validL] at hh) hvo)
      (mx_step (l' := { l with pc := .kUnlock h }) L hl hthr hcur
        (mutexfun_same L hl (by rw [hpc]; rfl) (fun x => by rw [htb]))
        (fun b' hb' => by simp [holdsMutex] at hb') (fun b' hb' => by simp [validT] at hb') hvo)
      (rw_cell (l' := { l with pc := .kUnlock h }) L hl hthr htb ?_
        (fun b' hb' => by rw [hpc] at hb'; simp [holdsMutex] at hb') (by rw [hpc]; rfl)
        (fun b' hb' => by simp [binRef] at hb') hpriv)
    intro id' b' hc'
    by_cases he : id' = id
    · subst he
      rw [hcid'] at hc'; cases hc'
      right
      rw [hfr.1]
      exact ⟨rfl, rfl, rfl⟩
    · exact Or.inl ⟨id', by rw [← hoth id' he]; exact hc'⟩
  have Iv' : Inv s' := by
    refine inv_store (l' := { l with pc := .kUnlock h }) I W T hl (Or.inl ⟨hvv, hcid⟩) hthr H' hTinv hL' XS' rfl
      ?_ ?_ (by simp only [KInv]) ?_ ?_
    · intro b' hb'
      rw [hcid'] at hb'; cases hb'
      exact Or.inr ⟨tab, k0, h, hpc⟩
    · intro p hp
      have : l.call = some p := hp
      rw [hc] at this; cases this
    · intro b' hb' j hj ho hin hnot
      rw [hcid'] at hb'; cases hb'
      rw [hheap] at hj ho
      exact absurd (by rw [chainOfBin_eq, hchb]; exact (hfr.2.1 j hj).1 ho) hnot
    · intro b' hb' j hj hin
      rw [hcid'] at hb'; cases hb'
      rw [chainOfBin_eq, hchb] at hj
      rw [hheap, hfr.2.2 j hj] at hin; cases hin
  have ks : ∀ k, KStep s s' k :=
    kstep_of_store (l' := { l with pc := .kUnlock h }) I W H' T hs (fun _ hp => hp) (W.moved_iff X T.cells hnm) hl hthr
      (fun _ _ _ _ e => by simp at e) (fun e => by simp [xPc] at e)
  refine ⟨eff_store Iv' I W T ks hnm ?_ ?_ ?_ ?_ ?_, habs⟩
  · intro b' hb'
    rw [hcell] at hb'; cases hb'
  · intro b' k hb'
    rw [hcell] at hb'; cases hb'
  · intro b' _ hw
    exact Or.inl (by rw [htb]; exact hw)
  · intro b' hb'
    rw [hcell] at hb'; cases hb'
  · intro b' hb'
    rw [hcid'] at hb'; cases hb'
    exact Or.inr ⟨t, l, hl, by rw [hpc]; simp [pend], fun j hj => by rw [hpc] at hj; cases hj⟩

theorem kstore_facts {s : State} {t : Nat} {l : Local} {tab : Nat} {k0 h b : Nat}
    (I : Inv s) (hl : s.threads[t]? = some l) (hc : l.call = none) (hpc : l.pc = .kStore tab k0 h b) :
    let s' := setT (setCell (tick s) tab k0 (.tree b)) t { l with pc := .kUnlock h }
    XShape s' → (Eff s s' ∧ ∀ k, absOf s' k = absOf s k) := by
  intro s' XS'
  have hcid : cidOf s l = idOf tab k0 := by
    unfold cidOf keyOf
    rw [hpc]
    rfl
  obtain ⟨row, hr, hrl⟩ := I.rsz.row_of_lt (gen_of_tabOf I.rsz hl (by rw [hpc]; rfl))
  refine kstore_core (s' := s') I hl hc hpc hcid rfl rfl ?_ ?_ rfl rfl rfl XS'
  · show (setCell (tick s) tab k0 (.tree b)).threads.set t _ = _
    rw [setCell_threads]; rfl
  · intro id'
    show cellAt (setT (setCell (tick s) tab k0 (.tree b)) t _) id' = _
    rw [cellAt_setT]
    refine (cellAt_setCell _ _ _ hr hrl id').trans ?_
    rfl

/-! ## `untreeify`: the list of the `TreeBin` is copied into fresh plain nodes and stored into the cell -/

theorem untreeify_core {s s' : State} {t : Nat} {l : Local} {p : Pending} {tab : Nat} {b : Nat} {res : KRes} {id : Cid}
    (I : Inv s) (hl : s.threads[t]? = some l) (hp : l.call = some p) (hpc : l.pc = .tUntreeify tab b res)
    (hcid : cidOf s l = id)
    (hheap : s'.heap = s.heap ++ copiesOf s.heap (chainC s (.tree b)) mkL)
    (htb : s'.tbins = s.tbins)
    (hthr : s'.threads = s.threads.set t { l with pc := .tUnlockM tab b res false })
    (hcells : ∀ id', cellAt s' id' = if id' = id then
      cellOfHead (if (chainC s (.tree b)).length = 0 then none else some s.heap.length) else cellAt s id')
    (hcur : s'.cur = s.cur) (hnow : s'.now = s.now + 1)
    (hhist : s'.hist = s.hist) (XS' : XShape s') : Eff s s' ∧ ∀ k, absOf s' k = absOf s k := by
  have H := I.heap
  have X := I.rsz
  have L := I.lock
  have hvT : validT l.pc = some b := by rw [hpc]; rfl
  have hvv := validated_of_validT hvT
  have hx : xPc l.pc = false := by rw [hpc]; rfl
  have hcell : cellAt s id = .tree b := hcid ▸ L.vT t l b hl hvT
  have W : Writable s id := hcid ▸ I.writable_valid hl hvv hx
  have hO : chainC s (cellAt s id) = chainC s (.tree b) := by rw [hcell]
  generalize hOe : chainC s (.tree b) = O at hheap hcells hO
  have hlen : s'.heap.length = s.heap.length + O.length := by
    rw [hheap, List.length_append, copiesOf_length]
  have hold : ∀ j, j < s.heap.length → nodeAt s'.heap j = nodeAt s.heap j := by
    intro j hj; rw [hheap]; exact nodeAt_append_left _ hj
  have hnewn : ∀ j, j < O.length → nodeAt s'.heap (s.heap.length + j) =
      mkL (nodeAt s.heap (O.getD j 0)) (if j + 1 < O.length then some (s.heap.length + j + 1) else none) := by
    intro j hj; rw [hheap]; exact copiesOf_get _ _ _ hj
  have hnode : ∀ j, j < s'.heap.length → ¬ j < s.heap.length → ∃ k, k < O.length ∧ j = s.heap.length + k := by
    intro j h1 h2; exact ⟨j - s.heap.length, by omega, by omega⟩
  have hok' : NextOK s'.heap := by rw [hheap]; exact nextOK_copies H.nextOK _ _ (fun _ _ => rfl)
  have hcid' : cellAt s' id = cellOfHead (if O.length = 0 then none else some s.heap.length) := by
    rw [hcells, if_pos rfl]
  have hoth : ∀ id', id' ≠ id → cellAt s' id' = cellAt s id' := fun id' hne => by rw [hcells, if_neg hne]
  have hnt : ∀ b', cellAt s' id ≠ .tree b' := fun b' => by rw [hcid']; exact cellOfHead_ne_tree _ b'
  have hre : ∀ b j0, Reusing s b j0 → Reusing s' b j0 :=
    reusing_of_set_pc hthr hl (by rw [hpc]; exact ⟨fun _ _ _ e => (by cases e), fun _ _ e => (by cases e)⟩)
  have hnm : cellAt s' id ≠ .moved := by rw [hcid']; exact cellOfHead_ne_moved _
  have hnoOwner : ∀ j, s.heap.length ≤ j → ∀ b', (nodeAt s'.heap j).owner ≠ some b' := by
    intro j hj b' ho
    by_cases hj2 : j < s'.heap.length
    · obtain ⟨k, hk, rfl⟩ := hnode j hj2 (by omega)
      rw [hnewn k hk] at ho; cases ho
    · exact owner_ge (Nat.le_of_not_lt hj2) b' ho
  obtain ⟨H', T, hs, hlc, habs⟩ := sconvert_store (s' := s') (id := id) (L' := List.range' s.heap.length O.length) H X W
    hok' (by omega) hold htb hoth hcur hre
    (by rw [hcid', startOf_cellOfHead, hheap]; exact copiesOf_isChain _ _ _ (fun _ _ => rfl))
    (by rw [hO]; simp)
    (by
      intro j hj
      rw [hO] at hj ⊢
      rw [getD_range'_g _ _ _ hj, hnewn j hj]
      exact ⟨rfl, rfl⟩)
    (by
      intro j hj
      obtain ⟨k, hk, rfl⟩ := mem_range'_g hj
      refine ⟨fun h => ?_, Or.inl (by omega)⟩
      have := (H.cinv id).chain_lt h
      omega)
    (by
      intro j hj
      rw [hcid'] at hj
      exact absurd hj (not_treeOf_cellOfHead s' _ j))
    (fun j hj b' hb' => absurd hb' (hnoOwner j hj b'))
    (fun b' hb' => absurd hb' (hnt b'))
    (by
      intro j hj
      obtain ⟨k, hk, rfl⟩ := mem_range'_g hj
      rw [hnewn k hk, hcid', ownerOf_cellOfHead]
      rfl)
    hnm
    (fun b' hb' => absurd hb' (hnt b'))
  -- the bin is in no cell any more, its write lock stays held
  have hnotin : ¬ InCell s' b := by
    rintro ⟨id', h⟩
    by_cases he : id' = id
    · subst he; exact hnt b h
    · rw [hoth id' he] at h
      exact W.tree_ne H X he h hcell
  have hmt := (L.mx t l b hl).1 (holdsMutex_of_validT hvT)
  have hwr : (binAt s.tbins b).writer = true := by
    have := (L.bitsSome id b t l hcell hl hmt).1
    rw [hpc] at this; exact this
  have hlock : ∀ x, (nodeAt s'.heap x).lock = (nodeAt s.heap x).lock := by
    intro x
    by_cases hh : x < s.heap.length
    · rw [hold x hh]
    · rw [nodeAt_ge (Nat.le_of_not_lt hh)]
      by_cases hh2 : x < s'.heap.length
      · obtain ⟨k, hk, rfl⟩ := hnode x hh2 hh
        rw [hnewn k hk]; rfl
      · rw [nodeAt_ge (by omega)]
  have hTinv : TInv s' := by
    refine tinv_keep (l' := { l with pc := .tUnlockM tab b res false }) I.thr hl hthr hnow hhist rfl
      ⟨fun e => (by rw [hp] at e; cases e), fun e => (by simp [noCallPc, kPc, xPc] at e)⟩ ?_
    intro p1 hp1 hn
    have := I.thr.opOK t l p1 hl hp1
    rw [hpc] at this
    exact this rfl
  have hvo : ∀ id', cellAt s' id' = cellAt s id' ∨ (validated l.pc = true ∧ cidOf s l = id') ∨ cellAt s id' = .empty := by
    intro id'
    by_cases he : id' = id
    · subst he; exact Or.inr (Or.inl ⟨hvv, hcid⟩)
    · exact Or.inl (hoth id' he)
  have hpriv : ∀ b', b' < s.tbins.length → PrivBin s' b' → PrivBin s b' := by
    intro b' _ hpb
    exact W.privBin_back H X hthr hcur hoth (by simp [pend]) hpb
  have hL' : LInv s' := by
    refine LInv.of_parts
      (lk_step (l' := { l with pc := .tUnlockM tab b res false }) L hl hthr hcur
        (lockfun_same L hl (by rw [hpc]; rfl) hlock)
        (fun h' hh => by simp [holdsLock] at hh) (fun h' hh => by simp [validL] at hh) hvo)
      (mx_step (l' := { l with pc := .tUnlockM tab b res false }) L hl hthr hcur
        (mutexfun_same L hl (by rw [hpc]; rfl) (fun x => by rw [htb]))
        (fun b' hb' => by rw [hpc]; exact Or.inl hb') (fun b' hb' => by simp [validT] at hb') hvo)
      (rw_cell (l' := { l with pc := .tUnlockM tab b res false }) L hl hthr htb ?_ ?_ (by rw [hpc]; rfl)
        (fun b' hb' => by rw [hpc]; exact Or.inl hb') hpriv)
    · intro id' b' hc'
      by_cases he : id' = id
      · subst he; exact absurd hc' (hnt b')
      · exact Or.inl ⟨id', by rw [← hoth id' he]; exact hc'⟩
    · intro b' hb' hin
      rw [hpc] at hb'
      have : b = b' := by simpa [holdsMutex] using hb'
      subst this
      exact absurd hin hnotin
  have Iv' : Inv s' := by
    refine inv_store (l' := { l with pc := .tUnlockM tab b res false }) I W T hl (Or.inl ⟨hvv, hcid⟩) hthr H' hTinv hL'
      XS' rfl (fun b' hb' => absurd hb' (hnt b'))
      (by intro p1 _; simp only [PcInv]) (by simp only [KInv])
      (fun b' hb' => absurd hb' (hnt b')) (fun b' hb' => absurd hb' (hnt b'))
  have ks : ∀ k, KStep s s' k :=
    kstep_of_store (l' := { l with pc := .tUnlockM tab b res false }) I W H' T hs (fun _ hp => hp)
      (W.moved_iff X T.cells hnm) hl hthr (fun _ _ _ _ e => by simp at e) (fun e => by simp [xPc] at e)
  refine ⟨eff_store Iv' I W T ks hnm ?_ ?_ ?_ ?_ (fun b' hb' => absurd hb' (hnt b')), habs⟩
  · intro b' _ hne
    rw [htb] at hne; exact absurd rfl hne
  · intro b' k _ hne
    exact absurd (absTree_frame T.len (fun j hj _ => hold j hj) (fun j hj => hnoOwner j hj b') k) hne
  · intro b' _ hw
    exact Or.inl (by rw [htb]; exact hw)
  · intro b' hb'
    rw [hcell] at hb'; cases hb'
    exact Or.inr ⟨hnotin, by rw [htb]; exact hwr⟩

theorem untreeify_facts {s : State} {t : Nat} {l : Local} {p : Pending} {tab : Nat} {b : Nat} {res : KRes}
    (I : Inv s) (hl : s.threads[t]? = some l) (hp : l.call = some p) (hpc : l.pc = .tUntreeify tab b res) :
    let s' := setT (untreeifyOf (tick s) tab p.key b) t { l with pc := .tUnlockM tab b res false }
    XShape s' → (Eff s s' ∧ ∀ k, absOf s' k = absOf s k) := by
  intro s' XS'
  obtain ⟨row, hr, hrl⟩ := I.rsz.row_of_lt (gen_of_tabOf I.rsz hl (by rw [hpc]; rfl))
  have hcid : cidOf s l = idOf tab p.key := by
    unfold cidOf keyOf
    rw [hpc, hp]
    rfl
  refine untreeify_core (s' := s') I hl hp hpc hcid rfl rfl ?_ ?_ rfl rfl rfl XS'
  · show (untreeifyOf (tick s) tab p.key b).threads.set t _ = _
    unfold untreeifyOf
    rw [setCell_threads]; rfl
  · intro id'
    show cellAt (setT (untreeifyOf (tick s) tab p.key b) t _) id' = _
    unfold untreeifyOf
    rw [cellAt_setT]
    refine (cellAt_setCell _ _ _ hr hrl id').trans ?_
    rfl

/-! ## `kbuild`: the list is copied into a fresh, private `TreeBin` -/

/-- the private `TreeBin` made by `kBuild` is a copy of the list from `h` -/
theorem copyOK_kbuild {s s' : State} {h : Nat} {O : List Nat} (H' : HInv s')
    (hO : chainC s' (.list h) = O) (hOlt : ∀ i ∈ O, i < s.heap.length)
    (hnd : O.Nodup) (hdO : ∀ i j, i ∈ O → j ∈ O → (nodeAt s.heap i).key = (nodeAt s.heap j).key → i = j)
    (hold : ∀ j, j < s.heap.length → nodeAt s'.heap j = nodeAt s.heap j)
    (hlen : s'.heap.length = s.heap.length + O.length)
    (hnewn : ∀ j, j < O.length → nodeAt s'.heap (s.heap.length + j) =
      mkT s.tbins.length (nodeAt s.heap (O.getD j 0)) (if j + 1 < O.length then some (s.heap.length + j + 1) else none))
    (htlen : s'.tbins.length = s.tbins.length + 1)
    (hbnew : binAt s'.tbins s.tbins.length = { first := if O.length = 0 then none else some s.heap.length })
    (hchB : chainC s' (.tree s.tbins.length) = List.range' s.heap.length O.length)
    (hownOld : ∀ j, j < s.heap.length → (nodeAt s.heap j).owner ≠ some s.tbins.length) :
    CopyOK s' (.list h) (fun _ => true) (.tree s.tbins.length) := by
  have hkv : ∀ j, j < O.length →
      (nodeAt s'.heap ((List.range' s.heap.length O.length).getD j 0)).key = (nodeAt s.heap (O.getD j 0)).key ∧
      (nodeAt s'.heap ((List.range' s.heap.length O.length).getD j 0)).val = (nodeAt s.heap (O.getD j 0)).val := by
    intro j hj
    rw [getD_range'_g _ _ _ hj, hnewn j hj]
    exact ⟨rfl, rfl⟩
  obtain ⟨hdist, hsrc, hcov⟩ := cover_of_pointwise (heap := s.heap) (heap' := s'.heap) hnd hdO (by simp) hkv
  have hown : ∀ j, j < s'.heap.length →
      ((nodeAt s'.heap j).owner = some s.tbins.length ↔ j ∈ List.range' s.heap.length O.length) := by
    intro j hj
    rw [List.mem_range'_1]
    by_cases hjl : j < s.heap.length
    · rw [hold j hjl]
      exact ⟨fun ho => absurd ho (hownOld j hjl), fun hr => by omega⟩
    · obtain ⟨k, hk, rfl⟩ : ∃ k, k < O.length ∧ j = s.heap.length + k := ⟨j - s.heap.length, by omega, by omega⟩
      rw [hnewn k hk]
      exact ⟨fun _ => by omega, fun _ => rfl⟩
  have hdisj : ∀ j, j ∈ O → j ∈ List.range' s.heap.length O.length → False := by
    intro j h1 h2
    have := hOlt j h1
    rw [List.mem_range'_1] at h2
    omega
  have hmemT : ∀ j, (j ∈ chainOf s'.heap (startOf s'.tbins (.tree s.tbins.length)) ∨ treeOf s' (.tree s.tbins.length) j) →
      j ∈ List.range' s.heap.length O.length := by
    intro j hj
    rcases hj with hj | hj
    · exact hchB ▸ hj
    · obtain ⟨h1, _, b', hb', h3⟩ := hj
      cases hb'
      exact (hown j h1).1 h3
  refine ⟨by simp, ⟨H'.nextOK, fun x hx => H'.firstOK _ x hx, ?_⟩, ?_, ?_, fun _ _ => rfl, ?_, ?_, ?_, ?_, ?_⟩
  · intro a c ha hc hac
    exact hdist a c (hmemT a ha) (hmemT c hc) hac
  · intro b' hb'
    cases hb'
    omega
  · intro j hj
    rw [hchB] at hj
    obtain ⟨k, hk, rfl⟩ := mem_range'_g hj
    rw [hnewn k hk]
    rfl
  · intro j hj _
    rw [hchB] at hj
    rw [hO]
    obtain ⟨i, hi, h1, h2⟩ := hsrc j hj
    refine ⟨i, hi, by rw [hold i (hOlt i hi)]; exact h1, by rw [hold i (hOlt i hi)]; exact h2, ?_⟩
    intro r hr hrc
    rw [hchB] at hrc
    exact (hdisj r hr hrc).elim
  · intro i hi _
    rw [hO] at hi
    obtain ⟨j, hj, h1, h2⟩ := hcov i hi
    refine ⟨j, by rw [hchB]; exact hj, by rw [hold i (hOlt i hi)]; exact h1, by rw [hold i (hOlt i hi)]; exact h2, ?_⟩
    right
    rw [hO]
    exact fun hjO => hdisj j hjO hj
  · intro r hr hrc
    rw [hO] at hr
    rw [hchB] at hrc
    exact (hdisj r hr hrc).elim
  · intro i c hi _ hsub
    rw [hO] at hi
    rw [hchB] at hsub
    exact (hdisj i hi (hsub.subset (by simp))).elim
  · intro b' hb' _
    cases hb'
    refine ⟨?_, ?_, ?_⟩
    · rw [hbnew]
    · intro j hj
      rw [hchB]
      exact hown j hj
    · intro j hj
      rw [hchB] at hj
      obtain ⟨k, hk, rfl⟩ := mem_range'_g hj
      rw [hnewn k hk]
      rfl

theorem kbuild_core {s s' : State} {t : Nat} {l : Local} {tab : Nat} {k0 h : Nat} {id : Cid}
    (I : Inv s) (hl : s.threads[t]? = some l) (hc : l.call = none) (hpc : l.pc = .kBuild tab k0 h)
    (hcid : cidOf s l = id) (hcid2 : idOf tab k0 = id)
    (hheap : s'.heap = s.heap ++ copiesOf s.heap (chainC s (.list h)) (mkT s.tbins.length))
    (htb : s'.tbins = s.tbins ++ [{ first := if (chainC s (.list h)).length = 0 then none else some s.heap.length }])
    (hthr : s'.threads = s.threads.set t { l with pc := .kStore tab k0 h s.tbins.length })
    (hcells : ∀ id', cellAt s' id' = cellAt s id')
    (hcur : s'.cur = s.cur) (hnow : s'.now = s.now + 1)
    (hhist : s'.hist = s.hist) (XS' : XShape s') : Eff s s' ∧ ∀ k, absOf s' k = absOf s k := by
  have H := I.heap
  have X := I.rsz
  have L := I.lock
  have hvL : validL l.pc = some h := by rw [hpc]; rfl
  have hvv := validated_of_validL hvL
  have hx : xPc l.pc = false := by rw [hpc]; rfl
  have hcell : cellAt s id = .list h := hcid ▸ L.vL t l h hl hvL
  have W : Writable s id := hcid ▸ I.writable_valid hl hvv hx
  have hO : chainC s (cellAt s id) = chainC s (.list h) := by rw [hcell]
  have hnd : (chainC s (.list h)).Nodup := by
    have := (H.cinv id).nodup
    rw [hcell] at this; exact this
  have hdO : ∀ i j, i ∈ chainC s (.list h) → j ∈ chainC s (.list h) →
      (nodeAt s.heap i).key = (nodeAt s.heap j).key → i = j := by
    have := (H.cinv id).distinct
    rw [hcell] at this; exact this
  have hOlt : ∀ i ∈ chainC s (.list h), i < s.heap.length := by
    intro i hi
    rw [← hO] at hi
    exact (H.cinv id).chain_lt hi
  generalize hOe : chainC s (.list h) = O at hheap htb hO hnd hdO hOlt
  have hlen : s'.heap.length = s.heap.length + O.length := by
    rw [hheap, List.length_append, copiesOf_length]
  have htlen : s'.tbins.length = s.tbins.length + 1 := by rw [htb]; simp
  have hold : ∀ j, j < s.heap.length → nodeAt s'.heap j = nodeAt s.heap j := by
    intro j hj; rw [hheap]; exact nodeAt_append_left _ hj
  have hnewn : ∀ j, j < O.length → nodeAt s'.heap (s.heap.length + j) =
      mkT s.tbins.length (nodeAt s.heap (O.getD j 0))
        (if j + 1 < O.length then some (s.heap.length + j + 1) else none) := by
    intro j hj; rw [hheap]; exact copiesOf_get _ _ _ hj
  have hnode : ∀ j, j < s'.heap.length → ¬ j < s.heap.length → ∃ k, k < O.length ∧ j = s.heap.length + k := by
    intro j h1 h2; exact ⟨j - s.heap.length, by omega, by omega⟩
  have hbold : ∀ b', b' < s.tbins.length → binAt s'.tbins b' = binAt s.tbins b' := by
    intro b' hb'; rw [htb]; exact binAt_append_left _ hb'
  have hbnew : binAt s'.tbins s.tbins.length = { first := if O.length = 0 then none else some s.heap.length } := by
    rw [htb]; exact binAt_append_new _ _
  have hok' : NextOK (s.heap ++ copiesOf s.heap O (mkT s.tbins.length)) := nextOK_copies H.nextOK _ _ (fun _ _ => rfl)
  have hre : ∀ b j0, Reusing s b j0 → Reusing s' b j0 :=
    reusing_of_set_pc hthr hl (by rw [hpc]; exact ⟨fun _ _ _ e => (by cases e), fun _ _ e => (by cases e)⟩)
  have hnoB : ∀ j, s.heap.length ≤ j → ∀ b', (nodeAt s'.heap j).owner = some b' → b' = s.tbins.length := by
    intro j hj b' ho
    by_cases hj2 : j < s'.heap.length
    · obtain ⟨k, hk, rfl⟩ := hnode j hj2 (by omega)
      rw [hnewn k hk] at ho
      exact (Option.some.inj ho).symm
    · exact absurd ho (owner_ge (Nat.le_of_not_lt hj2) b')
  obtain ⟨H', hall, habs⟩ := sgrow_store (s' := s') H X hheap hok' hcells hcur hre (by omega) hbold
    (by
      intro j hj b' ho
      have := hnoB j hj b' ho
      omega)
    (by
      intro b' x hb' hf
      by_cases hb2 : b' = s.tbins.length
      · subst hb2
        rw [hbnew] at hf
        simp only at hf
        split at hf
        · cases hf
        · cases hf; omega
      · rw [binAt_ge (by omega)] at hf; cases hf)
  have T := (hall id).1
  have hchO : chainC s' (.list h) = O := by
    have := (hall id).2.2
    rw [hcells, hO, hcell] at this
    exact this
  have hchB : chainC s' (.tree s.tbins.length) = List.range' s.heap.length O.length := by
    show chainOf s'.heap (binAt s'.tbins s.tbins.length).first = _
    rw [hbnew, hheap]
    exact chainOf_eq hok' (copiesOf_isChain _ _ _ (fun _ _ => rfl))
  have hcp : CopyOK s' (.list h) (fun _ => true) (.tree s.tbins.length) :=
    copyOK_kbuild H' hchO hOlt hnd hdO hold hlen hnewn htlen hbnew hchB
      (fun j _ ho => by have := H.ownerOK j _ ho; omega)
  have hlock : ∀ x, (nodeAt s'.heap x).lock = (nodeAt s.heap x).lock := by
    intro x
    by_cases hh : x < s.heap.length
    · rw [hold x hh]
    · rw [nodeAt_ge (Nat.le_of_not_lt hh)]
      by_cases hh2 : x < s'.heap.length
      · obtain ⟨k, hk, rfl⟩ := hnode x hh2 hh
        rw [hnewn k hk]; rfl
      · rw [nodeAt_ge (by omega)]
  have hsync : ∀ b', (binAt s'.tbins b').mutex = (binAt s.tbins b').mutex ∧
      (binAt s'.tbins b').writer = (binAt s.tbins b').writer ∧ (binAt s'.tbins b').waiter = (binAt s.tbins b').waiter := by
    intro b'
    by_cases hb' : b' < s.tbins.length
    · rw [hbold b' hb']; exact ⟨rfl, rfl, rfl⟩
    · rw [binAt_ge (Nat.le_of_not_lt hb')]
      by_cases hb2 : b' = s.tbins.length
      · subst hb2; rw [hbnew]; exact ⟨rfl, rfl, rfl⟩
      · rw [binAt_ge (by omega)]; exact ⟨rfl, rfl, rfl⟩
  have hTinv : TInv s' := by
    refine tinv_keep (l' := { l with pc := .kStore tab k0 h s.tbins.length }) I.thr hl hthr hnow hhist rfl
      ⟨fun _ => rfl, fun _ => hc⟩ ?_
    intro p hp
    rw [hc] at hp; cases hp
  have hvo : ∀ id', cellAt s' id' = cellAt s id' ∨ (validated l.pc = true ∧ cidOf s l = id') ∨ cellAt s id' = .empty :=
    fun id' => Or.inl (hcells id')
  have hpriv : ∀ b', b' < s.tbins.length → PrivBin s' b' → PrivBin s b' := by
    intro b' hb' hpb
    refine privBin_back0 hthr hcur ?_ ?_ (fun _ _ j _ _ _ e => (hcells _).trans e) hpb
    · intro t1 l1 _ _ hm
      rw [pend_congr hcur (fun j0 _ => ⟨hcells _, hcells _⟩)] at hm
      exact hm
    · intro hm
      have : b' = s.tbins.length := by simpa [pend] using hm
      omega
  have hL' : LInv s' := by
    refine LInv.of_parts
      (lk_step (l' := { l with pc := .kStore tab k0 h s.tbins.length }) L hl hthr hcur
        (lockfun_same L hl (by rw [hpc]; rfl) hlock)
        (fun h' hh => by rw [hpc]; exact Or.inl hh) ?_ hvo)
      (mx_step (l' := { l with pc := .kStore tab k0 h s.tbins.length }) L hl hthr hcur
        (mutexfun_same L hl (by rw [hpc]; rfl) (fun x => (hsync x).1))
        (fun b' hb' => by simp [holdsMutex] at hb') (fun b' hb' => by simp [validT] at hb') hvo)
      (rw_gen (l' := { l with pc := .kStore tab k0 h s.tbins.length }) L hl hthr
        (fun id' b' hc' => Or.inl ⟨id', by rw [← hcells id']; exact hc'⟩) (by omega) hsync ?_ ?_ ?_
        (fun b' hb' => by rw [hpc] at hb'; simp [holdsMutex] at hb')
        (fun b' hb' => by simp [binRef] at hb') hpriv)
    · intro h' hh
      have : h = h' := by simpa [validL] using hh
      subst this
      have : cidOf s' { l with pc := (.kStore tab k0 h s.tbins.length : Pc) } = idOf tab k0 := rfl
      rw [this, hcid2, hcells, hcell]
    · intro b' hb'
      rw [hbold b' hb', hpc]
      simp [holdsRead]
    · intro b' h1 h2
      have : b' = s.tbins.length := by omega
      subst this
      rw [hbnew]
    · intro b' hw
      by_cases hb' : b' < s.tbins.length
      · rw [hbold b' hb']; exact L.wrd b' hw
      · rw [binAt_ge (Nat.le_of_not_lt hb')] at hw; cases hw
  have Iv' : Inv s' := by
    refine inv_grow (l' := { l with pc := .kStore tab k0 h s.tbins.length }) I hl hthr H' hTinv hL' XS' (by omega) hold
      (by omega) hbold (fun j hj b' ho => by have := hnoB j hj b' ho; omega) hcells hcur rfl (by rw [hpc]; rfl)
      ?_ ?_
    · intro p hp
      have : l.call = some p := hp
      rw [hc] at this; cases this
    · show KInv s' (.kStore tab k0 h s.tbins.length)
      simp only [KInv]
      refine ⟨hcp, ?_⟩
      intro id' e
      rw [hcells] at e
      have := H.cellOK id' _ e
      omega
  have ks : ∀ k, KStep s s' k := by
    refine kstep_of_grow (l' := { l with pc := .kStore tab k0 h s.tbins.length }) I H' (by omega) hold hbold hcells hcur hl hthr
      ?_ (fun e => by simp [xPc] at e)
    intro tab' k' h' b' e
    have e' : (.kStore tab k0 h s.tbins.length : Pc) = .kStore tab' k' h' b' := e
    cases e'
    exact Or.inr (Nat.le_refl _)
  have hnm : cellAt s' id ≠ .moved := by rw [hcells, hcell]; simp
  refine ⟨eff_store Iv' I W T ks hnm ?_ ?_ ?_ ?_ ?_, habs⟩
  · intro b' hb'
    rw [hcell] at hb'; cases hb'
  · intro b' k hb'
    rw [hcell] at hb'; cases hb'
  · intro b' hb' hw
    exact Or.inl (by rw [hbold b' hb']; exact hw)
  · intro b' hb'
    rw [hcell] at hb'; cases hb'
  · intro b' hb'
    rw [hcells, hcell] at hb'; cases hb'

theorem kbuild_facts {s : State} {t : Nat} {l : Local} {tab : Nat} {k0 h : Nat}
    (I : Inv s) (hl : s.threads[t]? = some l) (hc : l.call = none) (hpc : l.pc = .kBuild tab k0 h) :
    let s' := setT (buildOf (tick s) h) t { l with pc := .kStore tab k0 h s.tbins.length }
    XShape s' → (Eff s s' ∧ ∀ k, absOf s' k = absOf s k) := by
  intro s' XS'
  have hcid : cidOf s l = idOf tab k0 := by
    unfold cidOf keyOf
    rw [hpc]
    rfl
  exact kbuild_core (s' := s') I hl hc hpc hcid rfl rfl rfl rfl (fun id' => rfl) rfl rfl rfl XS'

end Flurry.Proto.BinGNP
