import Flurry.Lemmas.BinXStore
import Flurry.Lemmas.BinXSplit
/-! # Proto/BinX: what the lock words and the steps of the transfer do to the heap (C01, C10)

Lock / unlock, `tBuild` (the split: `pre → mid`), `tStoreLow`, `tStoreHigh`, the empty-bin CAS
`empty → moved` (`pre → post`), the publication of the new table, and the store of the forwarding
marker (`mid → post`, where the live chain of every key switches from the old list to its new list
without changing the abstract content: `moved_absOf`). -/
namespace Flurry.Proto.BinX
open Flurry.Lin

/-- a transition that does not change any node (as far as key, value and `next` go) nor the live chains -/
theorem HeapStep.of_quiet {s s' : State} {cr cr' : CR} (hlen : s.heap.length ≤ s'.heap.length)
    (hnode : ∀ j, j < s.heap.length → (nodeAt s'.heap j).key = (nodeAt s.heap j).key ∧
      (nodeAt s'.heap j).val = (nodeAt s.heap j).val ∧ (nodeAt s'.heap j).next = (nodeAt s.heap j).next)
    (hord : ∀ j, j < s.heap.length → ord cr' j = ord cr j)
    (hmoved : s.cell0 = .moved → s'.cell0 = .moved)
    (hlive : ∀ j, j < s.heap.length → ¬ Live s cr j → ¬ Live s' cr' j)
    (hlc : ∀ k, LC s' k = LC s k) : HeapStep s s' cr cr' := by
  refine ⟨hlen, fun j hj => (hnode j hj).1, hord, hmoved, ?_, ?_, ?_⟩
  · intro j hj hnl
    exact ⟨(hnode j hj).2.1, (hnode j hj).2.2, hlive j hj hnl⟩
  · intro k j hj; rw [hlc] at hj; exact Or.inl hj
  · intro k c hc1 hc2; rw [hlc] at hc2; exact absurd hc1 hc2

/-! ## lock words -/

theorem lock_effect {s s' : State} {g : Ghost} (H : HInv s g) {i : Nat} {x : Option Nat}
    (hh : s'.heap = s.heap.modify i (fun m => { m with lock := x }))
    (h0 : s'.cell0 = s.cell0) (hL : s'.lowCell = s.lowCell) (hH : s'.highCell = s.highCell)
    (hc : s'.cur = s.cur) :
    HInv s' g ∧ HeapStep s s' g.cr g.cr ∧ (∀ id, chId s' id = chId s id) ∧ (∀ k, absOf s' k = absOf s k) ∧
    (∀ j, (nodeAt s'.heap j).key = (nodeAt s.heap j).key ∧ (nodeAt s'.heap j).next = (nodeAt s.heap j).next) := by
  have hnode : ∀ j, (nodeAt s'.heap j).key = (nodeAt s.heap j).key ∧
      (nodeAt s'.heap j).val = (nodeAt s.heap j).val ∧ (nodeAt s'.heap j).next = (nodeAt s.heap j).next := by
    intro j; rw [hh, nodeAt_modify]; split <;> exact ⟨rfl, rfl, rfl⟩
  have hlen : s'.heap.length = s.heap.length := by rw [hh, List.length_modify]
  have hok' : NextOK g.cr s'.heap := by rw [hh]; exact nextOK_modify_same H.nextOK (fun _ => rfl)
  have hcell : ∀ id, getCell s' id = getCell s id := by
    intro id; cases id
    · exact h0
    · exact hL
    · exact hH
  have hch : ∀ id, chId s' id = chId s id := by
    intro id
    refine chainH_eq hok' ?_
    rw [hcell id, hh]
    exact (H.isChain id).modify (fun _ _ => rfl)
  have e0 : chO s' = chO s := hch .c0
  have eL : chL s' = chL s := hch .low
  have eH : chH s' = chH s := hch .high
  have hkd : ∀ C, KeysDistinct s.heap C → KeysDistinct s'.heap C :=
    fun C hd => hd.congr (fun j _ => (hnode j).1)
  have hlc : ∀ k, LC s' k = LC s k := by
    intro k
    unfold LC
    rw [chainOfCell_eq, chainOfCell_eq]
    have : liveCell s' k = liveCell s k := by
      unfold liveCell cellOf; rw [h0, hL, hH, hc]
    rw [this]
    rw [H.liveCell_eq k]
    have := hch (liveId s k)
    unfold chId at this
    rw [hcell] at this
    exact this
  have H' : HInv s' g := by
    refine ⟨hok', by rw [hlen]; exact H.crOK, by rw [hlen, h0]; exact H.head0, by rw [hlen, hL]; exact H.headL,
      by rw [hlen, hH]; exact H.headH, by rw [e0]; exact hkd _ H.keysO, by rw [eL]; exact hkd _ H.keysL,
      by rw [eH]; exact hkd _ H.keysH, ?_, ?_, by rw [e0]; exact H.oNotCopy, by rw [hc]; exact H.curNew,
      by rw [h0, hL, hH]; exact H.pre, ?_, by rw [h0]; exact H.post⟩
    · intro i hi; rw [eL] at hi; rw [(hnode i).1]; exact H.sideL i hi
    · intro i hi; rw [eH] at hi; rw [(hnode i).1]; exact H.sideH i hi
    · intro lo hg hp
      obtain ⟨h1, h2, h3, h4, L, Hc, hLc, hHc, sL, sH⟩ := H.mid lo hg hp
      rw [h0, hL, hH, e0]
      refine ⟨h1, h2, h3, h4, L, Hc, ?_, ?_, ?_, ?_⟩
      · rw [hh]; exact hLc.modify (fun _ _ => rfl)
      · rw [hh]; exact hHc.modify (fun _ _ => rfl)
      · exact ⟨fun j hj => by rw [(hnode j).1]; exact sL.side j hj, hkd _ sL.keys, sL.mem,
          fun j hj hc => by
            obtain ⟨i, hi, h5, h6, h7⟩ := sL.src j hj hc
            exact ⟨i, hi, by rw [(hnode i).1, (hnode j).1]; exact h5, by rw [(hnode i).2.1, (hnode j).2.1]; exact h6, h7⟩,
          fun i hi hb => by
            rw [(hnode i).1] at hb
            obtain ⟨j, hj, h5, h6, h7⟩ := sL.cover i hi hb
            exact ⟨j, hj, by rw [(hnode i).1, (hnode j).1]; exact h5, by rw [(hnode i).2.1, (hnode j).2.1]; exact h6, h7⟩,
          sL.suffix⟩
      · exact ⟨fun j hj => by rw [(hnode j).1]; exact sH.side j hj, hkd _ sH.keys, sH.mem,
          fun j hj hc => by
            obtain ⟨i, hi, h5, h6, h7⟩ := sH.src j hj hc
            exact ⟨i, hi, by rw [(hnode i).1, (hnode j).1]; exact h5, by rw [(hnode i).2.1, (hnode j).2.1]; exact h6, h7⟩,
          fun i hi hb => by
            rw [(hnode i).1] at hb
            obtain ⟨j, hj, h5, h6, h7⟩ := sH.cover i hi hb
            exact ⟨j, hj, by rw [(hnode i).1, (hnode j).1]; exact h5, by rw [(hnode i).2.1, (hnode j).2.1]; exact h6, h7⟩,
          sH.suffix⟩
  refine ⟨H', ?_, hch, ?_, fun j => ⟨(hnode j).1, (hnode j).2.2⟩⟩
  · refine HeapStep.of_quiet (by rw [hlen]; exact Nat.le_refl _) (fun j _ => hnode j) (fun _ _ => rfl)
      (by rw [h0]; exact id) ?_ hlc
    intro j _ hnl hl
    apply hnl
    unfold Live at hl ⊢
    rw [e0, eL, eH, h0] at hl
    exact hl
  · intro k
    rw [absOf_eq, absOf_eq]
    have := hlc k
    unfold LC at this
    rw [this]
    exact absIn_same (fun j _ => (hnode j).1) (fun j _ => (hnode j).2.1) k

end Flurry.Proto.BinX

namespace Flurry.Proto.BinX
open Flurry.Lin

theorem liveId_of_not_moved {s : State} (h : s.cell0 ≠ .moved) (k : Nat) : liveId s k = .c0 := by
  unfold liveId; rw [if_neg h]

/-! ## the split -/

theorem build_effect {s s' : State} {g : Ghost} (H : HInv s g) (hp : g.ph = .pre) {h : Nat}
    (hc0 : s.cell0 = .node h)
    (hh : s'.heap = (splitBin s.heap (chainFrom s.heap s.heap.length (some h))).1)
    (h0 : s'.cell0 = s.cell0) (hL : s'.lowCell = s.lowCell) (hH : s'.highCell = s.highCell)
    (hc : s'.cur = s.cur) :
    HInv s' ⟨.mid (splitBin s.heap (chainFrom s.heap s.heap.length (some h))).2.1
        (splitBin s.heap (chainFrom s.heap s.heap.length (some h))).2.2, (s.heap.length, s'.heap.length)⟩ ∧
    HeapStep s s' g.cr (s.heap.length, s'.heap.length) ∧ (∀ k, absOf s' k = absOf s k) ∧
    (∀ j, j < s.heap.length → nodeAt s'.heap j = nodeAt s.heap j) ∧ s.heap.length ≤ s'.heap.length := by
  obtain ⟨hcr, hnm, hlow, hhigh⟩ := H.pre hp
  have hOeq : chainFrom s.heap s.heap.length (some h) = chO s := by
    unfold chO chainH; rw [hc0]; rfl
  have hO : IsChain s.heap (some h) (chO s) := by
    have := H.isChain .c0
    unfold getCell at this
    rw [hc0] at this
    exact this
  rw [hOeq] at hh ⊢
  obtain ⟨ext, hext, hok', hsplit⟩ := splitBin_spec H.nextOK hcr hO H.keysO
  rw [← hh] at hext hok' hsplit
  have hlen : s.heap.length ≤ s'.heap.length := by rw [hext, List.length_append]; omega
  have hnode : ∀ j, j < s.heap.length → nodeAt s'.heap j = nodeAt s.heap j := by
    intro j hj; rw [hext, nodeAt_append_left _ hj]
  have hcell : ∀ id, getCell s' id = getCell s id := by
    intro id; cases id
    · exact h0
    · exact hL
    · exact hH
  have hch : ∀ id, chId s' id = chId s id := by
    intro id
    refine chainH_eq hok' ?_
    rw [hcell id, hext]
    exact (H.isChain id).append_heap ext
  have e0 : chO s' = chO s := hch .c0
  have eL : chL s' = [] := by
    have : chL s' = chL s := hch .low
    rw [this]; exact H.chL_pre hp
  have eH : chH s' = [] := by
    have : chH s' = chH s := hch .high
    rw [this]; exact H.chH_pre hp
  have hOlt : ∀ i ∈ chO s, i < s.heap.length := fun i hi => H.chain_lt (id := .c0) hi
  have hnm' : s'.cell0 ≠ .moved := by rw [h0]; exact hnm
  have hlc : ∀ k, LC s' k = LC s k := by
    intro k
    have h1 : LC s' k = chO s' := by
      unfold LC liveCell
      rw [if_neg (by simpa using hnm')]
      have : s'.cur ≠ .new := by
        rw [hc]; intro hcn
        have := H.curNew hcn
        rw [hp] at this; cases this
      rw [if_neg (by simpa using this)]
      rfl
    rw [h1, e0, H.LC_eq, liveId_of_not_moved hnm]
    rfl
  refine ⟨?_, ?_, ?_, hnode, hlen⟩
  · refine ⟨hok', ⟨hlen, Nat.le_refl _⟩, ?_, ?_, ?_, ?_, ?_, ?_, ?_, ?_, ?_, ?_, ?_, ?_, ?_⟩
    · intro h' hc'; rw [h0] at hc'; have := H.head0 h' hc'; omega
    · intro h' hc'; rw [hL, hlow] at hc'; cases hc'
    · intro h' hc'; rw [hH, hhigh] at hc'; cases hc'
    · rw [e0]; exact H.keysO.congr (fun j hj => by rw [hnode j (hOlt j hj)])
    · rw [eL]; intro a ha; cases ha
    · rw [eH]; intro a ha; cases ha
    · rw [eL]; intro a ha; cases ha
    · rw [eH]; intro a ha; cases ha
    · intro i hi hcp
      rw [e0] at hi
      have := hOlt i hi
      unfold isCopy at hcp
      dsimp only at hcp
      omega
    · intro hcn
      rw [hc] at hcn
      have := H.curNew hcn
      rw [hp] at this; cases this
    · intro hpp; cases hpp
    · intro lo hg hpp
      simp only [Phase.mid.injEq] at hpp
      obtain ⟨rfl, rfl⟩ := hpp
      refine ⟨⟨h, by rw [h0]; exact hc0⟩, Or.inl (by rw [hL]; exact hlow), Or.inl (by rw [hH]; exact hhigh), ?_⟩
      rw [e0]
      exact hsplit
    · intro hpp; cases hpp
  · refine HeapStep.of_quiet hlen (fun j hj => by rw [hnode j hj]; exact ⟨rfl, rfl, rfl⟩) ?_
      (by rw [h0]; exact id) ?_ hlc
    · intro j hj
      have h1 : ¬ isCopy (s.heap.length, s'.heap.length) j := by unfold isCopy; dsimp only; omega
      have h2 : ¬ isCopy g.cr j := by unfold isCopy; omega
      rw [ord_not_copy h1, ord_not_copy h2]
    · intro j hj hnl hl
      apply hnl
      unfold Live at hl ⊢
      rw [e0, eL, eH] at hl
      rcases hl with hl | hl | hl | ⟨_, hl⟩
      · exact Or.inl hl
      · cases hl
      · cases hl
      · unfold isCopy at hl; dsimp only at hl; omega
  · intro k
    rw [absOf_eq, absOf_eq]
    have := hlc k
    unfold LC at this
    rw [this]
    have hl2 := H.LC_eq k
    unfold LC at hl2
    refine absIn_same ?_ ?_ k
    · intro j hj; rw [hl2] at hj; rw [hnode j (H.chain_lt hj)]
    · intro j hj; rw [hl2] at hj; rw [hnode j (H.chain_lt hj)]

/-! ## the stores into the new table (the old bin stays the live one) -/

theorem LC_of_not_moved {s : State} {g : Ghost} (H : HInv s g) (h : s.cell0 ≠ .moved) (k : Nat) :
    LC s k = chO s := by
  rw [H.LC_eq, liveId_of_not_moved h]; rfl

theorem storeNew_effect {s s' : State} {g : Ghost} (H : HInv s g) {lo hg : Option Nat}
    (hp : g.ph = .mid lo hg)
    (hh : s'.heap = s.heap) (h0 : s'.cell0 = s.cell0)
    (hL : s'.lowCell = s.lowCell ∨ (s.lowCell = .empty ∧ s'.lowCell = cellOfHead lo))
    (hH : s'.highCell = s.highCell ∨ (s.highCell = .empty ∧ s'.highCell = cellOfHead hg))
    (hc : s'.cur = s.cur) :
    HInv s' g ∧ HeapStep s s' g.cr g.cr ∧ (∀ k, absOf s' k = absOf s k) := by
  obtain ⟨⟨h, hc0⟩, hlow, hhigh, hlt, L, Hc, hLc, hHc, sL, sH⟩ := H.mid lo hg hp
  have hnm : s.cell0 ≠ .moved := by rw [hc0]; simp
  have hnm' : s'.cell0 ≠ .moved := by rw [h0]; exact hnm
  have e0 : chO s' = chO s := by unfold chO; rw [hh, h0]
  -- the new low chain
  have hLfacts : (∀ h', s'.lowCell = .node h' → h' < s'.heap.length) ∧ KeysDistinct s'.heap (chL s') ∧
      (∀ i ∈ chL s', hiBit (nodeAt s'.heap i).key = false) ∧
      (∀ i ∈ chL s', i ∈ chL s ∨ i ∈ chO s ∨ isCopy g.cr i) := by
    rcases hL with hL | ⟨hLe, hL⟩
    · have eL : chL s' = chL s := by unfold chL; rw [hh, hL]
      rw [eL, hh, hL]
      exact ⟨H.headL, H.keysL, H.sideL, fun i hi => Or.inl hi⟩
    · have eL : chL s' = L := by
        unfold chL
        refine chainH_eq (cr := g.cr) (by rw [hh]; exact H.nextOK) ?_
        rw [hL, cellHead_cellOfHead, hh]; exact hLc
      rw [eL, hh]
      refine ⟨?_, sL.keys, sL.side, fun i hi => Or.inr (sL.mem i hi)⟩
      intro h' hc'
      rw [hL] at hc'
      have : lo = some h' := by
        cases lo with
        | none => cases hc'
        | some x => cases hc'; rfl
      subst this
      obtain ⟨-, n, hn, -⟩ : some h' = some h' ∧ ∃ n, s.heap[h']? = some n ∧ True := by
        cases hLc with
        | cons hn _ => exact ⟨rfl, _, hn, trivial⟩
      exact (List.getElem?_eq_some_iff.1 hn).1
  have hHfacts : (∀ h', s'.highCell = .node h' → h' < s'.heap.length) ∧ KeysDistinct s'.heap (chH s') ∧
      (∀ i ∈ chH s', hiBit (nodeAt s'.heap i).key = true) ∧
      (∀ i ∈ chH s', i ∈ chH s ∨ i ∈ chO s ∨ isCopy g.cr i) := by
    rcases hH with hH | ⟨hHe, hH⟩
    · have eH : chH s' = chH s := by unfold chH; rw [hh, hH]
      rw [eH, hh, hH]
      exact ⟨H.headH, H.keysH, H.sideH, fun i hi => Or.inl hi⟩
    · have eH : chH s' = Hc := by
        unfold chH
        refine chainH_eq (cr := g.cr) (by rw [hh]; exact H.nextOK) ?_
        rw [hH, cellHead_cellOfHead, hh]; exact hHc
      rw [eH, hh]
      refine ⟨?_, sH.keys, sH.side, fun i hi => Or.inr (sH.mem i hi)⟩
      intro h' hc'
      rw [hH] at hc'
      have : hg = some h' := by
        cases hg with
        | none => cases hc'
        | some x => cases hc'; rfl
      subst this
      obtain ⟨-, n, hn, -⟩ : some h' = some h' ∧ ∃ n, s.heap[h']? = some n ∧ True := by
        cases hHc with
        | cons hn _ => exact ⟨rfl, _, hn, trivial⟩
      exact (List.getElem?_eq_some_iff.1 hn).1
  have H' : HInv s' g := by
    refine ⟨by rw [hh]; exact H.nextOK, by rw [hh]; exact H.crOK, by rw [hh, h0]; exact H.head0,
      hLfacts.1, hHfacts.1, by rw [hh, e0]; exact H.keysO, hLfacts.2.1, hHfacts.2.1, hLfacts.2.2.1,
      hHfacts.2.2.1, by rw [e0]; exact H.oNotCopy, by rw [hc]; exact H.curNew, ?_, ?_, ?_⟩
    · intro hpp; rw [hp] at hpp; cases hpp
    · intro lo' hg' hpp
      rw [hp] at hpp
      simp only [Phase.mid.injEq] at hpp
      obtain ⟨rfl, rfl⟩ := hpp
      refine ⟨⟨h, by rw [h0]; exact hc0⟩, ?_, ?_, ?_⟩
      · rcases hL with hL | ⟨_, hL⟩
        · rw [hL]; exact hlow
        · exact Or.inr hL
      · rcases hH with hH | ⟨_, hH⟩
        · rw [hH]; exact hhigh
        · exact Or.inr hH
      · rw [hh, e0]; exact ⟨hlt, L, Hc, hLc, hHc, sL, sH⟩
    · intro hpp; rw [hp] at hpp; cases hpp
  have hlc : ∀ k, LC s' k = LC s k := by
    intro k
    rw [LC_of_not_moved H' hnm', LC_of_not_moved H hnm, e0]
  refine ⟨H', ?_, ?_⟩
  · refine HeapStep.of_quiet (by rw [hh]; exact Nat.le_refl _) (fun j _ => by rw [hh]; exact ⟨rfl, rfl, rfl⟩)
      (fun _ _ => rfl) (by rw [h0]; exact id) ?_ hlc
    intro j _ hnl hl
    apply hnl
    unfold Live at hl ⊢
    rw [e0, h0] at hl
    rcases hl with hl | hl | hl | hl
    · exact Or.inl hl
    · rcases hLfacts.2.2.2 j hl with h1 | h1 | h1
      · exact Or.inr (Or.inl h1)
      · exact Or.inl h1
      · exact Or.inr (Or.inr (Or.inr ⟨hnm, h1⟩))
    · rcases hHfacts.2.2.2 j hl with h1 | h1 | h1
      · exact Or.inr (Or.inr (Or.inl h1))
      · exact Or.inl h1
      · exact Or.inr (Or.inr (Or.inr ⟨hnm, h1⟩))
    · exact Or.inr (Or.inr (Or.inr hl))
  · intro k
    rw [absOf_eq, absOf_eq]
    have := hlc k
    unfold LC at this
    rw [this, hh]

end Flurry.Proto.BinX

namespace Flurry.Proto.BinX
open Flurry.Lin

theorem LC_of_moved {s : State} {g : Ghost} (H : HInv s g) (h : s.cell0 = .moved) (k : Nat) :
    LC s k = chB s (hiBit k) := by
  rw [H.LC_eq]
  unfold liveId chB
  rw [if_pos h]
  cases hiBit k <;> rfl

/-! ## the empty bin: CAS `empty → moved` -/

theorem casMoved_effect {s s' : State} {g : Ghost} (H : HInv s g) (hp : g.ph = .pre)
    (hc0 : s.cell0 = .empty)
    (hh : s'.heap = s.heap) (h0 : s'.cell0 = .moved) (hL : s'.lowCell = s.lowCell) (hH : s'.highCell = s.highCell)
    (_hc : s'.cur = s.cur) :
    HInv s' ⟨.post, g.cr⟩ ∧ HeapStep s s' g.cr g.cr ∧ (∀ k, absOf s' k = absOf s k) := by
  obtain ⟨hcr, hnm, hlow, hhigh⟩ := H.pre hp
  have e0 : chO s' = [] := by unfold chO; rw [h0]; exact chainH_moved _
  have eL : chL s' = [] := by unfold chL; rw [hL, hlow]; exact chainH_empty _
  have eH : chH s' = [] := by unfold chH; rw [hH, hhigh]; exact chainH_empty _
  have e0s : chO s = [] := by unfold chO; rw [hc0]; exact chainH_empty _
  have H' : HInv s' ⟨.post, g.cr⟩ := by
    refine ⟨by rw [hh]; exact H.nextOK, by rw [hh]; exact H.crOK, ?_, ?_, ?_, ?_, ?_, ?_, ?_, ?_, ?_,
      fun _ => rfl, ?_, ?_, fun _ => h0⟩
    · intro h hc'; rw [h0] at hc'; cases hc'
    · intro h hc'; rw [hL, hlow] at hc'; cases hc'
    · intro h hc'; rw [hH, hhigh] at hc'; cases hc'
    · rw [e0]; intro a ha; cases ha
    · rw [eL]; intro a ha; cases ha
    · rw [eH]; intro a ha; cases ha
    · rw [eL]; intro a ha; cases ha
    · rw [eH]; intro a ha; cases ha
    · rw [e0]; intro a ha; cases ha
    · intro hpp; cases hpp
    · intro lo hg hpp; cases hpp
  have hlc' : ∀ k, LC s' k = [] := by
    intro k
    rw [LC_of_moved H' h0]
    unfold chB
    cases hiBit k
    · exact eL
    · exact eH
  have hlc : ∀ k, LC s' k = LC s k := by
    intro k; rw [hlc', LC_of_not_moved H hnm, e0s]
  refine ⟨H', ?_, ?_⟩
  · refine HeapStep.of_quiet (by rw [hh]; exact Nat.le_refl _) (fun j _ => by rw [hh]; exact ⟨rfl, rfl, rfl⟩)
      (fun _ _ => rfl) (fun _ => h0) ?_ hlc
    intro j _ _ hl
    unfold Live at hl
    rw [e0, eL, eH] at hl
    rcases hl with hl | hl | hl | ⟨hl, _⟩
    · cases hl
    · cases hl
    · cases hl
    · exact hl h0
  · intro k
    rw [absOf_eq, absOf_eq]
    have := hlc k
    unfold LC at this
    rw [this, hh]

/-! ## the publication of the new table -/

theorem commit_effect {s s' : State} {g : Ghost} (H : HInv s g) (hp : g.ph = .post)
    (hh : s'.heap = s.heap) (h0 : s'.cell0 = s.cell0) (hL : s'.lowCell = s.lowCell) (hH : s'.highCell = s.highCell) :
    HInv s' g ∧ HeapStep s s' g.cr g.cr ∧ (∀ k, absOf s' k = absOf s k) := by
  have hm := H.post hp
  have hm' : s'.cell0 = .moved := by rw [h0]; exact hm
  have e0 : chO s' = chO s := by unfold chO; rw [hh, h0]
  have eL : chL s' = chL s := by unfold chL; rw [hh, hL]
  have eH : chH s' = chH s := by unfold chH; rw [hh, hH]
  have H' : HInv s' g := by
    refine ⟨by rw [hh]; exact H.nextOK, by rw [hh]; exact H.crOK, by rw [hh, h0]; exact H.head0,
      by rw [hh, hL]; exact H.headL, by rw [hh, hH]; exact H.headH, by rw [hh, e0]; exact H.keysO,
      by rw [hh, eL]; exact H.keysL, by rw [hh, eH]; exact H.keysH, by rw [hh, eL]; exact H.sideL,
      by rw [hh, eH]; exact H.sideH, by rw [e0]; exact H.oNotCopy, fun _ => hp, ?_, ?_, fun _ => hm'⟩
    · intro hpp; rw [hp] at hpp; cases hpp
    · intro lo hg hpp; rw [hp] at hpp; cases hpp
  have hlc : ∀ k, LC s' k = LC s k := by
    intro k
    rw [LC_of_moved H' hm', LC_of_moved H hm]
    unfold chB; rw [eL, eH]
  refine ⟨H', ?_, ?_⟩
  · refine HeapStep.of_quiet (by rw [hh]; exact Nat.le_refl _) (fun j _ => by rw [hh]; exact ⟨rfl, rfl, rfl⟩)
      (fun _ _ => rfl) (fun _ => hm') ?_ hlc
    intro j _ hnl hl
    apply hnl
    unfold Live at hl ⊢
    rw [e0, eL, eH, h0] at hl
    exact hl
  · intro k
    rw [absOf_eq, absOf_eq]
    have := hlc k
    unfold LC at this
    rw [this, hh]

/-! ## the forwarding marker -/

/-- in the state before the store of `moved`, the new chains are the split lists -/
theorem mid_chains {s : State} {g : Ghost} (H : HInv s g) {lo hg : Option Nat} (hp : g.ph = .mid lo hg)
    (hlow : s.lowCell = cellOfHead lo) (hhigh : s.highCell = cellOfHead hg) :
    (∀ i ∈ chO s, i < g.cr.1) ∧ SideOK s.heap g.cr (chO s) false (chL s) ∧ SideOK s.heap g.cr (chO s) true (chH s) := by
  obtain ⟨-, -, -, hlt, L, Hc, hLc, hHc, sL, sH⟩ := H.mid lo hg hp
  have eL : chL s = L := by
    unfold chL
    refine chainH_eq H.nextOK ?_
    rw [hlow, cellHead_cellOfHead]; exact hLc
  have eH : chH s = Hc := by
    unfold chH
    refine chainH_eq H.nextOK ?_
    rw [hhigh, cellHead_cellOfHead]; exact hHc
  rw [eL, eH]
  exact ⟨hlt, sL, sH⟩

theorem sideOK_abs {heap : List NodeS} {cr : CR} {O X : List Nat} {b : Bool} (hO : KeysDistinct heap O)
    (sX : SideOK heap cr O b X) {k : Nat} (hk : hiBit k = b) : absIn heap X k = absIn heap O k := by
  refine absIn_congr hO sX.keys ?_ ?_
  · intro i hi hik
    obtain ⟨j, hj, h1, h2, -⟩ := sX.cover i hi (by rw [hik]; exact hk)
    exact ⟨j, hj, by rw [h1, hik], h2⟩
  · intro j hj hjk
    rcases sX.mem j hj with h | h
    · exact ⟨j, h, hjk⟩
    · obtain ⟨i, hi, h1, -, -⟩ := sX.src j hj h
      exact ⟨i, hi, by rw [h1, hjk]⟩

theorem moved_effect {s s' : State} {g : Ghost} (H : HInv s g) {lo hg : Option Nat} (hp : g.ph = .mid lo hg)
    (hlow : s.lowCell = cellOfHead lo) (hhigh : s.highCell = cellOfHead hg)
    (hh : s'.heap = s.heap) (h0 : s'.cell0 = .moved) (hL : s'.lowCell = s.lowCell) (hH : s'.highCell = s.highCell)
    (_hc : s'.cur = s.cur) :
    HInv s' ⟨.post, g.cr⟩ ∧ (∀ k, absOf s' k = absOf s k) := by
  obtain ⟨hlt, sL, sH⟩ := mid_chains H hp hlow hhigh
  obtain ⟨⟨h, hc0⟩, -⟩ := H.mid lo hg hp
  have hnm : s.cell0 ≠ .moved := by rw [hc0]; simp
  have e0 : chO s' = [] := by unfold chO; rw [h0]; exact chainH_moved _
  have eL : chL s' = chL s := by unfold chL; rw [hh, hL]
  have eH : chH s' = chH s := by unfold chH; rw [hh, hH]
  have H' : HInv s' ⟨.post, g.cr⟩ := by
    refine ⟨by rw [hh]; exact H.nextOK, by rw [hh]; exact H.crOK, ?_, by rw [hh, hL]; exact H.headL,
      by rw [hh, hH]; exact H.headH, ?_, by rw [hh, eL]; exact H.keysL, by rw [hh, eH]; exact H.keysH,
      by rw [hh, eL]; exact H.sideL, by rw [hh, eH]; exact H.sideH, ?_, fun _ => rfl, ?_, ?_, fun _ => h0⟩
    · intro h' hc'; rw [h0] at hc'; cases hc'
    · rw [e0]; intro a ha; cases ha
    · rw [e0]; intro a ha; cases ha
    · intro hpp; cases hpp
    · intro lo' hg' hpp; cases hpp
  refine ⟨H', ?_⟩
  intro k
  rw [absOf_eq, absOf_eq]
  have h1 := LC_of_moved H' h0 k
  have h2 := LC_of_not_moved H hnm k
  unfold LC at h1 h2
  rw [h1, h2, hh]
  unfold chB
  cases hb : hiBit k
  · simp only [Bool.false_eq_true, if_false]
    rw [eL]; exact sideOK_abs H.keysO sL hb
  · simp only [if_true]
    rw [eH]; exact sideOK_abs H.keysO sH hb

/-- after the forwarding only the nodes of the new chains are live -/
theorem live_of_moved {s s' : State} {cr : CR} (hh : s'.heap = s.heap) (h0 : s'.cell0 = .moved)
    (hL : s'.lowCell = s.lowCell) (hH : s'.highCell = s.highCell) {j : Nat} (hl : Live s' cr j) :
    j ∈ chL s ∨ j ∈ chH s := by
  unfold Live at hl
  have e0 : chO s' = [] := by unfold chO; rw [h0]; exact chainH_moved _
  have eL : chL s' = chL s := by unfold chL; rw [hh, hL]
  have eH : chH s' = chH s := by unfold chH; rw [hh, hH]
  rw [e0, eL, eH] at hl
  rcases hl with hl | hl | hl | ⟨hl, _⟩
  · cases hl
  · exact Or.inl hl
  · exact Or.inr hl
  · exact absurd h0 hl

end Flurry.Proto.BinX
