import Flurry.Lemmas.BinGGhost
/-! # Proto/BinG: what every transition has to establish (definitions)

`Eff s s'`: the structural invariant after the transition, the `KStep` of every key, and the frame
facts the lock-protocol readers need: the `first` field of a `TreeBin` is stored only while it is in
a live cell; the tree content of a `TreeBin` for `k` changes only in the live cell of `k`; a `TreeBin`
that is in no cell (and not private) stays in no cell and keeps a held write lock; a `TreeBin` leaves the
live cell of `k` by an untreeify or by the transfer. -/
namespace Flurry.Proto.BinG
open Flurry.Lin
open Flurry.Proto.BinK (nodeAt binAt)

/-- `b` is in a cell a lookup can end in -/
def LiveBin (s : State) (b : Nat) : Prop :=
  s.cell0 = .tree b ∨ (s.cell0 = .moved ∧ (s.lowCell = .tree b ∨ s.highCell = .tree b))

structure Eff (s s' : State) : Prop where
  inv : Inv s'
  kstep : ∀ k, KStep s s' k
  first : ∀ b, b < s.tbins.length → (binAt s'.tbins b).first ≠ (binAt s.tbins b).first → LiveBin s b ∧ LiveBin s' b
  /-- the tree content of a `TreeBin` for `k` changes only while the bin is (and stays) in the live cell of `k` -/
  tree : ∀ b k, b < s.tbins.length → absTree s' b k ≠ absTree s b k →
    cellAt s (liveId s k) = .tree b ∧ cellAt s' (liveId s' k) = .tree b
  /-- a `TreeBin` that leaves the live cell of `k` is untreeified (dead, write lock held for ever) or
  transferred (then its tree shows the abstract state) -/
  live : ∀ b k, cellAt s (liveId s k) = .tree b → cellAt s' (liveId s' k) = .tree b ∨
    (¬ InCell s' b ∧ (binAt s'.tbins b).writer = true) ∨ absTree s' b k = absOf s' k
  dead : ∀ b, b < s.tbins.length → ¬ InCell s b → ¬ PrivBin s b →
    ¬ InCell s' b ∧ ((binAt s.tbins b).writer = true → (binAt s'.tbins b).writer = true)

end Flurry.Proto.BinG
