import Flurry.Lemmas.SeqTableTransfer
import Flurry.Props.C14Arith
/-! # T4: the control routines (`initTable`, `withCapacity`, `treeifyBin`, `addCount`,
`tryPresize`) preserve well-formedness and lookups -/
namespace Flurry.Seq
open Flurry Flurry.Gen

/-! ## unfolding `WF` -/

theorem wf_none_iff {m : Map} (ht : m.table = none) : WF m ↔ m.count = 0 ∧ 0 ≤ m.sizeCtl := by
  simp only [WF, ht]

theorem wf_some_iff {m : Map} {t : Table} (ht : m.table = some t) :
    WF m ↔ TableWF m.hash t ∧ m.count = Int.ofNat (entries m).length ∧
      m.sizeCtl = loadFactor (Int.ofNat t.length) ∧
      (m.count < m.sizeCtl ∨ t.length = MAXIMUM_CAPACITY) := by
  simp only [WF, ht]

/-- everything `WF` says about a state with table `t`, except the two clauses on the count -/
structure PreWF (m : Map) (t : Table) : Prop where
  table : m.table = some t
  twf : TableWF m.hash t
  sc : m.sizeCtl = loadFactor (Int.ofNat t.length)

theorem WF.preWF {m : Map} {t : Table} (h : WF m) (ht : m.table = some t) : PreWF m t :=
  ⟨ht, ((wf_some_iff ht).1 h).1, ((wf_some_iff ht).1 h).2.2.1⟩

theorem PreWF.wf {m : Map} {t : Table} (h : PreWF m t) (hc : m.count = Int.ofNat (entries m).length)
    (hb : m.count < m.sizeCtl ∨ t.length = MAXIMUM_CAPACITY) : WF m :=
  (wf_some_iff h.table).2 ⟨h.twf, hc, h.sc, hb⟩

/-- `len` of a well-formed state is the number of entries -/
theorem WF.len_eq {m : Map} (hw : WF m) : len m = (entries m).length := by
  cases ht : m.table with
  | none =>
    rw [entries_of_table_none ht, len, ((wf_none_iff ht).1 hw).1]; rfl
  | some t =>
    have hc := ((wf_some_iff ht).1 hw).2.1
    simp only [len, hc, Int.ofNat_eq_natCast]
    split
    · omega
    · exact Int.toNat_natCast _

theorem WF.count_nonneg {m : Map} (hw : WF m) : 0 ≤ m.count := by
  cases ht : m.table with
  | none => rw [((wf_none_iff ht).1 hw).1]; exact Int.le_refl _
  | some t => rw [((wf_some_iff ht).1 hw).2.1]; exact Int.natCast_nonneg _

/-- `PreWF` does not depend on the count -/
theorem PreWF.of_eq {m m' : Map} {t : Table} (h : PreWF m t) (ht : m'.table = m.table)
    (hh : m'.hash = m.hash) (hs : m'.sizeCtl = m.sizeCtl) : PreWF m' t :=
  ⟨ht.trans h.table, hh ▸ h.twf, hs.trans h.sc⟩

/-! ## the threshold -/

theorem loadFactor_pos {n : Nat} (h : 0 < n) : 0 < loadFactor (Int.ofNat n) := by
  simp only [loadFactor, Int.ofNat_eq_natCast]; omega

theorem loadFactor_nonneg (n : Nat) : 0 ≤ loadFactor (Int.ofNat n) := by
  simp only [loadFactor, Int.ofNat_eq_natCast]; omega

theorem loadFactor_le_double (n : Nat) :
    loadFactor (Int.ofNat n) ≤ loadFactor (Int.ofNat (2 * n)) := by
  simp only [loadFactor, Int.ofNat_eq_natCast]; omega

theorem PreWF.sizeCtl_pos {m : Map} {t : Table} (h : PreWF m t) : 0 < m.sizeCtl := by
  rw [h.sc]; exact loadFactor_pos h.twf.length_pos

/-! ## `transfer` and `WF` -/

theorem transfer_preWF {m : Map} {t : Table} (h : PreWF m t) (hlt : t.length < MAXIMUM_CAPACITY) :
    PreWF (transfer m) (transferTable t) :=
  ⟨transfer_table h.table, transfer_tableWF h.twf hlt, by
    rw [transfer_sizeCtl h.table, transferTable_length]⟩

theorem transfer_count_entries {m : Map} (hc : m.count = Int.ofNat (entries m).length) :
    (transfer m).count = Int.ofNat (entries (transfer m)).length := by
  rw [transfer_count, (transfer_entries_perm m).length_eq, hc]

/-- a resize of a well-formed state below the maximum keeps it well formed -/
theorem transfer_wf {m : Map} {t : Table} (hw : WF m) (ht : m.table = some t)
    (hlt : t.length < MAXIMUM_CAPACITY) : WF (transfer m) := by
  obtain ⟨_, hc, hs, hb⟩ := (wf_some_iff ht).1 hw
  refine (transfer_preWF (hw.preWF ht) hlt).wf (transfer_count_entries hc) (Or.inl ?_)
  rw [transfer_count, transfer_sizeCtl ht]
  have := loadFactor_le_double t.length
  omega

/-! ## `initTable` -/

/-- the value of `size_ctl` before the table exists: `0`, or a requested power-of-two capacity.
`WF` only says `0 ≤ size_ctl` there, which is too weak for `initTable`/`tryPresize`
(see `initTable_wf_counterexample`). -/
def SizeCtlInit (sc : Int) : Prop := sc = 0 ∨ (IsPow2 sc.toNat ∧ sc.toNat ≤ MAXIMUM_CAPACITY)

def InitOk (m : Map) : Prop := m.table = none → SizeCtlInit m.sizeCtl

theorem InitOk.of_some {m : Map} {t : Table} (ht : m.table = some t) : InitOk m := by
  intro h; rw [ht] at h; cases h

theorem initCapacity_ok {sc : Int} (h : SizeCtlInit sc) :
    IsPow2 (initCapacity sc) ∧ initCapacity sc ≤ MAXIMUM_CAPACITY := by
  rcases h with rfl | ⟨hp, hm⟩
  · exact ⟨⟨4, by decide⟩, by decide⟩
  · have := isPow2_pos hp
    have hpos : sc > 0 := by omega
    simp only [initCapacity, hpos, decide_true, ↓reduceIte]
    exact ⟨hp, hm⟩

theorem initTable_of_cons {m : Map} {b : Bin} {t : Table} (ht : m.table = some (b :: t)) :
    initTable m = m := by
  simp only [initTable, ht]

theorem initTable_of_some {m : Map} {t : Table} (ht : m.table = some t) (hpos : 0 < t.length) :
    initTable m = m := by
  cases t with
  | nil => simp at hpos
  | cons b t => exact initTable_of_cons ht

/-- if the table already exists, `initTable` is the identity -/
theorem initTable_of_wf_some {m : Map} {t : Table} (hw : WF m) (ht : m.table = some t) :
    initTable m = m :=
  initTable_of_some ht ((wf_some_iff ht).1 hw).1.length_pos

theorem initTable_of_none {m : Map} (ht : m.table = none) :
    initTable m = { m with table := some (emptyTable (initCapacity m.sizeCtl)),
                           sizeCtl := initThreshold (initCapacity m.sizeCtl) } := by
  simp only [initTable, ht]

theorem initTable_hash (m : Map) : (initTable m).hash = m.hash := by
  unfold initTable; split <;> rfl

theorem initTable_count (m : Map) : (initTable m).count = m.count := by
  unfold initTable; split <;> rfl

theorem initTable_resizes (m : Map) : (initTable m).resizes = m.resizes := by
  unfold initTable; split <;> rfl

theorem initTable_table_isSome (m : Map) : (initTable m).table.isSome = true := by
  unfold initTable; split
  next h => simp [h]
  next => rfl

theorem initTable_tableLen_le (m : Map) : tableLen m ≤ tableLen (initTable m) := by
  unfold initTable; split
  next => exact Nat.le_refl _
  next h =>
    have : tableLen m = 0 := by
      unfold tableLen
      cases ht : m.table with
      | none => rfl
      | some t =>
        cases t with
        | nil => rfl
        | cons b t => exact absurd ht (h b t)
    omega

theorem get_emptyTable {m : Map} {n : Nat} (ht : m.table = some (emptyTable n)) (k : Nat) :
    get k m = none := by
  simp only [get, ht, tableBin_emptyTable, Bin.find]
  split <;> rfl

theorem entries_emptyTable {m : Map} {n : Nat} (ht : m.table = some (emptyTable n)) :
    entries m = [] := by
  rw [entries_eq ht, flatMap_nodes_emptyTable]

/-- lookups and entries are unaffected (no hypothesis needed) -/
theorem initTable_same (m : Map) : Same m (initTable m) := by
  unfold initTable; split
  next => exact Same.refl m
  next h =>
    have hg : ∀ k, get k m = none := by
      intro k
      cases ht : m.table with
      | none => exact get_of_table_none ht k
      | some t =>
        cases t with
        | nil => simp [get, ht]
        | cons b t => exact absurd ht (h b t)
    have he : entries m = [] := by
      cases ht : m.table with
      | none => exact entries_of_table_none ht
      | some t =>
        cases t with
        | nil => simp [entries, ht]
        | cons b t => exact absurd ht (h b t)
    refine ⟨rfl, fun k => ?_, ?_⟩
    · rw [hg k]; exact get_emptyTable rfl k
    · rw [he, entries_emptyTable rfl]

theorem initTable_wf {m : Map} (hw : WF m) (hi : InitOk m) : WF (initTable m) := by
  cases ht : m.table with
  | some t => rw [initTable_of_wf_some hw ht]; exact hw
  | none =>
    obtain ⟨hc, _⟩ := (wf_none_iff ht).1 hw
    obtain ⟨hp, hm⟩ := initCapacity_ok (hi ht)
    rw [initTable_of_none ht]
    refine (wf_some_iff rfl).2 ⟨tableWF_emptyTable _ hp hm, ?_, ?_, Or.inl ?_⟩
    · rw [entries_emptyTable rfl]; exact hc
    · simp only [emptyTable_length, initThreshold]
    · show m.count < initThreshold _
      rw [hc]; exact loadFactor_pos (isPow2_pos hp)

/-- `WF` alone does not make `initTable` well formed: `size_ctl = 5` before the table exists. -/
theorem initTable_wf_counterexample :
    let m : Map := { hash := id, sizeCtl := 5 }
    WF m ∧ ¬ WF (initTable m) := by
  refine ⟨by simp [WF], ?_⟩
  intro h
  have h1 := ((wf_some_iff (t := emptyTable 5) rfl).1 h).1.1
  rw [emptyTable_length] at h1
  obtain ⟨k, hk⟩ := h1
  match k with
  | 0 => omega
  | 1 => omega
  | 2 => omega
  | k + 3 =>
    have : 2 ^ (k + 3) = 8 * 2 ^ k := by rw [Nat.pow_add]; omega
    omega

/-! ## `withCapacity` -/

theorem withCapacity_wf (hash : Nat → Nat) (c : Nat) : WF (withCapacity hash c) := by
  unfold withCapacity
  split
  · simp [WF]
  · obtain ⟨k, hk, hle⟩ := presizeCap_pow2 c
    have hp : IsPow2 (presizeCap c) := ⟨k, hk⟩
    refine (wf_some_iff rfl).2 ⟨tableWF_emptyTable _ hp (C14.table_size_le_max c), ?_, ?_, Or.inl ?_⟩
    · rw [entries_emptyTable rfl]; rfl
    · simp only [emptyTable_length, presizeThreshold]
    · exact loadFactor_pos (isPow2_pos hp)

theorem withCapacity_initOk (hash : Nat → Nat) (c : Nat) : InitOk (withCapacity hash c) := by
  unfold withCapacity
  split
  · intro _; exact Or.inl rfl
  · exact InitOk.of_some rfl

theorem withCapacity_entries (hash : Nat → Nat) (c : Nat) : entries (withCapacity hash c) = [] := by
  unfold withCapacity
  split
  · rfl
  · exact entries_emptyTable rfl

theorem withCapacity_get (hash : Nat → Nat) (c k : Nat) : get k (withCapacity hash c) = none := by
  unfold withCapacity
  split
  · rfl
  · exact get_emptyTable rfl k

theorem withCapacity_hash (hash : Nat → Nat) (c : Nat) : (withCapacity hash c).hash = hash := by
  unfold withCapacity; split <;> rfl

theorem withCapacity_count (hash : Nat → Nat) (c : Nat) : (withCapacity hash c).count = 0 := by
  unfold withCapacity; split <;> rfl

theorem withCapacity_tableLen (hash : Nat → Nat) (c : Nat) :
    tableLen (withCapacity hash c) = if c = 0 then 0 else presizeCap c := by
  unfold withCapacity
  by_cases h : c = 0
  · simp [h, tableLen]
  · simp [h, tableLen, emptyTable_length]

/-- the fresh map (`HashMap::new`) -/
theorem new_wf (hash : Nat → Nat) : WF { hash := hash } ∧ InitOk { hash := hash } :=
  ⟨by simp [WF], fun _ => Or.inl rfl⟩

end Flurry.Seq
