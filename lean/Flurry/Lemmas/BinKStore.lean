import Flurry.Lemmas.BinKInvQ
/-! # Proto/BinK: the stores, at the level of states (C01, a bin that changes its kind)

Each store of the model — a value cell (`sval_store`), a tree flag (`sflag_store`), the prepend of a
tree-bin insertion and the CAS into the empty cell (`sprepend_store`), the append of a list-bin
insertion (`sappend_store`), the unlink of a removal (`sunlink_store`), the private copy made by a
treeify (`sgrow_store`), and the switch of the bin cell to a copy (`sconvert_store`) — preserves the
heap invariant `HInv`, is a `HeapStep` for the list walkers, and changes the live chain and the
abstract state as stated. -/
namespace Flurry.Proto.BinK
open Flurry.Lin

theorem liveStart_congr {s s' : State} (hcell : s'.cell = s.cell)
    (hfirst : ∀ b, s.cell = .tree b → (binAt s'.tbins b).first = (binAt s.tbins b).first) :
    liveStart s' = liveStart s := by
  unfold liveStart
  rw [hcell]
  cases hc : s.cell with
  | empty => rfl
  | list h => rfl
  | tree b => exact hfirst b hc

theorem liveOwner_congr {s s' : State} (hcell : s'.cell = s.cell) : liveOwner s' = liveOwner s := by
  unfold liveOwner; rw [hcell]

theorem liveTree_of {s s' : State} (hcell : s'.cell = s.cell) {j : Nat} (hlen : j < s'.heap.length → j < s.heap.length)
    (hin : (nodeAt s'.heap j).inTree = true → (nodeAt s.heap j).inTree = true)
    (ho : (nodeAt s'.heap j).owner = (nodeAt s.heap j).owner) (h : liveTree s' j) : liveTree s j := by
  obtain ⟨h1, h2, b, h3, h4⟩ := h
  exact ⟨hlen h1, hin h2, b, by rw [← hcell]; exact h3, by rw [← ho]; exact h4⟩

/-- one value cell of a live node is stored -/
theorem sval_store {s s' : State} (H : HInv s) {i : Nat} {v : Nat × Nat} (hi : i ∈ liveChain s)
    (hh : s'.heap = s.heap.modify i (fun n => { n with val := v })) (htb : s'.tbins = s.tbins)
    (hcell : s'.cell = s.cell) (hP : ∀ j, j < s.heap.length → Priv s' j → Priv s j) :
    HInv s' ∧ HeapStep s.heap (liveChain s) (Priv s) s'.heap (liveChain s') (Priv s') ∧
      liveChain s' = liveChain s ∧
      (∀ j, nodeAt s'.heap j = if j = i then { nodeAt s.heap j with val := v } else nodeAt s.heap j) ∧
      ∀ k, absOf s' k = if (nodeAt s.heap i).key = k then some v else absOf s k := by
  have hst : liveStart s' = liveStart s := liveStart_congr hcell (fun b _ => by rw [htb])
  have hi' : i ∈ chainOf s.heap (liveStart s) := by rw [← liveChain_eq]; exact hi
  have hnode0 : ∀ j, nodeAt s'.heap j = if j = i then { nodeAt s.heap j with val := v } else nodeAt s.heap j := by
    intro j
    rw [hh]
    by_cases hji : j = i
    · subst hji; rw [if_pos rfl]; exact nodeAt_modify_self _ (H.cinv.chain_lt hi')
    · rw [if_neg hji]; exact nodeAt_modify_ne _ (fun e => hji e.symm)
  have hfield : ∀ j, (nodeAt s'.heap j).inTree = (nodeAt s.heap j).inTree ∧
      (nodeAt s'.heap j).owner = (nodeAt s.heap j).owner := by
    intro j; rw [hnode0]; split <;> exact ⟨rfl, rfl⟩
  have hlen : s'.heap.length = s.heap.length := by rw [hh, List.length_modify]
  obtain ⟨C', hs, hc, hnode, habs⟩ := val_store (T' := liveTree s') (P := Priv s) (P' := Priv s') H.cinv
    (v := v) hi' (fun j hj => Or.inr (liveTree_of hcell (fun h => hlen ▸ h) (fun h => (hfield j).1 ▸ h) (hfield j).2 hj)) hP
  rw [← hh] at C' hs hc hnode habs
  have hlc : liveChain s' = liveChain s := by rw [liveChain_eq, liveChain_eq, hst, hc]
  refine ⟨⟨by rw [hst]; exact C', ?_, ?_, ?_, ?_⟩, ?_, hlc, hnode0, ?_⟩
  · intro j b hj; rw [(hfield j).2] at hj; rw [htb]; exact H.ownerOK j b hj
  · intro b h hf; rw [htb] at hf; rw [hlen]; exact H.firstOK b h hf
  · intro b hb; rw [hcell] at hb; rw [htb]; exact H.cellOK b hb
  · intro j hj
    rw [hlc] at hj
    rw [(hfield j).2, liveOwner_congr hcell]; exact H.chainOwner j hj
  · rw [hlc, liveChain_eq s]; exact hs
  · intro k
    rw [absOf_eq, absOf_eq, liveChain_eq s', liveChain_eq s, hst]
    exact habs k

/-- the tree flag of one node is stored: set for a live node, cleared for a node off the chain -/
theorem sflag_store {s s' : State} (H : HInv s) {i : Nat} {x : Bool}
    (hh : s'.heap = s.heap.modify i (fun n => { n with inTree := x })) (htb : s'.tbins = s.tbins)
    (hcell : s'.cell = s.cell) (hx : x = true → i ∈ liveChain s)
    (hP : ∀ j, j < s.heap.length → Priv s' j → Priv s j) :
    HInv s' ∧ HeapStep s.heap (liveChain s) (Priv s) s'.heap (liveChain s') (Priv s') ∧
      liveChain s' = liveChain s ∧ s'.heap.length = s.heap.length ∧
      (∀ j, nodeAt s'.heap j = if j = i ∧ j < s.heap.length then { nodeAt s.heap j with inTree := x } else nodeAt s.heap j) ∧
      ∀ k, absOf s' k = absOf s k := by
  have hst : liveStart s' = liveStart s := liveStart_congr hcell (fun b _ => by rw [htb])
  have hnode0 : ∀ j, nodeAt s'.heap j =
      if j = i ∧ j < s.heap.length then { nodeAt s.heap j with inTree := x } else nodeAt s.heap j := by
    intro j
    rw [hh, nodeAt_modify]
    by_cases hji : j = i ∧ j < s.heap.length
    · rw [if_pos hji, if_pos ⟨hji.1.symm, hji.2⟩]
    · rw [if_neg hji, if_neg (fun e => hji ⟨e.1.symm, e.2⟩)]
  have hfield : ∀ j, (nodeAt s'.heap j).key = (nodeAt s.heap j).key ∧ (nodeAt s'.heap j).val = (nodeAt s.heap j).val ∧
      (nodeAt s'.heap j).owner = (nodeAt s.heap j).owner := by
    intro j; rw [hnode0]; split <;> exact ⟨rfl, rfl, rfl⟩
  have hlen : s'.heap.length = s.heap.length := by rw [hh, List.length_modify]
  have hT : ∀ j, liveTree s' j → j ∈ chainOf s.heap (liveStart s) ∨ liveTree s j := by
    intro j hj
    by_cases hji : j = i
    · subst hji
      by_cases hxt : x = true
      · exact Or.inl (by rw [← liveChain_eq]; exact hx hxt)
      · exfalso
        obtain ⟨h1, h2, -⟩ := hj
        rw [hnode0, if_pos ⟨rfl, hlen ▸ h1⟩] at h2
        exact hxt h2
    · right
      have : nodeAt s'.heap j = nodeAt s.heap j := by rw [hnode0, if_neg (fun e => hji e.1)]
      exact liveTree_of hcell (fun h => hlen ▸ h) (fun h => this ▸ h) (by rw [this]) hj
  have hv : (nodeAt (s.heap.modify i (fun n => { n with inTree := x })) i).val ≠ (nodeAt s.heap i).val →
      i ∈ chainOf s.heap (liveStart s) := by
    intro hne
    exfalso; apply hne
    rw [nodeAt_modify]; split <;> rfl
  obtain ⟨C', hs, hc, hkey, _, hother⟩ := modify_summary (T' := liveTree s') (P := Priv s) (P' := Priv s') H.cinv
    (i := i) (f := fun n => { n with inTree := x }) (fun n => ⟨rfl, rfl⟩) hT hv hP
  rw [← hh] at C' hs hc hkey hother
  have hlc : liveChain s' = liveChain s := by rw [liveChain_eq, liveChain_eq, hst, hc]
  refine ⟨⟨by rw [hst]; exact C', ?_, ?_, ?_, ?_⟩, ?_, hlc, hlen, hnode0, ?_⟩
  · intro j b hj; rw [(hfield j).2.2] at hj; rw [htb]; exact H.ownerOK j b hj
  · intro b h hf; rw [htb] at hf; rw [hlen]; exact H.firstOK b h hf
  · intro b hb; rw [hcell] at hb; rw [htb]; exact H.cellOK b hb
  · intro j hj
    rw [hlc] at hj
    rw [(hfield j).2.2, liveOwner_congr hcell]; exact H.chainOwner j hj
  · rw [hlc, liveChain_eq s]; exact hs
  · intro k
    rw [absOf_eq, absOf_eq, hlc]
    exact absL_same H.distinct (by rw [← hlc]; exact (show HInv s' from ⟨by rw [hst]; exact C',
        fun j b hj => by rw [(hfield j).2.2] at hj; rw [htb]; exact H.ownerOK j b hj,
        fun b h hf => by rw [htb] at hf; rw [hlen]; exact H.firstOK b h hf,
        fun b hb => by rw [hcell] at hb; rw [htb]; exact H.cellOK b hb,
        fun j hj => by
          rw [hlc] at hj
          rw [(hfield j).2.2, liveOwner_congr hcell]; exact H.chainOwner j hj⟩).distinct)
      (fun j => Iff.rfl) (fun j _ => ⟨(hfield j).1, (hfield j).2.1⟩) k

/-- a fresh node is put in front of the live chain (tree-bin insertion; the CAS into the empty cell) -/
theorem sprepend_store {s s' : State} (H : HInv s) {new : NodeS}
    (hh : s'.heap = s.heap ++ [new]) (hst' : liveStart s' = some s.heap.length) (hnext : new.next = liveStart s)
    (hfresh : ∀ j, (j ∈ liveChain s ∨ liveTree s j) → (nodeAt s.heap j).key ≠ new.key)
    (hT : ∀ j, liveTree s' j → j < s.heap.length ∧ liveTree s j)
    (hP : ∀ j, j < s.heap.length → Priv s' j → Priv s j)
    (hO : ∀ j b, (nodeAt s'.heap j).owner = some b → b < s'.tbins.length)
    (hF : ∀ b h, (binAt s'.tbins b).first = some h → h < s'.heap.length)
    (hC : ∀ b, s'.cell = .tree b → b < s'.tbins.length)
    (hlo : liveOwner s' = liveOwner s) (hno : new.owner = liveOwner s') :
    HInv s' ∧ HeapStep s.heap (liveChain s) (Priv s) s'.heap (liveChain s') (Priv s') ∧
      liveChain s' = s.heap.length :: liveChain s ∧
      ∀ k, absOf s' k = if new.key = k then some new.val else absOf s k := by
  obtain ⟨C', hs, hc, habs⟩ := prepend_store (T' := liveTree s') (P := Priv s) (P' := Priv s') H.cinv hnext
    (by intro j hj; rw [← liveChain_eq] at hj; exact hfresh j hj) hT hP
  rw [← hh] at C' hs hc habs
  have hlc : liveChain s' = s.heap.length :: liveChain s := by rw [liveChain_eq, hst', hc, liveChain_eq s]
  refine ⟨⟨by rw [hst']; exact C', hO, hF, hC, ?_⟩, ?_, hlc, ?_⟩
  · intro j hj
    rw [hlc] at hj
    rcases List.mem_cons.1 hj with rfl | hj
    · rw [hh, nodeAt_append_new]; exact hno
    · rw [hh, nodeAt_append_left _ (H.chain_lt hj), hlo]; exact H.chainOwner j hj
  · rw [hlc, liveChain_eq s]; exact hs
  · intro k
    rw [absOf_eq, absOf_eq, liveChain_eq s', hst', liveChain_eq s]
    exact habs k

/-- a fresh node is put behind the last node of the live chain (list-bin insertion) -/
theorem sappend_store {s s' : State} (H : HInv s) {new : NodeS} {l1 : List Nat} {pr : Nat}
    (hch : liveChain s = l1 ++ [pr])
    (hh : s'.heap = (s.heap ++ [new]).modify pr (fun m => { m with next := some s.heap.length }))
    (htb : s'.tbins = s.tbins) (hcell : s'.cell = s.cell) (hnext : new.next = none)
    (hfresh : ∀ j, (j ∈ liveChain s ∨ liveTree s j) → (nodeAt s.heap j).key ≠ new.key)
    (hT : ∀ j, liveTree s' j → j < s.heap.length ∧ liveTree s j)
    (hP : ∀ j, j < s.heap.length → Priv s' j → Priv s j)
    (hno : new.owner = liveOwner s) (hnob : ∀ b, new.owner = some b → b < s.tbins.length) :
    HInv s' ∧ HeapStep s.heap (liveChain s) (Priv s) s'.heap (liveChain s') (Priv s') ∧
      liveChain s' = liveChain s ++ [s.heap.length] ∧
      ∀ k, absOf s' k = if new.key = k then some new.val else absOf s k := by
  have hst : liveStart s' = liveStart s := liveStart_congr hcell (fun b _ => by rw [htb])
  obtain ⟨C', hs, hc, habs⟩ := append_store (T' := liveTree s') (P := Priv s) (P' := Priv s') H.cinv
    (by rw [← liveChain_eq]; exact hch) hnext
    (by intro j hj; rw [← liveChain_eq] at hj; exact hfresh j hj) hT hP
  rw [← hh] at C' hs hc habs
  have hlc : liveChain s' = liveChain s ++ [s.heap.length] := by rw [liveChain_eq, hst, hc, liveChain_eq s]
  have hprc : pr ∈ liveChain s := by rw [hch]; simp
  have hprl := H.chain_lt hprc
  have hlen : s'.heap.length = s.heap.length + 1 := by rw [hh]; simp
  have hnode : ∀ j, nodeAt s'.heap j = if j = pr then { nodeAt s.heap j with next := some s.heap.length }
      else if j = s.heap.length then new else nodeAt s.heap j := by
    intro j
    rw [hh, nodeAt_modify]
    by_cases hj : j = pr
    · subst hj
      rw [if_pos ⟨rfl, by simp; omega⟩, if_pos rfl, nodeAt_append_left _ hprl]
    · rw [if_neg (fun h => hj h.1.symm), if_neg hj]
      by_cases hjl : j = s.heap.length
      · subst hjl; rw [if_pos rfl, nodeAt_append_new]
      · rw [if_neg hjl]
        by_cases hlt : j < s.heap.length
        · exact nodeAt_append_left _ hlt
        · rw [nodeAt_ge (by simp; omega), nodeAt_ge (by omega)]
  refine ⟨⟨by rw [hst]; exact C', ?_, ?_, ?_, ?_⟩, ?_, hlc, ?_⟩
  · intro j b hj
    rw [htb]
    rw [hnode] at hj
    split at hj
    · exact H.ownerOK j b hj
    · split at hj
      · exact hnob b hj
      · exact H.ownerOK j b hj
  · intro b h hf; rw [htb] at hf; have := H.firstOK b h hf; omega
  · intro b hb; rw [hcell] at hb; rw [htb]; exact H.cellOK b hb
  · intro j hj
    rw [hlc] at hj
    rw [liveOwner_congr hcell]
    rcases List.mem_append.1 hj with hj | hj
    · have := H.chainOwner j hj
      rw [hnode]
      split
      · exact this
      · rw [if_neg (by have := H.chain_lt hj; omega)]; exact this
    · have : j = s.heap.length := by simpa using hj
      subst this
      rw [hnode, if_neg (by omega), if_pos rfl]; exact hno
  · rw [hlc, liveChain_eq s]; exact hs
  · intro k
    rw [absOf_eq, absOf_eq, liveChain_eq s', hst, liveChain_eq s]
    exact habs k

/-- the live node `i` is unlinked: either it is the first node and the start moves to its successor,
or the `next` field of its predecessor is stored -/
theorem sunlink_store {s s' : State} (H : HInv s) {i : Nat}
    (hcase : (∃ l2, liveChain s = i :: l2 ∧ s'.heap = s.heap ∧ liveStart s' = (nodeAt s.heap i).next) ∨
      (∃ l1 pr l2, liveChain s = l1 ++ pr :: i :: l2 ∧
        s'.heap = s.heap.modify pr (fun m => { m with next := (nodeAt s.heap i).next }) ∧ liveStart s' = liveStart s))
    (hT : ∀ j, liveTree s' j → liveTree s j)
    (hP : ∀ j, j < s.heap.length → Priv s' j → Priv s j)
    (hO : ∀ j b, (nodeAt s.heap j).owner = some b → b < s'.tbins.length)
    (hF : ∀ b h, (binAt s'.tbins b).first = some h → h < s.heap.length)
    (hC : ∀ b, s'.cell = .tree b → b < s'.tbins.length)
    (hlo : liveOwner s' = liveOwner s) :
    HInv s' ∧ HeapStep s.heap (liveChain s) (Priv s) s'.heap (liveChain s') (Priv s') ∧
      (∀ j, j ∈ liveChain s' ↔ j ∈ liveChain s ∧ j ≠ i) ∧ s'.heap.length = s.heap.length ∧
      (∀ j, (nodeAt s'.heap j).key = (nodeAt s.heap j).key ∧ (nodeAt s'.heap j).val = (nodeAt s.heap j).val ∧
        (nodeAt s'.heap j).inTree = (nodeAt s.heap j).inTree ∧ (nodeAt s'.heap j).owner = (nodeAt s.heap j).owner ∧
        (nodeAt s'.heap j).lock = (nodeAt s.heap j).lock) ∧
      ∀ k, absOf s' k = if (nodeAt s.heap i).key = k then none else absOf s k := by
  have key : ∃ (C' : CInv s'.heap (liveStart s') (liveTree s')),
      HeapStep s.heap (liveChain s) (Priv s) s'.heap (liveChain s') (Priv s') ∧
      (∀ j, j ∈ liveChain s' ↔ j ∈ liveChain s ∧ j ≠ i) ∧ s'.heap.length = s.heap.length ∧
      (∀ j, (nodeAt s'.heap j).key = (nodeAt s.heap j).key ∧ (nodeAt s'.heap j).val = (nodeAt s.heap j).val ∧
        (nodeAt s'.heap j).inTree = (nodeAt s.heap j).inTree ∧ (nodeAt s'.heap j).owner = (nodeAt s.heap j).owner ∧
        (nodeAt s'.heap j).lock = (nodeAt s.heap j).lock) ∧
      ∀ k, absOf s' k = if (nodeAt s.heap i).key = k then none else absOf s k := by
    have hnd := H.nodup
    rcases hcase with ⟨l2, hch, hh, hst'⟩ | ⟨l1, pr, l2, hch, hh, hst'⟩
    · obtain ⟨C', hs, hc, habs⟩ := unlink_head (T' := liveTree s') (P := Priv s) (P' := Priv s') H.cinv
        (by rw [← liveChain_eq]; exact hch) hT hP
      have e1 : liveChain s' = chainOf s.heap (nodeAt s.heap i).next := by rw [liveChain_eq, hh, hst']
      have hlc : liveChain s' = l2 := by rw [e1]; exact hc
      refine ⟨by rw [hh, hst']; exact C', by rw [e1, hh, liveChain_eq s]; exact hs, ?_, by rw [hh], ?_, ?_⟩
      · intro j
        rw [hlc, hch]
        rw [hch] at hnd
        simp only [List.mem_cons]
        constructor
        · intro hj
          exact ⟨Or.inr hj, fun e => (List.nodup_cons.1 hnd).1 (e ▸ hj)⟩
        · rintro ⟨hj | hj, hne⟩
          · exact absurd hj hne
          · exact hj
      · intro j; rw [hh]; exact ⟨rfl, rfl, rfl, rfl, rfl⟩
      · intro k
        rw [absOf_eq, absOf_eq, e1, hh, liveChain_eq s]
        exact habs k
    · obtain ⟨C', hs, hc, hf, habs⟩ := unlink_mid (T' := liveTree s') (P := Priv s) (P' := Priv s') H.cinv
        (by rw [← liveChain_eq]; exact hch) hT hP
      have e1 : liveChain s' = chainOf (s.heap.modify pr (fun m => { m with next := (nodeAt s.heap i).next }))
          (liveStart s) := by rw [liveChain_eq, hh, hst']
      have hlc : liveChain s' = l1 ++ pr :: l2 := by rw [e1]; exact hc
      refine ⟨by rw [hh, hst']; exact C', by rw [e1, hh, liveChain_eq s]; exact hs, ?_,
        by rw [hh, List.length_modify], by rw [hh]; exact hf, ?_⟩
      · intro j
        rw [hlc, hch]
        rw [hch] at hnd
        have h5 := List.nodup_append.1 hnd
        have hpri : pr ≠ i := by
          intro he; subst he
          have := h5.2.1
          simp at this
        simp only [List.mem_append, List.mem_cons]
        constructor
        · intro hj
          refine ⟨by rcases hj with hj | hj | hj <;> simp [hj], ?_⟩
          rintro rfl
          rcases hj with hj | hj | hj
          · exact h5.2.2 j hj j (by simp) rfl
          · exact hpri hj.symm
          · have := (List.nodup_cons.1 (List.nodup_cons.1 h5.2.1).2).1
            exact this hj
        · rintro ⟨hj | hj | hj | hj, hne⟩
          · exact Or.inl hj
          · exact Or.inr (Or.inl hj)
          · exact absurd hj hne
          · exact Or.inr (Or.inr hj)
      · intro k
        rw [absOf_eq, absOf_eq, e1, hh, liveChain_eq s]
        exact habs k
  obtain ⟨C', hs, hmem, hlen, hf, habs⟩ := key
  refine ⟨⟨C', ?_, ?_, hC, ?_⟩, hs, hmem, hlen, hf, habs⟩
  · intro j b hj; rw [(hf j).2.2.2.1] at hj; exact hO j b hj
  · intro b h hh; rw [hlen]; exact hF b h hh
  · intro j hj
    rw [(hf j).2.2.2.1, hlo]
    exact H.chainOwner j ((hmem j).1 hj).1

/-- the bin cell is switched to a copy of the live chain (treeify, untreeify) -/
theorem sconvert_store {s s' : State} (H : HInv s) {L' : List Nat}
    (hok' : NextOK s'.heap) (hlen : s.heap.length ≤ s'.heap.length)
    (hold : ∀ j, j < s.heap.length → nodeAt s'.heap j = nodeAt s.heap j)
    (hch' : IsChain s'.heap (liveStart s') L') (hLlen : L'.length = (liveChain s).length)
    (hkv : ∀ j, j < (liveChain s).length →
      (nodeAt s'.heap (L'.getD j 0)).key = (nodeAt s.heap ((liveChain s).getD j 0)).key ∧
      (nodeAt s'.heap (L'.getD j 0)).val = (nodeAt s.heap ((liveChain s).getD j 0)).val)
    (hnew : ∀ j ∈ L', j ∉ liveChain s ∧ (s.heap.length ≤ j ∨ Priv s j))
    (hT : ∀ j, liveTree s' j → j ∈ L') (hP : ∀ j, j < s.heap.length → Priv s' j → Priv s j)
    (hO : ∀ j b, (nodeAt s'.heap j).owner = some b → b < s'.tbins.length)
    (hF : ∀ b h, (binAt s'.tbins b).first = some h → h < s'.heap.length)
    (hC : ∀ b, s'.cell = .tree b → b < s'.tbins.length)
    (hown : ∀ j ∈ L', (nodeAt s'.heap j).owner = liveOwner s') :
    HInv s' ∧ HeapStep s.heap (liveChain s) (Priv s) s'.heap (liveChain s') (Priv s') ∧
      liveChain s' = L' ∧ ∀ k, absOf s' k = absOf s k := by
  obtain ⟨C', hs, hc, habs⟩ := convert_store (T' := liveTree s') (P := Priv s) (P' := Priv s') H.cinv hok' hlen hold hch'
    (by rw [← liveChain_eq]; exact hLlen) (by rw [← liveChain_eq]; exact hkv)
    (by rw [← liveChain_eq]; exact hnew) hT hP
  have hlc : liveChain s' = L' := by rw [liveChain_eq]; exact hc
  refine ⟨⟨C', hO, hF, hC, ?_⟩, ?_, hlc, ?_⟩
  · intro j hj; rw [hlc] at hj; exact hown j hj
  · rw [hlc, liveChain_eq s]; exact hs
  · intro k
    rw [absOf_eq, absOf_eq, hlc, liveChain_eq s]
    exact habs k

/-- nodes are allocated at the end of the heap and a `TreeBin` at the end of the table, both private -/
theorem sgrow_store {s s' : State} (H : HInv s) {ext : List NodeS}
    (hh : s'.heap = s.heap ++ ext) (hok' : NextOK (s.heap ++ ext)) (hcell : s'.cell = s.cell)
    (hfirst : ∀ b, s.cell = .tree b → (binAt s'.tbins b).first = (binAt s.tbins b).first)
    (hT : ∀ j, liveTree s' j → j < s.heap.length ∧ liveTree s j)
    (hP : ∀ j, j < s.heap.length → Priv s' j → Priv s j)
    (hO : ∀ j b, (nodeAt s'.heap j).owner = some b → b < s'.tbins.length)
    (hF : ∀ b h, (binAt s'.tbins b).first = some h → h < s'.heap.length)
    (hC : ∀ b, s'.cell = .tree b → b < s'.tbins.length) :
    HInv s' ∧ HeapStep s.heap (liveChain s) (Priv s) s'.heap (liveChain s') (Priv s') ∧
      liveChain s' = liveChain s ∧ ∀ k, absOf s' k = absOf s k := by
  have hst : liveStart s' = liveStart s := liveStart_congr hcell hfirst
  obtain ⟨C', hs, hc, habs⟩ := grow_store (T' := liveTree s') (P := Priv s) (P' := Priv s') H.cinv hok' hT hP
  rw [← hh] at C' hs hc habs
  have hlc : liveChain s' = liveChain s := by rw [liveChain_eq, liveChain_eq, hst, hc]
  refine ⟨⟨by rw [hst]; exact C', hO, hF, hC, ?_⟩, ?_, hlc, ?_⟩
  · intro j hj
    rw [hlc] at hj
    rw [hh, nodeAt_append_left _ (H.chain_lt hj), liveOwner_congr hcell]
    exact H.chainOwner j hj
  · rw [hlc, liveChain_eq s]; exact hs
  · intro k
    rw [absOf_eq, absOf_eq, liveChain_eq s', hst, liveChain_eq s]
    exact habs k

end Flurry.Proto.BinK
