import Flurry.Lemmas.BinUInvStep
import Flurry.Lemmas.LinTrace
/-! # Proto/BinU: ghost history and the hindsight invariant of the list walkers (C01/C07, tree bins)

For a fixed key `k` the ghost state is `A : Nat → KSt` (`A τ` = abstract state `absOf` of `k` — the
node with key `k` on the **list** — after global step `τ`) and `pt : Nat → Nat` (`pt i` =
linearization point of the call invoked at `i`).

* `callsOnExt`: the completed calls plus the calls of writers that are past their linearization
  point (`resOfPc`): the point of a value store is `wVal`, of an insert `wPrependLocked` (the store
  to `first`), of a removal `wUnlinkLocked` (the list unlink), of a writer that changes nothing `wFind`.
* `Good A k inv s cur`: the hindsight justification of a thread walking the *list* — a
  lock-protocol reader taking linear steps or a list reader (iterator); it does not mention the
  lock words: a list reader may stand on any node at any time.
* `ValWit`: the value cell a `get` is about to load held the abstract value at some time of the call.
* `GInv`: the ghost invariant; `GInv.frame`: the generic part of its preservation. -/
namespace Flurry.Proto.BinU
open Flurry.Lin

theorem isReader_eq_isRead (op : KOp) : isReader op = isRead op := by cases op <;> rfl

/-! ## the extended history -/

/-- the result of a writer that is past its linearization point -/
def resOfPc : Pc → Option KRes
  | .wUnlockM res => some res
  | .lrTry .rebalance res => some res
  | .lrLoop .rebalance res => some res
  | .wTreeLinkLocked _ => some .none
  | .wRestructure _ res => some res
  | .wUnlockRoot res => some res
  | _ => none

/-- the call of a writer that is past its linearization point, counted as responding at `now` -/
def extOf (k now t : Nat) (l : Local) : Option Call :=
  match resOfPc l.pc, l.call with
  | some res, some p => if p.key = k then some ⟨t, p.op, res, p.inv, now⟩ else none
  | _, _ => none

def extCalls (s : State) (k : Nat) : History :=
  (List.range s.threads.length).filterMap (fun t => (s.threads[t]?).bind (extOf k s.now t))

/-- the completed calls on key `k`, plus the calls of writers past their linearization point -/
def callsOnExt (s : State) (k : Nat) : History := callsOn s k ++ extCalls s k

theorem extOf_eq_some {k now t : Nat} {l : Local} {c : Call} :
    extOf k now t l = some c ↔ ∃ res p, resOfPc l.pc = some res ∧ l.call = some p ∧ p.key = k ∧
      c = ⟨t, p.op, res, p.inv, now⟩ := by
  obtain ⟨pc, call⟩ := l
  unfold extOf
  constructor
  · intro h
    split at h
    · rename_i res p hpc hcall
      simp only at hpc hcall
      split at h
      · cases h
        exact ⟨res, p, hpc, hcall, by assumption, rfl⟩
      · cases h
    · cases h
  · rintro ⟨res, p, hpc, hcall, hk, rfl⟩
    simp only at hpc hcall
    rw [hpc, hcall]
    simp [hk]

theorem extOf_none_of_pc {k now t : Nat} {l : Local} (h : resOfPc l.pc = none) :
    extOf k now t l = none := by
  cases he : extOf k now t l with
  | none => rfl
  | some c =>
    obtain ⟨res, p, hpc, -⟩ := extOf_eq_some.1 he
    rw [h] at hpc; cases hpc

theorem extOf_none_of_key {k now t : Nat} {l : Local} {p : Pending} (hp : l.call = some p) (hk : p.key ≠ k) :
    extOf k now t l = none := by
  cases he : extOf k now t l with
  | none => rfl
  | some c =>
    obtain ⟨res, p', -, hcall, hk', -⟩ := extOf_eq_some.1 he
    rw [hp] at hcall; cases hcall
    exact absurd hk' hk

theorem mem_callsOn {s : State} {k : Nat} {c : Call} : c ∈ callsOn s k ↔ (k, c) ∈ s.hist := by
  unfold callsOn
  simp only [List.mem_map, List.mem_reverse, List.mem_filter, beq_iff_eq]
  constructor
  · rintro ⟨⟨k', c'⟩, ⟨hm, hk⟩, hc⟩
    simp only at hk hc
    subst hk hc
    exact hm
  · intro h
    exact ⟨(k, c), ⟨h, rfl⟩, rfl⟩

theorem mem_extCalls {s : State} {k : Nat} {c : Call} :
    c ∈ extCalls s k ↔ ∃ t l, s.threads[t]? = some l ∧ extOf k s.now t l = some c := by
  unfold extCalls
  simp only [List.mem_filterMap, List.mem_range, Option.bind_eq_some_iff]
  constructor
  · rintro ⟨t, _, l, hl, he⟩; exact ⟨t, l, hl, he⟩
  · rintro ⟨t, l, hl, he⟩
    exact ⟨t, (List.getElem?_eq_some_iff.1 hl).1, l, hl, he⟩

theorem mem_callsOnExt {s : State} {k : Nat} {c : Call} :
    c ∈ callsOnExt s k ↔ (k, c) ∈ s.hist ∨ ∃ t l, s.threads[t]? = some l ∧ extOf k s.now t l = some c := by
  unfold callsOnExt
  rw [List.mem_append, mem_callsOn, mem_extCalls]

theorem callsOnExt_quiescent {s : State} (hq : quiescent s) (k : Nat) : callsOnExt s k = callsOn s k := by
  have : extCalls s k = [] := by
    rw [List.eq_nil_iff_forall_not_mem]
    intro c hc
    obtain ⟨t, l, hl, he⟩ := mem_extCalls.1 hc
    obtain ⟨res, p, hpc, -⟩ := extOf_eq_some.1 he
    rw [hq l (List.mem_of_getElem? hl)] at hpc
    cases hpc
  rw [callsOnExt, this, List.append_nil]

/-- `c'` is the call `c`, possibly with a later response -/
def Sim (c c' : Call) : Prop :=
  c'.tid = c.tid ∧ c'.op = c.op ∧ c'.res = c.res ∧ c'.inv = c.inv ∧ c.resp ≤ c'.resp

theorem Sim.refl (c : Call) : Sim c c := ⟨rfl, rfl, rfl, rfl, Nat.le_refl _⟩

theorem extOf_bump {k now now' t : Nat} {l : Local} {c' : Call} (hle : now ≤ now')
    (h : extOf k now' t l = some c') : ∃ c, extOf k now t l = some c ∧ Sim c c' := by
  obtain ⟨res, p, hpc, hcall, hk, rfl⟩ := extOf_eq_some.1 h
  exact ⟨⟨t, p.op, res, p.inv, now⟩, extOf_eq_some.2 ⟨res, p, hpc, hcall, hk, rfl⟩,
    rfl, rfl, rfl, rfl, hle⟩

theorem extOf_bump' {k now now' t : Nat} {l : Local} {c : Call} (hle : now ≤ now')
    (h : extOf k now t l = some c) : ∃ c', extOf k now' t l = some c' ∧ Sim c c' := by
  obtain ⟨res, p, hpc, hcall, hk, rfl⟩ := extOf_eq_some.1 h
  exact ⟨⟨t, p.op, res, p.inv, now'⟩, extOf_eq_some.2 ⟨res, p, hpc, hcall, hk, rfl⟩,
    rfl, rfl, rfl, rfl, hle⟩

/-- where the calls of the successor state come from -/
theorem ext_backward {s s' : State} {t : Nat} {l' : Local} {hnew : List (Nat × Call)} {k : Nat}
    (hthr : s'.threads = s.threads.set t l') (hnow : s'.now = s.now + 1)
    (hhist : s'.hist = hnew ++ s.hist) :
    ∀ c' ∈ callsOnExt s' k, (∃ c ∈ callsOnExt s k, Sim c c') ∨ (k, c') ∈ hnew ∨
      extOf k (s.now + 1) t l' = some c' := by
  intro c' hc'
  rcases mem_callsOnExt.1 hc' with hc' | ⟨t1, l1, hl1, he1⟩
  · rw [hhist] at hc'
    rcases List.mem_append.1 hc' with hc' | hc'
    · exact Or.inr (Or.inl hc')
    · exact Or.inl ⟨c', mem_callsOnExt.2 (Or.inl hc'), Sim.refl _⟩
  · rw [hthr] at hl1
    rw [hnow] at he1
    rcases get_set hl1 with ⟨rfl, rfl⟩ | ⟨_, hl1⟩
    · exact Or.inr (Or.inr he1)
    · obtain ⟨c, hc, hsim⟩ := extOf_bump (Nat.le_succ s.now) he1
      exact Or.inl ⟨c, mem_callsOnExt.2 (Or.inr ⟨t1, l1, hl1, hc⟩), hsim⟩

/-- where the calls of the predecessor state go -/
theorem ext_forward {s s' : State} {t : Nat} {l l' : Local} {hnew : List (Nat × Call)} {k : Nat}
    (hl : s.threads[t]? = some l)
    (hthr : s'.threads = s.threads.set t l') (hnow : s'.now = s.now + 1)
    (hhist : s'.hist = hnew ++ s.hist) :
    ∀ c ∈ callsOnExt s k, (∃ c' ∈ callsOnExt s' k, Sim c c') ∨ extOf k s.now t l = some c := by
  intro c hc
  rcases mem_callsOnExt.1 hc with hc | ⟨t1, l1, hl1, he1⟩
  · refine Or.inl ⟨c, mem_callsOnExt.2 (Or.inl ?_), Sim.refl _⟩
    rw [hhist]; exact List.mem_append_right _ hc
  · by_cases ht : t1 = t
    · subst ht
      rw [hl] at hl1; cases hl1
      exact Or.inr he1
    · obtain ⟨c', hc', hsim⟩ := extOf_bump' (Nat.le_succ s.now) he1
      refine Or.inl ⟨c', mem_callsOnExt.2 (Or.inr ⟨t1, l1, ?_, ?_⟩), hsim⟩
      · rw [hthr, get_set_ne ht]; exact hl1
      · rw [hnow]; exact hc'

theorem callsOnExt_resp_le {s : State} (T : TInv s) {k : Nat} {c : Call} (hc : c ∈ callsOnExt s k) :
    c.resp ≤ s.now := by
  rcases mem_callsOnExt.1 hc with hc | ⟨t1, l1, _, he1⟩
  · exact (T.histTime _ hc).2
  · obtain ⟨res, p, -, -, -, rfl⟩ := extOf_eq_some.1 he1
    exact Nat.le_refl _

/-- the pending call of a thread that is not counted in the extended history is different from
every call of the extended history -/
theorem inv_ne_of_mem_callsOnExt {s : State} (T : TInv s) {t : Nat} {l : Local} {p : Pending} {k : Nat}
    (hl : s.threads[t]? = some l) (hp : l.call = some p) (hnone : extOf k s.now t l = none)
    {c : Call} (hc : c ∈ callsOnExt s k) : c.inv ≠ p.inv := by
  rcases mem_callsOnExt.1 hc with hc | ⟨t1, l1, hl1, he1⟩
  · exact T.uniqHP _ hc t l p hl hp
  · obtain ⟨res, p1, hpc1, hcall1, -, rfl⟩ := extOf_eq_some.1 he1
    intro he
    have := T.uniqPP t1 t l1 l p1 p hl1 hl hcall1 hp he
    subst this
    rw [hl] at hl1; cases hl1
    rw [hnone] at he1; cases he1

theorem callsOnExt_pairwise {s : State} (T : TInv s) (k : Nat) :
    (callsOnExt s k).Pairwise (fun c d => c.inv ≠ d.inv) := by
  unfold callsOnExt
  refine List.pairwise_append.2 ⟨?_, ?_, ?_⟩
  · unfold callsOn
    rw [List.pairwise_map, List.pairwise_reverse]
    refine (T.uniqHH.filter _).imp ?_
    intro a b hab; exact fun h => hab h.symm
  · unfold extCalls
    refine List.Pairwise.filterMap _ ?_ (List.pairwise_lt_range)
    intro t1 t2 hlt c1 hc1 c2 hc2
    obtain ⟨l1, hl1, he1⟩ := Option.bind_eq_some_iff.1 hc1
    obtain ⟨l2, hl2, he2⟩ := Option.bind_eq_some_iff.1 hc2
    obtain ⟨_, p1, _, hcall1, _, rfl⟩ := extOf_eq_some.1 he1
    obtain ⟨_, p2, _, hcall2, _, rfl⟩ := extOf_eq_some.1 he2
    intro he
    have := T.uniqPP t1 t2 l1 l2 p1 p2 hl1 hl2 hcall1 hcall2 he
    omega
  · intro c hc d hd
    obtain ⟨t1, l1, hl1, he1⟩ := mem_extCalls.1 hd
    obtain ⟨_, p1, _, hcall1, _, rfl⟩ := extOf_eq_some.1 he1
    exact T.uniqHP _ (mem_callsOn.1 hc) t1 l1 p1 hl1 hcall1


/-! ## the hindsight justification of a reader walking the list -/

/-- the key was absent at some time of the call -/
def AbsWit (A : Nat → KSt) (inv : Nat) (s : State) : Prop := ∃ τ, inv ≤ τ ∧ τ ≤ s.now ∧ A τ = none

/-- a reader standing on the list node `c`: either no node in front of `c` has key `k` (then "now" is a
good time), or the key was absent at some time of the call and no node from `c` on has key `k` -/
def OnCond (A : Nat → KSt) (k inv : Nat) (s : State) (c : Nat) : Prop :=
  (∀ i ∈ chain s, c < i → (nodeAt s.heap i).key ≠ k) ∨
  (AbsWit A inv s ∧ ∀ i ∈ chain s, i ≤ c → (nodeAt s.heap i).key ≠ k)

inductive Good (A : Nat → KSt) (k inv : Nat) (s : State) : Option Nat → Prop
  | absent : AbsWit A inv s → Good A k inv s none
  | on {c : Nat} : c ∈ chain s → OnCond A k inv s c → Good A k inv s (some c)
  | off {c : Nat} : c ∉ chain s → c < s.heap.length →
      ((nodeAt s.heap c).key ≠ k → Good A k inv s (nodeAt s.heap c).next) →
      ((nodeAt s.heap c).key = k → ∃ τ, inv ≤ τ ∧ τ ≤ s.now ∧ A τ = some (nodeAt s.heap c).val) →
      Good A k inv s (some c)

theorem AbsWit.step {A A' : Nat → KSt} {inv : Nat} {s s' : State} (h : AbsWit A inv s)
    (hnow : s'.now = s.now + 1) (hA' : ∀ τ, τ ≤ s.now → A' τ = A τ) : AbsWit A' inv s' := by
  obtain ⟨τ, h1, h2, h3⟩ := h
  exact ⟨τ, h1, by omega, by rw [hA' _ h2]; exact h3⟩

/-- all list nodes have another key: the key is absent now -/
theorem absWit_now {A : Nat → KSt} {k inv : Nat} {s : State} (hA : A s.now = absOf s k) (hinv : inv ≤ s.now)
    (h : ∀ i ∈ chain s, (nodeAt s.heap i).key ≠ k) : AbsWit A inv s := by
  refine ⟨s.now, hinv, Nat.le_refl _, ?_⟩
  rw [hA, absOf_eq_none_iff]
  exact h

theorem onCond_succ_none {A : Nat → KSt} {k inv : Nat} {s : State} (H : HInv s) (hA : A s.now = absOf s k)
    (hinv : inv ≤ s.now) {c : Nat} (hc : c ∈ chain s) (hcond : OnCond A k inv s c)
    (hk : (nodeAt s.heap c).key ≠ k) (hnx : (nodeAt s.heap c).next = none) : AbsWit A inv s := by
  rcases hcond with h1 | ⟨hw, _⟩
  · have hn := getElem?_nodeAt (chain_lt H hc)
    have hle := (chain_isChain H).succ_none H.nextOK hc hn hnx
    refine absWit_now hA hinv ?_
    intro i hi
    rcases Nat.lt_or_ge c i with hlt | hge
    · exact h1 i hi hlt
    · have : i = c := Nat.le_antisymm hge (hle i hi)
      rw [this]; exact hk
  · exact hw

theorem onCond_succ_some {A : Nat → KSt} {k inv : Nat} {s : State} (H : HInv s)
    {c b : Nat} (hc : c ∈ chain s) (hcond : OnCond A k inv s c)
    (hk : (nodeAt s.heap c).key ≠ k) (hnx : (nodeAt s.heap c).next = some b) :
    b ∈ chain s ∧ OnCond A k inv s b := by
  have hn := getElem?_nodeAt (chain_lt H hc)
  obtain ⟨hb, hle⟩ := (chain_isChain H).succ_some H.nextOK hc hn hnx
  have hbc := H.nextOK c _ b hn hnx
  refine ⟨hb, ?_⟩
  rcases hcond with h1 | ⟨hw, h2⟩
  · left
    intro i hi hbi
    have := hle i hi hbi
    rcases Nat.lt_or_ge c i with hlt | hge
    · exact h1 i hi hlt
    · have : i = c := Nat.le_antisymm hge this
      rw [this]; exact hk
  · right
    exact ⟨hw, fun i hi hib => h2 i hi (by omega)⟩

/-- the pointer loaded from `first` -/
theorem Good.first {A : Nat → KSt} {k inv : Nat} {s : State} (H : HInv s) (hA : A s.now = absOf s k)
    (hinv : inv ≤ s.now) : Good A k inv s s.first := by
  cases hh : s.first with
  | none =>
    refine .absent (absWit_now hA hinv ?_)
    rw [chain_first_none H hh]
    intro i hi; cases hi
  | some h =>
    obtain ⟨l, hl⟩ := chain_first_some H hh
    refine .on (by rw [hl]; simp) (Or.inl ?_)
    intro i hi hih
    have hs := chain_sorted H
    rw [hl] at hs hi
    rcases List.mem_cons.1 hi with rfl | hi
    · omega
    · have := (List.pairwise_cons.1 hs).1 i hi
      omega

/-- the pointer loaded from the `next` cell of a node with another key -/
theorem Good.next {A : Nat → KSt} {k inv : Nat} {s : State} (H : HInv s) (hA : A s.now = absOf s k)
    (hinv : inv ≤ s.now) {c : Nat} (hg : Good A k inv s (some c)) (hk : (nodeAt s.heap c).key ≠ k) :
    Good A k inv s (nodeAt s.heap c).next := by
  cases hg with
  | on hc hcond =>
    cases hnx : (nodeAt s.heap c).next with
    | none => exact .absent (onCond_succ_none H hA hinv hc hcond hk hnx)
    | some b =>
      obtain ⟨hb, hcb⟩ := onCond_succ_some H hc hcond hk hnx
      exact .on hb hcb
  | off _ _ hnext _ => exact hnext hk

/-- a list walker that finds key `k` in node `c` -/
theorem Good.hit {A : Nat → KSt} {k inv : Nat} {s : State} (H : HInv s) (hA : A s.now = absOf s k)
    (hinv : inv ≤ s.now) {c : Nat} (hg : Good A k inv s (some c)) (hk : (nodeAt s.heap c).key = k) :
    ∃ τ, inv ≤ τ ∧ τ ≤ s.now ∧ A τ = some (nodeAt s.heap c).val := by
  cases hg with
  | on hc hcond =>
    rcases hcond with _ | ⟨_, h2⟩
    · exact ⟨s.now, hinv, Nat.le_refl _, by rw [hA]; exact (absOf_eq_some_iff H).2 ⟨c, hc, hk, rfl⟩⟩
    · exact absurd hk (h2 c hc (Nat.le_refl _))
  | off _ _ _ hval => exact hval hk

theorem Good.miss {A : Nat → KSt} {k inv : Nat} {s : State} (hg : Good A k inv s none) : AbsWit A inv s := by
  cases hg with
  | absent h => exact h

/-- a reader on the list stays justified as long as its node stays on the list -/
theorem onCond_step {A A' : Nat → KSt} {k inv : Nat} {s s' : State} {c : Nat}
    (hc : c ∈ chain s) (hcond : OnCond A k inv s c) (H : HInv s) (hs : HeapStep s s')
    (hnow : s'.now = s.now + 1) (hA' : ∀ τ, τ ≤ s.now → A' τ = A τ) (hA : A s.now = absOf s k)
    (hinv : inv ≤ s.now) : OnCond A' k inv s' c := by
  have hcl := chain_lt H hc
  have hold : ∀ i ∈ chain s', i ≤ c → i ∈ chain s := by
    intro i hi hic
    rcases hs.noRelink i hi with h | h
    · exact h
    · omega
  by_cases hfr : ∃ x ∈ chain s', s.heap.length ≤ x ∧ (nodeAt s'.heap x).key = k
  · obtain ⟨x, hx, hxl, hxk⟩ := hfr
    have hall : ∀ i ∈ chain s, (nodeAt s.heap i).key ≠ k := by
      intro i hi; rw [← hxk]; exact hs.fresh x hx hxl i hi
    right
    refine ⟨(absWit_now hA hinv hall).step hnow hA', ?_⟩
    intro i hi hic
    have hi0 := hold i hi hic
    rw [hs.key i (chain_lt H hi0)]; exact hall i hi0
  · rcases hcond with h1 | ⟨hw, h2⟩
    · left
      intro i hi hci
      rcases hs.noRelink i hi with hi0 | hil
      · rw [hs.key i (chain_lt H hi0)]; exact h1 i hi0 hci
      · intro hik; exact hfr ⟨i, hi, hil, hik⟩
    · right
      refine ⟨hw.step hnow hA', ?_⟩
      intro i hi hic
      have hi0 := hold i hi hic
      rw [hs.key i (chain_lt H hi0)]; exact h2 i hi0 hic

/-- **hindsight**: the justification of a list-walking reader survives every transition -/
theorem Good.step {A A' : Nat → KSt} {k inv : Nat} {s s' : State} {cur : Option Nat}
    (hg : Good A k inv s cur) (H : HInv s) (hs : HeapStep s s')
    (hnow : s'.now = s.now + 1) (hA' : ∀ τ, τ ≤ s.now → A' τ = A τ) (hA : A s.now = absOf s k)
    (hinv : inv ≤ s.now) : Good A' k inv s' cur := by
  induction hg with
  | absent h => exact .absent (h.step hnow hA')
  | @on c hc hcond =>
    have hcl := chain_lt H hc
    by_cases hc' : c ∈ chain s'
    · exact .on hc' (onCond_step hc hcond H hs hnow hA' hA hinv)
    · obtain ⟨hval, hnext, hrest⟩ := hs.unl c hc hc'
      have hkey := hs.key c hcl
      refine .off hc' (by have := hs.len; omega) ?_ ?_
      · intro hk
        rw [hkey] at hk
        rw [hnext]
        cases hnx : (nodeAt s.heap c).next with
        | none => exact .absent ((onCond_succ_none H hA hinv hc hcond hk hnx).step hnow hA')
        | some b =>
          obtain ⟨hb, hcb⟩ := onCond_succ_some H hc hcond hk hnx
          have hbc : b ≠ c := by
            have := H.nextOK c _ b (getElem?_nodeAt hcl) hnx
            omega
          exact .on (hrest b hb hbc) (onCond_step hb hcb H hs hnow hA' hA hinv)
      · intro hk
        rw [hkey] at hk
        rcases hcond with _ | ⟨_, h2⟩
        · refine ⟨s.now, hinv, by omega, ?_⟩
          rw [hA' _ (Nat.le_refl _), hA, hval]
          exact (absOf_eq_some_iff H).2 ⟨c, hc, hk, rfl⟩
        · exact absurd hk (h2 c hc (Nat.le_refl _))
  | @off c hc hcl _ hval ih =>
    have hc' : c ∉ chain s' := by
      intro hm
      rcases hs.noRelink c hm with h0 | h0
      · exact hc h0
      · omega
    obtain ⟨hv, hn⟩ := hs.off c hcl hc
    have hkey := hs.key c hcl
    refine .off hc' (by have := hs.len; omega) ?_ ?_
    · intro hk
      rw [hkey] at hk
      rw [hn]
      exact ih hk
    · intro hk
      rw [hkey] at hk
      obtain ⟨τ, h1, h2, h3⟩ := hval hk
      exact ⟨τ, h1, by omega, by rw [hA' _ h2, hv]; exact h3⟩

/-! ## the value cell a `get` is about to load -/

/-- node `i` has key `k`, and its current value was the abstract value at some time of the call -/
def ValWit (A : Nat → KSt) (k inv : Nat) (s : State) (i : Nat) : Prop :=
  (nodeAt s.heap i).key = k ∧ i < s.heap.length ∧
    ∃ τ, inv ≤ τ ∧ τ ≤ s.now ∧ A τ = some (nodeAt s.heap i).val

theorem ValWit.step {A A' : Nat → KSt} {k inv : Nat} {s s' : State} {i : Nat}
    (h : ValWit A k inv s i) (H' : HInv s') (hs : HeapStep s s')
    (hnow : s'.now = s.now + 1) (hA' : ∀ τ, τ ≤ s.now → A' τ = A τ) (hA'n : A' s'.now = absOf s' k)
    (hinv : inv ≤ s.now) : ValWit A' k inv s' i := by
  obtain ⟨hk, hil, τ, h1, h2, h3⟩ := h
  have hkey := hs.key i hil
  refine ⟨by rw [hkey]; exact hk, by have := hs.len; omega, ?_⟩
  by_cases hv : (nodeAt s'.heap i).val = (nodeAt s.heap i).val
  · exact ⟨τ, h1, by omega, by rw [hA' _ h2, hv]; exact h3⟩
  · have hc := hs.valchg i hil hv
    refine ⟨s'.now, by omega, Nat.le_refl _, ?_⟩
    rw [hA'n]
    exact (absOf_eq_some_iff H').2 ⟨i, hc, by rw [hkey]; exact hk, rfl⟩

/-! ## what the program counter of a reader knows -/

def RdOK (A : Nat → KSt) (k inv : Nat) (s : State) : Pc → Prop
  | .rState cur => Good A k inv s cur
  | .rLin c => Good A k inv s (some c)
  | .rCas c _ => Good A k inv s (some c)
  | .rRelease none => AbsWit A inv s
  | .rRelease (some i) => ValWit A k inv s i
  | .rVal i => ValWit A k inv s i
  | .lNode cur => Good A k inv s cur
  | _ => True

theorem RdOK.step {A A' : Nat → KSt} {k inv : Nat} {s s' : State} {pc : Pc}
    (h : RdOK A k inv s pc) (H : HInv s) (H' : HInv s') (hs : HeapStep s s')
    (hnow : s'.now = s.now + 1) (hA' : ∀ τ, τ ≤ s.now → A' τ = A τ) (hA : A s.now = absOf s k)
    (hA'n : A' s'.now = absOf s' k) (hinv : inv ≤ s.now) : RdOK A' k inv s' pc := by
  cases pc <;> simp only [RdOK] at h ⊢
  case rState cur => exact h.step H hs hnow hA' hA hinv
  case rLin c => exact h.step H hs hnow hA' hA hinv
  case rCas c r => exact h.step H hs hnow hA' hA hinv
  case rRelease hit =>
    cases hit with
    | none => exact AbsWit.step h hnow hA'
    | some i => exact ValWit.step h H' hs hnow hA' hA'n hinv
  case rVal i => exact h.step H' hs hnow hA' hA'n hinv
  case lNode cur => exact h.step H hs hnow hA' hA hinv

/-! ## the ghost invariant -/

/-- the call has a linearization point in its interval at which the trace `A` justifies it -/
def CallOK (A : Nat → KSt) (pt : Nat → Nat) (c : Call) : Prop :=
  c.inv ≤ pt c.inv ∧ pt c.inv ≤ c.resp ∧
  (isRead c.op = true → specStep (A (pt c.inv)) c.op = (A (pt c.inv), c.res)) ∧
  (isRead c.op = false → 1 ≤ pt c.inv ∧ specStep (A (pt c.inv - 1)) c.op = (A (pt c.inv), c.res))

theorem CallOK.sim {A A' : Nat → KSt} {pt pt' : Nat → Nat} {c c' : Call} {T : Nat}
    (h : CallOK A pt c) (hs : Sim c c') (hresp : c.resp ≤ T) (hA' : ∀ τ, τ ≤ T → A' τ = A τ)
    (hpt' : pt' c.inv = pt c.inv) : CallOK A' pt' c' := by
  obtain ⟨h1, h2, h3, h4⟩ := h
  obtain ⟨_, s2, s3, s4, s5⟩ := hs
  unfold CallOK
  rw [s4, s2, s3, hpt', hA' _ (by omega : pt c.inv ≤ T), hA' _ (by omega : pt c.inv - 1 ≤ T)]
  exact ⟨h1, by omega, h3, h4⟩

structure GInv (k : Nat) (s : State) (A : Nat → KSt) (pt : Nat → Nat) : Prop where
  h0 : A 0 = none
  hA : A s.now = absOf s k
  calls : ∀ c ∈ callsOnExt s k, CallOK A pt c
  stab : ∀ τ, 1 ≤ τ → τ ≤ s.now → A τ ≠ A (τ - 1) →
    ∃ c ∈ callsOnExt s k, isRead c.op = false ∧ pt c.inv = τ
  inj : ∀ c ∈ callsOnExt s k, ∀ d ∈ callsOnExt s k, isRead c.op = false → isRead d.op = false →
    pt c.inv = pt d.inv → c.inv = d.inv
  readers : ∀ (t : Nat) (l : Local) (p : Pending), s.threads[t]? = some l →
    l.call = some p → p.key = k → RdOK A k p.inv s l.pc

/-- the trace extended by the abstract state after the step -/
def nextA (A : Nat → KSt) (now : Nat) (x : KSt) : Nat → KSt := fun τ => if τ = now + 1 then x else A τ

theorem nextA_old {A : Nat → KSt} {now : Nat} {x : KSt} {τ : Nat} (h : τ ≤ now) : nextA A now x τ = A τ := by
  unfold nextA; rw [if_neg (by omega)]

theorem nextA_new {A : Nat → KSt} {now : Nat} {x : KSt} : nextA A now x (now + 1) = x := by
  unfold nextA; rw [if_pos rfl]

/-- the generic part of the preservation of `GInv` -/
theorem GInv.frame {k : Nat} {s s' : State} {A : Nat → KSt} {pt pt' : Nat → Nat} {i0 : Nat}
    (g : GInv k s A pt) (T : TInv s) (hnow : s'.now = s.now + 1)
    (hpt' : ∀ c ∈ callsOnExt s k, pt' c.inv = pt c.inv)
    (hF : ∀ c ∈ callsOnExt s k, ∃ c' ∈ callsOnExt s' k, Sim c c')
    (hB : ∀ c' ∈ callsOnExt s' k, (∃ c ∈ callsOnExt s k, Sim c c') ∨
      (c'.inv = i0 ∧ CallOK (nextA A s.now (absOf s' k)) pt' c' ∧ (isRead c'.op = false → pt' c'.inv = s.now + 1)))
    (hchg : absOf s' k ≠ absOf s k → ∃ c' ∈ callsOnExt s' k, isRead c'.op = false ∧ pt' c'.inv = s.now + 1)
    (hreaders : ∀ (t : Nat) (l : Local) (p : Pending), s'.threads[t]? = some l →
      l.call = some p → p.key = k → RdOK (nextA A s.now (absOf s' k)) k p.inv s' l.pc) :
    GInv k s' (nextA A s.now (absOf s' k)) pt' := by
  have hold : ∀ τ, τ ≤ s.now → nextA A s.now (absOf s' k) τ = A τ := fun τ h => nextA_old h
  refine ⟨?_, ?_, ?_, ?_, ?_, hreaders⟩
  · rw [hold 0 (Nat.zero_le _)]; exact g.h0
  · rw [hnow, nextA_new]
  · intro c' hc'
    rcases hB c' hc' with ⟨c, hc, hsim⟩ | ⟨-, hok, -⟩
    · exact (g.calls c hc).sim hsim (callsOnExt_resp_le T hc) hold (hpt' c hc)
    · exact hok
  · intro τ h1 h2 hne
    rw [hnow] at h2
    rcases Nat.lt_or_ge τ (s.now + 1) with hlt | hge
    · rw [hold τ (by omega), hold (τ - 1) (by omega)] at hne
      obtain ⟨c, hc, hw, hp⟩ := g.stab τ h1 (by omega) hne
      obtain ⟨c', hc', hsim⟩ := hF c hc
      refine ⟨c', hc', by rw [hsim.2.1]; exact hw, ?_⟩
      rw [hsim.2.2.2.1, hpt' c hc]; exact hp
    · have hτ : τ = s.now + 1 := by omega
      subst hτ
      rw [nextA_new, Nat.add_sub_cancel, hold s.now (Nat.le_refl _), g.hA] at hne
      exact hchg hne
  · intro c' hc' d' hd' hwc hwd hpe
    rcases hB c' hc' with ⟨c, hc, hsc⟩ | ⟨hci, -, hcp⟩ <;> rcases hB d' hd' with ⟨d, hd, hsd⟩ | ⟨hdi, -, hdp⟩
    · rw [hsc.2.2.2.1, hsd.2.2.2.1]
      rw [hsc.2.2.2.1, hsd.2.2.2.1, hpt' c hc, hpt' d hd] at hpe
      exact g.inj c hc d hd (by rw [← hsc.2.1]; exact hwc) (by rw [← hsd.2.1]; exact hwd) hpe
    · exfalso
      have h1 := (g.calls c hc).2.1
      have h2 := callsOnExt_resp_le T hc
      rw [hsc.2.2.2.1, hpt' c hc, hdp hwd] at hpe
      omega
    · exfalso
      have h1 := (g.calls d hd).2.1
      have h2 := callsOnExt_resp_le T hd
      rw [hsd.2.2.2.1, hpt' d hd, hcp hwc] at hpe
      omega
    · rw [hci, hdi]


end Flurry.Proto.BinU
