import Flurry.Lemmas.BinGNPInvQ
/-! # Proto/BinGN (port of `Lemmas/BinGInvQB.lean`): the quiet path — transitions that change the synchronisation words of one `TreeBin`

What differs from BinG: `quiet_b` / `eff_b` take `htabs : s'.tabs = s.tabs`, `hcur` instead of the three cell
equations and `hres`; `eff_b` and the `eff_*` lemmas take `XShape s'` (`XInv s'` is `XShape.xinv` + `plan`); the pcs of
the resizing thread carry the cell index; `xUnlockT` leads to `xNext`.

`eff_b` (the generic part: heap, cells
and lock words untouched, one `TreeBin` modified but for its `first` field), `rw_readers`, and
`eff_bmove`, `eff_bfin`, `eff_kbmove`: every such transition establishes `Eff s s'` and leaves every
abstract state alone. -/
namespace Flurry.Proto.BinGNP
open Flurry.Lin
open Flurry.Proto.BinK (nodeAt binAt lockSet isInsert HeapEqv get_set get_set_self get_set_ne binAt_modify
  binAt_modify_self binAt_modify_ne)

theorem binAt_modify_first (tbins : List TBin) (b : Nat) {f : TBin → TBin} (hf : ∀ x, (f x).first = x.first)
    (c : Nat) : (binAt (tbins.modify b f) c).first = (binAt tbins c).first := by
  rw [binAt_modify]
  split
  · exact hf _
  · rfl

theorem quiet_b {s s' : State} {b0 : Nat} {f : TBin → TBin} (hheap : s'.heap = s.heap) (htabs : s'.tabs = s.tabs)
    (hcur : s'.cur = s.cur) (htb : s'.tbins = s.tbins.modify b0 f)
    (hf : ∀ x, (f x).first = x.first) : Quiet s s' :=
  ⟨htabs, hcur, by rw [hheap]; exact HeapEqv.refl _, by rw [htb, List.length_modify],
    fun b => by rw [htb]; exact binAt_modify_first _ _ hf b⟩

/-- the generic part: heap, cells and lock words untouched, one `TreeBin` modified (not its `first`) -/
theorem eff_b {s s' : State} {t : Nat} {l l' : Local} {b0 : Nat} {f : TBin → TBin} (I : Inv s)
    (hl : s.threads[t]? = some l) (hheap : s'.heap = s.heap) (htabs : s'.tabs = s.tabs) (hcur : s'.cur = s.cur)
    (htb : s'.tbins = s.tbins.modify b0 f) (hf : ∀ x, (f x).first = x.first) (XS' : XShape s')
    (hthr : s'.threads = s.threads.set t l') (T' : TInv s')
    (href : binRef l.pc = some b0)
    (e1 : holdsLock l'.pc = holdsLock l.pc) (e2 : validL l'.pc = none)
    (M' : MxPart s') (R' : RwPart s') (X : XFacts s l.pc l'.pc)
    (hnew : ∀ p, l'.call = some p → PcInv s p l'.pc)
    (hdead : ¬ InCell s b0 → (binAt s.tbins b0).writer = true → (f (binAt s.tbins b0)).writer = true) :
    Eff s s' ∧ ∀ k, absOf s' k = absOf s k := by
  have L := I.lock
  have H := I.heap
  have q : Quiet s s' := quiet_b hheap htabs hcur htb hf
  obtain ⟨hb0, hnp⟩ := L.refOK t l b0 hl href
  have hbin : ∀ b, PrivBin s b → binAt s'.tbins b = binAt s.tbins b := by
    intro b hb
    rw [htb, binAt_modify_ne]
    intro e; subst e; exact hnp hb
  have L' : LInv s' := by
    refine LInv.of_parts (lk_step L hl hthr hcur (lockfun_same L hl e1 (fun h => by rw [hheap]))
      (fun h hp => Or.inl (e1 ▸ hp)) (fun h hv => by rw [e2] at hv; cases hv) (fun id => Or.inl (q.cellAt_eq id))) M' R'
  have X' : XInv s' := xinv_of_facts (l := l) I q.toC hcur hthr XS' X hbin
  have D' : DInv s' := dinv_q I hl q hthr X.src (not_kStore_of_pend X.pend.2) hnew hbin
  refine eff_of_quiet H ⟨q.hinv H hcur (reusing_of_set_pc hthr hl (not_store_of_pend X.pend.1)), T', X', L', D'⟩ q
    (liveCell_congr htabs hcur)
    (q.used_of_nil H hthr X.pend.2) ?_
  intro b hnc hw
  by_cases hb : b = b0
  · subst hb
    rw [htb, binAt_modify_self _ hb0]
    exact hdead hnc hw
  · rw [htb, binAt_modify_ne _ (fun e => hb e.symm)]
    exact hw

/-- the read-write lock part for a change of the reader count of `b0` by thread `t` -/
theorem rw_readers {s s' : State} {t : Nat} {l l' : Local} {b0 : Nat} {f : TBin → TBin} (L : LInv s)
    (hl : s.threads[t]? = some l) (hthr : s'.threads = s.threads.set t l')
    (hcell : ∀ id, cellAt s' id = cellAt s id) (htb : s'.tbins = s.tbins.modify b0 f) (hb0 : b0 < s.tbins.length)
    (hf : ∀ x, (f x).mutex = x.mutex ∧ (f x).writer = x.writer ∧ (f x).waiter = x.waiter)
    (hrd0 : (f (binAt s.tbins b0)).readers + (if holdsRead l.pc = some b0 then 1 else 0) =
      (binAt s.tbins b0).readers + (if holdsRead l'.pc = some b0 then 1 else 0))
    (hother : ∀ b, b ≠ b0 → (holdsRead l.pc = some b ↔ holdsRead l'.pc = some b))
    (hw : (binAt s.tbins b0).writer = true → (f (binAt s.tbins b0)).readers = 0)
    (e3 : holdsMutex l.pc = none)
    (e8 : ∀ b, binRef l'.pc = some b → binRef l.pc = some b ∨ (b < s.tbins.length ∧ ¬ PrivBin s b))
    (hpriv : ∀ b, b < s.tbins.length → PrivBin s' b → PrivBin s b) : RwPart s' := by
  have hlen : s'.tbins.length = s.tbins.length := by rw [htb, List.length_modify]
  refine rw_gen L hl hthr (fun id b hc => Or.inl ⟨id, by rw [hcell] at hc; exact hc⟩) (by omega) ?_ ?_
    (fun b h1 h2 => by omega) ?_ ?_ e8 hpriv
  · intro b
    rw [htb, binAt_modify]
    split
    · exact hf _
    · exact ⟨rfl, rfl, rfl⟩
  · intro b _
    by_cases hb : b = b0
    · subst hb
      rw [htb, binAt_modify_self _ hb0]
      exact hrd0
    · rw [htb, binAt_modify_ne _ (fun e => hb e.symm)]
      by_cases h1 : holdsRead l.pc = some b
      · rw [if_pos h1, if_pos ((hother b hb).1 h1)]
      · rw [if_neg h1, if_neg (fun h2 => h1 ((hother b hb).2 h2))]
  · intro b hwb
    by_cases hb : b = b0
    · subst hb
      rw [htb, binAt_modify_self _ hb0]
      exact hw hwb
    · rw [htb, binAt_modify_ne _ (fun e => hb e.symm)]
      exact L.wrd b hwb
  · intro b hb
    rw [e3] at hb; cases hb

/-! ## facts about the program counters -/

set_option linter.unusedSimpArgs false in
theorem BMove.xfacts {s : State} {t : Nat} {p : Pending} {pc pc' : Pc} {tb : List TBin}
    (hm : BMove s t p pc pc' tb) : XFacts s pc pc' := by
  cases hm
  case lrTryOk tab b k res h1 h2 h3 =>
    cases k <;> refine ⟨⟨?_, ?_⟩, ⟨?_, ?_, ?_⟩⟩ <;> simp_all [pend, afterLock]
  case lrLoopOk tab b k res h1 h3 =>
    cases k <;> refine ⟨⟨?_, ?_⟩, ⟨?_, ?_, ?_⟩⟩ <;> simp_all [pend, afterLock]
  all_goals
    refine ⟨⟨?_, ?_⟩, ⟨?_, ?_, ?_⟩⟩ <;> simp_all [pend]

set_option linter.unusedSimpArgs false in
theorem BFin.xfacts {s : State} {p : Pending} {pc : Pc} {res : KRes} {tb : List TBin}
    (hf : BFin s p pc res tb) : XFacts s pc .idle := by
  cases hf
  all_goals
    refine ⟨⟨?_, ?_⟩, ⟨?_, ?_, ?_⟩⟩ <;> simp_all [pend]

set_option linter.unusedSimpArgs false in
theorem KBMove.xfacts {s : State} {t : Nat} {pc pc' : Pc} {tb : List TBin}
    (hk : KBMove s t pc pc' tb) : XFacts s pc pc' := by
  cases hk
  all_goals
    refine ⟨⟨?_, ?_⟩, ⟨?_, ?_, ?_⟩⟩ <;> simp_all [pend]

theorem cellAt_setT_qst (s : State) (hp : List NodeS) (tb : List TBin) (t : Nat) (l : Local) (id : Cid) :
    cellAt (setT (qst s hp tb) t l) id = cellAt s id := by
  rfl

theorem cellAt_finish_qst (s : State) (hp : List NodeS) (tb : List TBin) (t : Nat) (p : Pending) (res : KRes)
    (id : Cid) : cellAt (finish (qst s hp tb) t p res) id = cellAt s id := by
  rfl

/-! ## `BMove` -/

theorem eff_bmove {s : State} {t : Nat} {l : Local} {p : Pending} {pc' : Pc} {tb : List TBin} (I : Inv s)
    (hl : s.threads[t]? = some l) (hp : l.call = some p) (hm : BMove s t p l.pc pc' tb) :
    let s' := setT (qst s s.heap tb) t { l with pc := pc' }
    XShape s' → Eff s s' ∧ ∀ k, absOf s' k = absOf s k := by
  intro s' XS'
  have L := I.lock
  have H := I.heap
  have hno := noCall_false_of_call I.thr hl hp
  have hni := I.thr.opOK t l p hl hp hno
  have hP := I.data.pcInv t l p hl hp
  have hX := hm.xfacts
  obtain ⟨pc, call⟩ := l
  simp only at hm hp hni hP hX hno
  subst hp
  have T' : ∀ pc'', readerPc pc'' = readerPc pc → noCallPc pc'' = false →
      TInv (setT (qst s s.heap tb) t { pc := pc'', call := some p }) := by
    intro pc'' h1 h2
    refine tinv_keep (l' := { pc := pc'', call := some p }) I.thr hl rfl rfl rfl rfl ?_ ?_
    · show some p = none ↔ noCallPc pc'' = true
      rw [h2]; simp
    · intro p1 hp1 _
      cases hp1
      show isReader p.op = readerPc pc''
      rw [h1]; exact hni
  have hvo : ∀ (l0 : Local) (id : Cid), cellAt s' id = cellAt s id ∨ (validated l0.pc = true ∧ cidOf s l0 = id) ∨
      cellAt s id = .empty := fun _ id => Or.inl (cellAt_setT_qst _ _ _ _ _ id)
  cases hm with
  | @rCasOk b c r h1 h2 h3 =>
    have hb0 := (L.refOK t _ b hl rfl).1
    have q : Quiet s s' := quiet_b (b0 := b) (f := fun x => { x with readers := x.readers + 1 }) rfl rfl rfl rfl
      (fun x => rfl)
    refine eff_b (l' := { pc := .rTree b, call := some p }) (b0 := b)
      (f := fun x => { x with readers := x.readers + 1 }) I hl rfl rfl rfl rfl (fun x => rfl) XS' rfl
      (T' _ rfl rfl) rfl rfl rfl ?_ ?_ hX (by intro p1 _; simp only [PcInv]) (fun _ hw => hw)
    · exact mx_step (l' := { pc := .rTree b, call := some p }) L hl rfl rfl
        (mutexfun_same L hl rfl (fun b' => by
          show (binAt (s.tbins.modify b _) b').mutex = _
          rw [binAt_modify]; split <;> rfl))
        (fun b' hb' => by simp [holdsMutex] at hb') (fun b' hb' => by simp [validT] at hb') (hvo _)
    · refine rw_readers (l' := { pc := .rTree b, call := some p }) (b0 := b) L hl rfl
        (cellAt_setT_qst _ _ _ _ _) rfl hb0 (fun x => ⟨rfl, rfl, rfl⟩) ?_ ?_ ?_ rfl ?_
        (fun b' _ h => q.privBin_of rfl rfl h)
      · simp [holdsRead]
      · intro b' hb'
        simp [holdsRead]
        exact fun e => hb' e.symm
      · intro hw; rw [h1] at hw; cases hw
      · intro b' hb'; left; simpa [binRef] using hb'
  | @rRelVal b i hop =>
    have hb0 := (L.refOK t _ b hl rfl).1
    have hpos := L.reader_pos (b := b) hl rfl
    have q : Quiet s s' := quiet_b (b0 := b) (f := fun x => { x with readers := x.readers - 1 }) rfl rfl rfl rfl
      (fun x => rfl)
    refine eff_b (l' := { pc := .rVal i, call := some p }) (b0 := b)
      (f := fun x => { x with readers := x.readers - 1 }) I hl rfl rfl rfl rfl (fun x => rfl) XS' rfl
      (T' _ rfl rfl) rfl rfl rfl ?_ ?_ hX (by intro p1 hp1; cases hp1; simp only [PcInv]; exact hop) (fun _ hw => hw)
    · exact mx_step (l' := { pc := .rVal i, call := some p }) L hl rfl rfl
        (mutexfun_same L hl rfl (fun b' => by
          show (binAt (s.tbins.modify b _) b').mutex = _
          rw [binAt_modify]; split <;> rfl))
        (fun b' hb' => by simp [holdsMutex] at hb') (fun b' hb' => by simp [validT] at hb') (hvo _)
    · refine rw_readers (l' := { pc := .rVal i, call := some p }) (b0 := b) L hl rfl
        (cellAt_setT_qst _ _ _ _ _) rfl hb0 (fun x => ⟨rfl, rfl, rfl⟩) ?_ ?_ ?_ rfl ?_
        (fun b' _ h => q.privBin_of rfl rfl h)
      · simp [holdsRead]; omega
      · intro b' hb'
        simp [holdsRead]
        exact fun e => hb' e.symm
      · intro hw; have := L.wrd b hw; simp only; omega
      · intro b' hb'; simp [binRef] at hb'
  | @tMutex tab b hmx =>
    have hb0 := (L.refOK t _ b hl rfl).1
    have q : Quiet s s' := quiet_b (b0 := b) (f := fun x => { x with mutex := some t }) rfl rfl rfl rfl
      (fun x => rfl)
    have hmf : MutexFun s s' t (.tMutex tab b) (.tCheck tab b) :=
      mutexfun_acq (l := ⟨.tMutex tab b, some p⟩) rfl rfl hb0 rfl
    have hself : binAt (s.tbins.modify b (fun x => { x with mutex := some t })) b =
        { binAt s.tbins b with mutex := some t } := binAt_modify_self _ hb0
    refine eff_b (l' := { pc := .tCheck tab b, call := some p }) (b0 := b)
      (f := fun x => { x with mutex := some t }) I hl rfl rfl rfl rfl (fun x => rfl) XS' rfl
      (T' _ rfl rfl) rfl rfl rfl ?_ ?_ hX (by intro p1 _; simp only [PcInv]) (fun _ hw => hw)
    · exact mx_step (l' := { pc := .tCheck tab b, call := some p }) L hl rfl rfl hmf
        (fun b' hb' => by simp [holdsMutex] at hb'; subst hb'; exact Or.inr hmx)
        (fun b' hb' => by simp [validT] at hb') (hvo _)
    · refine rw_bin (l' := { pc := .tCheck tab b, call := some p }) (b0 := b)
        (tb := s.tbins.modify b (fun x => { x with mutex := some t })) L hl rfl (cellAt_setT_qst _ _ _ _ _) rfl
        (by rw [List.length_modify]) (fun b' hb' => binAt_modify_ne _ (fun e => hb' e.symm)) (by rw [hself])
        (Or.inl rfl) hmf ?_ ?_ ?_ ?_ rfl ?_ (fun b' _ h => q.privBin_of rfl rfl h)
      · rintro ⟨id, hc⟩ _
        rw [hself]
        obtain ⟨e1, e2⟩ := L.bitsNone id b hc hmx
        exact ⟨e1, fun hw => by rw [e2] at hw; cases hw⟩
      · intro _ hm'
        rw [hself] at hm'; cases hm'
      · intro x hx hm'
        rw [hself] at hm'
        exact absurd (Option.some.inj hm').symm hx
      · intro hw
        rw [hself] at hw
        exact L.wrd b hw
      · intro b' hb'; left; simpa [binRef] using hb'
  | @lrTryOk tab b k res h1 h2 h3 =>
    have hb0 := (L.refOK t _ b hl rfl).1
    have hmt := (L.mx t _ b hl).1 rfl
    have q : Quiet s s' := quiet_b (b0 := b) (f := fun x => { x with writer := true }) rfl rfl rfl rfl
      (fun x => rfl)
    have hself : binAt (s.tbins.modify b (fun x => { x with writer := true })) b =
        { binAt s.tbins b with writer := true } := binAt_modify_self _ hb0
    have hmf : MutexFun s s' t (.lrTry tab b k res) (afterLock tab b k res) :=
      mutexfun_same (l := ⟨.lrTry tab b k res, some p⟩) L hl (afterLock_holdsMutex tab b k res)
        (fun b' => by
          show (binAt (s.tbins.modify b _) b').mutex = _
          rw [binAt_modify]; split <;> rfl)
    refine eff_b (l' := { pc := afterLock tab b k res, call := some p }) (b0 := b)
      (f := fun x => { x with writer := true }) I hl rfl rfl rfl rfl (fun x => rfl) XS' rfl
      (T' _ (afterLock_readerPc tab b k res) (afterLock_noCallPc tab b k res)) rfl
      (afterLock_holdsLock tab b k res) (afterLock_validL tab b k res) ?_ ?_ hX ?_ (fun _ _ => rfl)
    · exact mx_step (l' := { pc := afterLock tab b k res, call := some p }) L hl rfl rfl hmf
        (fun b' hb' => by left; rw [afterLock_holdsMutex] at hb'; exact hb')
        (fun b' hb' => by
          rw [afterLock_validT] at hb'; cases hb'
          rw [cellAt_setT_qst, afterLock_cidOf]
          exact (L.vT t _ b hl rfl :)) (hvo _)
    · refine rw_bin (l' := { pc := afterLock tab b k res, call := some p }) (b0 := b)
        (tb := s.tbins.modify b (fun x => { x with writer := true })) L hl rfl (cellAt_setT_qst _ _ _ _ _) rfl
        (by rw [List.length_modify]) (fun b' hb' => binAt_modify_ne _ (fun e => hb' e.symm)) (by rw [hself])
        (Or.inr rfl) hmf ?_ ?_ ?_ ?_ (afterLock_holdsRead tab b k res) ?_ (fun b' _ h => q.privBin_of rfl
          (afterLock_pend s tab b k res) h)
      · intro _ _
        rw [hself, afterLock_wr]
        exact ⟨rfl, fun hw => by simp only at hw; rw [h2] at hw; cases hw⟩
      · intro _ hm'
        rw [hself] at hm'
        simp only at hm'
        rw [hmt] at hm'; cases hm'
      · intro x hx hm'
        rw [hself] at hm'
        simp only at hm'
        rw [hmt] at hm'
        exact absurd (Option.some.inj hm').symm hx
      · intro _; exact h3
      · intro b' hb'; left; rw [afterLock_binRef] at hb'; exact hb'
    · intro p1 hp1
      cases hp1
      cases k with
      | insert => simp only [afterLock, PcInv] at hP ⊢; exact hP
      | remove i => simp only [afterLock, PcInv] at hP ⊢; exact hP
  | @lrLoopOk tab b k res h1 h3 =>
    have hb0 := (L.refOK t _ b hl rfl).1
    have hmt := (L.mx t _ b hl).1 rfl
    have q : Quiet s s' := quiet_b (b0 := b) (f := fun x => { x with writer := true, waiter := false }) rfl rfl rfl
      rfl (fun x => rfl)
    have hself : binAt (s.tbins.modify b (fun x => { x with writer := true, waiter := false })) b =
        { binAt s.tbins b with writer := true, waiter := false } := binAt_modify_self _ hb0
    have hmf : MutexFun s s' t (.lrLoop tab b k res) (afterLock tab b k res) :=
      mutexfun_same (l := ⟨.lrLoop tab b k res, some p⟩) L hl (afterLock_holdsMutex tab b k res)
        (fun b' => by
          show (binAt (s.tbins.modify b _) b').mutex = _
          rw [binAt_modify]; split <;> rfl)
    refine eff_b (l' := { pc := afterLock tab b k res, call := some p }) (b0 := b)
      (f := fun x => { x with writer := true, waiter := false }) I hl rfl rfl rfl rfl (fun x => rfl) XS' rfl
      (T' _ (afterLock_readerPc tab b k res) (afterLock_noCallPc tab b k res)) rfl
      (afterLock_holdsLock tab b k res) (afterLock_validL tab b k res) ?_ ?_ hX ?_ (fun _ _ => rfl)
    · exact mx_step (l' := { pc := afterLock tab b k res, call := some p }) L hl rfl rfl hmf
        (fun b' hb' => by left; rw [afterLock_holdsMutex] at hb'; exact hb')
        (fun b' hb' => by
          rw [afterLock_validT] at hb'; cases hb'
          rw [cellAt_setT_qst, afterLock_cidOf]
          exact (L.vT t _ b hl rfl :)) (hvo _)
    · refine rw_bin (l' := { pc := afterLock tab b k res, call := some p }) (b0 := b)
        (tb := s.tbins.modify b (fun x => { x with writer := true, waiter := false })) L hl rfl
        (cellAt_setT_qst _ _ _ _ _) rfl
        (by rw [List.length_modify]) (fun b' hb' => binAt_modify_ne _ (fun e => hb' e.symm)) (by rw [hself])
        (Or.inr rfl) hmf ?_ ?_ ?_ ?_ (afterLock_holdsRead tab b k res) ?_ (fun b' _ h => q.privBin_of rfl
          (afterLock_pend s tab b k res) h)
      · intro _ _
        rw [hself, afterLock_wr]
        exact ⟨rfl, fun hw => by cases hw⟩
      · intro _ hm'
        rw [hself] at hm'
        simp only at hm'
        rw [hmt] at hm'; cases hm'
      · intro x hx hm'
        rw [hself] at hm'
        simp only at hm'
        rw [hmt] at hm'
        exact absurd (Option.some.inj hm').symm hx
      · intro _; exact h3
      · intro b' hb'; left; rw [afterLock_binRef] at hb'; exact hb'
    · intro p1 hp1
      cases hp1
      cases k with
      | insert => simp only [afterLock, PcInv] at hP ⊢; exact hP
      | remove i => simp only [afterLock, PcInv] at hP ⊢; exact hP
  | @lrLoopWait tab b k res h2 =>
    have hb0 := (L.refOK t _ b hl rfl).1
    have hmt := (L.mx t _ b hl).1 rfl
    have q : Quiet s s' := quiet_b (b0 := b) (f := fun x => { x with waiter := true }) rfl rfl rfl rfl
      (fun x => rfl)
    have hself : binAt (s.tbins.modify b (fun x => { x with waiter := true })) b =
        { binAt s.tbins b with waiter := true } := binAt_modify_self _ hb0
    have hmf : MutexFun s s' t (.lrLoop tab b k res) (.lrLoop tab b k res) :=
      mutexfun_same (l := ⟨.lrLoop tab b k res, some p⟩) L hl rfl
        (fun b' => by
          show (binAt (s.tbins.modify b _) b').mutex = _
          rw [binAt_modify]; split <;> rfl)
    refine eff_b (l' := { pc := .lrLoop tab b k res, call := some p }) (b0 := b)
      (f := fun x => { x with waiter := true }) I hl rfl rfl rfl rfl (fun x => rfl) XS' rfl
      (T' _ rfl rfl) rfl rfl rfl ?_ ?_ hX (by intro p1 hp1; cases hp1; exact hP) (fun _ hw => hw)
    · exact mx_step (l' := { pc := .lrLoop tab b k res, call := some p }) L hl rfl rfl hmf
        (fun b' hb' => Or.inl hb') (fun b' hb' => by
          simp [validT] at hb'; subst hb'
          rw [cellAt_setT_qst]
          exact (L.vT t _ b hl rfl :)) (hvo _)
    · refine rw_bin (l' := { pc := .lrLoop tab b k res, call := some p }) (b0 := b)
        (tb := s.tbins.modify b (fun x => { x with waiter := true })) L hl rfl (cellAt_setT_qst _ _ _ _ _) rfl
        (by rw [List.length_modify]) (fun b' hb' => binAt_modify_ne _ (fun e => hb' e.symm)) (by rw [hself])
        (Or.inr rfl) hmf ?_ ?_ ?_ ?_ rfl ?_ (fun b' _ h => q.privBin_of rfl rfl h)
      · rintro ⟨id, hc⟩ _
        rw [hself]
        exact ⟨(L.bitsSome id b t _ hc hl hmt).1, fun _ => rfl⟩
      · intro _ hm'
        rw [hself] at hm'
        simp only at hm'
        rw [hmt] at hm'; cases hm'
      · intro x hx hm'
        rw [hself] at hm'
        simp only at hm'
        rw [hmt] at hm'
        exact absurd (Option.some.inj hm').symm hx
      · intro hw
        rw [hself] at hw
        exact L.wrd b hw
      · intro b' hb'; exact Or.inl hb'
  | @unlockRoot tab b res =>
    have hb0 := (L.refOK t _ b hl rfl).1
    have hmt := (L.mx t _ b hl).1 rfl
    have hcell := L.vT t _ b hl rfl
    have q : Quiet s s' := quiet_b (b0 := b) (f := fun x => { x with writer := false, waiter := false }) rfl rfl rfl
      rfl (fun x => rfl)
    have hself : binAt (s.tbins.modify b (fun x => { x with writer := false, waiter := false })) b =
        { binAt s.tbins b with writer := false, waiter := false } := binAt_modify_self _ hb0
    have hmf : MutexFun s s' t (.tUnlockRoot tab b res) (.tUnlockM tab b res false) :=
      mutexfun_same (l := ⟨.tUnlockRoot tab b res, some p⟩) L hl rfl
        (fun b' => by
          show (binAt (s.tbins.modify b _) b').mutex = _
          rw [binAt_modify]; split <;> rfl)
    refine eff_b (l' := { pc := .tUnlockM tab b res false, call := some p }) (b0 := b)
      (f := fun x => { x with writer := false, waiter := false }) I hl rfl rfl rfl rfl (fun x => rfl) XS' rfl
      (T' _ rfl rfl) rfl rfl rfl ?_ ?_ hX (by intro p1 hp1; simp only [PcInv])
      (fun hnc _ => absurd ⟨_, hcell⟩ hnc)
    · exact mx_step (l' := { pc := .tUnlockM tab b res false, call := some p }) L hl rfl rfl hmf
        (fun b' hb' => Or.inl hb') (fun b' hb' => by simp [validT] at hb') (hvo _)
    · refine rw_bin (l' := { pc := .tUnlockM tab b res false, call := some p }) (b0 := b)
        (tb := s.tbins.modify b (fun x => { x with writer := false, waiter := false })) L hl rfl
        (cellAt_setT_qst _ _ _ _ _) rfl
        (by rw [List.length_modify]) (fun b' hb' => binAt_modify_ne _ (fun e => hb' e.symm)) (by rw [hself])
        (Or.inr rfl) hmf ?_ ?_ ?_ ?_ rfl ?_ (fun b' _ h => q.privBin_of rfl rfl h)
      · intro _ _
        rw [hself]
        exact ⟨rfl, fun hw => by cases hw⟩
      · intro _ hm'
        rw [hself] at hm'
        simp only at hm'
        rw [hmt] at hm'; cases hm'
      · intro x hx hm'
        rw [hself] at hm'
        simp only at hm'
        rw [hmt] at hm'
        exact absurd (Option.some.inj hm').symm hx
      · intro hw
        rw [hself] at hw
        cases hw
      · intro b' hb'; exact Or.inl hb'
  | @tUnlockMRetry tab b res =>
    have hb0 := (L.refOK t _ b hl rfl).1
    have hmt := (L.mx t _ b hl).1 rfl
    have q : Quiet s s' := quiet_b (b0 := b) (f := fun x => { x with mutex := none }) rfl rfl rfl rfl
      (fun x => rfl)
    have hself : binAt (s.tbins.modify b (fun x => { x with mutex := none })) b =
        { binAt s.tbins b with mutex := none } := binAt_modify_self _ hb0
    have hmf : MutexFun s s' t (.tUnlockM tab b res true) (.wCell tab) :=
      mutexfun_rel (l := ⟨.tUnlockM tab b res true, some p⟩) L hl rfl rfl rfl
    refine eff_b (l' := { pc := .wCell tab, call := some p }) (b0 := b)
      (f := fun x => { x with mutex := none }) I hl rfl rfl rfl rfl (fun x => rfl) XS' rfl
      (T' _ rfl rfl) rfl rfl rfl ?_ ?_ hX (by intro p1 hp1; simp only [PcInv]) (fun _ hw => hw)
    · exact mx_step (l' := { pc := .wCell tab, call := some p }) L hl rfl rfl hmf
        (fun b' hb' => by simp [holdsMutex] at hb') (fun b' hb' => by simp [validT] at hb') (hvo _)
    · refine rw_bin (l' := { pc := .wCell tab, call := some p }) (b0 := b)
        (tb := s.tbins.modify b (fun x => { x with mutex := none })) L hl rfl (cellAt_setT_qst _ _ _ _ _) rfl
        (by rw [List.length_modify]) (fun b' hb' => binAt_modify_ne _ (fun e => hb' e.symm)) (by rw [hself])
        (Or.inr rfl) hmf ?_ ?_ ?_ ?_ rfl ?_ (fun b' _ h => q.privBin_of rfl rfl h)
      · intro _ hm'
        rw [hself] at hm'; cases hm'
      · rintro ⟨id, hc⟩ _
        rw [hself]
        obtain ⟨e1, e2⟩ := L.bitsSome id b t _ hc hl hmt
        refine ⟨e1, ?_⟩
        cases hw : (binAt s.tbins b).waiter with
        | false => rfl
        | true => have := e2 hw; cases this
      · intro x _ hm'
        rw [hself] at hm'; cases hm'
      · intro hw
        rw [hself] at hw
        exact L.wrd b hw
      · intro b' hb'; simp [binRef] at hb'

/-! ## `BFin` -/

theorem eff_bfin {s : State} {t : Nat} {l : Local} {p : Pending} {res : KRes} {tb : List TBin} (I : Inv s)
    (hl : s.threads[t]? = some l) (hp : l.call = some p) (hf : BFin s p l.pc res tb) :
    let s' := finish (qst s s.heap tb) t p res
    XShape s' → Eff s s' ∧ ∀ k, absOf s' k = absOf s k := by
  intro s' XS'
  have L := I.lock
  have H := I.heap
  have hX := hf.xfacts
  obtain ⟨pc, call⟩ := l
  simp only at hf hp hX
  subst hp
  have T' : TInv (finish (qst s s.heap tb) t p res) :=
    tinv_finish (l' := { pc := .idle, call := none }) I.thr hl rfl rfl rfl rfl rfl rfl
  have hvo : ∀ (l0 : Local) (id : Cid), cellAt s' id = cellAt s id ∨ (validated l0.pc = true ∧ cidOf s l0 = id) ∨
      cellAt s id = .empty := fun _ id => Or.inl (cellAt_finish_qst _ _ _ _ _ _ id)
  have hrel : ∀ (b : Nat) (hit : Option Nat), pc = .rRelease b hit →
      tb = s.tbins.modify b (fun x => { x with readers := x.readers - 1 }) →
      Eff s (finish (qst s s.heap tb) t p res) ∧ ∀ k, absOf (finish (qst s s.heap tb) t p res) k = absOf s k := by
    intro b hit hpc htb
    subst hpc htb
    have hb0 := (L.refOK t _ b hl rfl).1
    have hpos := L.reader_pos (b := b) hl rfl
    have q : Quiet s s' := quiet_b (b0 := b) (f := fun x => { x with readers := x.readers - 1 }) rfl rfl rfl rfl
      (fun x => rfl)
    refine eff_b (l' := { pc := .idle, call := none }) (b0 := b)
      (f := fun x => { x with readers := x.readers - 1 }) I hl rfl rfl rfl rfl (fun x => rfl) XS' rfl
      T' rfl rfl rfl ?_ ?_ hX (by intro p1 hp1; cases hp1) (fun _ hw => hw)
    · exact mx_step (l' := { pc := .idle, call := none }) L hl rfl rfl
        (mutexfun_same L hl rfl (fun b' => by
          show (binAt (s.tbins.modify b _) b').mutex = _
          rw [binAt_modify]; split <;> rfl))
        (fun b' hb' => by simp [holdsMutex] at hb') (fun b' hb' => by simp [validT] at hb') (hvo _)
    · refine rw_readers (l' := { pc := .idle, call := none }) (b0 := b) L hl rfl
        (cellAt_finish_qst _ _ _ _ _ _) rfl hb0 (fun x => ⟨rfl, rfl, rfl⟩) ?_ ?_ ?_ rfl ?_
        (fun b' _ h => q.privBin_of rfl rfl h)
      · simp [holdsRead]; omega
      · intro b' hb'
        simp [holdsRead]
        exact fun e => hb' e.symm
      · intro hw; have := L.wrd b hw; simp only; omega
      · intro b' hb'; simp [binRef] at hb'
  cases hf with
  | @rRelNone b => exact hrel b none rfl rfl
  | @rRelHas b i hop => exact hrel b (some i) rfl rfl
  | @tUnlockMFin tab b =>
    have hb0 := (L.refOK t _ b hl rfl).1
    have hmt := (L.mx t _ b hl).1 rfl
    have q : Quiet s s' := quiet_b (b0 := b) (f := fun x => { x with mutex := none }) rfl rfl rfl rfl
      (fun x => rfl)
    have hself : binAt (s.tbins.modify b (fun x => { x with mutex := none })) b =
        { binAt s.tbins b with mutex := none } := binAt_modify_self _ hb0
    have hmf : MutexFun s s' t (.tUnlockM tab b res false) .idle :=
      mutexfun_rel (l := ⟨.tUnlockM tab b res false, some p⟩) L hl rfl rfl rfl
    refine eff_b (l' := { pc := .idle, call := none }) (b0 := b)
      (f := fun x => { x with mutex := none }) I hl rfl rfl rfl rfl (fun x => rfl) XS' rfl
      T' rfl rfl rfl ?_ ?_ hX (by intro p1 hp1; cases hp1) (fun _ hw => hw)
    · exact mx_step (l' := { pc := .idle, call := none }) L hl rfl rfl hmf
        (fun b' hb' => by simp [holdsMutex] at hb') (fun b' hb' => by simp [validT] at hb') (hvo _)
    · refine rw_bin (l' := { pc := .idle, call := none }) (b0 := b)
        (tb := s.tbins.modify b (fun x => { x with mutex := none })) L hl rfl (cellAt_finish_qst _ _ _ _ _ _) rfl
        (by rw [List.length_modify]) (fun b' hb' => binAt_modify_ne _ (fun e => hb' e.symm)) (by rw [hself])
        (Or.inr rfl) hmf ?_ ?_ ?_ ?_ rfl ?_ (fun b' _ h => q.privBin_of rfl rfl h)
      · intro _ hm'
        rw [hself] at hm'; cases hm'
      · rintro ⟨id, hc⟩ _
        rw [hself]
        obtain ⟨e1, e2⟩ := L.bitsSome id b t _ hc hl hmt
        refine ⟨e1, ?_⟩
        cases hw : (binAt s.tbins b).waiter with
        | false => rfl
        | true => have := e2 hw; cases this
      · intro x _ hm'
        rw [hself] at hm'; cases hm'
      · intro hw
        rw [hself] at hw
        exact L.wrd b hw
      · intro b' hb'; simp [binRef] at hb'

/-! ## `KBMove` -/

theorem eff_kbmove {s : State} {t : Nat} {l : Local} {pc' : Pc} {tb : List TBin} (I : Inv s)
    (hl : s.threads[t]? = some l) (hc : l.call = none) (hm : KBMove s t l.pc pc' tb) :
    let s' := setT (qst s s.heap tb) t { l with pc := pc' }
    XShape s' → Eff s s' ∧ ∀ k, absOf s' k = absOf s k := by
  intro s' XS'
  have L := I.lock
  have H := I.heap
  have hX := hm.xfacts
  obtain ⟨pc, call⟩ := l
  simp only at hm hc hX
  subst hc
  have T' : ∀ pc'', noCallPc pc'' = true → TInv (setT (qst s s.heap tb) t { pc := pc'', call := none }) := by
    intro pc'' h2
    refine tinv_keep (l' := { pc := pc'', call := none }) I.thr hl rfl rfl rfl rfl ?_ ?_
    · show none = none ↔ noCallPc pc'' = true
      rw [h2]; simp
    · intro p1 hp1; cases hp1
  have hvo : ∀ (l0 : Local) (id : Cid), cellAt s' id = cellAt s id ∨ (validated l0.pc = true ∧ cidOf s l0 = id) ∨
      cellAt s id = .empty := fun _ id => Or.inl (cellAt_setT_qst _ _ _ _ _ id)
  cases hm with
  | @yMutex j b hmx =>
    have hb0 := (L.refOK t _ b hl rfl).1
    have q : Quiet s s' := quiet_b (b0 := b) (f := fun x => { x with mutex := some t }) rfl rfl rfl rfl
      (fun x => rfl)
    have hmf : MutexFun s s' t (.yMutex j b) (.yCheck j b) :=
      mutexfun_acq (l := ⟨.yMutex j b, none⟩) rfl rfl hb0 rfl
    have hself : binAt (s.tbins.modify b (fun x => { x with mutex := some t })) b =
        { binAt s.tbins b with mutex := some t } := binAt_modify_self _ hb0
    refine eff_b (l' := { pc := .yCheck j b, call := none }) (b0 := b)
      (f := fun x => { x with mutex := some t }) I hl rfl rfl rfl rfl (fun x => rfl) XS' rfl
      (T' _ rfl) rfl rfl rfl ?_ ?_ hX (by intro p1 hp1; cases hp1) (fun _ hw => hw)
    · exact mx_step (l' := { pc := .yCheck j b, call := none }) L hl rfl rfl hmf
        (fun b' hb' => by simp [holdsMutex] at hb'; subst hb'; exact Or.inr hmx)
        (fun b' hb' => by simp [validT] at hb') (hvo _)
    · refine rw_bin (l' := { pc := .yCheck j b, call := none }) (b0 := b)
        (tb := s.tbins.modify b (fun x => { x with mutex := some t })) L hl rfl (cellAt_setT_qst _ _ _ _ _) rfl
        (by rw [List.length_modify]) (fun b' hb' => binAt_modify_ne _ (fun e => hb' e.symm)) (by rw [hself])
        (Or.inl rfl) hmf ?_ ?_ ?_ ?_ rfl ?_ (fun b' _ h => q.privBin_of rfl rfl h)
      · rintro ⟨id, hc⟩ _
        rw [hself]
        obtain ⟨e1, e2⟩ := L.bitsNone id b hc hmx
        exact ⟨e1, fun hw => by rw [e2] at hw; cases hw⟩
      · intro _ hm'
        rw [hself] at hm'; cases hm'
      · intro x hx hm'
        rw [hself] at hm'
        exact absurd (Option.some.inj hm').symm hx
      · intro hw
        rw [hself] at hw
        exact L.wrd b hw
      · intro b' hb'; left; simpa [binRef] using hb'
  | @yCheckFail j b hcf =>
    have hb0 := (L.refOK t _ b hl rfl).1
    have hmt := (L.mx t _ b hl).1 rfl
    have q : Quiet s s' := quiet_b (b0 := b) (f := fun x => { x with mutex := none }) rfl rfl rfl rfl
      (fun x => rfl)
    have hself : binAt (s.tbins.modify b (fun x => { x with mutex := none })) b =
        { binAt s.tbins b with mutex := none } := binAt_modify_self _ hb0
    have hmf : MutexFun s s' t (.yCheck j b) (.xCell j) :=
      mutexfun_rel (l := ⟨.yCheck j b, none⟩) L hl rfl rfl rfl
    refine eff_b (l' := { pc := .xCell j, call := none }) (b0 := b)
      (f := fun x => { x with mutex := none }) I hl rfl rfl rfl rfl (fun x => rfl) XS' rfl
      (T' _ rfl) rfl rfl rfl ?_ ?_ hX (by intro p1 hp1; cases hp1) (fun _ hw => hw)
    · exact mx_step (l' := { pc := .xCell j, call := none }) L hl rfl rfl hmf
        (fun b' hb' => by simp [holdsMutex] at hb') (fun b' hb' => by simp [validT] at hb') (hvo _)
    · refine rw_bin (l' := { pc := .xCell j, call := none }) (b0 := b)
        (tb := s.tbins.modify b (fun x => { x with mutex := none })) L hl rfl (cellAt_setT_qst _ _ _ _ _) rfl
        (by rw [List.length_modify]) (fun b' hb' => binAt_modify_ne _ (fun e => hb' e.symm)) (by rw [hself])
        (Or.inr rfl) hmf ?_ ?_ ?_ ?_ rfl ?_ (fun b' _ h => q.privBin_of rfl rfl h)
      · intro _ hm'
        rw [hself] at hm'; cases hm'
      · rintro ⟨id, hc⟩ _
        rw [hself]
        obtain ⟨e1, e2⟩ := L.bitsSome id b t _ hc hl hmt
        refine ⟨e1, ?_⟩
        cases hw : (binAt s.tbins b).waiter with
        | false => rfl
        | true => have := e2 hw; cases this
      · intro x _ hm'
        rw [hself] at hm'; cases hm'
      · intro hw
        rw [hself] at hw
        exact L.wrd b hw
      · intro b' hb'; simp [binRef] at hb'
  | @xUnlockT b =>
    have hb0 := (L.refOK t _ b hl rfl).1
    have hmt := (L.mx t _ b hl).1 rfl
    have q : Quiet s s' := quiet_b (b0 := b) (f := fun x => { x with mutex := none }) rfl rfl rfl rfl
      (fun x => rfl)
    have hself : binAt (s.tbins.modify b (fun x => { x with mutex := none })) b =
        { binAt s.tbins b with mutex := none } := binAt_modify_self _ hb0
    have hmf : MutexFun s s' t (.xUnlock (.inr b)) .xNext :=
      mutexfun_rel (l := ⟨.xUnlock (.inr b), none⟩) L hl rfl rfl rfl
    refine eff_b (l' := { pc := .xNext, call := none }) (b0 := b)
      (f := fun x => { x with mutex := none }) I hl rfl rfl rfl rfl (fun x => rfl) XS' rfl
      (T' _ rfl) rfl rfl rfl ?_ ?_ hX (by intro p1 hp1; cases hp1) (fun _ hw => hw)
    · exact mx_step (l' := { pc := .xNext, call := none }) L hl rfl rfl hmf
        (fun b' hb' => by simp [holdsMutex] at hb') (fun b' hb' => by simp [validT] at hb') (hvo _)
    · refine rw_bin (l' := { pc := .xNext, call := none }) (b0 := b)
        (tb := s.tbins.modify b (fun x => { x with mutex := none })) L hl rfl (cellAt_setT_qst _ _ _ _ _) rfl
        (by rw [List.length_modify]) (fun b' hb' => binAt_modify_ne _ (fun e => hb' e.symm)) (by rw [hself])
        (Or.inr rfl) hmf ?_ ?_ ?_ ?_ rfl ?_ (fun b' _ h => q.privBin_of rfl rfl h)
      · intro _ hm'
        rw [hself] at hm'; cases hm'
      · rintro ⟨id, hc⟩ _
        rw [hself]
        obtain ⟨e1, e2⟩ := L.bitsSome id b t _ hc hl hmt
        refine ⟨e1, ?_⟩
        cases hw : (binAt s.tbins b).waiter with
        | false => rfl
        | true => have := e2 hw; cases this
      · intro x _ hm'
        rw [hself] at hm'; cases hm'
      · intro hw
        rw [hself] at hw
        exact L.wrd b hw
      · intro b' hb'; simp [binRef] at hb'

end Flurry.Proto.BinGNP
