import Flurry.Lemmas.BinGProgAll
/-! # Proto/BinG, progress: one step of any thread that is not blocked

`thread_step`: in every state with the invariants, the step of a thread that is not `idle` and not
`Blocked` is enabled (for every value of the scheduler's arguments), and it either brings the thread
back to `idle` (a call returns: one entry added to `hist`) or to a program counter with a strictly
smaller measure `wmu` (`Lemmas/BinGProgAll.lean`). -/
namespace Flurry.Proto.BinG
open Flurry.Lin
open Flurry.Proto.BinK (nodeAt binAt lockSet isInsert NextOK nodeAt_of_some rank rank_le rank_lt get_set
  get_set_self get_set_ne binAt_modify binAt_modify_self)

/-- the moves of a tree-bin writer that change the synchronisation words decrease the measure -/
theorem BMove.wmu_lt {s : State} {t : Nat} {p : Pending} {pc pc' : Pc} {tb : List TBin}
    (hm : BMove s t p pc pc' tb) (hnr : readerPc pc = false)
    (hbt : ∀ b, binRef pc = some b → b < s.tbins.length) :
    pc' ≠ .idle ∧
      ∀ s1 : State, s1.heap = s.heap → s1.tbins = tb → s1.cell0 = s.cell0 → s1.lowCell = s.lowCell →
        s1.highCell = s.highCell → wmu s1 ⟨pc', some p⟩ < wmu s ⟨pc, some p⟩ := by
  have hcell : ∀ s1 : State, s1.cell0 = s.cell0 → s1.lowCell = s.lowCell → s1.highCell = s.highCell →
      ∀ tab k, cellOf s1 tab k = cellOf s tab k := by
    intro s1 h0 h1 h2 tab k
    unfold cellOf
    rw [h0, h1, h2]
  cases hm with
  | @tMutex tab b hmx =>
    refine ⟨(by intro e; cases e), ?_⟩
    intro s1 hh _ h0 h1 h2
    show (if cellOf s1 tab p.key = .tree b then 9 else 2 + fresh s1.heap.length tab) <
      (if cellOf s tab p.key = .tree b then 10 else 3 + fresh s.heap.length tab)
    rw [hcell s1 h0 h1 h2, hh]
    split <;> omega
  | @lrTryOk tab b k res _ _ _ =>
    cases k with
    | remove i =>
      refine ⟨(by intro e; cases e), ?_⟩
      intro s1 _ _ _ _ _
      show 4 < 7
      omega
    | insert =>
      refine ⟨(by intro e; cases e), ?_⟩
      intro s1 _ _ _ _ _
      show 4 < 7
      omega
  | @lrLoopOk tab b k res hw hr =>
    have hc : lrCond s b = true := by unfold lrCond; rw [hw, hr]; rfl
    cases k with
    | remove i =>
      refine ⟨(by intro e; cases e), ?_⟩
      intro s1 _ _ _ _ _
      show 4 < (if lrCond s b = true then 5 else 0) + (if (binAt s.tbins b).waiter = true then 0 else 1)
      rw [if_pos hc]; omega
    | insert =>
      refine ⟨(by intro e; cases e), ?_⟩
      intro s1 _ _ _ _ _
      show 4 < (if lrCond s b = true then 5 else 0) + (if (binAt s.tbins b).waiter = true then 0 else 1)
      rw [if_pos hc]; omega
  | @lrLoopWait tab b k res hwt =>
    have hb : b < s.tbins.length := hbt b rfl
    refine ⟨(by intro e; cases e), ?_⟩
    intro s1 _ htb _ _ _
    show (if lrCond s1 b = true then 5 else 0) + (if (binAt s1.tbins b).waiter = true then 0 else 1) <
      (if lrCond s b = true then 5 else 0) + (if (binAt s.tbins b).waiter = true then 0 else 1)
    have h1 : lrCond s1 b = lrCond s b := by
      unfold lrCond; rw [htb, binAt_modify_self _ hb]
    have h2 : (binAt s1.tbins b).waiter = true := by
      rw [htb, binAt_modify_self _ hb]
    rw [h1, h2, hwt]
    simp
  | unlockRoot =>
    refine ⟨(by intro e; cases e), ?_⟩
    intro s1 _ _ _ _ _
    show 1 < 2
    omega
  | @tUnlockMRetry tab b res =>
    refine ⟨(by intro e; cases e), ?_⟩
    intro s1 hh _ _ _ _
    show fresh s1.heap.length tab < 1 + fresh s.heap.length tab
    rw [hh]; omega
  | _ => cases hnr

/-- the moves of the resizing thread that change a mutex decrease the measure -/
theorem KBMove.wmu_lt {s : State} {t : Nat} {pc pc' : Pc} {tb : List TBin} (hm : KBMove s t pc pc' tb) :
    pc' ≠ .idle ∧ ∀ s1 : State, s1.cell0 = s.cell0 → wmu s1 ⟨pc', none⟩ < wmu s ⟨pc, none⟩ := by
  cases hm with
  | @yMutex b _ =>
    refine ⟨(by intro e; cases e), fun s1 hc0 => ?_⟩
    show (if s1.cell0 = .tree b then 7 else 11) < (if s.cell0 = .tree b then 8 else 12)
    rw [hc0]; split <;> omega
  | @yCheckFail b hne =>
    refine ⟨(by intro e; cases e), fun s1 _ => ?_⟩
    show 10 < (if s.cell0 = .tree b then 7 else 11)
    rw [if_neg hne]; omega
  | xUnlockT =>
    refine ⟨(by intro e; cases e), fun s1 _ => ?_⟩
    show 1 < 2
    omega

theorem wmu_reader {s : State} {l : Local} (h : readerPc l.pc = true) : wmu s l = mu s l.pc := by
  obtain ⟨pc, call⟩ := l
  cases pc <;> first | rfl | cases h

/-- **one step of a thread that is not blocked**: enabled, and the thread is `idle` again or closer to
it — in every state with the invariants, for every choice of the scheduler's arguments -/
theorem thread_step {s : State} (I : Inv s) (B : BInv s) {t : Nat} {l : Local}
    (hl : s.threads[t]? = some l) (hne : l.pc ≠ .idle) (hnb : ¬ Blocked s l.pc)
    (inv : Option (Nat × KOp)) (lo : Bool) (mt : Option Nat) (rz sm sm2 : Bool) :
    ∃ s', step s t inv lo mt rz sm sm2 = some s' ∧ Progress s t l s' := by
  by_cases hrd : readerPc l.pc = true
  · obtain ⟨p, s', hp, hs, ho⟩ := reader_step_aux I B hl hrd inv lo mt rz sm sm2
    refine ⟨s', hs, ?_⟩
    rcases ho with ⟨hidle, res, hh⟩ | ⟨pc', hl1, hrd1, hh1, hmu⟩
    · exact Or.inl ⟨hidle, Or.inr ⟨p, res, hp, hh⟩⟩
    · refine Or.inr ⟨pc', by rw [hp]; exact hl1, ?_, hh1, ?_⟩
      · intro e; rw [e] at hrd1; cases hrd1
      · rw [wmu_reader hrd, wmu_reader (l := ⟨pc', l.call⟩) hrd1]; exact hmu
  · have hnr : readerPc l.pc = false := by cases h : readerPc l.pc <;> simp_all
    have hen : (step s t inv lo mt rz sm sm2).isSome = true := by
      rcases step_enabled_or_blocked I B hl hne inv lo mt rz sm sm2 with h | h
      · exact h
      · exact absurd h hnb
    obtain ⟨s', hs⟩ := Option.isSome_iff_exists.1 hen
    refine ⟨s', hs, ?_⟩
    have hk := step_stepN hl hs
    have hbl := B t l hl
    have href := I.lock.refOK t l
    obtain ⟨pc, call⟩ := l
    cases hk with
    | idle hpc => exact absurd hpc hne
    | maint k hpc => exact absurd hpc hne
    | resizeStart hpc hr => exact absurd hpc hne
    | invoke k op lo hpc => exact absurd hpc hne
    | move p pc' hp hc hm =>
      cases hc
      obtain ⟨h1, _, h3⟩ := hm.wmu_lt I.heap hnr hbl
      exact Progress.move hl pc' rfl rfl h1 (h3 _ rfl rfl rfl rfl rfl)
    | bmove p pc' tb hc hm =>
      cases hc
      obtain ⟨h1, h3⟩ := hm.wmu_lt hnr (fun b hb => (href b hl hb).1)
      exact Progress.move hl pc' rfl rfl h1 (h3 _ rfl rfl rfl rfl rfl)
    | kmove pc' hp hc hm =>
      cases hc
      obtain ⟨_, h3⟩ := hm.wmu_lt I.heap
      by_cases hid : pc' = .idle
      · subst hid
        exact Progress.done hl rfl rfl rfl
      · rcases h3 (setT (qst s hp s.tbins) t ⟨pc', none⟩) rfl rfl with h | h
        · exact absurd h hid
        · exact Progress.move hl pc' rfl rfl hid h
    | kbmove pc' tb hc hm =>
      cases hc
      obtain ⟨h1, h3⟩ := hm.wmu_lt
      exact Progress.move hl pc' rfl rfl h1 (h3 _ rfl)
    | fin p res hp hc hf => exact Progress.fin (s1 := qst s hp s.tbins) hl hc rfl rfl rfl res
    | bfin p res tb hc hf => exact Progress.fin (s1 := qst s s.heap tb) hl hc rfl rfl rfl res
    | cas p tab v vi hc hpc he hop =>
      exact Progress.fin
        (s1 := setCell (qst s (s.heap ++ [⟨p.key, (v, vi), none, none, false, none⟩]) s.tbins) tab p.key (.list s.heap.length))
        hl hc (setCell_threads _ _ _ _) (setCell_hist _ _ _ _) (setCell_now _ _ _ _) .none
    | store p tab h pred hit hnext hc hpc =>
      cases hpc
      refine Progress.move hl (.wUnlock tab h (storeAt (tick s) tab p pred hit hnext).2 false) ?_ ?_ (by intro e; cases e) ?_
      · show (storeAt (tick s) tab p pred hit hnext).1.threads.set t _ = _
        rw [(storeAt_frame (tick s) tab p pred hit hnext).1]; rfl
      · exact (storeAt_frame (tick s) tab p pred hit hnext).2.1
      · show 1 < 2
        omega
    | tval p tab b i v res hc hpc =>
      cases hpc
      refine Progress.move hl (.tUnlockM tab b res false) rfl rfl (by intro e; cases e) ?_
      show 1 < 2
      omega
    | prepend p tab b v vi hc hpc hop =>
      cases hpc
      refine Progress.move hl (.tTreeLinkLocked tab b s.heap.length) rfl rfl (by intro e; cases e) ?_
      show 3 < 4
      omega
    | treeLink p tab b x hc hpc =>
      cases hpc
      refine Progress.move hl (.tUnlockRoot tab b .none) rfl rfl (by intro e; cases e) ?_
      show 2 < 3
      omega
    | unlink p tab b i res small hc hpc =>
      cases hpc
      refine Progress.move hl (if small then .tUntreeify tab b res else .tRestructure tab b i res) ?_ ?_
        (by cases small <;> (intro e; cases e)) ?_
      · show (unlinkOf (tick s) b i).threads.set t _ = _
        rw [(unlinkOf_frame (tick s) b i).1]; rfl
      · exact (unlinkOf_frame (tick s) b i).2.1
      · cases small
        · show 3 < 4
          omega
        · show 2 < 4
          omega
    | untree p tab b i res hc hpc =>
      cases hpc
      refine Progress.move hl (.tUnlockRoot tab b res) rfl rfl (by intro e; cases e) ?_
      show 2 < 3
      omega
    | untreeify p tab b res hc hpc =>
      cases hpc
      refine Progress.move hl (.tUnlockM tab b res false) ?_ ?_ (by intro e; cases e) ?_
      · show (untreeifyOf (tick s) tab p.key b).threads.set t _ = _
        rw [(untreeifyOf_frame (tick s) tab p.key b).1]; rfl
      · exact (untreeifyOf_frame (tick s) tab p.key b).2.1
      · show 1 < 2
        omega
    | kbuild tab k h hc hpc =>
      cases hpc
      refine Progress.move hl (.kStore tab k h s.tbins.length) rfl rfl (by intro e; cases e) ?_
      show 2 < 3
      omega
    | kstore tab k h b hc hpc =>
      cases hpc
      refine Progress.move hl (.kUnlock h) ?_ ?_ (by intro e; cases e) ?_
      · show (setCell (tick s) tab k _).threads.set t _ = _
        rw [setCell_threads]; rfl
      · exact setCell_hist _ _ _ _
      · show 1 < 2
        omega
    | xcasMoved hc hpc h0 =>
      cases hpc
      refine Progress.move hl .xCommit rfl rfl (by intro e; cases e) ?_
      show 1 < (if s.cell0 = .empty then 2 else 11)
      rw [if_pos h0]; omega
    | xbuild h hc hpc =>
      cases hpc
      refine Progress.move hl (.xStoreLow (.inl h) (xsplitOf s h).2.1 (xsplitOf s h).2.2) rfl rfl (by intro e; cases e) ?_
      show 5 < 6
      omega
    | ybuild b small small2 hc hpc =>
      cases hpc
      refine Progress.move hl (.xStoreLow (.inr b) (ysplitOf (tick s) b small small2).2.1 (ysplitOf (tick s) b small small2).2.2) ?_ ?_ (by intro e; cases e) ?_
      · show (ysplitOf (tick s) b small small2).1.threads.set t _ = _
        rw [(ysplitOf_frame (tick s) b small small2).1]; rfl
      · exact (ysplitOf_frame (tick s) b small small2).2.1
      · show 5 < 6
        omega
    | xstoreLow unl lo hi hc hpc =>
      cases hpc
      refine Progress.move hl (.xStoreHigh unl hi) rfl rfl (by intro e; cases e) ?_
      show 4 < 5
      omega
    | xstoreHigh unl hi hc hpc =>
      cases hpc
      refine Progress.move hl (.xStoreMoved unl) rfl rfl (by intro e; cases e) ?_
      show 3 < 4
      omega
    | xstoreMoved unl hc hpc =>
      cases hpc
      refine Progress.move hl (.xUnlock unl) rfl rfl (by intro e; cases e) ?_
      show 2 < 3
      omega
    | xcommit hc hpc =>
      cases hpc
      cases hc
      exact Progress.done hl rfl rfl rfl

end Flurry.Proto.BinG
