import Flurry.Lemmas.BinRBInv
/-! # Proto/Bin: the lock protocol (C01)

(C13 port of `Flurry/Lemmas/BinLock.lean` to the per-key operations of `Flurry/Lin2.lean`, i.e. with `retain`'s conditional removal `condRm`; below, "`Proto/Bin`" / `Base.` is `Flurry.Proto.BinR.Base` (`Proto/BinRBase.lean`) and "`Proto/BinW`" is `Flurry.Proto.BinR` (`Proto/BinR.lean`), which in addition has the `retain` visit steps.)

The mutex of a bin lives in its first node. `LInv`: a thread between `wCheck` and its unlock holds
the mutex of the node it locked; a thread in `wWrite h` has validated that `h` is the current head.
Consequence (`writers_mutex`): at most one thread is about to perform a store.

(The linearizability proof does not use these facts: in the model the store of a writer is one
atomic transition on the current chain.) -/
namespace Flurry.Proto.BinR.Base
open Flurry.Lin2

/-- the thread holds the mutex of node `h` -/
def Holds : Pc → Nat → Prop
  | .wCheck h', h => h' = h
  | .wWrite h', h => h' = h
  | .wUnlock h' _ _, h => h' = h
  | _, _ => False

structure LInv (s : State) : Prop where
  lockHeld : ∀ (t : Nat) (l : Local) (h : Nat), s.threads[t]? = some l → Holds l.pc h →
    h < s.heap.length ∧ (nodeAt s.heap h).lock = some t
  validated : ∀ (t : Nat) (l : Local) (h : Nat), s.threads[t]? = some l → l.pc = .wWrite h → s.head = some h

theorem lock_modify {heap : List NodeS} {i : Nat} {f : NodeS → NodeS} (hf : ∀ n, (f n).lock = n.lock) (j : Nat) :
    (nodeAt (heap.modify i f) j).lock = (nodeAt heap j).lock := by
  rw [nodeAt_modify]; split
  · exact hf _
  · rfl

/-- `writerStore` never touches a lock word and never shrinks the heap -/
theorem writerStore_lock (s : State) (p : Pending) :
    s.heap.length ≤ (writerStore s p).1.heap.length ∧
    ∀ j, j < s.heap.length → (nodeAt (writerStore s p).1.heap j).lock = (nodeAt s.heap j).lock := by
  unfold writerStore
  simp only
  repeat' split
  all_goals
    refine ⟨?_, fun j hj => ?_⟩
    · simp only [setNode, List.length_modify, List.length_append, List.length_singleton]
      omega
    · simp only [setNode]
      try first
        | rfl
        | (refine Eq.trans (lock_modify ?_ j) ?_
           · intro n; rfl
           · first | rfl | rw [nodeAt_append_left _ hj])
        | rw [nodeAt_append_left _ hj]

theorem linv_generic {s s' : State} {t : Nat} {l' : Local} (L : LInv s)
    (hthr : s'.threads = s.threads.set t l') (hlen : s.heap.length ≤ s'.heap.length)
    (hlock : ∀ (t1 : Nat) (l1 : Local) (h1 : Nat), t1 ≠ t → s.threads[t1]? = some l1 → Holds l1.pc h1 →
      (nodeAt s'.heap h1).lock = (nodeAt s.heap h1).lock)
    (hhead : ∀ (t1 : Nat) (l1 : Local) (h1 : Nat), t1 ≠ t → s.threads[t1]? = some l1 → l1.pc = .wWrite h1 →
      s'.head = s.head)
    (hself : ∀ h, Holds l'.pc h → h < s'.heap.length ∧ (nodeAt s'.heap h).lock = some t)
    (hval : ∀ h, l'.pc = .wWrite h → s'.head = some h) : LInv s' := by
  refine ⟨?_, ?_⟩
  · intro t1 l1 h1 hl1 hh
    rw [hthr] at hl1
    rcases get_set hl1 with ⟨rfl, rfl⟩ | ⟨hne, hl1⟩
    · exact hself h1 hh
    · obtain ⟨h2, h3⟩ := L.lockHeld t1 l1 h1 hl1 hh
      exact ⟨by omega, by rw [hlock t1 l1 h1 hne hl1 hh]; exact h3⟩
  · intro t1 l1 h1 hl1 hpc
    rw [hthr] at hl1
    rcases get_set hl1 with ⟨rfl, rfl⟩ | ⟨hne, hl1⟩
    · exact hval h1 hpc
    · rw [hhead t1 l1 h1 hne hl1 hpc]; exact L.validated t1 l1 h1 hl1 hpc

theorem Move.holds {s : State} {p : Pending} {pc pc' : Pc} (hm : Move s p pc pc') {h : Nat}
    (hh : Holds pc' h) : Holds pc h := by
  cases hm <;> first | exact hh | cases hh

theorem Move.validated {s : State} {p : Pending} {pc pc' : Pc} (hm : Move s p pc pc') {h : Nat}
    (hh : pc' = .wWrite h) : s.head = some h ∨ pc = .wWrite h := by
  cases hm with
  | checkOk hd => cases hh; exact Or.inl hd
  | rHead => cases hh
  | rNext _ _ => cases hh
  | toCas _ => cases hh
  | toLock _ => cases hh
  | casFail => cases hh
  | checkFail => cases hh

/-- every transition preserves the lock invariant -/
theorem stepK_linv {s s' : State} {t : Nat} {l : Local} (L : LInv s) (hl : s.threads[t]? = some l)
    (hk : StepK s t l s') : LInv s' := by
  cases hk with
  | idle hpc =>
    refine linv_generic L rfl (Nat.le_refl _) (fun _ _ _ _ _ _ => rfl) (fun _ _ _ _ _ _ => rfl) ?_ ?_
    · intro h hh; exact L.lockHeld t l h hl hh
    · intro h hh; exact L.validated t l h hl hh
  | invoke k op hpc =>
    refine linv_generic (l' := { pc := if isReader op then .rHead else .wHead, call := some ⟨k, op, s.now + 1⟩ })
      L rfl (Nat.le_refl _) (fun _ _ _ _ _ _ => rfl) (fun _ _ _ _ _ _ => rfl) ?_ ?_
    · intro h hh; cases hr : isReader op <;> simp [hr, Holds] at hh
    · intro h hh; cases hr : isReader op <;> simp [hr] at hh
  | move p pc' hp hm =>
    refine linv_generic (l' := { l with pc := pc' }) L rfl (Nat.le_refl _) (fun _ _ _ _ _ _ => rfl)
      (fun _ _ _ _ _ _ => rfl) ?_ ?_
    · intro h hh; exact L.lockHeld t l h hl (hm.holds hh)
    · intro h hh
      rcases hm.validated hh with hd | hpc
      · exact hd
      · exact L.validated t l h hl hpc
  | lockMove p h x pc' hp hm =>
    obtain ⟨pc, call⟩ := l
    simp only at hm hp
    cases hm with
    | @lock _ n hn hlk =>
      have hnode := nodeAt_of_some hn
      have hlt : h < s.heap.length := (List.getElem?_eq_some_iff.1 hn).1
      refine linv_generic (l' := { pc := .wCheck h, call := call }) L rfl
        (by show _ ≤ (s.heap.modify h _).length; rw [List.length_modify]; exact Nat.le_refl _) ?_
        (fun _ _ _ _ _ _ => rfl) ?_ ?_
      · intro t1 l1 h1 hne hl1 hh
        show (nodeAt (s.heap.modify h _) h1).lock = _
        rw [nodeAt_modify]
        split
        · rename_i hc
          have := (L.lockHeld t1 l1 h1 hl1 hh).2
          rw [← hc.1, hnode, hlk] at this
          cases this
        · rfl
      · intro h' hh
        have : h = h' := hh
        subst this
        refine ⟨by show _ < (s.heap.modify h _).length; rw [List.length_modify]; exact hlt, ?_⟩
        show (nodeAt (s.heap.modify h _) h).lock = _
        rw [nodeAt_modify, if_pos ⟨rfl, hlt⟩]
      · intro h' hh; cases hh
    | @unlockRetry _ res =>
      obtain ⟨hlt, hmine⟩ := L.lockHeld t _ h hl (show Holds (.wUnlock h res true) h from rfl)
      refine linv_generic (l' := { pc := .wHead, call := call }) L rfl
        (by show _ ≤ (s.heap.modify h _).length; rw [List.length_modify]; exact Nat.le_refl _) ?_
        (fun _ _ _ _ _ _ => rfl) ?_ ?_
      · intro t1 l1 h1 hne hl1 hh
        show (nodeAt (s.heap.modify h _) h1).lock = _
        rw [nodeAt_modify]
        split
        · rename_i hc
          have := (L.lockHeld t1 l1 h1 hl1 hh).2
          rw [← hc.1, hmine] at this
          cases this
          exact absurd rfl hne
        · rfl
      · intro h' hh; cases hh
      · intro h' hh; cases hh
  | fin p res hp hf =>
    refine linv_generic (l' := { pc := .idle, call := none }) L rfl (Nat.le_refl _)
      (fun _ _ _ _ _ _ => rfl) (fun _ _ _ _ _ _ => rfl) ?_ ?_
    · intro h hh; cases hh
    · intro h hh; cases hh
  | cas p v vi hp hpc hh hop =>
    refine linv_generic (l' := { pc := .idle, call := none }) L rfl
      (by show _ ≤ (s.heap ++ [_]).length; rw [List.length_append]; omega) ?_ ?_ ?_ ?_
    · intro t1 l1 h1 hne hl1 hhold
      show (nodeAt (s.heap ++ [_]) h1).lock = _
      rw [nodeAt_append_left _ (L.lockHeld t1 l1 h1 hl1 hhold).1]
    · intro t1 l1 h1 hne hl1 hpc1
      have := L.validated t1 l1 h1 hl1 hpc1
      rw [hh] at this; cases this
    · intro h hh; cases hh
    · intro h hh; cases hh
  | write p h hp hpc =>
    obtain ⟨hlen, hlk⟩ := writerStore_lock (tick s) p
    obtain ⟨hthr, -, -⟩ := writerStore_frame (tick s) p
    obtain ⟨hlt, hmine⟩ := L.lockHeld t l h hl (by rw [hpc]; exact rfl)
    have hhd := L.validated t l h hl hpc
    refine linv_generic (t := t) (l' := { l with pc := .wUnlock h (writerStore (tick s) p).2 false }) L ?_ hlen ?_ ?_ ?_ ?_
    · show (writerStore (tick s) p).1.threads.set t _ = _
      rw [hthr]; rfl
    · intro t1 l1 h1 hne hl1 hhold
      exact hlk h1 (L.lockHeld t1 l1 h1 hl1 hhold).1
    · intro t1 l1 h1 hne hl1 hpc1
      exfalso
      have h2 := L.validated t1 l1 h1 hl1 hpc1
      rw [hhd] at h2; cases h2
      have h3 := (L.lockHeld t1 l1 h hl1 (by rw [hpc1]; exact rfl)).2
      rw [hmine] at h3; cases h3
      exact hne rfl
    · intro h' hh
      have : h = h' := hh
      subst this
      exact ⟨Nat.lt_of_lt_of_le hlt hlen, by rw [show (setT _ t _).heap = (writerStore (tick s) p).1.heap from rfl, hlk h hlt]; exact hmine⟩
    · intro h' hh; cases hh
  | unlockFin p h res hp hpc =>
    obtain ⟨hlt, hmine⟩ := L.lockHeld t l h hl (by rw [hpc]; exact rfl)
    refine linv_generic (l' := { pc := .idle, call := none }) L rfl
      (by show _ ≤ (s.heap.modify h _).length; rw [List.length_modify]; exact Nat.le_refl _) ?_
      (fun _ _ _ _ _ _ => rfl) ?_ ?_
    · intro t1 l1 h1 hne hl1 hh
      show (nodeAt (s.heap.modify h _) h1).lock = _
      rw [nodeAt_modify]
      split
      · rename_i hc
        have := (L.lockHeld t1 l1 h1 hl1 hh).2
        rw [← hc.1, hmine] at this
        cases this
        exact absurd rfl hne
      · rfl
    · intro h' hh; cases hh
    · intro h' hh; cases hh

theorem init_linv (n : Nat) : LInv (init n) := by
  have hthr : ∀ (t : Nat) (l : Local), (init n).threads[t]? = some l → l = {} := by
    intro t l hl
    simp only [init, List.getElem?_replicate] at hl
    split at hl
    · cases hl; rfl
    · cases hl
  refine ⟨?_, ?_⟩
  · intro t l h hl hh; rw [hthr t l hl] at hh; cases hh
  · intro t l h hl hh; rw [hthr t l hl] at hh; cases hh

theorem reachable_linv {n : Nat} {s : State} (hr : Reachable n s) : LInv s := by
  induction hr with
  | init => exact init_linv n
  | @step s s' t inv _ hs ih =>
    cases hl : s.threads[t]? with
    | none => unfold step at hs; rw [hl] at hs; cases hs
    | some l => exact stepK_linv ih hl (step_stepK hl hs)

/-- **mutual exclusion of validated writers**: at most one thread is about to perform a store -/
theorem writers_mutex {n : Nat} {s : State} (hr : Reachable n s) {t1 t2 : Nat} {l1 l2 : Local} {h1 h2 : Nat}
    (hl1 : s.threads[t1]? = some l1) (hl2 : s.threads[t2]? = some l2)
    (hp1 : l1.pc = .wWrite h1) (hp2 : l2.pc = .wWrite h2) : t1 = t2 ∧ h1 = h2 := by
  have L := reachable_linv hr
  have e1 := L.validated t1 l1 h1 hl1 hp1
  have e2 := L.validated t2 l2 h2 hl2 hp2
  rw [e1] at e2; cases e2
  have k1 := (L.lockHeld t1 l1 h1 hl1 (by rw [hp1]; exact rfl)).2
  have k2 := (L.lockHeld t2 l2 h1 hl2 (by rw [hp2]; exact rfl)).2
  rw [k1] at k2; cases k2
  exact ⟨rfl, rfl⟩

/-- a validated writer still sees its node as the head when it stores, and holds its mutex -/
theorem writer_validated {n : Nat} {s : State} (hr : Reachable n s) {t : Nat} {l : Local} {h : Nat}
    (hl : s.threads[t]? = some l) (hp : l.pc = .wWrite h) :
    s.head = some h ∧ (nodeAt s.heap h).lock = some t :=
  ⟨(reachable_linv hr).validated t l h hl hp,
    ((reachable_linv hr).lockHeld t l h hl (by rw [hp]; exact rfl)).2⟩

end Flurry.Proto.BinR.Base
