import Flurry.Proto.BinNA
/-! # Proto/BinNA: the transitions in normal form (C01, C08, C10)

`StepK s t l s'` lists the possible transitions of thread `t` (with local state `l`) with explicit
successor states, grouped by their effect on the shared memory; `step_stepK` dissects `step` once
and for all. -/
namespace Flurry.Proto.BinNA
open Flurry.Lin

/-- the state with the clock advanced -/
def tick (s : State) : State := { s with now := s.now + 1 }

def insLike (op : KOp) : Prop := ∃ v vi, op = .ins v vi ∨ op = .tryIns v vi

/-- transitions of a thread with a call in flight that only change its program counter -/
inductive Move (s : State) (p : Pending) : Pc → Pc → Prop
  | rTable : Move s p .rTable (.rCell s.cur)
  | rMoved {g : Nat} : getCell s g (ix g p.key) = .moved → Move s p (.rCell g) (.rCell (g + 1))
  | wTable : Move s p .wTable (.wCell s.cur)
  | wEmpty {g : Nat} : getCell s g (ix g p.key) = .empty → insLike p.op → Move s p (.wCell g) (.wCas g)
  | wMoved {g : Nat} : getCell s g (ix g p.key) = .moved → Move s p (.wCell g) (.wCell (g + 1))
  | wList {g : Nat} {xs : List Entry} : getCell s g (ix g p.key) = .list xs → Move s p (.wCell g) (.wLock g)
  | casFail {g : Nat} : Move s p (.wCas g) (.wCell g)
  | checkOk {g : Nat} : isList (getCell s g (ix g p.key)) = true → Move s p (.wCheck g) (.wStore g)
  | checkFail {g : Nat} : isList (getCell s g (ix g p.key)) = false →
      Move s p (.wCheck g) (.wUnlock g .none true)

/-- transitions of the resizing thread that only change its program counter -/
inductive TMove (s : State) : Pc → Pc → Prop
  | nextDone : allMoved s = true → TMove s .tNext .tCommit
  | nextCell {pick : Nat} : TMove s .tNext (.tCell (pick % 2 ^ s.cur))
  | cellEmpty {j : Nat} : getCell s s.cur j = .empty → TMove s (.tCell j) (.tCasMoved j)
  | cellList {j : Nat} {xs : List Entry} : getCell s s.cur j = .list xs → TMove s (.tCell j) (.tLock j)
  | cellMoved {j : Nat} : getCell s s.cur j = .moved → TMove s (.tCell j) .tNext
  | casFail {j : Nat} : getCell s s.cur j ≠ .empty → TMove s (.tCasMoved j) (.tCell j)
  | checkOk {j : Nat} {xs : List Entry} : getCell s s.cur j = .list xs →
      TMove s (.tCheck j) (.tStoreLow j (mkCell (splitLo s.cur xs)) (mkCell (splitHi s.cur xs)))

/-- calls that complete without a store of their own -/
inductive Fin (s : State) (p : Pending) : Pc → KRes → Prop
  | rEmpty {g : Nat} : getCell s g (ix g p.key) = .empty → Fin s p (.rCell g) (missRes p.op)
  | rMiss {g : Nat} {xs : List Entry} : getCell s g (ix g p.key) = .list xs → lookup p.key xs = none →
      Fin s p (.rCell g) (missRes p.op)
  | rHit {g : Nat} {xs : List Entry} {v : Nat × Nat} : getCell s g (ix g p.key) = .list xs →
      lookup p.key xs = some v → Fin s p (.rCell g) (hitRes p.op v)
  | wEmpty {g : Nat} : getCell s g (ix g p.key) = .empty → ¬ insLike p.op → Fin s p (.wCell g) .none

/-- lock acquisitions: program counter before, cell, program counter after -/
inductive Acq (s : State) (l : Local) : Nat → Nat → Pc → Prop
  | w {g : Nat} {p : Pending} : l.call = some p → l.pc = .wLock g → Acq s l g (ix g p.key) (.wCheck g)
  | t {j : Nat} : l.call = none → l.pc = .tLock j → Acq s l s.cur j (.tCheck j)

/-- lock releases that do not complete a call -/
inductive Rel (s : State) (l : Local) : Nat → Nat → Pc → Prop
  | w {g : Nat} {p : Pending} {res : KRes} : l.call = some p → l.pc = .wUnlock g res true →
      Rel s l g (ix g p.key) (.wCell g)
  | tFail {j : Nat} : l.call = none → l.pc = .tCheck j → isList (getCell s s.cur j) = false →
      Rel s l s.cur j (.tCell j)
  | t {j : Nat} : l.call = none → l.pc = .tUnlock j → Rel s l s.cur j .tNext

/-- the store of a lock-holding writer: new cell and result -/
def storeCell (s : State) (g : Nat) (p : Pending) : Cell :=
  mkCell (newContent p.key (content (getCell s g (ix g p.key)))
    (specStep (lookup p.key (content (getCell s g (ix g p.key)))) p.op).1)
def storeRes (s : State) (g : Nat) (p : Pending) : KRes :=
  (specStep (lookup p.key (content (getCell s g (ix g p.key)))) p.op).2

inductive StepK (s : State) (t : Nat) (l : Local) : State → Prop
  | idle : l.pc = .idle → StepK s t l (setT (tick s) t l)
  | invoke (k : Nat) (op : KOp) : l.pc = .idle →
      StepK s t l (setT (tick s) t
        { pc := if isReader op then .rTable else .wTable, call := some ⟨k, op, s.now + 1⟩ })
  | resize : l.pc = .idle → s.resizing = false →
      StepK s t l { (setT (tick s) t { l with pc := .tNext }) with
                      resizing := true
                      tabs := s.tabs ++ [List.replicate (2 ^ (s.cur + 1)) .empty]
                      locks := s.locks ++ [List.replicate (2 ^ (s.cur + 1)) none] }
  | move (p : Pending) (pc' : Pc) : l.call = some p → Move s p l.pc pc' →
      StepK s t l (setT (tick s) t { l with pc := pc' })
  | tmove (pc' : Pc) : l.call = none → TMove s l.pc pc' →
      StepK s t l (setT (tick s) t { l with pc := pc' })
  | acq (g j : Nat) (pc' : Pc) : Acq s l g j pc' → getLock s g j = none →
      StepK s t l (setT (setLock (tick s) g j (some t)) t { l with pc := pc' })
  | rel (g j : Nat) (pc' : Pc) : Rel s l g j pc' →
      StepK s t l (setT (setLock (tick s) g j none) t { l with pc := pc' })
  | fin (p : Pending) (res : KRes) : l.call = some p → Fin s p l.pc res →
      StepK s t l (finish (tick s) t p res)
  | cas (p : Pending) (g v vi : Nat) : l.call = some p → l.pc = .wCas g →
      getCell s g (ix g p.key) = .empty → (p.op = .ins v vi ∨ p.op = .tryIns v vi) →
      StepK s t l (finish (setCell (tick s) g (ix g p.key) (.list [(p.key, (v, vi))])) t p .none)
  | store (p : Pending) (g : Nat) : l.call = some p → l.pc = .wStore g →
      StepK s t l (setT (setCell (tick s) g (ix g p.key) (storeCell s g p)) t
        { l with pc := .wUnlock g (storeRes s g p) false })
  | unlockFin (p : Pending) (g : Nat) (res : KRes) : l.call = some p → l.pc = .wUnlock g res false →
      StepK s t l (finish (setLock (tick s) g (ix g p.key) none) t p res)
  | casMoved (j : Nat) : l.call = none → l.pc = .tCasMoved j → getCell s s.cur j = .empty →
      StepK s t l (setT (setCell (tick s) s.cur j .moved) t { l with pc := .tNext })
  | storeLow (j : Nat) (lo hi : Cell) : l.call = none → l.pc = .tStoreLow j lo hi →
      StepK s t l (setT (setCell (tick s) (s.cur + 1) j lo) t { l with pc := .tStoreHigh j hi })
  | storeHigh (j : Nat) (hi : Cell) : l.call = none → l.pc = .tStoreHigh j hi →
      StepK s t l (setT (setCell (tick s) (s.cur + 1) (j + 2 ^ s.cur) hi) t { l with pc := .tStoreMoved j })
  | storeMoved (j : Nat) : l.call = none → l.pc = .tStoreMoved j →
      StepK s t l (setT (setCell (tick s) s.cur j .moved) t { l with pc := .tUnlock j })
  | commit : l.call = none → l.pc = .tCommit →
      StepK s t l { (setT (tick s) t { l with pc := .idle }) with cur := s.cur + 1, resizing := false }

theorem setT_self {s : State} {t : Nat} {l : Local} (hl : s.threads[t]? = some l) : setT s t l = s := by
  unfold setT
  obtain ⟨ht, rfl⟩ := List.getElem?_eq_some_iff.1 hl
  rw [List.set_getElem_self]

theorem step_stepK {s s' : State} {t : Nat} {l : Local} {inv : Option (Nat × KOp)} {rz : Bool} {pick : Nat}
    (hl : s.threads[t]? = some l) (hs : step s t inv rz pick = some s') : StepK s t l s' := by
  unfold step stepG at hs
  rw [hl] at hs
  simp only at hs
  obtain ⟨pc, call⟩ := l
  cases pc with
  | idle =>
    simp only at hs
    cases rz with
    | true =>
      simp only [if_true] at hs
      split at hs
      · simp only [Option.some.injEq] at hs
        subst hs
        have : tick s = setT (tick s) t ⟨.idle, call⟩ := (setT_self (s := tick s) hl).symm
        show StepK s t _ (tick s)
        rw [this]
        exact .idle rfl
      · rename_i hrz
        simp only [Option.some.injEq] at hs
        subst hs
        exact .resize rfl (by simpa using hrz)
    | false =>
      simp only [Bool.false_eq_true, if_false] at hs
      cases inv with
      | none =>
        simp only [Option.some.injEq] at hs
        subst hs
        have : tick s = setT (tick s) t ⟨.idle, call⟩ := (setT_self (s := tick s) hl).symm
        show StepK s t _ (tick s)
        rw [this]
        exact .idle rfl
      | some ko =>
        obtain ⟨k, op⟩ := ko
        simp only [Option.some.injEq] at hs
        subst hs
        exact .invoke k op rfl
  | rTable =>
    cases call with
    | none => simp at hs
    | some p =>
      simp only [Option.some.injEq] at hs
      subst hs
      exact StepK.move p _ rfl (by exact .rTable)
  | rCell g =>
    cases call with
    | none => simp at hs
    | some p =>
      simp only at hs
      split at hs
      · rename_i hc
        simp only [Option.some.injEq] at hs; subst hs
        exact StepK.fin p _ rfl (by exact .rEmpty hc)
      · rename_i hc
        simp only [Option.some.injEq] at hs; subst hs
        exact StepK.move p _ rfl (by exact .rMoved hc)
      · rename_i xs hc
        split at hs
        · rename_i hlk
          simp only [Option.some.injEq] at hs; subst hs
          exact StepK.fin p _ rfl (by exact .rMiss hc hlk)
        · rename_i v hlk
          simp only [Option.some.injEq] at hs; subst hs
          exact StepK.fin p _ rfl (by exact .rHit hc hlk)
  | wTable =>
    cases call with
    | none => simp at hs
    | some p =>
      simp only [Option.some.injEq] at hs
      subst hs
      exact StepK.move p _ rfl (by exact .wTable)
  | wCell g =>
    cases call with
    | none => simp at hs
    | some p =>
      simp only at hs
      split at hs
      · rename_i hc
        split at hs
        · rename_i v vi hop
          simp only [Option.some.injEq] at hs; subst hs
          exact StepK.move p _ rfl (by exact (.wEmpty hc ⟨v, vi, Or.inl hop⟩))
        · rename_i v vi hop
          simp only [Option.some.injEq] at hs; subst hs
          exact StepK.move p _ rfl (by exact (.wEmpty hc ⟨v, vi, Or.inr hop⟩))
        · rename_i h1 h2
          simp only [Option.some.injEq] at hs; subst hs
          have hni : ¬ insLike p.op := by
            rintro ⟨v, vi, h | h⟩
            · exact h1 v vi h
            · exact h2 v vi h
          exact StepK.fin p _ rfl (by exact (.wEmpty hc hni))
      · rename_i hc
        simp only [Option.some.injEq] at hs; subst hs
        exact StepK.move p _ rfl (by exact (.wMoved hc))
      · rename_i xs hc
        simp only [Option.some.injEq] at hs; subst hs
        exact StepK.move p _ rfl (by exact (.wList hc))
  | wCas g =>
    cases call with
    | none => simp at hs
    | some p =>
      simp only at hs
      split at hs
      · rename_i v vi hh hop
        simp only [Option.some.injEq] at hs; subst hs
        exact .cas p g v vi rfl rfl hh (Or.inl hop)
      · rename_i v vi hh hop
        simp only [Option.some.injEq] at hs; subst hs
        exact .cas p g v vi rfl rfl hh (Or.inr hop)
      · simp only [Option.some.injEq] at hs; subst hs
        exact StepK.move p _ rfl (by exact .casFail)
  | wLock g =>
    cases call with
    | none => simp at hs
    | some p =>
      simp only at hs
      cases hlk : getLock s g (ix g p.key) with
      | some x =>
        have : getLock { s with now := s.now + 1 } g (ix g p.key) = some x := hlk
        rw [this] at hs; simp at hs
      | none =>
        have : getLock { s with now := s.now + 1 } g (ix g p.key) = none := hlk
        rw [this] at hs
        simp only [Option.isSome_none, Bool.false_eq_true, if_false, Option.some.injEq] at hs
        subst hs
        exact StepK.acq g (ix g p.key) _ (.w rfl rfl) hlk
  | wCheck g =>
    cases call with
    | none => simp at hs
    | some p =>
      simp only [Bool.not_true, Bool.false_or] at hs
      cases hh : isList (getCell s g (ix g p.key)) with
      | true =>
        have : isList (getCell { s with now := s.now + 1 } g (ix g p.key)) = true := hh
        rw [this] at hs
        simp only [if_true, Option.some.injEq] at hs
        subst hs
        exact StepK.move p _ rfl (by exact (.checkOk hh))
      | false =>
        have : isList (getCell { s with now := s.now + 1 } g (ix g p.key)) = false := hh
        rw [this] at hs
        simp only [Bool.false_eq_true, if_false, Option.some.injEq] at hs
        subst hs
        exact StepK.move p _ rfl (by exact (.checkFail hh))
  | wStore g =>
    cases call with
    | none => simp at hs
    | some p =>
      simp only [Option.some.injEq] at hs
      subst hs
      exact .store p g rfl rfl
  | wUnlock g res retry =>
    cases call with
    | none => simp at hs
    | some p =>
      simp only at hs
      cases retry with
      | true =>
        simp only [if_true, Option.some.injEq] at hs
        subst hs
        exact StepK.rel g (ix g p.key) _ (.w rfl rfl)
      | false =>
        simp only [Bool.false_eq_true, if_false, Option.some.injEq] at hs
        subst hs
        exact .unlockFin p g res rfl rfl
  | tNext =>
    cases call with
    | some p => simp at hs
    | none =>
      simp only at hs
      cases hm : allMoved s with
      | true =>
        have : allMoved { s with now := s.now + 1 } = true := hm
        rw [this] at hs
        simp only [if_true, Option.some.injEq] at hs
        subst hs
        exact StepK.tmove _ rfl (by exact .nextDone hm)
      | false =>
        have : allMoved { s with now := s.now + 1 } = false := hm
        rw [this] at hs
        simp only [Bool.false_eq_true, if_false, Option.some.injEq] at hs
        subst hs
        exact StepK.tmove _ rfl (by exact .nextCell)
  | tCell j =>
    cases call with
    | some p => simp at hs
    | none =>
      simp only at hs
      split at hs
      · rename_i hc
        simp only [Option.some.injEq] at hs; subst hs
        exact StepK.tmove _ rfl (by exact .cellEmpty hc)
      · rename_i xs hc
        simp only [Option.some.injEq] at hs; subst hs
        exact StepK.tmove _ rfl (by exact .cellList hc)
      · rename_i hc
        simp only [Option.some.injEq] at hs; subst hs
        exact StepK.tmove _ rfl (by exact .cellMoved hc)
  | tCasMoved j =>
    cases call with
    | some p => simp at hs
    | none =>
      simp only at hs
      split at hs
      · rename_i hc
        simp only [Option.some.injEq] at hs; subst hs
        exact .casMoved j rfl rfl hc
      · rename_i hc
        simp only [Option.some.injEq] at hs; subst hs
        exact StepK.tmove _ rfl (by exact .casFail hc)
  | tLock j =>
    cases call with
    | some p => simp at hs
    | none =>
      simp only at hs
      cases hlk : getLock s s.cur j with
      | some x =>
        have : getLock { s with now := s.now + 1 } s.cur j = some x := hlk
        rw [this] at hs; simp at hs
      | none =>
        have : getLock { s with now := s.now + 1 } s.cur j = none := hlk
        rw [this] at hs
        simp only [Option.isSome_none, Bool.false_eq_true, if_false, Option.some.injEq] at hs
        subst hs
        exact StepK.acq s.cur j _ (.t rfl rfl) hlk
  | tCheck j =>
    cases call with
    | some p => simp at hs
    | none =>
      simp only at hs
      split at hs
      · rename_i xs hc
        simp only [Option.some.injEq] at hs; subst hs
        exact StepK.tmove _ rfl (by exact .checkOk hc)
      · rename_i hc
        simp only [Option.some.injEq] at hs; subst hs
        refine StepK.rel s.cur j _ (.tFail rfl rfl ?_)
        cases hcc : getCell s s.cur j with
        | list xs => exact absurd hcc (hc xs)
        | empty => rfl
        | moved => rfl
  | tStoreLow j lo hi =>
    cases call with
    | some p => simp at hs
    | none =>
      simp only [Option.some.injEq] at hs
      subst hs
      exact .storeLow j lo hi rfl rfl
  | tStoreHigh j hi =>
    cases call with
    | some p => simp at hs
    | none =>
      simp only [Option.some.injEq] at hs
      subst hs
      exact .storeHigh j hi rfl rfl
  | tStoreMoved j =>
    cases call with
    | some p => simp at hs
    | none =>
      simp only [Option.some.injEq] at hs
      subst hs
      exact .storeMoved j rfl rfl
  | tUnlock j =>
    cases call with
    | some p => simp at hs
    | none =>
      simp only [Option.some.injEq] at hs
      subst hs
      exact StepK.rel s.cur j _ (.t rfl rfl)
  | tCommit =>
    cases call with
    | some p => simp at hs
    | none =>
      simp only [Option.some.injEq] at hs
      subst hs
      exact .commit rfl rfl

end Flurry.Proto.BinNA
