import Flurry.Lemmas.BinRBGhost
/-! # Proto/Bin: the ghost invariant holds in every reachable state (C01)

(C13 port of `Flurry/Lemmas/BinLin.lean` to the per-key operations of `Flurry/Lin2.lean`, i.e. with `retain`'s conditional removal `condRm`; below, "`Proto/Bin`" / `Base.` is `Flurry.Proto.BinR.Base` (`Proto/BinRBase.lean`) and "`Proto/BinW`" is `Flurry.Proto.BinR` (`Proto/BinR.lean`), which in addition has the `retain` visit steps.)

`ginv_step`: every transition preserves `∃ A pt, GInv k s A pt`. Linearization points:
writers through the lock at their `wWrite` step, the lock-free insert at its successful CAS,
writers that find the bin empty at their `wHead` step, readers in hindsight (from `Good`). -/
namespace Flurry.Proto.BinR.Base
open Flurry.Lin2

/-- point-wise update of the point assignment -/
def updPt (pt : Nat → Nat) (i τ : Nat) : Nat → Nat := fun j => if j = i then τ else pt j

theorem updPt_self (pt : Nat → Nat) (i τ : Nat) : updPt pt i τ i = τ := by
  unfold updPt; rw [if_pos rfl]

theorem updPt_ne (pt : Nat → Nat) {i j : Nat} (τ : Nat) (h : j ≠ i) : updPt pt i τ j = pt j := by
  unfold updPt; rw [if_neg h]

/-- the readers' justifications survive a transition -/
theorem readers_step {k : Nat} {s s' : State} {A : Nat → KSt} {pt : Nat → Nat} {t : Nat} {l' : Local}
    (g : GInv k s A pt) (I : Inv s) (hs : HeapStep s s')
    (hthr : s'.threads = s.threads.set t l') (hnow : s'.now = s.now + 1) (x : KSt)
    (hself : ∀ (p : Pending) (cur : Option Nat), l'.call = some p → p.key = k → l'.pc = .rNode cur →
      p.inv ≤ s.now ∧ Good A k p.inv s cur) :
    ∀ (t1 : Nat) (l1 : Local) (p1 : Pending) (cur : Option Nat), s'.threads[t1]? = some l1 →
      l1.call = some p1 → p1.key = k → l1.pc = .rNode cur → Good (nextA A s.now x) k p1.inv s' cur := by
  intro t1 l1 p1 cur h1 hc1 hk1 hpc1
  rw [hthr] at h1
  rcases get_set h1 with ⟨rfl, rfl⟩ | ⟨_, h1⟩
  · obtain ⟨hi, hg⟩ := hself p1 cur hc1 hk1 hpc1
    exact hg.step I.heap hs hnow (fun τ h => nextA_old h) g.hA hi
  · exact (g.readers t1 l1 p1 cur h1 hc1 hk1 hpc1).step I.heap hs hnow (fun τ h => nextA_old h) g.hA
      (I.thr.pendTime t1 l1 p1 h1 hc1)

/-- transitions that add no call on `k` and do not change the abstract state of `k` -/
theorem ginv_quiet {k : Nat} {s s' : State} {A : Nat → KSt} {pt : Nat → Nat} {t : Nat} {l l' : Local}
    {hnew : List (Nat × Call2)}
    (g : GInv k s A pt) (I : Inv s) (hs : HeapStep s s')
    (hl : s.threads[t]? = some l) (hthr : s'.threads = s.threads.set t l') (hnow : s'.now = s.now + 1)
    (hhist : s'.hist = hnew ++ s.hist) (hnk : ∀ c, (k, c) ∉ hnew)
    (habs : absOf s' k = absOf s k)
    (he : extOf k s.now t l = none) (he' : extOf k (s.now + 1) t l' = none)
    (hself : ∀ (p : Pending) (cur : Option Nat), l'.call = some p → p.key = k → l'.pc = .rNode cur →
      p.inv ≤ s.now ∧ Good A k p.inv s cur) :
    GInv k s' (nextA A s.now (absOf s' k)) pt := by
  refine g.frame (i0 := 0) I.thr hnow (fun _ _ => rfl) ?_ ?_ (fun h => absurd habs h)
    (readers_step g I hs hthr hnow _ hself)
  · intro c hc
    rcases ext_forward hl hthr hnow hhist c hc with h | h
    · exact h
    · rw [he] at h; cases h
  · intro c' hc'
    rcases ext_backward hthr hnow hhist c' hc' with h | h | h
    · exact Or.inl h
    · exact absurd h (hnk c')
    · rw [he'] at h; cases h

/-- transitions that add the call `c0` of thread `t` (to the history or as a stored writer) -/
theorem ginv_new {k : Nat} {s s' : State} {A : Nat → KSt} {pt : Nat → Nat} {t : Nat} {l l' : Local}
    {hnew : List (Nat × Call2)} {p : Pending} {c0 : Call2} {τ0 : Nat}
    (g : GInv k s A pt) (I : Inv s) (hs : HeapStep s s')
    (hl : s.threads[t]? = some l) (hp : l.call = some p)
    (hthr : s'.threads = s.threads.set t l') (hnow : s'.now = s.now + 1)
    (hhist : s'.hist = hnew ++ s.hist)
    (he : extOf k s.now t l = none)
    (honly : ∀ c', (k, c') ∈ hnew ∨ extOf k (s.now + 1) t l' = some c' → c' = c0)
    (hmem : c0 ∈ callsOnExt s' k)
    (hinv0 : c0.inv = p.inv)
    (hok : CallOK (nextA A s.now (absOf s' k)) (updPt pt p.inv τ0) c0)
    (hw : isRead c0.op = false → τ0 = s.now + 1)
    (hchg : absOf s' k ≠ absOf s k → isRead c0.op = false)
    (hself : ∀ (p : Pending) (cur : Option Nat), l'.call = some p → p.key = k → l'.pc = .rNode cur →
      p.inv ≤ s.now ∧ Good A k p.inv s cur) :
    GInv k s' (nextA A s.now (absOf s' k)) (updPt pt p.inv τ0) := by
  refine g.frame (i0 := p.inv) I.thr hnow ?_ ?_ ?_ ?_ (readers_step g I hs hthr hnow _ hself)
  · intro c hc
    exact updPt_ne pt τ0 (inv_ne_of_mem_callsOnExt I.thr hl hp he hc)
  · intro c hc
    rcases ext_forward hl hthr hnow hhist c hc with h | h
    · exact h
    · rw [he] at h; cases h
  · intro c' hc'
    rcases ext_backward hthr hnow hhist c' hc' with h | h | h
    · exact Or.inl h
    · have := honly c' (Or.inl h); subst this
      exact Or.inr ⟨hinv0, hok, fun hwr => by rw [hinv0, updPt_self]; exact hw hwr⟩
    · have := honly c' (Or.inr h); subst this
      exact Or.inr ⟨hinv0, hok, fun hwr => by rw [hinv0, updPt_self]; exact hw hwr⟩
  · intro hne
    have hwr := hchg hne
    exact ⟨c0, hmem, hwr, by rw [hinv0, updPt_self]; exact hw hwr⟩

theorem Move.not_ext {s : State} {p : Pending} {pc pc' : Pc} (h : Move s p pc pc') :
    (∀ h res, pc ≠ .wUnlock h res false) ∧ (∀ h res, pc' ≠ .wUnlock h res false) := by
  cases h <;> exact ⟨by intro h res; simp, by intro h res; simp⟩

theorem LockMove.not_ext {s : State} {t h : Nat} {x : Option Nat} {pc pc' : Pc}
    (hm : LockMove s t pc h x pc') :
    (∀ h res, pc ≠ .wUnlock h res false) ∧ (∀ h res, pc' ≠ .wUnlock h res false) ∧ ∀ cur, pc' ≠ .rNode cur := by
  cases hm <;> exact ⟨by intro h res; simp, by intro h res; simp, by intro cur; simp⟩

theorem Fin.not_ext {s : State} {p : Pending} {pc : Pc} {res : KRes} (h : Fin s p pc res) :
    ∀ h res, pc ≠ .wUnlock h res false := by
  cases h <;> (intro h res; simp)

theorem Move.good {s : State} {p : Pending} {pc pc' : Pc} (h : Move s p pc pc') {cur : Option Nat}
    (hc : pc' = .rNode cur) :
    (pc = .rHead ∧ cur = s.head) ∨
    (∃ c n, pc = .rNode (some c) ∧ s.heap[c]? = some n ∧ n.key ≠ p.key ∧ cur = n.next) := by
  cases h with
  | rHead => cases hc; exact Or.inl ⟨rfl, rfl⟩
  | rNext hn hk => cases hc; exact Or.inr ⟨_, _, rfl, hn, hk, rfl⟩
  | toCas _ => cases hc
  | toLock _ => cases hc
  | casFail => cases hc
  | checkOk _ => cases hc
  | checkFail => cases hc

theorem extOf_idle (k now t : Nat) : extOf k now t { pc := .idle, call := none } = none := rfl

/-- the point of a call that completes without a store -/
theorem fin_point {k : Nat} {s : State} {A : Nat → KSt} {pt : Nat → Nat} {t : Nat} {l : Local}
    {p : Pending} {res : KRes}
    (g : GInv k s A pt) (I : Inv s) (hl : s.threads[t]? = some l) (hp : l.call = some p)
    (hk : p.key = k) (hf : Fin s p l.pc res) :
    ∃ τ0, p.inv ≤ τ0 ∧ τ0 ≤ s.now + 1 ∧
      (isRead p.op = true →
        specStep2 (nextA A s.now (absOf s k) τ0) p.op = (nextA A s.now (absOf s k) τ0, res)) ∧
      (isRead p.op = false → τ0 = s.now + 1 ∧
        specStep2 (nextA A s.now (absOf s k) s.now) p.op = (nextA A s.now (absOf s k) (s.now + 1), res)) := by
  have hop := I.thr.opOK t l p hl hp
  have hpi := I.thr.pendTime t l p hl hp
  obtain ⟨pc, call⟩ := l
  simp only at hp hf hop
  subst hp
  cases hf with
  | miss =>
    have hrd : isRead p.op = true := by rw [← isReader_eq_isRead]; exact hop
    obtain ⟨τ, h1, h2, h3⟩ := (g.readers t _ p none hl rfl hk rfl).miss
    refine ⟨τ, h1, by omega, ?_, fun h => by rw [hrd] at h; cases h⟩
    intro _
    rw [nextA_old h2, h3]
    cases hop' : p.op <;> rw [hop'] at hrd <;> first | rfl | cases hrd
  | @hit c n hn hkey =>
    have hrd : isRead p.op = true := by rw [← isReader_eq_isRead]; exact hop
    have hnode := nodeAt_of_some hn
    obtain ⟨τ, h1, h2, h3⟩ := (g.readers t _ p (some c) hl rfl hk rfl).hit I.heap g.hA hpi
      (by rw [hnode, hkey, hk])
    refine ⟨τ, h1, by omega, ?_, fun h => by rw [hrd] at h; cases h⟩
    intro _
    rw [nextA_old h2, h3, hnode]
    cases hop' : p.op <;> rw [hop'] at hrd <;> first | rfl | cases hrd
  | emptyBin hh hnot =>
    have hwr : isRead p.op = false := by rw [← isReader_eq_isRead]; exact hop
    refine ⟨s.now + 1, by omega, Nat.le_refl _, fun h => (by rw [hwr] at h; cases h), fun _ => ⟨rfl, ?_⟩⟩
    have hnone : absOf s k = none := by
      rw [absOf_eq_none_iff, chain_head_none I.heap hh]; intro i hi; cases hi
    rw [nextA_old (Nat.le_refl _), nextA_new, g.hA, hnone]
    cases hop' : p.op with
    | ins v vi => exact absurd hop' (hnot v vi).1
    | tryIns v vi => exact absurd hop' (hnot v vi).2
    | get => rw [hop'] at hwr; cases hwr
    | has => rw [hop'] at hwr; cases hwr
    | rm => rfl
    | cipInc nvi => rfl
    | cipRm => rfl
    | condRm vi => rfl

theorem mem_singleton_key {k k' : Nat} {c c0 : Call2} (h : (k, c) ∈ [(k', c0)]) : k = k' ∧ c = c0 := by
  simp only [List.mem_singleton, Prod.mk.injEq] at h
  exact h

/-- **every transition preserves the ghost invariant** -/
theorem ginv_step {k : Nat} {s s' : State} {A : Nat → KSt} {pt : Nat → Nat} {t : Nat} {l : Local}
    (g : GInv k s A pt) (I : Inv s) (hl : s.threads[t]? = some l) (hstep : StepK s t l s') :
    ∃ A' pt', GInv k s' A' pt' := by
  have hhs := (stepK_heap I.heap I.thr hl hstep).2
  cases hstep with
  | idle hpc =>
    have he : ∀ now, extOf k now t l = none := fun now =>
      extOf_none_of_pc (by rw [hpc]; intro h res; simp)
    refine ⟨_, _, ginv_quiet (hnew := []) g I hhs hl rfl rfl rfl (by simp) (absOf_congr rfl rfl k)
      (he _) (he _) ?_⟩
    intro p cur _ _ hc
    rw [hpc] at hc; cases hc
  | invoke k' op hpc =>
    refine ⟨_, _, ginv_quiet (hnew := []) g I hhs hl rfl rfl rfl (by simp) (absOf_congr rfl rfl k)
      (extOf_none_of_pc (by rw [hpc]; intro h res; simp))
      (extOf_none_of_pc (by intro h res; cases isReader op <;> simp)) ?_⟩
    intro p cur _ _ hc
    cases hr : isReader op <;> simp [hr] at hc
  | move p pc' hp hm =>
    refine ⟨_, _, ginv_quiet (hnew := []) g I hhs hl rfl rfl rfl (by simp) (absOf_congr rfl rfl k)
      (extOf_none_of_pc hm.not_ext.1) (extOf_none_of_pc hm.not_ext.2) ?_⟩
    intro p1 cur hc1 hk1 hpc1
    simp only at hc1 hpc1
    have hpp : p1 = p := by rw [hp] at hc1; exact (Option.some.inj hc1).symm
    subst hpp
    have hpi := I.thr.pendTime t l p1 hl hp
    refine ⟨hpi, ?_⟩
    rcases hm.good hpc1 with ⟨_, rfl⟩ | ⟨c, n, hpc, hn, hne, rfl⟩
    · exact Good.head I.heap g.hA hpi
    · have hnode := nodeAt_of_some hn
      have := (g.readers t l p1 (some c) hl hp hk1 hpc).next I.heap g.hA hpi (by rw [hnode, ← hk1]; exact hne)
      rw [hnode] at this
      exact this
  | lockMove p h x pc' hp hm =>
    refine ⟨_, _, ginv_quiet (hnew := []) g I hhs hl rfl rfl rfl (by simp)
      (modify_absOf_same (s' := setT (setNode (tick s) h (fun m => { m with lock := x })) t { l with pc := pc' })
        I.heap rfl rfl (lock_frame x) (fun _ => rfl) k)
      (extOf_none_of_pc hm.not_ext.1) (extOf_none_of_pc hm.not_ext.2.1) ?_⟩
    intro p1 cur _ _ hpc1
    exact absurd hpc1 (hm.not_ext.2.2 cur)
  | fin p res hp hf =>
    have habs : ∀ k, absOf (finish (tick s) t p res) k = absOf s k := absOf_congr rfl rfl
    by_cases hk : p.key = k
    · obtain ⟨τ0, h1, h2, h3, h4⟩ := fin_point g I hl hp hk hf
      refine ⟨_, _, ginv_new (hnew := [(p.key, ⟨t, p.op, res, p.inv, s.now + 1⟩)]) (τ0 := τ0)
        (c0 := ⟨t, p.op, res, p.inv, s.now + 1⟩) g I hhs hl hp rfl rfl rfl
        (extOf_none_of_pc hf.not_ext) ?_ ?_ rfl ?_ ?_ ?_ ?_⟩
      · rintro c' (hc' | hc')
        · exact (mem_singleton_key hc').2
        · rw [extOf_idle] at hc'; cases hc'
      · refine mem_callsOnExt.2 (Or.inl ?_)
        show (k, _) ∈ (p.key, _) :: s.hist
        rw [hk]; exact List.mem_cons_self
      · rw [habs k]
        refine ⟨?_, ?_, ?_, ?_⟩
        · show p.inv ≤ updPt pt p.inv τ0 p.inv
          rw [updPt_self]; exact h1
        · show updPt pt p.inv τ0 p.inv ≤ s.now + 1
          rw [updPt_self]; exact h2
        · show isRead p.op = true → specStep2 (nextA A s.now (absOf s k) (updPt pt p.inv τ0 p.inv)) p.op = (_, res)
          rw [updPt_self]; exact h3
        · show isRead p.op = false → 1 ≤ updPt pt p.inv τ0 p.inv ∧
            specStep2 (nextA A s.now (absOf s k) (updPt pt p.inv τ0 p.inv - 1)) p.op = (nextA A s.now (absOf s k) (updPt pt p.inv τ0 p.inv), res)
          rw [updPt_self]
          intro hw
          obtain ⟨rfl, h5⟩ := h4 hw
          exact ⟨by omega, by rw [Nat.add_sub_cancel]; exact h5⟩
      · intro hw; exact (h4 hw).1
      · intro hne; exact absurd (habs k) hne
      · intro p1 cur hc1; cases hc1
    · refine ⟨_, _, ginv_quiet (hnew := [(p.key, ⟨t, p.op, res, p.inv, s.now + 1⟩)]) g I hhs hl rfl rfl rfl
        ?_ (habs k) (extOf_none_of_pc hf.not_ext) (extOf_idle _ _ _) ?_⟩
      · intro c hc; exact hk (mem_singleton_key hc).1.symm
      · intro p1 cur hc1; cases hc1
  | cas p v vi hp hpc hh hop =>
    obtain ⟨-, -, habs⟩ := cas_effect I.heap hh t p v vi
    have hwr : isRead p.op = false := by rw [← isReader_eq_isRead]; exact isReader_of_insLike hop
    have hpi := I.thr.pendTime t l p hl hp
    by_cases hk : p.key = k
    · have hnone : absOf s k = none := by
        rw [absOf_eq_none_iff, chain_head_none I.heap hh]; intro i hi; cases hi
      refine ⟨_, _, ginv_new (hnew := [(p.key, ⟨t, p.op, .none, p.inv, s.now + 1⟩)]) (τ0 := s.now + 1)
        (c0 := ⟨t, p.op, .none, p.inv, s.now + 1⟩) g I hhs hl hp rfl rfl rfl
        (extOf_none_of_pc (by rw [hpc]; intro h res; simp)) ?_ ?_ rfl ?_ (fun _ => rfl) (fun _ => hwr) ?_⟩
      · rintro c' (hc' | hc')
        · exact (mem_singleton_key hc').2
        · rw [extOf_idle] at hc'; cases hc'
      · refine mem_callsOnExt.2 (Or.inl ?_)
        show (k, _) ∈ (p.key, _) :: s.hist
        rw [hk]; exact List.mem_cons_self
      · rw [habs k, if_pos hk]
        refine ⟨?_, ?_, ?_, ?_⟩
        · show p.inv ≤ updPt pt p.inv (s.now + 1) p.inv
          rw [updPt_self]; omega
        · show updPt pt p.inv (s.now + 1) p.inv ≤ s.now + 1
          rw [updPt_self]; exact Nat.le_refl _
        · intro hr; rw [hwr] at hr; cases hr
        · show isRead p.op = false → 1 ≤ updPt pt p.inv (s.now + 1) p.inv ∧
            specStep2 (nextA A s.now (some (v, vi)) (updPt pt p.inv (s.now + 1) p.inv - 1)) p.op =
              (nextA A s.now (some (v, vi)) (updPt pt p.inv (s.now + 1) p.inv), .none)
          rw [updPt_self]
          intro _
          refine ⟨by omega, ?_⟩
          rw [Nat.add_sub_cancel, nextA_old (Nat.le_refl _), nextA_new, g.hA, hnone]
          rcases hop with hop | hop <;> rw [hop] <;> rfl
      · intro p1 cur hc1; cases hc1
    · refine ⟨_, _, ginv_quiet (hnew := [(p.key, ⟨t, p.op, .none, p.inv, s.now + 1⟩)]) g I hhs hl rfl rfl rfl
        ?_ (by rw [habs k, if_neg hk]) (extOf_none_of_pc (by rw [hpc]; intro h res; simp)) (extOf_idle _ _ _) ?_⟩
      · intro c hc; exact hk (mem_singleton_key hc).1.symm
      · intro p1 cur hc1; cases hc1
  | write p h hp hpc =>
    have hop := I.thr.opOK t l p hl hp
    rw [hpc] at hop
    have hwr : isRead p.op = false := by rw [← isReader_eq_isRead]; exact hop
    have hpi := I.thr.pendTime t l p hl hp
    obtain ⟨-, -, -, -, -, hspec, hother⟩ := writerStore_spec (s := tick s) (I.heap.congr rfl rfl) p hop
    obtain ⟨hthr, hhist, hnow⟩ := writerStore_frame (tick s) p
    have hthr' : (setT (writerStore (tick s) p).1 t
        { l with pc := .wUnlock h (writerStore (tick s) p).2 false }).threads =
        s.threads.set t { l with pc := .wUnlock h (writerStore (tick s) p).2 false } := by
      show (writerStore (tick s) p).1.threads.set t _ = _
      rw [hthr]; rfl
    have hnow' : (setT (writerStore (tick s) p).1 t
        { l with pc := .wUnlock h (writerStore (tick s) p).2 false }).now = s.now + 1 := hnow
    have hhist' : (setT (writerStore (tick s) p).1 t
        { l with pc := .wUnlock h (writerStore (tick s) p).2 false }).hist = [] ++ s.hist := hhist
    have habs : ∀ k, absOf (setT (writerStore (tick s) p).1 t
        { l with pc := .wUnlock h (writerStore (tick s) p).2 false }) k = absOf (writerStore (tick s) p).1 k :=
      absOf_congr rfl rfl
    by_cases hk : p.key = k
    · have hext : extOf k (s.now + 1) t { l with pc := .wUnlock h (writerStore (tick s) p).2 false } =
          some ⟨t, p.op, (writerStore (tick s) p).2, p.inv, s.now + 1⟩ :=
        extOf_eq_some.2 ⟨h, _, p, rfl, hp, hk, rfl⟩
      refine ⟨_, _, ginv_new (hnew := []) (τ0 := s.now + 1)
        (c0 := ⟨t, p.op, (writerStore (tick s) p).2, p.inv, s.now + 1⟩) g I hhs hl hp hthr' hnow' hhist'
        (extOf_none_of_pc (by rw [hpc]; intro h res; simp)) ?_ ?_ rfl ?_ (fun _ => rfl) (fun _ => hwr) ?_⟩
      · rintro c' (hc' | hc')
        · cases hc'
        · rw [hext] at hc'; cases hc'; rfl
      · refine mem_callsOnExt.2 (Or.inr ⟨t, { l with pc := .wUnlock h (writerStore (tick s) p).2 false }, ?_, ?_⟩)
        · rw [hthr']; exact get_set_self hl
        · rw [hnow']; exact hext
      · rw [habs k]
        refine ⟨?_, ?_, ?_, ?_⟩
        · show p.inv ≤ updPt pt p.inv (s.now + 1) p.inv
          rw [updPt_self]; omega
        · show updPt pt p.inv (s.now + 1) p.inv ≤ s.now + 1
          rw [updPt_self]; exact Nat.le_refl _
        · intro hr; rw [hwr] at hr; cases hr
        · show isRead p.op = false → 1 ≤ updPt pt p.inv (s.now + 1) p.inv ∧
            specStep2 (nextA A s.now _ (updPt pt p.inv (s.now + 1) p.inv - 1)) p.op =
              (nextA A s.now _ (updPt pt p.inv (s.now + 1) p.inv), (writerStore (tick s) p).2)
          rw [updPt_self]
          intro _
          refine ⟨by omega, ?_⟩
          rw [Nat.add_sub_cancel, nextA_old (Nat.le_refl _), nextA_new, g.hA, ← hk]
          exact hspec
      · intro p1 cur _ _ hc1; cases hc1
    · refine ⟨_, _, ginv_quiet (hnew := []) g I hhs hl hthr' hnow' hhist' (by simp)
        (by rw [habs k]; exact hother k (fun h => hk h.symm))
        (extOf_none_of_pc (by rw [hpc]; intro h res; simp)) ?_ ?_⟩
      · cases he : extOf k (s.now + 1) t { l with pc := .wUnlock h (writerStore (tick s) p).2 false } with
        | none => rfl
        | some c =>
          obtain ⟨_, _, p', _, hcall, hk', _⟩ := extOf_eq_some.1 he
          simp only at hcall
          rw [hp] at hcall; cases hcall
          exact absurd hk' hk
      · intro p1 cur _ _ hc1; cases hc1
  | unlockFin p h res hp hpc =>
    have habs : ∀ k, absOf (finish (setNode (tick s) h (fun m => { m with lock := none })) t p res) k = absOf s k :=
      modify_absOf_same I.heap rfl rfl (lock_frame none) (fun _ => rfl)
    by_cases hk : p.key = k
    · have hext : extOf k s.now t l = some ⟨t, p.op, res, p.inv, s.now⟩ :=
        extOf_eq_some.2 ⟨h, res, p, hpc, hp, hk, rfl⟩
      have hsim : Sim ⟨t, p.op, res, p.inv, s.now⟩ ⟨t, p.op, res, p.inv, s.now + 1⟩ :=
        ⟨rfl, rfl, rfl, rfl, Nat.le_succ _⟩
      have hold : (⟨t, p.op, res, p.inv, s.now⟩ : Call2) ∈ callsOnExt s k :=
        mem_callsOnExt.2 (Or.inr ⟨t, l, hl, hext⟩)
      have hnew : (⟨t, p.op, res, p.inv, s.now + 1⟩ : Call2) ∈
          callsOnExt (finish (setNode (tick s) h (fun m => { m with lock := none })) t p res) k := by
        refine mem_callsOnExt.2 (Or.inl ?_)
        show (k, _) ∈ (p.key, _) :: s.hist
        rw [hk]; exact List.mem_cons_self
      refine ⟨_, _, g.frame (i0 := 0) (pt' := pt) I.thr rfl (fun _ _ => rfl) ?_ ?_ (fun hne => absurd (habs k) hne)
        (readers_step (l' := { pc := .idle, call := none }) g I hhs rfl rfl _ ?_)⟩
      · intro c hc
        rcases ext_forward (s' := finish (setNode (tick s) h (fun m => { m with lock := none })) t p res)
          (l' := { pc := .idle, call := none })
          (hnew := [(p.key, ⟨t, p.op, res, p.inv, s.now + 1⟩)]) hl rfl rfl rfl c hc with h | h
        · exact h
        · rw [hext] at h; cases h
          exact ⟨_, hnew, hsim⟩
      · intro c' hc'
        rcases ext_backward (s := s) (l' := { pc := .idle, call := none })
          (hnew := [(p.key, ⟨t, p.op, res, p.inv, s.now + 1⟩)]) rfl rfl rfl c' hc' with h | h | h
        · exact Or.inl h
        · have := (mem_singleton_key h).2; subst this
          exact Or.inl ⟨_, hold, hsim⟩
        · rw [extOf_idle] at h; cases h
      · intro p1 cur hc1; cases hc1
    · refine ⟨_, _, ginv_quiet (hnew := [(p.key, ⟨t, p.op, res, p.inv, s.now + 1⟩)])
        (l' := { pc := .idle, call := none }) g I hhs hl rfl rfl rfl
        ?_ (habs k) ?_ (extOf_idle _ _ _) ?_⟩
      · intro c hc; exact hk (mem_singleton_key hc).1.symm
      · cases he : extOf k s.now t l with
        | none => rfl
        | some c =>
          obtain ⟨_, _, p', _, hcall, hk', _⟩ := extOf_eq_some.1 he
          rw [hp] at hcall; cases hcall
          exact absurd hk' hk
      · intro p1 cur hc1; cases hc1

end Flurry.Proto.BinR.Base
