import Flurry.Proto.Reclaim2
/-! # Proto/Reclaim2: the invariant of the generalised discipline (C03, C04) -/
namespace Flurry.Proto.Reclaim2

/-- thread `t` may hold a pointer to an object in this state -/
def Holdable (t : Nat) : OSt → Prop
  | .fresh => True
  | .linked => True
  | .unlinked u => t ∈ u
  | .retired u _ => t ∈ u
  | .freed => False

structure Inv (s : State) : Prop where
  /-- the reader invariant: a pointer is held only under a guard, to an object that is not yet unlinked or was
  unlinked while the holder was under its current guard -/
  hold : ∀ t o, o ∈ s.holds t → s.guarded t = true ∧ o < s.nobjs ∧ Holdable t (s.objs o)
  sub : ∀ o u w, s.objs o = .retired u w → u ⊆ w
  thr : ∀ t, s.guarded t = true → t < s.nthreads
  ug : ∀ o u, (s.objs o = .unlinked u ∨ ∃ w, s.objs o = .retired u w) → ∀ x ∈ u, s.guarded x = true
  fresh : ∀ o, s.nobjs ≤ o → s.objs o = .fresh
  frees : ∀ o, s.frees o = if s.objs o = .freed then 1 else 0
  bad : s.badTouches = 0

theorem mem_active {s : State} (I : Inv s) {x : Nat} : x ∈ active s ↔ s.guarded x = true := by
  unfold active
  rw [List.mem_filter, List.mem_range]
  exact ⟨fun h => h.2, fun h => ⟨I.thr x h, h⟩⟩

theorem acquirable_holdable {t : Nat} {st : OSt} (h : acquirable t st = true) : Holdable t st := by
  cases st <;> simp_all [acquirable, Holdable]

theorem holdable_prune {t t0 : Nat} {st : OSt} (hne : t ≠ t0) (h : Holdable t st) : Holdable t (prune t0 st) := by
  cases st with
  | unlinked u => simp only [prune, Holdable, List.mem_filter] at h ⊢; exact ⟨h, by simpa using hne⟩
  | retired u w => simp only [prune, Holdable, List.mem_filter] at h ⊢; exact ⟨h, by simpa using hne⟩
  | _ => exact h

theorem prune_freed {t0 : Nat} {st : OSt} : prune t0 st = .freed ↔ st = .freed := by
  cases st <;> simp [prune]

theorem prune_fresh {t0 : Nat} {st : OSt} : prune t0 st = .fresh ↔ st = .fresh := by
  cases st <;> simp [prune]

theorem Inv.init (n : Nat) : Inv (init n) := by
  refine ⟨?_, ?_, ?_, ?_, ?_, ?_, rfl⟩
  · intro t o h; cases h
  · intro o u w h; cases h
  · intro t h; cases h
  · intro o u h; rcases h with h | ⟨w, h⟩ <;> cases h
  · intro o _; rfl
  · intro o; rfl

theorem Inv.step {s s' : State} {e : Ev} (I : Inv s) (h : Reclaim2.step s e = some s') : Inv s' := by
  cases e with
  | enter t =>
    unfold Reclaim2.step at h; simp only at h
    split at h
    · rename_i hc
      cases h
      refine ⟨?_, I.sub, ?_, ?_, I.fresh, I.frees, I.bad⟩
      · intro t1 o ho
        obtain ⟨h1, h2, h3⟩ := I.hold t1 o ho
        refine ⟨?_, h2, h3⟩
        show (if t1 = t then true else s.guarded t1) = true
        split <;> simp [h1]
      · intro t1 ht1
        have ht1' : (if t1 = t then true else s.guarded t1) = true := ht1
        by_cases e : t1 = t
        · rw [e]; exact hc.1
        · rw [if_neg e] at ht1'; exact I.thr t1 ht1'
      · intro o u ho x hx
        show (if x = t then true else s.guarded x) = true
        have := I.ug o u ho x hx
        split <;> simp [this]
    · cases h
  | exit t =>
    unfold Reclaim2.step at h; simp only at h
    split at h
    · rename_i hc
      cases h
      refine ⟨?_, ?_, ?_, ?_, ?_, ?_, I.bad⟩
      · intro t1 o ho
        have ho' : o ∈ (if t1 = t then [] else s.holds t1) := ho
        by_cases e : t1 = t
        · rw [if_pos e] at ho'; cases ho'
        · rw [if_neg e] at ho'
          obtain ⟨h1, h2, h3⟩ := I.hold t1 o ho'
          refine ⟨?_, h2, holdable_prune e h3⟩
          show (if t1 = t then false else s.guarded t1) = true
          rw [if_neg e]; exact h1
      · intro o u w ho
        have ho' : prune t (s.objs o) = .retired u w := ho
        cases hs : s.objs o with
        | retired u0 w0 =>
          rw [hs] at ho'
          simp only [prune, OSt.retired.injEq] at ho'
          obtain ⟨rfl, rfl⟩ := ho'
          intro x hx
          rw [List.mem_filter] at hx ⊢
          exact ⟨I.sub o u0 w0 hs hx.1, hx.2⟩
        | fresh => rw [hs] at ho'; simp [prune] at ho'
        | linked => rw [hs] at ho'; simp [prune] at ho'
        | unlinked u0 => rw [hs] at ho'; simp [prune] at ho'
        | freed => rw [hs] at ho'; simp [prune] at ho'
      · intro t1 ht1
        have ht1' : (if t1 = t then false else s.guarded t1) = true := ht1
        by_cases e : t1 = t
        · rw [if_pos e] at ht1'; cases ht1'
        · rw [if_neg e] at ht1'; exact I.thr t1 ht1'
      · intro o u ho x hx
        show (if x = t then false else s.guarded x) = true
        have key : ∃ u0, (s.objs o = .unlinked u0 ∨ ∃ w, s.objs o = .retired u0 w) ∧ u = u0.filter (· != t) := by
          cases hs : s.objs o with
          | retired u0 w0 =>
            rcases ho with ho | ⟨w, ho⟩
            · have ho' : prune t (s.objs o) = .unlinked u := ho
              rw [hs] at ho'; simp [prune] at ho'
            · have ho' : prune t (s.objs o) = .retired u w := ho
              rw [hs] at ho'; simp only [prune, OSt.retired.injEq] at ho'
              exact ⟨u0, Or.inr ⟨w0, rfl⟩, ho'.1.symm⟩
          | unlinked u0 =>
            rcases ho with ho | ⟨w, ho⟩
            · have ho' : prune t (s.objs o) = .unlinked u := ho
              rw [hs] at ho'; simp only [prune, OSt.unlinked.injEq] at ho'
              exact ⟨u0, Or.inl rfl, ho'.symm⟩
            · have ho' : prune t (s.objs o) = .retired u w := ho
              rw [hs] at ho'; simp [prune] at ho'
          | fresh =>
            rcases ho with ho | ⟨w, ho⟩
            · have ho' : prune t (s.objs o) = .unlinked u := ho
              rw [hs] at ho'; simp [prune] at ho'
            · have ho' : prune t (s.objs o) = .retired u w := ho
              rw [hs] at ho'; simp [prune] at ho'
          | linked =>
            rcases ho with ho | ⟨w, ho⟩
            · have ho' : prune t (s.objs o) = .unlinked u := ho
              rw [hs] at ho'; simp [prune] at ho'
            · have ho' : prune t (s.objs o) = .retired u w := ho
              rw [hs] at ho'; simp [prune] at ho'
          | freed =>
            rcases ho with ho | ⟨w, ho⟩
            · have ho' : prune t (s.objs o) = .unlinked u := ho
              rw [hs] at ho'; simp [prune] at ho'
            · have ho' : prune t (s.objs o) = .retired u w := ho
              rw [hs] at ho'; simp [prune] at ho'
        obtain ⟨u0, h0, rfl⟩ := key
        rw [List.mem_filter] at hx
        have hne : x ≠ t := by simpa using hx.2
        rw [if_neg hne]
        exact I.ug o u0 h0 x hx.1
      · intro o ho
        show prune t (s.objs o) = .fresh
        rw [prune_fresh]; exact I.fresh o ho
      · intro o
        show s.frees o = if prune t (s.objs o) = .freed then 1 else 0
        rw [I.frees o]
        by_cases hf : s.objs o = .freed
        · rw [if_pos hf, if_pos (prune_freed.2 hf)]
        · rw [if_neg hf, if_neg (fun h => hf (prune_freed.1 h))]
    · cases h
  | alloc t =>
    unfold Reclaim2.step at h; simp only at h
    split at h
    · rename_i hc
      cases h
      refine ⟨?_, I.sub, I.thr, I.ug, ?_, I.frees, I.bad⟩
      · intro t1 o ho
        have ho' : o ∈ (if t1 = t then s.nobjs :: s.holds t else s.holds t1) := ho
        show s.guarded t1 = true ∧ o < s.nobjs + 1 ∧ Holdable t1 (s.objs o)
        by_cases e : t1 = t
        · subst e
          rw [if_pos rfl] at ho'
          rcases List.mem_cons.1 ho' with rfl | ho'
          · refine ⟨hc, Nat.lt_succ_self _, ?_⟩
            rw [I.fresh _ (Nat.le_refl _)]; trivial
          · obtain ⟨h1, h2, h3⟩ := I.hold t1 o ho'
            exact ⟨h1, Nat.lt_succ_of_lt h2, h3⟩
        · rw [if_neg e] at ho'
          obtain ⟨h1, h2, h3⟩ := I.hold t1 o ho'
          exact ⟨h1, Nat.lt_succ_of_lt h2, h3⟩
      · intro o ho
        exact I.fresh o (Nat.le_of_succ_le ho)
    · cases h
  | publish t o =>
    unfold Reclaim2.step at h; simp only at h
    split at h
    · rename_i hc
      cases h
      refine ⟨?_, ?_, I.thr, ?_, ?_, ?_, I.bad⟩
      · intro t1 o1 ho
        obtain ⟨h1, h2, h3⟩ := I.hold t1 o1 ho
        refine ⟨h1, h2, ?_⟩
        show Holdable t1 (if o1 = o then .linked else s.objs o1)
        split
        · trivial
        · exact h3
      · intro o1 u w ho
        have ho' : (if o1 = o then OSt.linked else s.objs o1) = .retired u w := ho
        by_cases e : o1 = o
        · rw [if_pos e] at ho'; cases ho'
        · rw [if_neg e] at ho'; exact I.sub o1 u w ho'
      · intro o1 u ho
        have ho' : ((if o1 = o then OSt.linked else s.objs o1) = .unlinked u ∨
            ∃ w, (if o1 = o then OSt.linked else s.objs o1) = .retired u w) := ho
        by_cases e : o1 = o
        · rw [if_pos e] at ho'; rcases ho' with h | ⟨w, h⟩ <;> cases h
        · rw [if_neg e] at ho'; exact I.ug o1 u ho'
      · intro o1 ho
        show (if o1 = o then OSt.linked else s.objs o1) = .fresh
        have : o1 ≠ o := by intro e; rw [e] at ho; exact absurd hc.1 (Nat.not_lt.2 ho)
        rw [if_neg this]; exact I.fresh o1 ho
      · intro o1
        show s.frees o1 = if (if o1 = o then OSt.linked else s.objs o1) = .freed then 1 else 0
        by_cases e : o1 = o
        · rw [if_pos e, I.frees o1, e, hc.2.1]; simp
        · rw [if_neg e]; exact I.frees o1
    · cases h
  | acquire t o =>
    unfold Reclaim2.step at h; simp only at h
    split at h
    · rename_i hc
      cases h
      refine ⟨?_, I.sub, I.thr, I.ug, I.fresh, I.frees, I.bad⟩
      intro t1 o1 ho
      have ho' : o1 ∈ (if t1 = t then o :: s.holds t else s.holds t1) := ho
      by_cases e : t1 = t
      · subst e
        rw [if_pos rfl] at ho'
        rcases List.mem_cons.1 ho' with rfl | ho'
        · exact ⟨hc.1, hc.2.1, acquirable_holdable hc.2.2⟩
        · exact I.hold t1 o1 ho'
      · rw [if_neg e] at ho'; exact I.hold t1 o1 ho'
    · cases h
  | touch t o =>
    unfold Reclaim2.step at h; simp only at h
    split at h
    · rename_i hc
      have hnf : s.objs o ≠ .freed := by
        intro hf
        have := (I.hold t o hc).2.2
        rw [hf] at this; exact this
      rw [if_neg hnf] at h
      cases h; exact I
    · cases h
  | unlink t o =>
    unfold Reclaim2.step at h; simp only at h
    split at h
    · rename_i hc
      cases h
      refine ⟨?_, ?_, I.thr, ?_, ?_, ?_, I.bad⟩
      · intro t1 o1 ho
        obtain ⟨h1, h2, h3⟩ := I.hold t1 o1 ho
        refine ⟨h1, h2, ?_⟩
        show Holdable t1 (if o1 = o then .unlinked (active s) else s.objs o1)
        split
        · exact (mem_active I).2 h1
        · exact h3
      · intro o1 u w ho
        have ho' : (if o1 = o then OSt.unlinked (active s) else s.objs o1) = .retired u w := ho
        by_cases e : o1 = o
        · rw [if_pos e] at ho'; cases ho'
        · rw [if_neg e] at ho'; exact I.sub o1 u w ho'
      · intro o1 u ho
        have ho' : ((if o1 = o then OSt.unlinked (active s) else s.objs o1) = .unlinked u ∨
            ∃ w, (if o1 = o then OSt.unlinked (active s) else s.objs o1) = .retired u w) := ho
        by_cases e : o1 = o
        · rw [if_pos e] at ho'
          rcases ho' with h | ⟨w, h⟩
          · cases h; intro x hx; exact (mem_active I).1 hx
          · cases h
        · rw [if_neg e] at ho'; exact I.ug o1 u ho'
      · intro o1 ho
        show (if o1 = o then OSt.unlinked (active s) else s.objs o1) = .fresh
        have : o1 ≠ o := by
          intro e; rw [e] at ho; have := I.fresh o ho; rw [hc] at this; cases this
        rw [if_neg this]; exact I.fresh o1 ho
      · intro o1
        show s.frees o1 = if (if o1 = o then OSt.unlinked (active s) else s.objs o1) = .freed then 1 else 0
        by_cases e : o1 = o
        · rw [if_pos e, I.frees o1, e, hc]; simp
        · rw [if_neg e]; exact I.frees o1
    · cases h
  | retire t o =>
    unfold Reclaim2.step at h; simp only at h
    split at h
    · rename_i u hs
      split at h
      · rename_i hc
        cases h
        refine ⟨?_, ?_, I.thr, ?_, ?_, ?_, I.bad⟩
        · intro t1 o1 ho
          obtain ⟨h1, h2, h3⟩ := I.hold t1 o1 ho
          refine ⟨h1, h2, ?_⟩
          show Holdable t1 (if o1 = o then .retired u (active s) else s.objs o1)
          by_cases e : o1 = o
          · rw [if_pos e]; rw [e, hs] at h3; exact h3
          · rw [if_neg e]; exact h3
        · intro o1 u1 w ho
          have ho' : (if o1 = o then OSt.retired u (active s) else s.objs o1) = .retired u1 w := ho
          by_cases e : o1 = o
          · rw [if_pos e] at ho'; cases ho'
            intro x hx
            exact (mem_active I).2 (I.ug o u (Or.inl hs) x hx)
          · rw [if_neg e] at ho'; exact I.sub o1 u1 w ho'
        · intro o1 u1 ho
          have ho' : ((if o1 = o then OSt.retired u (active s) else s.objs o1) = .unlinked u1 ∨
              ∃ w, (if o1 = o then OSt.retired u (active s) else s.objs o1) = .retired u1 w) := ho
          by_cases e : o1 = o
          · rw [if_pos e] at ho'
            rcases ho' with h | ⟨w, h⟩
            · cases h
            · cases h; exact I.ug o u (Or.inl hs)
          · rw [if_neg e] at ho'; exact I.ug o1 u1 ho'
        · intro o1 ho
          show (if o1 = o then OSt.retired u (active s) else s.objs o1) = .fresh
          have : o1 ≠ o := by
            intro e; rw [e] at ho; have := I.fresh o ho; rw [hs] at this; cases this
          rw [if_neg this]; exact I.fresh o1 ho
        · intro o1
          show s.frees o1 = if (if o1 = o then OSt.retired u (active s) else s.objs o1) = .freed then 1 else 0
          by_cases e : o1 = o
          · rw [if_pos e, I.frees o1, e, hs]; simp
          · rw [if_neg e]; exact I.frees o1
      · cases h
    · cases h
  | free o =>
    unfold Reclaim2.step at h; simp only at h
    split at h
    · rename_i u hs
      cases h
      have hu : u = [] := by
        cases u with
        | nil => rfl
        | cons a _ => exact absurd (I.sub o _ _ hs List.mem_cons_self) (by simp)
      subst hu
      refine ⟨?_, ?_, I.thr, ?_, ?_, ?_, I.bad⟩
      · intro t1 o1 ho
        obtain ⟨h1, h2, h3⟩ := I.hold t1 o1 ho
        refine ⟨h1, h2, ?_⟩
        show Holdable t1 (if o1 = o then .freed else s.objs o1)
        by_cases e : o1 = o
        · rw [e, hs] at h3; cases h3
        · rw [if_neg e]; exact h3
      · intro o1 u1 w ho
        have ho' : (if o1 = o then OSt.freed else s.objs o1) = .retired u1 w := ho
        by_cases e : o1 = o
        · rw [if_pos e] at ho'; cases ho'
        · rw [if_neg e] at ho'; exact I.sub o1 u1 w ho'
      · intro o1 u1 ho
        have ho' : ((if o1 = o then OSt.freed else s.objs o1) = .unlinked u1 ∨
            ∃ w, (if o1 = o then OSt.freed else s.objs o1) = .retired u1 w) := ho
        by_cases e : o1 = o
        · rw [if_pos e] at ho'; rcases ho' with h | ⟨w, h⟩ <;> cases h
        · rw [if_neg e] at ho'; exact I.ug o1 u1 ho'
      · intro o1 ho
        show (if o1 = o then OSt.freed else s.objs o1) = .fresh
        have : o1 ≠ o := by
          intro e; rw [e] at ho; have := I.fresh o ho; rw [hs] at this; cases this
        rw [if_neg this]; exact I.fresh o1 ho
      · intro o1
        show (if o1 = o then s.frees o + 1 else s.frees o1) =
          if (if o1 = o then OSt.freed else s.objs o1) = .freed then 1 else 0
        by_cases e : o1 = o
        · rw [if_pos e, if_pos e, I.frees o, hs]; simp
        · rw [if_neg e, if_neg e]; exact I.frees o1
    · cases h

theorem Inv.run {s s' : State} (I : Inv s) : ∀ {es : List Ev}, run s es = some s' → Inv s'
  | [], h => by simp only [Reclaim2.run, Option.some.injEq] at h; exact h ▸ I
  | e :: es, h => by
    simp only [Reclaim2.run] at h
    cases hs : Reclaim2.step s e with
    | none => rw [hs] at h; cases h
    | some s1 => rw [hs] at h; exact (I.step hs).run h

theorem reachable_inv {n : Nat} {es : List Ev} {s : State} (h : run (init n) es = some s) : Inv s :=
  (Inv.init n).run h

end Flurry.Proto.Reclaim2
