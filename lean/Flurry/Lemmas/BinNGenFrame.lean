import Flurry.Lemmas.BinNGenDefs
import Flurry.Lemmas.BinXBasic
/-! # Proto/BinN: the generation invariant — frame lemmas -/
namespace Flurry.Proto.BinN
open Flurry.Lin
open Flurry.Proto.BinX (NodeS Cell Pending isReader dflt chainFrom cellHead cellOfHead get_set get_set_self get_set_ne)

theorem two_pow_pos (g : Nat) : 0 < 2 ^ g := Nat.pos_of_ne_zero (by simp)

theorem mod_lt_pow (k g : Nat) : k % 2 ^ g < 2 ^ g := Nat.mod_lt _ (two_pow_pos g)

/-- the cell of `k` in generation `g` is the parent of its cell in generation `g + 1` -/
theorem mod_succ_mod (k g : Nat) : (k % 2 ^ (g + 1)) % 2 ^ g = k % 2 ^ g :=
  Nat.mod_mod_of_dvd k ⟨2, by rw [Nat.pow_succ]⟩

theorem high_mod (j g : Nat) (hj : j < 2 ^ g) : (j + 2 ^ g) % 2 ^ g = j := by
  rw [Nat.add_mod_right, Nat.mod_eq_of_lt hj]

namespace GenInv
variable {s : State}

theorem cur_lt (I : GenInv s) : s.cur < s.tabs.length := by
  have := I.len
  omega

theorem row_cur (I : GenInv s) : ∃ row, s.tabs[s.cur]? = some row ∧ row.length = 2 ^ s.cur := by
  have h := I.cur_lt
  exact ⟨s.tabs[s.cur], List.getElem?_eq_getElem h, I.rows _ _ (List.getElem?_eq_getElem h)⟩

theorem row_next (I : GenInv s) (hr : s.resizing = true) :
    ∃ row, s.tabs[s.cur + 1]? = some row ∧ row.length = 2 ^ (s.cur + 1) := by
  have h : s.cur + 1 < s.tabs.length := by
    have := I.len
    rw [hr] at this
    simp at this
    omega
  exact ⟨s.tabs[s.cur + 1], List.getElem?_eq_getElem h, I.rows _ _ (List.getElem?_eq_getElem h)⟩

/-- **mutual exclusion**: at most one thread holds a validated lock on a cell -/
theorem mutex (I : GenInv s) {t t1 : Nat} {l l1 : Local} {g j h h1 : Nat}
    (hl : s.threads[t]? = some l) (hl1 : s.threads[t1]? = some l1)
    (hv : vcell s.cur l = some (g, j, h)) (hv1 : vcell s.cur l1 = some (g, j, h1)) : t = t1 := by
  obtain ⟨c, hh⟩ := (I.thr t l hl).valid g j h hv
  obtain ⟨c1, hh1⟩ := (I.thr t1 l1 hl1).valid g j h1 hv1
  rw [c] at c1
  cases c1
  have a := ((I.thr t l hl).held h hh).2
  have b := ((I.thr t1 l1 hl1).held h hh1).2
  rw [a] at b
  exact Option.some.inj b

/-- all cells of generation `cur` are forwarded -/
theorem of_allMoved (I : GenInv s) (h : allMoved s s.cur = true) : ∀ j, j < 2 ^ s.cur → cellAt s s.cur j = .moved := by
  obtain ⟨row, hr, hlen⟩ := I.row_cur
  intro j hj
  unfold allMoved at h
  rw [getD_eq, hr] at h
  simp only [Option.getD_some, List.all_eq_true, beq_iff_eq] at h
  have e : s.tabs.getD s.cur [] = row := by rw [getD_eq, hr]; rfl
  unfold cellAt
  rw [e, getD_eq, List.getElem?_eq_getElem (by omega)]
  exact h _ (List.getElem_mem _)

end GenInv

/-- `ThrOK` only depends on the tables, `cur`, `resizing` and the lock words the thread holds -/
theorem ThrOK.congr {s s' : State} {t : Nat} {l : Local} (h : ThrOK s t l)
    (htabs : s'.tabs = s.tabs) (hcur : s'.cur = s.cur) (hres : s'.resizing = s.resizing)
    (hheld : ∀ h, Holds l.pc h → h < s'.heap.length ∧ lockAt s'.heap h = some t) : ThrOK s' t l := by
  have hc : ∀ g j, cellAt s' g j = cellAt s g j := fun g j => by rw [cellAt_eq, cellAt_eq, htabs]
  refine ⟨?_, ?_, ?_, ?_, hheld, ?_⟩
  · rw [hres]; exact h.tres
  · intro p g h1 h2
    rw [hcur]
    unfold cellOf
    rw [hc]
    exact h.gen p g h1 h2
  · rw [hcur]; exact h.idx
  · rw [hcur]; intro h1 j hj; rw [hc]; exact h.commit h1 j hj
  · intro g j h0 hv
    rw [hcur] at hv
    rw [hc]
    exact h.valid g j h0 hv

/-- the generic preservation lemma for transitions that keep `cur`, `resizing` and the shape of the
tables -/
theorem geninv_frame {s s' : State} {t : Nat} {l l' : Local} (I : GenInv s) (hl : s.threads[t]? = some l)
    (hthr : s'.threads = s.threads.set t l') (hcur : s'.cur = s.cur) (hres : s'.resizing = s.resizing)
    (hlen : s'.tabs.length = s.tabs.length)
    (hrows : ∀ (g : Nat) (row' : List Cell), s'.tabs[g]? = some row' →
      ∃ row : List Cell, s.tabs[g]? = some row ∧ row'.length = row.length)
    (hmono : ∀ g j, cellAt s g j = .moved → cellAt s' g j = .moved)
    (hnew : ∀ g j, cellAt s' g j = .moved → cellAt s g j = .moved ∨ (g = s.cur ∧ s.resizing = true))
    (hvalid : ∀ t1 l1 g j h, t1 ≠ t → s.threads[t1]? = some l1 → vcell s.cur l1 = some (g, j, h) →
      cellAt s' g j = cellAt s g j)
    (hlock : ∀ t1 l1 h, t1 ≠ t → s.threads[t1]? = some l1 → Holds l1.pc h →
      h < s'.heap.length ∧ lockAt s'.heap h = some t1)
    (hT : isT l'.pc → isT l.pc)
    (hself : ThrOK s' t l') : GenInv s' := by
  refine ⟨?_, ?_, ?_, ?_, ?_, ?_, ?_⟩
  · rw [hlen, hcur, hres]; exact I.len
  · intro g row' hr'
    obtain ⟨row, hr, he⟩ := hrows g row' hr'
    rw [he]; exact I.rows g row hr
  · intro g j hg hj
    rw [hcur] at hg
    exact hmono g j (I.old g j hg hj)
  · intro j hm
    rw [hcur] at hm
    rcases hnew _ _ hm with h | ⟨h, -⟩
    · exact I.nextOK j h
    · omega
  · intro j hm
    rw [hcur] at hm
    rw [hres]
    rcases hnew _ _ hm with h | ⟨-, h⟩
    · exact I.curMoved j h
    · exact h
  · intro t1 t2 l1 l2 h1 h2 hT1 hT2
    rw [hthr] at h1 h2
    rcases get_set h1 with ⟨e1, f1⟩ | ⟨n1, h1⟩ <;> rcases get_set h2 with ⟨e2, f2⟩ | ⟨n2, h2⟩
    · rw [e1, e2]
    · rw [f1] at hT1; rw [e1]; exact I.uniqT _ _ _ _ hl h2 (hT hT1) hT2
    · rw [f2] at hT2; rw [e2]; exact I.uniqT _ _ _ _ h1 hl hT1 (hT hT2)
    · exact I.uniqT _ _ _ _ h1 h2 hT1 hT2
  · intro t1 l1 h1
    rw [hthr] at h1
    rcases get_set h1 with ⟨rfl, rfl⟩ | ⟨n1, h1⟩
    · exact hself
    · have T := I.thr t1 l1 h1
      refine ⟨?_, ?_, ?_, ?_, ?_, ?_⟩
      · rw [hres]; exact T.tres
      · intro p g hp hg
        rw [hcur]
        obtain ⟨a, b⟩ := T.gen p g hp hg
        exact ⟨a, fun e => hmono _ _ (b e)⟩
      · rw [hcur]; exact T.idx
      · rw [hcur]; intro hc j hj; exact hmono _ _ (T.commit hc j hj)
      · exact fun h hh => hlock t1 l1 h n1 h1 hh
      · intro g j h hv
        rw [hcur] at hv
        rw [hvalid t1 l1 g j h n1 h1 hv]
        exact T.valid g j h hv

/-- transitions that do not touch the tables -/
theorem geninv_same {s s' : State} {t : Nat} {l l' : Local} (I : GenInv s) (hl : s.threads[t]? = some l)
    (hthr : s'.threads = s.threads.set t l') (hcur : s'.cur = s.cur) (hres : s'.resizing = s.resizing)
    (htabs : s'.tabs = s.tabs)
    (hlock : ∀ t1 l1 h, t1 ≠ t → s.threads[t1]? = some l1 → Holds l1.pc h →
      h < s'.heap.length ∧ lockAt s'.heap h = some t1)
    (hT : isT l'.pc → isT l.pc)
    (hself : ThrOK s' t l') : GenInv s' := by
  have hc : ∀ g j, cellAt s' g j = cellAt s g j := fun g j => by rw [cellAt_eq, cellAt_eq, htabs]
  refine geninv_frame I hl hthr hcur hres (by rw [htabs]) ?_ ?_ ?_ ?_ hlock hT hself
  · intro g row' h; rw [htabs] at h; exact ⟨row', h, rfl⟩
  · intro g j h; rw [hc]; exact h
  · intro g j h; rw [hc] at h; exact Or.inl h
  · intro _ _ g j _ _ _ _; exact hc g j

/-- the lock words of the other threads survive a transition that changes no lock word -/
theorem hlock_of_lockSame {s : State} {heap' : List NodeS} {t : Nat} (I : GenInv s) (h : LockSame s.heap heap') :
    ∀ t1 l1 h1, t1 ≠ t → s.threads[t1]? = some l1 → Holds l1.pc h1 →
      h1 < heap'.length ∧ lockAt heap' h1 = some t1 := by
  intro t1 l1 h1 _ hl1 hh
  obtain ⟨a, b⟩ := (I.thr t1 l1 hl1).held h1 hh
  exact ⟨by have := h.1; omega, by rw [h.2 h1 a]; exact b⟩

/-- the lock words of the other threads survive the change of a lock word that the acting thread may
change (it is free, or the acting thread holds it) -/
theorem hlock_of_modify {s : State} {t : Nat} {h : Nat} {x : Option Nat} (I : GenInv s)
    (hfree : lockAt s.heap h = none ∨ lockAt s.heap h = some t) :
    ∀ t1 l1 h1, t1 ≠ t → s.threads[t1]? = some l1 → Holds l1.pc h1 →
      h1 < (s.heap.modify h (fun m => { m with lock := x })).length ∧
      lockAt (s.heap.modify h (fun m => { m with lock := x })) h1 = some t1 := by
  intro t1 l1 h1 hne hl1 hh
  obtain ⟨a, b⟩ := (I.thr t1 l1 hl1).held h1 hh
  have hne' : h1 ≠ h := by
    rintro rfl
    rcases hfree with e | e <;> rw [e] at b
    · cases b
    · exact hne (Option.some.inj b).symm
  exact ⟨by simpa using a, by rw [lockAt_modify_ne x hne']; exact b⟩

end Flurry.Proto.BinN
