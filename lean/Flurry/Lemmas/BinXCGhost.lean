import Flurry.Lemmas.BinXCInv
/-! # Proto/BinXC: the extended history (C01, C04)

The completed calls on key `k` — including every completed `clear` — plus the calls that have passed
their linearization point for `k` without having responded: writers that have stored and only have to
unlock, and `clear`s that are done with the cell of `k` (`cdone`). -/
namespace Flurry.Proto.BinXC
open Flurry.Lin
open Flurry.Proto.BinX (Ghost Phase CellId CR Active MemStep get_set get_set_self get_set_ne Sim)

theorem isReader_eq_isRead (op : KOp) : isReader op = isRead op := by cases op <;> rfl

/-! ## the extended history -/

/-- has the `clear` at program counter `pc` already emptied (or found empty) the cell of key `k`? -/
def doneAt (tab : Tab) (idx : Nat) (k : Nat) : Bool :=
  match tab with
  | .old => decide (1 ≤ idx)
  | .new => if hiBit k then decide (2 ≤ idx) else decide (1 ≤ idx)

def cdone : Pc → Nat → Bool
  | .cCell tab idx, k => doneAt tab idx k
  | .cLock tab idx _, k => doneAt tab idx k
  | .cCheck tab idx _, k => doneAt tab idx k
  | .cStore tab idx _, k => doneAt tab idx k
  | .cUnlock tab idx _ retry, k => doneAt tab (if retry then idx else idx + 1) k
  | _, _ => false

/-- operation, result and invocation time of the call of thread-state `l` if it has passed its
linearization point for key `k` without having responded: a writer that has stored and only has to
unlock; a `clear` that is done with the cell of `k` -/
def extResP (k : Nat) (p : Pending) : Pc → Option (KOp × KRes × Nat)
  | .wUnlock _ _ res false => if p.key = k then some (p.op, res, p.inv) else none
  | pc => if cdone pc k then some (.cipRm, .none, p.inv) else none

def extRes (k : Nat) (l : Local) : Option (KOp × KRes × Nat) :=
  match l.call with
  | some p => extResP k p l.pc
  | none => none

/-- ... counted as responding at `now` -/
def extOf (k now t : Nat) (l : Local) : Option Call :=
  (extRes k l).map fun x => ⟨t, x.1, x.2.1, x.2.2, now⟩

def extCalls (s : State) (k : Nat) : History :=
  (List.range s.threads.length).filterMap (fun t => (s.threads[t]?).bind (extOf k s.now t))

/-- the completed calls on key `k` (with the completed `clear`s), plus the calls that have passed their
linearization point for `k` and have not responded yet (they are counted as responding "now") -/
def callsOnExt (s : State) (k : Nat) : History := callsOn s k ++ extCalls s k

theorem extOf_eq_some {k now t : Nat} {l : Local} {c : Call} :
    extOf k now t l = some c ↔ ∃ op res i, extRes k l = some (op, res, i) ∧ c = ⟨t, op, res, i, now⟩ := by
  unfold extOf
  rw [Option.map_eq_some_iff]
  constructor
  · rintro ⟨⟨op, res, i⟩, h1, rfl⟩; exact ⟨op, res, i, h1, rfl⟩
  · rintro ⟨op, res, i, h1, rfl⟩; exact ⟨(op, res, i), h1, rfl⟩

theorem extResP_inv {k : Nat} {p : Pending} {pc : Pc} {op : KOp} {res : KRes} {i : Nat}
    (h : extResP k p pc = some (op, res, i)) : i = p.inv := by
  unfold extResP at h
  split at h <;> split at h <;> first | (cases h; rfl) | cases h

theorem extRes_inv {k : Nat} {l : Local} {op : KOp} {res : KRes} {i : Nat} (h : extRes k l = some (op, res, i)) :
    ∃ p, l.call = some p ∧ i = p.inv := by
  obtain ⟨pc, call⟩ := l
  cases call with
  | none => cases h
  | some p => exact ⟨p, rfl, extResP_inv h⟩

theorem extRes_none_of_call {k : Nat} {l : Local} (h : l.call = none) : extRes k l = none := by
  cases he : extRes k l with
  | none => rfl
  | some x =>
    obtain ⟨op, res, i⟩ := x
    obtain ⟨p, hp, -⟩ := extRes_inv he
    rw [h] at hp; cases hp

theorem extOf_none_iff {k now t : Nat} {l : Local} : extOf k now t l = none ↔ extRes k l = none := by
  unfold extOf; rw [Option.map_eq_none_iff]

theorem extRes_idle (k : Nat) : extRes k { pc := .idle, call := none } = none := rfl

theorem mem_callsOn {s : State} {k : Nat} {c : Call} :
    c ∈ callsOn s k ↔ (some k, c) ∈ s.hist ∨ (none, c) ∈ s.hist := by
  unfold callsOn
  simp only [List.mem_map, List.mem_reverse, List.mem_filter, Bool.or_eq_true, beq_iff_eq]
  constructor
  · rintro ⟨⟨k', c'⟩, ⟨hm, hk⟩, hc⟩
    simp only at hk hc
    subst hc
    rcases hk with hk | hk
    · subst hk; exact Or.inl hm
    · subst hk; exact Or.inr hm
  · rintro (h | h)
    · exact ⟨(some k, c), ⟨h, Or.inl rfl⟩, rfl⟩
    · exact ⟨(none, c), ⟨h, Or.inr rfl⟩, rfl⟩

/-- the history entries that concern key `k` -/
def onKey (k : Nat) (e : Option Nat × Call) : Prop := e.1 = some k ∨ e.1 = none

theorem mem_callsOn' {s : State} {k : Nat} {c : Call} :
    c ∈ callsOn s k ↔ ∃ ko, (ko, c) ∈ s.hist ∧ (ko = some k ∨ ko = none) := by
  rw [mem_callsOn]
  constructor
  · rintro (h | h)
    · exact ⟨_, h, Or.inl rfl⟩
    · exact ⟨_, h, Or.inr rfl⟩
  · rintro ⟨ko, h, rfl | rfl⟩
    · exact Or.inl h
    · exact Or.inr h

theorem mem_extCalls {s : State} {k : Nat} {c : Call} :
    c ∈ extCalls s k ↔ ∃ t l, s.threads[t]? = some l ∧ extOf k s.now t l = some c := by
  unfold extCalls
  simp only [List.mem_filterMap, List.mem_range, Option.bind_eq_some_iff]
  constructor
  · rintro ⟨t, _, l, hl, he⟩; exact ⟨t, l, hl, he⟩
  · rintro ⟨t, l, hl, he⟩
    exact ⟨t, (List.getElem?_eq_some_iff.1 hl).1, l, hl, he⟩

theorem mem_callsOnExt {s : State} {k : Nat} {c : Call} :
    c ∈ callsOnExt s k ↔ (∃ ko, (ko, c) ∈ s.hist ∧ (ko = some k ∨ ko = none)) ∨
      ∃ t l, s.threads[t]? = some l ∧ extOf k s.now t l = some c := by
  unfold callsOnExt
  rw [List.mem_append, mem_callsOn', mem_extCalls]

theorem callsOnExt_quiescent {s : State} (hq : quiescent s) (k : Nat) : callsOnExt s k = callsOn s k := by
  have : extCalls s k = [] := by
    rw [List.eq_nil_iff_forall_not_mem]
    intro c hc
    obtain ⟨t, l, hl, he⟩ := mem_extCalls.1 hc
    obtain ⟨op, res, i, hr, -⟩ := extOf_eq_some.1 he
    have hpc := hq l (List.mem_of_getElem? hl)
    obtain ⟨pc, call⟩ := l
    simp only at hpc
    subst hpc
    cases call with
    | none => cases hr
    | some p => simp [extRes, extResP, cdone] at hr
  rw [callsOnExt, this, List.append_nil]

theorem extOf_bump {k now now' t : Nat} {l : Local} {c' : Call} (hle : now ≤ now')
    (h : extOf k now' t l = some c') : ∃ c, extOf k now t l = some c ∧ Sim c c' := by
  obtain ⟨op, res, i, hr, rfl⟩ := extOf_eq_some.1 h
  exact ⟨⟨t, op, res, i, now⟩, extOf_eq_some.2 ⟨op, res, i, hr, rfl⟩, rfl, rfl, rfl, rfl, hle⟩

theorem extOf_bump' {k now now' t : Nat} {l : Local} {c : Call} (hle : now ≤ now')
    (h : extOf k now t l = some c) : ∃ c', extOf k now' t l = some c' ∧ Sim c c' := by
  obtain ⟨op, res, i, hr, rfl⟩ := extOf_eq_some.1 h
  exact ⟨⟨t, op, res, i, now'⟩, extOf_eq_some.2 ⟨op, res, i, hr, rfl⟩, rfl, rfl, rfl, rfl, hle⟩

/-- the same call of another local state with the same `extRes` -/
theorem extOf_same {k now now' t : Nat} {l l' : Local} {c : Call} (hle : now ≤ now') (hs : extRes k l' = extRes k l)
    (h : extOf k now t l = some c) : ∃ c', extOf k now' t l' = some c' ∧ Sim c c' := by
  obtain ⟨op, res, i, hr, rfl⟩ := extOf_eq_some.1 h
  exact ⟨⟨t, op, res, i, now'⟩, extOf_eq_some.2 ⟨op, res, i, by rw [hs]; exact hr, rfl⟩, rfl, rfl, rfl, rfl, hle⟩

/-- where the calls of the successor state come from -/
theorem ext_backward {s s' : State} {t : Nat} {l' : Local} {hnew : List (Option Nat × Call)} {k : Nat}
    (hthr : s'.threads = s.threads.set t l') (hnow : s'.now = s.now + 1)
    (hhist : s'.hist = hnew ++ s.hist) :
    ∀ c' ∈ callsOnExt s' k, (∃ c ∈ callsOnExt s k, Sim c c') ∨ (∃ ko, (ko, c') ∈ hnew ∧ (ko = some k ∨ ko = none)) ∨
      extOf k (s.now + 1) t l' = some c' := by
  intro c' hc'
  rcases mem_callsOnExt.1 hc' with ⟨ko, hc', hko⟩ | ⟨t1, l1, hl1, he1⟩
  · rw [hhist] at hc'
    rcases List.mem_append.1 hc' with hc' | hc'
    · exact Or.inr (Or.inl ⟨ko, hc', hko⟩)
    · exact Or.inl ⟨c', mem_callsOnExt.2 (Or.inl ⟨ko, hc', hko⟩), Sim.refl _⟩
  · rw [hthr] at hl1
    rw [hnow] at he1
    rcases get_set hl1 with ⟨rfl, rfl⟩ | ⟨_, hl1⟩
    · exact Or.inr (Or.inr he1)
    · obtain ⟨c, hc, hsim⟩ := extOf_bump (Nat.le_succ s.now) he1
      exact Or.inl ⟨c, mem_callsOnExt.2 (Or.inr ⟨t1, l1, hl1, hc⟩), hsim⟩

/-- where the calls of the predecessor state go -/
theorem ext_forward {s s' : State} {t : Nat} {l l' : Local} {hnew : List (Option Nat × Call)} {k : Nat}
    (hl : s.threads[t]? = some l)
    (hthr : s'.threads = s.threads.set t l') (hnow : s'.now = s.now + 1)
    (hhist : s'.hist = hnew ++ s.hist) :
    ∀ c ∈ callsOnExt s k, (∃ c' ∈ callsOnExt s' k, Sim c c') ∨ extOf k s.now t l = some c := by
  intro c hc
  rcases mem_callsOnExt.1 hc with ⟨ko, hc, hko⟩ | ⟨t1, l1, hl1, he1⟩
  · refine Or.inl ⟨c, mem_callsOnExt.2 (Or.inl ⟨ko, ?_, hko⟩), Sim.refl _⟩
    rw [hhist]; exact List.mem_append_right _ hc
  · by_cases ht : t1 = t
    · subst ht
      rw [hl] at hl1; cases hl1
      exact Or.inr he1
    · obtain ⟨c', hc', hsim⟩ := extOf_bump' (Nat.le_succ s.now) he1
      refine Or.inl ⟨c', mem_callsOnExt.2 (Or.inr ⟨t1, l1, ?_, ?_⟩), hsim⟩
      · rw [hthr, get_set_ne ht]; exact hl1
      · rw [hnow]; exact hc'

theorem callsOnExt_resp_le {s : State} (T : TInv s) {k : Nat} {c : Call} (hc : c ∈ callsOnExt s k) :
    c.resp ≤ s.now := by
  rcases mem_callsOnExt.1 hc with ⟨ko, hc, -⟩ | ⟨t1, l1, _, he1⟩
  · exact (T.histTime _ hc).2
  · obtain ⟨op, res, i, -, rfl⟩ := extOf_eq_some.1 he1
    exact Nat.le_refl _

/-- the pending call of a thread that is not counted in the extended history is different from
every call of the extended history -/
theorem inv_ne_of_mem_callsOnExt {s : State} (T : TInv s) {t : Nat} {l : Local} {p : Pending} {k : Nat}
    (hl : s.threads[t]? = some l) (hp : l.call = some p) (hnone : extOf k s.now t l = none)
    {c : Call} (hc : c ∈ callsOnExt s k) : c.inv ≠ p.inv := by
  rcases mem_callsOnExt.1 hc with ⟨ko, hc, -⟩ | ⟨t1, l1, hl1, he1⟩
  · exact T.uniqHP _ hc t l p hl hp
  · obtain ⟨op, res, i, hr, rfl⟩ := extOf_eq_some.1 he1
    obtain ⟨p1, hcall1, rfl⟩ := extRes_inv hr
    intro he
    have := T.uniqPP t1 t l1 l p1 p hl1 hl hcall1 hp he
    subst this
    rw [hl] at hl1; cases hl1
    rw [hnone] at he1; cases he1

theorem callsOnExt_pairwise {s : State} (T : TInv s) (k : Nat) :
    (callsOnExt s k).Pairwise (fun c d => c.inv ≠ d.inv) := by
  unfold callsOnExt
  refine List.pairwise_append.2 ⟨?_, ?_, ?_⟩
  · unfold callsOn
    rw [List.pairwise_map, List.pairwise_reverse]
    refine (T.uniqHH.filter _).imp ?_
    intro a b hab; exact fun h => hab h.symm
  · unfold extCalls
    refine List.Pairwise.filterMap _ ?_ (List.pairwise_lt_range)
    intro t1 t2 hlt c1 hc1 c2 hc2
    obtain ⟨l1, hl1, he1⟩ := Option.bind_eq_some_iff.1 hc1
    obtain ⟨l2, hl2, he2⟩ := Option.bind_eq_some_iff.1 hc2
    obtain ⟨_, _, i1, hr1, rfl⟩ := extOf_eq_some.1 he1
    obtain ⟨_, _, i2, hr2, rfl⟩ := extOf_eq_some.1 he2
    obtain ⟨p1, hcall1, rfl⟩ := extRes_inv hr1
    obtain ⟨p2, hcall2, rfl⟩ := extRes_inv hr2
    intro he
    have := T.uniqPP t1 t2 l1 l2 p1 p2 hl1 hl2 hcall1 hcall2 he
    omega
  · intro c hc d hd
    obtain ⟨t1, l1, hl1, he1⟩ := mem_extCalls.1 hd
    obtain ⟨_, _, i1, hr1, rfl⟩ := extOf_eq_some.1 he1
    obtain ⟨p1, hcall1, rfl⟩ := extRes_inv hr1
    rcases mem_callsOn.1 hc with hc | hc
    · exact T.uniqHP _ hc t1 l1 p1 hl1 hcall1
    · exact T.uniqHP _ hc t1 l1 p1 hl1 hcall1

end Flurry.Proto.BinXC
