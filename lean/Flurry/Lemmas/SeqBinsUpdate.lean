import Flurry.Lemmas.SeqBinsList
/-! # Bin updates keep `BinWF` (B4 update/removal of a present key, B5 insertion of an absent
key, B6 treeify)

The three updates are written inline in `Flurry.Seq.put` / `replaceNode` / `computeIfPresent`;
`setValBin`, `removeBin`, `insertBin` name them (the `*_eq` lemmas are `rfl` per constructor). -/
namespace Flurry.Seq
open Flurry Flurry.Gen
open Flurry.RB (upd)

/-- the predicate "not that key" used by the removals -/
abbrev notKey (h k : Nat) : Node → Bool := fun x => !(x.hash == h && x.key == k)

/-- `value.swap` on the entry of a bin (the `b'` of `replaceNode`/`computeIfPresent`, `.keep`) -/
def setValBin (h k v vi : Nat) : Bin → Bin
  | .empty => .empty
  | .list ns => .list (listSetVal h k v vi ns)
  | .tree tr o => .tree (RB.setVal h k v vi tr) (listSetVal h k v vi o)

/-- removal of the entry of a bin (the `b'` of `replaceNode`/`computeIfPresent`, removal) -/
def removeBin (h k : Nat) : Bin → Bin
  | .empty => .empty
  | .list ns => Bin.ofNodes (listRemove h k ns)
  | .tree tr o => treeRemove h k tr o

/-- insertion of a new node (the three `none` branches of `put`) -/
def insertBin (nd : Node) : Bin → Bin
  | .empty => .list [nd]
  | .list ns => .list (ns ++ [nd])
  | .tree tr o => .tree (RB.putNew tr nd) (nd :: o)

/-! ## B4: update of a present key -/

theorem setValBin_nodes {hash : Nat → Nat} {n i : Nat} (h k v vi : Nat) {b : Bin}
    (hb : BinWF hash n i b) : (setValBin h k v vi b).nodes = b.nodes.map (upd h k v vi) := by
  cases b with
  | empty => rfl
  | list ns => exact listSetVal_eq_map h k v vi ns hb.2.2
  | tree t o => exact listSetVal_eq_map h k v vi o hb.2.2.1

/-- (holds whether or not the key is present) -/
theorem setValBin_wf {hash : Nat → Nat} {n i : Nat} (h k v vi : Nat) {b : Bin}
    (hb : BinWF hash n i b) : BinWF hash n i (setValBin h k v vi b) := by
  cases b with
  | empty => trivial
  | list ns =>
    obtain ⟨h1, h2, h3⟩ := hb
    exact ⟨listSetVal_ne_nil h k v vi ns h1, listSetVal_nodeOk h k v vi ns h2,
      listSetVal_keysNodup h k v vi ns h3⟩
  | tree t o =>
    obtain ⟨h1, h2, h3, h4, h5⟩ := hb
    refine ⟨listSetVal_ne_nil h k v vi o h1, listSetVal_nodeOk h k v vi o h2,
      listSetVal_keysNodup h k v vi o h3, RB.setVal_inv h k v vi t h4, ?_⟩
    rw [RB.setVal_toList_upd h k v vi t h4.1, listSetVal_eq_map h k v vi o h3]
    exact h5.map _

theorem setValBin_list_wf {hash : Nat → Nat} {n i : Nat} (h k v vi : Nat) {ns : List Node}
    (hb : BinWF hash n i (.list ns)) : BinWF hash n i (.list (listSetVal h k v vi ns)) :=
  setValBin_wf h k v vi hb

theorem setValBin_tree_wf {hash : Nat → Nat} {n i : Nat} (h k v vi : Nat) {tr : RB.T}
    {o : List Node} (hb : BinWF hash n i (.tree tr o)) :
    BinWF hash n i (.tree (RB.setVal h k v vi tr) (listSetVal h k v vi o)) :=
  setValBin_wf h k v vi hb

theorem setValBin_find_same {hash : Nat → Nat} {n i : Nat} {h k v vi : Nat} {b : Bin} {old : Node}
    (hb : BinWF hash n i b) (hf : b.find h k = some old) :
    (setValBin h k v vi b).find h k = some { old with val := v, vi := vi } := by
  cases b with
  | empty => simp [Bin.find] at hf
  | list ns => exact listFind_listSetVal_same hf
  | tree t o => exact RB.find_setVal_same h k v vi t old hb.2.2.2.1.1 hf

/-! ## B4: removal of a present key -/

theorem treeRemove_nodes (h k : Nat) (tr : RB.T) (o : List Node) :
    (treeRemove h k tr o).nodes = listRemove h k o := by
  unfold treeRemove
  cases hl : listRemove h k o with
  | nil => rfl
  | cons a l =>
    simp only
    split
    · simp [untreeify]
    · rfl

theorem removeBin_nodes {hash : Nat → Nat} {n i : Nat} (h k : Nat) {b : Bin}
    (hb : BinWF hash n i b) : (removeBin h k b).nodes = b.nodes.filter (notKey h k) := by
  cases b with
  | empty => rfl
  | list ns => simp only [removeBin, nodes_ofNodes]; exact listRemove_eq_filter h k ns hb.2.2
  | tree t o =>
    simp only [removeBin, treeRemove_nodes]; exact listRemove_eq_filter h k o hb.2.2.1

theorem removeBin_wf {hash : Nat → Nat} {n i : Nat} {h k : Nat} {b : Bin} {old : Node}
    (hb : BinWF hash n i b) (hf : b.find h k = some old) : BinWF hash n i (removeBin h k b) := by
  cases b with
  | empty => trivial
  | list ns =>
    obtain ⟨-, h2, h3⟩ := hb
    exact binWF_ofNodes (listRemove_nodeOk h k ns h2) (listRemove_keysNodup h k ns h3)
  | tree t o =>
    have hm := (Bin.find_iff hb).1 hf
    obtain ⟨-, h2, h3, h4, h5⟩ := hb
    simp only [removeBin, treeRemove]
    have hok := listRemove_nodeOk h k o h2
    have hnd := listRemove_keysNodup h k o h3
    cases hl : listRemove h k o with
    | nil => trivial
    | cons a l =>
      rw [hl] at hok hnd
      simp only
      split
      · exact binWF_ofNodes hok hnd
      next hs =>
        have he : ∃ e ∈ RB.toList t, e.hash = h ∧ e.key = k :=
          ⟨old, h5.mem_iff.2 hm.1, hm.2⟩
        refine ⟨by simp, hok, hnd, RB.removeNode_inv h4 (by simpa using hs) he, ?_⟩
        rw [RB.removeNode_toList h4.1 he, ← hl, listRemove_eq_filter h k o h3]
        exact h5.filter _

theorem removeBin_list_wf {hash : Nat → Nat} {n i : Nat} (h k : Nat) {ns : List Node}
    (hb : BinWF hash n i (.list ns)) : BinWF hash n i (Bin.ofNodes (listRemove h k ns)) :=
  binWF_ofNodes (listRemove_nodeOk h k ns hb.2.1) (listRemove_keysNodup h k ns hb.2.2)

theorem treeRemove_wf {hash : Nat → Nat} {n i : Nat} {h k : Nat} {tr : RB.T} {o : List Node}
    {old : Node} (hb : BinWF hash n i (.tree tr o)) (hf : RB.find h k tr = some old) :
    BinWF hash n i (treeRemove h k tr o) :=
  removeBin_wf (b := .tree tr o) hb hf

theorem removeBin_find_same {hash : Nat → Nat} {n i : Nat} {h k : Nat} {b : Bin} {old : Node}
    (hb : BinWF hash n i b) (hf : b.find h k = some old) : (removeBin h k b).find h k = none := by
  rw [Bin.find_none_iff (removeBin_wf hb hf), removeBin_nodes h k hb]
  intro x hx hc
  have := (List.mem_filter.1 hx).2
  simp [hc.1, hc.2] at this

/-- the node count drops by exactly one -/
theorem removeBin_length {hash : Nat → Nat} {n i : Nat} {h k : Nat} {b : Bin} {old : Node}
    (hb : BinWF hash n i b) (hf : b.find h k = some old) :
    (removeBin h k b).nodes.length + 1 = b.nodes.length := by
  cases b with
  | empty => simp [Bin.find] at hf
  | list ns =>
    rw [removeBin, nodes_ofNodes]; exact listRemove_length hf
  | tree t o =>
    rw [removeBin, treeRemove_nodes]
    have hm := (Bin.find_iff hb).1 hf
    exact listRemove_length ((listFind_iff hb.2.2.1).2 hm)

/-! ## B5: insertion of an absent key -/

theorem insertBin_nodes (nd : Node) (b : Bin) :
    (insertBin nd b).nodes = match b with
      | .tree _ o => nd :: o
      | b => b.nodes ++ [nd] := by
  cases b <;> rfl

theorem insertBin_nodes_perm (nd : Node) (b : Bin) : (insertBin nd b).nodes.Perm (nd :: b.nodes) := by
  cases b with
  | empty => exact List.Perm.refl _
  | list ns => simp [insertBin, Bin.nodes]
  | tree t o => exact List.Perm.refl _

theorem insertBin_wf {hash : Nat → Nat} {n i : Nat} {h k : Nat} {b : Bin} {nd : Node}
    (hb : BinWF hash n i b) (hf : b.find h k = none) (hh : nd.hash = h) (hk : nd.key = k)
    (hnd : NodeOk hash n i nd) : BinWF hash n i (insertBin nd b) := by
  have habs := (Bin.find_none_iff hb).1 hf
  have hkeys : ∀ x ∈ b.nodes, x.key ≠ nd.key := by
    intro x hx hxk
    refine habs x hx ⟨?_, hxk.trans hk⟩
    rw [(hb.nodeOk x hx).1, hxk, ← hnd.1, hh]
  have hnodup : KeysNodup (nd :: b.nodes) := keysNodup_cons.2 ⟨hkeys, hb.keysNodup⟩
  have hok : ∀ x ∈ nd :: b.nodes, NodeOk hash n i x := by
    intro x hx
    rcases List.mem_cons.1 hx with rfl | hx
    · exact hnd
    · exact hb.nodeOk x hx
  have hp := insertBin_nodes_perm nd b
  cases b with
  | empty => exact ⟨by simp, hok, hnodup⟩
  | list ns =>
    exact ⟨by simp, fun x hx => hok x (hp.subset hx), hnodup.perm hp.symm⟩
  | tree t o =>
    obtain ⟨-, -, -, h4, h5⟩ := hb
    have hne : ∀ x ∈ RB.toList t, ¬(x.hash = nd.hash ∧ x.key = nd.key) :=
      fun x hx hc => hkeys x (h5.mem_iff.1 hx) hc.2
    exact ⟨by simp, hok, hnodup, RB.putNew_inv t nd h4 hne,
      (RB.insertNew_toList_perm t nd hne).trans (h5.cons nd)⟩

theorem insertBin_find {hash : Nat → Nat} {n i : Nat} {h k : Nat} {b : Bin} {nd : Node}
    (hb : BinWF hash n i b) (hf : b.find h k = none) (hh : nd.hash = h) (hk : nd.key = k)
    (hnd : NodeOk hash n i nd) : (insertBin nd b).find h k = some nd := by
  rw [Bin.find_iff (insertBin_wf hb hf hh hk hnd)]
  exact ⟨(insertBin_nodes_perm nd b).symm.subset (by simp), hh, hk⟩

/-! ## B6: treeify -/

theorem treeify_wf {hash : Nat → Nat} {n i : Nat} {ns : List Node}
    (hb : BinWF hash n i (.list ns)) : BinWF hash n i (.tree (RB.ofList ns) ns) := by
  obtain ⟨h1, h2, h3⟩ := hb
  exact ⟨h1, h2, h3, RB.ofList_inv ns h3.pairwise_hk, RB.ofList_perm ns h3.pairwise_hk⟩

/-- … and a lookup is unaffected -/
theorem treeify_find {hash : Nat → Nat} {n i : Nat} {ns : List Node} (h k : Nat)
    (hb : BinWF hash n i (.list ns)) :
    (Bin.tree (RB.ofList ns) ns).find h k = (Bin.list ns).find h k := by
  have hb' := treeify_wf hb
  cases hf : (Bin.list ns).find h k with
  | none => rw [Bin.find_none_iff hb'] ; exact (Bin.find_none_iff hb).1 hf
  | some e => rw [Bin.find_iff hb']; exact (Bin.find_iff hb).1 hf

/-- untreeify (any tree bin, any sublist of the order) -/
theorem untreeify_wf {hash : Nat → Nat} {n i : Nat} {l : List Node}
    (h1 : ∀ nd ∈ l, NodeOk hash n i nd) (h2 : KeysNodup l) : BinWF hash n i (untreeify l) :=
  binWF_ofNodes h1 h2

end Flurry.Seq
