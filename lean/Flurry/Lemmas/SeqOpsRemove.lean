import Flurry.Lemmas.SeqOpsPut
/-! # O2: `replaceNode k none obs` (`remove`, `remove_entry`, and the conditional removal of `retain`) -/
namespace Flurry.Seq
open Flurry Flurry.Gen
open Flurry.RB (upd)

/-- does `replaceNode k _ obs` find an entry it acts on? (`obs = some ov`: only if the stored
value id is `ov`) -/
def rmHit (k : Nat) (obs : Option Nat) (m : Map) : Bool :=
  match get k m with
  | some old => (match obs with | none => true | some ov => ov == old.vi)
  | none => false

/-- an absent key: nothing happens (no hypothesis on the state) -/
theorem replaceNode_of_get_none {k : Nat} (nv : Option (Nat × Nat)) (obs : Option Nat) {m : Map}
    (h : get k m = none) : replaceNode k nv obs m = (m, .none) := by
  unfold replaceNode
  unfold get at h
  cases ht : m.table with
  | none => rfl
  | some t =>
    simp only [ht] at h ⊢
    split
    · rfl
    next hl =>
      rw [if_neg hl] at h
      simp only [h]

/-- a present key whose value id is not the observed one: nothing happens -/
theorem replaceNode_of_mismatch {k : Nat} (nv : Option (Nat × Nat)) {ov : Nat} {m : Map} {old : Node}
    (h : get k m = some old) (hne : ov ≠ old.vi) : replaceNode k nv (some ov) m = (m, .none) := by
  unfold replaceNode
  unfold get at h
  cases ht : m.table with
  | none => rfl
  | some t =>
    simp only [ht] at h ⊢
    split
    · rfl
    next hl =>
      rw [if_neg hl] at h
      simp only [h]
      rw [if_pos]
      simpa using hne

/-- a present key that is acted on: removed -/
theorem replaceNode_remove {k : Nat} (obs : Option Nat) {m : Map} {old : Node} (hg : Good m)
    (h : get k m = some old)
    (hobs : (match obs with | none => true | some ov => ov == old.vi) = true) :
    UpdPost m (replaceNode k none obs m).1 k none (-1) True ∧
      (replaceNode k none obs m).2 = .someKV old.ki old.val old.vi := by
  cases ht : m.table with
  | none => rw [get_of_table_none ht] at h; cases h
  | some t =>
    have htw := hg.1.tableWF ht
    have hpos := htw.length_pos
    have hf : (tableBin t (bini (m.hash k) t.length)).find (m.hash k) k = some old := by
      rw [← get_eq_find ht htw]; exact h
    have hp := remove_post hg.1 ht hf none
    unfold replaceNode
    simp only [ht]
    rw [if_neg (by simp only [beq_iff_eq]; omega)]
    simp only [hf]
    have hbins : UpdPost m (addCount (-1) none { m with table := some (t.set (bini (m.hash k) t.length)
        (match (none : Option (Nat × Nat)), tableBin t (bini (m.hash k) t.length) with
          | some (v, vi), .list ns => .list (listSetVal (m.hash k) k v vi ns)
          | some (v, vi), .tree tr o => .tree (RB.setVal (m.hash k) k v vi tr) (listSetVal (m.hash k) k v vi o)
          | none, .list ns => Bin.ofNodes (listRemove (m.hash k) k ns)
          | none, .tree tr o => treeRemove (m.hash k) k tr o
          | _, .empty => .empty)) }) k none (-1) True := by
      cases hb : tableBin t (bini (m.hash k) t.length) with
      | empty => rw [hb] at hf; cases hf
      | list ns => simp only [hb, removeBin] at hp; exact hp
      | tree tr o => simp only [hb, removeBin] at hp; exact hp
    cases obs with
    | none =>
      simp only [Bool.not_true, Bool.false_eq_true, ↓reduceIte, Option.isNone_none]
      exact ⟨hbins, trivial⟩
    | some ov =>
      simp only at hobs
      simp only [hobs, Bool.not_true, Bool.false_eq_true, ↓reduceIte, Option.isNone_none]
      exact ⟨hbins, trivial⟩

/-- **O2**: `replaceNode k none obs` on a `Good` state, in terms of lookups: never grows -/
theorem replaceNode_rm_spec (k : Nat) (obs : Option Nat) {m : Map} (hg : Good m) :
    UpdPost m (replaceNode k none obs m).1 k (if rmHit k obs m then none else get k m)
      (if rmHit k obs m then -1 else 0) True ∧
    (replaceNode k none obs m).2 =
      match get k m with
      | some old => if rmHit k obs m then .someKV old.ki old.val old.vi else .none
      | none => .none := by
  cases hgk : get k m with
  | none =>
    have : rmHit k obs m = false := by simp [rmHit, hgk]
    rw [replaceNode_of_get_none none obs hgk, this]
    simp only [Bool.false_eq_true, ↓reduceIte, and_true]
    have hp := UpdPost.refl hg k True
    rwa [hgk] at hp
  | some old =>
    by_cases hobs : (match obs with | none => true | some ov => ov == old.vi) = true
    · have : rmHit k obs m = true := by simp only [rmHit, hgk]; exact hobs
      obtain ⟨h1, h2⟩ := replaceNode_remove obs hg hgk hobs
      rw [this]
      exact ⟨h1, h2⟩
    · have hhit : rmHit k obs m = false := by simp only [rmHit, hgk]; simpa using hobs
      cases obs with
      | none => simp at hobs
      | some ov =>
        have hne : ov ≠ old.vi := by simpa using hobs
        rw [replaceNode_of_mismatch none hgk hne, hhit]
        simp only [Bool.false_eq_true, ↓reduceIte, and_true]
        have hp := UpdPost.refl hg k True
        rwa [hgk] at hp

theorem replaceNode_rm_good (k : Nat) (obs : Option Nat) {m : Map} (hg : Good m) :
    Good (replaceNode k none obs m).1 := (replaceNode_rm_spec k obs hg).1.good

/-- **O2** (`remove`, `remove_entry`): the abstract map -/
theorem remove_absMap (k : Nat) {m : Map} (hg : Good m) :
    absMap (replaceNode k none none m).1 = (absMap m).remove k := by
  obtain ⟨h, -⟩ := replaceNode_rm_spec k none hg
  funext k'
  rw [h.absMap_apply k']
  by_cases hk : k' = k
  · subst hk
    simp only [↓reduceIte, Ref.remove, rmHit]
    obtain hgk | ⟨old, hgk⟩ : get k' m = none ∨ ∃ old, get k' m = some old := by
      cases get k' m <;> simp
    all_goals simp [hgk]
  · simp only [hk, ↓reduceIte, Ref.remove]

/-- **O2**: the answer of `remove_entry` -/
theorem remove_out (k : Nat) {m : Map} (hg : Good m) :
    (replaceNode k none none m).2 =
      match absMap m k with
      | some (ki, v, vi) => .someKV ki v vi
      | none => .none := by
  rw [(replaceNode_rm_spec k none hg).2, absMap, rmHit]
  cases get k m <;> rfl

/-- **O2** (conditional removal, `retain`): removed iff the stored value id is the observed one -/
theorem remove_if_absMap (k ov : Nat) {m : Map} (hg : Good m) :
    absMap (replaceNode k none (some ov) m).1 =
      if (absMap m k).map (fun e => e.2.2) = some ov then (absMap m).remove k else absMap m := by
  obtain ⟨h, -⟩ := replaceNode_rm_spec k (some ov) hg
  funext k'
  rw [h.absMap_apply k']
  by_cases hk : k' = k
  · subst hk
    simp only [↓reduceIte, rmHit]
    obtain hgk | ⟨old, hgk⟩ : get k' m = none ∨ ∃ old, get k' m = some old := by
      cases get k' m <;> simp
    · simp [hgk, absMap]
    · by_cases hv : ov = old.vi
      · simp [hv, hgk, absMap, Ref.remove]
      · have : ¬ old.vi = ov := fun e => hv e.symm
        simp [hv, this, absMap, hgk]
  · simp only [hk, ↓reduceIte]
    split
    · simp [Ref.remove, hk]
    · rfl

theorem step_rm (k : Nat) {m : Map} (hg : Good m) :
    Good (step m (.rm k)).1 ∧ absMap (step m (.rm k)).1 = (Ref.step (absMap m) (.rm k)).1 ∧
    (step m (.rm k)).2 = (Ref.step (absMap m) (.rm k)).2 := by
  refine ⟨replaceNode_rm_good k none hg, remove_absMap k hg, ?_⟩
  simp only [step, Ref.step, remove_out k hg]
  cases absMap m k with
  | none => rfl
  | some x => obtain ⟨_, _, _⟩ := x; rfl

theorem step_rmEntry (k : Nat) {m : Map} (hg : Good m) :
    Good (step m (.rmEntry k)).1 ∧
    absMap (step m (.rmEntry k)).1 = (Ref.step (absMap m) (.rmEntry k)).1 ∧
    (step m (.rmEntry k)).2 = (Ref.step (absMap m) (.rmEntry k)).2 := by
  refine ⟨replaceNode_rm_good k none hg, remove_absMap k hg, ?_⟩
  simp only [step, Ref.step, remove_out k hg]
  cases absMap m k with
  | none => rfl
  | some x => obtain ⟨_, _, _⟩ := x; rfl

end Flurry.Seq
