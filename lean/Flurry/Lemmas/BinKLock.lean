import Flurry.Lemmas.BinKInv
/-! # Proto/BinK: preservation of the lock invariant `LInv`, generic lemmas (C01, a bin that changes its kind)

`LInv` is split into the part about the lock words of nodes (`LkPart`), the part about the mutexes of
`TreeBin`s (`MxPart`) and the part about the read-write locks (`RwPart`). For a step of thread `t`
from `l` to `l'`:
* `lk_step`: from a description of the new lock words (`LockFun`: `lockfun_same` / `_acq` / `_rel`);
* `mx_step`: from a description of the new mutexes (`MutexFun`: `mutexfun_same` / `_acq` / `_rel`);
* `rw_same`, `rw_readers`, `rw_mutex`, `rw_wlock`, `rw_wait`, `rw_unlockRoot`: the read-write lock part
  for each kind of synchronisation step. -/
namespace Flurry.Proto.BinK
open Flurry.Lin

def LkPart (s : State) : Prop :=
  (∀ (t : Nat) (l : Local) (h : Nat), s.threads[t]? = some l →
    (holdsLock l.pc = some h ↔ (nodeAt s.heap h).lock = some t)) ∧
  (∀ h x, (nodeAt s.heap h).lock = some x → x < s.threads.length) ∧
  (∀ (t : Nat) (l : Local) (h : Nat), s.threads[t]? = some l → validL l.pc = some h → s.cell = .list h)

def MxPart (s : State) : Prop :=
  (∀ (t : Nat) (l : Local) (b : Nat), s.threads[t]? = some l →
    (holdsMutex l.pc = some b ↔ (binAt s.tbins b).mutex = some t)) ∧
  (∀ b x, (binAt s.tbins b).mutex = some x → x < s.threads.length) ∧
  (∀ (t : Nat) (l : Local) (b : Nat), s.threads[t]? = some l → validT l.pc = some b → s.cell = .tree b)

def RwPart (s : State) : Prop :=
  (∀ b, s.cell = .tree b → (binAt s.tbins b).mutex = none →
    (binAt s.tbins b).writer = false ∧ (binAt s.tbins b).waiter = false) ∧
  (∀ (b t : Nat) (l : Local), s.cell = .tree b → s.threads[t]? = some l →
    (binAt s.tbins b).mutex = some t →
    (binAt s.tbins b).writer = wr l.pc ∧ ((binAt s.tbins b).waiter = true → isLoop l.pc = true)) ∧
  (∀ b, b < s.tbins.length →
    (binAt s.tbins b).readers = cnt (fun pc => holdsRead pc == some b) s.threads) ∧
  (∀ b, (binAt s.tbins b).writer = true → (binAt s.tbins b).readers = 0) ∧
  (∀ b, b < s.tbins.length → s.cell ≠ .tree b →
    (binAt s.tbins b).writer = true ∨ ∃ (t : Nat) (l : Local) (h : Nat), s.threads[t]? = some l ∧ l.pc = .kStore h b) ∧
  (∀ (t : Nat) (l : Local) (b : Nat), s.threads[t]? = some l → binRef l.pc = some b →
    b < s.tbins.length ∧ ∀ (t' : Nat) (l' : Local) (h : Nat), s.threads[t']? = some l' → l'.pc ≠ .kStore h b)

theorem LInv.of_parts {s : State} (h1 : LkPart s) (h2 : MxPart s) (h3 : RwPart s) : LInv s :=
  ⟨h1.1, h1.2.1, h1.2.2, h2.1, h2.2.1, h2.2.2, h3.1, h3.2.1, h3.2.2.1, h3.2.2.2.1, h3.2.2.2.2.1, h3.2.2.2.2.2⟩

theorem LInv.rwPart {s : State} (L : LInv s) : RwPart s :=
  ⟨L.bitsNone, L.bitsSome, L.rd, L.wrd, L.dead, L.refOK⟩

/-! ## the lock words of nodes -/

/-- the lock words after a step of thread `t` from `pc` to `pc'` -/
def LockFun (s s' : State) (t : Nat) (pc pc' : Pc) : Prop :=
  ∀ h, (nodeAt s'.heap h).lock =
    if holdsLock pc' = some h then some t else if holdsLock pc = some h then none else (nodeAt s.heap h).lock

theorem lockfun_same {s s' : State} {t : Nat} {l : Local} {pc' : Pc} (L : LInv s) (hl : s.threads[t]? = some l)
    (e : holdsLock pc' = holdsLock l.pc) (hh : ∀ h, (nodeAt s'.heap h).lock = (nodeAt s.heap h).lock) :
    LockFun s s' t l.pc pc' := by
  intro h
  rw [hh, e]
  split
  · rename_i hp
    exact (L.lk t l h hl).1 hp
  · rfl

theorem lockfun_acq {s s' : State} {t : Nat} {l : Local} {pc' : Pc} {h0 : Nat} (e0 : holdsLock l.pc = none) (e1 : holdsLock pc' = some h0)
    (hlt : h0 < s.heap.length) (hh : s'.heap = lockSet s.heap h0 (some t)) :
    LockFun s s' t l.pc pc' := by
  intro h
  rw [hh, nodeAt_lockSet, e0, e1]
  by_cases hh0 : h0 = h
  · subst hh0; rw [if_pos ⟨rfl, hlt⟩, if_pos rfl]
  · rw [if_neg (fun x => hh0 x.1), if_neg (fun x => hh0 (Option.some.inj x)), if_neg (by simp)]

theorem lockfun_rel {s s' : State} {t : Nat} {l : Local} {pc' : Pc} {h0 : Nat} (L : LInv s)
    (hl : s.threads[t]? = some l) (e0 : holdsLock l.pc = some h0) (e1 : holdsLock pc' = none)
    (hh : s'.heap = lockSet s.heap h0 none) :
    LockFun s s' t l.pc pc' := by
  intro h
  rw [hh, nodeAt_lockSet, e0, e1]
  have hlk := (L.lk t l h0 hl).1 e0
  have hlt : h0 < s.heap.length := by
    apply Classical.byContradiction
    intro hn
    rw [nodeAt_ge (by omega)] at hlk
    cases hlk
  by_cases hh0 : h0 = h
  · subst hh0; rw [if_pos ⟨rfl, hlt⟩, if_neg (by simp), if_pos rfl]
  · rw [if_neg (fun x => hh0 x.1), if_neg (by simp), if_neg (fun x => hh0 (Option.some.inj x))]

/-- the cell changes only in a step of a validated thread or when it is empty; then no other thread
is validated -/
theorem others_not_valid {s : State} {t : Nat} {l : Local} (L : LInv s) (hl : s.threads[t]? = some l)
    (hv : validated l.pc = true ∨ s.cell = .empty) {t1 : Nat} {l1 : Local} (hne : t1 ≠ t)
    (hl1 : s.threads[t1]? = some l1) : validL l1.pc = none ∧ validT l1.pc = none := by
  rcases hv with hv | hv
  · cases h1 : validated l1.pc with
    | true => exact absurd (L.valid_unique hl1 hl h1 hv) hne
    | false =>
      unfold validated at h1
      cases h2 : validL l1.pc <;> cases h3 : validT l1.pc <;> simp [h2, h3] at h1 ⊢
  · constructor
    · cases h2 : validL l1.pc with
      | none => rfl
      | some a => have := L.vL t1 l1 a hl1 h2; rw [hv] at this; cases this
    · cases h2 : validT l1.pc with
      | none => rfl
      | some a => have := L.vT t1 l1 a hl1 h2; rw [hv] at this; cases this

theorem lk_step {s s' : State} {t : Nat} {l l' : Local} (L : LInv s) (hl : s.threads[t]? = some l)
    (hthr : s'.threads = s.threads.set t l')
    (hf : LockFun s s' t l.pc l'.pc)
    (hacq : ∀ h, holdsLock l'.pc = some h → holdsLock l.pc = some h ∨ (nodeAt s.heap h).lock = none)
    (hv : ∀ h, validL l'.pc = some h → s'.cell = .list h)
    (hvo : s'.cell = s.cell ∨ validated l.pc = true ∨ s.cell = .empty) : LkPart s' := by
  have htl : t < s.threads.length := (List.getElem?_eq_some_iff.1 hl).1
  refine ⟨?_, ?_, ?_⟩
  · intro t1 l1 h h1
    rw [hthr] at h1
    rw [hf h]
    rcases get_set h1 with ⟨rfl, rfl⟩ | ⟨hne, h1⟩
    · constructor
      · intro hp; rw [if_pos hp]
      · intro hp
        split at hp
        · assumption
        · split at hp
          · cases hp
          · rename_i h2 h3
            exact absurd ((L.lk t1 l h hl).2 hp) h3
    · constructor
      · intro hp
        have hlk := (L.lk t1 l1 h h1).1 hp
        rw [if_neg, if_neg]
        · exact hlk
        · intro h3
          have := (L.lk t l h hl).1 h3
          rw [hlk] at this; exact hne (Option.some.inj this)
        · intro h3
          rcases hacq h h3 with h4 | h4
          · have := (L.lk t l h hl).1 h4
            rw [hlk] at this; exact hne (Option.some.inj this)
          · rw [hlk] at h4; cases h4
      · intro hp
        split at hp
        · cases hp; exact absurd rfl hne
        · split at hp
          · cases hp
          · exact (L.lk t1 l1 h h1).2 hp
  · intro h x hx
    rw [hthr, List.length_set]
    rw [hf h] at hx
    split at hx
    · cases hx; exact htl
    · split at hx
      · cases hx
      · exact L.lkValid h x hx
  · intro t1 l1 h h1 hv1
    rw [hthr] at h1
    rcases get_set h1 with ⟨rfl, rfl⟩ | ⟨hne, h1⟩
    · exact hv h hv1
    · rcases hvo with hc | hc
      · rw [hc]; exact L.vL t1 l1 h h1 hv1
      · have := (others_not_valid L hl hc hne h1).1
        rw [this] at hv1; cases hv1

/-! ## the mutexes of `TreeBin`s -/

/-- the mutex words after a step of thread `t` from `pc` to `pc'` -/
def MutexFun (s s' : State) (t : Nat) (pc pc' : Pc) : Prop :=
  ∀ b, (binAt s'.tbins b).mutex =
    if holdsMutex pc' = some b then some t else if holdsMutex pc = some b then none else (binAt s.tbins b).mutex

theorem mutexfun_same {s s' : State} {t : Nat} {l : Local} {pc' : Pc} (L : LInv s) (hl : s.threads[t]? = some l)
    (e : holdsMutex pc' = holdsMutex l.pc) (hh : ∀ b, (binAt s'.tbins b).mutex = (binAt s.tbins b).mutex) :
    MutexFun s s' t l.pc pc' := by
  intro b
  rw [hh, e]
  split
  · rename_i hp
    exact (L.mx t l b hl).1 hp
  · rfl

theorem mutexfun_acq {s s' : State} {t : Nat} {l : Local} {pc' : Pc} {b0 : Nat} (e0 : holdsMutex l.pc = none)
    (e1 : holdsMutex pc' = some b0) (hlt : b0 < s.tbins.length)
    (hh : s'.tbins = s.tbins.modify b0 (fun x => { x with mutex := some t })) :
    MutexFun s s' t l.pc pc' := by
  intro b
  rw [hh, binAt_modify, e0, e1]
  by_cases hb0 : b0 = b
  · subst hb0; rw [if_pos ⟨rfl, hlt⟩, if_pos rfl]
  · rw [if_neg (fun x => hb0 x.1), if_neg (fun x => hb0 (Option.some.inj x)), if_neg (by simp)]

theorem mutexfun_rel {s s' : State} {t : Nat} {l : Local} {pc' : Pc} {b0 : Nat} (L : LInv s)
    (hl : s.threads[t]? = some l) (e0 : holdsMutex l.pc = some b0) (e1 : holdsMutex pc' = none)
    (hh : s'.tbins = s.tbins.modify b0 (fun x => { x with mutex := none })) :
    MutexFun s s' t l.pc pc' := by
  intro b
  rw [hh, binAt_modify, e0, e1]
  have hlt := (L.refOK t l b0 hl (binRef_of_holdsMutex e0)).1
  by_cases hb0 : b0 = b
  · subst hb0; rw [if_pos ⟨rfl, hlt⟩, if_neg (by simp), if_pos rfl]
  · rw [if_neg (fun x => hb0 x.1), if_neg (by simp), if_neg (fun x => hb0 (Option.some.inj x))]

theorem mx_step {s s' : State} {t : Nat} {l l' : Local} (L : LInv s) (hl : s.threads[t]? = some l)
    (hthr : s'.threads = s.threads.set t l')
    (hf : MutexFun s s' t l.pc l'.pc)
    (hacq : ∀ b, holdsMutex l'.pc = some b → holdsMutex l.pc = some b ∨ (binAt s.tbins b).mutex = none)
    (hv : ∀ b, validT l'.pc = some b → s'.cell = .tree b)
    (hvo : s'.cell = s.cell ∨ validated l.pc = true ∨ s.cell = .empty) : MxPart s' := by
  have htl : t < s.threads.length := (List.getElem?_eq_some_iff.1 hl).1
  refine ⟨?_, ?_, ?_⟩
  · intro t1 l1 b h1
    rw [hthr] at h1
    rw [hf b]
    rcases get_set h1 with ⟨rfl, rfl⟩ | ⟨hne, h1⟩
    · constructor
      · intro hp; rw [if_pos hp]
      · intro hp
        split at hp
        · assumption
        · split at hp
          · cases hp
          · rename_i h2 h3
            exact absurd ((L.mx t1 l b hl).2 hp) h3
    · constructor
      · intro hp
        have hlk := (L.mx t1 l1 b h1).1 hp
        rw [if_neg, if_neg]
        · exact hlk
        · intro h3
          have := (L.mx t l b hl).1 h3
          rw [hlk] at this; exact hne (Option.some.inj this)
        · intro h3
          rcases hacq b h3 with h4 | h4
          · have := (L.mx t l b hl).1 h4
            rw [hlk] at this; exact hne (Option.some.inj this)
          · rw [hlk] at h4; cases h4
      · intro hp
        split at hp
        · cases hp; exact absurd rfl hne
        · split at hp
          · cases hp
          · exact (L.mx t1 l1 b h1).2 hp
  · intro b x hx
    rw [hthr, List.length_set]
    rw [hf b] at hx
    split at hx
    · cases hx; exact htl
    · split at hx
      · cases hx
      · exact L.mxValid b x hx
  · intro t1 l1 b h1 hv1
    rw [hthr] at h1
    rcases get_set h1 with ⟨rfl, rfl⟩ | ⟨hne, h1⟩
    · exact hv b hv1
    · rcases hvo with hc | hc
      · rw [hc]; exact L.vT t1 l1 b h1 hv1
      · have := (others_not_valid L hl hc hne h1).2
        rw [this] at hv1; cases hv1

/-! ## the read-write locks -/

/-- where the `kStore` threads of the successor state come from -/
theorem kstore_back {s s' : State} {t : Nat} {l l' : Local} (hl : s.threads[t]? = some l)
    (hthr : s'.threads = s.threads.set t l') (e9 : ∀ h b, l'.pc = .kStore h b → l.pc = .kStore h b)
    {t1 : Nat} {l1 : Local} {h b : Nat} (h1 : s'.threads[t1]? = some l1) (hpc : l1.pc = .kStore h b) :
    ∃ l0, s.threads[t1]? = some l0 ∧ l0.pc = .kStore h b := by
  rw [hthr] at h1
  rcases get_set h1 with ⟨rfl, rfl⟩ | ⟨_, h1⟩
  · exact ⟨l, hl, e9 h b hpc⟩
  · exact ⟨l1, h1, hpc⟩

theorem kstore_fwd {s s' : State} {t : Nat} {l l' : Local} (hl : s.threads[t]? = some l)
    (hthr : s'.threads = s.threads.set t l') (e9 : ∀ h b, l.pc = .kStore h b → l'.pc = .kStore h b)
    {t1 : Nat} {l1 : Local} {h b : Nat} (h1 : s.threads[t1]? = some l1) (hpc : l1.pc = .kStore h b) :
    ∃ l0, s'.threads[t1]? = some l0 ∧ l0.pc = .kStore h b := by
  by_cases ht : t1 = t
  · subst ht
    rw [hl] at h1; cases h1
    exact ⟨l', by rw [hthr]; exact get_set_self hl, e9 h b hpc⟩
  · exact ⟨l1, by rw [hthr, get_set_ne ht]; exact h1, hpc⟩

/-- the `refOK` clause after a step -/
theorem refOK_step {s s' : State} {t : Nat} {l l' : Local} (L : LInv s) (H : HInv s) (hl : s.threads[t]? = some l)
    (hthr : s'.threads = s.threads.set t l') (htlen : s.tbins.length ≤ s'.tbins.length)
    (e8 : ∀ b, binRef l'.pc = some b → binRef l.pc = some b ∨ s.cell = .tree b)
    (e9 : ∀ h b, l'.pc = .kStore h b → l.pc = .kStore h b) :
    ∀ (t1 : Nat) (l1 : Local) (b : Nat), s'.threads[t1]? = some l1 → binRef l1.pc = some b →
      b < s'.tbins.length ∧ ∀ (t' : Nat) (l' : Local) (h : Nat), s'.threads[t']? = some l' → l'.pc ≠ .kStore h b := by
  have old : ∀ b, (∃ (t0 : Nat) (l0 : Local), s.threads[t0]? = some l0 ∧ binRef l0.pc = some b) ∨ s.cell = .tree b →
      b < s.tbins.length ∧ ∀ (t' : Nat) (l' : Local) (h : Nat), s.threads[t']? = some l' → l'.pc ≠ .kStore h b := by
    rintro b (⟨t0, l0, h0, hr⟩ | hc)
    · exact L.refOK t0 l0 b h0 hr
    · refine ⟨H.cellOK b hc, ?_⟩
      intro t' l' h hl' hpc
      have := L.vL t' l' h hl' (by rw [hpc]; rfl)
      rw [hc] at this; cases this
  intro t1 l1 b h1 hr
  have hob : b < s.tbins.length ∧ ∀ (t' : Nat) (l' : Local) (h : Nat), s.threads[t']? = some l' → l'.pc ≠ .kStore h b := by
    rw [hthr] at h1
    rcases get_set h1 with ⟨rfl, rfl⟩ | ⟨_, h1⟩
    · rcases e8 b hr with h2 | h2
      · exact old b (Or.inl ⟨t1, l, hl, h2⟩)
      · exact old b (Or.inr h2)
    · exact old b (Or.inl ⟨t1, l1, h1, hr⟩)
  refine ⟨by omega, ?_⟩
  intro t' l2 h h2 hpc
  obtain ⟨l0, h0, hpc0⟩ := kstore_back hl hthr e9 h2 hpc
  exact hob.2 t' l0 h h0 hpc0

/-- steps that leave mutex, `writer` and `waiter` of every `TreeBin` alone -/
theorem rw_gen {s s' : State} {t : Nat} {l l' : Local} (L : LInv s) (H : HInv s) (hl : s.threads[t]? = some l)
    (hthr : s'.threads = s.threads.set t l')
    (hcell : ∀ b, s'.cell = .tree b ↔ s.cell = .tree b) (htlen : s'.tbins.length = s.tbins.length)
    (hsync : ∀ b, (binAt s'.tbins b).mutex = (binAt s.tbins b).mutex ∧
      (binAt s'.tbins b).writer = (binAt s.tbins b).writer ∧ (binAt s'.tbins b).waiter = (binAt s.tbins b).waiter)
    (hrd : ∀ b, b < s.tbins.length →
      (binAt s'.tbins b).readers + (if holdsRead l.pc = some b then 1 else 0) =
        (binAt s.tbins b).readers + (if holdsRead l'.pc = some b then 1 else 0))
    (hwrd : ∀ b, (binAt s.tbins b).writer = true → (binAt s'.tbins b).readers = 0)
    (e5 : ∀ b, holdsMutex l.pc = some b → wr l'.pc = wr l.pc ∧ (isLoop l.pc = true → isLoop l'.pc = true))
    (e8 : ∀ b, binRef l'.pc = some b → binRef l.pc = some b ∨ s.cell = .tree b)
    (e9 : ∀ h b, l.pc = .kStore h b ↔ l'.pc = .kStore h b) : RwPart s' := by
  refine ⟨?_, ?_, ?_, ?_, ?_, refOK_step L H hl hthr (by omega) e8 (fun h b => (e9 h b).2)⟩
  · intro b hc hm
    rw [hcell] at hc
    rw [(hsync b).1] at hm
    rw [(hsync b).2.1, (hsync b).2.2]
    exact L.bitsNone b hc hm
  · intro b t1 l1 hc h1 hm
    rw [hcell] at hc
    rw [(hsync b).1] at hm
    rw [(hsync b).2.1, (hsync b).2.2]
    rw [hthr] at h1
    rcases get_set h1 with ⟨rfl, rfl⟩ | ⟨_, h1⟩
    · obtain ⟨b1, b2⟩ := L.bitsSome b t1 l hc hl hm
      have hh := (L.mx t1 l b hl).2 hm
      obtain ⟨f1, f2⟩ := e5 b hh
      exact ⟨by rw [f1]; exact b1, fun hw => f2 (b2 hw)⟩
    · exact L.bitsSome b t1 l1 hc h1 hm
  · intro b hb
    rw [htlen] at hb
    have h1 := cnt_set (fun pc => holdsRead pc == some b) s.threads t l l' hl
    have h2 := hrd b hb
    have h3 := L.rd b hb
    rw [hthr]
    have e1 : ((holdsRead l.pc == some b) = true) ↔ holdsRead l.pc = some b := by simp
    have e2 : ((holdsRead l'.pc == some b) = true) ↔ holdsRead l'.pc = some b := by simp
    simp only [e1, e2] at h1
    omega
  · intro b hw
    rw [(hsync b).2.1] at hw
    exact hwrd b hw
  · intro b hb hc
    rw [htlen] at hb
    have hc : s.cell ≠ .tree b := fun e => hc ((hcell b).2 e)
    rw [(hsync b).2.1]
    rcases L.dead b hb hc with h1 | ⟨t1, l1, h, h1, hpc⟩
    · exact Or.inl h1
    · obtain ⟨l0, h0, hpc0⟩ := kstore_fwd hl hthr (fun h b => (e9 h b).1) h1 hpc
      exact Or.inr ⟨t1, l0, h, h0, hpc0⟩

/-- steps in which thread `t` changes mutex, `writer` or `waiter` of `TreeBin` `b0` (whose mutex it
holds or acquires) -/
theorem rw_bin {s s' : State} {t : Nat} {l l' : Local} {b0 : Nat} {tb : List TBin} (L : LInv s) (H : HInv s)
    (hl : s.threads[t]? = some l) (hthr : s'.threads = s.threads.set t l')
    (hcell : s'.cell = s.cell) (htb : s'.tbins = tb) (htlen : tb.length = s.tbins.length)
    (hb0 : b0 < s.tbins.length)
    (hbin : ∀ b, b ≠ b0 → binAt tb b = binAt s.tbins b)
    (hrd0 : (binAt tb b0).readers = (binAt s.tbins b0).readers)
    (hmine : holdsMutex l.pc = none ∨ holdsMutex l.pc = some b0)
    (hmf : MutexFun s s' t l.pc l'.pc)
    (c4 : s.cell = .tree b0 → (binAt tb b0).mutex = some t →
      (binAt tb b0).writer = wr l'.pc ∧ ((binAt tb b0).waiter = true → isLoop l'.pc = true))
    (c5 : s.cell = .tree b0 → (binAt tb b0).mutex = none →
      (binAt tb b0).writer = false ∧ (binAt tb b0).waiter = false)
    (c6 : ∀ x, x ≠ t → (binAt tb b0).mutex = some x →
      (binAt tb b0).writer = (binAt s.tbins b0).writer ∧ (binAt tb b0).waiter = (binAt s.tbins b0).waiter)
    (c8 : (binAt tb b0).writer = true → (binAt s.tbins b0).readers = 0)
    (cd : s.cell ≠ .tree b0 → (binAt s.tbins b0).writer = true → (binAt tb b0).writer = true)
    (e7 : holdsRead l'.pc = holdsRead l.pc)
    (e8 : ∀ b, binRef l'.pc = some b → binRef l.pc = some b ∨ s.cell = .tree b)
    (e9 : ∀ h b, l.pc = .kStore h b ↔ l'.pc = .kStore h b) : RwPart s' := by
  subst htb
  refine ⟨?_, ?_, ?_, ?_, ?_, refOK_step L H hl hthr (by omega) e8 (fun h b => (e9 h b).2)⟩
  · intro b hc hm
    rw [hcell] at hc
    by_cases hb : b = b0
    · subst hb; exact c5 hc hm
    · rw [hbin b hb] at hm ⊢
      exact L.bitsNone b hc hm
  · intro b t1 l1 hc h1 hm
    rw [hcell] at hc
    rw [hthr] at h1
    by_cases hb : b = b0
    · subst hb
      rcases get_set h1 with ⟨rfl, rfl⟩ | ⟨hne, h1⟩
      · exact c4 hc hm
      · obtain ⟨f1, f2⟩ := c6 t1 hne hm
        rw [f1, f2]
        refine L.bitsSome b t1 l1 hc h1 ?_
        have := hmf b
        rw [hm] at this
        split at this
        · cases this; exact absurd rfl hne
        · split at this
          · cases this
          · exact this.symm
    · rw [hbin b hb] at hm ⊢
      rcases get_set h1 with ⟨rfl, rfl⟩ | ⟨_, h1⟩
      · exfalso
        have hh := (L.mx t1 l b hl).2 hm
        rcases hmine with h2 | h2
        · rw [h2] at hh; cases hh
        · rw [h2] at hh; exact hb (Option.some.inj hh).symm
      · exact L.bitsSome b t1 l1 hc h1 hm
  · intro b hb
    rw [htlen] at hb
    have h1 := cnt_set (fun pc => holdsRead pc == some b) s.threads t l l' hl
    have h3 := L.rd b hb
    rw [hthr]
    rw [e7] at h1
    have : (binAt s'.tbins b).readers = (binAt s.tbins b).readers := by
      by_cases hbb : b = b0
      · subst hbb; exact hrd0
      · rw [hbin b hbb]
    omega
  · intro b hw
    by_cases hb : b = b0
    · subst hb; rw [hrd0]; exact c8 hw
    · rw [hbin b hb] at hw ⊢
      exact L.wrd b hw
  · intro b hb hc
    rw [htlen] at hb
    rw [hcell] at hc
    rcases L.dead b hb hc with h1 | ⟨t1, l1, h, h1, hpc⟩
    · left
      by_cases hbb : b = b0
      · subst hbb; exact cd hc h1
      · rw [hbin b hbb]; exact h1
    · obtain ⟨l0, h0, hpc0⟩ := kstore_fwd hl hthr (fun h b => (e9 h b).1) h1 hpc
      exact Or.inr ⟨t1, l0, h, h0, hpc0⟩

/-- steps that change the bin cell and leave every `TreeBin` alone (the conversions) -/
theorem rw_cell {s s' : State} {t : Nat} {l l' : Local} (L : LInv s) (H : HInv s) (hl : s.threads[t]? = some l)
    (hthr : s'.threads = s.threads.set t l') (htb : s'.tbins = s.tbins)
    (hbits : ∀ b, s'.cell = .tree b → (binAt s.tbins b).mutex = none ∧ (binAt s.tbins b).writer = false ∧
      (binAt s.tbins b).waiter = false)
    (hdead : ∀ b, b < s.tbins.length → s'.cell ≠ .tree b → s.cell = .tree b → (binAt s.tbins b).writer = true)
    (e7 : holdsRead l'.pc = holdsRead l.pc)
    (e8 : ∀ b, binRef l'.pc = some b → binRef l.pc = some b ∨ s.cell = .tree b)
    (e9 : ∀ h b, l.pc = .kStore h b → l'.pc = .kStore h b ∨ s'.cell = .tree b)
    (e9' : ∀ h b, l'.pc = .kStore h b → l.pc = .kStore h b) : RwPart s' := by
  refine ⟨?_, ?_, ?_, ?_, ?_, refOK_step L H hl hthr (by rw [htb]; exact Nat.le_refl _) e8 e9'⟩
  · intro b hc _
    rw [htb]
    exact (hbits b hc).2
  · intro b t1 l1 hc _ hm
    rw [htb, (hbits b hc).1] at hm; cases hm
  · intro b hb
    rw [htb] at hb ⊢
    have h1 := cnt_set (fun pc => holdsRead pc == some b) s.threads t l l' hl
    have h3 := L.rd b hb
    rw [hthr]
    rw [e7] at h1
    omega
  · intro b hw
    rw [htb] at hw ⊢
    exact L.wrd b hw
  · intro b hb hc
    rw [htb] at hb ⊢
    by_cases hcs : s.cell = .tree b
    · exact Or.inl (hdead b hb hc hcs)
    · rcases L.dead b hb hcs with h1 | ⟨t1, l1, h, h1, hpc⟩
      · exact Or.inl h1
      · by_cases ht : t1 = t
        · subst ht
          rw [hl] at h1; cases h1
          rcases e9 h b hpc with h2 | h2
          · exact Or.inr ⟨t1, l', h, by rw [hthr]; exact get_set_self hl, h2⟩
          · exact absurd h2 hc
        · exact Or.inr ⟨t1, l1, h, by rw [hthr, get_set_ne ht]; exact h1, hpc⟩

end Flurry.Proto.BinK
