import Flurry.Proto.TableNI
import Flurry.Lemmas.TableN
import Flurry.Lemmas.BinNITime
/-! # Proto/TableNI: invariants of the table with concurrent table iterations (C07, C01)

* `tick_is_step`: a tick of a lineage is the no-op `BinNI.step` of the clock thread (idle, not iterating);
* `TblInv m n S`: `m` lineages, each `BinNI.Reachable (n + 1)`, the clock thread idle and not iterating in
  each, and all lineages at one clock value;
* the key translation of the map history (`proj_mhist`, as in `Lemmas/TableN.lean`) and of the yields
  (`mem_tyields`, `filter_tyields`: the yields with key `k` are, re-keyed, the yields of lineage `k % m` with
  key `k / m` — the other lineages yield keys of their own class only);
* `before_of_steps`: every state of the run of the table is, lineage by lineage, a past state (`Before`). -/
namespace Flurry.Proto.TableNI
open Flurry.Lin Flurry.LinMap
open Flurry.Proto.BinX (get_set get_set_ne)
open Flurry.Proto.TableN (lineageOf localKey globalKey inLineage localInv)

/-! ## the clock thread -/

/-- a transition of thread `t` leaves the iterator part and the `BinN` local of every other thread alone -/
theorem step_other {s s' : BinNI.State} {t c : Nat} {mk : Bool} {inv : Option (Nat × KOp)} {rz : Bool} {pick : Nat}
    (hs : BinNI.step s t mk inv rz pick = some s') (hne : c ≠ t) :
    s'.its[c]? = s.its[c]? ∧ s'.n.threads[c]? = s.n.threads[c]? := by
  constructor
  · rcases BinNI.step_cases hs with ⟨-, -, n', -, rfl⟩ | ⟨-, -, l, -, -, rfl⟩ | ⟨it, n', -, -, hit⟩
    · rfl
    · show (s.its.set t _)[c]? = _
      rw [List.getElem?_set_ne (fun e => hne e.symm)]
    · rcases (BinNI.iterStep_cases hit).2 with ⟨_, _, -, -, h, -⟩ | ⟨-, -, h, -⟩ | ⟨_, _, _, _, _, -, -, h, -⟩ <;>
        rw [h, List.getElem?_set_ne (fun e => hne e.symm)]
  · obtain ⟨inv', rz', pick', hn⟩ := BinNI.step_n hs
    obtain ⟨l', hl'⟩ := BinN.step_threads hn
    rw [hl', List.getElem?_set_ne (fun e => hne e.symm)]

/-- thread `c` is idle and not iterating in lineage `b` -/
def ClockOK (c : Nat) (b : BinNI.State) : Prop :=
  b.its[c]? = some none ∧ ∃ l, b.n.threads[c]? = some l ∧ l.pc = .idle

/-- **a tick is a transition of the lineage**: the no-op step of the clock thread -/
theorem tick_is_step {b : BinNI.State} {c : Nat} (h : ClockOK c b) :
    BinNI.step b c false none false 0 = some (tick b) := by
  obtain ⟨h1, l, hl, hpc⟩ := h
  unfold BinNI.step
  rw [h1]
  simp only [Bool.false_eq_true, if_false]
  rw [BinNI.idle_step hl hpc]
  rfl

theorem tick_clockOK {b : BinNI.State} {c : Nat} (h : ClockOK c b) : ClockOK c (tick b) := h

theorem step_clockOK {b b' : BinNI.State} {t c : Nat} {mk : Bool} {inv : Option (Nat × KOp)} {rz : Bool} {pick : Nat}
    (h : ClockOK c b) (hs : BinNI.step b t mk inv rz pick = some b') (hne : t ≠ c) : ClockOK c b' := by
  obtain ⟨e1, e2⟩ := step_other hs (fun e => hne e.symm)
  unfold ClockOK
  rw [e1, e2]
  exact h

theorem init_clockOK (n : Nat) : ClockOK n (BinNI.init (n + 1)) := by
  refine ⟨?_, {}, ?_, rfl⟩
  · show (List.replicate (n + 1) none)[n]? = some none
    rw [List.getElem?_replicate]; simp
  · show (List.replicate (n + 1) ({} : BinN.Local))[n]? = some {}
    rw [List.getElem?_replicate]; simp

/-! ## the step, spelled out -/

theorem step_eq_some {S S' : State} {i t : Nat} {mk : Bool} {inv : Option (Nat × KOp)} {rz : Bool} {pick : Nat}
    (hs : step S i t mk inv rz pick = some S') :
    ∃ b b', S.bins[i]? = some b ∧ t ≠ S.clk ∧
      ((List.range S.bins.length).all fun j => j == i || idleIn (S.bins.getD j (BinNI.init 0)) t) = true ∧
      (∀ k op, inv = some (k, op) → lineageOf S.bins.length k = i) ∧
      BinNI.step b t mk (localInv S.bins.length inv) rz pick = some b' ∧
      S' = { S with bins := (S.bins.map tick).set i b' } := by
  unfold step at hs
  simp only at hs
  cases hb : S.bins[i]? with
  | none => rw [hb] at hs; cases hs
  | some b =>
    rw [hb] at hs
    simp only at hs
    by_cases h0 : t = S.clk
    · rw [if_pos (by simpa using h0)] at hs; cases hs
    · rw [if_neg (by simpa using h0)] at hs
      cases h1 : ((List.range S.bins.length).all fun j => j == i || idleIn (S.bins.getD j (BinNI.init 0)) t) with
      | false => rw [h1] at hs; simp at hs
      | true =>
        rw [h1] at hs
        simp only [Bool.not_true, Bool.false_eq_true, if_false] at hs
        cases h2 : inLineage S.bins.length i (inv.map (·.1)) with
        | false => rw [h2] at hs; simp at hs
        | true =>
          rw [h2] at hs
          simp only [Bool.not_true, Bool.false_eq_true, if_false] at hs
          cases h4 : BinNI.step b t mk (localInv S.bins.length inv) rz pick with
          | none => rw [h4] at hs; cases hs
          | some b' =>
            rw [h4] at hs
            simp only [Option.some.injEq] at hs
            refine ⟨b, b', rfl, h0, rfl, ?_, h4, hs.symm⟩
            intro k op hi
            subst hi
            simpa [inLineage] using h2

/-- the lineages after a step: lineage `i` made its transition, every other lineage ticked -/
theorem step_bins {S : State} {i : Nat} {b' : BinNI.State} :
    ∀ (j : Nat) (c : BinNI.State), ((S.bins.map tick).set i b')[j]? = some c →
      (j = i ∧ c = b') ∨ (j ≠ i ∧ ∃ b0, S.bins[j]? = some b0 ∧ c = tick b0) := by
  intro j c hc
  rcases get_set hc with ⟨rfl, rfl⟩ | ⟨hne, hc⟩
  · exact Or.inl ⟨rfl, rfl⟩
  · rw [List.getElem?_map] at hc
    cases hj : S.bins[j]? with
    | none => rw [hj] at hc; cases hc
    | some b0 =>
      rw [hj] at hc
      simp only [Option.map_some, Option.some.injEq] at hc
      exact Or.inr ⟨hne, b0, rfl, hc.symm⟩

/-- … and conversely every lineage of `S` has its successor at the same index -/
theorem step_bins_fwd {S : State} {i : Nat} {b b' : BinNI.State} (hb : S.bins[i]? = some b) :
    ∀ (j : Nat) (b0 : BinNI.State), S.bins[j]? = some b0 →
      ∃ c, ((S.bins.map tick).set i b')[j]? = some c ∧ ((j = i ∧ c = b' ∧ b0 = b) ∨ (j ≠ i ∧ c = tick b0)) := by
  intro j b0 hj
  have hjl : j < S.bins.length := (List.getElem?_eq_some_iff.1 hj).1
  by_cases hji : j = i
  · subst hji
    rw [hb] at hj; cases hj
    exact ⟨b', by rw [List.getElem?_set_self (by rw [List.length_map]; exact hjl)], Or.inl ⟨rfl, rfl, rfl⟩⟩
  · refine ⟨tick b0, ?_, Or.inr ⟨hji, rfl⟩⟩
    rw [List.getElem?_set_ne (fun e => hji e.symm), List.getElem?_map, hj]
    rfl

/-! ## the invariant of the table -/

structure TblInv (m n : Nat) (S : State) : Prop where
  len : S.bins.length = m
  clk : S.clk = n
  reach : ∀ (j : Nat) (b : BinNI.State), S.bins[j]? = some b → BinNI.Reachable (n + 1) b
  clock : ∀ (j : Nat) (b : BinNI.State), S.bins[j]? = some b → ClockOK n b
  now : ∃ τ, ∀ (j : Nat) (b : BinNI.State), S.bins[j]? = some b → b.n.now = τ

theorem init_bin {m n j : Nat} {b : BinNI.State} (h : (init m n).bins[j]? = some b) : b = BinNI.init (n + 1) := by
  have hm : b ∈ List.replicate m (BinNI.init (n + 1)) := List.mem_iff_getElem?.mpr ⟨j, h⟩
  exact (List.mem_replicate.1 hm).2

theorem init_tblInv (m n : Nat) : TblInv m n (init m n) := by
  refine ⟨by simp [init], rfl, ?_, ?_, ⟨0, ?_⟩⟩
  · intro j b h; rw [init_bin h]; exact BinNI.Reachable.init
  · intro j b h; rw [init_bin h]; exact init_clockOK n
  · intro j b h; rw [init_bin h]; rfl

theorem step_tblInv {m n : Nat} {S S' : State} {i t : Nat} {mk : Bool} {inv : Option (Nat × KOp)} {rz : Bool}
    {pick : Nat} (I : TblInv m n S) (hs : step S i t mk inv rz pick = some S') : TblInv m n S' := by
  obtain ⟨b, b', hb, htc, hidle, _, hb', rfl⟩ := step_eq_some hs
  have hget := step_bins (S := S) (i := i) (b' := b')
  obtain ⟨τ, hτ⟩ := I.now
  refine ⟨?_, I.clk, ?_, ?_, ⟨τ + 1, ?_⟩⟩
  · show ((S.bins.map tick).set i b').length = m
    rw [List.length_set, List.length_map]; exact I.len
  · intro j c hc
    rcases hget j c hc with ⟨rfl, rfl⟩ | ⟨_, b0, hj, rfl⟩
    · exact BinNI.Reachable.step t mk _ rz pick (I.reach j b hb) hb'
    · exact BinNI.Reachable.step n false none false 0 (I.reach j b0 hj) (tick_is_step (I.clock j b0 hj))
  · intro j c hc
    rcases hget j c hc with ⟨rfl, rfl⟩ | ⟨_, b0, hj, rfl⟩
    · exact step_clockOK (I.clock j b hb) hb' (by rw [← I.clk]; exact htc)
    · exact tick_clockOK (I.clock j b0 hj)
  · intro j c hc
    rcases hget j c hc with ⟨rfl, rfl⟩ | ⟨_, b0, hj, rfl⟩
    · rw [BinNI.step_now hb', hτ j b hb]
    · show b0.n.now + 1 = τ + 1
      rw [hτ j b0 hj]

theorem reachable_tblInv {m n : Nat} {S : State} (hr : Reachable m n S) : TblInv m n S := by
  induction hr with
  | init => exact init_tblInv m n
  | step i t mk inv rz pick _ hs ih => exact step_tblInv ih hs

theorem Steps.reachable {m n : Nat} {S S' : State} (hr : Reachable m n S) (h : Steps S S') : Reachable m n S' := by
  induction h with
  | refl => exact hr
  | tail i t mk inv rz pick _ hs ih => exact Reachable.step i t mk inv rz pick ih hs

/-- every state of the run of the table is, lineage by lineage, a past state -/
theorem before_of_steps {m n : Nat} {S₁ S : State} (hr : Reachable m n S₁) (h : Steps S₁ S) : Before n S₁ S := by
  induction h with
  | refl =>
    have I := reachable_tblInv hr
    refine ⟨rfl, ?_⟩
    intro i b₁ b h1 h2
    rw [h1] at h2; cases h2
    exact ⟨I.reach i b₁ h1, BinNI.Steps.refl _⟩
  | @tail S' S'' i t mk inv rz pick hst hs ih =>
    have I := reachable_tblInv (Steps.reachable hr hst)
    obtain ⟨b, b', hb, htc, hidle, _, hb', rfl⟩ := step_eq_some hs
    refine ⟨?_, ?_⟩
    · show S₁.bins.length = ((S'.bins.map tick).set i b').length
      rw [List.length_set, List.length_map]; exact ih.len
    · intro j b₁ c h1 hc
      rcases step_bins j c hc with ⟨rfl, rfl⟩ | ⟨_, b0, hj, rfl⟩
      · obtain ⟨r, st⟩ := ih.lin j b₁ b h1 hb
        exact ⟨r, BinNI.Steps.tail t mk _ rz pick st hb'⟩
      · obtain ⟨r, st⟩ := ih.lin j b₁ b0 h1 hj
        exact ⟨r, BinNI.Steps.tail n false none false 0 st (tick_is_step (I.clock j b0 hj))⟩

/-! ## the history of the map, key by key -/

theorem getD_of_get {S : State} {i : Nat} {b : BinNI.State} (hb : S.bins[i]? = some b) :
    S.bins.getD i (BinNI.init 0) = b := by
  rw [List.getD_eq_getElem?_getD, hb]; rfl

theorem proj_mhist {m n : Nat} (hm : 0 < m) {S : State} (I : TblInv m n S) {k : Nat} {b : BinNI.State}
    (hb : S.bins[lineageOf m k]? = some b) : proj (mhist S) k = BinN.callsOn b.n (localKey m k) := by
  have hlt : lineageOf m k < m := Nat.mod_lt _ hm
  unfold mhist
  rw [TableN.proj_flatten, List.map_map, I.len]
  rw [TableN.flatten_single ((fun x => proj x k) ∘ fun i => TableN.binCalls m i (S.bins.getD i (BinNI.init 0)).n)
    (List.range m) (lineageOf m k) (lineageOf m k) (by rw [List.getElem?_range hlt])]
  · show proj (TableN.binCalls m (lineageOf m k) (S.bins.getD (lineageOf m k) (BinNI.init 0)).n) k = _
    rw [getD_of_get hb]
    exact TableN.proj_binCalls_own hm b.n k
  · intro j c hj hne
    have hjm : j < m := by
      have := (List.getElem?_eq_some_iff.1 hj).1
      simpa using this
    rw [List.getElem?_range hjm] at hj
    cases hj
    exact TableN.proj_binCalls_other hjm _ hne

theorem bin_of_key {m n : Nat} (hm : 0 < m) {S : State} (I : TblInv m n S) (k : Nat) :
    ∃ b, S.bins[lineageOf m k]? = some b := by
  have hlt : lineageOf m k < S.bins.length := by rw [I.len]; exact Nat.mod_lt _ hm
  exact ⟨S.bins[lineageOf m k], List.getElem?_eq_getElem hlt⟩

theorem absMap_eq {m : Nat} {S : State} (hlen : S.bins.length = m) {k : Nat} {b : BinNI.State}
    (hb : S.bins[lineageOf m k]? = some b) : absMap S k = BinNI.absOf b (localKey m k) := by
  unfold absMap
  rw [hlen, getD_of_get hb]

theorem key_linearizable_aux {m n : Nat} (hm : 0 < m) {S : State} (hr : Reachable m n S)
    (hq : quiescent S) (k : Nat) : Linearizable (proj (mhist S) k) none (absMap S k) := by
  have I := reachable_tblInv hr
  obtain ⟨b, hb⟩ := bin_of_key hm I k
  rw [proj_mhist hm I hb, absMap_eq I.len hb]
  exact BinN.binN_linearizable_quiescent_aux (BinNI.reachable_n (I.reach _ b hb))
    (hq b (List.mem_of_getElem? hb)) (localKey m k)

theorem mem_mhist {S : State} {c : MCall} (hc : c ∈ mhist S) :
    ∃ i b q, S.bins[i]? = some b ∧ (q, c.call) ∈ b.n.hist ∧ c.key = globalKey S.bins.length i q := by
  unfold mhist at hc
  rw [List.mem_flatten] at hc
  obtain ⟨l, hl, hcl⟩ := hc
  obtain ⟨i, hi, rfl⟩ := List.mem_map.1 hl
  have hilt : i < S.bins.length := List.mem_range.1 hi
  unfold TableN.binCalls at hcl
  obtain ⟨e, he, rfl⟩ := List.mem_map.1 hcl
  rw [List.mem_reverse] at he
  refine ⟨i, S.bins[i], e.1, List.getElem?_eq_getElem hilt, ?_, rfl⟩
  rw [List.getD_eq_getElem?_getD, List.getElem?_eq_getElem hilt] at he
  exact he

theorem mhist_wf {m n : Nat} {S : State} (hr : Reachable m n S) : ∀ c ∈ mhist S, c.call.inv ≤ c.call.resp := by
  have I := reachable_tblInv hr
  intro c hc
  obtain ⟨i, b, q, hb, hmem, -⟩ := mem_mhist hc
  exact ((BinN.reachable_tinv (BinNI.reachable_n (I.reach i b hb))).histTime (q, c.call) hmem).1

theorem map_linearizable_aux {m n : Nat} (hm : 0 < m) {S : State} (hr : Reachable m n S)
    (hq : quiescent S) : MapLinearizable (mhist S) (fun _ => none) (absMap S) :=
  Flurry.LinMap.map_linearizable_of_proj (mhist_wf hr) (fun k => key_linearizable_aux hm hr hq k)

/-! ## the yields, key by key -/

/-- every yield of the table is a yield of some lineage `i < m`, under the translated key -/
theorem mem_tyields {S : State} {y : BinNI.Yield} (hy : y ∈ tyields S) :
    ∃ i b y0, S.bins[i]? = some b ∧ y0 ∈ b.yields ∧ y = rekey S.bins.length i y0 := by
  unfold tyields at hy
  rw [List.mem_flatten] at hy
  obtain ⟨l, hl, hyl⟩ := hy
  obtain ⟨i, hi, rfl⟩ := List.mem_map.1 hl
  have hilt : i < S.bins.length := List.mem_range.1 hi
  obtain ⟨y0, hy0, rfl⟩ := List.mem_map.1 hyl
  refine ⟨i, S.bins[i], y0, List.getElem?_eq_getElem hilt, ?_, rfl⟩
  rw [List.getD_eq_getElem?_getD, List.getElem?_eq_getElem hilt] at hy0
  exact hy0

theorem filter_flatten_map {α β : Type} (p : β → Bool) (f : α → List β) (L : List α) :
    (L.map f).flatten.filter p = (L.map fun a => (f a).filter p).flatten := by
  rw [List.filter_flatten, List.map_map]
  rfl

/-- **the yields with key `k`** (and any further condition `p`) are, re-keyed, those of lineage `k % m` with
key `k / m`: the other lineages yield keys of their own class only -/
theorem filter_tyields {m n : Nat} (hm : 0 < m) {S : State} (I : TblInv m n S) (k : Nat) (p : BinNI.Yield → Bool)
    {b : BinNI.State} (hb : S.bins[lineageOf m k]? = some b) :
    (tyields S).filter (fun y => p y && decide (y.key = k)) =
      (b.yields.filter fun y0 => p (rekey m (lineageOf m k) y0) && decide (y0.key = localKey m k)).map
        (rekey m (lineageOf m k)) := by
  have hlt : lineageOf m k < m := Nat.mod_lt _ hm
  unfold tyields
  rw [filter_flatten_map, I.len]
  rw [TableN.flatten_single
    (fun i => ((S.bins.getD i (BinNI.init 0)).yields.map (rekey m i)).filter (fun y => p y && decide (y.key = k)))
    (List.range m) (lineageOf m k) (lineageOf m k) (by rw [List.getElem?_range hlt])]
  · show ((S.bins.getD (lineageOf m k) (BinNI.init 0)).yields.map (rekey m (lineageOf m k))).filter _ = _
    rw [getD_of_get hb, List.filter_map]
    congr 1
    apply List.filter_congr
    intro y0 _
    show (p (rekey m (lineageOf m k) y0) && decide (globalKey m (lineageOf m k) y0.key = k)) = _
    congr 1
    rw [Bool.eq_iff_iff]
    simp only [decide_eq_true_eq]
    rw [TableN.globalKey_eq_iff hlt y0.key k]
    exact ⟨fun h => h.2, fun h => ⟨rfl, h⟩⟩
  · intro j c hj hne
    have hjm : j < m := by
      have := (List.getElem?_eq_some_iff.1 hj).1
      simpa using this
    rw [List.getElem?_range hjm] at hj
    cases hj
    rw [List.filter_eq_nil_iff]
    intro y hy hp
    obtain ⟨y0, -, rfl⟩ := List.mem_map.1 hy
    simp only [Bool.and_eq_true, decide_eq_true_eq] at hp
    exact hne ((TableN.globalKey_eq_iff hjm y0.key k).1 hp.2).1

/-- replacing lineage `i` of `S` by one of its past states gives a past state of the table -/
theorem before_set {m n : Nat} {S : State} (I : TblInv m n S) {i : Nat} {b s₁ : BinNI.State}
    (hb : S.bins[i]? = some b) (hr1 : BinNI.Reachable (n + 1) s₁) (hst : BinNI.Steps s₁ b) :
    Before n { S with bins := S.bins.set i s₁ } S := by
  refine ⟨List.length_set, ?_⟩
  intro j b₁ c h1 hc
  rcases get_set h1 with ⟨rfl, rfl⟩ | ⟨hne, h1⟩
  · rw [hb] at hc; cases hc
    exact ⟨hr1, hst⟩
  · rw [h1] at hc; cases hc
    exact ⟨I.reach j b₁ h1, BinNI.Steps.refl _⟩

end Flurry.Proto.TableNI
