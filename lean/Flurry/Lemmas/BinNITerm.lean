import Flurry.Lemmas.BinNIProgress
/-! # Proto/BinNI: an iterator that runs alone ends within an explicit number of steps (C07)

Measure: the rank distance of the pointer to the end of the heap (next pointers go strictly upwards in
`ord`), plus, for every pending cell of generation `g`, `D W (T − g)` with `W = 2·|heap| + 3`,
`T` = number of allocated generations, `D W 0 = W`, `D W (d+1) = 2 · D W d + 1` (a forwarded cell is
replaced by its two children of the next generation; only cells of generations `≤ cur < T` are forwarded). -/
namespace Flurry.Proto.BinNI
open Flurry.Lin
open Flurry.Proto.BinX (NodeS Cell Pending isReader dflt chainFrom cellHead cellOfHead nodeAt nodeAt_of_some get_set chainH)
open Flurry.Proto.BinN (Ghost Inv HInv cellAt IGood ord)

/-- `m` consecutive steps of thread `t` alone (it creates nothing, starts no call and no resize) -/
inductive SoloSteps (t : Nat) : Nat → State → State → Prop
  | zero (s : State) : SoloSteps t 0 s s
  | succ {m : Nat} {s s' s'' : State} : step s t false none false 0 = some s' → SoloSteps t m s' s'' →
      SoloSteps t (m + 1) s s''

def D (W : Nat) : Nat → Nat
  | 0 => W
  | d + 1 => 2 * D W d + 1

theorem D_ge (W d : Nat) : W ≤ D W d := by
  induction d with
  | zero => exact Nat.le_refl _
  | succ d ih => show W ≤ 2 * D W d + 1; omega

def ptrM (L : Nat) (cr : BinN.CR) : Option Nat → Nat
  | none => 0
  | some c => ((L : Int) - ord cr c).toNat + 1

/-- the cost of the pending cells -/
def todoM (W T : Nat) (todo : List (Nat × Nat)) : Nat := (todo.map fun c => D W (T - c.1)).sum

def mu (n : BinN.State) (G : Ghost) (it : Iter) : Nat :=
  ptrM n.heap.length G.cr it.ptr + todoM (2 * n.heap.length + 3) n.tabs.length it.todo

theorem ptrM_le {L c : Nat} (cr : BinN.CR) (h : c < L) : ptrM L cr (some c) ≤ 2 * L + 1 := by
  have := BinN.ord_ge cr c
  show ((L : Int) - ord cr c).toNat + 1 ≤ _
  omega

/-- one step of an iterator that runs on the memory of `n0` -/
theorem solo_one {n0 : BinN.State} {G : Ghost} (H : HInv n0 G) {t : Nat} {s : State} {it : Iter}
    (hh : s.n.heap = n0.heap) (ht : s.n.tabs = n0.tabs)
    (hi : s.its[t]? = some (some it))
    (hidle : ∃ l : BinN.Local, s.n.threads[t]? = some l ∧ l.pc = BinN.Pc.idle)
    (hptr : ∀ c, it.ptr = some c → c < n0.heap.length) :
    ∃ s', step s t false none false 0 = some s' ∧ s'.n = tickN s.n ∧
      (s'.its[t]? = some none ∨ ∃ it', s'.its[t]? = some (some it') ∧
        (∀ c, it'.ptr = some c → c < n0.heap.length) ∧ mu n0 G it' < mu n0 G it) := by
  obtain ⟨l0, hl0, hpc0⟩ := hidle
  have hstep : step s t false none false 0 = iterStep s t it (tickN s.n) := by
    unfold step; rw [hi]; simp only; rw [idle_step hl0 hpc0]; rfl
  have hlen : t < s.its.length := by
    rcases Nat.lt_or_ge t s.its.length with h | h
    · exact h
    · rw [List.getElem?_eq_none h] at hi; cases hi
  have hset : ∀ x : Option Iter, (s.its.set t x)[t]? = some x := fun x => by
    rw [List.getElem?_set_self hlen]
  have hcell : ∀ g j, cellAt (tickN s.n) g j = cellAt n0 g j := fun g j => by
    rw [BinN.cellAt_eq, BinN.cellAt_eq]; show BinN.cellT s.n.tabs g j = _; rw [ht]
  obtain ⟨t0, g0, ptr, todo⟩ := it
  rw [hstep]
  unfold iterStep
  cases ptr with
  | some c =>
    have hlt := hptr c rfl
    have hget : (tickN s.n).heap[c]? = some n0.heap[c] := by
      show s.n.heap[c]? = _; rw [hh]; exact List.getElem?_eq_getElem hlt
    simp only
    rw [hget]
    refine ⟨_, rfl, rfl, Or.inr ⟨_, hset _, ?_, ?_⟩⟩
    · intro b hb
      exact (H.nextOK c _ b (List.getElem?_eq_getElem hlt) hb).2
    · show ptrM _ _ (n0.heap[c]).next + todoM _ _ todo < ptrM _ _ (some c) + todoM _ _ todo
      apply Nat.add_lt_add_right
      cases hnx : (n0.heap[c]).next with
      | none => show 0 < _ + 1; omega
      | some b =>
        obtain ⟨h1, h2⟩ := H.nextOK c _ b (List.getElem?_eq_getElem hlt) hnx
        have := BinN.ord_le_self G.cr b
        show ((n0.heap.length : Int) - ord G.cr b).toNat + 1 < ((n0.heap.length : Int) - ord G.cr c).toNat + 1
        omega
  | none =>
    simp only
    cases todo with
    | nil => exact ⟨_, rfl, rfl, Or.inl (hset _)⟩
    | cons x rest =>
      obtain ⟨g, j⟩ := x
      simp only
      have hD := D_ge (2 * n0.heap.length + 3) (n0.tabs.length - g)
      have hsum : todoM (2 * n0.heap.length + 3) n0.tabs.length ((g, j) :: rest) =
          D (2 * n0.heap.length + 3) (n0.tabs.length - g) + todoM (2 * n0.heap.length + 3) n0.tabs.length rest := by
        unfold todoM; simp
      cases hc : cellAt (tickN s.n) g j with
      | empty =>
        refine ⟨_, rfl, rfl, Or.inr ⟨_, hset _, (fun c h => by cases h), ?_⟩⟩
        show ptrM _ _ none + todoM _ _ rest < ptrM _ _ none + todoM _ _ ((g, j) :: rest)
        rw [hsum]; omega
      | node hd =>
        rw [hcell] at hc
        have hlt := H.head (g, j) hd hc
        refine ⟨_, rfl, rfl, Or.inr ⟨_, hset _, (fun c h => by cases h; exact hlt), ?_⟩⟩
        show ptrM _ _ (some hd) + todoM _ _ rest < ptrM _ _ none + todoM _ _ ((g, j) :: rest)
        rw [hsum]
        have := ptrM_le G.cr hlt
        show ptrM _ _ (some hd) + _ < 0 + _
        omega
      | moved =>
        rw [hcell] at hc
        have hg : g + 1 ≤ n0.cur + 1 := (children_ok H.shape hc).1.1
        have hcur := H.shape.cur_lt
        refine ⟨_, rfl, rfl, Or.inr ⟨_, hset _, (fun c h => by cases h), ?_⟩⟩
        show ptrM _ _ none + todoM _ _ ((g + 1, j) :: (g + 1, j + 2 ^ g) :: rest) <
          ptrM _ _ none + todoM _ _ ((g, j) :: rest)
        have e : n0.tabs.length - g = (n0.tabs.length - (g + 1)) + 1 := by omega
        have hDD : D (2 * n0.heap.length + 3) (n0.tabs.length - g) =
            2 * D (2 * n0.heap.length + 3) (n0.tabs.length - (g + 1)) + 1 := by rw [e]; rfl
        have hsum2 : todoM (2 * n0.heap.length + 3) n0.tabs.length ((g + 1, j) :: (g + 1, j + 2 ^ g) :: rest) =
            D (2 * n0.heap.length + 3) (n0.tabs.length - (g + 1)) + (D (2 * n0.heap.length + 3) (n0.tabs.length - (g + 1)) +
              todoM (2 * n0.heap.length + 3) n0.tabs.length rest) := by
          unfold todoM; simp
        rw [hsum, hsum2, hDD]; omega

theorem solo_aux {n0 : BinN.State} {G : Ghost} (H : HInv n0 G) (t : Nat) : ∀ (μ : Nat) (s : State) (it : Iter),
    s.n.heap = n0.heap → s.n.tabs = n0.tabs → s.n.cur = n0.cur → s.its[t]? = some (some it) →
    (∃ l : BinN.Local, s.n.threads[t]? = some l ∧ l.pc = BinN.Pc.idle) →
    (∀ c, it.ptr = some c → c < n0.heap.length) → mu n0 G it ≤ μ →
    ∃ m s', m ≤ μ + 1 ∧ SoloSteps t m s s' ∧ s'.its[t]? = some none ∧
      s'.n.heap = n0.heap ∧ s'.n.tabs = n0.tabs ∧ s'.n.cur = n0.cur := by
  intro μ
  induction μ with
  | zero =>
    intro s it hh ht hc hi hidle hptr hmu
    obtain ⟨s', h1, h2, h3⟩ := solo_one H hh ht hi hidle hptr
    rcases h3 with h3 | ⟨it', -, -, h5⟩
    · exact ⟨1, s', by omega, .succ h1 (.zero _), h3, by rw [h2]; exact hh, by rw [h2]; exact ht, by rw [h2]; exact hc⟩
    · omega
  | succ μ ih =>
    intro s it hh ht hc hi hidle hptr hmu
    obtain ⟨s', h1, h2, h3⟩ := solo_one H hh ht hi hidle hptr
    rcases h3 with h3 | ⟨it', h4, h5, h6⟩
    · exact ⟨1, s', by omega, .succ h1 (.zero _), h3, by rw [h2]; exact hh, by rw [h2]; exact ht, by rw [h2]; exact hc⟩
    · obtain ⟨m, s'', k1, k2, k3⟩ := ih s' it' (by rw [h2]; exact hh) (by rw [h2]; exact ht) (by rw [h2]; exact hc) h4
        (by rw [h2]; exact hidle) h5 (by omega)
      exact ⟨m + 1, s'', by omega, .succ h1 k2, k3⟩

/-- **an iterator that runs alone ends** within `2·|heap| + 2 + Σ_{(g, j) pending} D (2·|heap| + 3) (T − g)`
steps (`T` = number of allocated generations), from any reachable state, leaving the memory as it is -/
theorem solo_terminates {nt : Nat} {s : State} (hr : Reachable nt s) {t : Nat} {it : Iter}
    (hi : s.its[t]? = some (some it)) :
    ∃ m s', m ≤ 2 * s.n.heap.length + 2 + todoM (2 * s.n.heap.length + 3) s.n.tabs.length it.todo ∧
      SoloSteps t m s s' ∧ s'.its[t]? = some none ∧
      s'.n.heap = s.n.heap ∧ s'.n.tabs = s.n.tabs ∧ s'.n.cur = s.n.cur := by
  obtain ⟨G, I⟩ := reachable_iinv hr
  obtain ⟨-, g2, -⟩ := I.good t it hi
  have hptr : ∀ c, it.ptr = some c → c < s.n.heap.length := fun c hc => by rw [hc] at g2; exact g2.lt I.inv.heap
  have hmu : mu s.n G it ≤ 2 * s.n.heap.length + 1 + todoM (2 * s.n.heap.length + 3) s.n.tabs.length it.todo := by
    unfold mu
    apply Nat.add_le_add_right
    cases hp : it.ptr with
    | none => show 0 ≤ _; omega
    | some c => exact ptrM_le G.cr (hptr c hp)
  obtain ⟨m, s', h1, h2⟩ := solo_aux I.inv.heap t _ s it rfl rfl rfl hi (I.idle t it hi) hptr hmu
  exact ⟨m, s', by omega, h2⟩

end Flurry.Proto.BinNI
