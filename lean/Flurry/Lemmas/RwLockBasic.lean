import Flurry.Proto.RwLock
/-! # Lemmas/RwLockBasic: counting lemmas and the inductive invariant of the tree-bin lock model -/
namespace Flurry.Proto.RwLock
open Flurry.Gen

/-- number of readers whose pc satisfies `p` -/
def cnt (p : RPc → Bool) (rs : List RPc) : Nat := (rs.filter p).length

theorem numHolding_eq_cnt (rs : List RPc) : numHolding rs = cnt holdsRead rs := rfl

/-- replacing the pc of reader `i` changes a count by exactly the difference of the indicator -/
theorem cnt_set (p : RPc → Bool) (rs : List RPc) (i : Nat) (old new : RPc) (h : rs[i]? = some old) :
    cnt p (rs.set i new) + (if p old then 1 else 0) = cnt p rs + (if p new then 1 else 0) := by
  induction rs generalizing i with
  | nil => simp at h
  | cons a t ih =>
    cases i with
    | zero =>
      simp at h; subst h
      simp only [cnt, List.set_cons_zero, List.filter_cons]
      cases p a <;> cases p new <;> simp
    | succ j =>
      simp at h
      have := ih j h
      simp only [cnt, List.set_cons_succ, List.filter_cons] at this ⊢
      cases p a <;> simp <;> omega

theorem cnt_pos_iff (p : RPc → Bool) (rs : List RPc) :
    1 ≤ cnt p rs ↔ ∃ (i : Nat) (pc : RPc), rs[i]? = some pc ∧ p pc = true := by
  unfold cnt
  constructor
  · intro h
    have : 0 < (rs.filter p).length := h
    obtain ⟨x, hx⟩ := List.exists_mem_of_length_pos this
    rw [List.mem_filter] at hx
    obtain ⟨i, hi⟩ := List.mem_iff_getElem?.mp hx.1
    exact ⟨i, x, hi, hx.2⟩
  · rintro ⟨i, pc, hi, hp⟩
    have hm : pc ∈ rs.filter p := List.mem_filter.mpr ⟨List.mem_iff_getElem?.mpr ⟨i, hi⟩, hp⟩
    exact List.length_pos_of_mem hm

theorem numHolding_set (rs : List RPc) (i : Nat) (old new : RPc) (h : rs[i]? = some old) :
    numHolding (rs.set i new) =
      numHolding rs - (if holdsRead old then 1 else 0) + (if holdsRead new then 1 else 0) := by
  have := cnt_set holdsRead rs i old new h
  simp only [numHolding_eq_cnt]
  cases h1 : holdsRead old <;> cases h2 : holdsRead new <;> simp [h1, h2] at this ⊢ <;> try omega
  have : 1 ≤ cnt holdsRead rs := (cnt_pos_iff _ _).mpr ⟨i, old, h, h1⟩
  omega

theorem cnt_eq_zero_of_all (p : RPc → Bool) (rs : List RPc)
    (h : ∀ (i : Nat) (pc : RPc), rs[i]? = some pc → p pc = false) : cnt p rs = 0 := by
  have := cnt_pos_iff p rs
  rcases Nat.eq_zero_or_pos (cnt p rs) with h0 | h0
  · exact h0
  · obtain ⟨i, pc, hi, hp⟩ := this.mp h0
    simp [h i pc hi] at hp

def isUnpark : RPc → Bool
  | .unpark => true
  | _ => false

def isLoadWaiter : RPc → Bool
  | .loadWaiter => true
  | _ => false

theorem isUnpark_iff (pc : RPc) : isUnpark pc = true ↔ pc = .unpark := by cases pc <;> simp [isUnpark]
theorem isLoadWaiter_iff (pc : RPc) : isLoadWaiter pc = true ↔ pc = .loadWaiter := by
  cases pc <;> simp [isLoadWaiter]

theorem mem_set_cases {rs : List RPc} {i : Nat} {new x : RPc} (h : x ∈ rs.set i new) :
    x ∈ rs ∨ x = new := List.mem_or_eq_of_mem_set h

/-! ## the predicates of the characterisation -/

/-- the writer holds the write lock (`WRITER` bit set by this thread) -/
def writerHolds (s : State) : Bool :=
  match s.wpc with
  | .hold | .swapOut => true
  | _ => false

/-- the `WAITER` bit is set: from the successful `casWaiter` (which sets `waiting`) until the
successful `casWriter` (which leaves to `swapOut`) -/
def waiterBit (s : State) : Bool :=
  match s.wpc with
  | .publish | .load | .decide _ | .casWriter _ | .park => s.waiting
  | _ => false

/-- contribution of the writer to the lock word -/
def wBits (pc : WPc) (waiting : Bool) : Int :=
  match pc with
  | .hold | .swapOut => WRITER
  | .publish | .load | .decide _ | .casWriter _ | .park => if waiting then WAITER else 0
  | _ => 0

/-- per-pc facts about the writer. `K` = readers holding a read lock or on their way to wake. -/
def WInv (s : State) : Prop :=
  let H := cnt holdsRead s.readers
  let K := cnt holdsRead s.readers + cnt isUnpark s.readers + cnt isLoadWaiter s.readers
  match s.wpc with
  | .idle => s.waiterSet = false
  | .tryFast => s.waiting = false ∧ s.waiterSet = false
  | .load => s.waiterSet = s.waiting
  | .decide st => s.waiterSet = s.waiting ∧
      (s.waiting = true → hasBit st WAITER = true ∧
        (freeExceptWaiter st = false → s.token = true ∨ 1 ≤ K))
  | .casWriter st => s.waiterSet = s.waiting ∧ (st = 0 ∨ st = WAITER)
  | .swapOut => s.waiterSet = true ∧ s.waiting = true ∧ H = 0
  | .casWaiter st => s.waiting = false ∧ s.waiterSet = false ∧ hasBit st WAITER = false
  | .publish => s.waiting = true ∧ s.waiterSet = false
  | .park => s.waiting = true ∧ s.waiterSet = true ∧ (s.token = true ∨ 1 ≤ K)
  | .hold => s.waiterSet = false ∧ H = 0

/-- per-pc facts about a reader: a `cas` is only attempted from a state without writer/waiter -/
def RInv (pc : RPc) : Prop :=
  match pc with
  | .cas st => hasBit st WAITER = false ∧ hasBit st WRITER = false
  | _ => True

structure Inv (s : State) : Prop where
  lock : s.lockState = wBits s.wpc s.waiting + READER * (cnt holdsRead s.readers : Nat)
  writer : WInv s
  readers : ∀ pc ∈ s.readers, RInv pc

end Flurry.Proto.RwLock
