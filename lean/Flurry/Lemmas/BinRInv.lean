import Flurry.Lemmas.BinRWalk
/-! # Proto/BinW: the simulation by Proto/Bin and the walk invariant (C01)

(C13 port of `Flurry/Lemmas/BinWInv.lean` to the per-key operations of `Flurry/Lin2.lean`, i.e. with `retain`'s conditional removal `condRm`; below, "`Proto/Bin`" / `Base.` is `Flurry.Proto.BinR.Base` (`Proto/BinRBase.lean`) and "`Proto/BinW`" is `Flurry.Proto.BinR` (`Proto/BinR.lean`), which in addition has the `retain` visit steps.)

`WInv s`: the projection of `s` satisfies the structural and the lock invariant of `Proto/Bin`, and
every walking writer satisfies `WalkOK`. **`stepW_proj`**: every transition of `BinW` is a transition
of `Bin` on the projections — the store through the remembered positions is `Bin`'s `wWrite` step by
`storeAt_eq_writerStore` — or, for the walk steps, a stutter step that only advances the clock.
`winv_step`, `reachable_winv`. -/
namespace Flurry.Proto.BinR
open Flurry.Lin2

structure WInv (s : State) : Prop where
  inv : Base.Inv (proj s)
  linv : Base.LInv (proj s)
  walk : ∀ (t : Nat) (l : Local) (p : Pending), s.threads[t]? = some l → l.call = some p →
    WalkOK (proj s) p.key l.pc

theorem storeAt_frame (s : State) (p : Pending) (pred hit hnext : Option Nat) :
    (storeAt s p pred hit hnext).1.threads = s.threads := by
  unfold storeAt
  simp only
  repeat' split
  all_goals rfl

theorem cL_walk {l : Local} {pc' : Pc} {h : Nat} (h1 : cPc l.pc = .wWrite h) (h2 : cPc pc' = .wWrite h) :
    cL { l with pc := pc' } = cL l := by
  unfold cL
  rw [h1, h2]

/-- a transition that only advances the clock, as seen on the projection -/
theorem stutter {s : State} {t : Nat} {l l' : Local} (hl : s.threads[t]? = some l) (hc : cL l' = cL l) :
    proj (setT (tick s) t l') = Base.tick (proj s) := by
  rw [proj_setT_tick, hc]
  exact Base.setT_self (s := Base.tick (proj s)) (proj_thread hl)

/-- **the simulation**: a transition of `BinW` is a transition of `Bin` on the projections, or
(walk steps) a stutter step -/
theorem stepW_proj {s s' : State} {t : Nat} {l : Local} (W : WInv s) (hl : s.threads[t]? = some l)
    (hk : StepW s t l s') :
    Base.StepK (proj s) t (cL l) (proj s') ∨ (walkPc l.pc ∧ proj s' = Base.tick (proj s)) := by
  have hl' := proj_thread hl
  cases hk with
  | idle hpc =>
    left
    have : Base.tick (proj s) = Base.setT (Base.tick (proj s)) t (cL l) :=
      (Base.setT_self (s := Base.tick (proj s)) hl').symm
    rw [proj_tick, this]
    exact .idle (by rw [cL_pc, hpc]; rfl)
  | invoke k op hpc =>
    left
    rw [proj_setT_tick]
    have := Base.StepK.invoke (s := proj s) (t := t) (l := cL l) k op (by rw [cL_pc, hpc]; rfl)
    rw [isReader_proj] at this
    cases hr : isReader op <;> rw [hr] at this <;> exact this
  | move p pc' hp hm hnw hw =>
    left
    rw [proj_setT_tick]
    exact Base.StepK.move (cP p) (cPc pc') (by rw [cL_call, hp]; rfl) hm
  | lockMove p h x pc' hp hm hnw hw =>
    left
    rw [proj_setT, proj_setNode_lock, proj_tick]
    exact Base.StepK.lockMove (cP p) h x (cPc pc') (by rw [cL_call, hp]; rfl) hm
  | fin p res hp hf =>
    left
    rw [proj_finish_tick]
    exact Base.StepK.fin (cP p) res (by rw [cL_call, hp]; rfl) hf
  | cas p v vi hp hpc hh hop =>
    left
    have := Base.StepK.cas (s := proj s) (t := t) (l := cL l) (cP p) v vi (by rw [cL_call, hp]; rfl)
      (by rw [cL_pc, hpc]; rfl) hh hop
    rw [proj_finish]
    simpa [proj, tick, Base.tick, cN] using this
  | walkEnd p h pred hp hpc =>
    right
    exact ⟨by rw [hpc]; trivial, stutter hl (cL_walk (h := h) (by rw [hpc]; rfl) rfl)⟩
  | walkHit p h pred c n hp hpc hn hkey =>
    right
    exact ⟨by rw [hpc]; trivial, stutter hl (cL_walk (h := h) (by rw [hpc]; rfl) rfl)⟩
  | walkNext p h pred c n hp hpc hn hkey =>
    right
    exact ⟨by rw [hpc]; trivial, stutter hl (cL_walk (h := h) (by rw [hpc]; rfl) rfl)⟩
  | store p h pred hit hnext hp hpc =>
    left
    have w := W.walk t l p hl hp
    rw [hpc] at w
    obtain ⟨e1, e2⟩ := storeAt_eq_writerStore (s := tick s) (p := p) (W.inv.heap.congr rfl rfl) w.1 w.2
    rw [proj_setT, e1, e2, proj_tick]
    exact Base.StepK.write (cP p) h (by rw [cL_call, hp]; rfl) (by rw [cL_pc, hpc]; rfl)
  | unlockFin p h res hp hpc =>
    left
    rw [proj_finish, proj_setNode_lock, proj_tick]
    exact .unlockFin (cP p) h res (by rw [cL_call, hp]; rfl) (by rw [cL_pc, hpc]; rfl)
  | visitMove pc' h1 h2 =>
    left
    have hc : cL { l with pc := pc' } = cL l := by unfold cL; rw [h1, h2]
    have : Base.tick (proj s) = Base.setT (Base.tick (proj s)) t (cL l) :=
      (Base.setT_self (s := Base.tick (proj s)) hl').symm
    rw [stutter hl hc, this]
    exact .idle (by rw [cL_pc, h1])
  | visitDrop k vi hpc =>
    left
    rw [proj_setT_tick]
    exact Base.StepK.invoke (s := proj s) (t := t) (l := cL l) k (.condRm vi) (by rw [cL_pc, hpc]; rfl)

/-- the threads of the projection after a stutter step -/
theorem tick_threads {B : Base.State} {t : Nat} {l : Base.Local} (hl : B.threads[t]? = some l) :
    (Base.tick B).threads = B.threads.set t l :=
  (congrArg Base.State.threads (Base.setT_self (s := B) hl)).symm

theorem inv_tick {B : Base.State} {t : Nat} {l : Base.Local} (I : Base.Inv B) (hl : B.threads[t]? = some l) :
    Base.Inv (Base.tick B) :=
  ⟨I.heap.congr rfl rfl, Base.tinv_keep I.thr hl (tick_threads hl) rfl rfl rfl (fun p hp => I.thr.opOK t l p hl hp)⟩

theorem linv_tick {B : Base.State} {t : Nat} {l : Base.Local} (L : Base.LInv B) (hl : B.threads[t]? = some l) :
    Base.LInv (Base.tick B) :=
  Base.linv_generic L (tick_threads hl) (Nat.le_refl _) (fun _ _ _ _ _ _ => rfl) (fun _ _ _ _ _ _ => rfl)
    (fun h hh => L.lockHeld t l h hl hh) (fun h hh => L.validated t l h hl hh)

/-- the walk invariant: the generic part of its preservation -/
theorem walk_frame {s s' : State} {t : Nat} {l' : Local} (W : WInv s)
    (hthr : s'.threads = s.threads.set t l')
    (hfr : ∀ t1 l1, t1 ≠ t → s.threads[t1]? = some l1 → walkPc l1.pc → Base.Frozen (proj s) (proj s'))
    (hself : ∀ p, l'.call = some p → WalkOK (proj s') p.key l'.pc) :
    ∀ (t1 : Nat) (l1 : Local) (p1 : Pending), s'.threads[t1]? = some l1 → l1.call = some p1 →
      WalkOK (proj s') p1.key l1.pc := by
  intro t1 l1 p1 hl1 hc1
  rw [hthr] at hl1
  rcases Base.get_set hl1 with ⟨rfl, rfl⟩ | ⟨hne, hl1⟩
  · exact hself p1 hc1
  · by_cases hw : walkPc l1.pc
    · exact (W.walk t1 l1 p1 hl1 hc1).congr W.inv.heap (hfr t1 l1 hne hl1 hw)
    · exact .of_not_walk hw

theorem set_self {α : Type} {l : List α} {t : Nat} {a : α} (h : l[t]? = some a) : l = l.set t a := by
  obtain ⟨ht, rfl⟩ := List.getElem?_eq_some_iff.1 h
  rw [List.set_getElem_self]

theorem winv_step {s s' : State} {t : Nat} {l : Local} (W : WInv s) (hl : s.threads[t]? = some l)
    (hk : StepW s t l s') : WInv s' := by
  have hl' := proj_thread hl
  have hsim := stepW_proj W hl hk
  have H := W.inv.heap
  have hfr : ∀ t1 l1, t1 ≠ t → s.threads[t1]? = some l1 → walkPc l1.pc → Base.Frozen (proj s) (proj s') := by
    intro t1 l1 hne hl1 hw
    rcases hsim with hK | ⟨-, he⟩
    · obtain ⟨h, hh⟩ := walkPc_iff.1 hw
      exact Base.stepK_frozen H W.linv hl' hK hne (proj_thread hl1) hh
    · rw [he]; exact .of_same rfl rfl
  refine ⟨?_, ?_, ?_⟩
  · rcases hsim with hK | ⟨-, he⟩
    · exact ⟨(Base.stepK_heap H W.inv.thr hl' hK).1, Base.stepK_tinv W.inv.thr hl' hK⟩
    · rw [he]; exact inv_tick W.inv hl'
  · rcases hsim with hK | ⟨-, he⟩
    · exact Base.stepK_linv W.linv hl' hK
    · rw [he]; exact linv_tick W.linv hl'
  · cases hk with
    | idle hpc =>
      refine walk_frame (l' := l) W (set_self hl) hfr ?_
      intro p _; rw [hpc]; trivial
    | invoke k op hpc =>
      refine walk_frame W rfl hfr ?_
      intro p _
      cases isReader op <;> trivial
    | move p pc' hp hm hnw hw =>
      refine walk_frame W rfl hfr ?_
      intro p1 hp1
      by_cases hwp : walkPc pc'
      · obtain ⟨h, hpcl, rfl⟩ := hw hwp
        have hm' : Base.Move (proj s) (cP p) (.wCheck h) (.wWrite h) := by
          rw [hpcl] at hm; exact hm
        cases hm' with
        | checkOk hd =>
          exact Walk.start (B := proj (setT (tick s) t { l with pc := .wFind h none (some h) }))
            (H.congr rfl rfl) hd p1.key
      · exact .of_not_walk hwp
    | lockMove p h x pc' hp hm hnw hw =>
      refine walk_frame W rfl hfr ?_
      intro p1 _
      exact .of_not_walk hw
    | fin p res hp hf =>
      refine walk_frame (l' := { pc := .idle, call := none }) W rfl hfr ?_
      intro p1 hp1; cases hp1
    | cas p v vi hp hpc hh hop =>
      refine walk_frame (l' := { pc := .idle, call := none }) W rfl hfr ?_
      intro p1 hp1; cases hp1
    | walkEnd p h pred hp hpc =>
      refine walk_frame W rfl hfr ?_
      intro p1 hp1
      have hpp : p1 = p := by simp only at hp1; rw [hp] at hp1; exact (Option.some.inj hp1).symm
      subst hpp
      have w := W.walk t l p1 hl hp
      rw [hpc] at w
      exact ⟨Walk.congr H (.of_same rfl rfl) w, fun i hi => by cases hi⟩
    | walkHit p h pred c n hp hpc hn hkey =>
      refine walk_frame W rfl hfr ?_
      intro p1 hp1
      have hpp : p1 = p := by simp only at hp1; rw [hp] at hp1; exact (Option.some.inj hp1).symm
      subst hpp
      have w := W.walk t l p1 hl hp
      rw [hpc] at w
      have hn' : (proj s).heap[c]? = some (cN n) := by rw [proj_node, hn]; rfl
      refine ⟨Walk.congr H (.of_same rfl rfl) w, ?_⟩
      intro i hi
      cases hi
      have : Base.nodeAt (proj (setT (tick s) t { l with pc := .wStore h pred (some c) n.next })).heap c = cN n :=
        Base.nodeAt_of_some hn'
      rw [this]
      exact ⟨hkey, rfl⟩
    | walkNext p h pred c n hp hpc hn hkey =>
      refine walk_frame W rfl hfr ?_
      intro p1 hp1
      have hpp : p1 = p := by simp only at hp1; rw [hp] at hp1; exact (Option.some.inj hp1).symm
      subst hpp
      have w := W.walk t l p1 hl hp
      rw [hpc] at w
      have hn' : (proj s).heap[c]? = some (cN n) := by rw [proj_node, hn]; rfl
      exact Walk.congr H (.of_same rfl rfl) (Walk.next H w hn' hkey)
    | store p h pred hit hnext hp hpc =>
      refine walk_frame (l' := { l with pc := .wUnlock h (storeAt (tick s) p pred hit hnext).2 false }) W ?_ hfr ?_
      · show (storeAt (tick s) p pred hit hnext).1.threads.set t _ = _
        rw [storeAt_frame]; rfl
      · intro p1 _; trivial
    | unlockFin p h res hp hpc =>
      refine walk_frame (l' := { pc := .idle, call := none }) W rfl hfr ?_
      intro p1 hp1; cases hp1
    | visitMove pc' h1 h2 =>
      refine walk_frame W rfl hfr ?_
      intro p1 _
      refine .of_not_walk ?_
      intro hw
      obtain ⟨h, hh⟩ := walkPc_iff.1 hw
      rw [h2] at hh; cases hh
    | visitDrop k vi hpc =>
      refine walk_frame W rfl hfr ?_
      intro p1 _
      trivial

theorem proj_init (n : Nat) : proj (init n) = Base.init n := by
  simp [proj, init, Base.init, cL, cPc]

theorem init_winv (n : Nat) : WInv (init n) := by
  refine ⟨by rw [proj_init]; exact Base.init_inv n, by rw [proj_init]; exact Base.init_linv n, ?_⟩
  intro t l p hl hc
  simp only [init, List.getElem?_replicate] at hl
  split at hl
  · cases hl; cases hc
  · cases hl

theorem step_some_thread {s s' : State} {t : Nat} {inv : Option Inv} (hs : step s t inv = some s') :
    ∃ l, s.threads[t]? = some l := by
  cases hl : s.threads[t]? with
  | none => unfold step stepG at hs; rw [hl] at hs; cases hs
  | some l => exact ⟨l, rfl⟩

/-- the simulation invariant holds in every reachable state -/
theorem reachable_winv {n : Nat} {s : State} (hr : Reachable n s) : WInv s := by
  induction hr with
  | init => exact init_winv n
  | @step s s' t inv _ hs ih =>
    obtain ⟨l, hl⟩ := step_some_thread hs
    exact winv_step ih hl (step_stepW hl hs)

end Flurry.Proto.BinR
