import Flurry.Lemmas.BinUBasic
/-! # Proto/BinU: the structural invariant (C01/C07, tree bins) — definitions and generic lemmas

* `TInv`: program counters fit the pending operation; times and uniqueness of invocation times.
* `LInv`: the mutex holder is exactly the thread at a writer pc between `wFind` and `wUnlockM`;
  `writer` ⇔ the holder is at `wPrependLocked`/`wTreeLinkLocked`/`wUnlinkLocked`/`wRestructure`/
  `wUnlockRoot`; `waiter` ⇒ the holder is at `lrLoop`; `readers` = number of threads at
  `rTree`/`rRelease`; `writer` ⇒ `readers = 0`.
* `WInv`: what the program counters know (`PcInv`), and the relation between list and tree:
  every tree node is on the list except the one at `wRestructure (some i)`; every list node is in
  the tree except the one at `wTreeLinkLocked x`. Both exceptions hold the write lock: with
  `writer` clear, list and tree hold the same nodes (`Inv.absTree_eq_absOf_of_no_writer`). -/
namespace Flurry.Proto.BinU
open Flurry.Lin

/-! ## classification of program counters -/

def readerPc : Pc → Bool
  | .rFirst | .rState _ | .rLin _ | .rCas _ _ | .rTree | .rRelease _ | .rVal _ | .lFirst | .lNode _ => true
  | _ => false

/-- between `wFind` and `wUnlockM`: holds the mutex -/
def crit : Pc → Bool
  | .wFind | .wVal _ _ _ | .wPrepend | .wPrependLocked | .wTreeLink _ | .wTreeLinkLocked _
  | .wListUnlink _ _ | .wUnlinkLocked _ _
  | .lrTry _ _ | .lrLoop _ _ | .wRestructure _ _ | .wUnlockRoot _ | .wUnlockM _ => true
  | _ => false

/-- holds the write lock of the tree -/
def wr : Pc → Bool
  | .wPrependLocked | .wTreeLinkLocked _ | .wUnlinkLocked _ _ | .wRestructure _ _ | .wUnlockRoot _ => true
  | _ => false

def isLoop : Pc → Bool
  | .lrLoop _ _ => true
  | _ => false

/-- holds a read lock of the tree -/
def holdsRead : Pc → Bool
  | .rTree | .rRelease _ => true
  | _ => false

/-- number of threads whose pc satisfies `q` -/
def cnt (q : Pc → Bool) (ls : List Local) : Nat := (ls.filter (fun l => q l.pc)).length

theorem cnt_set (q : Pc → Bool) (ls : List Local) (i : Nat) (old new : Local) (h : ls[i]? = some old) :
    cnt q (ls.set i new) + (if q old.pc then 1 else 0) = cnt q ls + (if q new.pc then 1 else 0) := by
  induction ls generalizing i with
  | nil => simp at h
  | cons a t ih =>
    cases i with
    | zero =>
      simp at h; subst h
      simp only [cnt, List.set_cons_zero, List.filter_cons]
      cases q a.pc <;> cases q new.pc <;> simp
    | succ j =>
      simp at h
      have := ih j h
      simp only [cnt, List.set_cons_succ, List.filter_cons] at this ⊢
      cases q a.pc <;> simp <;> omega

theorem cnt_pos_of {q : Pc → Bool} {ls : List Local} {i : Nat} {l : Local} (h : ls[i]? = some l)
    (hq : q l.pc = true) : 1 ≤ cnt q ls := by
  unfold cnt
  have hm : l ∈ ls.filter (fun l => q l.pc) :=
    List.mem_filter.mpr ⟨List.mem_iff_getElem?.mpr ⟨i, h⟩, hq⟩
  exact List.length_pos_of_mem hm

theorem cnt_replicate_idle (q : Pc → Bool) (hq : q .idle = false) (n : Nat) :
    cnt q (List.replicate n ({} : Local)) = 0 := by
  unfold cnt
  rw [List.length_eq_zero_iff, List.filter_eq_nil_iff]
  intro l hl
  rw [List.eq_of_mem_replicate hl]
  simp [hq]

/-! ## list access -/

theorem get_set {α : Type} {l : List α} {t t' : Nat} {a b : α} (h : (l.set t a)[t']? = some b) :
    (t' = t ∧ b = a) ∨ (t' ≠ t ∧ l[t']? = some b) := by
  rw [List.getElem?_set] at h
  by_cases htt : t = t'
  · rw [if_pos htt] at h
    split at h
    · cases h; exact Or.inl ⟨htt.symm, rfl⟩
    · cases h
  · rw [if_neg htt] at h
    exact Or.inr ⟨fun e => htt e.symm, h⟩

theorem get_set_self {α : Type} {l : List α} {t : Nat} {a b : α} (h : l[t]? = some b) :
    (l.set t a)[t]? = some a := by
  rw [List.getElem?_set, if_pos rfl, if_pos (List.getElem?_eq_some_iff.1 h).1]

theorem get_set_ne {α : Type} {l : List α} {t t' : Nat} {a : α} (h : t' ≠ t) :
    (l.set t a)[t']? = l[t']? := by
  rw [List.getElem?_set, if_neg (fun e => h e.symm)]

/-! ## threads and times -/

def PcOp (pc : Pc) (op : KOp) : Prop := pc ≠ .idle → isReader op = readerPc pc

structure TInv (s : State) : Prop where
  opOK : ∀ (t : Nat) (l : Local) (p : Pending), s.threads[t]? = some l → l.call = some p → PcOp l.pc p.op
  histTime : ∀ x ∈ s.hist, x.2.inv ≤ x.2.resp ∧ x.2.resp ≤ s.now
  pendTime : ∀ (t : Nat) (l : Local) (p : Pending), s.threads[t]? = some l → l.call = some p → p.inv ≤ s.now
  uniqHP : ∀ x ∈ s.hist, ∀ (t : Nat) (l : Local) (p : Pending), s.threads[t]? = some l → l.call = some p →
    x.2.inv ≠ p.inv
  uniqPP : ∀ (t t' : Nat) (l l' : Local) (p p' : Pending), s.threads[t]? = some l → s.threads[t']? = some l' →
    l.call = some p → l'.call = some p' → p.inv = p'.inv → t = t'
  uniqHH : s.hist.Pairwise (fun x y => x.2.inv ≠ y.2.inv)

/-- a transition that keeps the pending call of the thread -/
theorem tinv_keep {s s' : State} {t : Nat} {l l' : Local} (T : TInv s)
    (hl : s.threads[t]? = some l) (hthr : s'.threads = s.threads.set t l') (hnow : s'.now = s.now + 1)
    (hhist : s'.hist = s.hist) (hcall : l'.call = l.call)
    (hpc : ∀ p, l.call = some p → PcOp l'.pc p.op) : TInv s' := by
  have key : ∀ (t1 : Nat) (l1 : Local) (p1 : Pending), s'.threads[t1]? = some l1 → l1.call = some p1 →
      ∃ l0, s.threads[t1]? = some l0 ∧ l0.call = some p1 ∧ (PcOp l0.pc p1.op → PcOp l1.pc p1.op) := by
    intro t1 l1 p1 h1 hc1
    rw [hthr] at h1
    rcases get_set h1 with ⟨rfl, rfl⟩ | ⟨_, h1⟩
    · exact ⟨l, hl, hcall ▸ hc1, fun _ => hpc p1 (hcall ▸ hc1)⟩
    · exact ⟨l1, h1, hc1, id⟩
  refine ⟨?_, ?_, ?_, ?_, ?_, ?_⟩
  · intro t1 l1 p1 h1 hc1
    obtain ⟨l0, h0, hc0, himp⟩ := key t1 l1 p1 h1 hc1
    exact himp (T.opOK t1 l0 p1 h0 hc0)
  · intro x hx
    rw [hhist] at hx
    have := T.histTime x hx
    omega
  · intro t1 l1 p1 h1 hc1
    obtain ⟨l0, h0, hc0, -⟩ := key t1 l1 p1 h1 hc1
    have := T.pendTime t1 l0 p1 h0 hc0
    omega
  · intro x hx t1 l1 p1 h1 hc1
    rw [hhist] at hx
    obtain ⟨l0, h0, hc0, -⟩ := key t1 l1 p1 h1 hc1
    exact T.uniqHP x hx t1 l0 p1 h0 hc0
  · intro t1 t2 l1 l2 p1 p2 h1 h2 hc1 hc2 he
    obtain ⟨l01, h01, hc01, -⟩ := key t1 l1 p1 h1 hc1
    obtain ⟨l02, h02, hc02, -⟩ := key t2 l2 p2 h2 hc2
    exact T.uniqPP t1 t2 l01 l02 p1 p2 h01 h02 hc01 hc02 he
  · rw [hhist]; exact T.uniqHH

/-- an invocation -/
theorem tinv_invoke {s s' : State} {t : Nat} {l l' : Local} {k : Nat} {op : KOp} (T : TInv s)
    (hl : s.threads[t]? = some l) (hthr : s'.threads = s.threads.set t l') (hnow : s'.now = s.now + 1)
    (hhist : s'.hist = s.hist) (hcall : l'.call = some ⟨k, op, s.now + 1⟩)
    (hpc : PcOp l'.pc op) : TInv s' := by
  have key : ∀ (t1 : Nat) (l1 : Local) (p1 : Pending), s'.threads[t1]? = some l1 → l1.call = some p1 →
      (t1 = t ∧ l1 = l' ∧ p1 = ⟨k, op, s.now + 1⟩) ∨ (t1 ≠ t ∧ s.threads[t1]? = some l1) := by
    intro t1 l1 p1 h1 hc1
    rw [hthr] at h1
    rcases get_set h1 with ⟨rfl, rfl⟩ | ⟨hne, h1⟩
    · rw [hcall] at hc1; cases hc1
      exact Or.inl ⟨rfl, rfl, rfl⟩
    · exact Or.inr ⟨hne, h1⟩
  refine ⟨?_, ?_, ?_, ?_, ?_, ?_⟩
  · intro t1 l1 p1 h1 hc1
    rcases key t1 l1 p1 h1 hc1 with ⟨rfl, rfl, rfl⟩ | ⟨_, h0⟩
    · exact hpc
    · exact T.opOK t1 l1 p1 h0 hc1
  · intro x hx
    rw [hhist] at hx
    have := T.histTime x hx
    omega
  · intro t1 l1 p1 h1 hc1
    rcases key t1 l1 p1 h1 hc1 with ⟨rfl, rfl, rfl⟩ | ⟨_, h0⟩
    · simp only; omega
    · have := T.pendTime t1 l1 p1 h0 hc1
      omega
  · intro x hx t1 l1 p1 h1 hc1
    rw [hhist] at hx
    rcases key t1 l1 p1 h1 hc1 with ⟨rfl, rfl, rfl⟩ | ⟨_, h0⟩
    · have := T.histTime x hx
      simp only; omega
    · exact T.uniqHP x hx t1 l1 p1 h0 hc1
  · intro t1 t2 l1 l2 p1 p2 h1 h2 hc1 hc2 he
    rcases key t1 l1 p1 h1 hc1 with ⟨rfl, rfl, rfl⟩ | ⟨hne1, h01⟩ <;>
      rcases key t2 l2 p2 h2 hc2 with ⟨rfl, rfl, rfl⟩ | ⟨hne2, h02⟩
    · rfl
    · have := T.pendTime t2 l2 p2 h02 hc2
      simp only at he; omega
    · have := T.pendTime t1 l1 p1 h01 hc1
      simp only at he; omega
    · exact T.uniqPP t1 t2 l1 l2 p1 p2 h01 h02 hc1 hc2 he
  · rw [hhist]; exact T.uniqHH

/-- a call completes -/
theorem tinv_finish {s s' : State} {t : Nat} {l l' : Local} {p : Pending} {res : KRes} (T : TInv s)
    (hl : s.threads[t]? = some l) (hp : l.call = some p)
    (hthr : s'.threads = s.threads.set t l') (hnow : s'.now = s.now + 1)
    (hhist : s'.hist = (p.key, ⟨t, p.op, res, p.inv, s.now + 1⟩) :: s.hist) (hcall : l'.call = none) :
    TInv s' := by
  have key : ∀ (t1 : Nat) (l1 : Local) (p1 : Pending), s'.threads[t1]? = some l1 → l1.call = some p1 →
      t1 ≠ t ∧ s.threads[t1]? = some l1 := by
    intro t1 l1 p1 h1 hc1
    rw [hthr] at h1
    rcases get_set h1 with ⟨rfl, rfl⟩ | ⟨hne, h1⟩
    · rw [hcall] at hc1; cases hc1
    · exact ⟨hne, h1⟩
  have hpi := T.pendTime t l p hl hp
  refine ⟨?_, ?_, ?_, ?_, ?_, ?_⟩
  · intro t1 l1 p1 h1 hc1
    exact T.opOK t1 l1 p1 (key t1 l1 p1 h1 hc1).2 hc1
  · intro x hx
    rw [hhist] at hx
    rcases List.mem_cons.1 hx with rfl | hx
    · simp only; omega
    · have := T.histTime x hx
      omega
  · intro t1 l1 p1 h1 hc1
    have := T.pendTime t1 l1 p1 (key t1 l1 p1 h1 hc1).2 hc1
    omega
  · intro x hx t1 l1 p1 h1 hc1
    obtain ⟨hne, h0⟩ := key t1 l1 p1 h1 hc1
    rw [hhist] at hx
    rcases List.mem_cons.1 hx with rfl | hx
    · simp only
      intro he
      exact hne (T.uniqPP t1 t l1 l p1 p h0 hl hc1 hp he.symm)
    · exact T.uniqHP x hx t1 l1 p1 h0 hc1
  · intro t1 t2 l1 l2 p1 p2 h1 h2 hc1 hc2 he
    exact T.uniqPP t1 t2 l1 l2 p1 p2 (key t1 l1 p1 h1 hc1).2 (key t2 l2 p2 h2 hc2).2 hc1 hc2 he
  · rw [hhist]
    refine List.pairwise_cons.2 ⟨?_, T.uniqHH⟩
    intro y hy
    simp only
    exact fun he => T.uniqHP y hy t l p hl hp he.symm

/-! ## the locks -/

structure LInv (s : State) : Prop where
  mx : ∀ (t : Nat) (l : Local), s.threads[t]? = some l → (crit l.pc = true ↔ s.mutex = some t)
  mutexValid : ∀ h, s.mutex = some h → h < s.threads.length
  bitsNone : s.mutex = none → s.writer = false ∧ s.waiter = false
  bitsSome : ∀ (t : Nat) (l : Local), s.threads[t]? = some l → s.mutex = some t →
    s.writer = wr l.pc ∧ (s.waiter = true → isLoop l.pc = true)
  rd : s.readers = cnt holdsRead s.threads
  wrd : s.writer = true → s.readers = 0

/-- the generic preservation lemma of `LInv` for a step of thread `t` -/
theorem linv_step {s s' : State} {t : Nat} {l l' : Local} (L : LInv s) (hl : s.threads[t]? = some l)
    (hthr : s'.threads = s.threads.set t l')
    (c1 : crit l'.pc = true ↔ s'.mutex = some t)
    (c3 : ∀ h, h ≠ t → (s'.mutex = some h ↔ s.mutex = some h))
    (c4 : s'.mutex = some t → s'.writer = wr l'.pc ∧ (s'.waiter = true → isLoop l'.pc = true))
    (c5 : s'.mutex = none → s'.writer = false ∧ s'.waiter = false)
    (c6 : ∀ h, h ≠ t → s'.mutex = some h → s'.writer = s.writer ∧ s'.waiter = s.waiter)
    (c7 : s'.readers + (if holdsRead l.pc then 1 else 0) = s.readers + (if holdsRead l'.pc then 1 else 0))
    (c8 : s'.writer = true → s'.readers = 0) : LInv s' := by
  have htl : t < s.threads.length := (List.getElem?_eq_some_iff.1 hl).1
  refine ⟨?_, ?_, c5, ?_, ?_, c8⟩
  · intro t1 l1 h1
    rw [hthr] at h1
    rcases get_set h1 with ⟨rfl, rfl⟩ | ⟨hne, h1⟩
    · exact c1
    · rw [L.mx t1 l1 h1, c3 t1 hne]
  · intro h hm
    rw [hthr, List.length_set]
    by_cases hht : h = t
    · rw [hht]; exact htl
    · exact L.mutexValid h ((c3 h hht).1 hm)
  · intro t1 l1 h1 hm
    rw [hthr] at h1
    rcases get_set h1 with ⟨rfl, rfl⟩ | ⟨hne, h1⟩
    · exact c4 hm
    · obtain ⟨e1, e2⟩ := c6 t1 hne hm
      rw [e1, e2]
      exact L.bitsSome t1 l1 h1 ((c3 t1 hne).1 hm)
  · have := cnt_set holdsRead s.threads t l l' hl
    rw [hthr]
    have := L.rd
    omega

theorem LInv.reader_pos {s : State} (L : LInv s) {t : Nat} {l : Local} (hl : s.threads[t]? = some l)
    (h : holdsRead l.pc = true) : 1 ≤ s.readers := by
  rw [L.rd]; exact cnt_pos_of hl h

/-- two threads in the critical section are the same thread -/
theorem LInv.crit_unique {s : State} (L : LInv s) {t t' : Nat} {l l' : Local}
    (hl : s.threads[t]? = some l) (hl' : s.threads[t']? = some l')
    (h : crit l.pc = true) (h' : crit l'.pc = true) : t = t' := by
  have e1 := (L.mx t l hl).1 h
  have e2 := (L.mx t' l' hl').1 h'
  rw [e1] at e2
  exact Option.some.inj e2

/-- `writer` clear: nobody holds the write lock -/
theorem LInv.no_wr {s : State} (L : LInv s) (hw : s.writer = false) {t : Nat} {l : Local}
    (hl : s.threads[t]? = some l) : wr l.pc = false := by
  cases hwr : wr l.pc with
  | false => rfl
  | true =>
    have hc : crit l.pc = true := by
      cases hpc : l.pc <;> rw [hpc] at hwr <;> simp [wr] at hwr <;> rfl
    have := (L.bitsSome t l hl ((L.mx t l hl).1 hc)).1
    rw [hw, hwr] at this; cases this

/-- the holder's pc explains a lock bit -/
theorem LInv.bits_holder {s : State} (L : LInv s) (hb : (s.writer || s.waiter) = true) :
    ∃ (h : Nat) (l : Local), s.threads[h]? = some l ∧ s.mutex = some h ∧ (wr l.pc = true ∨ isLoop l.pc = true) := by
  cases hm : s.mutex with
  | none =>
    obtain ⟨e1, e2⟩ := L.bitsNone hm
    rw [e1, e2] at hb; cases hb
  | some h =>
    have hv := L.mutexValid h hm
    refine ⟨h, s.threads[h], List.getElem?_eq_getElem hv, rfl, ?_⟩
    obtain ⟨e1, e2⟩ := L.bitsSome h _ (List.getElem?_eq_getElem hv) hm
    cases hw : s.writer with
    | true => exact Or.inl (by rw [← e1, hw])
    | false =>
      rw [hw] at hb
      exact Or.inr (e2 (by simpa using hb))

/-! ## what the program counters know -/

/-- the writer has found the live node `i` and will make `p`'s result `res` by removing it -/
def RemOK (s : State) (p : Pending) (i : Nat) (res : KRes) : Prop :=
  i ∈ chain s ∧ (nodeAt s.heap i).inTree = true ∧ (nodeAt s.heap i).key = p.key ∧
    specStep (some (nodeAt s.heap i).val) p.op = (none, res)

/-- no node of the tree has the key of `p` -/
def FreshOK (s : State) (p : Pending) : Prop :=
  ∀ j, j < s.heap.length → (nodeAt s.heap j).inTree = true → (nodeAt s.heap j).key ≠ p.key

def PcInv (s : State) (p : Pending) : Pc → Prop
  | .rState (some c) => c < s.heap.length
  | .rCas c _ => c < s.heap.length
  | .rLin c => c < s.heap.length
  | .lNode (some c) => c < s.heap.length
  | .rVal _ => p.op ≠ .has
  | .wVal i v res => i ∈ chain s ∧ (nodeAt s.heap i).key = p.key ∧
      specStep (some (nodeAt s.heap i).val) p.op = (some v, res)
  | .lrTry .insert _ => FreshOK s p
  | .lrLoop .insert _ => FreshOK s p
  | .wPrependLocked => FreshOK s p
  | .wTreeLinkLocked x => x ∈ chain s ∧ (nodeAt s.heap x).inTree = false ∧ (nodeAt s.heap x).key = p.key ∧
      FreshOK s p
  | .lrTry (.remove i) res => RemOK s p i res
  | .lrLoop (.remove i) res => RemOK s p i res
  | .wUnlinkLocked i res => RemOK s p i res
  | .wRestructure (some i) _ => i ∉ chain s ∧ (nodeAt s.heap i).inTree = true ∧ i < s.heap.length
  | .wListUnlink _ _ => False
  | .wPrepend => False
  | .wTreeLink _ => False
  | _ => True

theorem PcInv.congr {s s' : State} {p : Pending} {pc : Pc} (hh : s'.heap = s.heap) (hd : s'.first = s.first)
    (h : PcInv s p pc) : PcInv s' p pc := by
  have hc := chain_congr hh hd
  unfold PcInv RemOK FreshOK at *
  rw [hh, hc]
  exact h

structure WInv (s : State) : Prop where
  pcInv : ∀ (t : Nat) (l : Local) (p : Pending), s.threads[t]? = some l → l.call = some p → PcInv s p l.pc
  treeSub : ∀ j, j < s.heap.length → (nodeAt s.heap j).inTree = true → j ∉ chain s →
    ∃ (t : Nat) (l : Local) (res : KRes), s.threads[t]? = some l ∧ l.pc = .wRestructure (some j) res
  chainSub : ∀ j ∈ chain s, (nodeAt s.heap j).inTree = false →
    ∃ (t : Nat) (l : Local), s.threads[t]? = some l ∧ l.pc = .wTreeLinkLocked j

/-- the structural invariant -/
structure Inv (s : State) : Prop where
  heap : HInv s
  thr : TInv s
  lock : LInv s
  data : WInv s

/-- if the thread in the critical section is neither at `wRestructure (some _)` nor at `wTreeLinkLocked _`
(or nobody is in the critical section), list and tree hold the same nodes -/
theorem Inv.tree_sub_chain {s : State} (I : Inv s)
    (h : ∀ (t : Nat) (l : Local) (j : Nat) (res : KRes), s.threads[t]? = some l → l.pc ≠ .wRestructure (some j) res) :
    ∀ j, j < s.heap.length → (nodeAt s.heap j).inTree = true → j ∈ chain s := by
  intro j hj hin
  apply Classical.byContradiction
  intro hnc
  obtain ⟨t, l, res, hl, hpc⟩ := I.data.treeSub j hj hin hnc
  exact h t l j res hl hpc

theorem Inv.chain_sub_tree {s : State} (I : Inv s)
    (h : ∀ (t : Nat) (l : Local) (j : Nat), s.threads[t]? = some l → l.pc ≠ .wTreeLinkLocked j) :
    ∀ j ∈ chain s, (nodeAt s.heap j).inTree = true := by
  intro j hj
  cases hin : (nodeAt s.heap j).inTree with
  | true => rfl
  | false =>
    obtain ⟨t, l, hl, hpc⟩ := I.data.chainSub j hj hin
    exact absurd hpc (h t l j hl)

/-- with `writer` clear, list and tree hold the same nodes -/
theorem Inv.sets_eq_of_no_writer {s : State} (I : Inv s) (hw : s.writer = false) :
    (∀ j, j < s.heap.length → (nodeAt s.heap j).inTree = true → j ∈ chain s) ∧
    (∀ j ∈ chain s, (nodeAt s.heap j).inTree = true) := by
  constructor
  · refine I.tree_sub_chain ?_
    intro t l j res hl hpc
    have := I.lock.no_wr hw hl
    rw [hpc] at this
    cases this
  · refine I.chain_sub_tree ?_
    intro t l j hl hpc
    have := I.lock.no_wr hw hl
    rw [hpc] at this
    cases this

/-- with `writer` clear the tree's view is the abstract state (list membership) -/
theorem Inv.absTree_eq_absOf_of_no_writer {s : State} (I : Inv s) (hw : s.writer = false) (k : Nat) :
    absTree s k = absOf s k :=
  absTree_eq_absOf I.heap (I.sets_eq_of_no_writer hw).1 (I.sets_eq_of_no_writer hw).2 k

/-- while thread `t` is in the critical section at a pc other than the two exceptional ones, list and
tree hold the same nodes -/
theorem Inv.sets_eq_of_crit {s : State} (I : Inv s) {t : Nat} {l : Local} (hl : s.threads[t]? = some l)
    (hc : crit l.pc = true) (h1 : ∀ j res, l.pc ≠ .wRestructure (some j) res) (h2 : ∀ j, l.pc ≠ .wTreeLinkLocked j) :
    (∀ j, j < s.heap.length → (nodeAt s.heap j).inTree = true → j ∈ chain s) ∧
    (∀ j ∈ chain s, (nodeAt s.heap j).inTree = true) := by
  constructor
  · refine I.tree_sub_chain ?_
    intro t' l' j res hl' hpc
    have hc' : crit l'.pc = true := by rw [hpc]; rfl
    have := I.lock.crit_unique hl hl' hc hc'
    subst this
    rw [hl] at hl'; cases hl'
    exact h1 j res hpc
  · refine I.chain_sub_tree ?_
    intro t' l' j hl' hpc
    have hc' : crit l'.pc = true := by rw [hpc]; rfl
    have := I.lock.crit_unique hl hl' hc hc'
    subst this
    rw [hl] at hl'; cases hl'
    exact h2 j hpc

end Flurry.Proto.BinU
