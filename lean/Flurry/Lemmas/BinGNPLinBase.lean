import Flurry.Lemmas.BinGNPGhostL
import Flurry.Lemmas.BinGNPInvBasic
import Flurry.Lemmas.BinGNPShape
/-! # Proto/BinGN (port of `Lemmas/BinGLinBase.lean`): the generic part of the preservation of the ghost invariant

What differs from BinG: "the new cell of the other side after the forwarding" is replaced by "a cell `id` in which
`k` does not live" (`k % 2^id.1 ≠ id.2`):
* `Inv.absTree_other (hc : cellAt s id = .tree b) (hno : k % 2^id.1 ≠ id.2)`, `HInv.first_foreign` likewise;
* `LiveBin.cases`: `b` is in the live cell of `k`, or in the live cell of a key `k'` in which `k` does not live;
* new: `liveId_eq_of_mod`, `liveId_not_LC` (a node on the chain of the live cell of `k'`, in which `k` does not live, is
  not on the live chain of `k`) — this supplies the extra conjunct of `Good.absWit_of_foreign_or_none`;
* `LC_of_tree` takes `XInv` (for `liveCell_eq`);
* `TreeOK.step`, `RdOK.step` and the `hself` hypothesis of `readers_step`, `ginv_quiet`, `ginv_quiet_none`,
  `ginv_quiet_keep`, `ginv_new` ask for `¬ InCell s b → ¬ PrivBin s b` instead of `¬ PrivBin s b` (weaker; it is all
  `Eff.dead` needs): for a `TreeBin` just loaded from a cell it is trivial, whereas "a `TreeBin` in a cell that a
  thread works in is not private" does NOT follow from `Inv` in BinGN (an empty `TreeBin` in a cell of generation `cur`
  cannot be told apart from the pending one of the transfer of another cell by `HInv.side`).

* tree = list for a `TreeBin` in a cell whose write lock is free (`Inv.tree_eq_chain`,
  `Inv.absTree_eq_abs`); the tree of a `TreeBin` in the new cell of the other side has no node with
  key `k` (`Inv.absTree_other`);
* `TreeOK.step`, `RdOK.step`: the justifications of the readers survive every transition (`Eff`);
* the generic preservation lemmas `readers_step`, `ginv_quiet` … `ginv_call_fin` (the `Proto/BinG`
  versions of the first part of `Lemmas/BinKLin.lean`). -/
namespace Flurry.Proto.BinGNP
open Flurry.Lin
open Flurry.Proto.BinK (nodeAt binAt NextOK IsChain IsSeg chainOf CInv absL AbsWit OnCond ValWit Sim CallOK nextA
  nextA_old nextA_new absL_eq_none_iff absL_eq_some_iff get_set get_set_ne get_set_self)

/-! ## tree = list for a `TreeBin` in a cell whose write lock is free -/

private theorem treeFind_eq (s : State) (b k : Nat) :
    treeFind s b k = (List.range s.heap.length).find? fun i =>
      (nodeAt s.heap i).owner == some b && (nodeAt s.heap i).inTree && (nodeAt s.heap i).key == k := rfl

private theorem treeFind_some' {s : State} {b k i : Nat} (h : treeFind s b k = some i) :
    i < s.heap.length ∧ (nodeAt s.heap i).owner = some b ∧ (nodeAt s.heap i).inTree = true ∧
      (nodeAt s.heap i).key = k := by
  rw [treeFind_eq] at h
  have h1 := List.mem_of_find?_eq_some h
  have h2 := List.find?_some h
  simp only [Bool.and_eq_true, beq_iff_eq] at h2
  exact ⟨List.mem_range.1 h1, h2.1.1, h2.1.2, h2.2⟩

private theorem treeFind_none' {s : State} {b k : Nat} (h : treeFind s b k = none) :
    ∀ j, j < s.heap.length → (nodeAt s.heap j).owner = some b → (nodeAt s.heap j).inTree = true →
      (nodeAt s.heap j).key ≠ k := by
  rw [treeFind_eq, List.find?_eq_none] at h
  intro j hj ho hin hk
  have := h j (List.mem_range.2 hj)
  simp only [Bool.and_eq_true, beq_iff_eq, not_and] at this
  exact this ⟨ho, hin⟩ hk

/-- with the `writer` flag of a `TreeBin` in a cell clear, no thread holds its write lock -/
theorem Inv.no_wr_thread {s : State} (I : Inv s) {id : Cid} {b : Nat} (hc : cellAt s id = .tree b)
    (hw : (binAt s.tbins b).writer = false) {t : Nat} {l : Local} (hl : s.threads[t]? = some l) :
    ¬ (wr l.pc = true ∧ holdsMutex l.pc = some b) := by
  rintro ⟨h1, h2⟩
  have hm := (I.lock.mx t l b hl).1 h2
  have := (I.lock.bitsSome id b t l hc hl hm).1
  rw [hw, h1] at this
  cases this

/-- with `writer` clear, list and tree of a `TreeBin` in a cell hold the same nodes -/
theorem Inv.tree_eq_chain {s : State} (I : Inv s) {id : Cid} {b : Nat} (hc : cellAt s id = .tree b)
    (hw : (binAt s.tbins b).writer = false) :
    (∀ j, j < s.heap.length → (nodeAt s.heap j).owner = some b → (nodeAt s.heap j).inTree = true → j ∈ chainOfBin s b) ∧
    (∀ j ∈ chainOfBin s b, (nodeAt s.heap j).inTree = true) := by
  constructor
  · intro j hj ho hin
    apply Classical.byContradiction
    intro hnc
    obtain ⟨t, l, hl, hpc⟩ := I.data.treeSub id b hc j hj ho hin hnc
    rcases hpc with ⟨tab, res, hpc⟩ | ⟨tab, res, hpc⟩
    · exact I.no_wr_thread hc hw hl (by rw [hpc]; exact ⟨rfl, rfl⟩)
    · exact I.no_wr_thread hc hw hl (by rw [hpc]; exact ⟨rfl, rfl⟩)
  · intro j hj
    cases hin : (nodeAt s.heap j).inTree with
    | true => rfl
    | false =>
      obtain ⟨t, l, tab, hl, hpc⟩ := I.data.chainSub id b hc j hj hin
      exact absurd (show wr l.pc = true ∧ holdsMutex l.pc = some b by rw [hpc]; exact ⟨rfl, rfl⟩)
        (I.no_wr_thread hc hw hl)

theorem LC_of_tree {s : State} (X : XInv s) {k b : Nat} (hc : cellAt s (liveId s k) = .tree b) :
    LC s k = chainOfBin s b := by
  unfold LC
  rw [liveCell_eq X k, hc, chainOfBin_eq]

/-- the tree of the `TreeBin` in the live cell of `k`, write lock free, shows the abstract state of `k` -/
theorem Inv.absTree_eq_abs {s : State} (I : Inv s) {k b : Nat} (hc : cellAt s (liveId s k) = .tree b)
    (hw : (binAt s.tbins b).writer = false) : absTree s b k = absOf s k := by
  have H := I.heap
  obtain ⟨hsub, hsup⟩ := I.tree_eq_chain hc hw
  have hLC := LC_of_tree I.rsz hc
  have hdist : ∀ i j, i ∈ LC s k → j ∈ LC s k → (nodeAt s.heap i).key = (nodeAt s.heap j).key → i = j :=
    (H.liveLC k).dist
  unfold absTree
  cases hf : treeFind s b k with
  | none =>
    simp only
    symm
    rw [absOf_eq, absL_eq_none_iff]
    intro j hj
    have ho := H.chainOwner (liveId s k) j (by rw [hc, ← chainOfBin_eq, ← hLC]; exact hj)
    rw [hc] at ho
    rw [hLC] at hj
    exact treeFind_none' hf j ((H.cinv (liveId s k)).chain_lt (by rw [hc]; exact hj)) ho (hsup j hj)
  | some i =>
    simp only
    obtain ⟨hi, ho, hin, hk⟩ := treeFind_some' hf
    symm
    rw [absOf_eq, absL_eq_some_iff hdist]
    exact ⟨i, by rw [hLC]; exact hsub i hi ho hin, hk, rfl⟩

/-- the tree of a `TreeBin` in a cell in which `k` does not live has no node with key `k` -/
theorem Inv.absTree_other {s : State} (I : Inv s) {k b : Nat} {id : Cid}
    (hc : cellAt s id = .tree b) (hno : k % 2 ^ id.1 ≠ id.2) : absTree s b k = none := by
  unfold absTree
  cases hf : treeFind s b k with
  | none => rfl
  | some i =>
    exfalso
    obtain ⟨hi, ho, hin, hk⟩ := treeFind_some' hf
    have hside := I.heap.side id i (Or.inr (by rw [hc]; exact ⟨hi, hin, b, rfl, ho⟩))
    rw [hk] at hside
    exact hno hside

/-! ## the justifications of the readers survive a transition -/

theorem TreeOK.step {A A' : Nat → KSt} {k inv : Nat} {s s' : State} {b : Nat}
    (h : TreeOK A k inv s b) (I : Inv s) (E : Eff s s') (hnow : s'.now = s.now + 1)
    (hA' : ∀ τ, τ ≤ s.now → A' τ = A τ) (hA'n : A' s'.now = absOf s' k) (hinv : inv ≤ s.now)
    (hb : b < s.tbins.length) (hnp : ¬ InCell s b → ¬ PrivBin s b) : TreeOK A' k inv s' b := by
  have _ := I
  rcases h with h | h | ⟨τ, h1, h2, h3⟩
  · rcases E.live b k h with h' | h' | h'
    · exact Or.inl h'
    · exact Or.inr (Or.inl h')
    · exact Or.inr (Or.inr ⟨s'.now, by omega, Nat.le_refl _, by rw [hA'n, h']⟩)
  · obtain ⟨h1, h2⟩ := E.dead b hb h.1 (hnp h.1)
    exact Or.inr (Or.inl ⟨h1, h2 h.2⟩)
  · by_cases he : absTree s' b k = absTree s b k
    · exact Or.inr (Or.inr ⟨τ, h1, by omega, by rw [hA' τ h2, he]; exact h3⟩)
    · exact Or.inl (E.tree b k hb he).2

/-- a key that lives in the live cell of `k` has the same live cell -/
theorem liveId_eq_of_mod {s : State} {k κ : Nat} (h : κ % 2 ^ (liveId s k).1 = (liveId s k).2) :
    liveId s κ = liveId s k := by
  unfold liveId at h ⊢
  by_cases hm : cellAt s (idOf s.cur k) = .moved
  · rw [if_pos hm] at h ⊢
    have h1 : κ % 2 ^ (s.cur + 1) = k % 2 ^ (s.cur + 1) := h
    have hd : 2 ^ s.cur ∣ 2 ^ (s.cur + 1) := Nat.pow_dvd_pow 2 (Nat.le_succ _)
    have h0 : κ % 2 ^ s.cur = k % 2 ^ s.cur := by
      rw [← Nat.mod_mod_of_dvd κ hd, h1, Nat.mod_mod_of_dvd k hd]
    have e0 : idOf s.cur κ = idOf s.cur k := by unfold idOf; rw [h0]
    rw [e0, if_pos hm]
    unfold idOf; rw [h1]
  · rw [if_neg hm] at h ⊢
    have h0 : κ % 2 ^ s.cur = k % 2 ^ s.cur := h
    have e0 : idOf s.cur κ = idOf s.cur k := by unfold idOf; rw [h0]
    rw [e0, if_neg hm]

theorem liveId_mod (s : State) (k : Nat) : k % 2 ^ (liveId s k).1 = (liveId s k).2 := by
  unfold liveId
  split <;> rfl

/-- a node on the chain (or in the tree) of the live cell of `k'`, in which `k` does not live, is not on the live
chain of `k` (two live cells are the same or hold nodes with different keys) -/
theorem liveId_not_LC {s : State} (H : HInv s) (X : XInv s) {k k' c : Nat}
    (hc : c ∈ chainC s (cellAt s (liveId s k'))) (hno : k % 2 ^ (liveId s k').1 ≠ (liveId s k').2) :
    c ∉ LC s k := by
  intro hc'
  unfold LC at hc'
  rw [liveCell_eq X k] at hc'
  have h1 := H.side (liveId s k') c (Or.inl hc)
  have h2 := H.side (liveId s k) c (Or.inl hc')
  have e1 := liveId_eq_of_mod h1
  have e2 := liveId_eq_of_mod h2
  apply hno
  rw [← e1, e2]
  exact liveId_mod s k

/-- a `TreeBin` a lookup can end in is in the live cell of `k`, or in the live cell of a key `k'` in which `k` does
not live -/
theorem LiveBin.cases {s : State} {b : Nat} (h : LiveBin s b) (k : Nat) :
    cellAt s (liveId s k) = .tree b ∨
      ∃ k', cellAt s (liveId s k') = .tree b ∧ k % 2 ^ (liveId s k').1 ≠ (liveId s k').2 := by
  obtain ⟨k', hk'⟩ := h
  by_cases hm : k % 2 ^ (liveId s k').1 = (liveId s k').2
  · left
    rw [liveId_eq_of_mod hm]; exact hk'
  · exact Or.inr ⟨k', hk', hm⟩

/-- the `first` field of a `TreeBin` in a cell is the head of the chain of that cell -/
theorem HInv.first_mem {s : State} (H : HInv s) {id : Cid} {b c : Nat} (hc : cellAt s id = .tree b)
    (hf : (binAt s.tbins b).first = some c) : c ∈ chainC s (cellAt s id) := by
  have hch := (H.cinv id).isChain
  rw [hc] at hch ⊢
  have hst : startOf s.tbins (.tree b) = some c := hf
  rw [hst] at hch
  obtain ⟨l', hl'⟩ := IsChain.start_some hch
  unfold chainC
  rw [hst, hl']
  exact List.mem_cons_self

/-- the `first` field of a `TreeBin` in a cell in which `k` does not live: nothing or a foreign node -/
theorem HInv.first_foreign {s : State} (H : HInv s) {k b : Nat} {id : Cid}
    (hc : cellAt s id = .tree b) (hno : k % 2 ^ id.1 ≠ id.2) :
    (binAt s.tbins b).first = none ∨ ∃ c, (binAt s.tbins b).first = some c ∧ Foreign s k c := by
  cases hf : (binAt s.tbins b).first with
  | none => exact Or.inl rfl
  | some c => exact Or.inr ⟨c, rfl, id, H.first_mem hc hf, hno⟩

/-- the pointer a reader loads from the `first` field of its `TreeBin` stays justified -/
theorem Good.first_step {A A' : Nat → KSt} {k inv : Nat} {s s' : State} {b : Nat}
    (h : Good A k inv s (binAt s.tbins b).first) (I : Inv s) (E : Eff s s') (hnow : s'.now = s.now + 1)
    (hA' : ∀ τ, τ ≤ s.now → A' τ = A τ) (hA : A s.now = absOf s k) (hA'n : A' s'.now = absOf s' k)
    (hinv : inv ≤ s.now) (hb : b < s.tbins.length) : Good A' k inv s' (binAt s'.tbins b).first := by
  have H' := E.inv.heap
  by_cases hfe : (binAt s'.tbins b).first = (binAt s.tbins b).first
  · rw [hfe]
    exact h.step I.heap H' (E.kstep k) hnow hA' hA hinv
  · obtain ⟨hl, hl'⟩ := E.first b hb hfe
    by_cases hcl' : cellAt s' (liveId s' k) = .tree b
    · have := Good.first (A := A') (k := k) (inv := inv) H' hA'n (by omega)
      rw [liveCell_eq E.inv.rsz k, hcl'] at this
      exact this
    · rcases hl'.cases k with hc' | ⟨k1', hc', hno'⟩
      · exact absurd hc' hcl'
      · -- `b` is in a cell in which `k` does not live: the key was absent at some time of the call
        have hw' : AbsWit A' inv s'.now := by
          by_cases hlv : cellAt s (liveId s k) = .tree b
          · rcases E.live b k hlv with h1 | h1 | h1
            · exact absurd h1 hcl'
            · exact absurd ⟨liveId s' k1', hc'⟩ h1.1
            · refine ⟨s'.now, by omega, Nat.le_refl _, ?_⟩
              rw [hA'n, ← h1]
              exact E.inv.absTree_other hc' hno'
          · rcases hl.cases k with hc | ⟨k1, hc, hno⟩
            · exact absurd hc hlv
            · have hff : (binAt s.tbins b).first = none ∨
                  ∃ c, (binAt s.tbins b).first = some c ∧ Foreign s k c ∧ c ∉ LC s k := by
                rcases I.heap.first_foreign hc hno with hn | ⟨c, hn, hf⟩
                · exact Or.inl hn
                · exact Or.inr ⟨c, hn, hf, liveId_not_LC I.heap I.rsz (I.heap.first_mem hc hn) hno⟩
              have hw := Good.absWit_of_foreign_or_none I.heap h hff
              rw [hnow]
              exact hw.step hA'
        rcases H'.first_foreign hc' hno' with hn | ⟨c, hn, hf⟩
        · rw [hn]; exact .absent hw'
        · rw [hn]; exact .foreign hf hw'

theorem RdOK.step {A A' : Nat → KSt} {k inv : Nat} {s s' : State} {pc : Pc}
    (h : RdOK A k inv s pc) (I : Inv s) (E : Eff s s') (hnow : s'.now = s.now + 1)
    (hA' : ∀ τ, τ ≤ s.now → A' τ = A τ) (hA : A s.now = absOf s k) (hA'n : A' s'.now = absOf s' k)
    (hinv : inv ≤ s.now)
    (href : ∀ b, binRef pc = some b → b < s.tbins.length ∧ (¬ InCell s b → ¬ PrivBin s b)) :
    RdOK A' k inv s' pc := by
  have H' := E.inv.heap
  have hg : ∀ cur, Good A k inv s cur → Good A' k inv s' cur :=
    fun cur hgood => hgood.step I.heap H' (E.kstep k) hnow hA' hA hinv
  have ht : ∀ b, binRef pc = some b → TreeOK A k inv s b → TreeOK A' k inv s' b :=
    fun b hb htree => htree.step I E hnow hA' hA'n hinv (href b hb).1 (href b hb).2
  have hf : ∀ b, binRef pc = some b → Good A k inv s (binAt s.tbins b).first →
      Good A' k inv s' (binAt s'.tbins b).first :=
    fun b hb hgood => hgood.first_step I E hnow hA' hA hA'n hinv (href b hb).1
  cases pc <;> simp only [RdOK] at h ⊢
  case rNode cur => exact hg _ h
  case rFirst b => exact ⟨hf b rfl h.1, ht b rfl h.2⟩
  case lFirst b => exact hf b rfl h
  case rState b cur => exact ⟨hg _ h.1, ht b rfl h.2⟩
  case rLin b c => exact ⟨hg _ h.1, ht b rfl h.2⟩
  case rCas b c r => exact ⟨hg _ h.1, ht b rfl h.2⟩
  case rTree b => exact ht b rfl h
  case rRelease b hit =>
    cases hit with
    | none => rw [hnow]; exact AbsWit.step h hA'
    | some i => exact ValWit.kstep h H' (E.kstep k) hnow hA' hA'n hinv
  case rVal i => exact ValWit.kstep h H' (E.kstep k) hnow hA' hA'n hinv
  case lNode cur => exact hg _ h

/-! ## the generic preservation lemmas -/

/-- point-wise update of the point assignment -/
def updPt (pt : Nat → Nat) (i τ : Nat) : Nat → Nat := fun j => if j = i then τ else pt j

theorem updPt_self (pt : Nat → Nat) (i τ : Nat) : updPt pt i τ i = τ := by
  unfold updPt; rw [if_pos rfl]

theorem updPt_ne (pt : Nat → Nat) {i j : Nat} (τ : Nat) (h : j ≠ i) : updPt pt i τ j = pt j := by
  unfold updPt; rw [if_neg h]

theorem RdOK_of_not_reader {A : Nat → KSt} {k inv : Nat} {s : State} {pc : Pc} (h : readerPc pc = false) :
    RdOK A k inv s pc := by
  cases pc <;> simp [readerPc] at h <;> simp only [RdOK]

/-- the readers' justifications survive a transition -/
theorem readers_step {k : Nat} {s s' : State} {A : Nat → KSt} {pt : Nat → Nat} {t : Nat} {l' : Local}
    (g : GInv k s A pt) (I : Inv s) (E : Eff s s')
    (hthr : s'.threads = s.threads.set t l') (hnow : s'.now = s.now + 1)
    (hself : ∀ (p : Pending), l'.call = some p → p.key = k →
      (p.inv ≤ s.now ∧ RdOK A k p.inv s l'.pc ∧ ∀ b, binRef l'.pc = some b → b < s.tbins.length ∧ (¬ InCell s b → ¬ PrivBin s b)) ∨
      RdOK (nextA A s.now (absOf s' k)) k p.inv s' l'.pc) :
    ∀ (t1 : Nat) (l1 : Local) (p1 : Pending), s'.threads[t1]? = some l1 →
      l1.call = some p1 → p1.key = k → RdOK (nextA A s.now (absOf s' k)) k p1.inv s' l1.pc := by
  intro t1 l1 p1 h1 hc1 hk1
  have hA'n : nextA A s.now (absOf s' k) s'.now = absOf s' k := by rw [hnow, nextA_new]
  rw [hthr] at h1
  rcases get_set h1 with ⟨rfl, rfl⟩ | ⟨_, h1⟩
  · rcases hself p1 hc1 hk1 with ⟨hi, hg, hb⟩ | hg
    · exact hg.step I E hnow (fun τ h => nextA_old h) g.hA hA'n hi hb
    · exact hg
  · exact (g.readers t1 l1 p1 h1 hc1 hk1).step I E hnow (fun τ h => nextA_old h) g.hA hA'n
      (I.thr.pendTime t1 l1 p1 h1 hc1)
      (fun b hr => ⟨(I.lock.refOK t1 l1 b h1 hr).1, fun _ => (I.lock.refOK t1 l1 b h1 hr).2⟩)

/-- transitions that add no call on `k` and do not change the ghost state of `k` -/
theorem ginv_quiet {k : Nat} {s s' : State} {A : Nat → KSt} {pt : Nat → Nat} {t : Nat} {l l' : Local}
    {hnew : List (Nat × Call)}
    (g : GInv k s A pt) (I : Inv s) (E : Eff s s')
    (hl : s.threads[t]? = some l) (hthr : s'.threads = s.threads.set t l') (hnow : s'.now = s.now + 1)
    (hhist : s'.hist = hnew ++ s.hist)
    (habs : absOf s' k = absOf s k)
    (hB : ∀ c', (k, c') ∈ hnew ∨ extOf k (s.now + 1) t l' = some c' →
      ∃ c, extOf k s.now t l = some c ∧ Sim c c')
    (hF : ∀ c, extOf k s.now t l = some c →
      ∃ c', ((k, c') ∈ hnew ∨ extOf k (s.now + 1) t l' = some c') ∧ Sim c c')
    (hself : ∀ (p : Pending), l'.call = some p → p.key = k →
      (p.inv ≤ s.now ∧ RdOK A k p.inv s l'.pc ∧ ∀ b, binRef l'.pc = some b → b < s.tbins.length ∧ (¬ InCell s b → ¬ PrivBin s b)) ∨
      RdOK (nextA A s.now (absOf s' k)) k p.inv s' l'.pc) :
    GInv k s' (nextA A s.now (absOf s' k)) pt := by
  have hl' : s'.threads[t]? = some l' := by rw [hthr]; exact get_set_self hl
  have hin' : ∀ c', ((k, c') ∈ hnew ∨ extOf k (s.now + 1) t l' = some c') → c' ∈ callsOnExt s' k := by
    rintro c' (h | h)
    · exact mem_callsOnExt.2 (Or.inl (by rw [hhist]; exact List.mem_append_left _ h))
    · exact mem_callsOnExt.2 (Or.inr ⟨t, l', hl', by rw [hnow]; exact h⟩)
  refine g.frame (i0 := 0) I.thr hnow (fun _ _ => rfl) ?_ ?_ (fun h => absurd habs h)
    (readers_step g I E hthr hnow hself)
  · intro c hc
    rcases ext_forward hl hthr hnow hhist c hc with h | h
    · exact h
    · obtain ⟨c', hc', hsim⟩ := hF c h
      exact ⟨c', hin' c' hc', hsim⟩
  · intro c' hc'
    rcases ext_backward hthr hnow hhist c' hc' with h | h | h
    · exact Or.inl h
    · obtain ⟨c, hc, hsim⟩ := hB c' (Or.inl h)
      exact Or.inl ⟨c, mem_callsOnExt.2 (Or.inr ⟨t, l, hl, hc⟩), hsim⟩
    · obtain ⟨c, hc, hsim⟩ := hB c' (Or.inr h)
      exact Or.inl ⟨c, mem_callsOnExt.2 (Or.inr ⟨t, l, hl, hc⟩), hsim⟩

/-- quiet, and the thread is not counted in the extended history before or after -/
theorem ginv_quiet_none {k : Nat} {s s' : State} {A : Nat → KSt} {pt : Nat → Nat} {t : Nat} {l l' : Local}
    {hnew : List (Nat × Call)}
    (g : GInv k s A pt) (I : Inv s) (E : Eff s s')
    (hl : s.threads[t]? = some l) (hthr : s'.threads = s.threads.set t l') (hnow : s'.now = s.now + 1)
    (hhist : s'.hist = hnew ++ s.hist) (hnk : ∀ c, (k, c) ∉ hnew)
    (habs : absOf s' k = absOf s k)
    (he : extOf k s.now t l = none) (he' : extOf k (s.now + 1) t l' = none)
    (hself : ∀ (p : Pending), l'.call = some p → p.key = k →
      (p.inv ≤ s.now ∧ RdOK A k p.inv s l'.pc ∧ ∀ b, binRef l'.pc = some b → b < s.tbins.length ∧ (¬ InCell s b → ¬ PrivBin s b)) ∨
      RdOK (nextA A s.now (absOf s' k)) k p.inv s' l'.pc) :
    GInv k s' (nextA A s.now (absOf s' k)) pt := by
  refine ginv_quiet g I E hl hthr hnow hhist habs ?_ ?_ hself
  · rintro c' (h | h)
    · exact absurd h (hnk c')
    · rw [he'] at h; cases h
  · intro c h; rw [he] at h; cases h

theorem extOf_congr {k now t : Nat} {l l' : Local} (hpc : resOfPc l'.pc = resOfPc l.pc) (hcall : l'.call = l.call) :
    extOf k now t l' = extOf k now t l := by
  unfold extOf; rw [hpc, hcall]

/-- quiet, and the thread stays where it is with respect to its linearization point -/
theorem ginv_quiet_keep {k : Nat} {s s' : State} {A : Nat → KSt} {pt : Nat → Nat} {t : Nat} {l l' : Local}
    (g : GInv k s A pt) (I : Inv s) (E : Eff s s')
    (hl : s.threads[t]? = some l) (hthr : s'.threads = s.threads.set t l') (hnow : s'.now = s.now + 1)
    (hhist : s'.hist = s.hist)
    (habs : absOf s' k = absOf s k)
    (hpc : resOfPc l'.pc = resOfPc l.pc) (hcall : l'.call = l.call)
    (hself : ∀ (p : Pending), l'.call = some p → p.key = k →
      (p.inv ≤ s.now ∧ RdOK A k p.inv s l'.pc ∧ ∀ b, binRef l'.pc = some b → b < s.tbins.length ∧ (¬ InCell s b → ¬ PrivBin s b)) ∨
      RdOK (nextA A s.now (absOf s' k)) k p.inv s' l'.pc) :
    GInv k s' (nextA A s.now (absOf s' k)) pt := by
  refine ginv_quiet (hnew := []) g I E hl hthr hnow (by rw [hhist]; rfl) habs ?_ ?_ hself
  · rintro c' (h | h)
    · cases h
    · rw [extOf_congr hpc hcall] at h
      exact extOf_bump (Nat.le_succ _) h
  · intro c h
    obtain ⟨c', hc', hsim⟩ := extOf_bump' (Nat.le_succ s.now) h
    exact ⟨c', Or.inr (by rw [extOf_congr hpc hcall]; exact hc'), hsim⟩

/-- transitions that add the call `c0` of thread `t` (to the history or as a writer past its point) -/
theorem ginv_new {k : Nat} {s s' : State} {A : Nat → KSt} {pt : Nat → Nat} {t : Nat} {l l' : Local}
    {hnew : List (Nat × Call)} {p : Pending} {c0 : Call} {τ0 : Nat}
    (g : GInv k s A pt) (I : Inv s) (E : Eff s s')
    (hl : s.threads[t]? = some l) (hp : l.call = some p)
    (hthr : s'.threads = s.threads.set t l') (hnow : s'.now = s.now + 1)
    (hhist : s'.hist = hnew ++ s.hist)
    (he : extOf k s.now t l = none)
    (honly : ∀ c', (k, c') ∈ hnew ∨ extOf k (s.now + 1) t l' = some c' → c' = c0)
    (hmem : c0 ∈ callsOnExt s' k)
    (hinv0 : c0.inv = p.inv)
    (hok : CallOK (nextA A s.now (absOf s' k)) (updPt pt p.inv τ0) c0)
    (hw : isRead c0.op = false → τ0 = s.now + 1)
    (hchg : absOf s' k ≠ absOf s k → isRead c0.op = false)
    (hself : ∀ (p : Pending), l'.call = some p → p.key = k →
      (p.inv ≤ s.now ∧ RdOK A k p.inv s l'.pc ∧ ∀ b, binRef l'.pc = some b → b < s.tbins.length ∧ (¬ InCell s b → ¬ PrivBin s b)) ∨
      RdOK (nextA A s.now (absOf s' k)) k p.inv s' l'.pc) :
    GInv k s' (nextA A s.now (absOf s' k)) (updPt pt p.inv τ0) := by
  refine g.frame (i0 := p.inv) I.thr hnow ?_ ?_ ?_ ?_ (readers_step g I E hthr hnow hself)
  · intro c hc
    exact updPt_ne pt τ0 (inv_ne_of_mem_callsOnExt I.thr hl hp he hc)
  · intro c hc
    rcases ext_forward hl hthr hnow hhist c hc with h | h
    · exact h
    · rw [he] at h; cases h
  · intro c' hc'
    rcases ext_backward hthr hnow hhist c' hc' with h | h | h
    · exact Or.inl h
    · have := honly c' (Or.inl h); subst this
      exact Or.inr ⟨hinv0, hok, fun hwr => by rw [hinv0, updPt_self]; exact hw hwr⟩
    · have := honly c' (Or.inr h); subst this
      exact Or.inr ⟨hinv0, hok, fun hwr => by rw [hinv0, updPt_self]; exact hw hwr⟩
  · intro hne
    have hwr := hchg hne
    exact ⟨c0, hmem, hwr, by rw [hinv0, updPt_self]; exact hw hwr⟩

/-- a step of a thread whose pending call is on another key (or that has no call) -/
theorem ginv_other_key {k : Nat} {s s' : State} {A : Nat → KSt} {pt : Nat → Nat} {t : Nat} {l l' : Local}
    {hnew : List (Nat × Call)}
    (g : GInv k s A pt) (I : Inv s) (E : Eff s s')
    (hl : s.threads[t]? = some l) (hk : ∀ p, l.call = some p → p.key ≠ k)
    (hthr : s'.threads = s.threads.set t l') (hnow : s'.now = s.now + 1)
    (hhist : s'.hist = hnew ++ s.hist) (hnk : ∀ x ∈ hnew, x.1 ≠ k)
    (habs : absOf s' k = absOf s k) (hcall : l'.call = l.call ∨ l'.call = none) :
    GInv k s' (nextA A s.now (absOf s' k)) pt := by
  have hnone : ∀ now (l0 : Local), (l0.call = l.call ∨ l0.call = none) → extOf k now t l0 = none := by
    intro now l0 h0
    cases he : extOf k now t l0 with
    | none => rfl
    | some c =>
      obtain ⟨_, p', _, hc', hk', _⟩ := extOf_eq_some.1 he
      rcases h0 with h0 | h0
      · rw [h0] at hc'; exact absurd hk' (hk p' hc')
      · rw [h0] at hc'; cases hc'
  refine ginv_quiet_none g I E hl hthr hnow hhist ?_ habs (hnone _ l (Or.inl rfl)) (hnone _ l' hcall) ?_
  · intro c hc; exact hnk _ hc rfl
  · intro p1 hp1 hk1
    rcases hcall with h | h
    · rw [h] at hp1; exact absurd hk1 (hk p1 hp1)
    · rw [h] at hp1; cases hp1

/-- a writer on key `k` passes its linearization point -/
theorem ginv_writer_point {k : Nat} {s s' : State} {A : Nat → KSt} {pt : Nat → Nat} {t : Nat} {l l' : Local}
    {p : Pending} {res : KRes}
    (g : GInv k s A pt) (I : Inv s) (E : Eff s s')
    (hl : s.threads[t]? = some l) (hp : l.call = some p) (hk : p.key = k)
    (hthr : s'.threads = s.threads.set t l') (hnow : s'.now = s.now + 1) (hhist : s'.hist = s.hist)
    (hres0 : resOfPc l.pc = none) (hres' : resOfPc l'.pc = some res) (hcall : l'.call = l.call)
    (hwr : isRead p.op = false) (hspec : specStep (absOf s k) p.op = (absOf s' k, res))
    (hnr : readerPc l'.pc = false) :
    GInv k s' (nextA A s.now (absOf s' k)) (updPt pt p.inv (s.now + 1)) := by
  have hpi := I.thr.pendTime t l p hl hp
  have hext : extOf k (s.now + 1) t l' = some ⟨t, p.op, res, p.inv, s.now + 1⟩ :=
    extOf_eq_some.2 ⟨res, p, hres', hcall.trans hp, hk, rfl⟩
  refine ginv_new (hnew := []) (τ0 := s.now + 1) (c0 := ⟨t, p.op, res, p.inv, s.now + 1⟩) g I E hl hp hthr hnow
    (by rw [hhist]; rfl) (extOf_none_of_pc hres0) ?_ ?_ rfl ?_ (fun _ => rfl) (fun _ => hwr) ?_
  · rintro c' (hc' | hc')
    · cases hc'
    · rw [hext] at hc'; cases hc'; rfl
  · refine mem_callsOnExt.2 (Or.inr ⟨t, l', by rw [hthr]; exact get_set_self hl, by rw [hnow]; exact hext⟩)
  · refine ⟨?_, ?_, ?_, ?_⟩
    · show p.inv ≤ updPt pt p.inv (s.now + 1) p.inv
      rw [updPt_self]; omega
    · show updPt pt p.inv (s.now + 1) p.inv ≤ s.now + 1
      rw [updPt_self]; exact Nat.le_refl _
    · intro hr; rw [hwr] at hr; cases hr
    · show isRead p.op = false → 1 ≤ updPt pt p.inv (s.now + 1) p.inv ∧
        specStep (nextA A s.now _ (updPt pt p.inv (s.now + 1) p.inv - 1)) p.op =
          (nextA A s.now _ (updPt pt p.inv (s.now + 1) p.inv), res)
      rw [updPt_self]
      intro _
      refine ⟨by omega, ?_⟩
      rw [Nat.add_sub_cancel, nextA_old (Nat.le_refl _), nextA_new, g.hA]
      exact hspec
  · intro p1 _ _
    exact Or.inr (RdOK_of_not_reader hnr)

/-- a call on key `k` completes at its linearization point; `τ0` is the time that justifies its result
(a read), or it is a writer that takes effect now -/
theorem ginv_call_fin {k : Nat} {s s' : State} {A : Nat → KSt} {pt : Nat → Nat} {t : Nat} {l : Local}
    {p : Pending} {res : KRes} {τ0 : Nat}
    (g : GInv k s A pt) (I : Inv s) (E : Eff s s')
    (hl : s.threads[t]? = some l) (hp : l.call = some p) (hk : p.key = k)
    (hthr : s'.threads = s.threads.set t { pc := .idle, call := none }) (hnow : s'.now = s.now + 1)
    (hhist : s'.hist = [(p.key, ⟨t, p.op, res, p.inv, s.now + 1⟩)] ++ s.hist)
    (hres0 : resOfPc l.pc = none)
    (hcase : (isRead p.op = true ∧ absOf s' k = absOf s k ∧ p.inv ≤ τ0 ∧ τ0 ≤ s.now ∧
        specStep (A τ0) p.op = (A τ0, res)) ∨
      (isRead p.op = false ∧ τ0 = s.now + 1 ∧ specStep (absOf s k) p.op = (absOf s' k, res))) :
    GInv k s' (nextA A s.now (absOf s' k)) (updPt pt p.inv τ0) := by
  have hpi := I.thr.pendTime t l p hl hp
  refine ginv_new (τ0 := τ0) (c0 := ⟨t, p.op, res, p.inv, s.now + 1⟩) g I E hl hp hthr hnow hhist
    (extOf_none_of_pc hres0) ?_ ?_ rfl ?_ ?_ ?_ ?_
  · rintro c' (hc' | hc')
    · simp only [List.mem_singleton, Prod.mk.injEq] at hc'
      exact hc'.2
    · have : extOf k (s.now + 1) t { pc := .idle, call := none } = none := rfl
      rw [this] at hc'; cases hc'
  · refine mem_callsOnExt.2 (Or.inl ?_)
    rw [hhist, hk]; exact List.mem_cons_self
  · rcases hcase with ⟨hrd, habs, h1, h2, hspec⟩ | ⟨hwr, hτ, hspec⟩
    · refine ⟨?_, ?_, ?_, ?_⟩
      · show p.inv ≤ updPt pt p.inv τ0 p.inv
        rw [updPt_self]; exact h1
      · show updPt pt p.inv τ0 p.inv ≤ s.now + 1
        rw [updPt_self]; omega
      · show isRead p.op = true → specStep (nextA A s.now _ (updPt pt p.inv τ0 p.inv)) p.op = (_, res)
        rw [updPt_self, nextA_old h2]
        intro _; exact hspec
      · intro hw
        have : isRead p.op = false := hw
        rw [hrd] at this; cases this
    · subst hτ
      refine ⟨?_, ?_, ?_, ?_⟩
      · show p.inv ≤ updPt pt p.inv (s.now + 1) p.inv
        rw [updPt_self]; omega
      · show updPt pt p.inv (s.now + 1) p.inv ≤ s.now + 1
        rw [updPt_self]; exact Nat.le_refl _
      · intro hr
        have : isRead p.op = true := hr
        rw [hwr] at this; cases this
      · show isRead p.op = false → 1 ≤ updPt pt p.inv (s.now + 1) p.inv ∧
          specStep (nextA A s.now _ (updPt pt p.inv (s.now + 1) p.inv - 1)) p.op =
            (nextA A s.now _ (updPt pt p.inv (s.now + 1) p.inv), res)
        rw [updPt_self]
        intro _
        refine ⟨by omega, ?_⟩
        rw [Nat.add_sub_cancel, nextA_old (Nat.le_refl _), nextA_new, g.hA]
        exact hspec
  · intro hw
    rcases hcase with ⟨hrd, _⟩ | ⟨_, hτ, _⟩
    · have : isRead p.op = false := hw
      rw [hrd] at this; cases this
    · exact hτ
  · intro hne
    rcases hcase with ⟨_, habs, _⟩ | ⟨hwr, _, _⟩
    · exact absurd habs hne
    · exact hwr
  · intro p1 hp1; cases hp1

theorem isRead_cases {op : KOp} (h : isRead op = true) : op = .get ∨ op = .has := by
  cases op <;> first | exact Or.inl rfl | exact Or.inr rfl | cases h

theorem absentRes_spec {op : KOp} (h : isRead op = true) : specStep none op = (none, absentRes op) := by
  rcases isRead_cases h with hop | hop <;> rw [hop] <;> rfl

end Flurry.Proto.BinGNP
