import Flurry.Lemmas.BinKChain
/-! # Proto/BinK: the chain invariant, the abstract state, and the stores (C01, a bin that changes its kind)

Everything here is stated for a heap, a start pointer `st` (the bin cell of a list bin / the `first`
field of the live tree bin) and a set `T` of "tree nodes of the live structure", so that the list
form and the tree form share the lemmas.

* `CInv heap st T`: `NextOK`, the start is valid, keys are pairwise distinct among the nodes on the
  chain or in `T`.
* `absL heap L k`: the value of the first node with key `k` on the chain `L`.
* `HeapStep heap L P heap' L' P'`: what a transition does to the heap as far as list-walking readers
  are concerned (`P`: private nodes, allocated by a treeify that has not yet published them).
* the stores: one-node modifications (`modify_summary`, `val_store`), `prepend_store` (also the CAS
  into the empty cell), `append_store` (list insertion at the tail), `unlink_store`,
  `convert_store` (the cell is switched to a copy), `grow_store` (private allocation). -/
namespace Flurry.Proto.BinK
open Flurry.Lin

structure CInv (heap : List NodeS) (st : Option Nat) (T : Nat → Prop) : Prop where
  nextOK : NextOK heap
  startOK : ∀ h, st = some h → h < heap.length
  keysDistinct : ∀ i j, (i ∈ chainOf heap st ∨ T i) → (j ∈ chainOf heap st ∨ T j) →
    (nodeAt heap i).key = (nodeAt heap j).key → i = j

theorem CInv.isChain {heap : List NodeS} {st : Option Nat} {T : Nat → Prop} (C : CInv heap st T) :
    IsChain heap st (chainOf heap st) := chainOf_isChain C.nextOK st C.startOK

theorem CInv.chain_lt {heap : List NodeS} {st : Option Nat} {T : Nat → Prop} (C : CInv heap st T) {i : Nat}
    (hi : i ∈ chainOf heap st) : i < heap.length := C.isChain.lt_length i hi

theorem CInv.nodup {heap : List NodeS} {st : Option Nat} {T : Nat → Prop} (C : CInv heap st T) :
    (chainOf heap st).Nodup := C.isChain.nodup C.nextOK

theorem CInv.distinct {heap : List NodeS} {st : Option Nat} {T : Nat → Prop} (C : CInv heap st T) :
    ∀ i j, i ∈ chainOf heap st → j ∈ chainOf heap st → (nodeAt heap i).key = (nodeAt heap j).key → i = j :=
  fun i j hi hj => C.keysDistinct i j (Or.inl hi) (Or.inl hj)

/-! ## the abstract state of a key on a chain -/

def absL (heap : List NodeS) (L : List Nat) (k : Nat) : KSt :=
  (L.find? (fun i => (nodeAt heap i).key == k)).map (fun i => (nodeAt heap i).val)

theorem absOf_eq (s : State) (k : Nat) : absOf s k = absL s.heap (liveChain s) k := by
  unfold absOf absL nodeAt
  cases (liveChain s).find? (fun i => (s.heap.getD i dflt).key == k) <;> rfl

theorem absL_eq_none_iff {heap : List NodeS} {L : List Nat} {k : Nat} :
    absL heap L k = none ↔ ∀ i ∈ L, (nodeAt heap i).key ≠ k := by
  unfold absL
  rw [Option.map_eq_none_iff, List.find?_eq_none]
  simp

theorem absL_eq_some_iff {heap : List NodeS} {L : List Nat}
    (hd : ∀ i j, i ∈ L → j ∈ L → (nodeAt heap i).key = (nodeAt heap j).key → i = j) {k : Nat} {v : Nat × Nat} :
    absL heap L k = some v ↔ ∃ i ∈ L, (nodeAt heap i).key = k ∧ (nodeAt heap i).val = v := by
  unfold absL
  rw [Option.map_eq_some_iff]
  constructor
  · rintro ⟨i, hf, hv⟩
    have h1 := List.mem_of_find?_eq_some hf
    have h2 := List.find?_some hf
    simp only [beq_iff_eq] at h2
    exact ⟨i, h1, h2, hv⟩
  · rintro ⟨i, hi, hk, hv⟩
    cases hf : L.find? (fun i => (nodeAt heap i).key == k) with
    | none =>
      rw [List.find?_eq_none] at hf
      have := hf i hi
      simp [hk] at this
    | some j =>
      have h1 := List.mem_of_find?_eq_some hf
      have h2 := List.find?_some hf
      simp only [beq_iff_eq] at h2
      have : j = i := hd j i h1 hi (by rw [h2, hk])
      subst this
      exact ⟨j, rfl, hv⟩

/-- two chains that hold the same keys and values position by position -/
theorem absL_pointwise {heap heap' : List NodeS} : ∀ {L L' : List Nat}, L'.length = L.length →
    (∀ j, j < L.length → (nodeAt heap' (L'.getD j 0)).key = (nodeAt heap (L.getD j 0)).key ∧
      (nodeAt heap' (L'.getD j 0)).val = (nodeAt heap (L.getD j 0)).val) →
    ∀ k, absL heap' L' k = absL heap L k
  | [], [], _, _, k => rfl
  | [], _ :: _, h, _, _ => by simp at h
  | _ :: _, [], h, _, _ => by simp at h
  | a :: L, a' :: L', hlen, hkv, k => by
    have h0 := hkv 0 (by simp)
    simp only [List.getD_cons_zero] at h0
    have ih := absL_pointwise (heap := heap) (heap' := heap') (L := L) (L' := L') (by simpa using hlen)
      (fun j hj => by
        have := hkv (j + 1) (by simp; omega)
        simpa using this) k
    unfold absL at ih ⊢
    simp only [List.find?_cons, h0.1]
    cases hk : (nodeAt heap a).key == k
    · simp only
      exact ih
    · simp only [Option.map_some, h0.2]

/-- the general recipe: same members, same keys and values -/
theorem absL_same {heap heap' : List NodeS} {L L' : List Nat}
    (hd : ∀ i j, i ∈ L → j ∈ L → (nodeAt heap i).key = (nodeAt heap j).key → i = j)
    (hd' : ∀ i j, i ∈ L' → j ∈ L' → (nodeAt heap' i).key = (nodeAt heap' j).key → i = j)
    (hlive : ∀ j, j ∈ L' ↔ j ∈ L)
    (hkv : ∀ j, j ∈ L →
      (nodeAt heap' j).key = (nodeAt heap j).key ∧ (nodeAt heap' j).val = (nodeAt heap j).val) (k : Nat) :
    absL heap' L' k = absL heap L k := by
  cases ha : absL heap L k with
  | none =>
    rw [absL_eq_none_iff] at ha ⊢
    intro j hj
    have h1 := (hlive j).1 hj
    rw [(hkv j h1).1]; exact ha j h1
  | some w =>
    rw [absL_eq_some_iff hd] at ha
    obtain ⟨j, hj, hjk, hjv⟩ := ha
    rw [absL_eq_some_iff hd']
    exact ⟨j, (hlive j).2 hj, by rw [(hkv j hj).1, hjk], by rw [(hkv j hj).2, hjv]⟩

/-- a chain node gets a new value -/
theorem absL_val {heap heap' : List NodeS} {L L' : List Nat}
    (hd : ∀ i j, i ∈ L → j ∈ L → (nodeAt heap i).key = (nodeAt heap j).key → i = j)
    (hd' : ∀ i j, i ∈ L' → j ∈ L' → (nodeAt heap' i).key = (nodeAt heap' j).key → i = j)
    {i : Nat} {v : Nat × Nat} (hi : i ∈ L)
    (hlive : ∀ j, j ∈ L' ↔ j ∈ L)
    (hkey : ∀ j, (nodeAt heap' j).key = (nodeAt heap j).key)
    (hval : ∀ j, (nodeAt heap' j).val = if j = i then v else (nodeAt heap j).val) (k : Nat) :
    absL heap' L' k = if (nodeAt heap i).key = k then some v else absL heap L k := by
  split
  · rename_i hk
    rw [absL_eq_some_iff hd']
    exact ⟨i, (hlive i).2 hi, by rw [hkey, hk], by rw [hval]; simp⟩
  · rename_i hk
    cases ha : absL heap L k with
    | none =>
      rw [absL_eq_none_iff] at ha ⊢
      intro j hj
      rw [hkey]; exact ha j ((hlive j).1 hj)
    | some w =>
      rw [absL_eq_some_iff hd] at ha
      obtain ⟨j, hj, hjk, hjv⟩ := ha
      rw [absL_eq_some_iff hd']
      have hji : j ≠ i := fun h => hk (h ▸ hjk)
      exact ⟨j, (hlive j).2 hj, by rw [hkey, hjk], by rw [hval, if_neg hji, hjv]⟩

/-- a node joins the chain -/
theorem absL_add {heap heap' : List NodeS} {L L' : List Nat}
    (hd : ∀ i j, i ∈ L → j ∈ L → (nodeAt heap i).key = (nodeAt heap j).key → i = j)
    (hd' : ∀ i j, i ∈ L' → j ∈ L' → (nodeAt heap' i).key = (nodeAt heap' j).key → i = j)
    {x : Nat} (hx : x ∈ L')
    (hlive : ∀ j, j ∈ L' ↔ (j = x ∨ j ∈ L))
    (hkv : ∀ j, j ∈ L →
      (nodeAt heap' j).key = (nodeAt heap j).key ∧ (nodeAt heap' j).val = (nodeAt heap j).val)
    (k : Nat) :
    absL heap' L' k = if (nodeAt heap' x).key = k then some (nodeAt heap' x).val else absL heap L k := by
  split
  · rename_i hk
    rw [absL_eq_some_iff hd']
    exact ⟨x, hx, hk, rfl⟩
  · rename_i hk
    cases ha : absL heap L k with
    | none =>
      rw [absL_eq_none_iff] at ha ⊢
      intro j hj
      rcases (hlive j).1 hj with rfl | h1
      · exact hk
      · rw [(hkv j h1).1]; exact ha j h1
    | some w =>
      rw [absL_eq_some_iff hd] at ha
      obtain ⟨j, hj, hjk, hjv⟩ := ha
      rw [absL_eq_some_iff hd']
      exact ⟨j, (hlive j).2 (Or.inr hj), by rw [(hkv j hj).1, hjk], by rw [(hkv j hj).2, hjv]⟩

/-- a node leaves the chain -/
theorem absL_del {heap heap' : List NodeS} {L L' : List Nat}
    (hd : ∀ i j, i ∈ L → j ∈ L → (nodeAt heap i).key = (nodeAt heap j).key → i = j)
    (hd' : ∀ i j, i ∈ L' → j ∈ L' → (nodeAt heap' i).key = (nodeAt heap' j).key → i = j)
    {i : Nat} (hi : i ∈ L)
    (hlive : ∀ j, j ∈ L' ↔ (j ≠ i ∧ j ∈ L))
    (hkv : ∀ j, j ∈ L →
      (nodeAt heap' j).key = (nodeAt heap j).key ∧ (nodeAt heap' j).val = (nodeAt heap j).val)
    (k : Nat) :
    absL heap' L' k = if (nodeAt heap i).key = k then none else absL heap L k := by
  split
  · rename_i hk
    rw [absL_eq_none_iff]
    intro j hj hjk
    obtain ⟨hne, h1⟩ := (hlive j).1 hj
    rw [(hkv j h1).1] at hjk
    exact hne (hd j i h1 hi (by rw [hjk, hk]))
  · rename_i hk
    cases ha : absL heap L k with
    | none =>
      rw [absL_eq_none_iff] at ha ⊢
      intro j hj
      obtain ⟨-, h1⟩ := (hlive j).1 hj
      rw [(hkv j h1).1]; exact ha j h1
    | some w =>
      rw [absL_eq_some_iff hd] at ha
      obtain ⟨j, hj, hjk, hjv⟩ := ha
      rw [absL_eq_some_iff hd']
      have hji : j ≠ i := fun h => hk (h ▸ hjk)
      exact ⟨j, (hlive j).2 ⟨hji, hj⟩, by rw [(hkv j hj).1, hjk], by rw [(hkv j hj).2, hjv]⟩

/-! ## what a transition does to the heap, seen from a list-walking reader -/

structure HeapStep (heap : List NodeS) (L : List Nat) (P : Nat → Prop)
    (heap' : List NodeS) (L' : List Nat) (P' : Nat → Prop) : Prop where
  len : heap.length ≤ heap'.length
  key : ∀ j, j < heap.length → (nodeAt heap' j).key = (nodeAt heap j).key
  /-- a node that is not on the chain before or not on it after keeps value and `next` -/
  off : ∀ j, j < heap.length → (j ∉ L ∨ j ∉ L') →
    (nodeAt heap' j).val = (nodeAt heap j).val ∧ (nodeAt heap' j).next = (nodeAt heap j).next
  /-- no old node becomes private -/
  priv : ∀ j, j < heap.length → P' j → P j
  /-- an old public node that is not on the chain never gets onto it -/
  noRelink : ∀ j ∈ L', j ∈ L ∨ heap.length ≤ j ∨ P j
  /-- the nodes that stay on the chain keep their order -/
  order : ∀ i c, i ∈ L → c ∈ L → List.Sublist [i, c] L' → List.Sublist [i, c] L
  /-- if some node stays on the chain, the key of a node that joins it is not on the chain -/
  fresh : ∀ j ∈ L', j ∉ L → ∀ c, c ∈ L → c ∈ L' → ∀ i ∈ L, (nodeAt heap i).key ≠ (nodeAt heap' j).key

theorem HeapStep.valchg {heap heap' : List NodeS} {L L' : List Nat} {P P' : Nat → Prop}
    (hs : HeapStep heap L P heap' L' P') {j : Nat} (hj : j < heap.length)
    (hne : (nodeAt heap' j).val ≠ (nodeAt heap j).val) : j ∈ L ∧ j ∈ L' := by
  constructor
  · apply Classical.byContradiction
    intro h
    exact hne (hs.off j hj (Or.inl h)).1
  · apply Classical.byContradiction
    intro h
    exact hne (hs.off j hj (Or.inr h)).1

/-- nothing a list walker sees changes: same chain, old nodes keep key, value and `next` -/
theorem HeapStep.of_same {heap heap' : List NodeS} {L : List Nat} {P P' : Nat → Prop}
    (hlen : heap.length ≤ heap'.length)
    (hold : ∀ j, j < heap.length → (nodeAt heap' j).key = (nodeAt heap j).key ∧
      (nodeAt heap' j).val = (nodeAt heap j).val ∧ (nodeAt heap' j).next = (nodeAt heap j).next)
    (hP : ∀ j, j < heap.length → P' j → P j) : HeapStep heap L P heap' L P' := by
  refine ⟨hlen, fun j hj => (hold j hj).1, fun j hj _ => (hold j hj).2, hP, fun j hj => Or.inl hj,
    fun _ _ _ _ h => h, ?_⟩
  intro j hj hjn; exact absurd hj hjn

/-! ## stores that modify one node, keeping key and `next` -/

theorem modify_chain {heap : List NodeS} {st : Option Nat} {T : Nat → Prop} (C : CInv heap st T)
    {i : Nat} {f : NodeS → NodeS} (hf : ∀ n, (f n).next = n.next) :
    NextOK (heap.modify i f) ∧ chainOf (heap.modify i f) st = chainOf heap st := by
  have hok := nextOK_modify_other C.nextOK i hf
  refine ⟨hok, chainOf_eq hok ?_⟩
  refine C.isChain.congr ?_
  intro j _ n hn
  by_cases hij : i = j
  · subst hij
    exact ⟨f n, by rw [List.getElem?_modify_eq, hn]; rfl, hf n⟩
  · exact ⟨n, by rw [List.getElem?_modify_ne _ _ hij, hn], rfl⟩

/-- the common part of the one-node stores (value, tree flag, lock word) -/
theorem modify_summary {heap : List NodeS} {st : Option Nat} {T T' P P' : Nat → Prop} (C : CInv heap st T)
    {i : Nat} {f : NodeS → NodeS}
    (hf : ∀ n, (f n).next = n.next ∧ (f n).key = n.key)
    (hT : ∀ j, T' j → j ∈ chainOf heap st ∨ T j)
    (hv : (nodeAt (heap.modify i f) i).val ≠ (nodeAt heap i).val → i ∈ chainOf heap st)
    (hP : ∀ j, j < heap.length → P' j → P j) :
    CInv (heap.modify i f) st T' ∧
      HeapStep heap (chainOf heap st) P (heap.modify i f) (chainOf heap st) P' ∧
      chainOf (heap.modify i f) st = chainOf heap st ∧
      (∀ j, (nodeAt (heap.modify i f) j).key = (nodeAt heap j).key) ∧
      (∀ j, (nodeAt (heap.modify i f) j).next = (nodeAt heap j).next) ∧
      (∀ j, j ≠ i → nodeAt (heap.modify i f) j = nodeAt heap j) := by
  obtain ⟨hok, hc⟩ := modify_chain C (i := i) (fun n => (hf n).1)
  have hkey : ∀ j, (nodeAt (heap.modify i f) j).key = (nodeAt heap j).key := by
    intro j; rw [nodeAt_modify]; split
    · exact (hf _).2
    · rfl
  have hnext : ∀ j, (nodeAt (heap.modify i f) j).next = (nodeAt heap j).next := by
    intro j; rw [nodeAt_modify]; split
    · exact (hf _).1
    · rfl
  have hother : ∀ j, j ≠ i → nodeAt (heap.modify i f) j = nodeAt heap j := by
    intro j hj; exact nodeAt_modify_ne f (fun e => hj e.symm)
  refine ⟨⟨hok, by rw [List.length_modify]; exact C.startOK, ?_⟩, ?_, hc, hkey, hnext, hother⟩
  · intro a b ha hb hab
    rw [hkey, hkey] at hab
    rw [hc] at ha hb
    have ha' : a ∈ chainOf heap st ∨ T a := by
      rcases ha with ha | ha
      · exact Or.inl ha
      · exact hT a ha
    have hb' : b ∈ chainOf heap st ∨ T b := by
      rcases hb with hb | hb
      · exact Or.inl hb
      · exact hT b hb
    exact C.keysDistinct a b ha' hb' hab
  · refine ⟨by rw [List.length_modify]; exact Nat.le_refl _, fun j _ => hkey j, ?_, hP,
      fun j hj => Or.inl hj, fun _ _ _ _ h => h, ?_⟩
    · intro j _ hjc
      refine ⟨?_, hnext j⟩
      by_cases hji : j = i
      · subst hji
        apply Classical.byContradiction
        intro hne
        have := hv hne
        rcases hjc with h | h <;> exact h this
      · rw [hother j hji]
    · intro j hj hjn; exact absurd hj hjn

/-- the value store at a chain node -/
theorem val_store {heap : List NodeS} {st : Option Nat} {T T' P P' : Nat → Prop} (C : CInv heap st T)
    {i : Nat} {v : Nat × Nat} (hi : i ∈ chainOf heap st)
    (hT : ∀ j, T' j → j ∈ chainOf heap st ∨ T j) (hP : ∀ j, j < heap.length → P' j → P j) :
    let heap' := heap.modify i (fun n => { n with val := v })
    CInv heap' st T' ∧ HeapStep heap (chainOf heap st) P heap' (chainOf heap st) P' ∧
      chainOf heap' st = chainOf heap st ∧
      (∀ j, nodeAt heap' j = if j = i then { nodeAt heap j with val := v } else nodeAt heap j) ∧
      ∀ k, absL heap' (chainOf heap' st) k =
        if (nodeAt heap i).key = k then some v else absL heap (chainOf heap st) k := by
  intro heap'
  have hil := C.chain_lt hi
  obtain ⟨C', hs, hc, hkey, _, hother⟩ := modify_summary (T' := T') (P := P) (P' := P') C (i := i)
    (f := fun n => { n with val := v }) (fun n => ⟨rfl, rfl⟩) hT (fun _ => hi) hP
  have hnode : ∀ j, nodeAt heap' j = if j = i then { nodeAt heap j with val := v } else nodeAt heap j := by
    intro j
    by_cases hji : j = i
    · subst hji; rw [if_pos rfl]; exact nodeAt_modify_self _ hil
    · rw [if_neg hji]; exact hother j hji
  refine ⟨C', hs, hc, hnode, ?_⟩
  intro k
  refine absL_val C.distinct C'.distinct hi (fun j => by rw [hc]) hkey ?_ k
  intro j
  rw [hnode]
  split <;> rfl

/-! ## prepending a fresh node (tree-bin insertion; the CAS into the empty cell) -/

theorem prepend_store {heap : List NodeS} {st : Option Nat} {T T' P P' : Nat → Prop} (C : CInv heap st T)
    {new : NodeS} (hnext : new.next = st)
    (hfresh : ∀ j, (j ∈ chainOf heap st ∨ T j) → (nodeAt heap j).key ≠ new.key)
    (hT : ∀ j, T' j → j < heap.length ∧ T j) (hP : ∀ j, j < heap.length → P' j → P j) :
    let heap' := heap ++ [new]
    CInv heap' (some heap.length) T' ∧
      HeapStep heap (chainOf heap st) P heap' (heap.length :: chainOf heap st) P' ∧
      chainOf heap' (some heap.length) = heap.length :: chainOf heap st ∧
      ∀ k, absL heap' (chainOf heap' (some heap.length)) k =
        if new.key = k then some new.val else absL heap (chainOf heap st) k := by
  intro heap'
  have hold : ∀ j, j < heap.length → nodeAt heap' j = nodeAt heap j := fun j hj => nodeAt_append_left _ hj
  have hnew : nodeAt heap' heap.length = new := nodeAt_append_new _ _
  have hok : NextOK heap' := by
    refine nextOK_append C.nextOK ?_
    intro j hj x hx
    have hj0 : j = 0 := by simpa using hj
    subst hj0
    simp only [List.getElem_cons_zero] at hx
    left
    rw [hnext] at hx
    exact ⟨C.startOK x hx, rfl⟩
  have hc : chainOf heap' (some heap.length) = heap.length :: chainOf heap st :=
    chainOf_eq hok (isChain_prepend C.isChain new hnext)
  have C' : CInv heap' (some heap.length) T' := by
    refine ⟨hok, ?_, ?_⟩
    · intro h hh; cases hh; simp [heap']
    · have hal : ∀ j, (j ∈ chainOf heap' (some heap.length) ∨ T' j) →
          j = heap.length ∨ (j < heap.length ∧ (j ∈ chainOf heap st ∨ T j)) := by
        intro j hj
        rcases hj with hj | hj
        · rw [hc] at hj
          rcases List.mem_cons.1 hj with hj | hj
          · exact Or.inl hj
          · exact Or.inr ⟨C.chain_lt hj, Or.inl hj⟩
        · exact Or.inr ⟨(hT j hj).1, Or.inr (hT j hj).2⟩
      intro a b ha hb hab
      rcases hal a ha with rfl | ⟨hal1, hal2⟩ <;> rcases hal b hb with rfl | ⟨hbl1, hbl2⟩
      · rfl
      · rw [hnew, hold b hbl1] at hab
        exact absurd hab.symm (hfresh b hbl2)
      · rw [hnew, hold a hal1] at hab
        exact absurd hab (hfresh a hal2)
      · rw [hold a hal1, hold b hbl1] at hab
        exact C.keysDistinct a b hal2 hbl2 hab
  refine ⟨C', ⟨by simp [heap'], fun j hj => by rw [hold j hj], fun j hj _ => by rw [hold j hj]; exact ⟨rfl, rfl⟩,
    hP, ?_, ?_, ?_⟩, hc, ?_⟩
  · intro j hj
    rcases List.mem_cons.1 hj with hj | hj
    · exact Or.inr (Or.inl (by omega))
    · exact Or.inl hj
  · intro i c hi _ h
    cases h with
    | cons _ h => exact h
    | cons_cons _ h => exact absurd (C.chain_lt hi) (by omega)
  · intro j hj hjn _ _ _ i hi
    rcases List.mem_cons.1 hj with hj | hj
    · subst hj; rw [hnew]; exact hfresh i (Or.inl hi)
    · exact absurd hj hjn
  · intro k
    have := absL_add (heap := heap) (heap' := heap') C.distinct C'.distinct (x := heap.length)
      (by rw [hc]; exact List.mem_cons_self) (fun j => by rw [hc, List.mem_cons])
      (fun j hj => by rw [hold j (C.chain_lt hj)]; exact ⟨rfl, rfl⟩) k
    rw [hnew] at this; exact this

/-! ## appending a fresh node behind the last node (list-bin insertion) -/

theorem append_store {heap : List NodeS} {st : Option Nat} {T T' P P' : Nat → Prop} (C : CInv heap st T)
    {new : NodeS} {l1 : List Nat} {pr : Nat} (hch : chainOf heap st = l1 ++ [pr]) (hnext : new.next = none)
    (hfresh : ∀ j, (j ∈ chainOf heap st ∨ T j) → (nodeAt heap j).key ≠ new.key)
    (hT : ∀ j, T' j → j < heap.length ∧ T j) (hP : ∀ j, j < heap.length → P' j → P j) :
    let heap' := (heap ++ [new]).modify pr (fun m => { m with next := some heap.length })
    CInv heap' st T' ∧
      HeapStep heap (chainOf heap st) P heap' (chainOf heap st ++ [heap.length]) P' ∧
      chainOf heap' st = chainOf heap st ++ [heap.length] ∧
      ∀ k, absL heap' (chainOf heap' st) k =
        if new.key = k then some new.val else absL heap (chainOf heap st) k := by
  intro heap'
  have hprc : pr ∈ chainOf heap st := by rw [hch]; simp
  have hprl := C.chain_lt hprc
  have hlen : heap'.length = heap.length + 1 := by simp [heap']
  have hnode : ∀ j, nodeAt heap' j = if j = pr then { nodeAt heap j with next := some heap.length }
      else if j = heap.length then new else nodeAt heap j := by
    intro j
    show nodeAt ((heap ++ [new]).modify pr _) j = _
    rw [nodeAt_modify]
    by_cases hj : j = pr
    · subst hj
      rw [if_pos ⟨rfl, by simp; omega⟩, if_pos rfl, nodeAt_append_left _ hprl]
    · rw [if_neg (fun h => hj h.1.symm), if_neg hj]
      by_cases hjl : j = heap.length
      · subst hjl; rw [if_pos rfl, nodeAt_append_new]
      · rw [if_neg hjl]
        by_cases hlt : j < heap.length
        · exact nodeAt_append_left _ hlt
        · rw [nodeAt_ge (by simp; omega), nodeAt_ge (by omega)]
  have hold : ∀ j, j < heap.length → (nodeAt heap' j).key = (nodeAt heap j).key ∧
      (nodeAt heap' j).val = (nodeAt heap j).val := by
    intro j hj
    rw [hnode]
    split
    · exact ⟨rfl, rfl⟩
    · rw [if_neg (by omega)]; exact ⟨rfl, rfl⟩
  have hnew : nodeAt heap' heap.length = new := by
    rw [hnode, if_neg (by omega), if_pos rfl]
  -- the last node of the chain has no successor
  have hprnx : (nodeAt heap pr).next = none := by
    have h := C.isChain
    rw [hch] at h
    exact h.next_eq (getElem?_nodeAt hprl)
  have hok1 : NextOK (heap ++ [new]) := by
    refine nextOK_append C.nextOK ?_
    intro j hj x hx
    have hj0 : j = 0 := by simpa using hj
    subst hj0
    simp only [List.getElem_cons_zero] at hx
    rw [hnext] at hx; cases hx
  have hok : NextOK heap' := by
    refine nextOK_modify_next hok1 pr (some heap.length) ?_ ?_
    · intro j hj
      cases hj
      refine ⟨by simp, by omega, ?_⟩
      intro _ m j' hm hj'
      simp only [List.getElem?_concat_length, Option.some.injEq] at hm
      subst hm
      rw [hnext] at hj'; cases hj'
    · intro x n _ _ _ j hj
      cases hj; exact hprl
  have hisch : IsChain heap' st (chainOf heap st ++ [heap.length]) := by
    have h := C.isChain
    have hnd := C.nodup
    rw [hch] at h hnd ⊢
    have := isChain_append_tail h hnd new hnext
    simpa using this
  have hc : chainOf heap' st = chainOf heap st ++ [heap.length] := chainOf_eq hok hisch
  have C' : CInv heap' st T' := by
    refine ⟨hok, ?_, ?_⟩
    · intro h hh; have := C.startOK h hh; omega
    · have hal : ∀ j, (j ∈ chainOf heap' st ∨ T' j) →
          j = heap.length ∨ (j < heap.length ∧ (j ∈ chainOf heap st ∨ T j)) := by
        intro j hj
        rcases hj with hj | hj
        · rw [hc] at hj
          rcases List.mem_append.1 hj with hj | hj
          · exact Or.inr ⟨C.chain_lt hj, Or.inl hj⟩
          · exact Or.inl (by simpa using hj)
        · exact Or.inr ⟨(hT j hj).1, Or.inr (hT j hj).2⟩
      intro a b ha hb hab
      rcases hal a ha with rfl | ⟨hal1, hal2⟩ <;> rcases hal b hb with rfl | ⟨hbl1, hbl2⟩
      · rfl
      · rw [hnew, (hold b hbl1).1] at hab
        exact absurd hab.symm (hfresh b hbl2)
      · rw [hnew, (hold a hal1).1] at hab
        exact absurd hab (hfresh a hal2)
      · rw [(hold a hal1).1, (hold b hbl1).1] at hab
        exact C.keysDistinct a b hal2 hbl2 hab
  refine ⟨C', ⟨by omega, fun j hj => (hold j hj).1, ?_, hP, ?_, ?_, ?_⟩, hc, ?_⟩
  · intro j hj hjc
    refine ⟨(hold j hj).2, ?_⟩
    rw [hnode]
    split
    · rename_i hjp
      subst hjp
      rcases hjc with h | h
      · exact absurd hprc h
      · exact absurd (List.mem_append_left _ hprc) h
    · rw [if_neg (by omega)]
  · intro j hj
    rcases List.mem_append.1 hj with hj | hj
    · exact Or.inl hj
    · exact Or.inr (Or.inl (by simp at hj; omega))
  · intro i c _ hc' h
    obtain ⟨a1, a2, he, h1, h2⟩ := List.sublist_append_iff.1 h
    have hcl := C.chain_lt hc'
    cases a2 with
    | nil => rw [List.append_nil] at he; rw [he]; exact h1
    | cons y a2' =>
      exfalso
      have hy : y = heap.length := by
        have := h2.subset (List.mem_cons_self)
        simpa using this
      have ha2' : a2' = [] := by
        have := h2.length_le
        simp at this
        exact this
      subst ha2' hy
      cases a1 with
      | nil => simp at he
      | cons x a1' =>
        cases a1' with
        | nil =>
          simp only [List.cons_append, List.nil_append, List.cons.injEq] at he
          omega
        | cons z a1'' =>
          have := congrArg List.length he
          simp at this
  · intro j hj hjn _ _ _ i hi
    rcases List.mem_append.1 hj with hj | hj
    · exact absurd hj hjn
    · have : j = heap.length := by simpa using hj
      subst this; rw [hnew]; exact hfresh i (Or.inl hi)
  · intro k
    have := absL_add (heap := heap) (heap' := heap') C.distinct C'.distinct (x := heap.length)
      (by rw [hc]; simp) (fun j => by rw [hc]; simp; exact Or.comm)
      (fun j hj => hold j (C.chain_lt hj)) k
    rw [hnew] at this; exact this

/-! ## unlinking a node from the chain -/

theorem unlink_summary {heap heap' : List NodeS} {st st' : Option Nat} {T T' P P' : Nat → Prop}
    (C : CInv heap st T) {i : Nat} (hi : i ∈ chainOf heap st)
    (hok' : NextOK heap') (hst' : ∀ h, st' = some h → h < heap'.length)
    (hlen : heap'.length = heap.length)
    (hsub : List.Sublist (chainOf heap' st') (chainOf heap st))
    (hc : ∀ j, j ∈ chainOf heap' st' ↔ j ∈ chainOf heap st ∧ j ≠ i)
    (hold : ∀ j, (nodeAt heap' j).key = (nodeAt heap j).key ∧
      (nodeAt heap' j).val = (nodeAt heap j).val ∧
      ((j ∉ chainOf heap st ∨ j = i) → (nodeAt heap' j).next = (nodeAt heap j).next))
    (hT : ∀ j, T' j → T j) (hP : ∀ j, j < heap.length → P' j → P j) :
    CInv heap' st' T' ∧ HeapStep heap (chainOf heap st) P heap' (chainOf heap' st') P' ∧
      ∀ k, absL heap' (chainOf heap' st') k =
        if (nodeAt heap i).key = k then none else absL heap (chainOf heap st) k := by
  have C' : CInv heap' st' T' := by
    refine ⟨hok', hst', ?_⟩
    intro a b ha hb hab
    rw [(hold a).1, (hold b).1] at hab
    have ha' : a ∈ chainOf heap st ∨ T a := by
      rcases ha with ha | ha
      · exact Or.inl ((hc a).1 ha).1
      · exact Or.inr (hT a ha)
    have hb' : b ∈ chainOf heap st ∨ T b := by
      rcases hb with hb | hb
      · exact Or.inl ((hc b).1 hb).1
      · exact Or.inr (hT b hb)
    exact C.keysDistinct a b ha' hb' hab
  refine ⟨C', ⟨by omega, fun j _ => (hold j).1, ?_, hP, ?_, ?_, ?_⟩, ?_⟩
  · intro j _ hjc
    refine ⟨(hold j).2.1, (hold j).2.2 ?_⟩
    rcases hjc with h | h
    · exact Or.inl h
    · by_cases hjl : j ∈ chainOf heap st
      · right
        apply Classical.byContradiction
        intro hne
        exact h ((hc j).2 ⟨hjl, hne⟩)
      · exact Or.inl hjl
  · intro j hj
    exact Or.inl ((hc j).1 hj).1
  · intro a c _ _ h
    exact h.trans hsub
  · intro j hj hjn
    exact absurd ((hc j).1 hj).1 hjn
  · refine absL_del C.distinct C'.distinct hi ?_ (fun j _ => ⟨(hold j).1, (hold j).2.1⟩)
    intro j
    rw [hc]
    exact And.comm

theorem unlink_mid {heap : List NodeS} {st : Option Nat} {T T' P P' : Nat → Prop} (C : CInv heap st T)
    {l1 l2 : List Nat} {pr i : Nat} (hch : chainOf heap st = l1 ++ pr :: i :: l2)
    (hT : ∀ j, T' j → T j) (hP : ∀ j, j < heap.length → P' j → P j) :
    let heap' := heap.modify pr (fun m => { m with next := (nodeAt heap i).next })
    CInv heap' st T' ∧ HeapStep heap (chainOf heap st) P heap' (chainOf heap' st) P' ∧
      chainOf heap' st = l1 ++ pr :: l2 ∧
      (∀ j, (nodeAt heap' j).key = (nodeAt heap j).key ∧ (nodeAt heap' j).val = (nodeAt heap j).val ∧
        (nodeAt heap' j).inTree = (nodeAt heap j).inTree ∧ (nodeAt heap' j).owner = (nodeAt heap j).owner ∧
        (nodeAt heap' j).lock = (nodeAt heap j).lock) ∧
      ∀ k, absL heap' (chainOf heap' st) k =
        if (nodeAt heap i).key = k then none else absL heap (chainOf heap st) k := by
  intro heap'
  have hi : i ∈ chainOf heap st := by rw [hch]; simp
  have hpr : pr ∈ chainOf heap st := by rw [hch]; simp
  have hil := C.chain_lt hi
  have hprl := C.chain_lt hpr
  have hni := getElem?_nodeAt hil
  have hchain := C.isChain
  rw [hch] at hchain
  have hnd := C.nodup
  rw [hch] at hnd
  have hpri : pr ≠ i := by
    intro he
    subst he
    have := (List.nodup_append.1 hnd).2.1
    simp at this
  obtain ⟨b, h1, h2⟩ := hchain.split
  obtain ⟨-, np, hnp, hs⟩ := IsSeg.cons_iff.1 h2
  obtain ⟨hb, ni, hni', hs2⟩ := IsSeg.cons_iff.1 hs
  rw [hni] at hni'; cases hni'
  have hok' : NextOK heap' := by
    refine nextOK_modify_next C.nextOK pr _ ?_ ?_
    · intro j hj
      obtain ⟨e1, _, e3⟩ := C.nextOK i _ j hni hj
      have r1 := rank_lt C.nextOK hnp hb
      have r2 := rank_lt C.nextOK hni hj
      refine ⟨e1, by intro he; subst he; omega, ?_⟩
      intro hprj m j' hm hj'
      -- `pr → i → j`; if `pr < j` the pointer `i → j` goes upwards
      obtain ⟨_, _, f3⟩ := C.nextOK pr np i hnp hb
      by_cases hpi : pr < i
      · have hij := f3 hpi _ j hni hj
        exact e3 hij m j' hm hj'
      · have hip : i < pr := by omega
        exact e3 (by omega) m j' hm hj'
    · intro x n hx hxp hlt j hj
      obtain ⟨_, _, f3⟩ := C.nextOK x n pr hx hxp
      have hpi := f3 hlt np i hnp hb
      obtain ⟨_, _, g3⟩ := C.nextOK pr np i hnp hb
      have := g3 hpi _ j hni hj
      omega
  have hlen : heap'.length = heap.length := by simp [heap']
  have hc : chainOf heap' st = l1 ++ pr :: l2 :=
    chainOf_eq hok' (isChain_unlink (C.isChain |> fun h => by rw [hch] at h; exact h) hnd hni)
  have hnode : ∀ j, nodeAt heap' j = if j = pr then { nodeAt heap j with next := (nodeAt heap i).next }
      else nodeAt heap j := by
    intro j
    show nodeAt (heap.modify pr _) j = _
    by_cases hj : j = pr
    · subst hj; rw [if_pos rfl]; exact nodeAt_modify_self _ hprl
    · rw [if_neg hj]; exact nodeAt_modify_ne _ (fun e => hj e.symm)
  have hfields : ∀ j, (nodeAt heap' j).key = (nodeAt heap j).key ∧ (nodeAt heap' j).val = (nodeAt heap j).val ∧
      (nodeAt heap' j).inTree = (nodeAt heap j).inTree ∧ (nodeAt heap' j).owner = (nodeAt heap j).owner ∧
      (nodeAt heap' j).lock = (nodeAt heap j).lock := by
    intro j; rw [hnode]; split <;> exact ⟨rfl, rfl, rfl, rfl, rfl⟩
  have hmem : ∀ j, j ∈ chainOf heap' st ↔ j ∈ chainOf heap st ∧ j ≠ i := by
    intro j
    rw [hc, hch]
    simp only [List.mem_append, List.mem_cons]
    constructor
    · intro hj
      refine ⟨by rcases hj with hj | hj | hj <;> simp [hj], ?_⟩
      rintro rfl
      have h5 := List.nodup_append.1 hnd
      rcases hj with hj | hj | hj
      · exact h5.2.2 j hj j (by simp) rfl
      · exact hpri hj.symm
      · have := (List.nodup_cons.1 (List.nodup_cons.1 h5.2.1).2).1
        exact this hj
    · rintro ⟨hj | hj | hj | hj, hne⟩
      · exact Or.inl hj
      · exact Or.inr (Or.inl hj)
      · exact absurd hj hne
      · exact Or.inr (Or.inr hj)
  have hsub : List.Sublist (chainOf heap' st) (chainOf heap st) := by
    rw [hc, hch]
    refine List.Sublist.append (List.Sublist.refl _) ?_
    exact List.Sublist.cons_cons _ (List.sublist_cons_self _ _)
  have hold' : ∀ j, (nodeAt heap' j).key = (nodeAt heap j).key ∧
      (nodeAt heap' j).val = (nodeAt heap j).val ∧
      ((j ∉ chainOf heap st ∨ j = i) → (nodeAt heap' j).next = (nodeAt heap j).next) := by
    intro j
    refine ⟨(hfields j).1, (hfields j).2.1, ?_⟩
    intro hj
    rw [hnode, if_neg]
    rintro rfl
    rcases hj with hj | hj
    · exact hj hpr
    · exact hpri hj
  obtain ⟨C', hs', habs⟩ := unlink_summary (T' := T') (P := P) (P' := P') C hi hok'
    (fun h hh => by rw [hlen]; exact C.startOK h hh) hlen hsub hmem hold' hT hP
  exact ⟨C', hs', hc, hfields, habs⟩

theorem unlink_head {heap : List NodeS} {st : Option Nat} {T T' P P' : Nat → Prop} (C : CInv heap st T)
    {l2 : List Nat} {i : Nat} (hch : chainOf heap st = i :: l2)
    (hT : ∀ j, T' j → T j) (hP : ∀ j, j < heap.length → P' j → P j) :
    CInv heap (nodeAt heap i).next T' ∧
      HeapStep heap (chainOf heap st) P heap (chainOf heap (nodeAt heap i).next) P' ∧
      chainOf heap (nodeAt heap i).next = l2 ∧
      ∀ k, absL heap (chainOf heap (nodeAt heap i).next) k =
        if (nodeAt heap i).key = k then none else absL heap (chainOf heap st) k := by
  have hi : i ∈ chainOf heap st := by rw [hch]; simp
  have hil := C.chain_lt hi
  have hni := getElem?_nodeAt hil
  have hchain := C.isChain
  rw [hch] at hchain
  have hnd := C.nodup
  rw [hch] at hnd
  obtain ⟨-, ni, hni', hs⟩ := IsSeg.cons_iff.1 hchain
  rw [hni] at hni'; cases hni'
  have hc : chainOf heap (nodeAt heap i).next = l2 := chainOf_eq C.nextOK hs
  have hmem : ∀ j, j ∈ chainOf heap (nodeAt heap i).next ↔ j ∈ chainOf heap st ∧ j ≠ i := by
    intro j
    rw [hc, hch]
    simp only [List.mem_cons]
    constructor
    · intro hj
      refine ⟨Or.inr hj, ?_⟩
      rintro rfl
      exact (List.nodup_cons.1 hnd).1 hj
    · rintro ⟨hj | hj, hne⟩
      · exact absurd hj hne
      · exact hj
  obtain ⟨C', hs', habs⟩ := unlink_summary (T' := T') (P := P) (P' := P') C hi C.nextOK
    (fun h hh => (C.nextOK i _ h hni hh).1) rfl (by rw [hc, hch]; exact List.sublist_cons_self _ _) hmem
    (fun j => ⟨rfl, rfl, fun _ => rfl⟩) hT hP
  exact ⟨C', hs', hc, habs⟩

/-! ## the cell is switched to a copy of the chain (treeify, untreeify) -/

theorem convert_store {heap heap' : List NodeS} {st st' : Option Nat} {T T' P P' : Nat → Prop} {L' : List Nat}
    (C : CInv heap st T) (hok' : NextOK heap') (hlen : heap.length ≤ heap'.length)
    (hold : ∀ j, j < heap.length → nodeAt heap' j = nodeAt heap j)
    (hch' : IsChain heap' st' L') (hLlen : L'.length = (chainOf heap st).length)
    (hkv : ∀ j, j < (chainOf heap st).length →
      (nodeAt heap' (L'.getD j 0)).key = (nodeAt heap ((chainOf heap st).getD j 0)).key ∧
      (nodeAt heap' (L'.getD j 0)).val = (nodeAt heap ((chainOf heap st).getD j 0)).val)
    (hnew : ∀ j ∈ L', j ∉ chainOf heap st ∧ (heap.length ≤ j ∨ P j))
    (hT : ∀ j, T' j → j ∈ L') (hP : ∀ j, j < heap.length → P' j → P j) :
    CInv heap' st' T' ∧ HeapStep heap (chainOf heap st) P heap' L' P' ∧ chainOf heap' st' = L' ∧
      ∀ k, absL heap' L' k = absL heap (chainOf heap st) k := by
  have hc : chainOf heap' st' = L' := chainOf_eq hok' hch'
  have hnd' : L'.Nodup := hch'.nodup hok'
  have hnd := C.nodup
  -- keys on the copy are distinct because they are position by position the keys of the original
  have hdist : ∀ a b, a ∈ L' → b ∈ L' → (nodeAt heap' a).key = (nodeAt heap' b).key → a = b := by
    intro a b ha hb hab
    obtain ⟨ia, hia, rfl⟩ := List.getElem_of_mem ha
    obtain ⟨ib, hib, rfl⟩ := List.getElem_of_mem hb
    have e1 : L'.getD ia 0 = L'[ia] := by simp [List.getD_eq_getElem?_getD, hia]
    have e2 : L'.getD ib 0 = L'[ib] := by simp [List.getD_eq_getElem?_getD, hib]
    have k1 := (hkv ia (by omega)).1
    have k2 := (hkv ib (by omega)).1
    rw [e1] at k1; rw [e2] at k2
    rw [k1, k2] at hab
    have hia' : ia < (chainOf heap st).length := by omega
    have hib' : ib < (chainOf heap st).length := by omega
    have f1 : (chainOf heap st).getD ia 0 = (chainOf heap st)[ia] := by simp [List.getD_eq_getElem?_getD, hia']
    have f2 : (chainOf heap st).getD ib 0 = (chainOf heap st)[ib] := by simp [List.getD_eq_getElem?_getD, hib']
    rw [f1, f2] at hab
    have := C.distinct _ _ (List.getElem_mem hia') (List.getElem_mem hib') hab
    have hidx : ia = ib := (List.getElem_inj hnd).1 this
    subst hidx; rfl
  refine ⟨⟨hok', fun h hh => ?_, ?_⟩, ⟨hlen, fun j hj => by rw [hold j hj],
    fun j hj _ => by rw [hold j hj]; exact ⟨rfl, rfl⟩, hP, ?_, ?_, ?_⟩, hc, absL_pointwise hLlen hkv⟩
  · obtain ⟨l, hl⟩ := IsChain.start_some (hh ▸ hch')
    exact hch'.lt_length h (by rw [hl]; simp)
  · intro a b ha hb hab
    rw [hc] at ha hb
    have ha' : a ∈ L' := by rcases ha with h | h; exact h; exact hT a h
    have hb' : b ∈ L' := by rcases hb with h | h; exact h; exact hT b h
    exact hdist a b ha' hb' hab
  · intro j hj
    exact Or.inr (hnew j hj).2
  · intro i c hi _ h
    have : i ∈ L' := h.subset (by simp)
    exact absurd hi (hnew i this).1
  · intro j _ _ c hc1 hc2
    exact absurd hc1 (hnew c hc2).1

/-! ## private allocation at the end of the heap (the copy made by `kBuild`) -/

theorem grow_store {heap : List NodeS} {st : Option Nat} {T T' P P' : Nat → Prop} {ext : List NodeS}
    (C : CInv heap st T) (hok' : NextOK (heap ++ ext))
    (hT : ∀ j, T' j → j < heap.length ∧ T j) (hP : ∀ j, j < heap.length → P' j → P j) :
    CInv (heap ++ ext) st T' ∧
      HeapStep heap (chainOf heap st) P (heap ++ ext) (chainOf heap st) P' ∧
      chainOf (heap ++ ext) st = chainOf heap st ∧
      ∀ k, absL (heap ++ ext) (chainOf (heap ++ ext) st) k = absL heap (chainOf heap st) k := by
  have hold : ∀ j, j < heap.length → nodeAt (heap ++ ext) j = nodeAt heap j := fun j hj => nodeAt_append_left _ hj
  have hc : chainOf (heap ++ ext) st = chainOf heap st := by
    refine chainOf_eq hok' (C.isChain.congr ?_)
    intro j _ n hn
    have hjl : j < heap.length := (List.getElem?_eq_some_iff.1 hn).1
    exact ⟨n, by rw [List.getElem?_append_left hjl, hn], rfl⟩
  have C' : CInv (heap ++ ext) st T' := by
    refine ⟨hok', fun h hh => by have := C.startOK h hh; simp; omega, ?_⟩
    intro a b ha hb hab
    rw [hc] at ha hb
    have ha' : a < heap.length ∧ (a ∈ chainOf heap st ∨ T a) := by
      rcases ha with h | h
      · exact ⟨C.chain_lt h, Or.inl h⟩
      · exact ⟨(hT a h).1, Or.inr (hT a h).2⟩
    have hb' : b < heap.length ∧ (b ∈ chainOf heap st ∨ T b) := by
      rcases hb with h | h
      · exact ⟨C.chain_lt h, Or.inl h⟩
      · exact ⟨(hT b h).1, Or.inr (hT b h).2⟩
    rw [hold a ha'.1, hold b hb'.1] at hab
    exact C.keysDistinct a b ha'.2 hb'.2 hab
  refine ⟨C', ?_, hc, ?_⟩
  · exact HeapStep.of_same (by simp)
      (fun j hj => by rw [hold j hj]; exact ⟨rfl, rfl, rfl⟩) hP
  · intro k
    rw [hc]
    exact absL_same C.distinct (by rw [← hc]; exact C'.distinct) (fun j => Iff.rfl)
      (fun j hj => by rw [hold j (C.chain_lt hj)]; exact ⟨rfl, rfl⟩) k

end Flurry.Proto.BinK
