import Flurry.Lemmas.BinXLin
/-! # C12 for a list bin under resize: what a reader's program counter knows (Proto/BinX)

`RInv`: in every reachable state of `Proto/BinX`
* the node a reader stands on (`rNode (some c)`) is inside the heap (nodes are never freed in the
  model; bin cells and `next` only ever point to allocated nodes — also while a transfer is copying
  nodes and re-linking the last run);
* the cells of the *new* table never hold the forwarding marker: following a forwarding marker takes
  a reader to a cell that is `empty` or a `node`, so there is exactly one forwarding hop.
Neither fact depends on what the other threads are doing. -/
namespace Flurry.Proto.BinX
open Flurry.Lin

/-- program counters of a reader: load the table pointer, load a bin cell (and follow the
forwarding marker into the new table), walk the list -/
def readerPc : Pc → Bool
  | .rTable | .rCell _ | .rNode _ => true
  | _ => false

structure RInv (s : State) : Prop where
  bound : ∀ (t : Nat) (l : Local) (c : Nat), s.threads[t]? = some l → l.pc = .rNode (some c) → c < s.heap.length
  lowNM : s.lowCell ≠ .moved
  highNM : s.highCell ≠ .moved

theorem rinv_step {s s' : State} {t : Nat} {l' : Local} (R : RInv s)
    (hthr : s'.threads = s.threads.set t l') (hlen : s.heap.length ≤ s'.heap.length)
    (hb : ∀ c, l'.pc = .rNode (some c) → c < s'.heap.length)
    (hL : s'.lowCell ≠ .moved) (hH : s'.highCell ≠ .moved) : RInv s' := by
  refine ⟨?_, hL, hH⟩
  intro t1 l1 c h1 hpc
  rw [hthr] at h1
  rcases get_set h1 with ⟨_, rfl⟩ | ⟨_, h1⟩
  · exact hb c hpc
  · exact Nat.lt_of_lt_of_le (R.bound t1 l1 c h1 hpc) hlen

/-- the thread-local effect of a transition: thread `t` gets a new local state, and if that is a
reader standing on a node, the node is inside the (old) heap -/
theorem stepK_threads {s s' : State} {g : Ghost} {t : Nat} {l : Local} (I : Inv s g) (R : RInv s)
    (hl : s.threads[t]? = some l) (hk : StepK s t l s') :
    ∃ l', s'.threads = s.threads.set t l' ∧ ∀ c, l'.pc = .rNode (some c) → c < s.heap.length := by
  cases hk with
  | idle hpc => exact ⟨l, rfl, fun c h => R.bound t l c hl h⟩
  | invoke k op hpc =>
    refine ⟨{ pc := if isReader op then .rTable else .wTable, call := some ⟨k, op, s.now + 1⟩ }, rfl, ?_⟩
    intro c h
    have h : (if isReader op then Pc.rTable else Pc.wTable) = .rNode (some c) := h
    rcases invoke_pc op with h' | h' <;> (rw [h'] at h; cases h)
  | resize hpc hr => exact ⟨{ l with pc := .tCell }, rfl, fun c h => by cases h⟩
  | move p pc' hp hm =>
    refine ⟨{ l with pc := pc' }, rfl, ?_⟩
    intro c h
    rcases hm.good (cur := some c) h with ⟨tab, h0, _, hcell, hc⟩ | ⟨c0, n, _, hn, _, hc⟩
    · cases hc
      rw [cellOf_eq] at hcell
      exact I.heap.headOK _ _ hcell
    · exact (I.heap.nextOK c0 n c hn hc.symm).2
  | tmove pc' hp hm =>
    refine ⟨{ l with pc := pc' }, rfl, ?_⟩
    intro c h
    have h : pc' = .rNode (some c) := h
    generalize l.pc = pc0 at hm
    cases hm <;> cases h
  | lockMove p h x pc' hp hm =>
    refine ⟨{ l with pc := pc' }, rfl, ?_⟩
    intro c h'
    exact absurd h' (hm.not_ext.2.2 _)
  | tlockMove h x pc' hp hm =>
    refine ⟨{ l with pc := pc' }, rfl, ?_⟩
    intro c h'
    have h' : pc' = .rNode (some c) := h'
    generalize l.pc = pc0 at hm
    cases hm <;> cases h'
  | fin p res hp hf => exact ⟨{ pc := .idle, call := none }, rfl, fun c h => by cases h⟩
  | cas p tab v vi hp hpc hc hop =>
    refine ⟨{ pc := .idle, call := none }, ?_, fun c h => by cases h⟩
    show (setCell _ tab p.key _).threads.set t _ = _
    rw [(setCell_frame _ _ _ _).2.1]; rfl
  | store p tab h pred hit hnext hp hpc =>
    obtain ⟨-, -, hthr, -⟩ := I.store_ok hl hp hpc
    refine ⟨{ l with pc := .wUnlock tab h (storeAt (tick s) tab p pred hit hnext).2 false }, ?_,
      fun c h => by cases h⟩
    show (storeAt (tick s) tab p pred hit hnext).1.threads.set t _ = _
    rw [hthr]; rfl
  | unlockFin p tab h res hp hpc => exact ⟨{ pc := .idle, call := none }, rfl, fun c h => by cases h⟩
  | casMoved hp hpc hc0 => exact ⟨{ l with pc := .tCommit }, rfl, fun c h => by cases h⟩
  | build h hp hpc => exact ⟨_, rfl, fun c h => by cases h⟩
  | storeLow h lo hg hp hpc => exact ⟨{ l with pc := .tStoreHigh h hg }, rfl, fun c h => by cases h⟩
  | storeHigh h hg hp hpc => exact ⟨{ l with pc := .tStoreMoved h }, rfl, fun c h => by cases h⟩
  | storeMoved h hp hpc => exact ⟨{ l with pc := .tUnlock h }, rfl, fun c h => by cases h⟩
  | commit hp hpc => exact ⟨{ l with pc := .idle }, rfl, fun c h => by cases h⟩

theorem stepK_rinv {s s' : State} {g : Ghost} {t : Nat} {l : Local} (I : Inv s g) (R : RInv s)
    (hl : s.threads[t]? = some l) (hk : StepK s t l s') : RInv s' := by
  obtain ⟨g', m, -⟩ := stepK_inv I hl hk
  have hlen := m.len_le I.heap
  obtain ⟨hL, hH⟩ := m.newCells I.heap ⟨R.lowNM, R.highNM⟩
  obtain ⟨l', hthr, hb⟩ := stepK_threads I R hl hk
  exact rinv_step R hthr hlen (fun c h => Nat.lt_of_lt_of_le (hb c h) hlen) hL hH

theorem init_rinv (n : Nat) : RInv (init n) := by
  refine ⟨?_, by simp [init], by simp [init]⟩
  intro t l c hl hpc
  rw [init_thread hl] at hpc
  cases hpc

theorem reachable_rinv {n : Nat} {s : State} (hr : Reachable n s) : RInv s := by
  induction hr with
  | init => exact init_rinv n
  | @step s s' t inv rz hr hs ih =>
    obtain ⟨g, I⟩ := reachable_inv hr
    cases hl : s.threads[t]? with
    | none => unfold step stepG at hs; rw [hl] at hs; cases hs
    | some l => exact stepK_rinv I ih hl (step_stepK hl hs)

end Flurry.Proto.BinX
