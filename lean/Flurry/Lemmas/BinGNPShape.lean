import Flurry.Lemmas.BinGNPInv
import Flurry.Lemmas.BinGNPre
/-! # Proto/BinGN (port): the generation-structure part of `XInv` holds in every reachable state

`XShape s` = all fields of `XInv s` except `plan`. It is obtained from the invariants proved directly on the
model (`BinGN.GenInv`, `BinGN.NextEmpty`, `BinGN.PreInv`: `Lemmas/BinGNGen*.lean`, `BinGNNext.lean`, `BinGNPre.lean`),
so the ported per-transition lemmas need not re-prove it: they may take `XShape s'` as a hypothesis. -/
namespace Flurry.Proto.BinGNP
open Flurry.Lin

structure XShape (s : State) : Prop where
  uniqX : ∀ (t t' : Nat) (l l' : Local), s.threads[t]? = some l → s.threads[t']? = some l' →
    xPc l.pc = true → xPc l'.pc = true → t = t'
  resz : ∀ (t : Nat) (l : Local), s.threads[t]? = some l → xPc l.pc = true → s.resizing = true
  len : s.tabs.length = s.cur + 1 + (if s.resizing then 1 else 0)
  rows : ∀ g row, s.tabs[g]? = some row → row.length = 2 ^ g
  old : ∀ g j, g < s.cur → j < 2 ^ g → cellAt s (g, j) = .moved
  newNotMoved : ∀ j, cellAt s (s.cur + 1, j) ≠ .moved
  noResz : s.resizing = false → ∀ j, cellAt s (s.cur, j) ≠ .moved
  idx : ∀ (t : Nat) (l : Local) (j : Nat), s.threads[t]? = some l → xIdx l.pc = some j → j < 2 ^ s.cur
  pre : ∀ (t : Nat) (l : Local) (j : Nat), s.threads[t]? = some l → xPre l.pc = true → xIdx l.pc = some j →
    cellAt s (s.cur, j) ≠ .moved
  post : ∀ (t : Nat) (l : Local), s.threads[t]? = some l → l.pc = .xCommit → ∀ j, j < 2 ^ s.cur →
    cellAt s (s.cur, j) = .moved
  nextEmpty : ∀ j', cellAt s (s.cur + 1, j') ≠ .empty → cellAt s (s.cur, j' % 2 ^ s.cur) = .moved ∨ StoredW s j'
  tabNew : ∀ (t : Nat) (l : Local) (g : Nat), s.threads[t]? = some l → tabOf l.pc = some g →
    g ≤ s.cur + 1 ∧ (g = s.cur + 1 → cellAt s (idOf s.cur (keyOf l)) = .moved)

theorem XInv.shape {s : State} (X : XInv s) : XShape s :=
  ⟨X.uniqX, X.resz, X.len, X.rows, X.old, X.newNotMoved, X.noResz, X.idx, X.pre, X.post, X.nextEmpty, X.tabNew⟩

theorem XShape.xinv {s : State} (X : XShape s) (hplan : ∀ (t : Nat) (l : Local), s.threads[t]? = some l → XPc s l.pc) :
    XInv s :=
  ⟨X.uniqX, X.resz, X.len, X.rows, X.old, X.newNotMoved, X.noResz, X.idx, X.pre, X.post, X.nextEmpty, X.tabNew, hplan⟩

theorem xPc_isX (c : Nat) (l : Local) : xPc l.pc = (Flurry.Proto.BinGN.desc c l).isX := by
  obtain ⟨pc, call⟩ := l; cases pc <;> rfl

theorem xIdx_idx {c : Nat} {l : Local} {j : Nat} (h : xIdx l.pc = some j) : (Flurry.Proto.BinGN.desc c l).idx = some j := by
  obtain ⟨pc, call⟩ := l
  cases pc <;> simp [xIdx] at h <;> simp [Flurry.Proto.BinGN.desc, Flurry.Proto.BinGN.descPc, h]

theorem xPre_preIdx {l : Local} {j : Nat} (hp : xPre l.pc = true) (h : xIdx l.pc = some j) :
    Flurry.Proto.BinGN.preIdx l.pc = some j := by
  obtain ⟨pc, call⟩ := l
  cases pc <;> simp [xPre] at hp <;> simp [xIdx] at h <;> simp [Flurry.Proto.BinGN.preIdx, h]

theorem lowStored_eq (pc : Pc) : lowStored pc = Flurry.Proto.BinGN.storedLow pc := by cases pc <;> rfl
theorem highStored_eq (pc : Pc) : highStored pc = Flurry.Proto.BinGN.storedHigh pc := by cases pc <;> rfl

theorem tabOf_gen {c : Nat} {l : Local} {g : Nat} (h : tabOf l.pc = some g) :
    (Flurry.Proto.BinGN.desc c l).gen = some (g, keyOf l) := by
  obtain ⟨pc, call⟩ := l
  cases pc <;> simp [tabOf] at h <;> cases call <;>
    simp [Flurry.Proto.BinGN.desc, Flurry.Proto.BinGN.descPc, Flurry.Proto.BinGN.keyOf, keyOf, h]

theorem xshape_of {s : State} (I : Flurry.Proto.BinGN.GenInv s) (N : Flurry.Proto.BinGN.NextEmpty s)
    (P : Flurry.Proto.BinGN.PreInv s) : XShape s := by
  refine ⟨?_, ?_, I.len, I.rows, I.old, I.nextOK, ?_, ?_, ?_, ?_, ?_, ?_⟩
  · intro t t' l l' h h' hx hx'
    exact I.uniqX t t' l l' h h' (by rw [← xPc_isX]; exact hx) (by rw [← xPc_isX]; exact hx')
  · intro t l h hx
    exact (I.thr t l h).tres (by rw [← xPc_isX]; exact hx)
  · intro hr j hm
    have := I.curMoved j hm
    rw [hr] at this; cases this
  · intro t l j h hx
    exact (I.thr t l h).idx j (xIdx_idx hx)
  · intro t l j h hp hx
    exact P t l j h (xPre_preIdx hp hx)
  · intro t l h hc
    obtain ⟨pc, call⟩ := l
    simp only at hc; subst hc
    exact (I.thr t _ h).commit rfl
  · intro j' hne
    rcases N j' hne with h | ⟨t, l, hl, hw⟩
    · exact Or.inl h
    · refine Or.inr ⟨t, l, hl, ?_⟩
      rcases hw with hw | ⟨j, hw, hj⟩
      · exact Or.inl (by rw [lowStored_eq]; exact hw)
      · exact Or.inr ⟨j, by rw [highStored_eq]; exact hw, hj⟩
  · intro t l g h hg
    exact (I.thr t l h).gen g (keyOf l) (tabOf_gen hg)

/-- the generation-structure part of `XInv` in every reachable state -/
theorem reachable_xshape {n : Nat} {s : State} (hr : Reachable n s) : XShape s :=
  xshape_of (Flurry.Proto.BinGN.reachable_geninv hr) (Flurry.Proto.BinGN.reachable_nextEmpty hr).2
    (Flurry.Proto.BinGN.reachable_preInv hr)

end Flurry.Proto.BinGNP
