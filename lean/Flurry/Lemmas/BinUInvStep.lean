import Flurry.Lemmas.BinUInv
/-! # Proto/BinU: every transition preserves the structural invariant (C01, tree bins) -/
namespace Flurry.Proto.BinU
open Flurry.Lin

set_option linter.unusedSimpArgs false in
/-- what a `Move` does to the synchronisation words, in the form `linv_step` wants -/
theorem Move.sync_ok {s : State} {t : Nat} {p : Pending} {pc pc' : Pc} {m : Option Nat} {w a : Bool} {r : Nat}
    (hm : Move s t p pc pc' m w a r)
    (e1 : crit pc = true ↔ s.mutex = some t)
    (e2 : s.mutex = some t → s.writer = wr pc ∧ (s.waiter = true → isLoop pc = true))
    (e3 : s.mutex = none → s.writer = false ∧ s.waiter = false)
    (e4 : s.writer = true → s.readers = 0)
    (e5 : holdsRead pc = true → 1 ≤ s.readers) :
    (crit pc' = true ↔ m = some t) ∧ (∀ h, h ≠ t → (m = some h ↔ s.mutex = some h)) ∧
    (m = some t → w = wr pc' ∧ (a = true → isLoop pc' = true)) ∧
    (m = none → w = false ∧ a = false) ∧
    (∀ h, h ≠ t → m = some h → w = s.writer ∧ a = s.waiter) ∧
    (r + (if holdsRead pc then 1 else 0) = s.readers + (if holdsRead pc' then 1 else 0)) ∧
    (w = true → r = 0) ∧ readerPc pc' = readerPc pc ∧ pc' ≠ .idle := by
  cases hm
  case lrTryOk k res h1 h2 h3 =>
    cases k <;> simp_all [crit, wr, isLoop, holdsRead, readerPc, afterLock] <;>
      (intro h hne e; exact hne e.symm)
  case lrLoopOk k res h1 h2 =>
    cases k <;> simp_all [crit, wr, isLoop, holdsRead, readerPc, afterLock] <;>
      (intro h hne e; exact hne e.symm)
  all_goals
    simp_all [crit, wr, isLoop, holdsRead, readerPc, afterLock] <;>
      try (intro h hne e; exact hne e.symm)

set_option linter.unusedSimpArgs false in
theorem Fin.sync_ok {s : State} {t : Nat} {p : Pending} {pc : Pc} {res : KRes} {m : Option Nat} {r : Nat}
    (hf : Fin s p pc res m r)
    (e1 : crit pc = true ↔ s.mutex = some t)
    (e2 : s.mutex = some t → s.writer = wr pc ∧ (s.waiter = true → isLoop pc = true))
    (e3 : s.mutex = none → s.writer = false ∧ s.waiter = false)
    (e4 : s.writer = true → s.readers = 0)
    (e5 : holdsRead pc = true → 1 ≤ s.readers) :
    m ≠ some t ∧ (∀ h, h ≠ t → (m = some h ↔ s.mutex = some h)) ∧
    (m = none → s.writer = false ∧ s.waiter = false) ∧
    (r + (if holdsRead pc then 1 else 0) = s.readers) ∧
    (s.writer = true → r = 0) := by
  cases hf
  all_goals
    simp_all [crit, wr, isLoop, holdsRead, readerPc] <;>
      try (intro h hne e; exact hne e.symm)

/-- the source of a `Move` is not one of the two program counters at which list and tree differ -/
theorem Move.src_ne {s : State} {t : Nat} {p : Pending} {pc pc' : Pc} {m : Option Nat} {w a : Bool} {r : Nat}
    (hm : Move s t p pc pc' m w a r) :
    (∀ j res, pc ≠ .wRestructure (some j) res) ∧ (∀ j, pc ≠ .wTreeLinkLocked j) := by
  cases hm <;> exact ⟨by intro j res; simp, by intro j; simp⟩

theorem Move.dst_ne {s : State} {t : Nat} {p : Pending} {pc pc' : Pc} {m : Option Nat} {w a : Bool} {r : Nat}
    (hm : Move s t p pc pc' m w a r) :
    (∀ j res, pc' ≠ .wRestructure (some j) res) ∧ (∀ j, pc' ≠ .wTreeLinkLocked j) := by
  cases hm
  case lrTryOk k res _ _ _ => cases k <;> exact ⟨by intro j res; simp [afterLock], by intro j; simp [afterLock]⟩
  case lrLoopOk k res _ _ => cases k <;> exact ⟨by intro j res; simp [afterLock], by intro j; simp [afterLock]⟩
  all_goals exact ⟨by intro j res; simp, by intro j; simp⟩

theorem Fin.src_ne {s : State} {p : Pending} {pc : Pc} {res : KRes} {m : Option Nat} {r : Nat}
    (hf : Fin s p pc res m r) :
    (∀ j res, pc ≠ .wRestructure (some j) res) ∧ (∀ j, pc ≠ .wTreeLinkLocked j) := by
  cases hf <;> exact ⟨by intro j res; simp, by intro j; simp⟩

/-- the new program counter of a `Move` knows what it has to know -/
theorem Move.pcInv {s : State} {t : Nat} {p : Pending} {l : Local} {pc' : Pc} {m : Option Nat} {w a : Bool} {r : Nat}
    (hm : Move s t p l.pc pc' m w a r) (I : Inv s) (hl : s.threads[t]? = some l) (hp : l.call = some p) :
    PcInv s p pc' := by
  have h0 := I.data.pcInv t l p hl hp
  obtain ⟨pc, call⟩ := l
  simp only at hm h0 hp
  cases hm with
  | rFirst =>
    cases hf : s.first with
    | none => simp only [PcInv]
    | some h => simp only [PcInv]; exact I.heap.firstOK h hf
  | rLinMode hb => simp only [PcInv] at h0 ⊢; exact h0
  | rTreeMode hb => simp only [PcInv] at h0 ⊢; exact h0
  | @rLinNext c n hn hk =>
    cases hnx : n.next with
    | none => simp only [PcInv]
    | some b =>
      simp only [PcInv]
      have h1 := I.heap.nextOK c n b hn hnx
      have h2 := (List.getElem?_eq_some_iff.1 hn).1
      omega
  | rLinHit _ _ hop => simp only [PcInv]; exact hop
  | rCasOk _ _ _ => simp only [PcInv]
  | rCasFail => simp only [PcInv] at h0 ⊢; exact h0
  | rTree => simp only [PcInv]
  | rRelVal hop => simp only [PcInv]; exact hop
  | lFirst =>
    cases hf : s.first with
    | none => simp only [PcInv]
    | some h => simp only [PcInv]; exact I.heap.firstOK h hf
  | @lNext c n hn hk =>
    cases hnx : n.next with
    | none => simp only [PcInv]
    | some b =>
      simp only [PcInv]
      have h1 := I.heap.nextOK c n b hn hnx
      have h2 := (List.getElem?_eq_some_iff.1 hn).1
      omega
  | lHit _ _ hop => simp only [PcInv]; exact hop
  | wMutex _ => simp only [PcInv]
  | @findVal i v res hf hspec =>
    obtain ⟨hi, hin, hk⟩ := treeFind_some hf
    have hsets := I.sets_eq_of_crit hl (by rfl) (by intro j res; simp) (by intro j; simp)
    simp only [PcInv]
    exact ⟨hsets.1 i hi hin, hk, hspec⟩
  | findInsert hf => simp only [PcInv]; exact treeFind_none hf
  | @findRemove i res hf hspec =>
    obtain ⟨hi, hin, hk⟩ := treeFind_some hf
    have hsets := I.sets_eq_of_crit hl (by rfl) (by intro j res; simp) (by intro j; simp)
    simp only [PcInv, RemOK]
    exact ⟨hsets.1 i hi hin, hin, hk, hspec⟩
  | findDone _ => simp only [PcInv]
  | @lrTryOk k res _ _ _ =>
    cases k with
    | rebalance => simp only [afterLock, PcInv]
    | insert => simp only [afterLock, PcInv] at h0 ⊢; exact h0
    | remove i => simp only [afterLock, PcInv, if_true] at h0 ⊢; exact h0
  | @lrTryFail k res =>
    cases k with
    | rebalance => simp only [PcInv]
    | insert => simp only [PcInv] at h0 ⊢; exact h0
    | remove i => simp only [PcInv] at h0 ⊢; exact h0
  | @lrLoopOk k res _ _ =>
    cases k with
    | rebalance => simp only [afterLock, PcInv]
    | insert => simp only [afterLock, PcInv] at h0 ⊢; exact h0
    | remove i => simp only [afterLock, PcInv, if_true] at h0 ⊢; exact h0
  | lrLoopWait _ => exact h0
  | restructNone => simp only [PcInv]
  | unlockRoot => simp only [PcInv]

theorem Move.src_not_idle {s : State} {t : Nat} {p : Pending} {pc pc' : Pc} {m : Option Nat} {w a : Bool} {r : Nat}
    (hm : Move s t p pc pc' m w a r) : pc ≠ .idle := by
  cases hm <;> simp

theorem crit_facts {pc : Pc} (h : crit pc = true) :
    readerPc pc = false ∧ pc ≠ .idle ∧ holdsRead pc = false := by
  cases pc <;> simp [crit] at h <;> simp [readerPc, holdsRead]

/-- steps that leave heap and `first` alone preserve `WInv` -/
theorem winv_frame {s s' : State} {t : Nat} {l l' : Local} (I : Inv s) (hl : s.threads[t]? = some l)
    (hh : s'.heap = s.heap) (hd : s'.first = s.first) (hthr : s'.threads = s.threads.set t l')
    (hsrc : (∀ j res, l.pc ≠ .wRestructure (some j) res) ∧ (∀ j, l.pc ≠ .wTreeLinkLocked j))
    (hnew : ∀ p, l'.call = some p → PcInv s p l'.pc) : WInv s' := by
  have hc := chain_congr hh hd
  refine ⟨?_, ?_, ?_⟩
  · intro t1 l1 p1 h1 hc1
    rw [hthr] at h1
    rcases get_set h1 with ⟨rfl, rfl⟩ | ⟨_, h1⟩
    · exact (hnew p1 hc1).congr hh hd
    · exact (I.data.pcInv t1 l1 p1 h1 hc1).congr hh hd
  · intro j hj hin hnc
    rw [hh] at hj hin
    rw [hc] at hnc
    obtain ⟨t0, l0, res, h0, hpc0⟩ := I.data.treeSub j hj hin hnc
    by_cases ht : t0 = t
    · subst ht
      rw [hl] at h0; cases h0
      exact absurd hpc0 (hsrc.1 j res)
    · exact ⟨t0, l0, res, by rw [hthr, get_set_ne ht]; exact h0, hpc0⟩
  · intro j hj hin
    rw [hc] at hj
    rw [hh] at hin
    obtain ⟨t0, l0, h0, hpc0⟩ := I.data.chainSub j hj hin
    by_cases ht : t0 = t
    · subst ht
      rw [hl] at h0; cases h0
      exact absurd hpc0 (hsrc.2 j)
    · exact ⟨t0, l0, by rw [hthr, get_set_ne ht]; exact h0, hpc0⟩

/-- what the readers know survives a store of the mutex holder -/
theorem pcInv_noncrit {s s' : State} {p : Pending} {pc : Pc} (hnc : crit pc = false) (h : PcInv s p pc)
    (hlen : s.heap.length ≤ s'.heap.length) : PcInv s' p pc := by
  cases pc <;> simp [crit] at hnc <;> simp only [PcInv] at h ⊢
  case rState cur =>
    cases cur with
    | none => trivial
    | some c => exact Nat.lt_of_lt_of_le h hlen
  case rLin c => omega
  case rCas c r => omega
  case rVal i => exact h
  case lNode cur =>
    cases cur with
    | none => trivial
    | some c => exact Nat.lt_of_lt_of_le h hlen

/-- a store of the mutex holder (synchronisation words untouched) -/
theorem inv_holder_step {s s' : State} {t : Nat} {l l' : Local} {p : Pending} (I : Inv s)
    (hl : s.threads[t]? = some l) (hp : l.call = some p)
    (hc : crit l.pc = true) (hc' : crit l'.pc = true) (hwr : wr l'.pc = wr l.pc)
    (hloop : isLoop l'.pc = false) (hloop0 : isLoop l.pc = false) (hcall : l'.call = l.call)
    (hmx : s'.mutex = s.mutex) (hw : s'.writer = s.writer) (ha : s'.waiter = s.waiter) (hr : s'.readers = s.readers)
    (hthr : s'.threads = s.threads.set t l') (hnow : s'.now = s.now + 1) (hhist : s'.hist = s.hist)
    (H' : HInv s') (hlen : s.heap.length ≤ s'.heap.length)
    (hself : PcInv s' p l'.pc)
    (htree : ∀ j, j < s'.heap.length → (nodeAt s'.heap j).inTree = true → j ∉ chain s' →
      ∃ res, l'.pc = .wRestructure (some j) res)
    (hchain : ∀ j ∈ chain s', (nodeAt s'.heap j).inTree = false → l'.pc = .wTreeLinkLocked j) : Inv s' := by
  have hm : s.mutex = some t := (I.lock.mx t l hl).1 hc
  obtain ⟨b1, b2⟩ := I.lock.bitsSome t l hl hm
  have hself' : s'.threads[t]? = some l' := by rw [hthr]; exact get_set_self hl
  refine ⟨H', ?_, ?_, ?_, ?_, ?_⟩
  · refine tinv_keep I.thr hl hthr hnow hhist hcall ?_
    intro p1 hp1 _
    have := I.thr.opOK t l p1 hl hp1 (crit_facts hc).2.1
    rw [this, (crit_facts hc).1, (crit_facts hc').1]
  · refine linv_step I.lock hl hthr ?_ ?_ ?_ ?_ ?_ ?_ ?_
    · rw [hmx, hm, hc']; simp
    · intro h _; rw [hmx]
    · intro _
      rw [hw, ha, hwr]
      refine ⟨b1, fun h => ?_⟩
      have := b2 h
      rw [hloop0] at this; cases this
    · intro h; rw [hmx, hm] at h; cases h
    · intro h hne hh; rw [hmx, hm] at hh; cases hh; exact absurd rfl hne
    · rw [hr, (crit_facts hc).2.2, (crit_facts hc').2.2]
    · rw [hw, hr]; exact I.lock.wrd
  · intro t1 l1 p1 h1 hc1
    rw [hthr] at h1
    rcases get_set h1 with ⟨rfl, rfl⟩ | ⟨hne, h1⟩
    · rw [hcall, hp] at hc1; cases hc1
      exact hself
    · have hnc : crit l1.pc = false := by
        cases hcr : crit l1.pc with
        | false => rfl
        | true => exact absurd (I.lock.crit_unique h1 hl hcr hc) hne
      exact pcInv_noncrit hnc (I.data.pcInv t1 l1 p1 h1 hc1) hlen
  · intro j hj hin hnc
    obtain ⟨res, hpc⟩ := htree j hj hin hnc
    exact ⟨t, l', res, hself', hpc⟩
  · intro j hj hin
    exact ⟨t, l', hself', hchain j hj hin⟩

theorem Inv.tree_sub_chain_of_crit {s : State} (I : Inv s) {t : Nat} {l : Local} (hl : s.threads[t]? = some l)
    (hc : crit l.pc = true) (h1 : ∀ j res, l.pc ≠ .wRestructure (some j) res) :
    ∀ j, j < s.heap.length → (nodeAt s.heap j).inTree = true → j ∈ chain s := by
  refine I.tree_sub_chain ?_
  intro t' l' j res hl' hpc
  have hc' : crit l'.pc = true := by rw [hpc]; rfl
  have := I.lock.crit_unique hl hl' hc hc'
  subst this
  rw [hl] at hl'; cases hl'
  exact h1 j res hpc

theorem Inv.chain_sub_tree_of_crit {s : State} (I : Inv s) {t : Nat} {l : Local} (hl : s.threads[t]? = some l)
    (hc : crit l.pc = true) (h2 : ∀ j, l.pc ≠ .wTreeLinkLocked j) :
    ∀ j ∈ chain s, (nodeAt s.heap j).inTree = true := by
  refine I.chain_sub_tree ?_
  intro t' l' j hl' hpc
  have hc' : crit l'.pc = true := by rw [hpc]; rfl
  have := I.lock.crit_unique hl hl' hc hc'
  subst this
  rw [hl] at hl'; cases hl'
  exact h2 j hpc

theorem unlinkOf_tick (s : State) (i : Nat) :
    (unlinkOf (tick s) i).heap = (unlinkOf s i).heap ∧ (unlinkOf (tick s) i).first = (unlinkOf s i).first ∧
    (unlinkOf (tick s) i).threads = s.threads ∧ (unlinkOf (tick s) i).hist = s.hist ∧
    (unlinkOf (tick s) i).now = s.now + 1 ∧ (unlinkOf (tick s) i).mutex = s.mutex ∧
    (unlinkOf (tick s) i).writer = s.writer ∧ (unlinkOf (tick s) i).waiter = s.waiter ∧
    (unlinkOf (tick s) i).readers = s.readers := by
  unfold unlinkOf
  have : chain (tick s) = chain s := rfl
  rw [this]
  cases predOf (chain s) i <;> exact ⟨rfl, rfl, rfl, rfl, rfl, rfl, rfl, rfl, rfl⟩

/-- **every transition preserves the structural invariant** -/
theorem stepK_inv {s s' : State} {t : Nat} {l : Local} (I : Inv s) (hl : s.threads[t]? = some l)
    (hk : StepK s t l s') : Inv s' := by
  have e1 := I.lock.mx t l hl
  have e2 := I.lock.bitsSome t l hl
  have e3 := I.lock.bitsNone
  have e4 := I.lock.wrd
  have e5 : holdsRead l.pc = true → 1 ≤ s.readers := I.lock.reader_pos hl
  cases hk with
  | idle hpc =>
    have hnc : crit l.pc = false := by rw [hpc]; rfl
    refine ⟨I.heap.congr rfl rfl, tinv_keep I.thr hl rfl rfl rfl rfl (fun p hp => I.thr.opOK t l p hl hp), ?_,
      winv_frame I hl rfl rfl rfl ⟨by rw [hpc]; intro j res; simp, by rw [hpc]; intro j; simp⟩
        (fun p hp => I.data.pcInv t l p hl hp)⟩
    refine linv_step I.lock hl (l' := l) rfl e1 (fun _ _ => Iff.rfl) e2 e3 (fun _ _ _ => ⟨rfl, rfl⟩) rfl e4
  | invoke k op lo hpc =>
    have hnm : s.mutex ≠ some t := by
      intro h; have := e1.2 h; rw [hpc] at this; cases this
    refine ⟨I.heap.congr rfl rfl, ?_, ?_, ?_⟩
    · refine tinv_invoke (l' := { pc := (if isReader op then (if lo then .lFirst else .rFirst) else .wMutex), call := some ⟨k, op, s.now + 1⟩ })
        I.thr hl rfl rfl rfl rfl ?_
      intro _
      cases isReader op <;> cases lo <;> simp [readerPc]
    · refine linv_step (l' := { pc := (if isReader op then (if lo then .lFirst else .rFirst) else .wMutex), call := some ⟨k, op, s.now + 1⟩ })
        I.lock hl rfl ?_ (fun _ _ => Iff.rfl) (fun h => absurd h hnm) e3 (fun _ _ _ => ⟨rfl, rfl⟩) ?_ e4
      · constructor
        · intro h; cases hr : isReader op <;> cases lo <;> simp [crit, hr] at h
        · intro h; exact absurd h hnm
      · show s.readers + _ = s.readers + _
        rw [hpc]
        cases isReader op <;> cases lo <;> simp [holdsRead]
    · refine winv_frame I hl rfl rfl rfl ⟨by rw [hpc]; intro j res; simp, by rw [hpc]; intro j; simp⟩ ?_
      intro p _
      show PcInv s p (if isReader op then (if lo then .lFirst else .rFirst) else .wMutex)
      cases isReader op <;> cases lo <;> simp [PcInv]
  | move p pc' m w a r hp hm =>
    obtain ⟨c1, c3, c4, c5, c6, c7, c8, hrp, hni⟩ := hm.sync_ok e1 e2 e3 e4 e5
    refine ⟨I.heap.congr rfl rfl, ?_, ?_, ?_⟩
    · refine tinv_keep (l' := { l with pc := pc' }) I.thr hl rfl rfl rfl rfl ?_
      intro p1 hp1 _
      show isReader p1.op = readerPc pc'
      rw [hrp]
      exact I.thr.opOK t l p1 hl hp1 hm.src_not_idle
    · exact linv_step (l' := { l with pc := pc' }) I.lock hl rfl c1 c3 c4 c5 c6 c7 c8
    · refine winv_frame (l' := { l with pc := pc' }) I hl rfl rfl rfl hm.src_ne ?_
      intro p1 hp1
      have : p1 = p := by
        have h : l.call = some p1 := hp1
        rw [hp] at h; exact (Option.some.inj h).symm
      subst this
      exact hm.pcInv I hl hp
  | fin p res m r hp hf =>
    obtain ⟨c1, c3, c5, c7, c8⟩ := hf.sync_ok (t := t) e1 e2 e3 e4 e5
    refine ⟨I.heap.congr rfl rfl, ?_, ?_, ?_⟩
    · exact tinv_finish (l' := { pc := .idle, call := none }) I.thr hl hp rfl rfl rfl rfl
    · refine linv_step (l' := { pc := .idle, call := none }) I.lock hl rfl ?_ c3 (fun h => absurd h c1) c5
        (fun _ _ _ => ⟨rfl, rfl⟩) ?_ c8
      · constructor
        · intro h; cases h
        · intro h; exact absurd h c1
      · show r + _ = s.readers + _
        simp only [holdsRead, Bool.false_eq_true, if_false, Nat.add_zero]
        exact c7
    · refine winv_frame (l' := { pc := .idle, call := none }) I hl rfl rfl rfl hf.src_ne ?_
      intro p1 hp1; cases hp1
  | val p i v res hp hpc =>
    have h0 := I.data.pcInv t l p hl hp
    rw [hpc] at h0
    simp only [PcInv] at h0
    obtain ⟨hi, hkey0, hspec⟩ := h0
    have hcr : crit l.pc = true := by rw [hpc]; rfl
    have hsub := I.tree_sub_chain_of_crit hl hcr (by rw [hpc]; intro j res; simp)
    have hsup := I.chain_sub_tree_of_crit hl hcr (by rw [hpc]; intro j; simp)
    obtain ⟨H', _, hc, hlen, hkey, hint, hval, _⟩ :=
      val_store (s' := setT (setNode (tick s) i (fun n => { n with val := v })) t { l with pc := .wUnlockM res })
        I.heap hi rfl rfl
    refine inv_holder_step (l' := { l with pc := .wUnlockM res }) I hl hp hcr rfl (by rw [hpc]; rfl) rfl
      (by rw [hpc]; rfl) rfl rfl rfl rfl rfl rfl rfl rfl H' (by omega) (by simp only [PcInv]) ?_ ?_
    · intro j hj hjin hnc
      rw [hint] at hjin; rw [hc] at hnc; rw [hlen] at hj
      exact absurd (hsub j hj hjin) hnc
    · intro j hj hjin
      rw [hint] at hjin; rw [hc] at hj
      rw [hsup j hj] at hjin; cases hjin
  | prepend p v vi hp hpc hop =>
    have h0 := I.data.pcInv t l p hl hp
    rw [hpc] at h0
    simp only [PcInv, FreshOK] at h0
    have hcr : crit l.pc = true := by rw [hpc]; rfl
    have hsub := I.tree_sub_chain_of_crit hl hcr (by rw [hpc]; intro j res; simp)
    have hsup := I.chain_sub_tree_of_crit hl hcr (by rw [hpc]; intro j; simp)
    have hfr : ∀ j, Alive s j → (nodeAt s.heap j).key ≠ p.key := by
      intro j hj
      rcases hj with hj | ⟨hj1, hj2⟩
      · exact h0 j (chain_lt I.heap hj) (hsup j hj)
      · exact h0 j hj1 hj2
    obtain ⟨H', _, hc, hlen, hold, hnew, _⟩ :=
      prepend_store (s' := setT (prependOf (tick s) ⟨p.key, (v, vi), s.first, false⟩) t
          { l with pc := .wTreeLinkLocked s.heap.length })
        (new := ⟨p.key, (v, vi), s.first, false⟩) I.heap rfl hfr rfl rfl
    · refine inv_holder_step (l' := { l with pc := .wTreeLinkLocked s.heap.length }) I hl hp hcr rfl
        (by rw [hpc]; rfl) rfl
        (by rw [hpc]; rfl) rfl rfl rfl rfl rfl rfl rfl rfl H' (by omega) ?_ ?_ ?_
      · simp only [PcInv, FreshOK]
        refine ⟨by rw [hc]; exact List.mem_cons_self, by rw [hnew], by rw [hnew], ?_⟩
        intro j hj hjin
        rw [hlen] at hj
        by_cases hjl : j < s.heap.length
        · rw [hold j hjl] at hjin ⊢
          exact h0 j hjl hjin
        · have : j = s.heap.length := by omega
          subst this
          rw [hnew] at hjin; cases hjin
      · intro j hj hjin hnc
        rw [hlen] at hj
        by_cases hjl : j < s.heap.length
        · rw [hold j hjl] at hjin
          exact absurd (by rw [hc]; exact List.mem_cons_of_mem _ (hsub j hjl hjin)) hnc
        · have : j = s.heap.length := by omega
          subst this
          rw [hnew] at hjin; cases hjin
      · intro j hj hjin
        rw [hc] at hj
        rcases List.mem_cons.1 hj with hj | hj
        · rw [hj]
        · rw [hold j (chain_lt I.heap hj), hsup j hj] at hjin; cases hjin
  | treeLink p x hp hpc =>
    have h0 := I.data.pcInv t l p hl hp
    rw [hpc] at h0
    simp only [PcInv] at h0
    obtain ⟨hx, hxin, hxk, hfresh⟩ := h0
    have hcr : crit l.pc = true := by rw [hpc]; rfl
    have hsub := I.tree_sub_chain_of_crit hl hcr (by rw [hpc]; intro j res; simp)
    obtain ⟨H', _, hc, hlen, hkey, hval, hint, _⟩ :=
      treeLink_store (s' := setT (setNode (tick s) x (fun n => { n with inTree := true })) t
          { l with pc := .wUnlockRoot .none })
        I.heap hx rfl rfl
    refine inv_holder_step (l' := { l with pc := .wUnlockRoot .none }) I hl hp hcr rfl
      (by rw [hpc]; rfl) rfl
      (by rw [hpc]; rfl) rfl rfl rfl rfl rfl rfl rfl rfl H' (by omega) (by simp only [PcInv]) ?_ ?_
    · intro j hj hjin hnc
      rw [hc] at hnc; rw [hlen] at hj
      rw [hint] at hjin
      split at hjin
      · rename_i hjx; exact absurd (hjx ▸ hx) hnc
      · exact absurd (hsub j hj hjin) hnc
    · intro j hj hjin
      rw [hc] at hj
      rw [hint] at hjin
      split at hjin
      · cases hjin
      · obtain ⟨t0, l0, h0, hpc0⟩ := I.data.chainSub j hj hjin
        have hc0 : crit l0.pc = true := by rw [hpc0]; rfl
        have := I.lock.crit_unique hl h0 hcr hc0
        subst this
        rw [hl] at h0; cases h0
        rw [hpc] at hpc0; cases hpc0
        rename_i hne; exact absurd rfl hne
  | unlink p i res hp hpc =>
    have h0 := I.data.pcInv t l p hl hp
    rw [hpc] at h0
    simp only [PcInv, RemOK] at h0
    obtain ⟨hi, hin, _, _⟩ := h0
    have hcr : crit l.pc = true := by rw [hpc]; rfl
    have hsub := I.tree_sub_chain_of_crit hl hcr (by rw [hpc]; intro j res; simp)
    have hsup := I.chain_sub_tree_of_crit hl hcr (by rw [hpc]; intro j; simp)
    obtain ⟨u1, u2, u3, u4, u5, u6, u7, u8, u9⟩ := unlinkOf_tick s i
    obtain ⟨H', _, hc, hlen, hold, _⟩ :=
      unlink_store (s' := setT (unlinkOf (tick s) i) t { l with pc := .wRestructure (some i) res })
        I.heap hi u1 u2
    refine inv_holder_step (l' := { l with pc := .wRestructure (some i) res }) I hl hp hcr rfl (by rw [hpc]; rfl) rfl
      (by rw [hpc]; rfl) rfl u6 u7 u8 u9 (by show (unlinkOf (tick s) i).threads.set t _ = _; rw [u3]) u5 u4
      H' (by omega) ?_ ?_ ?_
    · simp only [PcInv]
      refine ⟨fun h => ((hc i).1 h).2 rfl, by rw [(hold i).2.2]; exact hin, by rw [hlen]; exact chain_lt I.heap hi⟩
    · intro j hj hjin hnc
      rw [hlen] at hj
      rw [(hold j).2.2] at hjin
      have hjc := hsub j hj hjin
      by_cases hji : j = i
      · exact ⟨res, by rw [hji]⟩
      · exact absurd ((hc j).2 ⟨hjc, hji⟩) hnc
    · intro j hj hjin
      rw [(hold j).2.2, hsup j ((hc j).1 hj).1] at hjin; cases hjin
  | untree p i res hp hpc =>
    have h0 := I.data.pcInv t l p hl hp
    rw [hpc] at h0
    simp only [PcInv] at h0
    obtain ⟨hi, hin, hil⟩ := h0
    have hcr : crit l.pc = true := by rw [hpc]; rfl
    have hsup := I.chain_sub_tree_of_crit hl hcr (by rw [hpc]; intro j; simp)
    obtain ⟨H', _, hc, hlen, hkey, hval, hint, hself, _⟩ :=
      untree_store (s' := setT (setNode (tick s) i (fun n => { n with inTree := false })) t
          { l with pc := .wUnlockRoot res }) I.heap hi rfl rfl
    refine inv_holder_step (l' := { l with pc := .wUnlockRoot res }) I hl hp hcr rfl (by rw [hpc]; rfl) rfl
      (by rw [hpc]; rfl) rfl rfl rfl rfl rfl rfl rfl rfl H' (by omega) (by simp only [PcInv]) ?_ ?_
    · intro j hj hjin hnc
      rw [hc] at hnc; rw [hlen] at hj
      by_cases hji : j = i
      · subst hji; rw [hself hil] at hjin; cases hjin
      · rw [hint j hji] at hjin
        obtain ⟨t0, l0, res0, h0, hpc0⟩ := I.data.treeSub j hj hjin hnc
        have hc0 : crit l0.pc = true := by rw [hpc0]; rfl
        have := I.lock.crit_unique hl h0 hcr hc0
        subst this
        rw [hl] at h0; cases h0
        rw [hpc] at hpc0; cases hpc0
        exact absurd rfl hji
    · intro j hj hjin
      rw [hc] at hj
      have hji : j ≠ i := fun e => hi (e ▸ hj)
      rw [hint j hji, hsup j hj] at hjin; cases hjin
  | dead p s' hp hpc =>
    have h0 := I.data.pcInv t l p hl hp
    obtain ⟨pc, call⟩ := l
    simp only at hpc h0
    cases pc <;> simp [deadPc] at hpc <;> exact absurd h0 (by simp [PcInv])

theorem init_threads {n t : Nat} {l : Local} (h : (init n).threads[t]? = some l) : l = {} := by
  simp only [init, List.getElem?_replicate] at h
  split at h
  · cases h; rfl
  · cases h

theorem init_inv (n : Nat) : Inv (init n) := by
  have hchain : chain (init n) = [] := by simp [chain, init, chainFrom]
  refine ⟨⟨?_, ?_, ?_⟩, ⟨?_, ?_, ?_, ?_, ?_, ?_⟩, ⟨?_, ?_, ?_, ?_, ?_, ?_⟩, ⟨?_, ?_, ?_⟩⟩
  · intro i n' j h; simp [init] at h
  · intro h hh; simp [init] at hh
  · intro i j hi
    rcases hi with hi | ⟨hi, _⟩
    · rw [hchain] at hi; cases hi
    · simp [init] at hi
  · intro t l p hl hc; rw [init_threads hl] at hc; cases hc
  · intro x hx; simp [init] at hx
  · intro t l p hl hc; rw [init_threads hl] at hc; cases hc
  · intro x hx; simp [init] at hx
  · intro t t' l l' p p' hl _ hc; rw [init_threads hl] at hc; cases hc
  · simp [init]
  · intro t l hl
    rw [init_threads hl]
    constructor
    · intro h; cases h
    · intro h; simp [init] at h
  · intro h hm; simp [init] at hm
  · intro _; exact ⟨rfl, rfl⟩
  · intro t l hl hm; simp [init] at hm
  · show 0 = cnt holdsRead (List.replicate n {})
    rw [cnt_replicate_idle holdsRead rfl]
  · intro h; cases h
  · intro t l p hl hc; rw [init_threads hl] at hc; cases hc
  · intro j hj; simp [init] at hj
  · intro j hj; rw [hchain] at hj; cases hj

theorem step_inv {s s' : State} {t : Nat} {inv : Option (Nat × KOp)} {bal lo : Bool} (I : Inv s)
    (hs : step s t inv bal lo = some s') : Inv s' := by
  cases hl : s.threads[t]? with
  | none => unfold step stepG at hs; rw [hl] at hs; cases hs
  | some l => exact stepK_inv I hl (step_stepK hl hs)

theorem reachable_inv {n : Nat} {s : State} (hr : Reachable n s) : Inv s := by
  induction hr with
  | init => exact init_inv n
  | step t inv bal lo _ hs ih => exact step_inv ih hs

end Flurry.Proto.BinU
