import Flurry.Lemmas.Lin
/-! # A counter that starts absent: one `ins`, then concurrent increments (C08)

`spec_cipInc_counts` (`LinPoints.lean`) counts increments on a key that is present from the start.
The concurrent models (`Proto/BinG`, `Proto/TableK`, `Proto/TableG`) start from the EMPTY map, so the
counter has to be created by a call of the history itself. This file treats that shape for an
arbitrary linearizable history:

* `CounterShape h v vi`: call `i` of `h` is `ins v vi`, every other call is a
  `compute_if_present(|x| x + 1)` that reported a value (it found the key);
* `replay_cipInc_on`: along a replay from a present key, if every index of the order is an increment
  the payload grows by the length of the order;
* `replay_none_head`: from the absent key, a non-empty order replays only if it starts with the `ins`
  (an increment on an absent key answers `.none`, which contradicts its recorded result);
* **`counter_from_insert`**: every linearizable history of that shape ends with payload
  `v + (h.length - 1)` — whatever the interleaving, no increment is lost, none is applied twice;
* `increments_counted`: without any assumption on results, the payload is `v +` the number of calls
  linearized after the insert (the increments before it found nothing). -/
namespace Flurry.Lin

/-- call `i` is `ins v vi`; every other call is an increment that found the key -/
def CounterShape (h : History) (v vi : Nat) : Prop :=
  ∃ i, i < h.length ∧ (h[i]?.map (·.op)) = some (.ins v vi) ∧
    ∀ j, j < h.length → j ≠ i → ∃ c nvi, h[j]? = some c ∧ c.op = .cipInc nvi ∧ c.res ≠ .none

/-- along a replay from a present key: if every index of the order is an increment, the payload
grows by the length of the order -/
theorem replay_cipInc_on {h : History} :
    ∀ (order : List Nat) (v vi : Nat) (fin : KSt),
      (∀ j ∈ order, ∃ c n, h[j]? = some c ∧ c.op = .cipInc n) →
      replay h order (some (v, vi)) = some fin → ∃ vi', fin = some (v + order.length, vi')
  | [], v, vi, fin, _, hr => by
    simp only [replay, Option.some.injEq] at hr
    exact ⟨vi, by simp [← hr]⟩
  | i :: rest, v, vi, fin, hall, hr => by
    obtain ⟨c, hc, _, hr'⟩ := replay_cons_eq_some hr
    obtain ⟨c', n, hc', hn⟩ := hall i (List.mem_cons_self ..)
    rw [hc] at hc'; cases hc'
    rw [hn] at hr'
    obtain ⟨vi', hfin⟩ := replay_cipInc_on rest (v + 1) n fin
      (fun j hj => hall j (List.mem_cons_of_mem _ hj)) hr'
    exact ⟨vi', by rw [hfin, List.length_cons]; congr 2; omega⟩

/-- along a replay from the absent key: increments do nothing (and answer `.none`) -/
theorem replay_cipInc_absent {h : History} :
    ∀ (order : List Nat) (fin : KSt),
      (∀ j ∈ order, ∃ c n, h[j]? = some c ∧ c.op = .cipInc n) →
      replay h order none = some fin → fin = none
  | [], fin, _, hr => by
    simp only [replay, Option.some.injEq] at hr
    exact hr.symm
  | i :: rest, fin, hall, hr => by
    obtain ⟨c, hc, _, hr'⟩ := replay_cons_eq_some hr
    obtain ⟨c', n, hc', hn⟩ := hall i (List.mem_cons_self ..)
    rw [hc] at hc'; cases hc'
    rw [hn] at hr'
    exact replay_cipInc_absent rest fin (fun j hj => hall j (List.mem_cons_of_mem _ hj)) hr'

/-- from the absent key a successful replay cannot start with an increment that reported a value -/
theorem replay_none_head {h : History} {j : Nat} {rest : List Nat} {fin : KSt} {c : Call} {nvi : Nat}
    (hc : h[j]? = some c) (hop : c.op = .cipInc nvi) (hres : c.res ≠ .none) :
    replay h (j :: rest) none ≠ some fin := by
  intro hr
  obtain ⟨c', hc', hres', _⟩ := replay_cons_eq_some hr
  rw [hc] at hc'; cases hc'
  rw [hop] at hres'
  exact hres hres'.symm

/-- **no lost update, from the empty map**: a linearizable history that consists of one `ins v vi` and
otherwise only `compute_if_present(|x| x + 1)` calls that all reported a value ends — whatever the
interleaving was — with payload `v +` the number of increments -/
theorem counter_from_insert {h : History} {fin : KSt} {v vi : Nat}
    (hl : Linearizable h none fin)
    (hshape : ∃ i, i < h.length ∧ (h[i]?.map (·.op)) = some (.ins v vi) ∧
      ∀ j, j < h.length → j ≠ i → ∃ c nvi, h[j]? = some c ∧ c.op = .cipInc nvi ∧ c.res ≠ .none) :
    ∃ vi', fin = some (v + (h.length - 1), vi') := by
  obtain ⟨order, hperm, _, hrep⟩ := hl
  obtain ⟨i, hi, hins, hinc⟩ := hshape
  have hlen : order.length = h.length := by simpa using hperm.length_eq
  have hnd : order.Nodup := hperm.nodup_iff.2 List.nodup_range
  have hlt : ∀ j ∈ order, j < h.length := fun j hj => List.mem_range.1 (hperm.subset hj)
  cases order with
  | nil => simp at hlen; omega
  | cons j rest =>
    have hj : j = i := by
      apply Classical.byContradiction
      intro hne
      obtain ⟨c, nvi, hc, hop, hres⟩ := hinc j (hlt j (List.mem_cons_self ..)) hne
      exact replay_none_head hc hop hres hrep
    subst hj
    obtain ⟨c, hc, _, hr'⟩ := replay_cons_eq_some hrep
    have hop : c.op = .ins v vi := by simpa [hc] using hins
    rw [hop] at hr'
    have hnot : j ∉ rest := (List.nodup_cons.1 hnd).1
    obtain ⟨vi', hfin⟩ := replay_cipInc_on rest v vi fin (by
      intro q hq
      have hne : q ≠ j := fun he => hnot (he ▸ hq)
      obtain ⟨c, nvi, hc, hop, _⟩ := hinc q (hlt q (List.mem_cons_of_mem _ hq)) hne
      exact ⟨c, nvi, hc, hop⟩) hr'
    refine ⟨vi', ?_⟩
    rw [hfin]
    simp only [List.length_cons] at hlen
    congr 2; omega

/-- the same with the shape as a predicate -/
theorem counter_of_shape {h : History} {fin : KSt} {v vi : Nat}
    (hl : Linearizable h none fin) (hshape : CounterShape h v vi) :
    ∃ vi', fin = some (v + (h.length - 1), vi') := counter_from_insert hl hshape

/-- nothing assumed about results: one `ins v vi`, otherwise increments. Some witness order splits at
the insert; the increments linearized before it found nothing, every one linearized after it counted:
the payload is `v +` the number of calls after the insert. -/
theorem increments_counted {h : History} {fin : KSt} {v vi : Nat}
    (hl : Linearizable h none fin)
    (hshape : ∃ i, i < h.length ∧ (h[i]?.map (·.op)) = some (.ins v vi) ∧
      ∀ j, j < h.length → j ≠ i → ∃ c nvi, h[j]? = some c ∧ c.op = .cipInc nvi) :
    ∃ m vi', m ≤ h.length - 1 ∧ fin = some (v + m, vi') := by
  obtain ⟨order, hperm, _, hrep⟩ := hl
  obtain ⟨i, hi, hins, hinc⟩ := hshape
  have hlen : order.length = h.length := by simpa using hperm.length_eq
  have hnd : order.Nodup := hperm.nodup_iff.2 List.nodup_range
  have hlt : ∀ j ∈ order, j < h.length := fun j hj => List.mem_range.1 (hperm.subset hj)
  have hmem : i ∈ order := hperm.symm.subset (List.mem_range.2 hi)
  obtain ⟨pre, post, hsplit⟩ := List.append_of_mem hmem
  subst hsplit
  have hnd' := hnd
  rw [List.nodup_append] at hnd'
  obtain ⟨_, hndp, hdisj⟩ := hnd'
  have hpre : ∀ q ∈ pre, ∃ c n, h[q]? = some c ∧ c.op = .cipInc n := by
    intro q hq
    have hne : q ≠ i := fun he => hdisj q hq i (List.mem_cons_self ..) he
    exact hinc q (hlt q (List.mem_append_left _ hq)) hne
  have hpost : ∀ q ∈ post, ∃ c n, h[q]? = some c ∧ c.op = .cipInc n := by
    intro q hq
    have hne : q ≠ i := fun he => (List.nodup_cons.1 hndp).1 (he ▸ hq)
    exact hinc q (hlt q (List.mem_append_right _ (List.mem_cons_of_mem _ hq))) hne
  rw [replay_append] at hrep
  cases hmid : replay h pre none with
  | none => simp [hmid] at hrep
  | some mid =>
    have hmid' := replay_cipInc_absent pre mid hpre hmid
    subst hmid'
    rw [hmid] at hrep
    simp only [Option.bind_some] at hrep
    obtain ⟨c, hc, _, hr'⟩ := replay_cons_eq_some hrep
    have hop : c.op = .ins v vi := by simpa [hc] using hins
    rw [hop] at hr'
    obtain ⟨vi', hfin⟩ := replay_cipInc_on post v vi fin hpost hr'
    refine ⟨post.length, vi', ?_, hfin⟩
    simp only [List.length_append, List.length_cons] at hlen
    omega

/-- executable check of `CounterShape` with the insert at index `i` -/
def counterShapeB (h : History) (v vi i : Nat) : Bool :=
  decide (i < h.length) && (h[i]?.map (·.op)) == some (.ins v vi) &&
    (List.range h.length).all fun j => j == i ||
      match h[j]? with
      | some c => (match c.op with | .cipInc _ => true | _ => false) && c.res != .none
      | none => false

theorem counterShape_of_check {h : History} {v vi i : Nat} (hc : counterShapeB h v vi i = true) :
    CounterShape h v vi := by
  simp only [counterShapeB, Bool.and_eq_true, decide_eq_true_eq, beq_iff_eq, List.all_eq_true,
    List.mem_range, Bool.or_eq_true] at hc
  obtain ⟨⟨hi, hins⟩, hall⟩ := hc
  refine ⟨i, hi, hins, ?_⟩
  intro j hj hne
  rcases hall j hj with he | hb
  · exact absurd he hne
  · cases hcj : h[j]? with
    | none => simp [hcj] at hb
    | some c =>
      simp only [hcj, Bool.and_eq_true, bne_iff_ne, ne_eq] at hb
      cases hop : c.op with
      | cipInc nvi => exact ⟨c, nvi, rfl, hop, hb.2⟩
      | _ => simp [hop] at hb

end Flurry.Lin
