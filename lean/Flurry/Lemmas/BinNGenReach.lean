import Flurry.Lemmas.BinNGenInv
/-! # Proto/BinN: every transition preserves the generation invariant -/
namespace Flurry.Proto.BinN
open Flurry.Lin
open Flurry.Proto.BinX (NodeS Cell Pending isReader dflt chainFrom cellHead cellOfHead get_set get_set_self get_set_ne
  cellOfHead_ne_moved)

theorem stepK_geninv {s s' : State} {t : Nat} {l : Local} {pick : Nat} (I : GenInv s)
    (hl : s.threads[t]? = some l) (hstep : StepK s t l pick s') : GenInv s' := by
  have T := I.thr t l hl
  have hsame := hlock_of_lockSame (t := t) I (LockSame.refl s.heap)
  cases hstep with
  | idle hpc =>
    exact geninv_same (l' := l) I hl rfl rfl rfl rfl hsame id (T.congr rfl rfl rfl T.held)
  | invoke k op hpc =>
    refine geninv_same I hl rfl rfl rfl rfl hsame ?_ (thrOK_invoke _ t op _)
    cases isReader op <;> exact fun h => h.elim
  | resize hpc hr =>
    have nT : ∀ (t1 : Nat) (l1 : Local), s.threads[t1]? = some l1 → ¬ isT l1.pc := by
      intro t1 l1 h1 hT
      have := (I.thr t1 l1 h1).tres hT
      rw [hr] at this; cases this
    have hc : ∀ g j, cellAt { (setT (tick s) t { l with pc := .tNext }) with
        resizing := true, tabs := s.tabs ++ [List.replicate (2 ^ (s.cur + 1)) .empty] } g j = cellAt s g j :=
      fun g j => cellT_alloc _ _ _ _
    refine ⟨?_, ?_, ?_, ?_, fun _ _ => rfl, ?_, ?_⟩
    · have := I.len
      rw [hr] at this
      show (s.tabs ++ _).length = s.cur + 1 + 1
      simp at this ⊢
      omega
    · intro g row h
      have hlen : s.tabs.length = s.cur + 1 := by have := I.len; rw [hr] at this; simpa using this
      change (s.tabs ++ [List.replicate (2 ^ (s.cur + 1)) Cell.empty])[g]? = some row at h
      by_cases hg : g < s.tabs.length
      · rw [List.getElem?_append_left hg] at h
        exact I.rows g row h
      · rw [List.getElem?_append_right (by omega)] at h
        by_cases h0 : g - s.tabs.length = 0
        · rw [h0] at h
          simp only [List.getElem?_cons_zero, Option.some.injEq] at h
          rw [← h, List.length_replicate]
          have : g = s.cur + 1 := by omega
          rw [this]
        · rw [List.getElem?_eq_none (by simp; omega)] at h; cases h
    · intro g j hg hj; rw [hc]; exact I.old g j hg hj
    · intro j; rw [hc]; exact I.nextOK j
    · intro t1 t2 l1 l2 h1 h2 hT1 hT2
      rcases get_set h1 with ⟨e1, f1⟩ | ⟨n1, h1⟩ <;> rcases get_set h2 with ⟨e2, f2⟩ | ⟨n2, h2⟩
      · rw [e1, e2]
      · exact absurd hT2 (nT _ _ h2)
      · exact absurd hT1 (nT _ _ h1)
      · exact absurd hT1 (nT _ _ h1)
    · intro t1 l1 h1
      rcases get_set h1 with ⟨rfl, rfl⟩ | ⟨n1, h1⟩
      · exact thrOK_t _ _ rfl trivial (fun j h => by cases h) (fun h => by cases h) (fun h hh => hh.elim)
          (fun g j h hv => by cases hc : l.call <;> rw [vcell, hc] at hv <;> cases hv)
      · have T1 := I.thr t1 l1 h1
        refine thrOK_w _ _ (nT _ _ h1) ?_ T1.held ?_
        · intro p g hp hg
          obtain ⟨a, b⟩ := T1.gen p g hp hg
          exact ⟨a, fun e => by show cellAt _ _ _ = _; rw [hc]; exact b e⟩
        · intro g j h hv
          rw [hc]; exact T1.valid g j h hv
  | move p pc' hp hm =>
    obtain ⟨pc, call⟩ := l
    simp only at hp hm
    subst hp
    refine geninv_same I hl rfl rfl rfl rfl hsame ?_ ((hm.thrOK I T).congr rfl rfl rfl (hm.thrOK I T).held)
    intro hT
    cases hm <;> exact hT.elim
  | tmove pc' hp hm =>
    obtain ⟨pc, call⟩ := l
    refine geninv_same I hl rfl rfl rfl rfl hsame ?_ ((hm.thrOK I T).congr rfl rfl rfl (hm.thrOK I T).held)
    intro _
    cases hm <;> trivial
  | lockMove p h x pc' hp hm =>
    obtain ⟨pc, call⟩ := l
    simp only at hp hm
    subst hp
    cases hm with
    | @lock g h n hn hfree =>
      have hh : h < s.heap.length := (List.getElem?_eq_some_iff.1 hn).1
      refine geninv_same I hl rfl rfl rfl rfl
        (hlock_of_modify I (Or.inl (by rw [lockAt_of_some hn]; exact hfree))) (fun h => h.elim) ?_
      refine thrOK_w _ _ (fun h => h) ?_ ?_ (fun g j h hv => by cases hv)
      · intro p' g' hp' hg'; cases hp'; cases hg'; exact T.gen p g rfl rfl
      · intro h' hh'
        cases hh'
        exact ⟨by show h < (s.heap.modify _ _).length; simpa using hh, lockAt_modify_self _ hh⟩
    | @unlockRetry g h res =>
      refine geninv_same I hl rfl rfl rfl rfl
        (hlock_of_modify I (Or.inr (T.held h rfl).2)) (fun h => h.elim) ?_
      refine thrOK_w _ _ (fun h => h) ?_ (fun h hh => hh.elim) (fun g j h hv => by cases hv)
      intro p' g' hp' hg'; cases hp'; cases hg'; exact T.gen p g rfl rfl
  | tlockMove h x pc' hp hm =>
    obtain ⟨pc, call⟩ := l
    have R : s.resizing = true := T.tres (by cases hm <;> trivial)
    cases hm with
    | @lock j h n hn hfree =>
      have hh : h < s.heap.length := (List.getElem?_eq_some_iff.1 hn).1
      refine geninv_same I hl rfl rfl rfl rfl
        (hlock_of_modify I (Or.inl (by rw [lockAt_of_some hn]; exact hfree))) (fun _ => trivial) ?_
      refine thrOK_t _ _ R trivial (fun j' hj' => by cases hj'; exact T.idx _ rfl) (fun h => by cases h) ?_
        (fun g j h hv => by cases call <;> cases hv)
      intro h' hh'
      cases hh'
      exact ⟨by show h < (s.heap.modify _ _).length; simpa using hh, lockAt_modify_self _ hh⟩
    | @checkFail j h hc =>
      refine geninv_same I hl rfl rfl rfl rfl
        (hlock_of_modify I (Or.inr (T.held h rfl).2)) (fun _ => trivial) ?_
      exact thrOK_t _ _ R trivial (fun j' hj' => by cases hj'; exact T.idx _ rfl) (fun h => by cases h)
        (fun h hh => hh.elim) (fun g j h hv => by cases call <;> cases hv)
    | @unlock j h =>
      refine geninv_same I hl rfl rfl rfl rfl
        (hlock_of_modify I (Or.inr (T.held h rfl).2)) (fun _ => trivial) ?_
      exact thrOK_t _ _ R trivial (fun j' hj' => by cases hj') (fun h => by cases h)
        (fun h hh => hh.elim) (fun g j h hv => by cases call <;> cases hv)
  | fin p res hp hf =>
    exact geninv_same I hl rfl rfl rfl rfl hsame (fun h => h.elim) (thrOK_idle _ t _)
  | cas p g v vi hp hpc hc hop =>
    refine geninv_put (g0 := g) (j0 := p.key % 2 ^ g) (c := .node s.heap.length) I hl rfl rfl rfl rfl
      (Or.inl (by show cellOf s g p.key ≠ _; rw [hc]; simp)) (fun h => by cases h) ?_
      (hlock_of_lockSame I (LockSame.append _ _)) (fun h => h.elim) (thrOK_idle _ t _)
    intro t1 l1 h _ h1
    exact no_vcell_of_not_node I (by show ∀ h, cellOf s g p.key ≠ _; rw [hc]; simp) t1 l1 h h1
  | store p g h pred hit hnext hp hpc =>
    obtain ⟨pc, call⟩ := l
    simp only at hp hpc
    subst hp hpc
    obtain ⟨e1, e2, e3, -, -, e6, e7⟩ := storeAt_shape (tick s) g p pred hit hnext
    have e1 : (storeAt (tick s) g p pred hit hnext).1.threads = s.threads := e1
    have e2 : (storeAt (tick s) g p pred hit hnext).1.cur = s.cur := e2
    have e3 : (storeAt (tick s) g p pred hit hnext).1.resizing = s.resizing := e3
    have e6 : LockSame s.heap (storeAt (tick s) g p pred hit hnext).1.heap := e6
    have e7 : (storeAt (tick s) g p pred hit hnext).1.tabs = s.tabs ∨
      ∃ c, c ≠ .moved ∧ (storeAt (tick s) g p pred hit hnext).1.tabs =
        s.tabs.modify g (fun row => row.set (p.key % 2 ^ g) c) := e7
    have hv0 : vcell s.cur { pc := Pc.wStore g h pred hit hnext, call := some p } = some (g, p.key % 2 ^ g, h) := rfl
    obtain ⟨hcell, -⟩ := T.valid _ _ _ hv0
    have hheld := T.held h rfl
    have hlock := hlock_of_lockSame (t := t) I e6
    have G := T.gen p g rfl rfl
    have hthr : (setT (storeAt (tick s) g p pred hit hnext).1 t
        { pc := .wUnlock g h (storeAt (tick s) g p pred hit hnext).2 false, call := some p }).threads =
        s.threads.set t { pc := .wUnlock g h (storeAt (tick s) g p pred hit hnext).2 false, call := some p } := by
      show (storeAt _ _ _ _ _ _).1.threads.set _ _ = _; rw [e1]
    have hheld' : ∀ h', Holds (Pc.wUnlock g h (storeAt (tick s) g p pred hit hnext).2 false) h' →
        h' < (storeAt (tick s) g p pred hit hnext).1.heap.length ∧
        lockAt (storeAt (tick s) g p pred hit hnext).1.heap h' = some t := by
      intro h' hh'; cases hh'
      exact ⟨by have := e6.1; omega, by rw [e6.2 h hheld.1]; exact hheld.2⟩
    rcases e7 with e7 | ⟨c, hcm, e7⟩
    · refine geninv_same I hl hthr e2 e3 e7 hlock (by intro h; exact h.elim) ?_
      refine thrOK_w _ _ (fun h => h) ?_ hheld' (fun g j h hv => by cases hv)
      intro p' g' hp' hg'; cases hp'; cases hg'
      change g ≤ (storeAt _ _ _ _ _ _).1.cur + 1 ∧ (g = (storeAt _ _ _ _ _ _).1.cur + 1 →
        cellT (storeAt _ _ _ _ _ _).1.tabs (storeAt _ _ _ _ _ _).1.cur (p.key % 2 ^ (storeAt _ _ _ _ _ _).1.cur) = _)
      rw [e2, e7]; exact G
    · have hnm : cellAt s g (p.key % 2 ^ g) ≠ .moved := by rw [hcell]; simp
      refine geninv_put (g0 := g) (j0 := p.key % 2 ^ g) (c := c) I hl hthr e2 e3 e7
        (Or.inl hnm) (fun h => absurd h hcm) (no_vcell_of_mutex I hl hv0) hlock (by intro h; exact h.elim) ?_
      refine thrOK_w _ _ (fun h => h) ?_ hheld' (fun g j h hv => by cases hv)
      intro p' g' hp' hg'; cases hp'; cases hg'
      change g ≤ (storeAt _ _ _ _ _ _).1.cur + 1 ∧ (g = (storeAt _ _ _ _ _ _).1.cur + 1 →
        cellT (storeAt _ _ _ _ _ _).1.tabs (storeAt _ _ _ _ _ _).1.cur (p.key % 2 ^ (storeAt _ _ _ _ _ _).1.cur) = _)
      rw [e2, e7]
      refine ⟨G.1, fun e => ?_⟩
      rw [cellT_put_ne _ _ (by intro ⟨h1, _⟩; omega)]
      exact G.2 e
  | unlockFin p g h res hp hpc =>
    obtain ⟨pc, call⟩ := l
    simp only at hp hpc
    subst hp hpc
    exact geninv_same I hl rfl rfl rfl rfl
      (hlock_of_modify I (Or.inr (T.held h rfl).2)) (fun h => h.elim) (thrOK_idle _ t _)
  | casMoved j hp hpc hc =>
    obtain ⟨pc, call⟩ := l
    simp only at hp hpc
    subst hp hpc
    have R := T.tres trivial
    refine geninv_put (g0 := s.cur) (j0 := j) (c := .moved) I hl rfl rfl rfl rfl (Or.inr rfl) (fun _ => ⟨rfl, R⟩) ?_
      hsame (fun _ => trivial) ?_
    · intro t1 l1 h _ h1
      exact no_vcell_of_not_node I (by rw [hc]; simp) t1 l1 h h1
    · exact thrOK_t _ _ R trivial (fun j' hj' => by cases hj') (fun h => by cases h)
        (fun h hh => hh.elim) (fun g j h hv => by cases hv)
  | build j h hp hpc =>
    obtain ⟨pc, call⟩ := l
    simp only at hp hpc
    subst hp hpc
    have R := T.tres trivial
    have hv0 : vcell s.cur { pc := Pc.tBuild j h, call := none } = some (s.cur, j, h) := rfl
    obtain ⟨hcell, -⟩ := T.valid _ _ _ hv0
    have hheld := T.held h rfl
    have ls := splitBinB_lockSame (bitAt s.cur) s.heap (chainFrom s.heap s.heap.length (some h))
    refine geninv_same I hl rfl rfl rfl rfl (hlock_of_lockSame I ls) (fun _ => trivial) ?_
    refine thrOK_t _ _ R trivial (fun j' hj' => by cases hj'; exact T.idx _ rfl) (fun h => by cases h) ?_ ?_
    · intro h' hh'; cases hh'
      exact ⟨by have := ls.1; show h < (splitBinB _ _ _).1.length; omega, by
        show lockAt (splitBinB _ _ _).1 h = _; rw [ls.2 h hheld.1]; exact hheld.2⟩
    · intro g' j' h' hv
      cases hv
      exact ⟨hcell, rfl⟩

  | storeLow j h lo hg hp hpc =>
    obtain ⟨pc, call⟩ := l
    simp only at hp hpc
    subst hp hpc
    have R := T.tres trivial
    have hv0 : vcell s.cur { pc := Pc.tStoreLow j h lo hg, call := none } = some (s.cur, j, h) := rfl
    obtain ⟨hcell, -⟩ := T.valid _ _ _ hv0
    have hj := T.idx j rfl
    have hnm : cellAt s s.cur j ≠ .moved := by rw [hcell]; simp
    refine geninv_put (g0 := s.cur + 1) (j0 := j) (c := cellOfHead lo) I hl rfl rfl rfl rfl
      (Or.inl (I.nextOK j)) (fun h => absurd h (cellOfHead_ne_moved lo))
      (no_vcell_child I hl trivial hnm (Nat.mod_eq_of_lt hj)) hsame (fun _ => trivial) ?_
    refine thrOK_t _ _ R trivial (fun j' hj' => by cases hj'; exact hj) (fun h => by cases h)
      (fun h' hh' => T.held h' hh') ?_
    intro g' j' h' hv
    cases hv
    refine ⟨?_, rfl⟩
    show cellT (s.tabs.modify (s.cur + 1) _) s.cur j = _
    rw [cellT_put_ne _ _ (by intro ⟨h1, _⟩; omega)]
    exact hcell
  | storeHigh j h hg hp hpc =>
    obtain ⟨pc, call⟩ := l
    simp only at hp hpc
    subst hp hpc
    have R := T.tres trivial
    have hv0 : vcell s.cur { pc := Pc.tStoreHigh j h hg, call := none } = some (s.cur, j, h) := rfl
    obtain ⟨hcell, -⟩ := T.valid _ _ _ hv0
    have hj := T.idx j rfl
    have hnm : cellAt s s.cur j ≠ .moved := by rw [hcell]; simp
    refine geninv_put (g0 := s.cur + 1) (j0 := j + 2 ^ s.cur) (c := cellOfHead hg) I hl rfl rfl rfl rfl
      (Or.inl (I.nextOK _)) (fun h => absurd h (cellOfHead_ne_moved hg))
      (no_vcell_child I hl trivial hnm (high_mod j s.cur hj)) hsame (fun _ => trivial) ?_
    refine thrOK_t _ _ R trivial (fun j' hj' => by cases hj'; exact hj) (fun h => by cases h)
      (fun h' hh' => T.held h' hh') ?_
    intro g' j' h' hv
    cases hv
    refine ⟨?_, rfl⟩
    show cellT (s.tabs.modify (s.cur + 1) _) s.cur j = _
    rw [cellT_put_ne _ _ (by intro ⟨h1, _⟩; omega)]
    exact hcell
  | storeMoved j h hp hpc =>
    obtain ⟨pc, call⟩ := l
    simp only at hp hpc
    subst hp hpc
    have R := T.tres trivial
    have hv0 : vcell s.cur { pc := Pc.tStoreMoved j h, call := none } = some (s.cur, j, h) := rfl
    have hj := T.idx j rfl
    refine geninv_put (g0 := s.cur) (j0 := j) (c := .moved) I hl rfl rfl rfl rfl
      (Or.inr rfl) (fun _ => ⟨rfl, R⟩) (no_vcell_of_mutex I hl hv0) hsame (fun _ => trivial) ?_
    exact thrOK_t _ _ R trivial (fun j' hj' => by cases hj'; exact hj) (fun h => by cases h)
      (fun h' hh' => T.held h' hh') (fun g j h hv => by cases hv)
  | commit hp hpc =>
    obtain ⟨pc, call⟩ := l
    simp only at hp hpc
    subst hp hpc
    have R := T.tres trivial
    have hall := T.commit rfl
    have nT : ∀ (t1 : Nat) (l1 : Local), t1 ≠ t → s.threads[t1]? = some l1 → ¬ isT l1.pc :=
      fun t1 l1 n1 h1 hT1 => n1 (I.uniqT _ _ _ _ h1 hl hT1 trivial)
    have hlen : s.tabs.length = s.cur + 2 := by have := I.len; rw [R] at this; simpa using this
    refine ⟨?_, I.rows, ?_, ?_, ?_, ?_, ?_⟩
    · show s.tabs.length = s.cur + 1 + 1 + 0; omega
    · intro g j hg hj
      show cellT s.tabs g j = _
      by_cases h : g < s.cur
      · exact I.old g j h hj
      · have : g = s.cur := by have : g < s.cur + 1 := hg; omega
        subst this
        exact hall j hj
    · intro j
      show cellT s.tabs (s.cur + 1 + 1) j ≠ _
      have e : s.tabs.getD (s.cur + 1 + 1) [] = [] := by
        rw [getD_eq, List.getElem?_eq_none (by omega)]; rfl
      unfold cellT
      rw [e]; simp
    · intro j hm
      exact absurd hm (I.nextOK j)
    · intro t1 t2 l1 l2 h1 h2 hT1 hT2
      rcases get_set h1 with ⟨e1, f1⟩ | ⟨n1, h1⟩
      · rw [f1] at hT1; exact hT1.elim
      · exact absurd hT1 (nT _ _ n1 h1)
    · intro t1 l1 h1
      rcases get_set h1 with ⟨rfl, rfl⟩ | ⟨n1, h1⟩
      · exact thrOK_idle _ _ _
      · have T1 := I.thr t1 l1 h1
        have hnT := nT _ _ n1 h1
        refine thrOK_w _ _ hnT ?_ T1.held ?_
        · intro p g hp hg
          obtain ⟨a, -⟩ := T1.gen p g hp hg
          exact ⟨by show g ≤ s.cur + 1 + 1; omega, fun e => by have : g = s.cur + 1 + 1 := e; omega⟩
        · intro g j h hv
          have : vcell s.cur l1 = some (g, j, h) := by rw [vcell_cur_indep (c' := s.cur + 1) hnT]; exact hv
          exact T1.valid g j h this

/-- the generation invariant holds initially -/
theorem init_geninv (n : Nat) : GenInv (init n) := by
  refine ⟨rfl, ?_, ?_, ?_, ?_, ?_, ?_⟩
  · intro g row h
    cases g with
    | zero => cases h; rfl
    | succ g => cases h
  · intro g j hg; cases hg
  · intro j
    show cellT [[Cell.empty]] 1 j ≠ _
    unfold cellT; simp
  · intro j hm
    have : cellT [[Cell.empty]] 0 j = .moved := hm
    unfold cellT at this
    cases j <;> simp at this
  · intro t t' l l' h1 _ hT
    have : l = {} := by
      have := List.mem_of_getElem? h1
      exact List.eq_of_mem_replicate this
    rw [this] at hT; exact hT.elim
  · intro t l h1
    have : l = {} := by
      have := List.mem_of_getElem? h1
      exact List.eq_of_mem_replicate this
    rw [this]; exact thrOK_idle _ _ _

theorem step_geninv {s s' : State} {t : Nat} {inv : Option (Nat × KOp)} {rz : Bool} {pick : Nat} (I : GenInv s)
    (hs : step s t inv rz pick = some s') : GenInv s' := by
  cases hl : s.threads[t]? with
  | none => unfold step stepG at hs; rw [hl] at hs; cases hs
  | some l => exact stepK_geninv I hl (step_stepK hl hs)

theorem reachable_geninv {n : Nat} {s : State} (hr : Reachable n s) : GenInv s := by
  induction hr with
  | init => exact init_geninv n
  | step t inv rz pick _ hs ih => exact step_geninv ih hs

end Flurry.Proto.BinN
