import Flurry.Lemmas.BinNOrd
import Flurry.Lemmas.BinXSurgery
/-! # Proto/BinN: heap segments and chains under the order `ord cr` with `cr` a SET of copies

The `cr`-dependent lemmas of `Lemmas/BinXChain` and `Lemmas/BinXSurgery`, re-proved for
`CR := Nat → Bool` of `Lemmas/BinNOrd`. The definitions `IsSeg`, `IsChain`, `nodeAt`, `chainH`, … and
their `cr`-independent lemmas are those of `Proto/BinX`. -/
namespace Flurry.Proto.BinN
open Flurry.Lin
open Flurry.Proto.BinX (NodeS Cell Pending dflt chainFrom cellHead cellOfHead nodeAt nodeAt_eq nodeAt_of_some getElem?_nodeAt nodeAt_modify nodeAt_append_left nodeAt_append_new IsSeg IsChain chainH chainH_empty chainH_moved chainFrom_eq_of_isChain length_le_of_nodup_lt absIn KeysDistinct)

theorem ord_copy {cr : CR} {i : Nat} (h : isCopy cr i) : ord cr i = -(i : Int) - 1 := by
  unfold ord; rw [if_pos h]

theorem ord_not_copy {cr : CR} {i : Nat} (h : ¬ isCopy cr i) : ord cr i = (i : Int) := by
  unfold ord; rw [if_neg h]

theorem ord_inj {cr : CR} {i j : Nat} (h : ord cr i = ord cr j) : i = j := by
  unfold ord at h
  split at h <;> split at h <;> omega

theorem ord_le_self (cr : CR) (i : Nat) : ord cr i ≤ (i : Int) := by
  unfold ord; split <;> omega

theorem ord_ge (cr : CR) (i : Nat) : -(i : Int) - 1 ≤ ord cr i := by
  unfold ord; split <;> omega

theorem isCopy_addRange {cr : CR} {a b i : Nat} :
    isCopy (addRange cr a b) i ↔ isCopy cr i ∨ (a ≤ i ∧ i < b) := by
  unfold isCopy addRange
  simp

theorem ord_addRange_old {cr : CR} {a b i : Nat} (h : i < a) : ord (addRange cr a b) i = ord cr i := by
  by_cases hc : isCopy cr i
  · rw [ord_copy hc, ord_copy (isCopy_addRange.2 (Or.inl hc))]
  · rw [ord_not_copy hc, ord_not_copy]
    rw [isCopy_addRange]
    rintro (h1 | h1)
    · exact hc h1
    · omega

theorem ord_addRange_new {cr : CR} {a b i : Nat} (h1 : a ≤ i) (h2 : i < b) :
    ord (addRange cr a b) i = -(i : Int) - 1 :=
  ord_copy (isCopy_addRange.2 (Or.inr ⟨h1, h2⟩))

theorem nextOK_congr {cr cr' : CR} {heap : List NodeS} (hok : NextOK cr heap)
    (h : ∀ i, i < heap.length → cr' i = cr i) : NextOK cr' heap := by
  intro i n j hn hj
  obtain ⟨h1, h2⟩ := hok i n j hn hj
  have hi : i < heap.length := (List.getElem?_eq_some_iff.1 hn).1
  have e : ∀ x, x < heap.length → ord cr' x = ord cr x := by
    intro x hx
    have hiff : isCopy cr' x ↔ isCopy cr x := by unfold isCopy; rw [h x hx]
    by_cases hc : isCopy cr x
    · rw [ord_copy hc, ord_copy (hiff.2 hc)]
    · rw [ord_not_copy hc, ord_not_copy (fun h' => hc (hiff.1 h'))]
  rw [e i hi, e j h2]
  exact ⟨h1, h2⟩

/-- every node of a segment is at or above its start -/
theorem _root_.Flurry.Proto.BinX.IsSeg.lbN {cr : CR} {heap : List NodeS} (hok : NextOK cr heap) {a e : Option Nat} {l : List Nat}
    (h : IsSeg heap a l e) : ∀ j ∈ l, ∀ i, a = some i → ord cr i ≤ ord cr j := by
  induction h with
  | nil e => intro j hj; cases hj
  | cons hn hs ih =>
    rename_i i n l e
    intro j hj i' hi'
    cases hi'
    rcases List.mem_cons.1 hj with rfl | hj
    · exact Int.le_refl _
    · cases hnx : n.next with
      | none =>
        rw [hnx] at hs
        cases hs with
        | nil => cases hj
      | some b =>
        have := ih j hj b hnx
        have := (hok _ _ _ hn hnx).1
        omega

/-- every node of a segment is strictly below its end pointer -/
theorem _root_.Flurry.Proto.BinX.IsSeg.ubN {cr : CR} {heap : List NodeS} (hok : NextOK cr heap) {a e : Option Nat} {l : List Nat}
    (h : IsSeg heap a l e) : ∀ j ∈ l, ∀ x, e = some x → ord cr j < ord cr x := by
  induction h with
  | nil e => intro j hj; cases hj
  | cons hn hs ih =>
    rename_i i n l e
    intro j hj x hx
    rcases List.mem_cons.1 hj with rfl | hj
    · cases hl : l with
      | nil =>
        subst hl
        rw [IsSeg.nil_iff] at hs
        rw [hx] at hs
        exact (hok _ _ _ hn hs).1
      | cons b l' =>
        subst hl
        have h1 := ih b (List.mem_cons_self) x hx
        obtain ⟨hb, -⟩ := IsSeg.cons_iff.1 hs
        have := (hok _ _ _ hn hb).1
        omega
    · exact ih j hj x hx

/-- segments are strictly increasing in `ord` -/
theorem _root_.Flurry.Proto.BinX.IsSeg.sortedN {cr : CR} {heap : List NodeS} (hok : NextOK cr heap) {a e : Option Nat} {l : List Nat}
    (h : IsSeg heap a l e) : l.Pairwise (fun x y => ord cr x < ord cr y) := by
  induction h with
  | nil e => exact List.Pairwise.nil
  | cons hn hs ih =>
    rename_i i n l e
    refine List.pairwise_cons.2 ⟨?_, ih⟩
    intro j hj
    cases hnx : n.next with
    | none =>
      rw [hnx] at hs
      cases hs with
      | nil => cases hj
    | some b =>
      have := hs.lbN hok j hj b hnx
      have := (hok _ _ _ hn hnx).1
      omega

theorem _root_.Flurry.Proto.BinX.IsSeg.nodupN {cr : CR} {heap : List NodeS} (hok : NextOK cr heap) {a e : Option Nat} {l : List Nat}
    (h : IsSeg heap a l e) : l.Nodup :=
  (h.sortedN hok).imp (fun hab he => by rw [he] at hab; omega)

theorem _root_.Flurry.Proto.BinX.IsSeg.succ_noneN {cr : CR} {heap : List NodeS} (hok : NextOK cr heap) {a : Option Nat} {l : List Nat}
    (h : IsChain heap a l) {c : Nat} {n : NodeS} (hc : c ∈ l) (hn : heap[c]? = some n)
    (hnx : n.next = none) : ∀ j ∈ l, ord cr j ≤ ord cr c := by
  obtain ⟨l1, l2, n', rfl, hn', h1, h2⟩ := h.at_mem hc
  rw [hn] at hn'; cases hn'
  rw [hnx] at h2
  cases h2
  intro j hj
  rcases List.mem_append.1 hj with hj | hj
  · exact Int.le_of_lt (h1.ubN hok j hj c rfl)
  · rcases List.mem_cons.1 hj with rfl | hj
    · exact Int.le_refl _
    · cases hj

theorem _root_.Flurry.Proto.BinX.IsSeg.succ_someN {cr : CR} {heap : List NodeS} (hok : NextOK cr heap) {a : Option Nat} {l : List Nat}
    (h : IsChain heap a l) {c b : Nat} {n : NodeS} (hc : c ∈ l) (hn : heap[c]? = some n)
    (hnx : n.next = some b) : b ∈ l ∧ ∀ j ∈ l, ord cr j < ord cr b → ord cr j ≤ ord cr c := by
  obtain ⟨l1, l2, n', rfl, hn', h1, h2⟩ := h.at_mem hc
  rw [hn] at hn'; cases hn'
  rw [hnx] at h2
  cases h2 with
  | cons hb hs =>
    rename_i nb l2'
    refine ⟨by simp, ?_⟩
    intro j hj hjb
    rcases List.mem_append.1 hj with hj | hj
    · exact Int.le_of_lt (h1.ubN hok j hj c rfl)
    · rcases List.mem_cons.1 hj with rfl | hj
      · exact Int.le_refl _
      · have := (IsSeg.cons hb hs).lbN hok j hj b rfl
        omega

/-- a chain exists from every valid start -/
theorem exists_chain {cr : CR} {heap : List NodeS} (hok : NextOK cr heap) :
    ∀ (m : Nat) (st : Option Nat), (∀ i, st = some i → i < heap.length ∧ (heap.length : Int) - ord cr i ≤ m) →
      ∃ l, IsChain heap st l
  | _, none, _ => ⟨[], .nil _⟩
  | 0, some i, h => by
    have := h i rfl
    have := ord_le_self cr i
    omega
  | m + 1, some i, h => by
    have hi := h i rfl
    have hn : heap[i]? = some heap[i] := List.getElem?_eq_getElem hi.1
    obtain ⟨l, hl⟩ := exists_chain hok m heap[i].next (by
      intro j hj
      have := hok _ _ _ hn hj
      omega)
    exact ⟨i :: l, .cons hn hl⟩

theorem chainH_eq {cr : CR} {heap : List NodeS} (hok : NextOK cr heap) {c : Cell} {l : List Nat}
    (h : IsChain heap (cellHead c) l) : chainH heap c = l :=
  chainFrom_eq_of_isChain h (length_le_of_nodup_lt (h.nodupN hok) h.lt_length)

theorem chainH_isChain {cr : CR} {heap : List NodeS} (hok : NextOK cr heap) {c : Cell}
    (hc : ∀ h, c = .node h → h < heap.length) : IsChain heap (cellHead c) (chainH heap c) := by
  obtain ⟨l, hl⟩ := exists_chain hok (2 * heap.length + 1) (cellHead c) (by
    intro i hi
    have hil : i < heap.length := by
      cases c with
      | node h => cases hi; exact hc _ rfl
      | empty => cases hi
      | moved => cases hi
    have := ord_ge cr i
    exact ⟨hil, by omega⟩)
  rw [chainH_eq hok hl]; exact hl

theorem chainH_node {cr : CR} {heap : List NodeS} (hok : NextOK cr heap) {h : Nat} (hh : h < heap.length) :
    ∃ l, chainH heap (.node h) = h :: l := by
  have := chainH_isChain hok (c := .node h) (by intro h' e; cases e; exact hh)
  cases hc : chainH heap (.node h) with
  | nil => rw [hc] at this; cases this
  | cons a l =>
    rw [hc] at this
    obtain ⟨ha, -⟩ := IsSeg.cons_iff.1 this
    cases ha
    exact ⟨l, rfl⟩

theorem nextOK_modify_same {cr : CR} {heap : List NodeS} (hok : NextOK cr heap) {i : Nat} {f : NodeS → NodeS}
    (hf : ∀ n, (f n).next = n.next) : NextOK cr (heap.modify i f) := by
  intro a n b hn hb
  rw [List.getElem?_modify] at hn
  rw [List.length_modify]
  cases hn0 : heap[a]? with
  | none => rw [hn0] at hn; cases hn
  | some n0 =>
    rw [hn0] at hn
    simp only [Option.map_eq_map, Option.map_some, Option.some.injEq] at hn
    subst hn
    refine hok a n0 b hn0 ?_
    split at hb
    · rw [hf n0] at hb; exact hb
    · exact hb

theorem nextOK_append {cr : CR} {heap : List NodeS} (hok : NextOK cr heap) {new : NodeS} (hnew : new.next = none) :
    NextOK cr (heap ++ [new]) := by
  intro a n b hn hb
  rw [List.length_append, List.length_singleton]
  by_cases ha : a < heap.length
  · rw [List.getElem?_append_left ha] at hn
    have := hok a n b hn hb
    exact ⟨this.1, by omega⟩
  · have hlen : a < (heap ++ [new]).length := (List.getElem?_eq_some_iff.1 hn).1
    rw [List.length_append, List.length_singleton] at hlen
    have : a = heap.length := by omega
    subst this
    simp only [List.getElem?_concat_length, Option.some.injEq] at hn
    subst hn
    rw [hnew] at hb; cases hb

theorem nextOK_modify_next {cr : CR} {heap : List NodeS} (hok : NextOK cr heap) {i : Nat} {x : Option Nat}
    (hx : ∀ b, x = some b → ord cr i < ord cr b ∧ b < heap.length) :
    NextOK cr (heap.modify i (fun n => { n with next := x })) := by
  intro a n b hn hb
  rw [List.length_modify]
  rw [List.getElem?_modify] at hn
  cases hn0 : heap[a]? with
  | none => rw [hn0] at hn; cases hn
  | some n0 =>
    rw [hn0] at hn
    simp only [Option.map_eq_map, Option.map_some, Option.some.injEq] at hn
    subst hn
    split at hb
    · rename_i hia
      subst hia
      exact hx b hb
    · exact hok a n0 b hn0 hb

end Flurry.Proto.BinN
